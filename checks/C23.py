CONFIG = {
    "props": "props/C23.v",
    "runner": {"module": "Verif.model.AppStorageSpec", "ident": "check"},
    "harness": [{
        "name": "ledger", "pkg": "./ledger/", "run": "^TestVerifC23$",
        "files": ["ledger/zz_verif_c23_test.go"],
        "util": [("ledger", "ledger")],
        "env": {"quick": {"VERIF_C23_N": 36, "VERIF_C23_BLOCKS": 10},
                "thorough": {"VERIF_C23_N": 700, "VERIF_C23_BLOCKS": 16},
                "search": {"VERIF_C23_N": 120, "VERIF_C23_BLOCKS": 12}},
        "search_tier": "search",
        "timeout": {"quick": 900, "thorough": 3400, "search": 1500},
    }],
    "rule": "one case = one whole history of an application on a real Ledger (protocol 'future'): the application is created with random global / local schemas "
            "(0..3 integers and byte strings each) and funded; then 3..12 blocks of 1..4 application calls by 4 accounts: NoOp, OptIn, CloseOut, ClearState, "
            "UpdateApplication with a new global schema (AppSizeUpdates), DeleteApplication near the end. The approval and clear-state program is a fixed "
            "interpreter (assembled by the real assembler) that executes its application arguments as a list of 0..6 storage operations: box_create / "
            "box_resize / box_replace / box_put / box_del on 4 box names (incl. prefixes of each other, a 64-byte name, and refused empty / 65-byte names, "
            "sizes 0..40, 1024 and the refused MaxBoxSize+1, replacements inside and past the end), app_global_put / app_global_del and app_local_put / "
            "app_local_del (sender and Accounts[i], incl. invalid references and accounts that are not opted in) with integer and byte values, keys of 0..6 and "
            "64 / 65 bytes, values up to / over MaxAppBytesValueLen and MaxAppSumKeyValueLens, puts within and over the schema, type changes of existing keys, "
            "and explicit reject / err. The generator follows the observed state so that about two thirds of the calls commit. Every call goes through "
            "BlockEvaluator.TransactionGroup (generate mode); every block is validated by Ledger.Validate (validate mode) and added. Observed per call: result class "
            "(ok / rejected / logic error / other) and the program's logs (what box_create and box_del pushed); per block, through the ledger: TotalBoxes and "
            "TotalBoxBytes of the application account, the box listing (LookupKeysByPrefix + LookupKv), the global state and GlobalStateSchema, every account's "
            "local state and AppLocalState.Schema. spec_state (the property itself) is evaluated on every observed block state. A history is non-trivial when at "
            "least 3 calls with a non-empty script commit; distinct = distinct case lines. History 0 is scripted: it replays on the real code the observation "
            "C23_update_after_creator_closeout (an UpdateApplication by another account in the block in which the creator closed out of its own application is "
            "refused by a recovered panic) together with the neighbouring accepted cases (next block; sent by the creator; size change charged to the creator).",
    "exhaustive": {"quick": False, "thorough": False},
    "explanation": "theorems hold for every history of calls with arbitrary scripts (induction over histories, scripts and operations; invariant Inv of "
                   "proofs/AppStorageInv.v), all schemas and all values of the four consensus limits; the harness validates the transcription against the real "
                   "AVM + evaluator + ledger and evaluates the property on every block state the ledger reports",
    "assumptions": ["basics.AddSaturate / SubSaturate behave as their C45 transcriptions at width 64 (proved exact in C45 and compared with the code there)",
                    "declared schema entries are < 2^64 - 1 (WellFormed bounds them by MaxGlobalSchemaEntries = 64 / MaxLocalSchemaEntries = 16)",
                    "the box bytes ever requested by a history stay below 2^64 (volume; > 5*10^14 box operations, excluded by the minimum balance requirement)",
                    "a program's writes are kept only if it passes and a failing transaction is discarded as a whole (child cows of StatefulEval / TransactionGroup: C19); "
                    "C23_put_writes_before_check shows setKey alone does not have this property",
                    "box budget / box reference / account availability checks of the AVM are granted (C35); the harness stays within them",
                    "the application's creator is known (account 1 in the harness); AppParams.SizeSponsor and 'the creator closed out in this block' are part of the model's state "
                    "because roundCowState.putAppParams + AccountDeltas.ModifiedAccounts make an update fail on them (observation reported to the lead)",
                    "boxes, global and local state of one application id are only touched by that application's own program (app_box_* access to another application's "
                    "boxes, AVM v13+, is not modelled; keys of different applications are disjoint by MakeBoxKey / the resource index)"],
    "trusted_base": ["modelled: ledger/eval/applications.go NewBox/SetBox/DelBox, data/transactions/logic/box.go lengthChecks + box{Create,Resize,Replace,Put,Del}Impl + "
                     "replaceCarefully, ledger/eval/appcow.go setKey/delKey/updateCounts/checkCounts/AllocateApp/DeallocateApp/SetAppGlobalSchema, "
                     "roundCowBase.getStorageCounts/getStorageLimits (block boundary), opAppGlobalPut/Del + opAppLocalPut/Del length and account rules, and the "
                     "storage-relevant steps of apply.ApplicationCall (opt-in before, close-out / delete / update after the program, ClearState) as Gallina "
                     "(coq/model/AppStorage.v); cow layering is abstracted to 'commit on pass, discard on failure'",
                     "the interpreter TEAL program of the harness (harness/go/ledger/zz_verif_c23_test.go) and the real assembler",
                     "only tested (not proved): everything between the model's operations and the bytes in the tracker database (applyStorageDelta, kv deltas, "
                     "trackerdb) -- exercised by reading every block state back through the ledger"],
}
