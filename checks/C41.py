CONFIG = {
    "props": "props/C41.v",
    "runner": {"module": "Verif.model.MsgpackCheck", "ident": "check"},
    "gen": [{
        "cmd": "python3 {VERIF}/harness/gen/c40_schemas/gen.py {VERIF} {REPO} {OUT} {WORK}",
        "out": "gen/Schemas.v", "cwd": "{REPO}", "timeout": 1500,
    }],
    "harness": [{
        "name": "decode", "pkg": "./agreement/", "run": "^TestVerifC41$",
        "files": ["agreement/zz_verif_c40_test.go", "util/verifbounds/reg.go"],
        "util": [("agreement", "agreement")],
        "search_tier": "quick",   # violation search after a proof / correspondence break: more seeds of the quick mix
        "env": {"quick": {"VERIF_C41_BASES": 1, "VERIF_C41_LAX": 4, "VERIF_C41_BUDGET": 20000},
                "thorough": {"VERIF_C41_BASES": 5, "VERIF_C41_LAX": 8, "VERIF_C41_BUDGET": 60000, "VERIF_C41_SITES": 30}},
        "timeout": {"quick": 900, "thorough": 3000},
    }],
    "rule": "every input goes through the real protocol.Decode into a fresh object of each of the 54 root types (own recover around it: an "
            "escaping panic is a violation) and through the model decoder.  Inputs per type: canonical encodings of random instances; "
            "truncations; trailing bytes; random byte substitutions / insertions / deletions; header surgery on every msgpack object found by "
            "a schema-less scan (length +1/-1/0/2^31-1/2^32-1/random, wider header forms, str<->bin, scalar -> nil / negative / 2^64-1, "
            "object -> nil, duplicated / dropped / unknown struct key); valid NON-canonical re-encodings written by a schema-directed lax "
            "encoder (wider ints and headers, str for bin, nil for zero, shuffled and explicit-zero struct fields, struct-from-array, "
            "shuffled map entries, long/short fixed byte arrays) and mutations of those; EVERY allocbound site of EVERY schema (158 sites: slices, maps, byte strings, strings; "
            "each struct level of the owning generated method in its struct-from-map AND its struct-from-array branch) with a well-formed "
            "collection of exactly bound and of bound+1 minimal elements (nil / smallest value satisfying `required`; Payset 100000 incl.) "
            "plus the header alone, accept expected at bound (counted in stats.json allocbound_sites); instances resized by reflection to "
            "exactly the declared allocbound and to allocbound+1 at the bounded sites of random instances; random byte strings; inner transactions nested 1..400 "
            "(thorough ..5000) levels around the AllowableDepth limit and raw nested headers; every recursion point of the schemas (9 cycles "
            "SignedTxnWithAD/EvalDelta via 9 roots) unrolled 1..300 (5000 for SignedTxnWithAD/SignedTxnInBlock/EvalDelta) times in the "
            "map form AND in every positional (struct-from-array) form combination of the struct levels on the cycle; the duplicate-key map merge.  spec_ok (on the "
            "implementation only): no panic, and on success every collection of the decoded object within its declared allocbound and its non-zero parts nested at most "
            "AllowableDepth called types deep.  corr: "
            "same outcome class and same decoded tree as the model (modulo normal form).  Non-trivial = input inside the model (not Unm); "
            "distinct = distinct case lines.",
    "exhaustive": {"quick": False, "thorough": False},
    "explanation": "theorems hold for every schema environment, root type, AllowableDepth and ARBITRARY input bytes (unbounded); the cases "
                   "sample the input space to tie the decoder model to the generated code and to search for panics / oversized collections",
    "assumptions": [
        "outside the model (model answers Unm, only spec_ok is evaluated): a struct key that occurs twice (decoding into a non-fresh target), "
        "byte strings / strings / byte arrays given as arrays of integers (go-codec compatibility slow path), a map header where an array "
        "header is expected (flattened map)",
        "memory safety / absence of Go runtime crashes is observed by the harness, not proved; root types with an `allocbound=-` slice/map "
        "(trackerdb.TxTailRound) are decoded in a child process (ulimit -v 16 GiB + RLIMIT_AS, 120 s hard timeout), a dead child is the "
        "observation (panic ...)",
        "collections with `allocbound=-` (and the elements of [][]byte without their own bound) are declared unbounded: bounded only by "
        "the message size",
    ],
    "trusted_base": [
        "modelled: github.com/algorand/msgp v1.1.64 msgp/read_bytes.go readers and the generated UnmarshalMsgWithState shapes of "
        "gen/unmarshal.go + gen/spec.go, protocol/codec.go Decode/AllowableDepth (coq/model/Msgpack.v [dec]); the generated */msgp_gen.go "
        "files are tied by the correspondence run only",
        "translator harness/go/agreement/zz_verif_c40_test.go:TestVerifC40Gen + harness/gen/c40_schemas/gen.py (schema table incl. the "
        "DECLARED allocbounds evaluated in the running program; at-bound / over-bound cases exercise every bounded site kind)",
    ],
}
