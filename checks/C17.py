CONFIG = {
    "props": "props/C17.v",
    "runner": {"module": "Verif.model.MerkleTrieStoreCheck", "ident": "check"},
    "harness": [{
        "name": "merkletrie", "pkg": "./crypto/merkletrie/", "run": "^TestVerifC17$",
        "files": ["crypto/merkletrie/zz_verif_c17_test.go"],
        "util": [("crypto/merkletrie", "merkletrie")],
        "env": {
            "quick": {"VERIF_C17_KEYS": 4, "VERIF_C17_LEN": 4, "VERIF_C17_HASH_EVERY": 10,
                      "VERIF_C17_RANDOM": 150, "VERIF_C17_RANDOM_OPS": 120, "VERIF_C17_CYCLES": 1500, "VERIF_C17_MALFORMED": 200},
            "thorough": {"VERIF_C17_KEYS": 4, "VERIF_C17_LEN": 5, "VERIF_C17_HASH_EVERY": 8, "VERIF_C17_STORE_EVERY": 5,
                         "VERIF_C17_RANDOM": 3000, "VERIF_C17_RANDOM_OPS": 200, "VERIF_C17_CYCLES": 10000, "VERIF_C17_MALFORMED": 3000},
        },
        "timeout": {"quick": 600, "thorough": 3000},
    }],
    "rule": "EXHAUSTIVE: every sequence of length <= L (quick 4, thorough 5; all prefixes are cases too) over the alphabet "
            "{Add k, Delete k : k in a universe of 4 three-byte keys sharing prefixes} + {Commit, Evict(true), Evict(false), reload from the committer}, "
            "each followed by RootHash, the page configuration rotating over 7 MemoryConfigs (2..512 nodes/page, cache targets 0..10000, fill factors 0..1, "
            "fan-out thresholds 1..64); plus random long sequences over random 32-byte (and 1..6-byte) keys with forced shared prefixes under random page "
            "configurations, plus commit/evict/reload cycles with branch-local changes under tiny page configurations (1500 / 10000 sequences), plus a malformed stream (wrong lengths, empty elements). Observed: every Add/Delete/Commit/Evict result, every RootHash digest, "
            "the final digest vs the digest of a fresh trie built from the sorted final set, and the stored trie read back node by node. "
            "Digests are recomputed by the model's own SHA-512/256 on every 10th (8th) exhaustive case, 1/10 (1/8) of the random and 1/40 (1/32) of the cycle sequences. "
            "For the same runs (quick: all exhaustive sequences, thorough: every 5th; all regression and cycle sequences, 1/8 of the random ones) a second case (st ...) carries the node/page structure of the "
            "real cache after EVERY operation (in-memory nodes, decoded stored pages, root page, pendingCreated, pendingDeletionPages, deferedPageLoad, the ids "
            "re-allocated by the commit, the pages released by Evict): the store model (MerkleTrieStore.v) is stepped with these choices and must equal the dump "
            "after every step; spec on the dump itself: stored pages alone unfold to canon(committed set), memory-over-pages to canon(current set). "
            "A case is non-trivial when at least two Add/Delete calls changed the set (seq) / it contains a re-allocating commit, a releasing Evict or a reload (st); "
            "distinct = distinct case lines.",
    "exhaustive": {"quick": True, "thorough": True},
    "explanation": "theorems: for every finite history of Add/Delete/Commit/Evict/reload/RootHash over byte strings of any length the logical trie "
                   "(transcribed node.add/remove/find) equals canon(set) and all results equal the set semantics, for every hash function (unbounded); "
                   "the paged node store (ids, pages, created/deleted bookkeeping, deferred page load, commit with any admissible re-allocation, evict, reload) "
                   "is modelled and proved to refine the logical trie for every page size and eviction choice, incl. 'the stored pages contain every node reachable "
                   "from the committed root' and a refutation witness for the eviction rule before fixes/C17.patch; NOT proved: that cache.go's own re-allocation is "
                   "always admissible / writes exactly the model's pages (checked against the dumps of every store case), digest caching, page byte encoding; "
                   "'exhaustive' refers to the stated op alphabet / length bound only",
    "assumptions": ["crypto.Hash is SHA-512/256 (the theorems hold for an arbitrary hash function; the Gallina SHA-512/256 is only used to recompute digests in the correspondence run)",
                    "the Committer stores and returns pages faithfully (the package's InMemoryCommitter is used; storage failures / crashes in the middle of Commit are out of scope)"],
    "trusted_base": ["modelled: crypto/merkletrie node.go (find/add/remove/calculateHash pre-image) and trie.go (Add/Delete/RootHash/Commit/Evict, MakeTrie reload) as a logical trie (coq/model/MerkleTrie.v)",
                     "modelled: cache.go node ids / pages / bookkeeping / commit re-allocation (as any renaming passing rho_ok) / evict / reload (coq/model/MerkleTrieStore.v), compared with dumps of the real cache after every operation",
                     "not modelled: LRU order and cachedNodeCount (any eviction choice is covered by the theorems), cached digests in node.hash, page byte encoding",
                     "coq/model/MerkleTrieSha.v: Gallina transcription of SHA-512/256 used to recompute digests (validated against crypto.Hash by every hashing case)"],
    "level_note": "proof for the logical trie and for the paged-store model; admissibility of cache.go's own re-allocation choices is tested (root-hash theorems keep *_partial)",
}
