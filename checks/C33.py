CONFIG = {
    "props": "props/C33.v",
    "runner": {"module": "Verif.model.AvmCodecCheck", "ident": "check"},
    # translator shared with C31/C34: OpSpecs, opsByOpcode[v] as built by init(), field groups
    # (names, versions), dumped from the running package into coq/gen/AvmTables.v
    "gen": [{
        "cmd": "{VERIF}/harness/gen/avmtables/gen.sh {VERIF} {REPO} {OUT} {WORK}",
        "out": "gen/AvmTables.v", "cwd": "{REPO}", "timeout": 900,
    }],
    "harness": [{
        "name": "logic", "pkg": "./data/transactions/logic/", "run": "^TestVerifC33$",
        "files": ["data/transactions/logic/zz_verif_c33_test.go",
                  "data/transactions/logic/zz_verif_avmenv_test.go"],
        "util": [("data/transactions/logic", "logic")],
        "env": {"quick": {"VERIF_C33_A": 3000, "VERIF_C33_D": 3000},
                "thorough": {"VERIF_C33_A": 60000, "VERIF_C33_D": 60000}},
        "timeout": {"quick": 900, "thorough": 3000},
    }],
    "rule": "a: programs generated from opsByOpcode[v] for every version 0..LogicVersion (every assemblable op of every version "
            "once alone; random sequences of the version's ops with random immediates of every kind, labels forward/backward/self/end, "
            "constant blocks, optional unreferenced or undefined labels, the three autosalt modes; a type-correct sub-stream accepted "
            "with type tracking on; hand-shaped layouts at the 1/2/3-byte varint and int16 branch-distance limits, switch/match "
            "tables, subroutines, constant blocks in dead code, constant lists at the 64 KiB line limit; directed cascades for findBranchSizes: "
            "k = 1..6 overlapping v13+ varint branches, forward and backward, each exactly at the 63/64 resp. 8191/8192 distance once the "
            "next one has its final size, so that exactly k shrinking sweeps are needed, 1-3 chains in a row, mixed with switch tables), printed with the ops' names "
            "and the real field names, through the real assembler, static check, disassembler and two re-assemblies. d: raw bytecode "
            "from a table-driven encoder (non-minimal varints, any field byte, branch offsets on and off instruction boundaries, "
            "byte mutations, truncation; every field byte of every field-taking op) through the real static check, disassembler and "
            "re-assemblies plus one more disassemble/assemble round. Non-trivial: a when the assembler accepted a non-empty program, "
            "d when the static check passed and the re-assembly succeeded; distinct = distinct case lines.",
    "exhaustive": {"quick": False, "thorough": False},
    "explanation": "theorems quantify over all instructions valid per the regenerated table, all programs of any length and all byte "
                   "strings; ops x versions are enumerated completely (one instruction each), sequences and layouts are sampled",
    "assumptions": [
        "ProgramHashIsEdwards25519Point (SHA-512/256 of the program + curve decompression) is abstract: the harness reports the bit "
        "for the unsalted program and checks the minimal-salt rule itself",
        "the text layer (tokenizer, mnemonic and field-name lookup, number / byte literal syntax, pragmas) is tied to the model only "
        "by the correspondence run",
        "type tracking is switched off for the re-assembly that must be byte-identical (the as-is re-assembly may be rejected: "
        "recorded finding c33_typetrack_pragma_lost)",
    ],
    "trusted_base": [
        "modelled: assembler.go asmDefault/asmArg/asmIntC/asmByteC/asmPushInt(s)/asmPushBytes(s)/asm{Int,Byte}CBlock (dead-code rule)/"
        "asmBranch2B/asmBranchVarint/asmSwitch/asmSubstring/asmItxnField/asmAppParamsSet, findBranchSizes, resolveLabels, "
        "prependCBlocks (version prefix), shouldAutoSalt + trailing salt, disassembleInstrumented/disassemble/parseIntImmArgs/"
        "parseByteImmArgs/parseLabels, encoding/binary (Put)Uvarint/(Put)Varint (coq/model/AvmCodec.v)",
        "translator harness/go/data/transactions/logic/zz_verif_avmtables_test.go (shared with C31/C34); constants "
        "LogicSigOffCurveVersion, varintBranchInitialSize, assemblerSaltSearchLimit are asserted by the harness",
    ],
    "level_note": "partial: proved for ALL inputs -- the binary instruction layer (uvarint/varint, encode/decode of every instruction "
                  "of every version incl. sub-opcodes, switch/match tables, pushints/pushbytess; programs of any length; canonical bytes "
                  "re-encode to themselves; lax decoding of non-canonical bytes refuted) and, for the assembler's label layer model, that "
                  "everything it accepts is the canonical encoding of a well-formed program (hence decodes to the same instructions), that "
                  "findBranchSizes terminates within its fuel, that every resolved varint branch fills its placeholder exactly and that every "
                  "written label offset decodes to the start of the labelled instruction. Tied only by the correspondence run: the "
                  "composition assemble(disassemble(b)) = b at the label level (label recovery + same first pass), the off-curve salt, the static check of assembled programs, and the whole text layer (tokenizer, "
                  "names, literals, pragmas, type tracker).",
}
