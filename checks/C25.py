CONFIG = {
    "props": "props/C25.v",
    "runner": {"module": "Verif.model.RewardsSpec", "ident": "check"},
    "harness": [{
        "name": "rewards", "pkg": "./data/bookkeeping/", "run": "^TestVerifC25$",
        "files": ["data/bookkeeping/zz_verif_c25_test.go"],
        "util": [("data/bookkeeping", "bookkeeping")],
        "env": {"quick": {"VERIF_C25_N": 4000}, "thorough": {"VERIF_C25_N": 120000}},
        "timeout": {"quick": 600, "thorough": 3000},
    }, {
        "name": "pool", "pkg": "./ledger/eval/", "run": "^TestVerifC25Pool$",
        "files": ["ledger/eval/zz_verif_c25pool_test.go"],
        "util": [("ledger/eval", "eval")],
        "env": {"quick": {"VERIF_C25POOL_N": 3000}, "thorough": {"VERIF_C25POOL_N": 60000}},
        "timeout": {"quick": 900, "thorough": 3000},
    }],
    "rule": "real RewardsState.NextRewardsState on: an exhaustive grid of tiny values (all 2x2 flag combinations, interval 0/1/2, "
            "refresh/no refresh, units 0..3); boundary-heavy random uint64 arguments (0, 1, 2^k+-1, 2^64-1, pool around MinBalance(+residue), "
            "units around rate+residue, level one quotient below 2^64, rate+residue around 2^64); realistic magnitudes under the parameter "
            "sets of every registered protocol version (read from config.Consensus at run time and passed in the case); 20-round chains. "
            "A case is non-trivial when the round refreshes the rate or the level moves; distinct = distinct case lines. "
            "Second harness (package ledger/eval): the real StartEvaluator on the package's in-memory test ledger; raw mode (header level given: "
            "boundary-heavy level pairs, units incl. 0, pool = units*increase + MinBalance +-1, = withdrawal +-1, = MinBalance +-1, overflowing products) "
            "and generate mode (StartEvaluator computes the level with NextRewardsState, then withdraws; overflowing rates, pool around MinBalance+rate+residue); "
            "observation = accepted + resulting pool balance / rejecting exit.",
    "exhaustive": {"quick": False, "thorough": False},
    "explanation": "theorems hold for all uint64 states/arguments and ALL values of the four consensus parameters read (unbounded); "
                   "the executable oracle is proved to determine the output uniquely, so every compared case checks all four numeric fields",
    "assumptions": ["Go unsigned arithmetic wraps modulo 2^64; integer division by zero panics (language specification)",
                    "basics.OAdd/OSub behave as their C45 transcriptions (proved exact in C45, compared with the code there)"],
    "trusted_base": ["modelled: data/bookkeeping/block.go RewardsState.NextRewardsState as Gallina (coq/model/Rewards.v); "
                     "ledger/eval/eval.go StartEvaluator segment 'Withdraw rewards from the pool' (level subtraction, Mul+SubA withdrawal, MinBalance-after check, "
                     "three error exits) as Gallina (coq/model/RewardsPool.v); the pool account is NotParticipating in the harness (Get(pool,true) = stored balance); "
                     "workaroundOverspentRewards (testnet hotfix rounds) not modelled"],
}
