CONFIG = {
    "props": "props/C25.v",
    "runner": {"module": "Verif.model.RewardsSpec", "ident": "check"},
    "harness": [{
        "name": "rewards", "pkg": "./data/bookkeeping/", "run": "^TestVerifC25$",
        "files": ["data/bookkeeping/zz_verif_c25_test.go"],
        "util": [("data/bookkeeping", "bookkeeping")],
        "env": {"quick": {"VERIF_C25_N": 4000}, "thorough": {"VERIF_C25_N": 120000}},
        "timeout": {"quick": 600, "thorough": 3000},
    }],
    "rule": "real RewardsState.NextRewardsState on: an exhaustive grid of tiny values (all 2x2 flag combinations, interval 0/1/2, "
            "refresh/no refresh, units 0..3); boundary-heavy random uint64 arguments (0, 1, 2^k+-1, 2^64-1, pool around MinBalance(+residue), "
            "units around rate+residue, level one quotient below 2^64, rate+residue around 2^64); realistic magnitudes under the parameter "
            "sets of every registered protocol version (read from config.Consensus at run time and passed in the case); 20-round chains. "
            "A case is non-trivial when the round refreshes the rate or the level moves; distinct = distinct case lines.",
    "exhaustive": {"quick": False, "thorough": False},
    "explanation": "theorems hold for all uint64 states/arguments and ALL values of the four consensus parameters read (unbounded); "
                   "the executable oracle is proved to determine the output uniquely, so every compared case checks all four numeric fields",
    "assumptions": ["Go unsigned arithmetic wraps modulo 2^64; integer division by zero panics (language specification)",
                    "basics.OAdd/OSub behave as their C45 transcriptions (proved exact in C45, compared with the code there)"],
    "trusted_base": ["modelled: data/bookkeeping/block.go RewardsState.NextRewardsState as Gallina (coq/model/Rewards.v); "
                     "the pool withdrawal in ledger/eval/eval.go StartEvaluator is NOT modelled here (C18)"],
}
