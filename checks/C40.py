_GEN = [{
    # translator: reflect.Type + codec tags (+ //msgp:allocbound directives, run-time values of the allocbound
    # expressions, call sites of the generated decoders) of the root types -> coq/gen/Schemas.v (+ JSON side table)
    "cmd": "python3 {VERIF}/harness/gen/c40_schemas/gen.py {VERIF} {REPO} {OUT} {WORK}",
    "out": "gen/Schemas.v", "cwd": "{REPO}", "timeout": 1500,
}]

CONFIG = {
    "props": "props/C40.v",
    "runner": {"module": "Verif.model.MsgpackCheck", "ident": "check"},
    "gen": _GEN,
    "harness": [{
        "name": "codec", "pkg": "./agreement/", "run": "^TestVerifC40$",
        "files": ["agreement/zz_verif_c40_test.go", "util/verifbounds/reg.go"],
        "util": [("agreement", "agreement")],
        "search_tier": "quick",   # violation search after a proof / correspondence break: more seeds of the quick mix
        "env": {"quick": {"VERIF_C40_N": 30}, "thorough": {"VERIF_C40_N": 400}},
        "timeout": {"quick": 900, "thorough": 3000},
    }],
    "rule": "for each of the 54 root types (transactions.SignedTxn/Transaction/SignedTxnInBlock/ApplyData/EvalDelta/Payset, "
            "bookkeeping.BlockHeader/Block, agreement vote/unauthenticatedVote/bundle/proposal/transmittedPayload/Certificate..., "
            "basics.AccountData, trackerdb/ledgercore records, crypto signatures, state proofs) N random instances from the "
            "repository's own protocol.RandomizeObject (4 option mixes incl. zero fields and all uint sizes; math/rand seeded from "
            "VERIF_SEED), plus honestly built objects with legal inner-transaction nesting 1..16 levels for the recursive roots "
            "(SignedTxnWithAD, SignedTxnInBlock, ApplyData, EvalDelta, Payset, Block, unauthenticatedProposal): value tree (by reflection along the generated schema), protocol.Encode (msgp) bytes, protocol.EncodeReflect "
            "(go-codec) bytes, protocol.Decode of the msgp bytes + value tree + re-encoding, least AllowableDepth accepted by the "
            "generated decoder.  spec_ok (on the implementation only): msgp bytes = go-codec bytes, decode succeeds iff the instance is "
            "well-typed, decoded tree = normal form of the instance, re-encoding = original bytes.  corr: model enc = bytes, model "
            "decode = decoded tree with no rest, model need = least depth.  Non-trivial = well-typed instance (an instance with a zero "
            "`required` field is legitimately rejected by the decoder and counted trivial); distinct = distinct case lines.",
    "exhaustive": {"quick": False, "thorough": False},
    "explanation": "theorems hold for every schema environment passing env_ok, every well-typed value and trailing bytes (unbounded); the "
                   "generated table is re-checked (env_ok by vm_compute) and the model is compared with both real encoders and the real "
                   "decoder on sampled instances of every root type",
    "assumptions": [
        "a Go object is identified with its value tree along the schema (reflection walk of the harness); nil and empty slices/maps in an "
        "omitempty field are the same object on the wire (normal form)",
        "values with collections longer than 2^32-1 are outside the model (the Go encoders truncate the length to uint32)",
        "map keys are integers, strings, byte arrays or named versions of these (true of every root type; checked by wtb)",
        "a pointer field does not point to a nil slice/map (its encoding could not be told from a nil pointer; no such type among the roots)",
    ],
    "trusted_base": [
        "modelled: github.com/algorand/msgp v1.1.64 msgp/write_bytes.go, msgp/read_bytes.go and the code shapes of gen/marshal.go, "
        "gen/unmarshal.go, gen/spec.go (coq/model/Msgpack.v); the ~30k lines of */msgp_gen.go and go-codec are tied by the correspondence "
        "run only",
        "translator harness/go/agreement/zz_verif_c40_test.go:TestVerifC40Gen + harness/gen/c40_schemas/gen.py (prints reflect.Type, codec "
        "tags, run-time allocbound values and the call sites read from msgp_gen.go as a Coq table; cross-checked by every enc case: a wrong "
        "field order / flag / call site shows up as a byte, value or depth difference)",
    ],
}
