CONFIG = {
    "props": "props/C31.v",
    "runner": {"module": "Verif.model.AvmC31Check", "ident": "check"},
    # translator shared with C34: same command, same output file
    "gen": [{
        "cmd": "{VERIF}/harness/gen/avmtables/gen.sh {VERIF} {REPO} {OUT} {WORK}",
        "out": "gen/AvmTables.v", "cwd": "{REPO}", "timeout": 900,
    }],
    "harness": [{
        "name": "logic", "pkg": "./data/transactions/logic/", "run": "^TestVerifC31$",
        "files": ["data/transactions/logic/zz_verif_c31_test.go",
                  "data/transactions/logic/zz_verif_avmenv_test.go",
                  "data/transactions/logic/zz_verif_avmtables_test.go"],
        "util": [("data/transactions/logic", "logic")],
        "env": {"quick": {"VERIF_C31_N": 12000, "VERIF_C31_REC": 100},
                "thorough": {"VERIF_C31_N": 300000, "VERIF_C31_REC": 60}},
        "timeout": {"quick": 900, "thorough": 3000},
        "search_tier": "quick",
    }],
    "level_note": "PARTIAL for 'without an internal crash': Go-level panics inside op functions are outside the model; that half "
                  "is decided only by the fuzz search (panicError must never be observed)",
    "rule": "e (all tiers, deterministic, ~15600 programs): a directed stream for every immediate kind with extreme encodings -- "
            "9/10-byte, overflowing, truncated and non-canonical varints around 2^63 / 2^64-1 / MinInt64 / MaxInt64 for the signed "
            "branch offsets of b/bz/bnz/callsub (incl. offsets that put pc+size+offset exactly on and just past MaxInt64), int16 "
            "offsets +-32767/-32768, switch/match tables with 255 labels (full, cut short, ending inside the table), huge pushint "
            "values and pushbytes / constant-block count and length prefixes, byte immediates 255 -- for versions 0..LogicVersion+1 "
            "and both modes, through the real Check* AND Eval* entry points (a panicError from either is a violation). "
            "d (all tiers, deterministic, ~75000 programs): degenerate operands for EVERY opcode of every version (each distinct spec "
            "at the version that introduced it and at LogicVersion; arg types and immediates from the running table), both modes where "
            "the op is allowed: byte operands empty / 1 byte / the documented length (declared bound, else 32/64/96/128/192) and +-1 / "
            "4096 bytes, all-zero and all-0xff; ints 0, 1, 2^32, 2^63, 2^64-1; every value of every field / group immediate (both "
            "ECDSA curves, all EC groups, base64 / json / vrf / block / mimc / poseidon2 selectors ...); full product of operand values "
            "when <= 320 combinations, else diagonals + one-at-a-time + all pairs of the first two and last two operands. "
            "f: one evaluation through EvalSignatureFull / EvalContract of a byte string drawn from: structured random programs "
            "(constant blocks, typed argument pushes, any instruction of the version with random immediates, canned shapes driving "
            "byte length / stack depth / recursion to their limits) 55%, mutations of those (byte flips, inserts, truncation) 30%, "
            "valid-opcode soup 10%, pure random bytes and odd version encodings 5%; versions 0..LogicVersion+3 uniformly, both modes, "
            "random LogicSig args (incl. too many / too large), budgets 40..20000 pooled or not, proto LogicSigVersion varied, mock "
            "ledger with accounts/asset/app/box. Observed with the Tracer hooks on every instruction: pc, remainingBudget, cx.cost, "
            "callstack, stack height, top-10 stack values (type, value / byte length) before and after, step() error class; run-wide "
            "max depth, max byte length, min remaining budget. Non-trivial: at least one instruction started; distinct = distinct case lines.",
    "exhaustive": {"quick": False, "thorough": False},
    "explanation": "theorems hold for every table, byte string, version, mode, state and op family meeting the stated contracts; "
                   "programs are sampled",
    "assumptions": [
        "budget contract of op functions (op_budget_ok): inner evaluations keep the pooled budget non-negative and whatever inner "
        "application calls add to the pool is bounded (grant); trivially true of ops that do not touch the pool",
        "stack-effect contract of op functions (op_effect_ok): below its declared returns an untrusted op leaves only values that "
        "were on the stack; the trusted ops (match, retsub, popn, dupn, pushbytess, pushints -- listed in the evidence from the "
        "running table) do not create over-long values",
        "Go-level panics inside op functions cannot be exhibited by the model (searched for by the harness only)",
    ],
    "trusted_base": [
        "modelled: eval.go GetOpSpec/begin/eval loop/step/remainingBudget, opcodes.go linearCost.compute/OpDetails.Cost "
        "(coq/model/AvmFrame.v); the op functions are abstract",
        "translator harness/go/data/transactions/logic/zz_verif_avmtables_test.go (shared with C34); cross-checked by the per-step "
        "replay: the frame model, fed the observed op outcome, must reproduce error class, next pc and cx.cost of every traced step",
        "error-text classifiers and Tracer-based observers in zz_verif_avmenv_test.go / zz_verif_c31_test.go",
    ],
}
