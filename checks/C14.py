CONFIG = {
    "props": "props/C14.v",
    "runner": {"module": "Verif.model.CatchpointLabelCheck", "ident": "check"},
    "harness": [{
        "name": "ledger", "pkg": "./ledger/", "run": "^TestVerifC14$",
        "files": ["ledger/zz_verif_c14_test.go"],
        "util": [("ledger", "ledger")],
        "env": {"quick": {"VERIF_C14_HIST": 10, "VERIF_C14_ROUNDS": 28, "VERIF_C14_HASH_EVERY": 5, "VERIF_C14_LEDGERS": 4},
                "thorough": {"VERIF_C14_HIST": 120, "VERIF_C14_ROUNDS": 44, "VERIF_C14_HASH_EVERY": 6, "VERIF_C14_LEDGERS": 5}},
        "timeout": {"quick": 900, "thorough": 3000},
        "search_tier": "quick",
    }],
    "rule": "one case = ONE generated history (14..28 rounds, thorough 22..44; prepared StateDeltas: 5-8 genesis accounts of all three statuses, "
            "payments, status changes incl. going online with fresh keys, rekeys, touched-but-unchanged accounts, closes with their resources, "
            "asset / app params + holdings life cycles, boxes of one app created / rewritten with the same or another value / deleted / recreated; "
            "box names of one length so that no two different entries share a leaf) replayed on 4 (5) REAL tracker stacks "
            "(accountUpdates + catchpointTracker + onlineAccounts + txTail under trackerRegistry on SQLite) that differ in commit schedule "
            "(after every block / every k blocks / random rounds incl. far behind / rare), reload points, CatchpointInterval (2..12), MaxAcctLookback (0..3), "
            "label-only vs catchpoint-file generation, POWER LOSSES (the last ledger of every history runs on an on-disk tracker DB with lazy flushes that run past catchpoint rounds; most of them are interrupted: the DB files are copied at the moment the tracker commit transaction is durable and the catchpoint tracker has not yet run its postCommitUnlocked, and the node that goes on is the reopened copy: recoverFromCrash finishes first stage / catchpoints from the unfinished-catchpoint rows), and merkletrie.MemoryConfig (5 configurations, 2..512 nodes per page, cache 0..100000); consensus "
            "CatchpointLookback 2/3/4/8, label format V7 or current. After every commit / reload: DB round, the root of a FRESH merkletrie.Trie opened over the "
            "committed pages, the first-stage record (root, totals, three digests) and every label created (captured from the tracker's log). Oracle (harness, "
            "independent of the model): fold of the deltas -> state_at(r) -> real leaf builders -> fresh in-memory trie root, ledgercore.MakeLabel. spec_ok: "
            "every observed root / first-stage record / label of every ledger equals the oracle's for that round. Model: roots and labels byte for byte with the "
            "Gallina SHA-512/256 on every 5th (6th) history and on the replays, otherwise through 'equals what the oracle leaf set gives'. Plus, every run, the "
            "REPLAY of the model witness C14_label_schedule_dependent_refuted on two real tracker stacks (V7 and current label format). "
            "A case is non-trivial when >= 2 ledgers and >= 1 label were compared; distinct = distinct case lines.",
    "exhaustive": {"quick": False, "thorough": False},
    "explanation": "theorems: for every history, every schedule of newBlock / committedUpTo / reload, every interval / lookbacks, every hash function, under "
                   "leaves_distinct (no two DIFFERENT keys ever share a leaf) the trie holds exactly the leaves of state_at(dbRound) and labels / roots are "
                   "schedule independent (unbounded induction over schedules and over the compacted deltas of a commit). Without leaves_distinct the property is "
                   "false (C14_label_schedule_dependent_refuted with the real builders and hash; C14_collision_schedule_dependent / _order_dependent for every leaf "
                   "function): recorded finding kv_leaf_collision_schedule_dependent_label, reproduced on the real code by the harness every run.",
    "assumptions": [
        "leaves_distinct: for accounts and resources it follows from C15 (leaf injective up to a hash collision); for KV entries it is a genuine restriction "
        "(C15 kv_leaf_key_value_boundary) - the generated histories use box names of one length, the replay violates it on purpose",
        "a StateDelta entry carries the complete new value of its key (C08: the evaluator writes both halves of a resource) and KvValueDelta.OldData is the "
        "value before the round (kv_old_ok); keys of one round are distinct (Go maps)",
        "C17 for the paged node store: the logical trie of the model is what merkletrie stores for every MemoryConfig (tested here with 5 configurations)",
        "the digests a first stage records besides the trie root (state-proof verification contexts, online accounts, online round params) are a function of "
        "the round: given with the history in the model, compared across the ledgers by spec_ok",
        "one consensus version per history (no protocol upgrade inside a commit range); crash points between the durable steps are C09",
    ],
    "trusted_base": [
        "modelled: ledger/acctupdates.go compactKvDeltas, acctdeltas.go makeCompactAccountDeltas / makeCompactResourceDeltas (first-touch order, newest value, old value "
        "from the DB), catchpointtracker.go accountsUpdateBalances, newBlock, calculateFirstStageRounds, produceCommittingTask, calculateCatchpointRounds, commitRound, "
        "postCommit, postCommitUnlocked / finishFirstStage / recordFirstStageInfo / finishCatchpoint / createCatchpoint (label only) / pruneFirstStageRecordsData, "
        "loadFromDisk; tracker.go committedUpTo / produceCommittingTask / replay (flush at the end of a reload) as Gallina (coq/model/CatchpointLabel.v) over the "
        "logical trie of coq/model/MerkleTrie.v and the label / leaf builders of coq/model/CatchpointHash.v",
        "not modelled: SQL persistence (rows = a map), the flush-interval throttle (the harness resets lastFlushTime), catchpoint data file writing (C16), "
        "goroutine interleaving (every commit is awaited); crash recovery is modelled as commit followed by reload (recoverFromCrash runs the same first stage / finishCatchpoint / prune steps from the durable rows), so a label made after a power loss must be the model's label",
        "tested only: independence of the merkletrie MemoryConfig and of catchpoint file generation (no counterpart in the model)",
    ],
}
