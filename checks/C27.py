import glob, os, re, subprocess

CONFIG = {
    "props": "props/C27.v",
    "runner": {"module": "Verif.model.AbsentSpec", "ident": "check"},
    "harness": [{
        "name": "knockoff", "pkg": "./ledger/eval/", "run": "^TestVerifC27$",
        "files": ["ledger/eval/zz_verif_c27_test.go"],
        "util": [("ledger/eval", "eval")],
        "env": {"quick": {"VERIF_C27_N": 2500, "VERIF_C27_EVAL_LEDGERS": 4, "VERIF_C27_EVAL_VARIANTS": 60},
                "thorough": {"VERIF_C27_N": 40000, "VERIF_C27_EVAL_LEDGERS": 24, "VERIF_C27_EVAL_VARIANTS": 200}},
        "timeout": {"quick": 900, "thorough": 3000},
    }],
    "rule": "ia: real isAbsent on boundary-heavy (total, stake, lastSeen, current): lastSeen within +-2 of current - floor(20*total/stake), lags around 2^32, "
            "zero stake / lastSeen. fc: real apply.FindChallenge(ChActive)+Failed under 14 registered rule sets (interval/grace/bits incl. 0, 256, 257, -1), rounds at "
            "the edges of the (grace, 2*grace] window, missing / foreign-protocol headers, addresses sharing bits-2..bits+2 leading bits with the seed, lastSeen around "
            "the challenge round. ko tag d: validateExpiredOnlineAccounts, resetExpiredOnlineAccountsParticipationKeys, validateAbsentOnlineAccounts, "
            "suspendAbsentAccounts in endOfBlock order on a hand-built BlockEvaluator over a scripted ledger: populations of 2..9 accounts (status, algos, eligibility, "
            "keys, VoteLastValid within +-2 of the round, lastProposed/lastHeartbeat at the absence threshold / challenge round), candidate lists that are fully "
            "justified (60%) or contain duplicates / ineligible / unknown members / exceed the maxima (0..4 and 32). ko tag e: eval.Eval(validate) of generated blocks "
            "whose ExpiredParticipationAccounts / AbsentParticipationAccounts were replaced, on the package's test ledger advanced to rounds 1100..1401 (edges of the "
            "suspension window of the challenge at round 1000) with 40 accounts covering all 32 five-bit prefixes. Rounds < 2^63. A case is non-trivial when: ia lastSeen and "
            "stake non-zero; fc a challenge is active; ko at least one list is non-empty. distinct = distinct case lines.",
    "exhaustive": {"quick": False, "thorough": False},
    "explanation": "theorems hold for every state / list length / parameter value (induction over the lists); the harness validates the transcription and evaluates "
                   "the independent declarative oracle on every implementation observation; which disjunct (absence rule / challenge) justified each accepted absent "
                   "member is counted twice: by the harness with the real isAbsent/Failed (harness_stats.justified_*) and by the oracle (coverage.absent_justified_by)",
    "assumptions": ["basics.Muldiv behaves as its C45 transcription (proved exact in C45 and compared with the code there)",
                    "rounds (current, lastProposed, lastHeartbeat) are below 2^63 and ChallengeGracePeriod below 2^62, so uint64 round arithmetic does not wrap "
                    "(C27_isAbsent_wraps shows the behaviour beyond)",
                    "ledger look-ups (account, agreement data, online stake) succeed; an I/O error rejects the block in the code and is not modelled",
                    "bits.LeadingZeros8 on a byte x is 8 - bitlength(x)"],
    "trusted_base": ["modelled: ledger/eval validateExpiredOnlineAccounts / resetExpiredOnlineAccountsParticipationKeys / validateAbsentOnlineAccounts / "
                     "suspendAbsentAccounts / isAbsent, ledger/apply FindChallenge(ChActive) / Failed / bitsMatch, ledgercore LastSeen / ClearOnlineState / Suspend "
                     "as Gallina over an association-list state (coq/model/Absent.v)",
                     "the property text omits the challenge rule: theorems state the disjunction (see props/C27.v header)",
                     "not modelled: generateKnockOfflineAccountsList (block proposers' choice of candidates; validators only check justification), "
                     "heartbeat transactions that update LastHeartbeat"],
}


def custom(ctx):
    """aggregate, over all agreeing accepted 'ko' cases, which disjunct justified each absent member"""
    runner = os.path.join(ctx.BUILD, "ocaml", ctx.pid, "runner")
    if not os.path.exists(runner):
        return
    tot = [0, 0, 0]
    accepted = 0
    for cf in sorted(glob.glob(os.path.join(ctx.work, "h_*", "cases*.txt"))):
        with open(cf) as fin:
            p = subprocess.run([runner], stdin=fin, stdout=subprocess.PIPE, text=True)
        for v in p.stdout.splitlines():
            m = re.match(r"^\(1 \((\d+) (\d+) (\d+)\)\)$", v.strip())
            if m:
                accepted += 1
                for i in range(3):
                    tot[i] += int(m.group(i + 1))
    ctx.extra_coverage["absent_justified_by"] = {
        "accepted_blocks": accepted, "absence_rule_only": tot[0], "challenge_only": tot[1], "both": tot[2]}
    if accepted and tot[0] + tot[2] == 0:
        ctx.problems.append(("custom", "no accepted absent member was justified by the absence rule: generator degenerated"))
    if accepted and tot[1] + tot[2] == 0:
        ctx.problems.append(("custom", "no accepted absent member was justified by a challenge: generator degenerated"))
