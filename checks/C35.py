CONFIG = {
    "props": "props/C35.v",
    "runner": {"module": "Verif.model.AvmResourcesSpec", "ident": "check"},
    "harness": [{
        "name": "logic", "pkg": "./data/transactions/logic/", "run": "^TestVerifC35$",
        "files": ["data/transactions/logic/zz_verif_c35_test.go"],
        "util": [("data/transactions/logic", "logic")],
        "env": {"quick": {"VERIF_C35_N": 12000}, "thorough": {"VERIF_C35_N": 400000}},
        "timeout": {"quick": 900, "thorough": 3000},
    }],
    "rule": "random transaction groups (1..4 transactions: pay, keyreg, acfg incl. creations, axfer, afrz, stpf, application calls "
            "with foreign arrays -- accounts incl. app accounts and the zero address, foreign apps, foreign assets, box references with "
            "the Index convention and empty references -- or with tx.Access lists: address / asset / app / holding / locals / box / empty "
            "elements, non-nil empty lists), creations earlier in the group performed through the real code paths (EvalContract of the "
            "creating call, RecordAD of the asset creation), AppForbidLowResources on/off, 1 in 12 with the package's allow-everything "
            "UnnamedResources mock; x one probe program, versions 5..LogicVersion: balance/min_balance/acct_params_get, asset_params_get, "
            "app_params_get/app_global_get_ex, asset_holding_get, app_local_get_ex/app_opted_in, app_local_put/del, itxn_field of every "
            "account/asset/app field, whole inner pay/axfer/acfg/afrz/appl (callee versions 7,8,10,13) up to cx.allows, 1..3 box_create/"
            "box_len/box_del and app_box_* operations with sizes around the write budget; references by address / direct id / slot index, "
            "aimed 60% at things some transaction of the group mentions. Every 12th draw is a creation-time box scenario: an app-CREATING call (tx.Boxes or tx.Access) mixing app references, box references with Index 0 and Index >= 1 and empty references, probed with one box_create/box_len/box_del on the NEW app's own box for every box name appearing in any reference of the group plus an unnamed one. "
            "Observed on the REAL evaluator with the package's test Ledger: "
            "class of the availability error (first availability message of the error text) and every LedgerForLogic call the program "
            "made (= what it touched). The model predicts the class; the declarative rule is applied to the touches. First case is the "
            "fixed replay of the recorded deviation. Non-trivial: every case except the pre-sharing/tx.Access rejection; distinct = "
            "distinct case lines.",
    "exhaustive": {"quick": False, "thorough": False},
    "explanation": "theorems hold for every address function, every group (any length and reference lists), every creation history, "
                   "every probing call and access, every sequence of box operations; the cases validate the transcription against the "
                   "real evaluator and apply the proved oracle (justified_b <-> justified) to the resources the implementation touched",
    "assumptions": [
        "transactions reaching the evaluator are WellFormed (a tx.Access element has one component; Holding/Locals/Box references "
        "resolve): ledger/eval checks this before evaluation; the model shares nothing where Go would share the zero values of an "
        "ignored Resolve error",
        "application addresses are collision free (basics.AppIndex.Address is a hash); the theorems hold for every address function, "
        "the cases use distinct addresses",
        "UnnamedResources is nil outside simulation (EvalParams field, only set by ledger/simulation); with it set the model agrees "
        "with the code on the allow-everything mock but no theorem is claimed",
        "inner application calls run their callee in a fresh EvalContext over the same cx.available; the callee's own accesses are "
        "the same functions with cx.txn = the inner transaction (covered by the theorems, which do not assume the probing call is a "
        "member of the group, but not exercised by the cases)",
        "ledger contents and box authorization (ForeignBoxReads / FamilyBoxAccess) are outside the model: a touch is a LedgerForLogic "
        "call; foreign box writes are predicted as 'not authorized' for the harness ledger (all apps ForeignBoxReads, none FamilyBoxAccess)",
    ],
    "trusted_base": [
        "modelled: data/transactions/logic/resources.go (all), eval.go computeAvailability / EvalContract creation block / begin's "
        "tx.Access check / availableAccount,Asset,App / resolveAccount, accountReference, mutableAccountReference / resolveApp, "
        "resolveAsset / holdingReference, localsReference / assignAccount,Asset,App / opItxnSubmit->allows, box.go availableAppBox "
        "(availability, quota, dirty-byte budget), data/transactions/application.go AddressByIndex, IndexByAddress, "
        "HoldingRef/LocalsRef/BoxRef.Resolve as Gallina (coq/model/AvmResources.v); version constants 6/7/9 and 255 are hand-copied "
        "from opcodes.go / eval.go (a change alters behaviour at that version and breaks the correspondence)",
        "the declarative rule coq/model/AvmResourcesSpec.v:justified is what 'made available under the sharing rules' means",
        "error-class mapping by message text and the LedgerForLogic recording wrapper in zz_verif_c35_test.go",
    ],
}
