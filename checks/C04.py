CONFIG = {
    "props": "props/C04.v",
    "runner": {"module": "Verif.model.Bundle", "ident": "check"},
    "harness": [{
        "name": "agreement", "pkg": "./agreement/", "run": "^TestVerifC04$",
        "files": ["agreement/zz_verif_c04_test.go"],
        "util": [("agreement", "agreement")],
        "env": {"quick": {"VERIF_C04_RANDOM": 6}, "thorough": {"VERIF_C04_RANDOM": 80}},
        "timeout": {"quick": 900, "thorough": 3000},
    }],
    "rule": "valid bundles from real votes of the package's 100-account fixture (real keys, VRF credentials, one-time signatures) for 7 steps x 2 periods, "
            "mutated by the catalogue (missing weight by progressive drops, duplicated voter, wrong round/period/step/value, bottom, votes really signed for bottom, "
            "flipped signature byte, swapped credential, non-member, equivocation pairs: valid / duplicated against a plain vote / identical / either half invalid / for another value) "
            "plus random vote subsets; certificates against blocks with matching / other round / other digest. Non-trivial = bundle with at least one vote; distinct = distinct case lines.",
    "explanation": "theorems characterise acceptance of unauthenticatedBundle.verify / Certificate.Authenticate for every bundle (any number of votes, any weights) given the per-vote verification outcomes",
    "assumptions": ["per-vote validity (membership, key validity window, one-time signature, VRF credential) is an oracle: soundness of ed25519/VRF is assumed",
                    "the uint64 weight sum of a bundle does not wrap (weights are bounded by the online stake); cases violating it are rejected as unparsable",
                    "the order in which asynchronous per-vote results arrive does not affect accept/reject (the model scans in list order)"],
    "trusted_base": ["modelled: agreement/bundle.go verifyAsync, certificate.go Authenticate/claimsToAuthenticate, the pure prefix of vote.go unauthenticatedVote.verify (bottom rule), unauthenticatedEquivocationVote.verify's structure"],
    "level_text": "proof: acceptance is characterised exactly (sound + complete up to the size rule) over all bundles; the Go functions are tied by running both on mutated real bundles",
}
