_FILES = ["agreement/zz_verif_sm_test.go", "agreement/zz_verif_sm_gen_test.go", "agreement/zz_verif_c01_test.go",
          "agreement/zz_verif_c05_test.go"]

CONFIG = {
    "props": "props/C05.v",
    "runner": {"module": "Verif.model.C05Check", "ident": "check"},
    "harness": [{
        "name": "sync", "pkg": "./agreement/", "run": "^TestVerifC05$",
        "files": _FILES,
        "util": [("agreement", "agreement")],
        "env": {"quick": {"VERIF_C05_N": 500}, "thorough": {"VERIF_C05_N": 8000}},
        "timeout": {"quick": 900, "thorough": 3000},
    }],
    "rule": "the N-node simulator of C01 (N in {3,4,5} REAL rootRouter+player machines, network = only the relay/broadcast actions they emit) "
            "runs an arbitrary asynchronous prefix (modes random / split / withhold / replay / lone / stall: reordering, loss, partitions, "
            "withheld step classes, early timeouts, Byzantine votes and bundles with <= 22 % stake) up to a random scheduler step -- the "
            "synchrony point. From there the Byzantine senders are silent (every leader is honest), each message in flight is lost or "
            "delivered, every new message arrives within 400 ms of virtual time and every deadline / fast-recovery timer fires exactly at its "
            "Deadline on the node's own clock (rezero at every period / round entry; each clock starts somewhere inside its current timeout "
            "interval). A validation of a proposal is cancelled by a newer proposal of the same (round, period) as pendingRequestsContext "
            "does; a node that falls behind a committed peer is caught up through the ledger 20 s later (roundInterruption). 1 run in 10 is "
            "the tagged stale-cert-bundle scenario (cert votes withheld from everybody, periods end on next-value quorums, a cert bundle of an "
            "old period arrives at the synchrony point: router GC nil dereference, corpus/notes/router_gc_nil_deref.txt; the process dies "
            "and restarts from its crash state). Observed per node: period at the synchrony point, how and in which period it finished the "
            "round, largest Step in a period entered after the synchrony point, Go panics; plus the first 80 deadline timeouts of the "
            "synchronous phase. spec_ok = every node still in the round at the synchrony point finishes it (own ensure, or ledger catch-up "
            "after a peer committed) in a period <= P* + 3 (P* = largest honest period at the synchrony point) and stays <= step next+9 in "
            "periods entered afterwards; corr = every observed timeout changes (Step, Napping, Deadline) as the model's timeout_player "
            "computes. Non-trivial = some node finished by its own ensure after the synchrony point.",
    "exhaustive": {"quick": False, "thorough": False},
    "explanation": "PARTIAL. Proved for all parameters / states / traces: the deadline ladder (ranges tile and double; Deadline monotone along "
                   "the timeouts of a period, strict at every vote and over two consecutive timeouts), the model's submitTop on a deadline "
                   "timeout = timeout_player, partitionPolicy re-broadcasts the freshest bundle with every next vote of a partitioned "
                   "player, and on the abstract protocol the rules never block a next-type vote or a period entry. Searched, not proved: "
                   "that every honest node commits within K = 3 periods after the synchrony point.",
    "level_text": "proof (partial): timeout-ladder arithmetic, partition-policy re-broadcast and rule enabledness are proved; "
                  "'every honest node commits within K periods after synchrony' is SEARCHED by the N-node simulator over sampled "
                  "asynchronous prefixes, not proved (the probabilistic part -- an honest leader appears -- is a hypothesis: Byzantine "
                  "senders are silent after the synchrony point)",
    "level_note": "partial by nature: liveness needs timing and sortition assumptions; real time is abstracted to the Deadline ladder "
                  "(virtual clock), so a mis-programmed OS timer is invisible; commits through the catch-up service are modelled as a "
                  "roundInterruption 20 s after a peer's ensure; crash-restores are outside the property's quantifier and only run with "
                  "VERIF_C05_CRASH=1 (observation corpus/notes/c05_restart_pipelined_payload.txt)",
    "assumptions": ["after the synchrony point every message between honest nodes is delivered within 400 ms and timers fire at their deadlines",
                    "honest online supermajority: the honest stake alone reaches every threshold (Byzantine stake <= 22 %), and the Byzantine "
                    "senders are silent after the synchrony point, so the lowest credential of every period is honest",
                    "a node behind a committed peer obtains the block and certificate from that peer's ledger (catch-up service, C30)",
                    "deadline timeouts are not delivered beyond step next+11 during the prefix; fast-recovery votes under N5 (as C01)"],
    "trusted_base": ["simulator and observation recorder: harness/go/agreement/zz_verif_c01_test.go, zz_verif_c05_test.go (virtual time, "
                     "message delays, cancellation and catch-up modelling are part of the harness, not of the Go code under test)",
                     "modelled: player.go timeout branch / types.go:nextVoteRanges / partitionPolicy as coq/model/AgreementPlayer.v (tied to "
                     "the code by C03/C07's correspondence runs and here by the observed timeouts); abstract rules: coq/model/AbstractBA.v"],
    "expected_known": ["c05_stale_cert_bundle_router_nil_deref", "c05_restart_loses_pipelined_payload"],
}
