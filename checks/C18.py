CONFIG = {
    "props": "props/C18.v",
    "runner": {"module": "Verif.model.EvalCheck", "ident": "check_c18"},
    "harness": [{
        "name": "eval", "pkg": "./ledger/eval/", "run": "^TestVerifC18$",
        "files": ["ledger/eval/zz_verif_c18_test.go"],
        "util": [("ledger/eval", "eval")],
        "env": {"quick": {"VERIF_C18_UNIVERSES": 90, "VERIF_C18_BLOCKS": 8, "VERIF_C18_GROUPS": 10},
                "thorough": {"VERIF_C18_UNIVERSES": 2400, "VERIF_C18_BLOCKS": 10, "VERIF_C18_GROUPS": 12}},
        "timeout": {"quick": 600, "thorough": 3000},
    }],
    "rule": "one case = one block of the real BlockEvaluator over a closed 9-account ledger (fee sink, rewards pool, offline / online / "
            "non-participating / rekeyed / near-minimum / empty / resource-laden accounts; rewards rate none, protocol default or brisk): "
            "StartEvaluator, up to 10-12 random groups of 1..17 payment / close / keyreg / rekey / asset config / asset transfer (opt-in, clawback, close-out) / asset freeze transactions and application calls (create, fund, NoOp / OptIn / CloseOut / ClearState / Delete; the program is a fixed interpreter, assembled by the real assembler, that executes its arguments as a script of box_create / box_del / box_resize / app_global_put / del / app_local_put / del / inner payments / inner asset transfers / err / reject / budget exhaustion) (a share with an injected "
            "failing member), GenerateBlock, proposer + payout, eval.Eval(validate) and commit; observed: the full account table after "
            "every step.  spec_ok = the sum of balances with pending rewards is the same in every observed table of the block "
            "(previous level for the previous round's table).  Non-trivial = at least one accepted group paying a fee; distinct = distinct case lines.",
    "exhaustive": {"quick": False, "thorough": False},
    "explanation": "theorems hold for every block (any number of groups, any sizes, any amounts below 2^64, any consensus parameters with RewardUnit > 0) "
                   "of the modelled transaction types, and for every history of such blocks (C18_history_conserves); the correspondence run ties the model to the Go code on random blocks",
    "assumptions": [
        "transaction types: payment (with close), key registration, rekey, asset config / transfer / freeze, application calls with programs "
        "over-approximated as arbitrary scripts of ledger operations (boxes, global / local state, inner payment / asset config / transfer / freeze) "
        "ending in approve / reject / failure; NOT modelled: inner application calls (call depth > 1), UpdateApplication, inner rekey / keyreg, "
        "heartbeats, state proofs, the AVM's fee-credit test for inner groups and its resource-availability rules (the harness stays inside them)",
        "prevTotals.RewardUnits() equals the reward units of the participating accounts: the harness reports it on every case; a mismatch is no longer an input error -- the block is then judged by the conservation oracle (code 3 when the rewards level rises and the pool pays for units no account holds, code 2 otherwise; pure AccountTotals drift without lost money is C12)",
        "the new rewards level is the one NextRewardsState computes (C25), the proposer payout the one validateForPayouts admits (C24), "
        "the expired / absent lists are justified (C27); the model takes them as inputs",
        "accounts listed as expired are not NotParticipating (C18_expire_nonparticipating_refuted shows the premise is needed; in the Go code "
        "only the CalculateTotals runtime check rejects such a block)",
    ],
    "trusted_base": [
        "modelled: ledger/eval/cow.go, eval.go (Move, takeFee, applyTransaction, transaction, TransactionGroup, StartEvaluator pool withdrawal, "
        "endOfBlock resets / payout / recordProposal), cow_creatables.go, assetcow.go, appcow.go (StatefulEval, Allocate/DeallocateApp, setKey/delKey), applications.go (NewBox / DelBox / Perform), "
        "ledger/apply/payment.go, keyreg.go, asset.go, application.go, apply.go:Rekey, "
        "basics.WithUpdatedRewards / MinBalance "
        "as Gallina (coq/model/EvalCow.v, EvalApply.v, EvalGroup.v)",
        "harness ledger: a scripted in-memory LedgerForEvaluator (vc18Ledger) instead of the SQLite-backed ledger; Transaction.WellFormed, "
        "SignedTxn.FeeFactor, genesis-hash check and group-hash equality enter the model as per-transaction inputs computed by the real code",
    ],
}
