CONFIG = {
    "props": "props/C10.v",
    "runner": {"module": "Verif.model.PagingSpec", "ident": "check"},
    "harness": [{
        "name": "ledger", "pkg": "./ledger/", "run": "^TestVerifC10$",
        "files": ["ledger/zz_verif_c10_test.go"],
        "util": [("ledger", "ledger")],
        "env": {"quick": {"VERIF_C10_HIST": 30, "VERIF_C10_QRES": 40, "VERIF_C10_QKV": 80},
                "thorough": {"VERIF_C10_HIST": 500, "VERIF_C10_QRES": 60, "VERIF_C10_QKV": 120}},
        "timeout": {"quick": 900, "thorough": 3000},
        "search_tier": "quick",
    }],
    "rule": "real Ledger on in-memory SQLite; random histories (4..15 rounds) of asset/app create, opt-in, opt-out, change, reconfigure, destroy for 3 accounts "
            "and box create/overwrite/resize/delete for 4 app ids (incl. the 0xff/0x100 id boundary, names over {00,'a','b',ff}) added as validated blocks with prepared "
            "StateDeltas; the harness flushes the trackers to a random DB round between snapshots; at each snapshot Ledger.LookupAssets / LookupApplications "
            "(limits 1..7, 0, 1000; start ids inside/outside the id range; Ledger protocol and the v2 handler's limit+1 protocol; includeParams on/off) and "
            "Ledger.LookupKvPairsByPrefix (limits 1..7, 0, 1000; byte caps 0,1,11..40,1000; prefixes = app prefix, name prefixes, 0xff tails, 'bx:', empty/all-ff; "
            "cursors empty / existing key / missing key / = prefix / below / above range; rounds dbRound..latest and out of range; includeValues on/off) are iterated "
            "to exhaustion. One case = one whole iteration. Non-trivial = at least 2 pages, at least 2 listed items, and both the database and the in-memory deltas "
            "non-empty (0 < dbRound < queried round); distinct = distinct case lines.",
    "exhaustive": {"quick": False, "thorough": False},
    "explanation": "theorems hold for every database snapshot, delta list, limit >= 1, byte cap, prefix, cursor and start id (unbounded); the correspondence run "
                   "compares every page of the real Ledger with the extracted model and the concatenation with the listing computed from the whole history",
    "assumptions": [
        "the tracker database at dbRound equals the fold of the deltas up to dbRound (property C08); no concurrent flush during a lookup (the retry loop on a "
        "database-round mismatch is not modelled)",
        "well-formed worlds for assets/apps (res_wf): (address, creatable) is the primary key of resources, rows are non-empty, assetcreators lists exactly the "
        "address whose row carries the params, a creatable has one creator for all time, the creator of an asset has a holding, no zero address",
        "limit + numDeltaDeleted < 2^63 (the v2 handlers cap limit at MaxAssetResults/MaxApplicationResults + 1); key bytes < 256",
        "Go string order, SQLite BLOB order and strings.Compare are byte-wise lexicographic; slices.SortFunc sorts (keys are unique)",
    ],
    "trusted_base": [
        "modelled: ledger/acctupdates.go LookupKvPairsByPrefix, lookupAssetResources, lookupApplicationResources and sqlitedriver LookupKeysByPrefixCursor/"
        "processKvRows, keyPrefixIntervalPreprocessing, LookupLimitedResources, LookupCreator, LookupResources as Gallina (coq/model/Paging.v); the two Go "
        "resource functions are one model function with a flag",
        "holding/params values abstracted to one number each (Amount/Total, schema NumUint); SQL statements as list operations (covered by the correspondence run only)",
    ],
}
