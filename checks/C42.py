CONFIG = {
    "props": "props/C42.v",
    "runner": {"module": "Verif.model.VpackNet", "ident": "check"},
    "harness": [{
        "name": "vpack", "pkg": "./network/vpack/", "run": "^TestVerifC42$",
        "files": ["network/vpack/zz_verif_c42_test.go"],
        "util": [("network/vpack", "vpack")],
        "env": {"quick": {"VERIF_C42_CONNS": 120, "VERIF_C42_LEN": 24, "VERIF_C42_EXH_LEN": 5, "VERIF_C42_SL": 60},
                "thorough": {"VERIF_C42_CONNS": 1200, "VERIF_C42_LEN": 40, "VERIF_C42_EXH_LEN": 7, "VERIF_C42_SL": 600}},
        "timeout": {"quick": 600, "thorough": 3000},
    }, {
        # the REAL sender / receiver wrapper: vpackCompressVote + wsPeerMsgCodec.compress/decompress + abort messages
        "name": "net", "pkg": "./network/", "run": "^TestVerifC42Net$",
        "files": ["network/zz_verif_c42net_test.go", "network/vpack/zz_verif_c42dump.go"],
        "util": [("network", "network")],
        "env": {"quick": {"VERIF_C42_NET_CONNS": 60}, "thorough": {"VERIF_C42_NET_CONNS": 600}},
        "timeout": {"quick": 900, "thorough": 3000},
    }],
    "rule": "one case = one connection (real StatefulEncoder + StatefulDecoder of a table size in {16,32,64,256,2048}) fed a sequence of msgpack votes "
            "with repeated senders / one-time keys / proposals (more proposals than the 7-slot window, bucket collisions forced), rounds same/+1/-1/jump/0/MaxUint64, "
            "non-canonical uint forms of rnd, per, step, oper, reordered and repeated map keys, mutated votes, and a final mutated stateful frame / stateless frame / random bytes; "
            "EXHAUSTIVE: all 3^L sequences (L=5 quick, 7 thorough) over 3 votes whose sender and both key pairs share one 2-slot bucket. After every message the four "
            "intermediate byte strings and the complete encoder and decoder state (window, three LRU tables with MRU bits, lastRnd; dumped in-package) are compared with the model. "
            "NETWORK LEVEL (cases (net ...)): a real sending wsPeerMsgCodec and a real receiving one (table sizes 16..2048) driven as the broadcast path / writeLoopSendMsg / readLoop / handleVPError do, "
            "histories interleaving compressible votes with inputs on which StatefulEncoder.Compress fails at every point of its parse (votes the stateless encoder refuses: sig.ps != 0 or keys out of order, "
            "sent as raw msgpack by the fallback, most of them longer than MaxCompressedVoteSize; stateless frames cut at every field boundary, with an invalid or widened uint marker at every uint field, with trailing bytes), plus the history of seeded/m31; "
            "per payload: wire messages, deliveries, both statefulVoteEnabled flags and (while both are set) the full encoder and decoder state dumped in package vpack; spec_ok: every delivered byte string "
            "is the vote sent (for raw payloads: what a fresh real codec delivers over plain AV), something is delivered or the stream is aborted, encoder state = decoder state while both flags are set. "
            "A connection is non-trivial when at least 2 votes were reproduced and at least one was compressed with a table/window reference or round delta; distinct = distinct case lines.",
    "exhaustive": {"quick": False, "thorough": False},
    "explanation": "theorems: every byte string the stateless parser accepts round-trips exactly; Decompress inverts Compress from every shared well-formed state and both end in the same state; "
                   "hence every finite message sequence on every table size <= 65536 is reproduced byte for byte with equal states (unbounded, by induction). The model is the code with fixes/C42.patch; "
                   "on a tree without the patch the check reports the recorded signatures noncanonical_rnd / unordered_keys as violations.",
    "assumptions": ["bytes are < 256 (hypothesis bytes_ok of the theorems; true of every Go []byte)",
                    "table size <= 65536 entries: references are uint16 on the wire (config clamps to 2048)",
                    "msgp.AppendUint64 emits the shortest msgpack uint form (transcribed as append_uint64 from github.com/algorand/msgp)",
                    "run_conn (theorem 9) treats a vote rejected by CompressVote as not touching the tables; the real wrapper hands the raw fallback to Compress, which fails and aborts the stream: that path is model/VpackNet.v (theorems 13-15)",
                    "one direction of a connection; the abort message sent back by the receiver reaches the sender before its next vote (the harness delivers it immediately)"],
    "trusted_base": ["modelled: network/vpack/{msgp,parse,vpack,lru_table,proposal_window,dynamic_vpack}.go as Gallina (coq/model/Vpack.v); Go errors = None, no panics in the model",
                     "only tested, not proved: absence of Go panics on malformed frames (recover() in the harness maps a panic to a spec failure)",
                     "modelled: network/msgCompressor.go vpackCompressVote / wsPeerMsgCodec.compress / decompress and the abort handling of wsPeer.writeLoopSendMsg / handleVPError (coq/model/VpackNet.v); feature negotiation, goroutines and the websocket are not",
                     "the msgpack fallback of vpackCompressVote is modelled as fixed by 8ff1e5c455 (whole vote); broadcast_data_unfixed is the truncating variant"],
}
