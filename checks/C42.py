CONFIG = {
    "props": "props/C42.v",
    "runner": {"module": "Verif.model.VpackSpec", "ident": "check"},
    "harness": [{
        "name": "vpack", "pkg": "./network/vpack/", "run": "^TestVerifC42$",
        "files": ["network/vpack/zz_verif_c42_test.go"],
        "util": [("network/vpack", "vpack")],
        "env": {"quick": {"VERIF_C42_CONNS": 120, "VERIF_C42_LEN": 24, "VERIF_C42_EXH_LEN": 5, "VERIF_C42_SL": 60},
                "thorough": {"VERIF_C42_CONNS": 1200, "VERIF_C42_LEN": 40, "VERIF_C42_EXH_LEN": 7, "VERIF_C42_SL": 600}},
        "timeout": {"quick": 600, "thorough": 3000},
    }],
    "rule": "one case = one connection (real StatefulEncoder + StatefulDecoder of a table size in {16,32,64,256,2048}) fed a sequence of msgpack votes "
            "with repeated senders / one-time keys / proposals (more proposals than the 7-slot window, bucket collisions forced), rounds same/+1/-1/jump/0/MaxUint64, "
            "non-canonical uint forms of rnd, per, step, oper, reordered and repeated map keys, mutated votes, and a final mutated stateful frame / stateless frame / random bytes; "
            "EXHAUSTIVE: all 3^L sequences (L=5 quick, 7 thorough) over 3 votes whose sender and both key pairs share one 2-slot bucket. After every message the four "
            "intermediate byte strings and the complete encoder and decoder state (window, three LRU tables with MRU bits, lastRnd; dumped in-package) are compared with the model. "
            "A connection is non-trivial when at least 2 votes were reproduced and at least one was compressed with a table/window reference or round delta; distinct = distinct case lines.",
    "exhaustive": {"quick": False, "thorough": False},
    "explanation": "theorems: every byte string the stateless parser accepts round-trips exactly; Decompress inverts Compress from every shared well-formed state and both end in the same state; "
                   "hence every finite message sequence on every table size <= 65536 is reproduced byte for byte with equal states (unbounded, by induction). The model is the code with fixes/C42.patch; "
                   "on a tree without the patch the check reports the recorded signatures noncanonical_rnd / unordered_keys as violations.",
    "assumptions": ["bytes are < 256 (hypothesis bytes_ok of the theorems; true of every Go []byte)",
                    "table size <= 65536 entries: references are uint16 on the wire (config clamps to 2048)",
                    "msgp.AppendUint64 emits the shortest msgpack uint form (transcribed as append_uint64 from github.com/algorand/msgp)",
                    "a vote rejected by StatelessEncoder.CompressVote is not passed to the stateful encoder (wsPeerMsgCodec falls back to the uncompressed message)"],
    "trusted_base": ["modelled: network/vpack/{msgp,parse,vpack,lru_table,proposal_window,dynamic_vpack}.go as Gallina (coq/model/Vpack.v); Go errors = None, no panics in the model",
                     "only tested, not proved: absence of Go panics on malformed frames (recover() in the harness maps a panic to a spec failure)",
                     "network/msgCompressor.go (negotiation, fallback, abort messages) is outside the model"],
}
