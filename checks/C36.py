CONFIG = {
    "props": "props/C36.v",
    "runner": {"module": "Verif.model.OneTimeSigSpec", "ident": "check"},
    "harness": [{
        "name": "crypto", "pkg": "./crypto/", "run": "^TestVerifC36$",
        "files": ["crypto/zz_verif_c36_test.go"],
        "util": [("crypto", "crypto")],
        "env": {"quick": {"VERIF_C36_DEPTH": 3, "VERIF_C36_RAND": 400},
                "thorough": {"VERIF_C36_DEPTH": 4, "VERIF_C36_RAND": 4000, "VERIF_C36_BIG": 1}},
        "timeout": {"quick": 600, "thorough": 3000},
    }],
    "rule": "real ed25519 keys; a case = one operation sequence (DeleteBeforeFineGrained(cur,K) | persist+reload) on a fresh "
            "GenerateOneTimeSignatureSecrets(start,n); after Generate and after EVERY operation EVERY identifier of the universe "
            "{start-1..start+n} x {0..K} is probed with Sign then the real Verify (plus Verify under a neighbouring identifier and "
            "another message). Exhaustive: ALL sequences of length D (quick 3, thorough 4; D+1 for the smallest universe) with every "
            "identifier of the universe as deletion point + reload, for 7 (thorough 10) (start,n,K) incl. n=0 and K=0; uint64 "
            "boundaries (start=0, top of the batch range, deletion points with Batch=2^64-1); random longer sequences with a "
            "different K per call and huge offsets. Non-trivial = some operation changed the observation (a key was deleted); "
            "distinct = distinct case lines.",
    "exhaustive": {"quick": True, "thorough": True},
    "explanation": "theorems: every start/n with start+n <= 2^64, every list of operations, every deletion point and every key dilution "
                   "(also varying per call); exhaustive flag refers to the enumerated sub-space only (all op sequences up to the stated depth "
                   "over the stated small universes)",
    "assumptions": [
        "ed25519 (libsodium) is unforgeable and the all-zero OneTimeSignature does not verify (the latter observed on every empty signature)",
        "'cannot produce a valid signature' = holds no key material from which one is derivable (symbolic keys); deleted Go slices "
        "elements are really gone (the code itself notes 'TODO: Securely wipe the keys from memory')",
        "a nil Go slice has length 0; uint64 arithmetic wraps modulo 2^64 (language specification)",
        "forward security is proved for deletion points with Batch < 2^64-1; for Batch = 2^64-1 it is refuted (finding c36_batch_wrap)",
    ],
    "trusted_base": ["modelled: crypto/onetimesig.go Generate/DeleteBeforeFineGrained/Sign/Verify/Snapshot+msgpack reload over symbolic key "
                     "material (coq/model/OneTimeSig.v); locking (mu) and the RNG are not modelled"],
}
