CONFIG = {
    "props": "props/C36.v",
    "runner": {"module": "Verif.model.PartPersistSpec", "ident": "check"},
    "harness": [{
        "name": "crypto", "pkg": "./crypto/", "run": "^TestVerifC36$",
        "files": ["crypto/zz_verif_c36_test.go"],
        "util": [("crypto", "crypto")],
        "env": {"quick": {"VERIF_C36_DEPTH": 3, "VERIF_C36_RAND": 400},
                "thorough": {"VERIF_C36_DEPTH": 4, "VERIF_C36_RAND": 4000, "VERIF_C36_BIG": 1}},
        "timeout": {"quick": 600, "thorough": 3000},
    }, {
        "name": "persist", "pkg": "./data/account/", "run": "^TestVerifC36P$",
        "files": ["data/account/zz_verif_c36p_test.go"],
        "util": [("data/account", "account")],
        "env": {"quick": {"VERIF_C36P_DEPTH": 2, "VERIF_C36P_RAND": 60},
                "thorough": {"VERIF_C36P_DEPTH": 3, "VERIF_C36P_RAND": 600, "VERIF_C36P_BIG": 1}},
        "timeout": {"quick": 600, "thorough": 3000},
    }],
    "rule": "real ed25519 keys; a case = one operation sequence (DeleteBeforeFineGrained(cur,K) | persist+reload) on a fresh "
            "GenerateOneTimeSignatureSecrets(start,n); after Generate and after EVERY operation EVERY identifier of the universe "
            "{start-1..start+n} x {0..K} is probed with Sign then the real Verify (plus Verify under a neighbouring identifier and "
            "another message). Exhaustive: ALL sequences of length D (quick 3, thorough 4; D+1 for the smallest universe) with every "
            "identifier of the universe as deletion point + reload, for 7 (thorough 10) (start,n,K) incl. n=0 and K=0; uint64 "
            "boundaries (start=0, top of the batch range, deletion points with Batch=2^64-1); random longer sequences with a "
            "different K per call and huge offsets. Non-trivial = some operation changed the observation (a key was deleted); "
            "distinct = distinct case lines. "
            "persist harness (data/account): a case = one operation sequence on a fresh FillDBWithParticipationKeys(fv,lv,K) "
            "PersistedParticipation over a REAL participation database (in-memory SQLite; one configuration on a temp file that is closed "
            "and reopened): DeleteOldKeys(r) waited for on the returned channel (optionally with the UPDATE made to fail by hiding the "
            "table) | restart = RestoreParticipation. After Fill and after EVERY operation EVERY round of fv-1..lv+2 is probed "
            "(Sign at OneTimeIDForRound then the real Verify, + neighbouring identifiers / other message) twice: on part.Voting and on "
            "the Voting of a fresh RestoreParticipation (what a restart would load). spec_ok: no round below a deletion round whose "
            "channel reported success verifies from either; every round of [fv,lv] at/above all requested deletion rounds verifies from "
            "both; nothing reappears; restart => memory = previous database, reported success => database = memory. Exhaustive: ALL "
            "sequences of length D (quick 2, thorough 3; D+1 for the smallest) over every probed round as deletion round (+ failing "
            "writes) + restart for 8 (thorough 11) configurations incl. K=1, a single batch, KeyDilution=0 (proto default), fv=0; "
            "random longer round-by-round histories. Plus OverlapsInterval over all small intervals.",
    "exhaustive": {"quick": True, "thorough": True},
    "explanation": "theorems: every start/n with start+n <= 2^64, every list of operations, every deletion point and every key dilution "
                   "(also varying per call); exhaustive flag refers to the enumerated sub-space only (all op sequences up to the stated depth "
                   "over the stated small universes)",
    "assumptions": [
        "ed25519 (libsodium) is unforgeable and the all-zero OneTimeSignature does not verify (the latter observed on every empty signature)",
        "'cannot produce a valid signature' = holds no key material from which one is derivable (symbolic keys); deleted Go slices "
        "elements are really gone (the code itself notes 'TODO: Securely wipe the keys from memory')",
        "a nil Go slice has length 0; uint64 arithmetic wraps modulo 2^64 (language specification)",
        "forward security is proved for deletion points with Batch < 2^64-1; for Batch = 2^64-1 it is refuted (finding c36_batch_wrap)",
    ],
    "trusted_base": ["modelled: data/account/participation.go DeleteOldKeys / FillDBWithParticipationKeys (key part) / OverlapsInterval, "
                     "account.go RestoreParticipation (voting blob + keyDilution), basics.OneTimeIDForRound (coq/model/PartPersist.v); the "
                     "database is one blob cell whose UPDATE either happens or fails (dbok); DeleteOldKeys calls are sequential (each "
                     "channel is awaited before the next call, as AccountManager.DeleteOldKeys does): two outstanding calls could write "
                     "their snapshots in either order -- not modelled; VRF / state-proof secrets, PersistNewParent (touches only the "
                     "parent column) are not modelled",
                     "modelled: crypto/onetimesig.go Generate/DeleteBeforeFineGrained/Sign/Verify/Snapshot+msgpack reload over symbolic key "
                     "material (coq/model/OneTimeSig.v); locking (mu) and the RNG are not modelled"],
}
