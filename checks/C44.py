CONFIG = {
    "props": "props/C44.v",
    "runner": {"module": "Verif.model.TxPoolCheck", "ident": "check"},
    "harness": [{
        "name": "txpool", "pkg": "./data/pools/", "run": "^TestVerifC44$",
        "files": ["data/pools/zz_verif_c44_test.go"],
        "util": [("data/pools", "pools")],
        "env": {"quick": {"VERIF_C44_N": 60, "VERIF_C44_OPS": 40, "VERIF_C44_SP": 1, "VERIF_C44_SPH": 3, "VERIF_C44_STALE": 1, "VERIF_C44_ACCUM": 1},
                "thorough": {"VERIF_C44_N": 1000, "VERIF_C44_OPS": 60, "VERIF_C44_SP": 5, "VERIF_C44_SPH": 5, "VERIF_C44_STALE": 12, "VERIF_C44_ACCUM": 1},
                "search": {"VERIF_C44_N": 300, "VERIF_C44_OPS": 50, "VERIF_C44_SP": 2, "VERIF_C44_SPH": 4, "VERIF_C44_STALE": 2, "VERIF_C44_ACCUM": 1}},
        "search_tier": "search",
        "timeout": {"quick": 900, "thorough": 3000, "search": 1500},
    }],
    "rule": "one case = one whole history driven through the REAL TransactionPool (MakeTransactionPool, Remember, OnNewBlock, AssembleBlock) on a real "
            "in-memory ledger with real signed transactions: random submissions (valid, overspending, below the minimum balance, duplicates of pending / "
            "committed / rejected groups, double spends, lease clashes, expired / early / over-long validity windows, fees 0 / below / pooled in a group, "
            "close-outs, groups with correct / missing / incomplete / inconsistent group ids, over-size and empty groups, real state-proof transactions in and "
            "out of order) interleaved with blocks (the pool's own proposal via AssembleBlock, external proposals holding a subset / permutation of the pending "
            "groups plus outside transactions that conflict with pending ones, empty blocks) and OnNewBlock calls (real delta, empty delta, delivered twice, "
            "two blocks behind, a submission racing ahead of the notification); pool sizes 2..1000, fee factors 0..2^40, current consensus and a variant with "
            "1000-byte blocks (several pending whole blocks, ErrNoSpace, fee escalation). After every call the harness records PendingTxGroups, the pool's "
            "counters and, independently of the pool, the result of replaying the pending groups in order on a fresh evaluator started on the ledger's latest "
            "block (and, before every Remember, whether that evaluator accepts the group on top of them). spec_ok (obs_hard_ok / obs_trans_ok, proved sound in "
            "C44_spec_ok_sound / C44_spec_trans_sound) reads only the inputs and these observations: no txid twice; whenever the calls made so far oblige the "
            "pool to have processed the latest block (an OnNewBlock for a block at or above the round it worked on was delivered since the ledger last grew): "
            "its evaluator is for latest+1, no committed txid is pending and the oracle replay succeeds; size <= max + pending singleton state proofs; "
            "admitted => the oracle accepted; after EVERY call the pool's other views of what it holds agree with PendingTxGroups: set(PendingTxIDs()) = txids of "
            "the pending groups, Lookup() reports exactly those (among all transactions the harness ever built) as in the pool, PendingCount() = their number "
            "(so a rejected submission or a dropped group leaves nothing behind in the ID index / size accounting; model counterpart C44_no_dup_txid: "
            "p_ids = txids of pending); an admitted group is appended (and is a single state-proof transaction if the pool is then above its size), a "
            "rejected one changes nothing, OnNewBlock only removes groups. Overflow classes: exactly one over -> finding stateproof_txn_overflows_pool_by_one, "
            "two or more over -> stateproof_overflow_accumulates_across_blocks; any other excess is a violation. A case is non-trivial when it has an admitted and a rejected "
            "submission and a recomputation that dropped a group; distinct = distinct case lines.",
    "exhaustive": {"quick": False, "thorough": False},
    "explanation": "the theorems hold for every evaluator satisfying evaluator_ok, every ledger and every operation sequence (induction over the history); "
                   "the harness validates the transcription of transactionPool.go and of the payments-only evaluator model against the real code",
    "assumptions": ["operations on the pool are atomic: Remember / OnNewBlock interleavings of goroutines are not modelled. OBSERVED on the real code: "
                    "checkPendingQueueSize runs before pool.mu is taken, so concurrent Remember calls each pass the size check -- 8 goroutines submitting to a pool "
                    "with TxPoolSize=5 that held 4 transactions left 12 pending; 'never exceeds its configured size' fails under concurrent submission "
                    "(outside the sequential statement proved and checked here)",
                    "the ledger answers deterministically: OBSERVED on in-memory test ledgers (SQLite shared cache) a background tracker flush makes the evaluator's "
                    "account lookups fail with 'database table is locked: accountbase'; recomputeBlockEvaluator treats every error as 'no longer valid' and drops "
                    "the (valid) pending group (seen with a pending state proof on a 780-block ledger). The harness opens its ledgers with MaxAcctLookback=2048 so "
                    "that no flush happens during a history (VERIF_C44_DISK=1 uses on-disk WAL ledgers with the default lookback instead)",
                    "the block evaluator satisfies evaluator_ok: blockTxBytes only decides between acceptance and ErrNoSpace, an accepted group has "
                    "pairwise distinct unseen txids which are seen afterwards (proved for the evaluator model, compared with the real BlockEvaluator on every case)",
                    "every evaluator the ledger starts rejects the txids committed so far (env_ok in C44_no_committed; this is property C11); proved for the model ledger",
                    "round numbers stay far below 2^64 (Round() + numPendingWholeBlocks does not wrap); txids are collision free",
                    "test ledgers: rewards rate 0, accounts hold only MicroAlgos (senders are never online accounts); state proofs submitted by the harness are "
                    "cryptographically valid, only their sequencing is modelled",
                    "checkPendingQueueSize sets stateproofOverflowed BEFORE the group is validated: an invalid singleton state-proof-typed group submitted to a "
                    "full pool consumes the allowance and the next valid state proof is rejected until the next block (observed; rejecting more is allowed by the property)"],
    "trusted_base": ["modelled: data/pools/transactionPool.go (coq/model/TxPool.v), BlockEvaluator.TransactionGroup for payments / state-proof transactions "
                     "(coq/model/TxPoolEval.v: WellFormed, Alive, checkDup, takeFee, Payment, MinBalance, byte budget, group id and pooled fee checks)",
                     "not modelled: AssembleBlock timing, telemetry, statusCache, Test(), signature verification (precondition of Remember)"],
    "level_note": "the size clause of the property text is false of the code: recorded findings stateproof_txn_overflows_pool_by_one and "
                  "(C44_size_by_one_refuted; the scripted prefix of the state-proof histories replays the witness on the real pool on every run, VERIF_C44_ACCUM=1) "
                  "stateproof_overflow_accumulates_across_blocks",
}
