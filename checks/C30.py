CONFIG = {
    "props": "props/C30.v",
    "runner": {"module": "Verif.model.CatchupCheck", "ident": "check"},
    "harness": [{
        "name": "catchup", "pkg": "./catchup/", "run": "^TestVerifC30$",
        "files": ["catchup/zz_verif_c30_test.go"],
        "util": [("catchup", "catchup")],
        "env": {"quick": {"VERIF_C30_N": 250, "VERIF_C30_ROUNDS": 8}, "thorough": {"VERIF_C30_N": 4000, "VERIF_C30_ROUNDS": 14}},
        "timeout": {"quick": 600, "thorough": 3000},
    }],
}
