CONFIG = {
    "props": "props/C30.v",
    "runner": {"module": "Verif.model.CatchupCheck", "ident": "check"},
    "harness": [{
        "name": "catchup", "pkg": "./catchup/", "run": "^TestVerifC30$",
        "files": ["catchup/zz_verif_c30_test.go"],
        "util": [("catchup", "catchup")],
        "env": {"quick": {"VERIF_C30_N": 300, "VERIF_C30_ROUNDS": 8},
                "thorough": {"VERIF_C30_N": 6000, "VERIF_C30_ROUNDS": 14}},
        "timeout": {"quick": 600, "thorough": 3000},
    }],
    "level": "proof",
    "level_note": "partial: goroutine scheduling is abstracted to interleavings of the model's atomic steps; the block authenticator "
                  "is an oracle (round + digest claim as in agreement/certificate.go, genuine-bundle mark) and the ledger is a monitor "
                  "with the real ledger's accept/reject rule and error values",
    "rule": "7 of 8 cases: one run of the REAL Service.pipelinedFetch (fetchAndWrite goroutines, innerFetch, universalBlockFetcher, "
            "processBlockBytes, class-based peer selectors) against 1-3 in-process adversarial UnicastPeers that answer the k-th request "
            "for a round with the k-th entry of a seeded script: transport error, no-block, undecodable bytes, genuine pair of another "
            "(past / future / random) round, right block with the certificate of another round, certificate committing to another digest, "
            "authentic header with payset removed / added (genuine certificate still matches), forged self-consistent block with the "
            "genuine certificate / with a made-up certificate, real block with made-up certificate, unknown protocol version, or the "
            "authentic pair; seeded delays 0-15 ms so that answers arrive out of order; parallelism 1-16, seed lookback 1-3, ledger "
            "starting at round 0-3, 1-8 (thorough 14) scripted rounds; 2 in 5 cases with CatchupVerifyCertificate / "
            "CatchupVerifyPaysetHash off or validate mode on; special modes: a second writer (agreement) racing catchup, service "
            "cancellation mid-run, busy ledger, SetDisableSyncRound, ledger evaluation failure, 520 failing answers (retry limit). "
            "The monitoring ledger logs every AddBlock/Validate/AddValidatedBlock call (round, latest before, result, and "
            "ContentsMatchHeader + authenticator oracle recomputed on the pair it was handed); spec_ok is evaluated on that log. "
            "The whole mutex-ordered event log (peer answers, Authenticate calls, ledger calls) is replayed through the model's step "
            "function in its real order (trace validation) and, when the outcome is schedule independent, the final ledger is compared "
            "with the model's prediction from the script. 1 of 8 cases: one Service.syncCert/fetchRound call (agreement has the "
            "certificate of the next round, not the block) against the same adversarial peers under all four settings of the two "
            "switches; spec_ok there = the single EnsureBlock call carries the block the certificate commits to, payset matching. "
            "A watchdog cancels a run that does not return (deadlocked pipeline) and the case is reported (end 9). Non-trivial = catchup wrote at least one block and at least one served "
            "answer was bad; distinct = distinct case lines.",
    "exhaustive": {"quick": False, "thorough": False},
    "explanation": "theorems: every configuration, every number of workers, every peer behaviour (arbitrary (block, cert) pairs or errors per "
                   "request), every interleaving of the atomic steps, cancellation at any point and a concurrent second writer; abstract "
                   "ContentsMatchHeader / Authenticate / round functions. The cases are testing of the model-code correspondence only.",
    "assumptions": [
        "goroutines of the service interact only through the atomic steps of the model (channel receives, ledger calls under the ledger's "
        "lock, Authenticate, peer requests); Go memory model for channels/mutexes",
        "the ledger accepts a block only for latest+1 (ledger.AddBlock / blockQueue.putBlock; the monitor ledger of the harness implements "
        "exactly this rule and returns the real ledger's error types)",
        "BlockAuthenticator.Authenticate is a function of the (block, cert) pair (it also reads the ledger for balances of older rounds, "
        "which catchup has written by then: the lookback wait)",
        "'the authentic block' (C30_written_is_agreed) needs: a certificate authenticates at most the agreed block of its round (C01/C02)",
    ],
    "trusted_base": [
        "modelled: catchup/service.go fetchAndWrite + pipelinedFetch + innerFetch, universalFetcher.go processBlockBytes as a pc machine "
        "per worker (coq/model/Catchup.v); time-dependent parallelism limit over-approximated by its maximum; peer selection = adversary",
        "modelled: fetchRound/syncCert as a second small pc machine (fr_step); the fork alarm inside it only logs and is dropped",
        "not modelled: periodicSync, unsupportedRoundMonitor (only its effect: cancellation), roundIsNotSupported (spawning is "
        "optional in the model), peer ranking, telemetry, data.Ledger.EnsureBlock's own retry loop",
        "harness authenticator oracle and monitoring ledger (harness/go/catchup/zz_verif_c30_test.go); the real agreement bundle "
        "verification is not exercised here",
    ],
}
