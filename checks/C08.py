CONFIG = {
    "props": "props/C08.v",
    "runner": {"module": "Verif.model.TrackerCheck", "ident": "check"},
    "harness": [{
        "name": "ledger", "pkg": "./ledger/", "run": "^TestVerifC08",
        "files": ["ledger/zz_verif_c08_test.go"],
        "util": [("ledger", "ledger")],
        # file-backed SQLite on tmpfs: readers must be able to run while the commit transaction is open
        # (the in-memory driver uses a shared cache and would serialise them behind the writer)
        "env": {"quick": {"VERIF_C08_CASES": 22, "VERIF_C08_OPS": 38, "TMPDIR": "/dev/shm"},
                "thorough": {"VERIF_C08_CASES": 200, "VERIF_C08_OPS": 60, "VERIF_C08_PATFULL": 1, "TMPDIR": "/dev/shm"}},
        "timeout": {"quick": 900, "thorough": 3400},
        "search_tier": "quick",
    }],
    "rule": "one case = one whole run of a real accountUpdates (+ onlineAccounts, txTail) under a real trackerRegistry on a file-backed "
            "SQLite tracker DB: random lookback 0-4, base caches on/off, genesis of 2-3 accounts; 38 (thorough 60) operations drawn from "
            "{new block with a prepared well-formed StateDelta (payments, rekeys, closes incl. resource clean-up, asset/app create / "
            "opt-in / transfer / opt-out / destroy, box create / rewrite / same-value rewrite / delete / empty value, two consensus "
            "versions), committedUpTo(r) for progressing and stale r, the commit taken apart by a gate tracker (G1: inside the SQL "
            "transaction, G2: transaction committed, postCommit pending) with blocks, lookups, further committedUpTo calls and cache "
            "operations in between, reload (close + loadFromDisk + replay), FlushCaches, flush+prune of the base caches to 0-3 entries}; "
            "after EVERY operation the in-memory state is dumped (dbRound, deltas, the four modified maps with reference counts, the "
            "three base caches) and every account / (account, creatable) / box key / creatable x both types -- live, deleted and "
            "never-existing -- is looked up at every round from dbRound-1 to latest+1 (every fourth case; the others sample the inner "
            "rounds, issue a random third of the lookups, or look up after a quarter of the operations only).  Between G2 and postCommit the unsynchronised lookup variants report where the public ones block; one public "
            "lookup per window is left blocked in a goroutine and must answer for the round asked after postCommit.  Public lookups "
            "are also issued by reader goroutines that are HELD right after their SQL query (au.accountsq is wrapped in-package) and "
            "released at random later points, so that their cache write lands after further blocks / commits / evictions.  Scripted "
            "cases: the two ill-formed histories of the necessity witnesses, and three late-landing schedules (account row, not-found "
            "note, box) across a commit and a cache turnover (listed finding late_pending_cache_write: the model, which is the code as "
            "it is, gives the same stale answers).  lookupLatest (the tracker part of Ledger.LookupAccount) is queried for every "
            "account before each reload and at the end of a run and judged by the oracle only.  Non-trivial = well-formed history, at "
            "least one (ok ...) answer and one completed commit; distinct = distinct case lines.",
    "exhaustive": {"quick": False, "thorough": False},
    "explanation": "theorems quantify over every operation sequence (any partition of the history into commits, any interleaving of "
                   "blocks / lookups / commit phases / reloads / evictions), every lookback and cache size, every history the evaluator "
                   "can produce; the harness samples runs and compares every answer and every state dump with the model, and every "
                   "answer with state_at recomputed from the delta list",
    "assumptions": [
        "the block evaluator's deltas are well formed (wf_hist): distinct keys per round; KvValueDelta.OldData is the value before the "
        "round; a resource half is nil-and-not-deleted only when it was absent (both shown necessary: C08_kv_olddata_needed, "
        "C08_res_keep_needed, replayed on the Go code); additionally, for the SQL layer (not needed by the theorems): resources only "
        "on existing accounts, a creatable index is created at most once and has one type",
        "atomicity of the modelled steps: newBlock, each lookup's memory phase and postCommit run under accountsMu; the commit "
        "transaction is atomic (SQLite); a lookup's DB read sees either the state before or after that transaction",
        "lands_ok: a lookup queues what it read from the DB for the base cache AFTER dropping accountsMu; the theorems about the code "
        "as it is assume that such a write, when it is delayed (explicit held-reader operations), lands while the DB round it was "
        "read at is still current or while a newer cache entry for the key is still cached.  Without this the property is refuted "
        "(C08_late_pending_refuted = finding late_pending_cache_write, replayed with real reader goroutines held after their SQL "
        "query: account row, not-found note, box; thorough also with a real 100002-account cache turnover).  Runs without held "
        "readers and every run against fixes/proposed/C08.patch meet the assumption (C08_prompt_runs, C08_*_with_proposed_fix)",
    ],
    "trusted_base": [
        "modelled: ledger/acctupdates.go (newBlockImpl, lookupWithoutRewards, lookupResource, lookupKv, getCreatorForRound, "
        "produceCommittingTask/consecutiveVersion, prepareCommit/commitRound/postCommit), lruaccts.go/lruresources.go/lrukv.go, "
        "acctdeltas.go (makeCompact*Deltas, accountsNewRoundImpl), tracker.go (scheduleCommit, commitSyncer, commitRound, replay) as "
        "coq/model/Tracker.v; SQL statements are map operations on per-space tables (row ids, the accountbase/resources join and the "
        "ctype filter of DeleteCreatable are not modelled; covered by the correspondence run only)",
        "not modelled: lookupLatest (rewards + resource aggregation; its answers are checked against state_at only), the listing "
        "functions (C10), onlineAccounts (C13), catchpoints, "
        "time/size based flush throttling of scheduleCommit (taken as met), initializeCachesRoundFlushInterval during replay",
        "LRU order of the resource and KV caches after postCommit depends on Go map iteration: the harness only evicts them completely "
        "or not at all (the account cache is evicted to arbitrary sizes)",
    ],
}
