CONFIG = {
    "props": "props/C32.v",
    "runner": {"module": "Verif.model.AvmArithSpec", "ident": "check"},
    "harness": [{
        "name": "logic", "pkg": "./data/transactions/logic/", "run": "^TestVerifC32$",
        "files": ["data/transactions/logic/zz_verif_c32_test.go", "data/transactions/logic/zz_verif_c32_producers_test.go"],
        "util": [("data/transactions/logic", "logic")],
        "env": {"quick": {"VERIF_C32_N": 60}, "thorough": {"VERIF_C32_N": 1200, "VERIF_C32_EXTRA": 800000}},
        "timeout": {"quick": 900, "thorough": 3000},
    }],
    "rule": "53 opcodes (+ - * / % addw mulw divw divmodw exp expw sqrt shl shr bitlen < > <= >= && || == != ! | & ^ ~ itob btoi, "
            "b+ b- b* b/ b% bsqrt b< b> b<= b>= b== b!= b| b& b^ b~, getbit setbit getbyte setbyte extract_uint16/32/64), each run as "
            "'push operands; op' through the REAL evaluator (EvalSignatureFull; every 9th case EvalContract), opcode byte looked up in "
            "OpsByName; outcome read through the evaluator's EvalTracer hook after the opcode's step (final stack | err | panic). "
            "Every opcode at EVERY AVM version that has it, both modes (smoke grid); then at v14 with every 5th case at a random older "
            "version. Operands: boundary grid (0 1 2 3 7 8 9 63..65 127..129 255..257 2^16 2^31 2^32+-1 2^62 2^63+-1 2^64-3..2^64-1, "
            "perfect squares +-1) squared for two-operand uint ops; exact overflow boundaries (max/a -1,0,+1 for mul/mulw, 2^64-1-a for plus/addw); "
            "all shift counts 0..70; exp/expw: bases 0..17 x all exponents to 70/135, and for ~100 (thorough ~2400) bases the largest exponent that "
            "fits 2^64 / 2^128, its neighbours and a random one; sqrt: r^2-1, r^2, r^2+1, (r+1)^2-1, (r+1)^2 around boundary and random roots; "
            "divw hi in {y-1,y,y+1}; divmodw 6^4 corner grid + random 128/128; byte strings: lengths 0,1,2,8,9,32,33,63,64,65,66 all-00/all-ff/"
            "leading zeros/random as a grid for byte math, random up to 66 bytes (528 bits) incl. equal values with different padding, a+-1, exact "
            "multiples; bitwise ops up to 120 bytes and one 512-byte (thorough 4096-byte) pair; getbit/setbit/getbyte/setbyte/extract: every index around the end of "
            "0..5(12)-byte strings, indexes 2^63, 2^64-1, 2^64-n (wrapping end), values 0,1,2 / 255,256; mixed-type == and !=. "
            "PRODUCER FORMS (zz_verif_c32_producers_test.go): for a boundary subset of operand tuples of every opcode the same abstract operand is built "
            "by other opcodes so that the stackValue differs in its hidden fields: bytes via pushbytes | itob(taint)++x;extract 8 0 | ...;substring3 "
            "(stale Uint = 0xA5A5A5A5DEADBEEF) | bzero(len) b| x and int len;bzero (stale Uint = len) | int v;itob (stale Uint = v) | concat of halves | "
            "prefix of a longer array via extract3 | select; ints via pushint | btoi | bzero;len | x+0 | x*1 | ! | itob;btoi | extract_uint64 | ==; all "
            "form combinations up to a cap (then sampled), rotated through swap;swap / cover;uncover / reversed+swap / dup;pop shuffles, plus for every "
            "operand an aliased copy (dig;cover, sharing the byte slice) underneath that must come out unchanged (else it stays in the observation, which "
            "then violates the specified shape). The form is recorded in the mode symbol (sig.p31.s2.a0) and ignored by the model. "
            "Non-trivial = some operand is non-zero / non-empty; distinct = distinct case lines.",
    "exhaustive": {"quick": False, "thorough": False},
    "explanation": "the theorems hold for ALL operands (every 64-bit word, every byte string up to 4096 bytes; sqrt by loop invariant, exp/expw/bytes by "
                   "induction); the cases validate the transcription against the real evaluator and apply the proved oracle (meets = sat) to the "
                   "implementation's own outputs",
    "assumptions": [
        "math/bits.Add64/Mul64/Div64/Len64/Len8 and math/big.Int SetBytes/Bytes/Add/Sub/Mul/Div/Mod/QuoRem/Sqrt/Rsh/Uint64/BitLen compute their documented "
        "results (Go standard library); big.Int.Div/Mod on non-negative operands = floor division",
        "Go unsigned arithmetic and shifts wrap modulo 2^64; byte(x) truncates (language specification)",
        "operands reach the opcode function as the evaluator's stackValue {Uint | Bytes != nil}; step()'s generic arg-type / cost / stack-height / "
        "4096-byte checks are C31's subject and are exercised, not modelled, here",
    ],
    "trusted_base": ["modelled: data/transactions/logic/eval.go opPlus..opBytesZero (arithmetic, comparison, bitwise, byte-math, conversion, wide, "
                     "getbit/setbit/getbyte/setbyte, extract_uintN) as word-level Gallina (coq/model/AvmArith.v); the specification table "
                     "coq/model/AvmArithSpec.v (unbounded N arithmetic, positional big-endian value) is what 'specified result' means"],
}
