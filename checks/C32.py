CONFIG = {
    "props": "props/C32.v",
    "runner": {"module": "Verif.model.AvmArithSpec", "ident": "check"},
    "harness": [{
        "name": "logic", "pkg": "./data/transactions/logic/", "run": "^TestVerifC32$",
        "files": ["data/transactions/logic/zz_verif_c32_test.go"],
        "util": [("data/transactions/logic", "logic")],
        "env": {"quick": {"VERIF_C32_N": 150}, "thorough": {"VERIF_C32_N": 1500, "VERIF_C32_EXTRA": 150000}},
        "timeout": {"quick": 900, "thorough": 3000},
    }],
    "rule": "TODO",
    "exhaustive": {"quick": False, "thorough": False},
    "explanation": "TODO",
    "assumptions": [],
    "trusted_base": [],
}
