CONFIG = {
    "props": "props/C46.v",
    "runner": {"module": "Verif.model.WalletSpec", "ident": "check"},
    "harness": [{
        "name": "kmd", "pkg": "./daemon/kmd/wallet/driver/", "run": "^TestVerifC46$",
        "files": ["daemon/kmd/wallet/driver/zz_verif_c46_test.go"],
        "util": [("daemon/kmd/wallet/driver", "driver")],
        "env": {"quick": {"VERIF_C46_CASES": 40, "VERIF_C46_OPS": 45},
                "thorough": {"VERIF_C46_CASES": 600, "VERIF_C46_OPS": 70}},
        "timeout": {"quick": 600, "thorough": 3000},
    }],
    "rule": "real SQLiteWalletDriver/SQLiteWallet on SQLite files (scrypt with the smallest parameters via UnsafeScrypt). A case = one MDK and 2-3 "
            "wallets: wallet 1 (blank/random or given MDK; operations on the uninitialised handle; Init; a random sequence of FetchWallet-again, Init, "
            "CheckPassword, GenerateKey(displayMnemonic), ImportKey (keys the derivation reaches next / has reached / foreign, optionally with a corrupted "
            "public half), ExportKey, DeleteKey, ExportMasterDerivationKey, SignProgram, RenameWallet, Import/DeleteMultisigAddr with right and wrong "
            "passwords (random, one bit flipped, truncated, extended, empty; in every 5th case also the password followed by NUL bytes); finally "
            "ExportMasterDerivationKey), then 1-2 restore wallets created in a fresh directory from the exported MDK (imports first, then generation "
            "beyond wallet 1's highest index mixed with the other operations). After EVERY operation: result / error class, Metadata name, ListKeys, raw "
            "(address, key_idx) rows, ListMultisigAddrs. derive/addr/multisig-address tables are recomputed independently in the harness (HMAC-SHA512/256 "
            "block = HKDF-Expand, Go crypto/ed25519, SHA-512/256). Case 0 replays the witness of C46_wrong_password_bytes_refuted. Non-trivial = at least "
            "one successful generate and one wrong-password operation in the case; distinct = distinct case lines.",
    "exhaustive": {"quick": False, "thorough": False},
    "explanation": "theorems: every operation sequence of any length, arbitrary carriers and arbitrary derive/addr/kdf/kdff under the stated premises "
                   "(unbounded); the cases are random testing of the model-implementation correspondence and of the oracle on the implementation's output",
    "assumptions": [
        "no two derivation indices of one MDK give the same address (HKDF-Expand over SHA-512/256 + ed25519 key generation are collision free): derive_inj",
        "the salted fast password hash (SHA-512/256 of salt||pw) is injective: kdff_inj",
        "password acceptance on the slow path (Init, fresh handles, RenameWallet) = equality of what scrypt+secretbox derive from the password (kdf); "
        "'wrong password' in C46_wrong_password_fails means kdf pw <> kdf pw0. For the real scrypt kdf pw = kdf (pw||0x00..): C46_wrong_password_bytes_refuted, "
        "finding c46_password_trailing_nul",
        "SQLite honours PRIMARY KEY (INSERT of a present address fails with a constraint error), DELETE of an absent row succeeds, a rolled back transaction "
        "leaves no trace, exclusive transactions serialise GenerateKey; crypto/rand does not fail",
        "secretbox authenticated encryption: rows written by the wallet decrypt to what was encrypted (errTampering / errTypeMismatch unreachable)",
    ],
    "trusted_base": [
        "modelled: daemon/kmd/wallet/driver/sqlite.go CreateWallet/FetchWallet/Init/CheckPassword/GenerateKey+generateKeyTxLocked/ImportKey/ExportKey/"
        "DeleteKey/ExportMasterDerivationKey/SignProgram(status)/RenameWallet/ImportMultisigAddr/DeleteMultisigAddr as a state machine over the table rows "
        "(coq/model/Wallet.v); not modelled: the encryption itself, msgpack encoding, file system / wallet directory scanning, SignTransaction and the "
        "multisig signing operations, concurrency (driver mutex, SQLite locking)",
        "harness-side reference computations of derive/addr/multisig address (independent re-implementations, themselves trusted)",
    ],
}
