CONFIG = {
    "props": "props/C46.v",
    "runner": {"module": "Verif.model.WalletSpec", "ident": "check"},
    "harness": [{
        "name": "kmd", "pkg": "./daemon/kmd/wallet/driver/", "run": "^TestVerifC46$",
        "files": ["daemon/kmd/wallet/driver/zz_verif_c46_test.go"],
        "util": [("daemon/kmd/wallet/driver", "driver")],
        "env": {"quick": {"VERIF_C46_CASES": 30, "VERIF_C46_OPS": 45},
                "thorough": {"VERIF_C46_CASES": 400, "VERIF_C46_OPS": 70}},
        "timeout": {"quick": 600, "thorough": 3000},
    }],
}
