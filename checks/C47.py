CONFIG = {
    "props": "props/C47.v",
    "runner": {"module": "Verif.model.TrackerStoreCheck", "ident": "check"},
    "harness": [{
        "name": "store", "pkg": "./ledger/store/trackerdb/testsuite/", "run": "^TestVerifC47$",
        "files": ["ledger/store/trackerdb/testsuite/zz_verif_c47_test.go"],
        "util": [("ledger/store/trackerdb/testsuite", "testsuite")],
        "env": {"quick": {"VERIF_C47_HIST": 60, "VERIF_C47_BATCH": 5, "VERIF_C47_QUERY": 30},
                "thorough": {"VERIF_C47_HIST": 600, "VERIF_C47_BATCH": 6, "VERIF_C47_QUERY": 40}},
        "timeout": {"quick": 600, "thorough": 3000},
        "search_tier": "quick",
    }],
    "rule": "each history opens a fresh SQLite (in memory) and a fresh Pebble store (temp dir under the run directory, removed afterwards) through "
            "trackerdb.Store, runs RunMigrations, applies the same random protocol-respecting write batches to both (accounts, resources, app kv pairs "
            "with prefix chains / 0x00 / 0xff tails / empty values, creatables, online-account rows over rounds incl. 254..257, 511, 65535/6, 2^32, 2^63-1, "
            "OnlineAccountsDelete, tx tail with gaps and pruning, online round params, state proof contexts, totals) and after every batch issues random "
            "reader queries of all 22 kinds with boundary-heavy arguments (prefix / cursor / limit / byte budget / exclusions, pre-filled result maps, offsets, "
            "maxAccounts). One case = (history so far, query, SQLite observation, Pebble observation); spec_ok = the two observations are equal; corr = SQLite "
            "equals the abstract store's answer and Pebble equals the transcribed repaired key-value code's answer. Non-trivial = non-empty history; "
            "distinct = distinct case lines.",
    "exhaustive": {"quick": False, "thorough": False},
    "explanation": "theorems quantify over every protocol-respecting history (any length) and every reader argument; SQLite's agreement with the abstract store is tested, not proved",
    "assumptions": [
        "writers are driven as accountsNewRound / the trackers drive them (op_ok): insert only absent rows, update / delete only present rows, an account is deleted after its resources, "
        "db round moves forward, tx tail / round params / state proof rounds are inserted once, InsertOnlineAccount's normalized balance and voteLastValid arguments agree with the data; "
        "a write sequence that breaks this (e.g. InsertAccount twice) errors in SQLite (primary key) and silently overwrites in the key-value backend - outside the compared domain",
        "creatable indices, rounds and counts are below 2^63 (database/sql rejects uint64 with the high bit; the key-value backend accepts them)",
        "LookupKeysByPrefix is called with resultCount < maxKeyNum (accountUpdates returns before the DB call otherwise; SQLite then returns round 0)",
        "msgpack encoding / decoding of the stored structs is lossless (values are abstracted to payload numbers; the harness flags any record that does not re-encode to what was written)",
        "Pebble iterators / Get / Set / Delete / DeleteRange and SQLite behave as an ordered byte-string map / as the SQL statements read (modelled, compared on every run)",
        "AccountsTotals(catchpointStaging=true) before any PutTotals(true) is not compared (sql.ErrNoRows vs trackerdb.ErrNotFound; catchpoint staging is unimplemented on the key-value backend)",
    ],
    "trusted_base": [
        "modelled: generickv/schema.go key encodings, generickv readers / writers (accounts_reader.go, accounts_ext_reader.go, onlineaccounts_reader.go, accounts_writer.go, "
        "accounts_ext_writer.go, onlineaccounts_writer.go, stateproof_*.go) as Gallina over an ordered byte-string map (coq/model/TrackerStore.v); SQL statements of "
        "sqlitedriver/sql.go, accountsV2.go, spVerificationAccessor.go as comprehensions over the abstract store",
        "not modelled: catchpoint readers / writers / iterators (unimplemented on the key-value backend: recorded finding), LoadAllFullAccounts, AccountsHashRound, batch / snapshot / transaction scopes (the harness uses the store-level handles), dualdriver",
    ],
}


def custom(ctx):
    """Safety net: the driver inspects only the first 20 verdicts of each code; scan every verdict of
    the run for finding signatures that are NOT listed in KNOWN_FINDINGS.txt (the defects repaired by
    fixes/C47a-c carry such names) so that none can hide behind listed ones."""
    import os, re, glob, subprocess
    runner = os.path.join(ctx.BUILD, "ocaml", ctx.pid, "runner")
    if not os.path.exists(runner):
        return
    listed = set()
    kf = os.path.join(ctx.VERIF, "KNOWN_FINDINGS.txt")
    if os.path.exists(kf):
        for l in open(kf):
            m = re.match(r"^finding:\s+property=(\S+)\s+name=(\S+)", l.strip())
            if m and m.group(1) == ctx.pid:
                listed.add(m.group(2))
    counts, example = {}, {}
    for cf in sorted(glob.glob(os.path.join(ctx.work, "h_*", "cases*.txt"))):
        with open(cf) as fin:
            p = subprocess.run([runner], stdin=fin, stdout=subprocess.PIPE, text=True)
        cases = [l.rstrip("\n") for l in open(cf) if l.strip()]
        for c, v in zip(cases, p.stdout.splitlines()):
            m = re.match(r"^\(5\s+(\S+?)[\s)]", v)
            if m:
                counts[m.group(1)] = counts.get(m.group(1), 0) + 1
                example.setdefault(m.group(1), c)
    ctx.extra_coverage["finding_signature_counts"] = counts
    for name in sorted(counts):
        if name not in listed:
            rdir = os.path.join(ctx.VERIF, "replays", ctx.pid)
            os.makedirs(rdir, exist_ok=True)
            rp = os.path.join(rdir, "unlisted_%s_seed%d.txt" % (name, ctx.seed))
            with open(rp, "w") as f:
                f.write("# property %s: %d case(s) with the unlisted finding signature %s\n" % (ctx.pid, counts[name], name))
                f.write("# replay: bin/check %s --replay %s\n" % (ctx.pid, rp))
                f.write(example[name] + "\n")
            ctx.problems.append(("finding", "unlisted finding signature %s on %d case(s); replay %s" % (name, counts[name], rp)))
