CONFIG = {
    "props": "props/C47.v",
    "runner": {"module": "Verif.model.TrackerStoreCheck", "ident": "check"},
    "harness": [{
        "name": "store", "pkg": "./ledger/store/trackerdb/testsuite/", "run": "^TestVerifC47$",
        "files": ["ledger/store/trackerdb/testsuite/zz_verif_c47_test.go"],
        "util": [("ledger/store/trackerdb/testsuite", "testsuite")],
        "env": {"quick": {"VERIF_C47_HIST": 40, "VERIF_C47_BATCH": 5, "VERIF_C47_QUERY": 30},
                "thorough": {"VERIF_C47_HIST": 600, "VERIF_C47_BATCH": 6, "VERIF_C47_QUERY": 40}},
        "timeout": {"quick": 600, "thorough": 3000},
    }],
}
