CONFIG = {
    "props": "props/C02.v",
    "runner": {"module": "Verif.model.C02Check", "ident": "check"},
    "harness": [{
        "name": "c02", "pkg": "./agreement/", "run": "^TestVerifC02(Pseudonode)?$",
        "files": ["agreement/zz_verif_sm_test.go", "agreement/zz_verif_sm_gen_test.go", "agreement/zz_verif_c02_test.go", "agreement/zz_verif_c02p_test.go"],
        "util": [("agreement", "agreement")],
        "env": {"quick": {"VERIF_C02P_N": 6, "VERIF_C02P_SLOW": 2, "VERIF_C02_N": 30, "VERIF_C02_EVENTS": 36, "VERIF_C02_ATTESTS": 3},
                "thorough": {"VERIF_C02P_N": 30, "VERIF_C02P_SLOW": 6, "VERIF_C02_N": 500, "VERIF_C02_EVENTS": 50, "VERIF_C02_ATTESTS": 5}},
        "timeout": {"quick": 900, "thorough": 3000},
        "search_tier": "quick",
    }],
    "rule": "the REAL Service.mainLoop (goroutine + unbuffered input/output/ready channels), the REAL persistState / asyncPersistenceLoop / "
            "persist / restore / decode on a real (in-memory SQLite) crash-DB accessor and the REAL pseudonodeAction.do / checkpointAction.do / "
            "rezeroAction.do are driven with generated event scripts (b-agree's state-aware generator, 6 scenario biases, directed prefixes) by an "
            "emulated demuxLoop (FIFO over the real demux.queue; fake pseudonode behind the interface mirroring pseudonodeVotesTask.execute's wait "
            "on persistStateDone; fabricated own votes of senders 101/102). The write moment is controlled through LedgerReader.Wait (gate), "
            "PersistFail = closed accessor for that write (1 in 9 requests), slow persists let 1-3 script events interleave (1 in 4). Crash = "
            "abandon the Service, restart on the same DB. For every script: the uncrashed run, and for each of the first 3 (thorough 5) persist "
            "requests ALL crash points a0 (attest emitted, not executed) / a1 (request enqueued) / b (row written) / c (checkpoint through the state "
            "machine) / d (votes released), plus two crashes in a row (b or d, restart, re-emitted attest persisted [and re-released], crash, restart, "
            "rest of the script, adversarial tail = fresh proposal + timeouts); first of all the directed F6 schedule on the minimal script. One case "
            "= one schedule (every operation with the implementation's observation: outputs of mainLoop, released votes, decoded crash DB after every "
            "write). The model replays the operation list through the fine-grained wrapper DurableFine.fstep instantiated with the FULL agreement "
            "model (AgreementPlayer.step restricted to attests, restore = AgreementPersist.persist) and must predict every action list, every release "
            "and every crash-DB content; spec_ok (observations only) = S1 no two released votes with equal (sender, round, period, step) and "
            "different value, S2 release only by the checkpoint of the own, successfully written request whose row holds the attesting event's "
            "action list, S3 attest-once along every real single run (disk run + continuation). Non-trivial = at least one crash and one released vote.",
    "rule_part2": "TestVerifC02Pseudonode: the REAL pseudonode (makePseudonode, asyncPseudonode.MakeVotes, pseudonodeVotesTask.execute with real "
                  "participation keys / VRF / one-time signatures, 10 accounts) is given a persistStateDone channel that is closed after 0-40 ms (ok), "
                  "stays pending for 2.3 s > maxPseudonodeOutputWaitDuration and is closed then (slow; 2 cases in quick, run in parallel), or delivers "
                  "an error (err); steps soft/cert/next/next+1/late/down. Observed order of signal / vote / closed events; the model replays "
                  "[FEv; FWrite ok; FRelease] through DurableFine.fstep; spec_ok = no vote before signal_ok, none after signal_err, no early finish.",
    "exhaustive": {"quick": False, "thorough": False},
    "explanation": "C02_crash_nonequiv / C02_fine_crash_nonequiv: every machine, every interleaving of events, writes, failed writes, checkpoint "
                   "deliveries and crashes (unbounded); premise attest-once of single runs. C02_attest_once: the agreement model, every event "
                   "sequence, ALL step kinds (soft/next_k by the step/napping discipline; cert/late by the bind-to-threshold invariant of "
                   "Staging over the router tree; redo by the same invariant for voteTrackerPeriod.Cached; down = bottom) under the trace "
                   "premises and threshold value-consistency (cons_sc, cons_next); C02_model_nonequiv composes both halves. Crash points are "
                   "enumerated per request, scripts are sampled",
    "assumptions": ["mainLoop and demuxLoop are serialized by the unbuffered output/ready/input channels (the model has four atomic operations; "
                    "a data race between the two goroutines is outside the model)",
                    "SQLite makes the single-row insert-or-replace of the crash DB atomic (a crash never leaves a torn row)",
                    "decode(encode(state)) is equivalent to state for an equivalence that the state machine respects and that preserves attest "
                    "actions (premises eqv_* of C02_fine_crash_nonequiv; for the agreement model this is C07, restore = identity on the observables; "
                    "the harness checks the model's persist projection against the real decoded row after every write)",
                    "attest-once for cert / late / redo needs value-consistent thresholds per (round, period) (cons_sc / cons_next, premises of "
                    "C02_attest_once; the quorum-intersection facts of C01); C02_attest_once_redo_needs_consistency shows redo differs without it; "
                    "deadline timeouts arrive at steps < 252 (step++ never reaches late/redo/down), first round > 0, no uint64 wrap-around",
                    "pseudonodeVotesTask.execute (wait on persistStateDone before writing the votes to the output channel) is mirrored by a fake "
                    "pseudonode in the crash-schedule harness and exercised on the REAL pseudonode by TestVerifC02Pseudonode; there the timing is "
                    "SAMPLED: a release that needs a checkpoint delay other than 0-40 ms / 2.3 s (e.g. a timer longer than 2.3 s) would not be seen",
                    "proposal-votes (step 0: assemble / repropose) are not persisted before release; outside the property's quantifier "
                    "(C02_propose_step_not_persisted); the ledger's NextRound is constant during a case (no 'stale crash state' restart)"],
    "trusted_base": ["modelled: agreement/service.go mainLoop + persistState, persistence.go asyncPersistenceLoop/persist/restore, actions.go attest/"
                     "checkpoint, pseudonode.go wait-before-release as the wrappers coq/model/Durable.v (atomic) and DurableFine.v (fine-grained, "
                     "proved to be simulated by the former); the state machine itself = coq/model/Agreement*.v (C03/C07)",
                     "wire format / canonical rendering: harness/go/agreement/zz_verif_sm_test.go, zz_verif_c02_test.go, coq/model/AgreementRender.v, C02Check.v"],
}
