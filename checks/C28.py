CONFIG = {
    "props": "props/C28.v",
    "runner": {"module": "Verif.model.TxnAuthCheck", "ident": "check"},
    "harness": [{
        "name": "verify", "pkg": "./data/transactions/verify/", "run": "^TestVerifC28$",
        "files": ["data/transactions/verify/zz_verif_c28_test.go", "data/transactions/verify/zz_verif_c28_cache_test.go"],
        "util": [("data/transactions/verify", "verify")],
        "env": {"quick": {"VERIF_C28_N": 1200}, "thorough": {"VERIF_C28_N": 8000}},
        "timeout": {"quick": 900, "thorough": 3000},
    }, {
        "name": "cache", "pkg": "./data/transactions/verify/", "run": "^TestVerifC28Cache$",
        "files": ["data/transactions/verify/zz_verif_c28_test.go", "data/transactions/verify/zz_verif_c28_cache_test.go"],
        "util": [("data/transactions/verify", "verify")],
        "env": {"quick": {"VERIF_C28_CACHE_WORLDS": 6, "VERIF_C28_CACHE_STEPS": 24},
                "thorough": {"VERIF_C28_CACHE_WORLDS": 30, "VERIF_C28_CACHE_STEPS": 40}},
        "timeout": {"quick": 900, "thorough": 3000},
    }, {
        "name": "eval", "pkg": "./ledger/eval/", "run": "^TestVerifC28Eval$",
        "files": ["ledger/eval/zz_verif_c29_test.go", "ledger/eval/zz_verif_c28_compose_test.go"],
        "util": [("ledger/eval", "eval")],
        "env": {"quick": {"VERIF_C28_EVAL_N": 1500}, "thorough": {"VERIF_C28_EVAL_N": 12000}},
        "timeout": {"quick": 900, "thorough": 3000},
    }, {
        "name": "compose", "pkg": "./ledger/eval/", "run": "^TestVerifC28Compose$",
        "files": ["ledger/eval/zz_verif_c29_test.go", "ledger/eval/zz_verif_c28_compose_test.go"],
        "util": [("ledger/eval", "eval")],
        "env": {"quick": {}, "thorough": {}},
        "timeout": {"quick": 900, "thorough": 3000},
    }],
    "rule": "vg: the real verify.TxnGroup on groups of 1-16 transactions signed with REAL keys (7 ed25519 keys, 2 Falcon-1024 keys): plain "
            "signature, k-of-n multisig (n 1-5 and around the 255 limit, duplicate keys, too few signers), contract LogicSig, LogicSig delegated "
            "by signature / Msig / LMsig / Falcon key (approving, rejecting, erroring, too-new and malformed programs, with arguments), Falcon "
            "PQ signature, no signature, state proof transaction, heartbeat (genuine and broken proofs); sender = authorizer or rekeyed "
            "(AuthAddr names the authorizer); 10 randomised consensus switches (rekeying, AuthAddr != Sender, PQ, LogicSig version / Msig / LMsig, "
            "size pricing, LogicSig size limits). 65% of the groups are mutated AFTER signing: signature / sub-signature / key bit flips, "
            "transaction field changes (amount, receiver, note, fee, last valid, rekey-to, sender), AuthAddr set / cleared / = sender, a second "
            "category added, all removed, multisig threshold / version / key order / extra / dropped / zeroed / empty sub-signature lists, "
            "sub-signature by another key or over another message, program swapped / extended / removed, delegation added or moved between Msig "
            "and LMsig, PQ salt / scheme / key / signature changes, members swapped / replaced / dropped, group id flipped, authorization replayed "
            "from another member, signature over the transaction without its group id, orphan LogicSig content. Every signature present in the "
            "group is verified one by one with the real crypto (SignatureVerifier.VerifyBytes, VerifyFalcon1024) and the outcomes instantiate the "
            "model's sig_ok / pq_ok; real SHA-512/256 digests of the address pre-images instantiate H; the model must predict the exact "
            "result (reason code, group index, cause). tg: the real BlockEvaluator.TransactionGroup over a test ledger with rekeyed accounts: "
            "groups of 1-18 payments with rekeys inside the group and right / cleared / foreign / stale / = sender / bit-flipped AuthAddr or a "
            "changed sender; validate mode on (14 of 15) and off; the model must predict the result and the AuthAddr of every sender afterwards. "
            "vc (exhaustive matrix, 452 cases every run): the SAME signed transaction through verify.TxnGroup AND BlockEvaluator.TransactionGroup "
            "(validate) on a ledger holding 24 senders = {plain key, multisig address, contract (program hash), Falcon PQ address} x {not rekeyed, "
            "rekeyed to a plain key / a multisig address / a contract address / a PQ address, rekeyed away and back to itself}; authorised by "
            "{the current authorizer, the sender's own identity (= the previous authorizer), a foreign identity} in every flavour that identity "
            "can produce (signature, LogicSig delegated by signature; multisig, LogicSig delegated by Msig / LMsig; escrow LogicSig; PQ signature, "
            "LogicSig delegated by the PQ key) with AuthAddr = {what the ledger says, the authorising identity, empty, foreign}; plus two-member "
            "groups whose first member rekeys the sender and whose second member is authorised by the new / the previous authorizer. The model "
            "must predict both results; spec_ok is evaluated on the COMPOSITION (C28_only_current_authorizer / C28_compose_spec_ok_sound): "
            "accepted by both => exactly one category and authorised by the current authorizer of the sender in the ledger state. "
            "pg / tc / pb (stateful histories, 6 worlds x 24 calls on ONE shared real VerifiedTransactionCache): block validation as in ledger/eval "
            "(GetUnverifiedTransactionGroups, then verify.PaysetGroups on the rest through a real execution pool, several worksets) on all-good "
            "paysets, good paysets with one group whose only defect is a bad signature (prep passes, batch fails), random mixes and exact "
            "REPEATS of earlier paysets; verify.TxnGroup with the cache; txnSigBatchProcessor.ProcessBatch batches. After every call the real "
            "cache is asked group by group whether it vouches for the group. spec_ok on every call, whatever came before: a group the cache "
            "vouches for (before or after the call) and every group of an accepted payset has only authorised members (C28_cache_sound / "
            "C28_validate_sound); the model predicts each result and which groups become remembered. "
            "Non-trivial: vg / vc / pg / tc / pb some signature material present; tg some account rekeyed, AuthAddr or RekeyTo set. distinct = distinct case lines.",
    "exhaustive": {"quick": False, "thorough": False},
    "explanation": "theorems hold for every signature / PQ verification function, every hash function, all consensus switches, groups of any "
                   "length and any content; the cases test the transcription (model = code) and evaluate the declarative oracle accept_ok_b "
                   "(exactly one category and authorised by the named authorizer) / auth_chain_ok on the implementation's own accept decisions",
    "assumptions": [
        "cryptography is abstract: EUF-CMA of ed25519 / Falcon and collision resistance of SHA-512/256 are premises, not theorems "
        "(C28_unsigned_content_rejected states the unforgeability premise explicitly)",
        "BatchVerifier.Verify accepts iff every enqueued signature verifies individually (libsodium batch verification = conjunction of "
        "single verifications; compared on every case through the recorded single outcomes)",
        "the canonical msgpack encoding of a transaction determines the transaction (C40)",
        "oracle bits taken from the real code per case: Transaction.WellFormed, logic.CheckSignature, the LogicSig program's result",
        "the evaluator's authorizer check runs in validate mode only (eval.validate; blocks replayed with validate=false were certified before)",
    ],
    "trusted_base": [
        "modelled: data/transactions/verify/txn.go (txnGroupBatchPrep, logicSigGroupSizeCheck, txnBatchPrep, checkTxnSigTypeCounts, "
        "stxnCoreChecks, logicSigSanityCheckBatchPrep, logicSigVerify), crypto/multisig.go MultisigBatchPrep / MultisigAddrGenWithSubsigs, "
        "data/transactions/pqsig.go Verify, SignedTxn.Authorizer, transactions.checkTxnGroupID, ledger/eval/eval.go TransactionGroup + "
        "transaction() authorizer check + apply.Rekey as Gallina (coq/model/TxnAuth.v, Commitments.v)",
        "PaysetGroups is modelled per workset (worksetBuilder cut, prep of every group, batch, then AddPayset) with an arbitrary set of worksets "
        "completed before an abort; the cache is abstracted to the list of remembered groups (capacity, buckets and pinning only forget "
        "entries; a cache hit = lookup by txid + equal signature fields and AuthAddr is a premise of C28_validate_sound); "
        "not modelled: goroutine scheduling of the worker pool, AVM evaluation (C31-C35), "
        "WellFormed, alive / duplicate / apply / min-balance checks of the evaluator (oracle bits)",
        "harness error classification by reason code and message text (harness/go/data/transactions/verify/zz_verif_c28_test.go)",
    ],
}
