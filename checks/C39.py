CONFIG = {
    "props": "props/C39.v",
    "runner": {"module": "Verif.model.StateProofCheck", "ident": "check"},
    "harness": [{
        "name": "stateproof", "pkg": "./crypto/stateproof/", "run": "^TestVerifC39$",
        "files": ["crypto/stateproof/zz_verif_c39_test.go"],
        "util": [("crypto/stateproof", "stateproof")],
        "env": {"quick": {"VERIF_C39_N": 60, "VERIF_C39_POOL": 20}, "thorough": {"VERIF_C39_N": 1200, "VERIF_C39_POOL": 24}},
        "timeout": {"quick": 900, "thorough": 3000},
    }, {
        "name": "validate", "pkg": "./stateproof/verify/", "run": "^TestVerifC39Validate$",
        "files": ["stateproof/verify/zz_verif_c39v_test.go"],
        "util": [("stateproof/verify", "verify")],
        "env": {"quick": {"VERIF_C39V_N": 1500}, "thorough": {"VERIF_C39V_N": 60000}},
        "timeout": {"quick": 900, "thorough": 3000},
    }],
    "rule": "per scenario: 1..20 participants with real Falcon / merkle-signature keys (key lifetimes 1, 4, 256; 4 keys each), weights equal / small / up to 2^40 / one whale, "
            "10% zero weights, signing subsets of 30..100%, proven weight mostly a fraction of the signed weight, sometimes equal / above / signed-1, strength targets 1..256; "
            "every submitted signature goes through the real IsValid (genuine, other signer's, other message, salt byte changed, zero-weight position, verifySig=false, and a genuine "
            "signature made uncommittable by TreeDepth 17) -> 'isvalid' cases; real Add + CreateProof -> 'prove' case (positions, reveals, L values, signed weight, error class); "
            "real Verifier.Verify on the honest proof and on ~45 single-field mutations (message, round in/out of the key window, signature flipped / swapped / other message / empty, "
            "participant key / lifetime / weight, L, reveal positions missing / other / swapped / dropped / added, signed weight, SigCommit, salt version, TreeDepth too large / changed with and "
            "without position renaming, proof paths, verifier's proven weight / target / participants commitment) -> 'verify' cases carrying the per-reveal facts "
            "(signature valid, salt, committable), both VC verification results and the coins, all computed with the primitives directly. "
            "Directed forgeries (expect reject): proofs produced by the real CreateProof from a prover whose slots were filled by hand with EMPTY signatures (all slots / all non-signers / one "
            "non-signer; also for a message nobody signed), i.e. consistent signature commitment, prefix-sum L values, coin-chosen positions, genuine participant proofs and a claimed signed weight "
            "above the proven weight -- accepted only if every revealed slot has a valid signature by the revealed participant. "
            "Ledger side ('validate' cases): the real ValidateStateProof on real proofs for custom consensus parameters (interval 4/16, different signer subsets, rounds around the "
            "acceptable-weight ramp, tampered message / round / parameters) and on boundary-heavy (total weight, threshold, last attested round, at-round, signed weight near the acceptable weight) "
            "tuples with a dummy proof; the inner Verifier.Verify outcome is recorded by calling the exported verifier. "
            "Non-trivial: every validate case, verify cases with at least one reveal position, prove cases with at least one added signature, every isvalid case.",
    "exhaustive": {"quick": False, "thorough": False},
    "explanation": "theorems hold for every participant set, signature set, proof and round (unbounded); signatures, coin stream and vector commitments are parameters with explicit premises "
                   "(the vector-commitment premises are theorems of C37 for the merklearray model); the harness validates the transcription of prover.go / verifier.go against the real code "
                   "and evaluates the soundness / tamper clauses on the real Verify outcomes",
    "assumptions": ["merklesignature Verifier.VerifyBytes / ValidateSaltVersion / buildCommittableSignature are abstract predicates (sig_ok, salt_ok, commit_ok); unforgeability is not modelled",
                    "the coin stream (SHAKE256 + rejection sampling) is an abstract function of the coin-choice seed with coin < signedWeight (C38_coin_below_weight)",
                    "vector commitments: vc_complete / vc_sound, proved for model/MerkleArray.v under C37's hash_sizes / hash_ideal (C39_merkle_vc_complete / C39_merkle_vc_sound)",
                    "weights.go is the C38 model (model/SpWeights.v, with fixes/C38.patch); lnProvenWeight is an input (LnIntApproximation's float64 computation is not modelled)",
                    "the model's IsValid is the code with fixes/C39.patch; Prover.cachedProof and msgpack encoding are not modelled",
                    "the security level of the sampling argument (probability that all coins hit signed slots below the proven weight) is cryptographic and out of scope"],
    "trusted_base": ["modelled: crypto/stateproof/prover.go (MakeProver, Present, IsValid, Add, Ready, coinIndex, CreateProof), verifier.go (Verify, verifyStateProofTreesDepth), "
                     "stateproof/verify/stateproof.go (ValidateStateProof, calculateAcceptableStateProofWeight) as Gallina (coq/model/StateProof.v)"],
}
