CONFIG = {
    "props": "props/C24.v",
    "runner": {"module": "Verif.model.FeesSpec", "ident": "check"},
    "harness": [{
        "name": "fees", "pkg": "./ledger/eval/", "run": "^TestVerifC24$",
        "files": ["ledger/eval/zz_verif_c24_test.go"],
        "util": [("ledger/eval", "eval")],
        "env": {"quick": {"VERIF_C24_N": 3000, "VERIF_C24_EVAL_GROUPS": 200, "VERIF_C24_EVAL_BLOCKS": 8},
                "thorough": {"VERIF_C24_N": 60000, "VERIF_C24_EVAL_GROUPS": 4000, "VERIF_C24_EVAL_BLOCKS": 150}},
        "timeout": {"quick": 900, "thorough": 3000},
    }],
    "rule": "ff: real SignedTxn.FeeFactor on generated transactions (pay / state proof / heartbeat with and without the discount / app call; "
            "note, program and argument sizes around the free allowances; PQ signature kinds; PerByteTxnSurcharge 0, 1, 100, 2^40..2^63, 2^64-1). "
            "cg: real CheckGroupFees on boundary-heavy (paid, usage, minFee) incl. paid = requirement-1/0/+1 and requirements around 2^64. "
            "gf: real SummarizeFees+CheckGroupFees on groups of 1..16 real transactions whose fees are split so that they sum to the requirement "
            "-1/0/+1 (tag d), and the same groups of signed payments through BlockEvaluator.TransactionGroup on a test ledger (tag e). "
            "po: proposerPayout/validateForPayouts/performPayout on a hand-built BlockEvaluator (sink balance around its minimum balance, "
            "payout claimed around the allowed amount, Percent 0..100 and misconfigured >100, bonus/fee overflow, fee mismatch, missing / closed "
            "proposer, generate mode, pending rewards on sink/proposer) (tag d), and eval.Eval(validate) of generated blocks whose ProposerPayout / "
            "FeesCollected / Proposer header fields were manipulated (tag e). A case is non-trivial when: ff factor != 1.0; cg/gf minFee and usage non-zero; "
            "po payouts enabled and (payout non-zero or rejected). distinct = distinct case lines.",
    "exhaustive": {"quick": False, "thorough": False},
    "explanation": "theorems hold for all uint64 inputs, groups of any length and all values of the consensus parameters read; the harness validates "
                   "the transcription on boundary-heavy inputs and evaluates the independent closed-form oracle on every implementation observation",
    "assumptions": ["basics.OAdd/OSub/OMul/AddSaturate/SubSaturate/Muldiv/Mul2div/FeeForUsage/Divvy/Micros.MulInt behave as their C45 transcriptions "
                    "(proved exact in C45 and compared with the code there)",
                    "the fee sink's minimum balance is an input (AccountData.MinBalance: formula is C21's subject); observed from the real code per case",
                    "proposer != fee sink (Move with from = to is not modelled)"],
    "trusted_base": ["modelled: data/transactions SignedTxn.FeeFactor / Transaction.feeFactor / Header.FeeContribution / "
                     "ApplicationCallTxnFields.feeContribution / logicSigProgramFeeContribution / SummarizeFees, ledger/eval CheckGroupFees / "
                     "proposerPayout / validateForPayouts / performPayout (+ both halves of roundCowState.Move and WithUpdatedRewards' balance), "
                     "AccountData.AvailableBalance as Gallina (coq/model/Fees.v)",
                     "only tested (not proved): that TransactionGroup / endOfBlock call these functions with the values the model takes as inputs "
                     "(tag e cases); fee accounting of inner transactions (AVM) is out of scope"],
}
