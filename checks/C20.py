CONFIG = {
    "props": "props/C20.v",
    "runner": {"module": "Verif.model.GenValCheck", "ident": "check"},
    "harness": [{
        "name": "ledger", "pkg": "./ledger/", "run": "^TestVerifC20$",
        "files": ["ledger/zz_verif_c20_test.go"],
        "util": [("ledger", "ledger")],
        "env": {"quick": {"VERIF_C20_UNIVERSES": 4, "VERIF_C20_ROUNDS": 14},
                "thorough": {"VERIF_C20_UNIVERSES": 21, "VERIF_C20_ROUNDS": 40}},
        "timeout": {"quick": 900, "thorough": 3300},
        "search_tier": "quick",
    }, {
        "name": "pools", "pkg": "./data/pools/", "run": "^TestVerifC20Pool$",
        "files": ["data/pools/zz_verif_c20_pool_test.go"],
        "util": [("data/pools", "pools")],
        "env": {"quick": {"VERIF_C20P_UNIVERSES": 3, "VERIF_C20P_ROUNDS": 8},
                "thorough": {"VERIF_C20P_UNIVERSES": 6, "VERIF_C20P_ROUNDS": 30}},
        "timeout": {"quick": 900, "thorough": 3300},
        "search_tier": "quick",
    }],
    "rule": "one case = one round on a pair of real ledgers (in-memory SQLite) opened from the same genesis: a random pool of 5..14 really signed groups "
            "(payments to funded / fresh / zero / fee-sink addresses, closes, 2..4-member groups with pooled fees; a third of them invalid: overspend, "
            "minimum balance of sender or receiver, dead in the past / future, duplicate of a committed or of a pooled group, wrong genesis hash, fee "
            "too low, inconsistent / empty / incomplete group id, malformed, oversize, close-then-spend, failing second member; 'rich' universes add "
            "rewards, asset create / opt-in / transfer / close-out, online and offline key registration with short key validity, leases, rekeying) -> "
            "ledger 1: StartEvaluator(Generate, Validate), groups fed through TransactionGroup as the pool's pending evaluator is (TestTransactionGroup is "
            "run as well and must not be stricter); a third of the rounds assemble a FULL block the way the pool does: lowered node-local size cap "
            "(300..2700 bytes), groups offered until one does not fit (ErrNoSpace), then GenerateBlock immediately (or, in a third of those, the remaining "
            "groups are still offered); GenerateBlock(random participating set), "
            "FinishBlock(random proposer, eligibility) -> ledger 2: Ledger.Validate with real signature verification and its own empty verified-txn "
            "cache; then eval.Eval of the same block in 9 runtime variants (prefetcher on / off by failing every ledger read issued from prefetcher "
            "goroutines; 1-worker and runtime.NumCPU()-worker execution pool; empty / warm / half-filled / mocked verified-txn cache; validate on / "
            "off; either ledger) and 30..42 applicable single-field mutants of the block (every ApplyData field with a recomputed root, TxnCounter, "
            "FeesCollected, ProposerPayout, Proposer, Load, both txn roots, each RewardsState field, FeeSink, GenesisHash, dropped / duplicated "
            "transaction, StateProofTracking, bogus / duplicate expired and absent accounts, Bonus, Round, Branch, TimeStamp, CongestionTax, "
            "UpgradeState, a corrupted signature or AuthAddr against an empty and against a warm cache) through Ledger.Validate.  spec_ok = the "
            "generated block validates AND all 10 canonical (sorted) StateDelta digests are equal AND the validator's delta equals the generator's "
            "outside fee sink / proposer AND every applicable mutant is rejected AND the generated header read against the generated payset alone is right "
            "(Load = ComputeLoad(sum of encoded lengths), TxnCounter = previous + count, FeesCollected = sum of fees).  Plain universes (payments, no rewards; consensus v39, v41, current, "
            "future) are also replayed through the Coq model: accepted groups, every generate-computed header field, payset with ApplyData, generator "
            "delta, finished proposer / payout, validator verdict and delta (validate on and off) must coincide.  A second harness (package data/pools) takes "
            "the block from the REAL TransactionPool: Remember of random signed payment groups, OnNewBlock / recomputeBlockEvaluator, AssembleBlock "
            "(incl. the pool-behind / deadline empty-block fall-backs; two of the protocols are current / future with MaxTxnBytesPerBlock = 2400 so that "
            "recomputeBlockEvaluator hits ErrNoSpace and generates FULL blocks), FinishBlock, then Ledger.Validate on a second ledger, a second validation on "
            "the pool's ledger and a non-validating Eval (equal digests), the generator's delta outside fee sink / proposer, and 6..8 header / payset "
            "mutants.  Non-trivial = at least one accepted and one dropped group and at least 6 applicable mutants; distinct = distinct case lines.",
    "exhaustive": {"quick": False, "thorough": False},
    "explanation": "generate_validates / validate_unique / addblock_same_delta hold for every ledger state, every pool (any number of groups, sizes, "
                   "amounts below 2^64), every participating set, proposer and eligibility flag and all consensus parameter values of the modelled "
                   "evaluator (unbounded, by induction over the pool); the runtime half of the property (same delta regardless of prefetching, "
                   "parallel signature checking, verified-txn cache contents, Go map iteration order) is not a statement a Gallina function can "
                   "carry and is searched differentially on the real code",
    "level_text": "proof (mode link) + differential search (runtime half): for the modelled evaluator (payments with close-to, fees, proposer payout; "
                  "rewards-free accounts) it is PROVED for all states and pools that the block generate mode assembles is accepted by validate mode "
                  "with the generator's delta plus payout and proposal record, that validate mode accepts no other value of any generate-computed "
                  "field, and that the non-validating re-evaluation gives the same delta.  That the real eval.Eval is independent of prefetching, "
                  "parallel signature checking, cache contents and map iteration order is SEARCHED, NOT PROVED: 10 evaluations per block under "
                  "different runtime conditions must give identical canonical deltas.",
    "level_note": "partial: determinism in the model (C20_eval_function) is immediate and claims nothing about the Go runtime; transaction types "
                  "other than payments, rewards, participation updates and state-proof tracking are exercised by the harness only (rich universes); "
                  "signatures are C28, the expired / absent lists C27, ApplyData of applications C29",
    "assumptions": [
        "modelled subset: payment transactions (incl. CloseRemainderTo) between accounts that carry only MicroAlgos and LastProposed, rewards level "
        "unchanged from the previous block, no keys / assets / applications / leases / rekeying; expired and absent lists empty, no StateProofTracking",
        "RewardsState and GenesisHash are opaque tokens (both modes call NextRewardsState / GenesisHash() on the same arguments; C25); PaysetCommit is "
        "modelled as the identity on (txid, ApplyData) lists (binding of the Merkle commitment: C37 / collision resistance)",
        "per group the state-independent checks that are the same code in both modes (Txn.WellFormed; per member the group-id checks made inside "
        "TransactionGroup's loop -- after the member's space check, before the next member -- and per group the completeness check after the loop; "
        "SummarizeFees + CheckGroupFees) and per transaction Alive's genesis checks and GetEncodedLength are inputs computed by the real functions",
        "a failing group -- ErrNoSpace included -- leaves the evaluator unchanged (C19; the model drops it by construction, so a counter that keeps "
        "a trace of a dropped group is caught by the harness: the generated block is then rejected by the validator or fails the header-against-payset "
        "oracle); the group structure of the payset is explicit (DecodePaysetGroups)",
        "C20_generate_validates: ApplyData-carrying protocol, RewardUnit > 0, a non-zero proposer when payouts are enabled, money supply below 2^64 "
        "(every finite set of accounts sums to at most S < 2^64: C18); C20_generate_validates_eq needs no supply premise",
    ],
    "trusted_base": [
        "modelled: ledger/eval/eval.go (StartEvaluator, TransactionGroup, transaction, takeFee, Move, applyTransaction, checkMinBalance, endOfBlock, "
        "validateForPayouts, proposerPayout, performPayout, recordProposal, ComputeLoad, GenerateBlock, Eval), cow.go (lookup, putAccount, checkDup, "
        "addTx, commitToParent), ledger/apply/payment.go, ledgercore.UnfinishedBlock.FinishBlock, bookkeeping.Block.WithProposer, the round / bonus / "
        "load / genesis-hash clauses of BlockHeader.PreCheck as Gallina (coq/model/GenVal.v)",
        "harness: the prefetcher is switched off by a LedgerForEvaluator wrapper that fails every read whose call stack contains the prefetcher "
        "package (eval.Eval then discards the preloaded data); the 1-worker pool is a harness implementation of execpool.ExecutionPool behind the "
        "real backlog; canonicalisation sorts accounts, resources, kv, txids, leases, creatables and prints header and totals",
    ],
}
