CONFIG = {
    "props": "props/C22.v",
    "runner": {"module": "Verif.model.AssetOpsSpec", "ident": "check"},
    "harness": [{
        "name": "apply", "pkg": "./ledger/apply/", "run": "^TestVerifC22$",
        "files": ["ledger/apply/zz_verif_c22_test.go"],
        "util": [("ledger/apply", "apply")],
        "env": {"quick": {"VERIF_C22_N": 1500, "VERIF_C22_OPS": 40},
                "thorough": {"VERIF_C22_N": 40000, "VERIF_C22_OPS": 60},
                "search": {"VERIF_C22_N": 8000, "VERIF_C22_OPS": 50}},
        "search_tier": "search",
        "timeout": {"quick": 900, "thorough": 3000, "search": 1500},
    }, {
        "name": "eval", "pkg": "./ledger/eval/", "run": "^TestVerifC22Eval$",
        "files": ["ledger/eval/zz_verif_c22_test.go"],
        "util": [("ledger/eval", "eval")],
        "env": {"quick": {"VERIF_C22_EVAL_N": 200, "VERIF_C22_EVAL_OPS": 35},
                "thorough": {"VERIF_C22_EVAL_N": 4000, "VERIF_C22_EVAL_OPS": 50},
                "search": {"VERIF_C22_EVAL_N": 600, "VERIF_C22_EVAL_OPS": 40}},
        "search_tier": "search",
        "timeout": {"quick": 900, "thorough": 3000, "search": 1500},
    }],
    "rule": "one case = one whole history of asset transactions among 3-5 accounts (plus the zero address and an account without state): "
            "create (Total 0, 1, small, 2^64-1, boundary-heavy; default-frozen; every role address possibly zero), reconfigure, destroy, opt-in, "
            "transfers of 0 / a part / exactly / one more than the holding / boundary-heavy amounts, self transfers, clawback by the right and by a "
            "wrong address, freeze / unfreeze by the right and by a wrong address, close-out to a holder / a non-holder / the creator / oneself with and "
            "without a preceding amount, operations on unknown and destroyed assets, MaxAssetsPerAccount 0 (unlimited) or 1..3. "
            "apply: the real AssetConfig / AssetTransfer / AssetFreeze over a Balances implementation holding exactly what roundCowState holds "
            "(counters, holdings, params in the creator's account, creatable index), writes of a failed transaction rolled back; "
            "eval: the same transactions through a real BlockEvaluator.TransactionGroup (child cow, commit or discard), asset state read back through the "
            "evaluator's roundCowState after every transaction, the finished block re-evaluated by eval.Eval; about 45% of the eval steps are GROUPS of 2..4 "
            "transactions on one asset mixing holding changes (transfers to / from the creator, clawback, freeze, opt-in, close-out) with reconfigurations and "
            "destroy attempts in random order (one child cow for the group on top of the block's cow; committed or discarded as a whole), observed after the group "
            "(error class + index of the failing member, or the ApplyData values) and judged by spec_group (supply + all-or-nothing); at the end a second "
            "evaluator replays every committed group and its state is observed and judged as well. Observed after EVERY transaction: error class "
            "(22 classes, one per error return of asset.go), ApplyData.ConfigAsset / AssetClosingAmount, all holdings, all parameters, the creatable index, "
            "TotalAssets / TotalAssetParams of every account. spec_step (independent of the transcription of asset.go) is evaluated on consecutive observed "
            "worlds. A history is non-trivial when at least 3 transfers moving units / close-outs / clawbacks / freezes / reconfigurations / destroys commit; "
            "distinct = distinct case lines. The first apply case is the scripted witness of the recorded deviation c22_frozen_close_to_creator.",
    "exhaustive": {"quick": False, "thorough": False},
    "explanation": "theorems hold for every history (induction over the transaction list, invariant Inv of proofs/AssetOpsInv.v), any number of accounts and assets; "
                   "the harness validates the transcription of asset.go and evaluates the declarative checker on every observed transaction",
    "assumptions": ["basics.OAdd / OSub / AddSaturate / SubSaturate behave as their C45 transcriptions at width 64 (proved exact in C45 and compared with the code there)",
                    "asset amounts and totals in transactions are uint64 (op_wf)",
                    "the 64-bit transaction counter does not wrap (asset ids are counter+1; the model counts in N)",
                    "a failed transaction's writes are discarded and a committed one's are kept (child cow of BlockEvaluator.TransactionGroup: property C19); "
                    "C22_partial_writes_break_supply shows that the appliers alone do not have this property",
                    "asset transactions change asset state only through ledger/apply/asset.go (inner transactions of applications call the same functions via "
                    "roundCowState.Perform; payments / key registrations / application calls themselves do not touch holdings: modelled as OTick)"],
    "trusted_base": ["modelled: ledger/apply/asset.go (getParams, AssetConfig, takeOut, putIn, AssetTransfer, AssetFreeze) and the asset part of the Balances "
                     "interface as implemented by roundCowState (cow_creatables.go Get/Put/Delete/Has, assetcow.go Allocate/DeallocateAsset, cow.go getCreator) "
                     "as Gallina (coq/model/AssetOps.v); copy-on-write layering itself is abstracted to 'discard on failure' (step)",
                     "only tested (not proved): that the evaluator routes asset transactions to these functions with the transaction counter the model uses (eval harness); "
                     "persistence of holdings across blocks / trackers is outside this property (C08, C10, C47)"],
    "level_note": "the property's sentence about frozen holdings is false of the code as written (close-out to the creator bypasses the freeze, by design); "
                  "the strongest true statement is proved (C22_frozen_blocks_transfer) and the exception is a recorded finding with a proved witness",
}
