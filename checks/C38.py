CONFIG = {
    "props": "props/C38.v",
    "runner": {"module": "Verif.model.SpWeights", "ident": "check"},
    "harness": [{
        "name": "stateproof", "pkg": "./crypto/stateproof/", "run": "^TestVerifC38$",
        "files": ["crypto/stateproof/zz_verif_c38_test.go"],
        "util": [("crypto/stateproof", "stateproof")],
        "env": {"quick": {"VERIF_C38_N": 3000}, "thorough": {"VERIF_C38_N": 60000}},
        "timeout": {"quick": 600, "thorough": 3000},
    }],
    "rule": "inputs (signedWeight, lnProvenWeight, strengthTarget): realistic (lnProvenWeight = LnIntApproximation of a fraction of the signed weight, "
            "targets 0..1200 incl. 256), boundary (lnProvenWeight within +-2000 of ln(signedWeight), edge weights), tiny weights 1..40, unconstrained uint64; "
            "per input: numReveals + getSubExpressions ('nr'), verifyWeights on the prover's count n, n-1, n-2, n+1, 0, 1, MaxReveals, MaxReveals+1 and random counts ('pv'), "
            "verifyWeights alone incl. signedWeight=0 ('vw'), 8 coins of the real coinGenerator against an independent read of the same SHAKE stream ('coin'). "
            "Non-trivial: nr/pv cases where numReveals returned a count, vw cases reaching the inequality, coin cases with signedWeight > 1.",
    "exhaustive": {"quick": False, "thorough": False},
    "explanation": "theorems hold for all integers (unbounded Z); the harness validates the transcription of weights.go/coinGenerator.go against the real functions",
    "assumptions": ["math/big arithmetic is exact; big.Int.IsUint64/Uint64 as documented (Go standard library); the model is the code with fixes/C38.patch applied",
                    "lnProvenWeight is an arbitrary input (LnIntApproximation's float64 computation is not modelled)",
                    "the SHAKE256 output stream is an arbitrary input of the coin theorems"],
    "trusted_base": ["modelled: crypto/stateproof/weights.go (getSubExpressions, numReveals, verifyWeights), coinGenerator.go (threshold, getNextCoin) as Gallina over Z (coq/model/SpWeights.v)"],
}
