CONFIG = {
    "props": "props/C21.v",
    "runner": {"module": "Verif.model.EvalCheck", "ident": "check_c21"},
    "harness": [{
        "name": "eval", "pkg": "./ledger/eval/", "run": "^TestVerifC21$",
        "files": ["ledger/eval/zz_verif_c18_test.go", "ledger/eval/zz_verif_c21_test.go"],
        "util": [("ledger/eval", "eval")],
        "env": {"quick": {"VERIF_C21_UNIVERSES": 90, "VERIF_C21_BLOCKS": 8, "VERIF_C21_GROUPS": 10},
                "thorough": {"VERIF_C21_UNIVERSES": 2400, "VERIF_C21_BLOCKS": 10, "VERIF_C21_GROUPS": 12}},
        "timeout": {"quick": 600, "thorough": 3000},
    }],
    "rule": "one case = one block of the real BlockEvaluator over a closed 9-account ledger whose accounts include one at its minimum balance and one "
            "whose requirement is raised by app / schema / extra-page / box / asset counters; asset creations / opt-ins, application creations / opt-ins and box creations raise requirements during the run; many payments aim at the exact boundary (spendable "
            "amount, one more, receiver below the minimum).  spec_ok = after every accepted group each account whose record changed -- other than "
            "fee sink, rewards pool, state proof sender -- is all-zero or holds, with pending rewards, at least the closed-form requirement computed "
            "from the observed counters.  Non-trivial = the block contains an accepted group or a MinBalanceError.",
    "exhaustive": {"quick": False, "thorough": False},
    "explanation": "minbal_after_group holds for every accepted group of the modelled evaluator and every parameter / counter value below 2^64",
    "assumptions": [
        "payments, closes, key registrations, asset transactions (TotalAssets) and application calls are modelled: app creation with schemas and extra "
        "pages, opt-in / close-out / clear state / delete, box_create / box_del / box_resize (TotalBoxes / TotalBoxBytes of the application account), inner "
        "payments draining the application account; NOT modelled: inner application calls, UpdateApplication (SizeSponsor changes)",
    ],
    "trusted_base": [
        "modelled: basics.MinBalance + StateSchema.MinBalance, BlockEvaluator.checkMinBalance, transaction, TransactionGroup (coq/model/EvalCow.v, EvalGroup.v)",
        "harness ledger: scripted in-memory LedgerForEvaluator",
    ],
}
