CONFIG = {
    "props": "props/C13.v",
    "runner": {"module": "Verif.model.OnlineAcctsSpec", "ident": "check"},
    "harness": [{
        "name": "ledger", "pkg": "./ledger/", "run": "^TestVerifC13$",
        "files": ["ledger/zz_verif_c12c13_common_test.go", "ledger/zz_verif_c13_test.go"],
        "util": [("ledger", "ledger")],
        "env": {"quick": {"VERIF_C13_HIST": 30, "VERIF_C13_ROUNDS": 36},
                "thorough": {"VERIF_C13_HIST": 300, "VERIF_C13_ROUNDS": 70}},
        "timeout": {"quick": 900, "thorough": 3000},
        "search_tier": "quick",
    }],
    "rule": "whole histories on a real Ledger (real evaluator; in-memory SQLite trackers; a consensus version derived from the current "
            "one with MaxBalLookback 4/6/8/16/320, RewardUnit 1e6/1000, rewards-rate refresh every 3..8 rounds, "
            "ExcludeExpiredCirculation on (80%) or off): 5-10 genesis accounts (online with short or long key validity, offline, "
            "non-participating, sometimes one dominant incentive-eligible voter that the evaluator later suspends) + fee sink + rewards "
            "pool; blocks of payments, account creations, closes, keyreg online (renewals, short keys, some with the go-online fee) / "
            "offline / non-participating, key expirations and suspensions applied by the evaluator; interleaved with scripted tracker "
            "commits (lookback 0..5) and reloadLedger (a quarter of the histories with the LRU caches on).  After every block, and for "
            "EVERY round of [latest - MaxBalLookback - pending - 2, latest + 1] after every commit / reload: Ledger.LookupAgreement for the "
            "addresses ever seen, Ledger.OnlineCirculation for voteRnd = rnd + MaxBalLookback, rnd + 1 and a random one, "
            "onlineAccounts.TopOnlineAccounts for n in {0,1,2,3,100}; each served answer is compared with the value computed from the "
            "StateDeltas alone (acct_at / exact arithmetic) and with the tracker model (deltas, accounts map, history table, "
            "cache, round params).  Two scripted histories replay the recorded findings.  A history is non-trivial when at least one "
            "served answer was checked against the history; distinct = distinct case lines.",
    "exhaustive": {"quick": False, "thorough": False},
    "explanation": "theorems: for every genesis, every block list and every schedule of commits (any offset, any voters lowestRound), "
                   "reloads and cache-filling lookups, LookupAgreement and OnlineCirculation return what the block history implies at "
                   "the round (or an error outside the retained window), and OnlineAccountsDelete never changes what a round >= "
                   "forgetBefore sees; TopOnlineAccounts: the list is the n largest valid voters for every schedule and every batch size of the candidate loop, the weight is exact for ExcludeExpiredCirculation = true, the legacy weight is refuted (finding)",
    "assumptions": [
        "a StateDelta lists every modified address once; genesis addresses are distinct; online genesis accounts carry voting keys",
        "genesis allocations carry no IncentiveEligible / LastProposed / LastHeartbeat (otherwise: finding genesis_incentive_fields_dropped)",
        "one consensus version per history (RewardUnit, MaxBalLookback constant); MaxBalLookback >= 1; RewardUnit <> 0",
        "the baseOnlineAccounts LRU returns the newest history row of an address or an equivalent empty entry (read through in the model; "
        "a quarter of the generated histories run with the LRU enabled)",
        "replay after a reload re-evaluates the stored blocks to the same StateDeltas (evaluator determinism, property C20)",
    ],
    "trusted_base": [
        "modelled: ledger/acctonline.go, onlineaccountscache.go, acctdeltas.go (compact online deltas, onlineAccountsNewRoundImpl), the SQL of "
        "sqlitedriver accountsV2.go/sql.go for onlineaccounts / onlineroundparamstail (per-address newest-first row lists) as Gallina (coq/model/OnlineAccts.v)",
        "not modelled: expiredCirculationCache memo (answers are functions of (rnd, voteRnd) and the immutable history), baseOnlineAccounts LRU "
        "(read-through), the SQL ORDER BY of AccountsOnlineTop and container/heap (both the same insertion sort in the model; the 1024-row batch loop IS modelled, for any batch size), accountsMu / accountsReadCond retry loops "
        "(single-threaded schedule: commit is atomic w.r.t. readers), the voters tracker (its lowestRound is an arbitrary input of commit)",
        "top-N theorems assume RewardsBase + RewardUnit < 2^64 and a non-zero normalized balance for online accounts (minimum balance)",
    ],
}
