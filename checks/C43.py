CONFIG = {
    "props": "props/C43.v",
    "runner": {"module": "Verif.model.C43Check", "ident": "check"},
    # translator: per-tag limits (Tag.MaxMessageSize() evaluated on all 65536 two-byte tags),
    # dedupSafeTag, MaxMessageLength / averageMessageLength / allocationStep, default filter
    # geometry -- dumped from the running package `network` into coq/gen/TagLimits.v
    "gen": [{
        "cmd": "{VERIF}/harness/gen/c43_taglimits/gen.sh {VERIF} {REPO} {OUT} {WORK}",
        "out": "gen/TagLimits.v", "cwd": "{REPO}", "timeout": 900,
    }],
    "harness": [{
        "name": "network", "pkg": "./network/", "run": "^TestVerifC43$",
        "files": ["network/zz_verif_c43_test.go"],
        "util": [("network", "network")],
        "env": {"quick": {"VERIF_C43_SLURP_SMALL": 1200, "VERIF_C43_SLURP_MID": 200, "VERIF_C43_SLURP_TAGREPS": 1,
                          "VERIF_C43_FILTER": 1200, "VERIF_C43_NET": 120, "VERIF_C43_NET_TAGS": 1, "VERIF_C43_VNET": 100},
                "thorough": {"VERIF_C43_SLURP_SMALL": 20000, "VERIF_C43_SLURP_MID": 2500, "VERIF_C43_SLURP_TAGREPS": 8,
                             "VERIF_C43_FILTER": 15000, "VERIF_C43_NET": 1500, "VERIF_C43_NET_TAGS": 1, "VERIF_C43_VNET": 1500}},
        "timeout": {"quick": 600, "thorough": 3000},
    }],
    "rule": "slurp: the real LimitedReaderSlurper fed by a scripted io.Reader (random chunkings incl. zero-length reads, EOF with or "
            "after the last bytes, injected errors), 1-4 messages per slurper (Reset), small geometries byte-exact, geometries across the "
            "64 KiB step, and the readLoop geometry with sizes limit-1/limit/limit+1/... for every protocol tag; filter: random "
            "CheckDigest(add,promote) sequences on the real messageFilter incl. the default 5x512 geometry; net: real wsPeer.readLoop "
            "goroutines on fake connections sharing one messageFilter under random schedules of duplicates across peers, plus every tag "
            "around its limit; vnet: the same with votes over connections of mixed negotiated encodings (plain AV, stateless-compressed AV, "
            "stateful VP), judged on the delivered (tag, bytes) stream. Non-trivial: a slurp case with a non-empty message, a filter case with a positive answer, a net case with "
            "a delivery; distinct = distinct case lines.",
    "exhaustive": {"quick": False, "thorough": False},
    "explanation": "theorems hold for every base/max allocation, limit, message length and read script (slurper), every bucket geometry "
                   "and call sequence (filter), every schedule of frames over any number of peers (net); cases are sampled",
    "assumptions": [
        "an io.Reader hands out consecutive bytes of one message, at most len(p) per call (sequential reader contract)",
        "crypto.Hash(nonce||tag||msg) is collision free on the messages seen (the model keys the filter by tag and payload identity)",
        "messageFilter.CheckDigest is atomic (deadlock.Mutex); readLoop iterations of different peers interleave at message granularity",
        "vote decompression (vpack, C42) returns the original vote: a vote is identified by the tag and bytes handed to the handlers, whatever its wire encoding; proposal compression not exercised",
        "sizes below 2^63 (no uint64 wrap in the slurper's counters)",
    ],
    "trusted_base": [
        "modelled: network/limited_reader_slurper.go (coq/model/Slurper.v), network/messageFilter.go (coq/model/MsgFilter.v), the "
        "delivery decision of network/wsPeer.go:readLoop (coq/model/PeerRead.v); goroutines, the websocket library, MI/TS/MS/VP "
        "handling and decompression are outside the model",
        "translator harness/go/network/zz_verif_c43_test.go:TestVerifC43Gen (prints Go values as a Coq table; cross-checked by the "
        "(consts)/(tag) cases of the harness run)",
    ],
}
