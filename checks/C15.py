CONFIG = {
    "props": "props/C15.v",
    "runner": {"module": "Verif.model.CatchpointHashCheck", "ident": "check"},
    "harness": [{
        "name": "trackerdb", "pkg": "./ledger/store/trackerdb/", "run": "^TestVerifC15$",
        "files": ["ledger/store/trackerdb/zz_verif_c15_test.go"],
        "util": [("ledger/store/trackerdb", "trackerdb")],
        "env": {"quick": {"VERIF_C15_LEAF": 2500, "VERIF_C15_LABEL": 500, "VERIF_C15_STATE": 200},
                "thorough": {"VERIF_C15_LEAF": 60000, "VERIF_C15_LABEL": 10000, "VERIF_C15_STATE": 4000}},
        "timeout": {"quick": 600, "thorough": 3000},
    }],
}
