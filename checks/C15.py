CONFIG = {
    "props": "props/C15.v",
    "runner": {"module": "Verif.model.CatchpointHashCheck", "ident": "check"},
    "harness": [{
        "name": "trackerdb", "pkg": "./ledger/store/trackerdb/", "run": "^TestVerifC15$",
        "files": ["ledger/store/trackerdb/zz_verif_c15_test.go"],
        "util": [("ledger/store/trackerdb", "trackerdb")],
        "env": {"quick": {"VERIF_C15_LEAF": 1200, "VERIF_C15_LABEL": 250, "VERIF_C15_STATE": 100},
                "thorough": {"VERIF_C15_LEAF": 40000, "VERIF_C15_LABEL": 8000, "VERIF_C15_STATE": 3000}},
        "timeout": {"quick": 600, "thorough": 3000},
    }, {
        # tracking-mode histories (on/off/on with restarts): persisted trie root vs root over the account tables
        "name": "ledger", "pkg": "./ledger/", "run": "^TestVerifC15Memo$",
        "files": ["ledger/zz_verif_c15_test.go"],
        "util": [("ledger", "ledger")],
        "env": {"quick": {"VERIF_C15_HIST": 4}, "thorough": {"VERIF_C15_HIST": 40}},
        "timeout": {"quick": 900, "thorough": 3000},
    }],
    "rule": "pairs of inputs run through the REAL builders (AccountHashBuilderV6, ResourcesHashBuilderV6, KvHashBuilderV6), the real "
            "ledgercore.MakeLabel (V6/V7/current makers) and, for small states, the real merkletrie root over the real leaves. Families: "
            "identical inputs; same address / one data field changed; adjacent addresses; adjacent, bit-flipped, byte-shifted and "
            "byte-reversed creatable ids; asset vs app under one (address, index); builder errors; boxes of one app with the name/value "
            "boundary shifted by 1-3 bytes (incl. empty values); prefix-related keys; same name under adjacent apps; cross-class pairs whose "
            "pre-images coincide byte for byte (only the HashKind byte separates them); independent random pairs; label inputs differing in "
            "exactly one component (msgpack width boundaries of the totals, swapped digests, label format); states differing in one entry, "
            "inserted in different orders. The model (SHA-512/256 in Gallina) must reproduce every leaf / label byte for byte; spec_ok "
            "(different entries => different leaves / labels, HashKind byte = class, Go-level data equality = encoding equality) is "
            "evaluated on the implementation's outputs only. A case is non-trivial when the two inputs differ; distinct = distinct case lines. "
            "Second harness (package ledger): real tracker registry + SQLite tracker DB driven through histories of node starts with catchpoint "
            "tracking on/off (on/off/on, off/on, on/off/off/on, on/off/on/off/on, ...) with two forks whose accounts diverge mid-history; after every "
            "start/commit the accounts round and hash round are compared with the Coq memo model, at the end the PERSISTED balances-trie root must "
            "equal the root of a fresh trie over the real leaves of all rows of the account tables (spec_ok when the last start had tracking on), and "
            "the two forks (different tables) must have different labels. Non-trivial memo case: a commit with tracking off is followed by a start with tracking on.",
    "exhaustive": {"quick": False, "thorough": False},
    "explanation": "theorems hold for every hash function H and all addresses / indices / encodings / keys / values / state sizes; "
                   "'except through a hash collision' is an explicit disjunct naming the colliding pre-images (no injectivity assumed). "
                   "The KV leaf is NOT injective (C15_kv_leaf_inj_refuted, C15_label_inj_refuted hold for every H): recorded finding "
                   "kv_leaf_key_value_boundary; the strongest true label-level statement is C15_label_inj_except_kv.",
    "assumptions": [
        "msgp encodings of trackerdb.BaseAccountData / ResourcesData are injective (C40); the data-level theorems take this as a premise "
        "and the harness compares Go-level equality of the structs with equality of their encodings on every honest pair",
        "merkletrie root binds the set of leaves up to a collision inside the trie (premise root_binding of the state-level theorems; C17 "
        "shows the root is a function of the set); the harness observes it on real tries (root equal <=> model leaf sets equal)",
        "crypto.Hash is SHA-512/256 (Go standard library); the model runs the Gallina transcription coq/model/MerkleTrieSha.v",
    ],
    "trusted_base": [
        "modelled: ledger/store/trackerdb/hashing.go (hashBufV6, finishV6, the three V6 builders, rdGetCreatableHashKind), "
        "avm-abi apps.MakeBoxKey, ledger/ledgercore/catchpointlabel.go (buffer() of the three makers, MakeLabel incl. decimal/base32 "
        "rendering), go-codec reflection encoding of ledgercore.AccountTotals, as Gallina in coq/model/CatchpointHash.v",
        "not modelled (inputs of the model): IsAsset()/IsApp() of a ResourcesData, msgp encodings of account/resource data, the trie root",
        "modelled: ledger/catchpointtracker.go commitRound (hash-round update) and initializeHashes (reset / rebuild / adopt) as "
        "coq/model/CatchpointMemo.v over abstract tables/trie; accountsUpdateBalances correctness is the premise apply_ok (C14)",
        "tested only: decimal/base32 rendering of the label string (byte-exact on every label case; ParseCatchpointLabel is its inverse in Go)",
    ],
}
