CONFIG = {
    "props": "props/C09.v",
    "runner": {"module": "Verif.model.LedgerCrashCheck", "ident": "check"},
    "harness": [{
        "name": "ledger", "pkg": "./ledger/", "run": "^TestVerifC09$",
        "files": ["ledger/zz_verif_c09_test.go"],
        "util": [("ledger", "ledger")],
        # the ledger files of the crashed processes live on a tmpfs: a process kill never loses page-cache contents, so
        # fsync latency would only cost time (unset VERIF_C09_DIR to put them under $VERIF_OUT on the real disk)
        "env": {"quick": {"VERIF_C09_HIST": 6, "VERIF_C09_CHAINS": 3, "VERIF_C09_BUDGET_S": 110, "VERIF_C09_WORKERS": 4,
                          "VERIF_C09_DIR": "/dev/shm/verif_c09"},
                "thorough": {"VERIF_C09_HIST": 24, "VERIF_C09_CHAINS": 8, "VERIF_C09_BUDGET_S": 1000, "VERIF_C09_WORKERS": 4,
                             "VERIF_C09_DIR": "/dev/shm/verif_c09"}},
        "timeout": {"quick": 900, "thorough": 3000},
        "search_tier": "quick",
    }],
    "rule": "one case = one REAL process crash: a child process (the ledger test binary re-executing itself) runs a real Ledger "
            "(OpenLedger on file-backed SQLite block + tracker DBs, catchpoint files) over a reference history of 18-24 blocks made by "
            "the real evaluator (payments, account creation and close-out, key registration on/offline), 6 configurations "
            "(MaxAcctLookback 0-4, archival / pruning with MaxTxnLife 4-8, catchpoints off / labels only / files with interval 4-8 "
            "and lookback 4-8); the parent SIGKILLs it after the n-th progress line (AddBlock returned, Wait fired, inside the tracker "
            "transaction, transaction committed but postCommit not run, after postCommit, after the catchpoint stages -- the last five "
            "reported by two no-op probe trackers appended in-package, /repo unmodified) with 0-3 ms jitter, or at a random time inside "
            "process start / OpenLedger (schema creation, replay, catchpoint recovery, the commit replay issues); chains of such "
            "incarnations continue on the same files until the history is complete, so disks produced by several crashes in a row and "
            "crashes during recovery occur.  About a third of the later incarnations also carry a fault the process SURVIVES: at the "
            "1st/2nd tracker commit the tail probe's commitRound callback (inside the tracker transaction, after every real tracker "
            "wrote, before UpdateAccountsRound) returns an error or panics, or a trigger installed with plain SQL in the block DB makes "
            "a block transaction fail after one successful BlockPut; the child then is killed at the fault, 1-8 events later, or runs "
            "on to a clean close (failed transactions must leave nothing behind).  After each kill the disk is read with plain SQL (block range and bytes vs. the reference, "
            "tracker round, catchpoint tables, files) and reopened with the real OpenLedger: every block, every account of the universe "
            "at every served round, Totals at every served round, catchpoint tables / files / label.  Non-trivial = a kill happened and "
            "at least one block was durable; distinct = distinct case lines.",
    "exhaustive": {"quick": False, "thorough": False},
    "explanation": "the theorems quantify over every interleaving of adds, flush batches, confirmations, commit scheduling, every single "
                   "durable write (incl. those of catchpoint post-processing and of crash recovery), pruning, failed (rolled-back) tracker "
                   "and block transactions, crashes at any of these points and reopens, for abstract blocks / states / evaluator and any configuration; the harness samples real crash "
                   "points (kill after enumerated progress events + time jitter), compares the real OpenLedger with the model's "
                   "open_full on the disk found, and evaluates the proved invariants and the replay-of-the-prefix oracle on the real "
                   "observations; stats.json lists which durable-step boundaries the kills actually landed on",
    "assumptions": [
        "SQLite transactions are atomic and durable across a PROCESS crash (journal/WAL recovery on reopen); power loss, fsync "
        "semantics and torn pages are SQLite's / the file system's contract and are neither modelled nor exercised",
        "the tracker transaction writes, for round dbRound+offset, exactly what the in-memory trackers serve for that round "
        "(compaction of deltas: C08 / C12 / C13 relate that to the block history); the block evaluator is a deterministic function of "
        "the block and the previous state (C20)",
        "one blockQueue.syncer goroutine, one commitSyncer goroutine (their steps are sequential); AddValidatedBlock and notifyCommit "
        "are serialised by trackerMu; I/O errors do not occur (on an I/O error in commitRound the node exits: log.Fatalf)",
        "a single consensus version (no consecutiveVersion split), fewer than MaxBalLookback rounds of online history "
        "(finishFirstStage's horizon check is not modelled), CatchpointFileHistoryLength large (old catchpoint files are not rotated out)",
        "0 < effective CatchpointLookback (Go falls back to MaxBalLookback when the consensus value is 0) for the catchpoint theorems",
    ],
    "trusted_base": [
        "modelled: ledger/blockqueue.go syncer/waitCommit, ledger/ledger.go AddValidatedBlock/notifyCommit/OpenLedger, "
        "ledger/tracker.go committedUpTo/scheduleCommit/produceCommittingTask/commitRound/loadFromDisk/replay, "
        "ledger/acctupdates.go committedUpTo/produceCommittingTask, ledger/catchpointtracker.go calculateFirstStageRounds/"
        "calculateCatchpointRounds/commitRound/postCommitUnlocked/finishFirstStage/finishCatchpoint/createCatchpoint/"
        "pruneFirstStageRecordsData/recoverFromCrash as coq/model/LedgerCrash.v (durable writes as atomic steps; file writes as two steps)",
        "not modelled: the content of catchpoint files and labels (C14-C16), txTail / onlineAccounts / voters recovery (C11, C13), "
        "the LRU caches and the commit window seen by readers (C08), scheduling throttles (they only suppress commits; the machine may "
        "skip scheduling at will)",
        "crash = SIGKILL of a process; the kill points are real but sampled",
    ],
}
