CONFIG = {
    "props": "props/C34.v",
    "runner": {"module": "Verif.model.AvmC34Check", "ident": "check"},
    # translator: OpSpecs, the per-version dispatch tables opsByOpcode as built by init(), field
    # groups, doc op groups and frame constants, dumped from the running package
    # data/transactions/logic into coq/gen/AvmTables.v (shared with C31)
    "gen": [{
        "cmd": "{VERIF}/harness/gen/avmtables/gen.sh {VERIF} {REPO} {OUT} {WORK}",
        "out": "gen/AvmTables.v", "cwd": "{REPO}", "timeout": 900,
    }],
    "harness": [{
        "name": "logic", "pkg": "./data/transactions/logic/", "run": "^TestVerifC34$",
        "files": ["data/transactions/logic/zz_verif_c34_test.go",
                  "data/transactions/logic/zz_verif_avmenv_test.go",
                  "data/transactions/logic/zz_verif_avmtables_test.go"],
        "util": [("data/transactions/logic", "logic")],
        "env": {"quick": {"VERIF_C34_B": 4000}, "thorough": {"VERIF_C34_B": 120000}},
        "timeout": {"quick": 900, "thorough": 3000},
    }],
}
