CONFIG = {
    "props": "props/C34.v",
    "runner": {"module": "Verif.model.AvmC34Check", "ident": "check"},
    # translator: OpSpecs, the per-version dispatch tables opsByOpcode as built by init(), field
    # groups, doc op groups and frame constants, dumped from the running package
    # data/transactions/logic into coq/gen/AvmTables.v (shared with C31)
    "gen": [{
        "cmd": "{VERIF}/harness/gen/avmtables/gen.sh {VERIF} {REPO} {OUT} {WORK}",
        "out": "gen/AvmTables.v", "cwd": "{REPO}", "timeout": 900,
    }],
    "harness": [{
        "name": "logic", "pkg": "./data/transactions/logic/", "run": "^TestVerifC34$",
        "files": ["data/transactions/logic/zz_verif_c34_test.go",
                  "data/transactions/logic/zz_verif_avmenv_test.go",
                  "data/transactions/logic/zz_verif_avmtables_test.go"],
        "util": [("data/transactions/logic", "logic")],
        "env": {"quick": {"VERIF_C34_B": 4000}, "thorough": {"VERIF_C34_B": 150000}},
        "timeout": {"quick": 900, "thorough": 3000},
        "search_tier": "quick",
    }],
    "rule": "x: every opcode byte 0..255 (every sub-opcode byte of a prefix opcode; every field byte of an opcode with a field "
            "immediate -- quick: up to 2 past the group plus 254/255, thorough: all 256) x every program version 0..LogicVersion x "
            "both modes, as a minimal crafted program (constant blocks, argument pushes, the instruction) through the real "
            "CheckSignature/CheckContract and EvalSignatureFull/EvalContract on a populated mock ledger; the instruction is observed "
            "with the Tracer hooks (stack before, remaining budget, error class, LedgerForLogic calls). b: the extreme-immediate stream of C31 (all versions, both modes); a forward-target sweep (every version, both modes: a "
            "TAKEN forward bnz/bz/b/callsub/switch-label/match-label to EVERY byte offset of a body holding one instruction of every "
            "layout kind, incl. all nine 0xd4-prefixed sub-opcode instructions in v13+ app mode, ~6200 programs); and random branch layouts "
            "(bnz/bz/b/callsub/retsub/switch/match/constant blocks, 2-byte and varint offsets, targets on/off instruction boundaries, "
            "corrupted and truncated programs): real check(), the instructionStarts of the real checkStep, pc/callstack trajectory "
            "of the real evaluation. Non-trivial: x when the instruction executed or must be rejected, b when the check passed and "
            "at least one instruction ran; distinct = distinct case lines.",
    "exhaustive": {"quick": False, "thorough": True},
    "explanation": "theorems quantify over all programs, versions, modes, states and op-function families (contracts stated); the "
                   "opcode/sub-opcode/field x version x mode space is enumerated completely in the thorough tier, branch layouts are sampled",
    "assumptions": [
        "op functions validate their field immediates against the field tables (contract field_gate of executed_instruction_is_allowed; "
        "checked on the real code for every field byte x version x mode by the x cases)",
        "control-flow and constant-block op functions compute nextpc / callstack with the decoders shared with the static check "
        "(contract ctl_allowed of check_eval_agree; checked on every step of every traced evaluation)",
        "ledger state = what is reached through LedgerForLogic (accounts, assets, apps, boxes, inner transactions, round/timestamp); "
        "block headers via LedgerForSignature (`block`, txn FirstValidTime) are available to signature mode by design",
        "the version / mode a field was introduced with is fixed by the frozen hand-reviewed list coq/model/AvmFieldSpec.v and by the "
        "repository's langspec_v<K>.json (ops: IntroducedVersion, Modes; fields: Version, Modes), both compared with the regenerated "
        "run-time tables by vm_compute obligations; a new or changed field fails until the list is reviewed",
    ],
    "trusted_base": [
        "modelled: eval.go GetOpSpec/begin/check/checkStep/checkBranch*/checkSwitch/branchTarget*/switchTarget/step, "
        "assembler.go parse{Int,Byte}ImmArgs, opcodes.go init()/linearCost/OpDetails.Cost (coq/model/AvmFrame.v, AvmTable.v); the op "
        "functions themselves are abstract",
        "translator harness/go/data/transactions/logic/zz_verif_avmtables_test.go (prints Go tables as Coq data; function identity via "
        "reflect pointers; itxn_field -> ItxnSettableFields override as in cmd/opdoc); cross-checked by the x cases (model check/step "
        "classes computed from the dumped tables must equal the real ones) and by tables_built_by_init",
        "error-text classifiers in zz_verif_avmenv_test.go",
    ],
}
