_FILES = ["agreement/zz_verif_sm_test.go", "agreement/zz_verif_sm_gen_test.go", "agreement/zz_verif_c01_test.go"]

CONFIG = {
    "props": "props/C01.v",
    "runner": {"module": "Verif.model.C01Check", "ident": "check"},
    "harness": [{
        "name": "sim", "pkg": "./agreement/", "run": "^TestVerifC01$",
        "files": _FILES,
        "util": [("agreement", "agreement")],
        "env": {"quick": {"VERIF_C01_N": 700, "VERIF_C01_TRACE": 420},
                "thorough": {"VERIF_C01_N": 9000, "VERIF_C01_TRACE": 520}},
        "timeout": {"quick": 900, "thorough": 3000},
    }],
    "rule": "runtime refinement checking of layer 2: N in {3,4,5} REAL state machines (rootRouter + player through submitTop, built as "
            "service.mainLoop builds them) are wired through a seeded adversarial scheduler. Honest votes exist only through the machines' own "
            "attest actions and travel only through the relay/broadcast actions they emit; the scheduler reorders, delays, duplicates, drops, "
            "partitions, withholds whole step classes from one half, fires timeouts at any moment and fast timeouts under hypothesis N5; "
            "Byzantine senders (a configurable stake minority, up to just under the intersection bound) echo each half's own votes back to that "
            "half only (two-faced equivocation), cast random / equivocating votes, propose withheld or split proposals and craft bundles "
            "(incl. equivocation pairs, stale bundles replayed later) from every vote that was ever on the network; nodes crash (also on a Go "
            "panic out of submitTop) and restart through the REAL persistence.go encode/decode with re-execution of the saved actions. "
            "Modes: random, split, withhold, replay, equiv, crash, stall (+ 1 in 12 runs with Byzantine stake OVER the bound, where forks are "
            "legitimate: they show that the scheduler can fork and are counted as trivial). One case = one (run, round): the global trace "
            "Vote/Enter in the abstract vocabulary, every ensureAction, the weight table of every (period, step) committee. "
            "corr = ConcreteBA.first_bad = None (the run IS a reachable trace of the abstract protocol); spec_ok = no two ensure actions of the "
            "round differ, every ensured value has a cert quorum in the trace, all cert quorums of the trace agree -- evaluated when the "
            "case's weights pass the decided intersection test qi_b. Non-trivial = qi_b holds, some node committed and some period was "
            "entered; distinct = distinct case lines.",
    "exhaustive": {"quick": False, "thorough": False},
    "explanation": "C01_ba_safety / one_block_per_round / no_conflicting_next / no_bottom_cert hold for EVERY reachable trace of the abstract "
                   "protocol (any number of nodes, periods, steps, any interleaving, arbitrary Byzantine votes) under QI_same/QI_cross; "
                   "C01_qi_decided decides those hypotheses for the stake weights of a case; C01_checked_trace_safe: a recorded run that the "
                   "executable rule checker accepts is such a reachable trace and has no conflicting cert quorums. Layer 2 (every run of the "
                   "real state machine refines the abstract protocol) is CHECKED AT RUN TIME on the sampled schedules, not proved: the "
                   "simulation theorem concrete_refines_abstract is not attempted (DESIGN 8.2).",
    "level_text": "proof (layer 1, all traces) + runtime refinement checking (layer 2, sampled schedules): safety of the abstract BA protocol is "
                  "proved for all traces; that runs of the real state machines are traces of it is monitored on every recorded run by a "
                  "checker whose soundness is proved",
    "level_note": "layer 2 is searched, not proved; hypotheses: QI_same/QI_cross (sortition), N5 (fast-recovery timers fire after the cert "
                  "step), deadline timeouts are not delivered beyond step next+11 of one period (more than two hours; nextVoteRanges "
                  "overflows from step 35 and divides by zero at step 58), C02 (attest-once across crashes is re-checked here on every run "
                  "through R_once)",
    "assumptions": ["QI_same / QI_cross: two quorums of one (period, step), and a cert quorum of p with a next-type quorum of p' >= p, share an "
                    "honest node (true with overwhelming probability under sortition while the Byzantine stake is below the bound; DECIDED per "
                    "case for the simulated stake tables by qi_b)",
                    "N5: a voting fast-recovery timeout reaches a node only when its Step > cert (lambda_f = 5 min >> deadline timeouts; "
                    "demux.next selects between the two timer channels without priority)",
                    "cryptographic validity of a vote = it was delivered as verified; Byzantine senders only cast votes that vote.verify "
                    "accepts (no bottom in soft/cert); invalid messages are C04's subject",
                    "a crash loses exactly what persistence.go does not hold: the node restarts from the state encoded at its last "
                    "persistent action list (or fresh in its current round) and re-executes the saved actions"],
    "trusted_base": ["abstract protocol: coq/model/AbstractBA.v (rules transcribed from player.go / proposalStore.go); executable rule checker "
                     "coq/model/ConcreteBA.v (sound by C01_monitor_sound); trace decoding + intersection test + verdict: coq/model/C01Check.v",
                     "the trace recorder in harness/go/agreement/zz_verif_c01_test.go: Vote at every attest action / Byzantine injection / "
                     "equivocator counted by a real tracker; Enter from player.Period changes with the threshold event taken from "
                     "VoteTrackerRound.Freshest; a crash erases period entries after the node's last persisted state",
                     "shared agreement harness (machine construction, event constructors): harness/go/agreement/zz_verif_sm_test.go"],
}
