import importlib.util, os
_spec = importlib.util.spec_from_file_location("cfg_C03_shared", os.path.join(os.path.dirname(__file__), "C03.py"))
_m = importlib.util.module_from_spec(_spec); _spec.loader.exec_module(_m)
_H = dict(_m._HARNESS)
_H["env"] = {"quick": {"VERIF_SM_N": 120, "VERIF_SM_EVENTS": 60, "VERIF_SM_FORKS": 6},
             "thorough": {"VERIF_SM_N": 1000, "VERIF_SM_EVENTS": 80, "VERIF_SM_FORKS": 10}}

CONFIG = {
    "props": "props/C07.v",
    "runner": {"module": "Verif.model.AgreementCheck", "ident": "check_c07"},
    "harness": [_H],
    "rule": "same scripts and machines as C03 (real rootRouter+player through submitTop); additionally, after every step that emitted a "
            "persistent action (attest; capped per script) and at one random other step, the script is replayed on a fresh machine up to that "
            "point, the REAL persistence.go encode/decode is run on it (msgp path, reflection path for 1 in 5), the decoded action list is "
            "compared with the encoded one, and BOTH the original and the restored machine are run on the rest of the script (minus the "
            "verification results of crypto tasks that were in flight at the crash). Recorded per fork: restored state right after decode, all "
            "action lists of both continuations, both final states. The model replays every fork (persist/restore + both continuations) and "
            "must predict every observation; spec_ok = decoded actions equal, action lists of the two continuations equal, outcomes equal, "
            "final states equal on the persisted observables. Non-trivial = at least one fork with a non-empty continuation.",
    "exhaustive": {"quick": False, "thorough": False},
    "explanation": "C07_persist_keeps_tracking: every state; C07_restore_persist_id_on_observables_strict / _partial: every reachable state and "
                   "every continuation, protocols without DynamicFilterTimeout (strict = lockstep incl. panics when no verified late old-round "
                   "proposal-vote is delivered; partial = equality wherever both runs are defined); the two _refuted theorems are the recorded "
                   "findings for DynamicFilterTimeout protocols. The forks tie persist/restore of the model to the real encode/decode on reachable "
                   "router states (nested tracker maps, equivocation records, pipelined payloads, pending tails)",
    "assumptions": ["crypto verification tasks in flight at the crash are lost (their voteVerified events are not delivered after the restart)",
                    "SQLite single-row write of the crash DB is atomic (not modelled: the harness round-trips the bytes in memory)",
                    "timing fields (validatedAt/receivedAt, credential arrival history) are outside the model: decode re-creates "
                    "lowestCredentialArrivals empty, so dynamic filter timeouts after a restart are inputs (DESIGN N3); the harness checks that "
                    "the history never fills in its runs"],
    "trusted_base": list(_m.CONFIG["trusted_base"]) + [
        "modelled: persistence.go encode/decode as the projection persist/restore (coq/model/AgreementPersist.v); the msgpack byte layer "
        "itself is exercised only through the real code (C40 covers codecs)"],
    "expected_known": ["c07_late_credential_tracking_not_persisted", "c07_old_round_router_dropped"],
}
