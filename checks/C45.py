CONFIG = {
    "props": "props/C45.v",
    "runner": {"module": "Verif.model.OverflowSpec", "ident": "check"},
    "harness": [{
        "name": "basics", "pkg": "./data/basics/", "run": "^TestVerifC45$",
        "files": ["data/basics/zz_verif_c45_test.go"],
        "util": [("data/basics", "basics")],
        "env": {"quick": {"VERIF_C45_N": 8000}, "thorough": {"VERIF_C45_N": 150000}},
        "timeout": {"quick": 600, "thorough": 3000},
    }],
    "rule": "generic helpers: ALL 65536 uint8 operand pairs (exhaustive) + boundary-heavy random uint16/32/64 pairs; 64-bit helpers "
            "(ODiff, muldiv, Mul2div, FeeForUsage, Divvy, Micros.Mul/MulInt, MulMicros) on boundary-heavy random operands; thorough also "
            "sweeps all 2^32 uint16 pairs inside the Go harness against the proved closed forms. A case is non-trivial when both operands are non-zero "
            "(generic) or always (64-bit helpers); distinct = distinct case lines.",
    "exhaustive": {"quick": False, "thorough": False},
    "explanation": "theorems hold for every width w and all operands < 2^w (unbounded); the 8-bit instantiation is compared exhaustively with the Go generics",
    "assumptions": ["math/bits.Mul64/Div64 compute the exact 128-bit product / quotient (Go standard library)",
                    "Go unsigned arithmetic wraps modulo 2^w (language specification)"],
    "trusted_base": ["modelled: data/basics/overflow.go, fraction.go:Divvy, units.go:Micros.Mul/MulInt as width-parametric Gallina (coq/model/Overflow.v)"],
}
