CONFIG = {
    "props": "props/C11.v",
    "runner": {"module": "Verif.model.TxTailSpec", "ident": "check"},
    "harness": [{
        "name": "txtail", "pkg": "./ledger/", "run": "^TestVerifC11$",
        "files": ["ledger/zz_verif_c11_test.go"],
        "util": [("ledger", "ledger")],
        "env": {"quick": {"VERIF_C11_N": 2500, "VERIF_C11_OPS": 40, "VERIF_C11_VOL": 4},
                "thorough": {"VERIF_C11_N": 60000, "VERIF_C11_OPS": 60, "VERIF_C11_VOL": 16},
                "search": {"VERIF_C11_N": 15000, "VERIF_C11_OPS": 50, "VERIF_C11_VOL": 8}},
        "search_tier": "search",
        "timeout": {"quick": 900, "thorough": 3000, "search": 1500},
    }, {
        "name": "cow", "pkg": "./ledger/eval/", "run": "^TestVerifC11Cow$",
        "files": ["ledger/eval/zz_verif_c11_cow_test.go"],
        "util": [("ledger/eval", "eval")],
        "env": {"quick": {"VERIF_C11_COW_N": 4000}, "thorough": {"VERIF_C11_COW_N": 80000},
                "search": {"VERIF_C11_COW_N": 30000}},
        "search_tier": "search",
        "timeout": {"quick": 900, "thorough": 3000, "search": 1500},
    }],
    "rule": "one case = one whole history driven through the REAL txTail (newBlock, committedUpTo, prepareCommit+commitRound+postCommit "
            "against a real in-memory SQLite tracker DB, fresh txTail.loadFromDisk + replay with an arbitrary number of lost blocks) under consensus "
            "versions with MaxTxnLife 1..8, DeeperBlockHeaderHistory 0..2 and all four lease flag combinations, with checkDup probes after every "
            "block/restart (each recent committed tx itself, fresh ids with the same / a neighbouring lease key, near-miss ids, other LastValid, "
            "boundary rounds) and full dumps; plus volume histories (VERIF_C11_VOL): 300-600 transactions sharing one LastValid spread over two blocks, with 255/256/257 (and 513) controls on other LastValids, flushed, reloaded once or twice, every transaction probed after each reload of recent/lastValid/blockHeaderData; 4% of the histories are deliberately outside the discipline "
            "(double commits, over-long windows; correspondence only). spec_ok: every probe for the next block (current = latest+1 <= LastValid) "
            "of a history inside the discipline must equal spec_dup, a function of the block list only. A case is non-trivial when the history is "
            "inside the discipline and at least one such probe is answered 'duplicate'. cow cases: random child/addTx/commitToParent/checkDup "
            "scripts on the real roundCowState over a scripted parent; non-trivial when some probe hits the in-block sets.",
    "exhaustive": {"quick": False, "thorough": False},
    "explanation": "theorems hold for every history / restart point / parameter set (induction over the operation list); the harness validates "
                   "the transcription on random histories with small MaxTxnLife so that GC, tail retention and reload are exercised by short histories",
    "assumptions": ["SQLite txtail table behaves as a map rnd -> blob with ORDER BY (modelled as a sorted association list); msgp encoding of TxTailRound is lossless",
                    "round numbers stay far below 2^64 - MaxTxnLife (r + maxlife in committedUpTo does not wrap)",
                    "consensus parameters constant along a history (MaxTxnLife has been 1000 in every released protocol); a protocol upgrade that "
                    "shrinks MaxTxnLife is outside the theorems",
                    "txids are collision free: the theorems identify a transaction by (txid, LastValid), which the txid hash covers",
                    "the order of TxTailRound.Leases (Go map iteration order in newBlock) is immaterial because the evaluator never admits two "
                    "holders of one lease into a block (proved for the cow model: C11_cow_rejects_inblock_lease)"],
    "trusted_base": ["modelled: ledger/txtail.go, sqlitedriver TxtailNewRound/LoadTxTail, trackerRegistry.replay (txTail part), ledger/eval/cow.go "
                     "checkDup/addTx/commitToParent, eval.go admission checks (coq/model/TxTail.v)",
                     "goroutine interleaving of checkDup with newBlock/committedUpTo/postCommit (tailMu) is not modelled: operations are atomic"],
    "level_note": "evaluator end-to-end theorems are about the modelled admission checks (WellFormed window, Alive, checkDup); the real "
                  "BlockEvaluator is tied at the roundCowState level (cow harness) and at the txTail level, not through full block evaluation",
}
