_HARNESS = {
    "name": "sm", "pkg": "./agreement/", "run": "^TestVerifSM$",
    "files": ["agreement/zz_verif_sm_test.go", "agreement/zz_verif_sm_gen_test.go"],
    "util": [("agreement", "agreement")],
    "env": {"quick": {"VERIF_SM_N": 150, "VERIF_SM_EVENTS": 70, "VERIF_SM_FORKS": 2},
            "thorough": {"VERIF_SM_N": 1500, "VERIF_SM_EVENTS": 90, "VERIF_SM_FORKS": 2}},
    "timeout": {"quick": 900, "thorough": 3000},
}

CONFIG = {
    "props": "props/C03.v",
    "runner": {"module": "Verif.model.AgreementCheck", "ident": "check_c03"},
    "harness": [_HARNESS],
    "rule": "a REAL rootRouter+player (built as service.mainLoop does for a fresh round) is driven through submitTop with generated event "
            "scripts (quick 150 x ~70 events, thorough 1500 x ~90): verified/unverified votes of all steps incl. late/redo/down, proposal-votes "
            "with attached payloads, bundles (with equivocation pairs, short bundles), payloads, timeouts, fast timeouts, round interruptions, "
            "checkpoints, pipelined next-round and stale/old-round messages, equivocators, error/cancel flags; state-aware generator "
            "(steers tallies over thresholds, replays the verify-request/verified round trip) under 6 scenario biases and directed prefixes "
            "(happy round, late payload after the certificate, next-threshold period changes, late credentials, stale cert bundle, and a directed "
            "cert-step equivocation schedule: X votes the winning value then equivocates, Z equivocates from another value, stale copies in random "
            "order, honest fillers chosen so that the quorum is crossed only with the equivocators' weight; dominant in the search phase). One case = "
            "one script; per event the full action list and the full state (player + every tracker/store of the router tree) are compared with "
            "the model, and spec_ok recomputes C03 on every observed ensureAction from the raw delivered-vote list of the script. A case is "
            "non-trivial when the implementation emitted at least one ensureAction; distinct = distinct case lines.",
    "exhaustive": {"quick": False, "thorough": False},
    "explanation": "the theorem holds for every parameter set and every finite event sequence (unbounded rounds/periods/steps/senders); the "
                   "scripts only tie the model to the code",
    "assumptions": ["payloadVerified events without error carry a payload of the player's current round (cryptoVerifier / proposal.validate "
                    "check the block round against the round of the request) -- premise trace_ok of the round clause",
                    "cryptographic validity of a vote = it was delivered as verified (vote.verify / bundle.verify are C04's subject); the state "
                    "machine never inspects signatures or VRF proofs",
                    "a proposal-value digest determines its block (hash injectivity): payload == value in the model"],
    "trusted_base": ["modelled: agreement/player.go, voteAggregator.go, voteAuxiliary.go, voteTracker.go(+Contract), proposalManager.go(+Contract), "
                     "proposalStore.go, proposalTracker.go(+Contract), router.go, events.go:fresherThan, types.go:reachesQuorum/nextVoteRanges, "
                     "bundle.go:makeBundle as Gallina (coq/model/Agreement*.v); not modelled: tracing/telemetry, wall-clock time "
                     "(validatedAt/receivedAt, credentialArrivalHistory: calculateFilterTimeout takes the history-not-full path, checked by the harness), "
                     "Certificate.Authenticate against a ledger (C04)",
                     "wire format / canonical rendering: harness/go/agreement/zz_verif_sm_test.go and coq/model/AgreementRender.v"],
}
