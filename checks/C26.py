CONFIG = {
    "props": "props/C26.v",
    "runner": {"module": "Verif.model.UpgradeSpec", "ident": "check"},
    "harness": [{
        "name": "upgrade", "pkg": "./data/bookkeeping/", "run": "^TestVerifC26$",
        "files": ["data/bookkeeping/zz_verif_c26_test.go"],
        "util": [("data/bookkeeping", "bookkeeping")],
        "env": {"quick": {"VERIF_C26_DEPTH": 8, "VERIF_C26_HIST": 300, "VERIF_C26_STEP": 6000},
                "thorough": {"VERIF_C26_DEPTH": 11, "VERIF_C26_HIST": 4000, "VERIF_C26_STEP": 80000, "VERIF_C26_MAXLEAVES": 3000000}},
        "timeout": {"quick": 600, "thorough": 3000},
    }],
    "rule": "real applyUpgradeVote / PreCheck. (1) EVERY vote sequence up to the depth over the alphabet {none, approve, propose(other, delay d) "
            "with/without approve for each listed d, propose(unregistered), propose(too long), delay-without-proposal} for each small parameter "
            "table registered under test names in config.Consensus (vote rounds 0-4, thresholds 0-3 incl. unreachable and zero, default/min/max waits 0-3, "
            "two versions with different parameters so that parameters change at the switch); rejected votes become single-step cases and do not extend "
            "the chain. (2) random histories of 20-80 blocks under random tables, rounds up to 2^62. (3) single steps and PreCheck from consistent-pending "
            "and arbitrary states under the parameters of every registered real protocol version (read from config.Consensus at run time, passed in the case), "
            "numbers around deadline / switch round / threshold / uint64 boundaries; PreCheck on the right header and on one-field deviations. "
            "Non-trivial: a history that contains a proposal or a switch; a step that errs or changes the state; every PreCheck case.",
    "exhaustive": {"quick": True, "thorough": True},
    "explanation": "theorems: all consensus tables, all start rounds >= 1, all vote lists (induction). Testing: exhaustive = all vote sequences over the stated "
                   "alphabet up to the depth for the stated tables (harness_stats.exhaustive_truncated must be false); the rest is sampled",
    "assumptions": ["rounds do not wrap: r0 + history length + (vote rounds + max/default wait) < 2^64 (premise of the history theorems; single steps are compared without it)",
                    "applyUpgradeVote is only called with round = prev.Round + 1 >= 1 (PreCheck, ProcessUpgradeParams): premise r0 >= 1"],
    "trusted_base": ["modelled: data/bookkeeping/block.go UpgradeState.applyUpgradeVote and the protocol/round/upgrade-state checks of BlockHeader.PreCheck as Gallina "
                     "(coq/model/Upgrade.v); PreCheck's other checks (branch hash, timestamp, bonus, congestion tax, genesis id/hash) are made to pass by the harness and not modelled; "
                     "ProcessUpgradeParams/MakeBlock (proposer side) not modelled",
                     "harness maps error strings to 7 symbols by substring"],
}


def custom(ctx):
    import json, os
    st = os.path.join(ctx.work, "h_upgrade", "stats.json")
    if os.path.exists(st):
        s = json.load(open(st))
        if s.get("exhaustive_truncated"):
            ctx.problems.append(("harness", "exhaustive enumeration was truncated (leaf budget): raise VERIF_C26_MAXLEAVES or lower the depth"))
        if s.get("protocol_switches_in_histories", 0) == 0:
            ctx.problems.append(("harness", "no protocol switch occurred in any generated history"))
