CONFIG = {
    "props": "props/C16.v",
    "runner": {"module": "Verif.model.CatchpointFileCheck", "ident": "check"},
    "harness": [{
        "name": "ledger", "pkg": "./ledger/", "run": "^TestVerifC16$",
        "files": ["ledger/zz_verif_c14_test.go", "ledger/zz_verif_c16_test.go"],
        "util": [("ledger", "ledger")],
        "env": {"quick": {"VERIF_C16_HIST": 4, "VERIF_C16_MUTANTS": 16},
                "thorough": {"VERIF_C16_HIST": 30, "VERIF_C16_MUTANTS": 60}},
        "timeout": {"quick": 900, "thorough": 3000},
        "search_tier": "quick",
    }],
    "rule": "per history (8 or 12 rounds of prepared StateDeltas: 5-7 accounts incl. online ones whose Total* counters match their asset / app resources, one "
            "account holding 6+ resources, boxes; history 1 also has box ('ab','c') of another app, history 2 both ('ab','c') and ('a','bc')): a REAL tracker stack "
            "(catchpoint file generation on, random merkletrie.MemoryConfig, random early commits) is run to the first-stage round; there the producer's tracker DB "
            "is dumped (accounts with resources, KVs, the creators table (assetcreators: every asset / app index -> creator, kept current through StateDelta.Creatables), online accounts / round params, totals, committed trie root; a late account that only HOLDS an asset / is opted in to an app of an earlier creator is the last resource-bearing account of the last balances chunk) and the real catchpointFileWriter is ALSO run with "
            "a resources-per-chunk budget of 2..4 (accounts spanning chunks); then on to the catchpoint round (real label, the tracker's own catchpoint file; the "
            "writer's data file is repacked with the real header). Each of the two files, and 16 (60) MUTANTS of its decoded section list out of 45 kinds (header: totals, "
            "rewards level, block / balances round, counts, label, digest, version down / bad; sections: chunk dropped / duplicated / swapped / truncated / bit-flipped, "
            "header missing / twice / last, unknown section; one record: balance, auth address, update round, address, removed, added, twice, ExpectingMoreEntries "
            "flipped, a partial record with OTHER data in front of an account, a dangling partial record of a new address; one resource: data, index, removed, moved to "
            "another account; one KV: value, key, removed, added, twice, name/value boundary shifted; online account row balance / removed, online round params round / "
            "removed), goes through the REAL CatchpointCatchupAccessor into a fresh Ledger: ResetStagingBalances, SetLabel(real label), ProcessStagingBalances per "
            "section, BuildMerkleTrie, VerifyCatchpoint(real block), finishBalances, and the restored tracker DB is dumped the same way. spec_ok: the producer's dump "
            "equals the harness' own fold of the deltas; the honest file is accepted and restores exactly the producer's dump; a mutant is rejected before "
            "finishBalances or restores exactly the producer's dump. Model: same outcome incl. the rejecting stage and the restored tables, and the honest file is "
            "exactly what the model's writer makes of its content (chunk boundaries, ExpectingMoreEntries). Every case non-trivial except honest files with < 2 records; "
            "distinct = distinct case lines.",
    "exhaustive": {"quick": False, "thorough": False},
    "explanation": "theorems (every section list, hash function, decoder, leaf builder): C16_restore_write_file -- for every well-formed world, file version V6..V8 and "
                   "EVERY chunking the writer produces (account / resource budgets >= 1, accounts spanning chunks through ExpectingMoreEntries, exactly filled chunks, "
                   "KV / online chunks) both accessors accept the writer's file under the producer's label and adopt exactly that world (induction over the chunk list; "
                   "C16_writer_chunks_well_formed: the stream never ends inside an account); C16_accessor_invariant, C16_accepted_binds_state and "
                   "C16_tamper_evidence_write_file for the repaired accessor -- whatever is accepted under the producer's label stages the producer's accounts / resources / "
                   "totals and its boxes up to the key||value ambiguity of C15, the absence of hash collisions being explicit premises; C16_tamper_rejected_refuted for the "
                   "accessor as it was (confirmed on the real code, repaired by the fix: commit). The model's writer is compared with the real one on every generated file.",
    "assumptions": [
        "premises of C16_accepted_binds_state: equal labels have equal components (C15_label_inj + the base32 / decimal rendering, tested byte-exact by C15); equal trie "
        "roots hold equal hash sets (Merkle hashing over the canonical trie of C17); account / resource leaves injective, kinds separated, KV leaves equal => key||value "
        "equal (C15); the producer's own file hashes the account data it stages (producer_faithful: the writer builds every record of an account from the one accountbase row)",
        "msgpack / tar / gzip decoding happen before the model (a section that does not decode is rejected by both); Total* counters, resource flags and leaves of a "
        "record are what the real decoders / hash builders return (read off the case)",
        "online account rows / round params rows are hashed in file order (the real iterators order by (address, update round) / round: the writer emits them in that order)",
        "the accessor keeps expectingSpecificAccount in memory only: a node restart between download and BuildMerkleTrie loses it (before and after the fix)",
    ],
    "trusted_base": [
        "modelled: ledger/catchupaccessor.go ProcessStagingBalances, processStagingContent, processStagingStateProofVerificationContext, processStagingBalances, "
        "BuildMerkleTrie, GetVerifyData, VerifyCatchpoint, finishBalances; acctdeltas.go prepareNormalizedBalancesV6; sqlitedriver WriteCatchpointStagingBalances / "
        "Hashes / KVs (unique and primary keys); catchpointfilewriter.go + encodedAccountsIter.go chunking (accounts / resources budget, ExpectingMoreEntries), "
        "catchpointtracker.go repackCatchpoint section order, as Gallina (coq/model/CatchpointFile.v) over the logical trie of coq/model/MerkleTrie.v and the label of "
        "coq/model/CatchpointHash.v",
        "not modelled: tar / gzip / snappy, msgpack decoding and allocbounds (C41), V5 files, the SQL of ApplyCatchpointStagingBalances (staging tables = the ledger), "
        "creatables table, the catchup service's network fetch and block download, progress counters",
        "tested only: that the real writer cuts chunks where the model's write_file does (chunk boundaries and flags compared on every honest file); independence of the MemoryConfig",
    ],
}
