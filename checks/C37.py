CONFIG = {
    "props": "props/C37.v",
    "runner": {"module": "Verif.model.MerkleArrayCheck", "ident": "check"},
    "harness": [{
        "name": "merklearray", "pkg": "./crypto/merklearray/", "run": "^TestVerifC37$",
        "files": ["crypto/merklearray/zz_verif_c37_test.go"],
        "util": [("crypto/merklearray", "merklearray")],
        "env": {"quick": {"VERIF_C37_FULLN": 4, "VERIF_C37_EXHN": 8, "VERIF_C37_SAMPLED": 5, "VERIF_C37_RAND": 40, "VERIF_C37_MAXN": 70},
                "thorough": {"VERIF_C37_FULLN": 6, "VERIF_C37_EXHN": 10, "VERIF_C37_SAMPLED": 12, "VERIF_C37_RAND": 100, "VERIF_C37_MAXN": 257}},
        "timeout": {"quick": 600, "thorough": 3000},
    }],
    "rule": "arrays of size 0..EXHN (8 quick / 10 thorough), plain trees and vector commitments: ALL position subsets, each with Prove, the honest "
            "Verify and single-field mutations (full catalogue for sizes <= FULLN incl. every alternative position 0..2^depth, sampled above): hint "
            "flipped/dropped/duplicated/swapped/added/emptied/zero-for-empty/truncated/trailing bytes/too long, TreeDepth +-1/+2/0/63/64/255, wrong "
            "element (foreign, other member, swapped), moved position, root flipped/empty/truncated/other node, claim dropped/added, hash factory "
            "changed, oversize-hint forgery replay; plus random larger arrays (all four hash functions) with single/few/dense random subsets. "
            "Non-trivial: verify cases with at least one claimed element, prove cases that return a proof for a non-empty request, build cases with n >= 2.",
    "exhaustive": {"quick": False, "thorough": False},
    "explanation": "theorems hold for every array size, position list and proof (unbounded lists); the harness validates the transcription of "
                   "merklearray against the real package on the exhaustive small universe and random larger arrays",
    "assumptions": ["the hash function is collision free on internal-node buffers and on leaves, separates leaves / padding leaf / internal nodes "
                    "(protocol.HashID prefixes) and never outputs the all-zero digest: explicit hypotheses of the soundness theorems",
                    "elements passed to Verify are distinct map keys (Go map semantics)",
                    "the model is the code with fixes/C37.patch applied (hint length check); verify_unfixed is the code before it"],
    "trusted_base": ["modelled: crypto/merklearray merkle.go (Build, Prove, createProof, Verify, verifyPath, hashLeaves, inspectRoot, VerifyVectorCommitment, convertIndexes), "
                     "partial.go (siblings.get, partialLayer.up), layer.go (pair.ToBeHashed, upWorker), vectorCommitmentArray.go as Gallina (coq/model/MerkleArray.v); "
                     "the worker-pool parallelism of Build is not modelled (deterministic result)",
                     "correspondence runs instantiate the abstract hash with the oracle table of real digests carried in each case (coq/model/MerkleArrayCheck.v)"],
}
