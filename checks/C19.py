CONFIG = {
    "props": "props/C19.v",
    "runner": {"module": "Verif.model.EvalCheck", "ident": "check_c19"},
    "harness": [{
        "name": "eval", "pkg": "./ledger/eval/", "run": "^TestVerifC19$",
        "files": ["ledger/eval/zz_verif_c18_test.go", "ledger/eval/zz_verif_c19_test.go"],
        "util": [("ledger/eval", "eval")],
        "env": {"quick": {"VERIF_C19_UNIVERSES": 90, "VERIF_C19_BLOCKS": 8, "VERIF_C19_GROUPS": 12},
                "thorough": {"VERIF_C19_UNIVERSES": 2400, "VERIF_C19_BLOCKS": 10, "VERIF_C19_GROUPS": 14}},
        "timeout": {"quick": 600, "thorough": 3000},
    }],
    "rule": "one case = one block of the real BlockEvaluator over a closed 9-account ledger; about every second group carries a failing member "
            "(overspend, minimum balance of sender or receiver, dead early/late, duplicate in group / in block / in an earlier block, lease, wrong "
            "authorizer, not well-formed, keyreg errors, close with outstanding assets, asset errors (not opted in, frozen, asset overspend, wrong manager / "
            "freeze / clawback address, creator closing out, destroy while others hold), application failures (rejecting program, err, budget exhaustion, "
            "schema overflow, box of an under-funded application, failing inner transaction after earlier inner transactions succeeded, opt-in twice, close-out "
            "without opt-in, missing application), genesis hash, fee shortfall, inconsistent / zero / wrong "
            "group id, oversized group, unknown type, fee sink spending) at a random position of a group of 1..17; about 14% of the groups are \"write again, then fail\" probes: fresh copies (new txids) of the transactions of a group accepted earlier in the SAME block -- so every record they write (account data, asset params / holdings, application params incl. the ForeignBoxReads / FamilyBoxAccess flags of app_params_set, global / local state, boxes) already has an entry in an ancestor cow -- with inverted app_params_set values, followed by an overspending member; "
            "after every TransactionGroup "
            "call the evaluator is snapshotted from inside the package (account table through eval.state.lookup, asset params / holdings / creators through GetAssetParams / "
            "GetAssetHolding / GetCreator, application params (incl. ForeignBoxReads / FamilyBoxAccess) / local states / creators / storage counts / boxes, mods.Accts order, Txids with Intra, Txleases, txnCount, feesCollected, len(Payset)).  spec_ok = a rejected group leaves the snapshot identical; an accepted one "
            "adds exactly its transactions (payset, txids in order, counters, fees, leases).  Panics are injected WITHOUT a tracer into about 8% of the "
            "groups: the scripted ledger's CheckDup panics while transaction i of the loop is evaluated, or the parent cow's (still empty) Txids / sdeltas map is "
            "set to nil in-package so that commitToParent panics after the Payset append and the earlier merge steps; eval.corruptedState is part of every "
            "snapshot, the groups after a corruption and GenerateBlock are still called.  spec_ok additionally = (reported failed and not marked corrupted => "
            "snapshot identical) and (corrupted => every later TransactionGroup and GenerateBlock refuses with ErrEvaluatorCorruptedState, nothing changes).  Non-trivial = a rejected group for which the model "
            "says the child cow had been written to before the failure.",
    "exhaustive": {"quick": False, "thorough": False},
    "explanation": "group_atomic holds for every group, every failure kind and position of the modelled evaluator; the correspondence run checks the "
                   "Go evaluator (incl. the sync.Pool reuse of child cows) against it on random histories",
    "assumptions": [
        "transaction types: payment (with close), key registration, rekey, asset config / transfer / freeze, application calls (programs = arbitrary "
        "scripts of box / global / local / app_params_set (v13) / inner-transaction operations ending in approve, reject, err or budget exhaustion; inner failures such as "
        "overspending inner payments); NOT modelled: inner application calls, UpdateApplication",
        "signature checking happens before the evaluator (verify package, C28); the evaluator's authorizer check is modelled",
        "genuine evaluator panic found and modelled (E_PANIC in check_min_balance / mods_consistent): app_params_set on an application whose creator closed out of it earlier in the same block, in a group that has not touched the creator account -> putAppParams copies the Deleted local-state marker without the account record and AccountDeltas.ModifiedAccounts panics (\"account app state delta: addr ... not in base account\"); the group is rejected with EvalPanicError, state unchanged, not corrupted (harness stat panic_not_injected)",
        "recovered panics are modelled as panic points (any transaction of the loop; after the Payset append and any number of commitToParent steps) with "
        "eval.corruptedState; not modelled: blockTxBytes / ErrNoSpace, tracer hooks (incl. the deferred AfterTxnGroup hook), TestTransactionGroup",
    ],
    "trusted_base": [
        "modelled: ledger/eval/cow.go (child, lookup, putAccount, checkDup, addTx, commitToParent, recycle) and eval.go:TransactionGroup / transaction / "
        "checkMinBalance as an explicit overlay stack (coq/model/EvalCow.v, EvalGroup.v); Go-level aliasing between pooled cows is not expressible in "
        "the model and is covered by the harness snapshots only",
        "harness ledger: scripted in-memory LedgerForEvaluator (committed txids only; no cross-block leases)",
    ],
}
