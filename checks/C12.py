CONFIG = {
    "props": "props/C12.v",
    "runner": {"module": "Verif.model.TotalsSpec", "ident": "check"},
    "harness": [{
        "name": "ledger", "pkg": "./ledger/", "run": "^TestVerifC12$",
        "files": ["ledger/zz_verif_c12c13_common_test.go", "ledger/zz_verif_c12_test.go"],
        "util": [("ledger", "ledger")],
        "env": {"quick": {"VERIF_C12_RAW": 6000, "VERIF_C12_HIST": 50, "VERIF_C12_ROUNDS": 30},
                "thorough": {"VERIF_C12_RAW": 60000, "VERIF_C12_HIST": 300, "VERIF_C12_ROUNDS": 60}},
        "timeout": {"quick": 900, "thorough": 3000},
        "search_tier": "quick",
    }],
    "rule": "two streams. (1) raw: single AccountTotals.AddAccount / DelAccount / ApplyRewards / All calls on boundary-heavy random "
            "totals, account data, reward units (1e6, 1000, 7, 1, 2^40, 0) and tracker flags, panics recovered; every case non-trivial. "
            "(2) led: whole histories on a real Ledger (real evaluator; in-memory SQLite trackers): 5-10 genesis accounts of all three "
            "statuses + fee sink + rewards pool, blocks of payments, account creations, closes, keyreg online (short and long key "
            "validity, some incentive-eligible) / offline / non-participating, key expirations applied by the evaluator, rewards-level "
            "changes every round (rate refresh interval 3..8 or the real one; reward unit 1e6 / 1000 / 7; sometimes a nearly empty pool), "
            "interleaved with scripted tracker commits (lookback 0..5 => offsets 1..n) and reloadLedger; every 4th history runs with catchpoint tracking on (interval 10, CatchpointLookback 4) and large flushes that the catchpoint tracker shortens to a first-stage round, each followed by a direct read of the persisted accounttotals row compared with the accounts of the DB round, then a reload; after every block Totals(latest) "
            "and after every commit/reload Totals(r) for EVERY servable round r (plus one below dbRound and one above latest) are compared "
            "with the class sums of Ledger.LookupAccount over EVERY address ever seen, with the sums over the accounts implied by the "
            "StateDeltas, and with the model.  A history is non-trivial when at least one account changed status class and at least one "
            "round was served; distinct = distinct case lines.",
    "exhaustive": {"quick": False, "thorough": False},
    "explanation": "theorems: for every genesis, every accepted block list and every commit/reload schedule the totals of every round equal "
                   "the class-wise sums over that round's accounts (unbounded induction over blocks and over the accounts of a delta); the "
                   "single AddAccount / DelAccount / ApplyRewards / All calls: the wrapped model meets the closed-form overflow-tracking spec for all uint64 "
                   "inputs (C12_add_del_meet_spec, C12_rewards_meet_spec, C12_all_meets_spec); the runs compare the real ledger with these sums, "
                   "the closed forms and the model on generated inputs",
    "assumptions": [
        "a StateDelta lists every modified address once (ledgercore.AccountDeltas deduplicates by address) and genesis addresses are distinct (Go map)",
        "the reward unit does not change along a history (RewardUnit is 1e6 in every released consensus version)",
        "no overflow: the evaluator rejects a block whose CalculateTotals raises the OverflowTracker flag, panics or changes the money supply "
        "(hypothesis `ledger_run ... = Some tr`; observed: every generated block was accepted)",
        "replay after a reload re-evaluates the stored blocks to the same StateDeltas (evaluator determinism, property C20)",
    ],
    "trusted_base": [
        "modelled: ledgercore/totals.go, basics.WithUpdatedRewards, OverflowTracker, eval/cow.go CalculateTotals, sqlitedriver accountsInit totals, "
        "acctupdates.go roundTotals (newBlockImpl / prepareCommit / postCommit / initializeFromDisk / totalsImpl) as Gallina (coq/model/Totals.v)",
        "not modelled: how the evaluator derives the account modifications from transactions (deltas are arbitrary in the theorems, real in the runs); "
        "SQLite persistence of the accounttotals row (one map cell in the model); goroutine interleaving of commitRound with readers",
    ],
}
