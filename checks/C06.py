CONFIG = {
    "props": "props/C06.v",
    "runner": {"module": "Verif.model.VoteTrackerCheck", "ident": "check"},
    "harness": [{
        "name": "votetracker", "pkg": "./agreement/", "run": "^TestVerifC06$",
        "files": ["agreement/zz_verif_c06_test.go"],
        "util": [("agreement", "agreement")],
        "env": {"quick": {"VERIF_C06_L": 5, "VERIF_C06_N": 1500, "VERIF_C06_M": 600},
                "thorough": {"VERIF_C06_L": 6, "VERIF_C06_N": 12000, "VERIF_C06_M": 4000}},
        "timeout": {"quick": 600, "thorough": 3000},
        "search_tier": "quick",     # the violation search re-seeds the random streams (VERIF_SEARCH=1 skips the exhaustive part)
    }],
    "rule": "the REAL agreement.voteTracker is driven through handle(voteAcceptedEvent) on (a) EVERY vote sequence of length L "
            "(quick 5, thorough 6) over 3 senders x 2 values (4, thorough 6 per-sender weight vectors x thresholds 2,3) and 2 senders x 3 values "
            "(3 weight vectors x thresholds 2,3); thorough also 4 senders x 2 values length 6 (2 weight/threshold combinations) and 3x3 length 5, "
            "rotating over the steps soft/cert/next/next+4/late/redo/down and over palettes of 4-field proposal values "
            "(OriginalPeriod, OriginalProposer, BlockDigest, EncodingDigest; 81-value universe) that differ in exactly one field, in two, three or four, incl. zero fields, "
            "(b) random sequences of length <= 200 over <= 50 senders x <= 4 values against the current consensus thresholds and small ones "
            "(honest majority / heavy equivocation / split vote / duplicates), (c) a malformed stream outside the property's domain "
            "(zero or inconsistent weights, uint64 wrap, threshold 0, propose step) for model/code correspondence only. Per vote the event "
            "(kind, value, bundle members in packing order) and the whole tracker state are compared with the model and re-checked by the "
            "declarative oracle spec_ok. A case is non-trivial when it is inside the domain (positive consistent weights, no overflow, "
            "quorum > 0) and non-empty; distinct = distinct case lines.",
    "exhaustive": {"quick": False, "thorough": False},
    "explanation": "theorems hold for every vote list (any length, any number of senders and values, any weights in the domain); the "
                   "small-universe enumeration is exhaustive only for the stated sub-space",
    "assumptions": ["a sender has one credential weight per (round, period, step) and it is positive (committee.Credential; "
                    "votes with weight 0 are rejected by verification before they reach the tracker)",
                    "the total weight of the distinct senders seen in one step is < 2^64 (it is bounded by the online stake)",
                    "the step's committee threshold is > 0 (all consensus versions)"],
    "trusted_base": ["modelled: agreement/voteTracker.go (handle/voteAccepted, overThreshold, genBundle), bundle.go:makeBundle, "
                     "types.go:step.reachesQuorum as Gallina over association lists (coq/model/VoteTracker.v); Go map iteration order "
                     "is not modelled (overThreshold is order-free unless it panics; genBundle sorts by a total order)",
                     "not modelled: logging/telemetry side effects, the voteFilterRequest and dumpVotesRequest queries, signatures and "
                     "VRF credentials inside the bundle (the tracker never inspects them)"],
}
