(* C18 / C19 / C21: the statements quoted by props/C18.v, C19.v, C21.v, phrased with the
   definitions of model/EvalSpec.v only (tot_at, wf_cow, bwp, spec_min_balance). *)
From Coq Require Import NArith List Bool Lia ZifyN ZifyBool.
From Verif.model Require Import Overflow EvalCow EvalApply EvalGroup EvalSpec.
From Verif.proofs Require Import EvalCowProofs EvalGroupProofs EvalConserveProofs EvalMinBalProofs.
Import ListNotations.
Open Scope N_scope.

Definition env_ok (E : env) : Prop := 0 < p_unit (e_P E) /\ e_lvl E < 2 ^ 64.

Theorem move_conserves E U from to amt fr tr c c' r :
  env_ok E -> NoDup U -> amt < 2 ^ 64 -> In from U -> In to U -> wf_cow (e_lvl E) c ->
  move E from to amt fr tr c = (c', Ok r) ->
  tot_at (e_P E) (e_lvl E) U c' = tot_at (e_P E) (e_lvl E) U c /\ wf_cow (e_lvl E) c'.
Proof.
  intros [Hu Hl] HU Hamt Hf Ht Hw H.
  destruct (move_spec E Hu Hl U HU from to amt fr tr c c' r _ Hamt Hf Ht (conj Hw eq_refl) H) as ([W T] & _).
  split; [exact T | exact W].
Qed.

Theorem txn_conserves E U tx ctr c c' ad :
  env_ok E -> NoDup U -> tx_ok E U tx -> wf_cow (e_lvl E) c ->
  apply_transaction E tx ctr c = (c', Ok ad) ->
  tot_at (e_P E) (e_lvl E) U c' = tot_at (e_P E) (e_lvl E) U c /\ wf_cow (e_lvl E) c'.
Proof.
  intros [Hu Hl] HU Hok Hw H.
  destruct (apply_transaction_spec E Hu Hl U HU tx ctr c c' ad _ Hok (conj Hw eq_refl) H) as [W T].
  split; [exact T | exact W].
Qed.

Theorem transaction_conserves E U tx c c' u :
  env_ok E -> NoDup U -> tx_ok E U tx -> wf_cow (e_lvl E) c ->
  transaction E tx c = (c', Ok u) ->
  tot_at (e_P E) (e_lvl E) U c' = tot_at (e_P E) (e_lvl E) U c /\ wf_cow (e_lvl E) c'.
Proof.
  intros [Hu Hl] HU Hok Hw H.
  destruct (transaction_spec E Hu Hl U HU tx c c' u _ Hok (conj Hw eq_refl) H) as [W T].
  split; [exact T | exact W].
Qed.

Theorem group_conserves E U ev g lf :
  env_ok E -> NoDup U -> Forall (tx_ok E U) g -> wf_cow (e_lvl E) (ev_cow ev) ->
  let ev' := fst (transaction_group E ev g lf) in
  tot_at (e_P E) (e_lvl E) U (ev_cow ev') = tot_at (e_P E) (e_lvl E) U (ev_cow ev) /\
  wf_cow (e_lvl E) (ev_cow ev').
Proof.
  intros [Hu Hl] HU Hok Hw. cbn zeta.
  destruct (transaction_group_spec E Hu Hl U HU ev g lf _ Hok (conj Hw eq_refl)) as [W T].
  split; [exact T | exact W].
Qed.

Theorem rewards_conserve E b prevlvl ru U ev :
  env_ok E -> prevlvl < 2 ^ 64 -> ru < 2 ^ 64 -> NoDup U -> In (e_pool E) U ->
  wf_cow prevlvl (base_cow b) -> ru = units_of (e_P E) U (base_cow b) ->
  start_block E b prevlvl ru = Ok ev ->
  tot_at (e_P E) (e_lvl E) U (ev_cow ev) = tot_at (e_P E) prevlvl U (base_cow b) /\
  wf_cow (e_lvl E) (ev_cow ev).
Proof.
  intros [Hu Hl] Hp Hru HU Hpool Hw Hrueq H.
  destruct (start_block_spec E b prevlvl ru U ev Hu Hl Hp Hru HU Hpool Hw Hrueq H) as ([W T] & _).
  split; [exact T | exact W].
Qed.

Theorem end_block_conserves E U expired absent proposer payout c c' u :
  env_ok E -> NoDup U -> e_validate E = true ->
  payout < 2 ^ 64 -> In (e_feesink E) U -> (proposer <> 0 -> In proposer U) ->
  (forall a, In a expired -> In a U /\ a_status (lookup c a) <> NotPart) ->
  (forall a, In a absent -> In a U) -> wf_cow (e_lvl E) c ->
  end_block E expired absent proposer payout c = (c', Ok u) ->
  tot_at (e_P E) (e_lvl E) U c' = tot_at (e_P E) (e_lvl E) U c /\ wf_cow (e_lvl E) c'.
Proof.
  intros [Hu Hl] HU Hv Hpay Hs Hp He Ha Hw H.
  destruct (end_block_spec E Hu Hl U HU expired absent proposer payout c c' u _ Hv Hpay Hs Hp He Ha (conj Hw eq_refl) H) as [W T].
  split; [exact T | exact W].
Qed.

Theorem block_conserves_thm E b prevlvl ru gs expired absent proposer payout U ev :
  env_ok E -> e_validate E = true ->
  prevlvl < 2 ^ 64 -> ru < 2 ^ 64 -> payout < 2 ^ 64 -> NoDup U ->
  In (e_pool E) U -> In (e_feesink E) U -> (proposer <> 0 -> In proposer U) ->
  (forall a, In a expired -> In a U) -> (forall a, In a absent -> In a U) ->
  groups_ok E U gs ->
  wf_cow prevlvl (base_cow b) ->
  ru = units_of (e_P E) U (base_cow b) ->
  (forall ev0 ev1, start_block E b prevlvl ru = Ok ev0 -> eval_groups E ev0 gs = Ok ev1 ->
                   forall a, In a expired -> a_status (lookup (ev_cow ev1) a) <> NotPart) ->
  eval_block E b prevlvl ru gs expired absent proposer payout = Ok ev ->
  tot_at (e_P E) (e_lvl E) U (ev_cow ev) = tot_at (e_P E) prevlvl U (base_cow b) /\
  wf_cow (e_lvl E) (ev_cow ev).
Proof.
  intros [Hu Hl] Hv Hp Hru Hpay HU Hpool Hsink Hprop Hexp Habs Hgs Hw Hrueq Hpart H.
  exact (block_conserves E b prevlvl ru gs expired absent proposer payout U ev Hv Hu Hl Hp Hru Hpay HU
           Hpool Hsink Hprop Hexp Habs Hgs Hw Hrueq Hpart H).
Qed.

(* the minimum-balance post-condition in closed form *)
Theorem minbal_after_group_spec E ev g lf ev' :
  env_ok E -> params_w64 (e_P E) ->
  e_validate E || e_generate E = true -> g <> [] ->
  transaction_group E ev g lf = (ev', Ok tt) ->
  exists c1, group_body E g lf (child (ev_cow ev)) = (c1, Ok tt) /\
    forall a, In a (modified c1) ->
      a <> e_feesink E -> a <> e_pool E -> a <> e_spsender E ->
      let x := lookup (ev_cow ev') a in
      a_algos x < 2 ^ 64 -> a_rbase x <= e_lvl E -> counts_w64 x ->
      acct_is_zero x = true \/ spec_min_balance (e_P E) x <= bwp (e_P E) (e_lvl E) x.
Proof.
  intros [Hu Hl] HP Hflag Hne Hg.
  destruct (minbal_after_group E ev g lf ev' Hflag Hne Hg) as (c1 & Hb & Hall).
  exists c1. split; [exact Hb|]. intros a Ha N1 N2 N3 x Hx1 Hx2 Hx3.
  destruct (Hall a Ha) as [[S|[S|S]]|Hok]; try contradiction.
  apply minbal_ok_acct_spec; auto.
Qed.
