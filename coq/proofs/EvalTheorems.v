(* C18 / C19 / C21: the statements quoted by props/C18.v, C19.v, C21.v, phrased with the
   definitions of model/EvalSpec.v only (tot_at, wf_cow, bwp, spec_min_balance). *)
From Coq Require Import NArith List Bool Lia ZifyN ZifyBool.
From Verif.model Require Import Overflow EvalCow EvalApply EvalGroup EvalSpec.
From Verif.proofs Require Import EvalCowProofs EvalGroupProofs EvalConserveProofs EvalMinBalProofs.
Import ListNotations.
Open Scope N_scope.

Definition env_ok (E : env) : Prop := 0 < p_unit (e_P E) /\ e_lvl E < 2 ^ 64.

Theorem move_conserves E U from to amt fr tr c c' r :
  env_ok E -> NoDup U -> amt < 2 ^ 64 -> In from U -> In to U -> wf_cow (e_lvl E) c ->
  move E from to amt fr tr c = (c', Ok r) ->
  tot_at (e_P E) (e_lvl E) U c' = tot_at (e_P E) (e_lvl E) U c /\ wf_cow (e_lvl E) c'.
Proof.
  intros [Hu Hl] HU Hamt Hf Ht Hw H.
  destruct (move_spec E Hu Hl U HU from to amt fr tr c c' r _ Hamt Hf Ht (conj Hw eq_refl) H) as ([W T] & _).
  split; [exact T | exact W].
Qed.

Theorem txn_conserves E U tx ctr c c' ad :
  env_ok E -> NoDup U -> tx_ok E U tx -> wf_cow (e_lvl E) c ->
  apply_transaction E tx ctr c = (c', Ok ad) ->
  tot_at (e_P E) (e_lvl E) U c' = tot_at (e_P E) (e_lvl E) U c /\ wf_cow (e_lvl E) c'.
Proof.
  intros [Hu Hl] HU Hok Hw H.
  destruct (apply_transaction_spec E Hu Hl U HU tx ctr c c' ad _ Hok (conj Hw eq_refl) H) as [W T].
  split; [exact T | exact W].
Qed.

Theorem transaction_conserves E U tx c c' u :
  env_ok E -> NoDup U -> tx_ok E U tx -> wf_cow (e_lvl E) c ->
  transaction E tx c = (c', Ok u) ->
  tot_at (e_P E) (e_lvl E) U c' = tot_at (e_P E) (e_lvl E) U c /\ wf_cow (e_lvl E) c'.
Proof.
  intros [Hu Hl] HU Hok Hw H.
  destruct (transaction_spec E Hu Hl U HU tx c c' u _ Hok (conj Hw eq_refl) H) as [W T].
  split; [exact T | exact W].
Qed.

Theorem group_conserves E U ev g lf :
  env_ok E -> NoDup U -> Forall (tx_ok E U) g -> wf_cow (e_lvl E) (ev_cow ev) ->
  let ev' := fst (transaction_group E ev g lf) in
  tot_at (e_P E) (e_lvl E) U (ev_cow ev') = tot_at (e_P E) (e_lvl E) U (ev_cow ev) /\
  wf_cow (e_lvl E) (ev_cow ev').
Proof.
  intros [Hu Hl] HU Hok Hw. cbn zeta.
  destruct (transaction_group_spec E Hu Hl U HU ev g lf _ Hok (conj Hw eq_refl)) as [W T].
  split; [exact T | exact W].
Qed.

Theorem rewards_conserve E b prevlvl ru U ev :
  env_ok E -> prevlvl < 2 ^ 64 -> ru < 2 ^ 64 -> NoDup U -> In (e_pool E) U ->
  wf_cow prevlvl (base_cow b) -> ru = units_of (e_P E) U (base_cow b) ->
  start_block E b prevlvl ru = Ok ev ->
  tot_at (e_P E) (e_lvl E) U (ev_cow ev) = tot_at (e_P E) prevlvl U (base_cow b) /\
  wf_cow (e_lvl E) (ev_cow ev).
Proof.
  intros [Hu Hl] Hp Hru HU Hpool Hw Hrueq H.
  destruct (start_block_spec E b prevlvl ru U ev Hu Hl Hp Hru HU Hpool Hw Hrueq H) as ([W T] & _).
  split; [exact T | exact W].
Qed.

Theorem end_block_conserves E U expired absent proposer payout c c' u :
  env_ok E -> NoDup U -> e_validate E = true ->
  payout < 2 ^ 64 -> In (e_feesink E) U -> (proposer <> 0 -> In proposer U) ->
  (forall a, In a expired -> In a U /\ a_status (lookup c a) <> NotPart) ->
  (forall a, In a absent -> In a U) -> wf_cow (e_lvl E) c ->
  end_block E expired absent proposer payout c = (c', Ok u) ->
  tot_at (e_P E) (e_lvl E) U c' = tot_at (e_P E) (e_lvl E) U c /\ wf_cow (e_lvl E) c'.
Proof.
  intros [Hu Hl] HU Hv Hpay Hs Hp He Ha Hw H.
  destruct (end_block_spec E Hu Hl U HU expired absent proposer payout c c' u _ Hv Hpay Hs Hp He Ha (conj Hw eq_refl) H) as [W T].
  split; [exact T | exact W].
Qed.

Theorem block_conserves_thm E b prevlvl ru gs expired absent proposer payout U ev :
  env_ok E -> e_validate E = true ->
  prevlvl < 2 ^ 64 -> ru < 2 ^ 64 -> payout < 2 ^ 64 -> NoDup U ->
  In (e_pool E) U -> In (e_feesink E) U -> (proposer <> 0 -> In proposer U) ->
  (forall a, In a expired -> In a U) -> (forall a, In a absent -> In a U) ->
  groups_ok E U gs ->
  wf_cow prevlvl (base_cow b) ->
  ru = units_of (e_P E) U (base_cow b) ->
  (forall ev0 ev1, start_block E b prevlvl ru = Ok ev0 -> eval_groups E ev0 gs = Ok ev1 ->
                   forall a, In a expired -> a_status (lookup (ev_cow ev1) a) <> NotPart) ->
  eval_block E b prevlvl ru gs expired absent proposer payout = Ok ev ->
  tot_at (e_P E) (e_lvl E) U (ev_cow ev) = tot_at (e_P E) prevlvl U (base_cow b) /\
  wf_cow (e_lvl E) (ev_cow ev).
Proof.
  intros [Hu Hl] Hv Hp Hru Hpay HU Hpool Hsink Hprop Hexp Habs Hgs Hw Hrueq Hpart H.
  exact (block_conserves E b prevlvl ru gs expired absent proposer payout U ev Hv Hu Hl Hp Hru Hpay HU
           Hpool Hsink Hprop Hexp Habs Hgs Hw Hrueq Hpart H).
Qed.

(* the minimum-balance post-condition in closed form *)
Theorem minbal_after_group_spec E ev g lf ev' :
  env_ok E -> params_w64 (e_P E) ->
  e_validate E || e_generate E = true -> g <> [] ->
  transaction_group E ev g lf = (ev', Ok tt) ->
  exists c1, group_body E g lf (child (ev_cow ev)) = (c1, Ok tt) /\
    forall a, In a (modified c1) ->
      a <> e_feesink E -> a <> e_pool E -> a <> e_spsender E ->
      let x := lookup (ev_cow ev') a in
      a_algos x < 2 ^ 64 -> a_rbase x <= e_lvl E -> counts_w64 x ->
      acct_is_zero x = true \/ spec_min_balance (e_P E) x <= bwp (e_P E) (e_lvl E) x.
Proof.
  intros [Hu Hl] HP Hflag Hne Hg.
  destruct (minbal_after_group E ev g lf ev' Hflag Hne Hg) as (c1 & Hb & Hall).
  exists c1. split; [exact Hb|]. intros a Ha N1 N2 N3 x Hx1 Hx2 Hx3.
  destruct (Hall a Ha) as [[S|[S|S]]|Hok]; try contradiction.
  apply minbal_ok_acct_spec; auto.
Qed.

(* ------------------------------------------------------------------ histories *)
(* one block of a history: its environment (round, level, special addresses), the reward
   units handed to StartEvaluator, its groups and its end-of-block inputs *)
Record blockdesc := mkBD {
  bd_E : env; bd_ru : N; bd_gs : list (list txn * N);
  bd_expired : list N; bd_absent : list N; bd_proposer : N; bd_payout : N
}.

(* the premises of block_conserves for block [d] evaluated on ledger [b] at level [prevlvl] *)
Definition block_ok (P : params) (U : list N) (b : base) (prevlvl : N) (d : blockdesc) : Prop :=
  let E := bd_E d in
  e_P E = P /\ env_ok E /\ e_validate E = true /\ prevlvl < 2 ^ 64 /\ bd_ru d < 2 ^ 64 /\ bd_payout d < 2 ^ 64 /\
  In (e_pool E) U /\ In (e_feesink E) U /\ (bd_proposer d <> 0 -> In (bd_proposer d) U) /\
  (forall a, In a (bd_expired d) -> In a U) /\ (forall a, In a (bd_absent d) -> In a U) /\
  groups_ok E U (bd_gs d) /\
  bd_ru d = units_of P U (base_cow b) /\
  (forall ev0 ev1, start_block E b prevlvl (bd_ru d) = Ok ev0 -> eval_groups E ev0 (bd_gs d) = Ok ev1 ->
                   forall a, In a (bd_expired d) -> a_status (lookup (ev_cow ev1) a) <> NotPart).

(* the ledger stores what the evaluator computed (that it does is C08 / C09) *)
Definition ledger_after (ev : evalst) (b' : base) : Prop := forall a, base_lookup b' a = lookup (ev_cow ev) a.

(* a history: blocks evaluated one after the other, each on the ledger the previous one left *)
Inductive run (P : params) (U : list N) : base -> N -> list blockdesc -> base -> N -> Prop :=
| run_nil : forall b l, run P U b l [] b l
| run_cons : forall b l d ev b' ds b'' l'',
    block_ok P U b l d ->
    eval_block (bd_E d) b l (bd_ru d) (bd_gs d) (bd_expired d) (bd_absent d) (bd_proposer d) (bd_payout d) = Ok ev ->
    ledger_after ev b' ->
    run P U b' (e_lvl (bd_E d)) ds b'' l'' ->
    run P U b l (d :: ds) b'' l''.

Theorem history_conserves P U b l ds b' l' :
  NoDup U -> run P U b l ds b' l' -> wf_cow l (base_cow b) ->
  tot_at P l' U (base_cow b') = tot_at P l U (base_cow b) /\ wf_cow l' (base_cow b').
Proof.
  intros HU Hrun. induction Hrun as [b l|b l d ev b1 ds b2 l2 Hok Hev Hled Hrun IH]; intros Hw; [auto|].
  destruct Hok as (HP & Henv & Hv & Hl & Hru & Hpay & Hpool & Hsink & Hprop & Hexp & Habs & Hgs & Hrueq & Hpart).
  subst P.
  destruct (block_conserves_thm (bd_E d) b l (bd_ru d) (bd_gs d) (bd_expired d) (bd_absent d) (bd_proposer d)
              (bd_payout d) U ev Henv Hv Hl Hru Hpay HU Hpool Hsink Hprop Hexp Habs Hgs Hw Hrueq Hpart Hev) as [T W].
  assert (Hw1 : wf_cow (e_lvl (bd_E d)) (base_cow b1)).
  { intro a. change (lookup (base_cow b1) a) with (base_lookup b1 a). rewrite Hled. apply W. }
  destruct (IH Hw1) as [T2 W2]. split; [|exact W2].
  rewrite T2, <- T. unfold tot_at. apply sumf_ext. intros a _.
  change (lookup (base_cow b1) a) with (base_lookup b1 a). now rewrite Hled.
Qed.

(* ------------------------------------------------------------------ error exits of Move *)
Lemma bind_err {A B} (m : M A) (k : A -> M B) c c' e :
  bind m k c = (c', Err e) ->
  m c = (c', Err e) \/ exists c1 a, m c = (c1, Ok a) /\ k a c1 = (c', Err e).
Proof. unfold bind. destruct (m c) as [c1 [a|e1]]; intros H; [right; eauto | left; inversion H; reflexivity]. Qed.

(* one side of Move fails before it writes: the cow is untouched *)
Lemma move_side_err E d a amt r c c' e : move_side E d a amt r c = (c', Err e) -> c' = c.
Proof.
  unfold move_side. intros H.
  apply bind_err in H. destruct H as [H|(c1 & bal & H1 & H)]; [unfold m_lookup in H; discriminate|].
  unfold m_lookup in H1. inversion H1. subst c1 bal. clear H1.
  apply bind_err in H. destruct H as [H|(c1 & new & H1 & H)]; [unfold lift in H; now inversion H|].
  unfold lift in H1. inversion H1. subst c1. clear H1.
  apply bind_err in H. destruct H as [H|(c1 & r' & H1 & H)]; [unfold lift in H; now inversion H|].
  unfold lift in H1. inversion H1. subst c1. clear H1.
  apply bind_err in H. destruct H as [H|(c1 & u & H1 & H)]; [|cbv beta in H; unfold ret in H; discriminate].
  unfold when in H. destruct (must_write (e_P E) amt (lookup c a)); [|cbv beta in H; unfold ret in H; discriminate].
  destruct (if d then osub 64 (a_algos new) amt else oadd 64 (a_algos new) amt) as [v o].
  destruct o; [unfold fail in H; now inversion H | unfold m_put in H; discriminate].
Qed.

Ltac code_ne He := let X := fresh "X" in inversion He; subst; intro X; vm_compute in X; discriminate X.

Lemma move_side_credit_code E a amt r c c' e : move_side E false a amt r c = (c', Err e) -> e <> E_OVERSPEND.
Proof.
  unfold move_side. intros H.
  apply bind_err in H. destruct H as [H|(c1 & bal & H1 & H)]; [unfold m_lookup in H; discriminate|].
  unfold m_lookup in H1. inversion H1. subst c1 bal. clear H1.
  apply bind_err in H. destruct H as [H|(c1 & new & H1 & H)].
  { unfold lift in H. injection H as Hc He. clear Hc. set (x := lookup c a) in *. unfold with_rewards in He.
    destruct (a_status x); try discriminate;
      (destruct (p_unit (e_P E) =? 0); [code_ne He|]);
      cbn zeta in He;
      destruct (osub 64 (e_lvl E) (a_rbase x)) as [dl o1];
      destruct (omul 64 (reward_units (e_P E) (a_algos x)) dl) as [rw o2];
      destruct (oadd 64 (a_algos x) rw) as [out o3];
      destruct (o1 || o2 || o3); try discriminate; code_ne He. }
  unfold lift in H1. inversion H1. subst c1. clear H1.
  apply bind_err in H. destruct H as [H|(c1 & r' & H1 & H)].
  { unfold lift in H. injection H as Hc He. clear Hc. set (x := lookup c a) in *. unfold track in He. destruct r; [|discriminate].
    destruct (osub 64 (a_algos new) (a_algos x)) as [dd o1]. destruct (oadd 64 n dd) as [ss o2].
    destruct (o1 || o2); try discriminate. code_ne He. }
  unfold lift in H1. inversion H1. subst c1. clear H1.
  apply bind_err in H. destruct H as [H|(c1 & u & H1 & H)]; [|cbv beta in H; unfold ret in H; discriminate].
  unfold when in H. destruct (must_write (e_P E) amt (lookup c a)); [|unfold ret in H; discriminate].
  destruct (oadd 64 (a_algos new) amt) as [v o].
  destruct o; [unfold fail in H; code_ne H | unfold m_put in H; discriminate].
Qed.

(* both error exits of Move: an OverspendError (or any other failure of the debit side)
   leaves the cow exactly as it was; a failure of the credit side ("balance overflow") leaves
   the debit written -- which is why Move's caller must discard the cow (group_atomic) *)
Theorem move_error_exits E from to amt fr tr c c' e :
  move E from to amt fr tr c = (c', Err e) ->
  c' = c \/
  (e <> E_OVERSPEND /\ exists r1, move_side E true from amt fr c = (c', Ok r1)).
Proof.
  unfold move. intros H.
  apply bind_err in H. destruct H as [H|(c1 & r1 & H1 & H)]; [left; eapply move_side_err; eauto|].
  apply bind_err in H. destruct H as [H|(c2 & r2 & H2 & H)]; [|cbv beta in H; unfold ret in H; discriminate].
  right. pose proof (move_side_err _ _ _ _ _ _ _ _ H) as ->. split; [eapply move_side_credit_code; eauto|eauto].
Qed.

Corollary move_overspend_unchanged E from to amt fr tr c c' :
  move E from to amt fr tr c = (c', Err E_OVERSPEND) -> c' = c.
Proof. intros H. destruct (move_error_exits _ _ _ _ _ _ _ _ _ H) as [->|[Hne _]]; [reflexivity | contradiction]. Qed.

(* ------------------------------------------------------------------ application calls *)
(* an inner transaction issued by a program: fee to the sink, then the body *)
Theorem inner_txn_conserves E U app fee b c c' u :
  env_ok E -> NoDup U -> inner_ok E U app (fee, b) -> wf_cow (e_lvl E) c ->
  perform E app fee b c = (c', Ok u) ->
  tot_at (e_P E) (e_lvl E) U c' = tot_at (e_P E) (e_lvl E) U c /\ wf_cow (e_lvl E) c'.
Proof.
  intros [Hu Hl] HU Hok Hw H.
  destruct (perform_spec E Hu Hl U HU app fee b c c' u _ Hok (conj Hw eq_refl) H) as [W T].
  split; [exact T | exact W].
Qed.

(* StatefulEval of ANY program (any finite script of ledger operations, approving, rejecting
   or failing anywhere): the total is the same afterwards *)
Theorem program_conserves E U app clear script acc c c' r :
  env_ok E -> NoDup U -> Forall (op_ok E U app) script -> wf_cow (e_lvl E) c ->
  stateful_eval E app clear script acc c = (c', r) ->
  tot_at (e_P E) (e_lvl E) U c' = tot_at (e_P E) (e_lvl E) U c /\ wf_cow (e_lvl E) c'.
Proof.
  intros [Hu Hl] HU Hok Hw H.
  destruct (stateful_eval_spec E Hu Hl U HU app clear script acc c c' r _ Hok (conj Hw eq_refl) H) as [W T].
  split; [exact T | exact W].
Qed.

(* ApplicationCall: create / opt-in / close-out / clear state / delete around the program *)
Theorem app_call_conserves E U sender call ctr c c' u :
  env_ok E -> NoDup U -> call_ok E U call -> wf_cow (e_lvl E) c ->
  application_call E sender call ctr c = (c', Ok u) ->
  tot_at (e_P E) (e_lvl E) U c' = tot_at (e_P E) (e_lvl E) U c /\ wf_cow (e_lvl E) c'.
Proof.
  intros [Hu Hl] HU Hok Hw H.
  destruct (application_call_spec E Hu Hl U HU sender call ctr c c' u _ Hok (conj Hw eq_refl) H) as [W T].
  split; [exact T | exact W].
Qed.

(* a program that does not approve -- it rejects, or any instruction fails, at any position of
   the script, also after inner transactions have been performed -- leaves the transaction's
   cow EXACTLY as it was; an approving one touches nothing below that cow *)
Theorem program_atomic E app clear script acc c c' r :
  stateful_eval E app clear script acc c = (c', r) ->
  (r <> Ok true -> c' = c) /\ same_below c c'.
Proof.
  intros H. split.
  - intros Hr. eapply stateful_eval_not_approved; eauto.
  - pose proof (stateful_eval_same_below E app clear script acc c) as K. now rewrite H in K.
Qed.
