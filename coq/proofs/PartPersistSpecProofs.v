(* C36, persistence layer: the per-round checker of model/PartPersistSpec.v means the Prop-level
   statement over rounds, and the model satisfies it after every operation of every history. *)
From Coq Require Import NArith ZArith List Bool Lia ZifyN ZifyNat ZifyBool.
From Verif.model Require Import OneTimeSig OneTimeSigSpec PartPersist PartPersistSpec.
From Verif.proofs Require Import OneTimeSigProofs OneTimeSigSpecProofs PartPersistProofs.
Import ListNotations.
Open Scope N_scope.

Definition fwd_rP (KE : N) (hs : list N) (q : N) : Prop :=
  exists r, In r hs /\ q < r /\ r / KE + 1 < W.
Definition must_rP (fv lv : N) (ha : list N) (q : N) : Prop :=
  (fv <= q /\ q <= lv) /\ forall r, In r ha -> r <= q.

Lemma fwd_r_P KE hs q : fwd_r KE hs q = true <-> fwd_rP KE hs q.
Proof.
  unfold fwd_r, fwd_rP. rewrite existsb_exists. split.
  - intros (r & Hin & H). exists r. split; [exact Hin|lia].
  - intros (r & Hin & H). exists r. split; [exact Hin|lia].
Qed.

Lemma must_r_P fv lv ha q : must_r fv lv ha q = true <-> must_rP fv lv ha q.
Proof.
  unfold must_r, must_rP. rewrite !andb_true_iff, forallb_forall, !N.leb_le. split.
  - intros [Hr H]. split; [exact Hr|]. intros r Hin. apply N.leb_le. apply H. exact Hin.
  - intros [Hr H]. split; [exact Hr|]. intros r Hin. apply N.leb_le. apply H. exact Hin.
Qed.

(* the executable per-round checker is the property: below a successfully reported deletion
   point neither memory nor the persisted state signs; at or above every requested deletion
   point inside the validity range both sign; nothing becomes signable again *)
Lemma round_spec_sound fv lv keyed KE hs ha q pm pd vm vd :
  round_spec fv lv keyed KE hs ha q pm pd vm vd = true <->
  (fwd_rP KE hs q -> vm = false /\ vd = false) /\
  (keyed = true -> must_rP fv lv ha q -> vm = true /\ vd = true) /\
  (vm = true \/ vd = true -> pm = true \/ pd = true).
Proof.
  unfold round_spec. rewrite <- fwd_r_P, <- must_r_P.
  destruct (fwd_r KE hs q), keyed, (must_r fv lv ha q), vm, vd, pm, pd; cbn; intuition congruence.
Qed.

(* rounds whose deletion the model reports as persisted *)
Definition succ_rounds (ops : list pop) : list N :=
  flat_map (fun o => match o with PDel r _ true => [r] | _ => [] end) ops.

Lemma succ_rounds_In r ops : In r (succ_rounds ops) -> exists D, In (PDel r D true) ops.
Proof.
  unfold succ_rounds. rewrite in_flat_map. intros ([r' D ok|] & Hin & H); [|destruct H].
  destruct ok; [|destruct H]. destruct H as [<-|[]]. exists D. exact Hin.
Qed.

Lemma verify_empty id m : verify id m SigEmpty = false.
Proof. reflexivity. Qed.

Lemma pp_model_meets_spec fv lv K kd D ops o q :
  K <> 0 -> K < W -> kd < W -> D < W -> eff_kd kd D <> 0 -> fv <= lv -> lv + 1 < W ->
  Forall wf_pop (ops ++ [o]) -> Forall (uses_kd kd (eff_kd kd D)) (ops ++ [o]) -> q < W ->
  let KE := eff_kd kd D in
  let s := fill_secrets fv lv K in
  let p0 := mkP s kd s kd in
  let p := prun p0 ops in
  let p' := prun p0 (ops ++ [o]) in
  let id := id_of_round q KE in
  round_spec fv lv (KE =? K) KE (succ_rounds (ops ++ [o])) (del_rounds (ops ++ [o])) q
             (valid (mem p) id) (valid (restored p) id)
             (valid (mem p') id) (valid (restored p') id) = true
  /\ probe (mem p') id = (if valid (mem p') id then 1 else 0)
  /\ probe (restored p') id = (if valid (restored p') id then 1 else 0).
Proof.
  intros HK HKW Hkd HD HKE Hle Hlv Hw Hu Hq KE s p0 p p' id.
  assert (HKEW : KE < W) by (apply eff_kd_lt; assumption).
  pose proof (init_pInv fv lv K kd HK Hle Hlv Hkd) as HI0. fold s in HI0. fold p0 in HI0.
  assert (Hw0 : Forall wf_pop ops) by (apply Forall_app in Hw; tauto).
  pose proof (prun_pInv ops p0 HI0 Hw0) as HIp. fold p in HIp.
  pose proof (prun_pInv _ p0 HI0 Hw) as HIp'. fold p' in HIp'.
  destruct (id_of_round_wf q KE HKE Hq HKEW) as [Hid _]. fold id in Hid.
  pose proof HIp as (Im & _). pose proof HIp' as (Im' & _).
  pose proof (restored_inv _ HIp) as Ir. pose proof (restored_inv _ HIp') as Ir'.
  split; [|split; apply probe_code; assumption].
  apply round_spec_sound. split; [|split].
  - (* forward security *)
    intros (r & Hin & Hlt & Hnw). apply succ_rounds_In in Hin. destruct Hin as (D' & Hin).
    apply in_split in Hin. destruct Hin as (pre & post & E).
    assert (ED : eff_kd kd D' = KE).
    { rewrite Forall_forall in Hu. apply (Hu (PDel r D' true)). rewrite E. apply in_elt. }
    rewrite E in Hw. apply Forall_app in Hw. destruct Hw as [Hwpre Hwq]. inversion Hwq as [|? ? Hwo Hwpost]; subst.
    destruct Hwo as [Hr HD'].
    pose proof (prun_pInv pre p0 HI0 Hwpre) as HIpre.
    destruct (prun_kd pre p0 eq_refl) as [Ek _]. cbn [mkd p0] in Ek.
    assert (Est : pstep (prun p0 pre) (PDel r D' true) =
                  (fst (pstep (prun p0 pre) (PDel r D' true)), ROk)).
    { cbn [pstep]. rewrite Ek. change (mkd p0) with kd. rewrite ED.
      destruct (N.eqb_spec KE 0); [contradiction|]. reflexivity. }
    pose proof (persisted_forward_secure (prun p0 pre) r D' true _ post q msgA HIpre Hr HD' Hwpost Est) as F.
    rewrite Ek in F. change (mkd p0) with kd in F. rewrite ED in F. specialize (F Hnw Hlt).
    cbn zeta in F. destruct F as (_ & _ & _ & F1 & F2).
    assert (Ep' : p' = prun (fst (pstep (prun p0 pre) (PDel r D' true))) post).
    { unfold p'. rewrite E, prun_app, prun_cons. reflexivity. }
    rewrite <- Ep' in F1, F2. fold id in F1, F2.
    unfold valid. rewrite F1, F2. split; reflexivity.
  - (* still signs *)
    intros Hkeyed [[Hlo Hhi] Hall]. apply N.eqb_eq in Hkeyed.
    assert (Hu' : Forall (uses_kd kd K) (ops ++ [o])) by (rewrite <- Hkeyed; exact Hu).
    pose proof (persisted_still_signs fv lv K kd (ops ++ [o]) q msgA HK HKW Hkd Hle Hlv Hw Hu' Hlo Hhi Hall) as G.
    cbn zeta in G. fold s in G. fold p0 in G. fold p' in G. rewrite <- Hkeyed in G. fold id in G.
    exact G.
  - (* monotone *)
    assert (Ep' : p' = fst (pstep p o)) by (unfold p', p; rewrite prun_app; reflexivity).
    intros Hv.
    assert (Hd : derivable (mem p') id \/ derivable (restored p') id).
    { destruct Hv as [Hv|Hv]; [left|right].
      - apply (derivable_cond _ _ Im'). apply (valid_cond _ _ Im' Hid). exact Hv.
      - apply (derivable_cond _ _ Ir'). apply (valid_cond _ _ Ir' Hid). exact Hv. }
    rewrite Ep' in Hd. apply pstep_monotone in Hd. destruct Hd as [Hd|Hd]; [left|right].
    + apply (valid_cond _ _ Im Hid). apply (derivable_cond _ _ Im). exact Hd.
    + apply (valid_cond _ _ Ir Hid). apply (derivable_cond _ _ Ir). exact Hd.
Qed.

(* right after FillDBWithParticipationKeys: every round of [fv,lv] signs, from memory and
   from the database *)
Lemma pp_model_meets_spec_init fv lv K q :
  K <> 0 -> K < W -> fv <= lv -> lv + 1 < W -> fv <= q -> q <= lv ->
  let s := fill_secrets fv lv K in
  let p0 := mkP s K s K in
  valid (mem p0) (id_of_round q K) = true /\ valid (restored p0) (id_of_round q K) = true.
Proof.
  intros HK HKW Hle Hlv Hlo Hhi s p0.
  exact (persisted_still_signs fv lv K K [] q msgA HK HKW HKW Hle Hlv (Forall_nil _) (Forall_nil _)
           Hlo Hhi (fun r (H : In r []) => match H with end)).
Qed.

(* OverlapsInterval: the closed form used by the checker is the code's answer *)
Lemma ovl_spec_model fv lv first last :
  fv <= lv -> ovl_code (overlaps fv lv first last) = ovl_spec fv lv first last.
Proof.
  intros Hle. unfold ovl_code, overlaps, ovl_spec.
  destruct (N.ltb_spec last first); [reflexivity|].
  destruct (N.ltb_spec last fv), (N.ltb_spec lv first), (N.leb_spec (N.max fv first) (N.min lv last));
    cbn [orb]; try reflexivity; lia.
Qed.
