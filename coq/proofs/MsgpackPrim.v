(* C40/C41: lemmas about the msgpack primitives of model/Msgpack.v: every primitive reader
   accepts what the corresponding writer produced and returns the written value. *)
From Coq Require Import List NArith ZArith Bool Lia ZifyN ZifyNat ZifyBool.
From Verif.model Require Import Msgpack.
Import ListNotations.
Open Scope N_scope.

Lemma len_app {A} (a b : list A) : len (a ++ b) = len a + len b.
Proof. unfold len. rewrite app_length. lia. Qed.

Lemma len_cons {A} (x : A) (l : list A) : len (x :: l) = len l + 1.
Proof. unfold len. simpl length. lia. Qed.

Lemma len_nil {A} : len (@nil A) = 0.
Proof. reflexivity. Qed.

Lemma len_map {A B} (f : A -> B) (l : list A) : len (map f l) = len l.
Proof. unfold len. now rewrite map_length. Qed.

(* ---------- big endian ---------- *)

Lemma be_length k n : length (be k n) = k.
Proof. induction k; simpl; auto. Qed.

Lemma rdbe_be k : forall n acc r,
  rdbe k acc (be k n ++ r) = Some (acc * 256 ^ N.of_nat k + n mod 256 ^ N.of_nat k, r).
Proof.
  induction k; intros n acc r.
  - simpl. rewrite N.mod_1_r. f_equal. f_equal. lia.
  - cbn [be rdbe app]. rewrite IHk. f_equal. f_equal.
    replace (N.of_nat (S k)) with (N.of_nat k + 1) by lia.
    rewrite N.pow_add_r. change (256 ^ 1) with 256.
    set (p := 256 ^ N.of_nat k).
    assert (Hp : p <> 0) by (unfold p; apply N.pow_nonzero; lia).
    rewrite (N.mod_mul_r n p 256) by lia. lia.
Qed.

Lemma rdbe_be_small k n r : n < 256 ^ N.of_nat k -> rdbe k 0 (be k n ++ r) = Some (n, r).
Proof. intros H. rewrite rdbe_be. rewrite N.mod_small by exact H. f_equal. Qed.

Lemma rdU_be k n r : n < 256 ^ N.of_nat k -> rdU k (be k n ++ r) = Ok (n, r).
Proof. intros H. unfold rdU. now rewrite rdbe_be_small. Qed.

Lemma be_bytes_ok k n : forallb (fun x => x <? 256) (be k n) = true.
Proof.
  induction k; cbn [be forallb]; auto. rewrite IHk, andb_true_r.
  apply N.ltb_lt. apply N.mod_lt. lia.
Qed.

(* ---------- lacks / take ---------- *)

Lemma lacks_spec b : forall n, lacks b n = (len b <? n).
Proof.
  induction b as [|x b IH]; intros n; cbn [lacks].
  - change (len (@nil N)) with 0. destruct (N.eqb_spec n 0); destruct (N.ltb_spec 0 n); simpl; auto; lia.
  - rewrite len_cons. destruct (N.eqb_spec n 0).
    + subst. symmetry. apply N.ltb_ge. lia.
    + rewrite IH. destruct (N.ltb_spec (len b) (n - 1)); destruct (N.ltb_spec (len b + 1) n); auto; lia.
Qed.

Lemma take_app x r : take (len x) (x ++ r) = Ok (x, r).
Proof.
  unfold take. rewrite lacks_spec, len_app.
  destruct (N.ltb_spec (len x + len r) (len x)); [lia|].
  unfold len. rewrite Nat2N.id. rewrite firstn_app, skipn_app, Nat.sub_diag.
  rewrite firstn_all, skipn_all. simpl. now rewrite app_nil_r.
Qed.

(* ---------- unsigned ---------- *)

Lemma enc_uint_nonempty n : enc_uint n <> [].
Proof. unfold enc_uint. repeat destruct (_ <? _); discriminate. Qed.

Ltac ltb_cases :=
  repeat match goal with
         | |- context [?a <? ?b] => destruct (N.ltb_spec a b)
         | |- context [?a =? ?b] => destruct (N.eqb_spec a b)
         | |- context [?a <=? ?b] => destruct (N.leb_spec a b)
         end.

Lemma rd_uint64_enc n r : n < 18446744073709551616 -> rd_uint64 (enc_uint n ++ r) = Ok (n, r).
Proof.
  intros H. unfold enc_uint.
  destruct (N.ltb_spec n 128).
  - cbn [app rd_uint64]. destruct (N.ltb_spec n 128); [reflexivity|lia].
  - destruct (N.ltb_spec n 256); [|destruct (N.ltb_spec n 65536); [|destruct (N.ltb_spec n 4294967296)]];
      cbn [app rd_uint64]; cbn [N.ltb N.eqb N.compare Pos.compare Pos.compare_cont Pos.eqb];
      apply rdU_be; simpl; lia.
Qed.

Lemma rd_int64_enc_uint n r : n < 9223372036854775808 -> rd_int64 (enc_uint n ++ r) = Ok (Z.of_N n, r).
Proof.
  intros H. unfold enc_uint.
  destruct (N.ltb_spec n 128).
  - cbn [app rd_int64]. destruct (N.ltb_spec n 128); [reflexivity|lia].
  - destruct (N.ltb_spec n 256); [|destruct (N.ltb_spec n 65536); [|destruct (N.ltb_spec n 4294967296)]];
      cbn [app rd_int64]; cbn [N.ltb N.eqb N.leb N.compare Pos.compare Pos.compare_cont Pos.eqb].
    + rewrite rdU_be by (simpl; lia). reflexivity.
    + rewrite rdU_be by (simpl; lia). reflexivity.
    + rewrite rdU_be by (simpl; lia). reflexivity.
    + unfold rdS. rewrite rdbe_be_small by (simpl; lia).
      change (2 ^ (8 * N.of_nat 8 - 1)) with 9223372036854775808.
      destruct (N.ltb_spec n 9223372036854775808); [reflexivity|lia].
Qed.

(* ---------- signed ---------- *)

Lemma rdS_neg k z r :
  (0 < k)%nat -> (- 2 ^ (8 * Z.of_nat k - 1) <= z < 0)%Z ->
  rdS k (be k (Z.to_N (2 ^ (8 * Z.of_nat k) + z)) ++ r) = Ok (z, r).
Proof.
  intros Hk Hz. unfold rdS.
  assert (E : 256 ^ N.of_nat k = Z.to_N (2 ^ (8 * Z.of_nat k))).
  { change 256 with (2 ^ 8). rewrite <- N.pow_mul_r.
    rewrite Z2N.inj_pow by lia. f_equal. lia. }
  assert (Hpow : (2 ^ (8 * Z.of_nat k) = 2 * 2 ^ (8 * Z.of_nat k - 1))%Z).
  { rewrite <- Z.pow_succ_r by lia. f_equal. lia. }
  assert (Hpos : (0 < 2 ^ (8 * Z.of_nat k - 1))%Z) by (apply Z.pow_pos_nonneg; lia).
  rewrite rdbe_be_small by (rewrite E; lia).
  assert (E2 : 2 ^ (8 * N.of_nat k - 1) = Z.to_N (2 ^ (8 * Z.of_nat k - 1))).
  { rewrite Z2N.inj_pow by lia. f_equal. lia. }
  rewrite E2.
  destruct (N.ltb_spec (Z.to_N (2 ^ (8 * Z.of_nat k) + z)) (Z.to_N (2 ^ (8 * Z.of_nat k - 1)))); [lia|].
  f_equal. f_equal. rewrite Z2N.id by lia. lia.
Qed.

Lemma enc_int_nonempty z : enc_int z <> [].
Proof.
  unfold enc_int. destruct (0 <=? z)%Z; [apply enc_uint_nonempty|].
  repeat destruct (_ <=? _)%Z; discriminate.
Qed.

Lemma rd_int64_enc z r :
  (- 9223372036854775808 <= z < 9223372036854775808)%Z -> rd_int64 (enc_int z ++ r) = Ok (z, r).
Proof.
  intros H. unfold enc_int.
  destruct (Z.leb_spec 0 z).
  - rewrite rd_int64_enc_uint by lia. now rewrite Z2N.id by lia.
  - destruct (Z.leb_spec (-32) z).
    + cbn [app rd_int64].
      destruct (N.ltb_spec (Z.to_N (256 + z)) 128); [lia|].
      destruct (N.leb_spec 224 (Z.to_N (256 + z))); [|lia].
      f_equal. f_equal. rewrite Z2N.id by lia. lia.
    + destruct (Z.leb_spec (-128) z); [|destruct (Z.leb_spec (-32768) z); [|destruct (Z.leb_spec (-2147483648) z)]];
        cbn [app rd_int64]; cbn [N.ltb N.eqb N.leb N.compare Pos.compare Pos.compare_cont Pos.eqb].
      * apply (rdS_neg 1 z r); simpl; lia.
      * apply (rdS_neg 2 z r); simpl; lia.
      * apply (rdS_neg 4 z r); simpl; lia.
      * apply (rdS_neg 8 z r); simpl; lia.
Qed.

(* ---------- headers ---------- *)

Lemma rd_maphdr_enc n r : n < 4294967296 -> rd_maphdr (hdr_map n ++ r) = Ok (n, false, r).
Proof.
  intros H. unfold hdr_map.
  destruct (N.ltb_spec n 16).
  - cbn [app rd_maphdr].
    destruct (N.leb_spec 128 (128 + n)); [|lia]. destruct (N.ltb_spec (128 + n) 144); [|lia].
    cbn [andb]. replace (128 + n - 128) with n by lia. reflexivity.
  - destruct (N.ltb_spec n 65536); cbn [app rd_maphdr];
      cbn [N.ltb N.eqb N.leb N.compare Pos.compare Pos.compare_cont Pos.eqb andb];
      rewrite rdU_be by (simpl; lia); reflexivity.
Qed.

Lemma rd_arrhdr_enc n r : n < 4294967296 -> rd_arrhdr (hdr_arr n ++ r) = Ok (n, false, r).
Proof.
  intros H. unfold hdr_arr.
  destruct (N.ltb_spec n 16).
  - cbn [app rd_arrhdr].
    destruct (N.leb_spec 144 (144 + n)); [|lia]. destruct (N.ltb_spec (144 + n) 160); [|lia].
    cbn [andb]. replace (144 + n - 144) with n by lia. reflexivity.
  - destruct (N.ltb_spec n 65536); cbn [app rd_arrhdr]; unfold is_map_lead;
      cbn [N.ltb N.eqb N.leb N.compare Pos.compare Pos.compare_cont Pos.eqb andb orb];
      rewrite rdU_be by (simpl; lia); reflexivity.
Qed.

Lemma hdr_map_nonempty n : hdr_map n <> [].
Proof. unfold hdr_map. repeat destruct (_ <? _); discriminate. Qed.
Lemma hdr_arr_nonempty n : hdr_arr n <> [].
Proof. unfold hdr_arr. repeat destruct (_ <? _); discriminate. Qed.

(* the first byte of a canonical map header is a map lead, never the nil / array lead *)
Lemma rd_maphdr_not_type n r : n < 4294967296 -> rd_maphdr (hdr_map n ++ r) <> Err EType.
Proof. intros H. rewrite rd_maphdr_enc by exact H. discriminate. Qed.

(* ---------- str / bin ---------- *)

Lemma rd_strbin_len_str n r :
  n < 4294967296 ->
  exists t, hdr_str n ++ r = fst t :: snd t /\ rd_strbin_len (fst t) (snd t) = Some (Ok (n, r)) .
Proof.
  intros H. unfold hdr_str.
  destruct (N.ltb_spec n 32).
  - exists (160 + n, r). split; [reflexivity|]. cbn [fst snd]. unfold rd_strbin_len.
    destruct (N.leb_spec 160 (160 + n)); [|lia]. destruct (N.ltb_spec (160 + n) 192); [|lia].
    cbn [andb]. replace (160 + n - 160) with n by lia. reflexivity.
  - destruct (N.ltb_spec n 256); [|destruct (N.ltb_spec n 65536)].
    + exists (217, be 1 n ++ r). split; [reflexivity|]. cbn [fst snd]. unfold rd_strbin_len.
      cbn [N.ltb N.eqb N.leb N.compare Pos.compare Pos.compare_cont Pos.eqb andb orb].
      rewrite rdU_be by (simpl; lia). reflexivity.
    + exists (218, be 2 n ++ r). split; [reflexivity|]. cbn [fst snd]. unfold rd_strbin_len.
      cbn [N.ltb N.eqb N.leb N.compare Pos.compare Pos.compare_cont Pos.eqb andb orb].
      rewrite rdU_be by (simpl; lia). reflexivity.
    + exists (219, be 4 n ++ r). split; [reflexivity|]. cbn [fst snd]. unfold rd_strbin_len.
      cbn [N.ltb N.eqb N.leb N.compare Pos.compare Pos.compare_cont Pos.eqb andb orb].
      rewrite rdU_be by (simpl; lia). reflexivity.
Qed.

Lemma rd_strbin_len_bin n r :
  n < 4294967296 ->
  exists t, hdr_bin n ++ r = fst t :: snd t /\ rd_strbin_len (fst t) (snd t) = Some (Ok (n, r)).
Proof.
  intros H. unfold hdr_bin.
  destruct (N.ltb_spec n 256); [|destruct (N.ltb_spec n 65536)].
  - exists (196, be 1 n ++ r). split; [reflexivity|]. cbn [fst snd]. unfold rd_strbin_len.
    cbn [N.ltb N.eqb N.leb N.compare Pos.compare Pos.compare_cont Pos.eqb andb orb].
    rewrite rdU_be by (simpl; lia). reflexivity.
  - exists (197, be 2 n ++ r). split; [reflexivity|]. cbn [fst snd]. unfold rd_strbin_len.
    cbn [N.ltb N.eqb N.leb N.compare Pos.compare Pos.compare_cont Pos.eqb andb orb].
    rewrite rdU_be by (simpl; lia). reflexivity.
  - exists (198, be 4 n ++ r). split; [reflexivity|]. cbn [fst snd]. unfold rd_strbin_len.
    cbn [N.ltb N.eqb N.leb N.compare Pos.compare Pos.compare_cont Pos.eqb andb orb].
    rewrite rdU_be by (simpl; lia). reflexivity.
Qed.

Lemma rd_bin_enc_str flat x r : len x < 4294967296 -> rd_bin flat (enc_str x ++ r) = Ok (Some x, r).
Proof.
  intros H. unfold enc_str. rewrite <- app_assoc.
  destruct (rd_strbin_len_str (len x) (x ++ r) H) as [[lead t] [E1 E2]].
  cbn [fst snd] in *. rewrite E1. unfold rd_bin. rewrite E2. cbn [bind fst snd].
  rewrite take_app. reflexivity.
Qed.

Lemma rd_bin_enc_bin flat x r : len x < 4294967296 -> rd_bin flat (enc_bin x ++ r) = Ok (Some x, r).
Proof.
  intros H. unfold enc_bin. rewrite <- app_assoc.
  destruct (rd_strbin_len_bin (len x) (x ++ r) H) as [[lead t] [E1 E2]].
  cbn [fst snd] in *. rewrite E1. unfold rd_bin. rewrite E2. cbn [bind fst snd].
  rewrite take_app. reflexivity.
Qed.

Lemma rd_str_enc x r : len x < 4294967296 -> rd_str (enc_str x ++ r) = Ok (x, r).
Proof. intros H. unfold rd_str. now rewrite rd_bin_enc_str. Qed.

Lemma rd_exact_enc x r : len x < 4294967296 -> rd_exact (len x) (enc_bin x ++ r) = Ok (x, r).
Proof.
  intros H. unfold rd_exact. rewrite rd_bin_enc_bin by exact H.
  unfold len. rewrite Nat2N.id, firstn_all, Nat.sub_diag. simpl. now rewrite app_nil_r.
Qed.

Lemma enc_str_nonempty x : enc_str x <> [].
Proof. unfold enc_str, hdr_str. repeat destruct (_ <? _); discriminate. Qed.
Lemma enc_bin_nonempty x : enc_bin x <> [].
Proof. unfold enc_bin, hdr_bin. repeat destruct (_ <? _); discriminate. Qed.

(* ---------- byte string equality ---------- *)

Lemma bytes_eqb_refl a : bytes_eqb a a = true.
Proof. induction a; simpl; auto. now rewrite N.eqb_refl. Qed.

Lemma bytes_eqb_eq a : forall b, bytes_eqb a b = true <-> a = b.
Proof.
  induction a as [|x a IH]; destruct b as [|y b]; simpl; split; intros H; try discriminate; auto.
  - apply andb_true_iff in H. destruct H as [H1 H2]. apply N.eqb_eq in H1. apply IH in H2. now subst.
  - inversion H; subst. rewrite N.eqb_refl. now apply IH.
Qed.

Lemma lex_lt_irrefl a : lex_lt a a = false.
Proof. induction a; simpl; auto. rewrite N.ltb_irrefl, N.eqb_refl, IHa. reflexivity. Qed.

Lemma lex_lt_asym a : forall b, lex_lt a b = true -> lex_lt b a = false.
Proof.
  induction a as [|x a IH]; destruct b as [|y b]; simpl; intros H; auto; try discriminate.
  apply orb_true_iff in H. destruct H as [H|H].
  - apply N.ltb_lt in H. destruct (N.ltb_spec y x); [lia|]. destruct (N.eqb_spec y x); [lia|]. reflexivity.
  - apply andb_true_iff in H. destruct H as [H1 H2]. apply N.eqb_eq in H1. subst.
    rewrite N.ltb_irrefl, N.eqb_refl. simpl. now apply IH.
Qed.

Lemma lex_lt_neq a b : lex_lt a b = true -> a <> b.
Proof. intros H E. subst. rewrite lex_lt_irrefl in H. discriminate. Qed.
