(* C10 proofs, part 3: lookupAssetResources / lookupApplicationResources return the first [limit]
   entries of the listing above the given id. *)
From Coq Require Import NArith Arith List Bool Lia ZifyN ZifyNat ZifyBool Sorted Permutation.
From Verif.model Require Import Paging PagingSpec.
From Verif.proofs Require Import PagingBase.
Import ListNotations.
Open Scope N_scope.

Notation nsorted := (ssorted (V:=ritem) N.ltb).

(* ------------------------------------------------------------------------------------------ *)
(* association lists keyed by N                                                               *)
(* ------------------------------------------------------------------------------------------ *)
Lemma alookup_app {V} (k : N) (l1 l2 : list (N * V)) :
  alookup k (l1 ++ l2) = match alookup k l1 with Some v => Some v | None => alookup k l2 end.
Proof. induction l1 as [|[k' v'] t IH]; cbn; auto. destruct (k =? k'); auto. Qed.

Lemma alookup_some_in {V} (k : N) (l : list (N * V)) v : alookup k l = Some v -> In (k, v) l.
Proof.
  induction l as [|[k' v'] t IH]; cbn; [discriminate|]. destruct (k =? k') eqn:E.
  - apply N.eqb_eq in E; subst. intro H; inversion H; auto.
  - auto.
Qed.

Lemma alookup_none_iff {V} (k : N) (l : list (N * V)) : alookup k l = None <-> ~ In k (map fst l).
Proof.
  induction l as [|[k' v'] t IH]; cbn; [tauto|]. destruct (k =? k') eqn:E.
  - apply N.eqb_eq in E; subst. split; [discriminate | intro H; exfalso; apply H; auto].
  - apply N.eqb_neq in E. rewrite IH. split; [intros H [C|C]; [congruence|auto] | tauto].
Qed.

Lemma alookup_in_nodup {V} (k : N) (v : V) (l : list (N * V)) :
  NoDup (map fst l) -> In (k, v) l -> alookup k l = Some v.
Proof.
  induction l as [|[k' v'] t IH]; cbn; [tauto|]. intros Hnd [E|Hin].
  - inversion E; subst. rewrite N.eqb_refl. auto.
  - inversion Hnd; subst. destruct (k =? k') eqn:E.
    + apply N.eqb_eq in E; subst. exfalso. apply H1. apply (in_map fst) in Hin. auto.
    + apply IH; auto.
Qed.

Lemma amem_true_iff {V} (k : N) (l : list (N * V)) : amem k l = true <-> In k (map fst l).
Proof.
  unfold amem. destruct (alookup k l) eqn:E.
  - split; auto. intros _. apply alookup_some_in in E. apply (in_map fst) in E. auto.
  - split; [discriminate|]. intro H. apply alookup_none_iff in E. contradiction.
Qed.

Lemma amem_false_iff {V} (k : N) (l : list (N * V)) : amem k l = false <-> ~ In k (map fst l).
Proof. rewrite <- amem_true_iff. destruct (amem k l); split; auto; try discriminate. intro H; exfalso; apply H; auto. Qed.

Lemma nmem_true_iff (k : N) (l : list N) : nmem k l = true <-> In k l.
Proof.
  induction l as [|x t IH]; cbn; [split; [discriminate|tauto]|].
  rewrite orb_true_iff, IH, N.eqb_eq. intuition.
Qed.

(* ------------------------------------------------------------------------------------------ *)
(* the delta walk                                                                             *)
(* ------------------------------------------------------------------------------------------ *)
Section Walk.
  Variables addr gt : N.

  Definition hold_match (i : N) (r : rrec) : bool :=
    (rc_addr r =? addr) && (rc_aidx r =? i) && affects (rc_hold r).
  Definition par_match (i : N) (r : rrec) : bool := (rc_aidx r =? i) && affects (rc_par r).

  Definition nd_inv (w : wstate) : Prop :=
    w_nd w = N.of_nat (length (filter (fun e => is_del (snd e)) (w_dh w))) +
             N.of_nat (length (filter (fun e => is_del (fst (snd e))) (w_dp w))).

  Lemma walk_rec_dh : forall st r i,
    alookup i (w_dh (walk_rec addr gt st r)) =
    match alookup i (w_dh st) with
    | Some d => Some d
    | None => if (gt <? i) && hold_match i r then Some (rc_hold r) else None
    end.
  Proof.
    intros st r i. unfold walk_rec, hold_match.
    destruct (rc_aidx r <=? gt) eqn:Eg.
    - destruct (alookup i (w_dh st)); auto.
      destruct (rc_aidx r =? i) eqn:Ei; [|rewrite andb_false_r, andb_false_l, andb_false_r; auto].
      assert (gt <? i = false) as -> by lia. auto.
    - set (st1 := if affects (rc_par r) then _ else st).
      assert (Hdh : w_dh st1 = w_dh st).
      { unfold st1. destruct (affects (rc_par r)); auto. destruct (amem (rc_aidx r) (w_dp st)); auto. }
      destruct (rc_addr r =? addr) eqn:Ea; cbn [negb].
      + destruct (affects (rc_hold r)) eqn:Eh.
        * destruct (amem (rc_aidx r) (w_dh st1)) eqn:Em.
          -- rewrite Hdh in *. destruct (alookup i (w_dh st)) eqn:El; auto.
             destruct (rc_aidx r =? i) eqn:Ei; [|rewrite !andb_false_r; auto].
             apply N.eqb_eq in Ei; subst i. unfold amem in Em. rewrite El in Em. discriminate.
          -- cbn [w_dh]. rewrite alookup_app, Hdh. destruct (alookup i (w_dh st)); auto. cbn [alookup].
             rewrite (N.eqb_sym i). destruct (rc_aidx r =? i) eqn:Ei.
             ++ assert (gt <? i = true) as -> by lia. auto.
             ++ rewrite !andb_false_r. auto.
        * rewrite Hdh. destruct (alookup i (w_dh st)); auto. rewrite !andb_false_r. auto.
      + rewrite Hdh. destruct (alookup i (w_dh st)); auto. rewrite andb_false_l, andb_false_r. auto.
  Qed.

  Lemma walk_rec_dp : forall st r i,
    alookup i (w_dp (walk_rec addr gt st r)) =
    match alookup i (w_dp st) with
    | Some d => Some d
    | None => if (gt <? i) && par_match i r then Some (rc_par r, rc_addr r) else None
    end.
  Proof.
    intros st r i. unfold walk_rec, par_match.
    destruct (rc_aidx r <=? gt) eqn:Eg.
    - destruct (alookup i (w_dp st)); auto.
      destruct (rc_aidx r =? i) eqn:Ei; [|rewrite andb_false_l, andb_false_r; auto].
      assert (gt <? i = false) as -> by lia. auto.
    - set (st1 := if affects (rc_par r) then _ else st).
      assert (Hdp : alookup i (w_dp st1) =
                    match alookup i (w_dp st) with
                    | Some d => Some d
                    | None => if (gt <? i) && ((rc_aidx r =? i) && affects (rc_par r)) then Some (rc_par r, rc_addr r) else None
                    end).
      { unfold st1. destruct (affects (rc_par r)) eqn:Ep.
        - destruct (amem (rc_aidx r) (w_dp st)) eqn:Em.
          + destruct (alookup i (w_dp st)) eqn:El; auto.
            destruct (rc_aidx r =? i) eqn:Ei; [|rewrite !andb_false_r; auto].
            apply N.eqb_eq in Ei; subst i. unfold amem in Em. rewrite El in Em. discriminate.
          + cbn [w_dp]. rewrite alookup_app. destruct (alookup i (w_dp st)); auto. cbn [alookup].
            rewrite (N.eqb_sym i). destruct (rc_aidx r =? i) eqn:Ei.
            * assert (gt <? i = true) as -> by lia. auto.
            * rewrite !andb_false_r. auto.
        - destruct (alookup i (w_dp st)); auto. rewrite !andb_false_r. auto. }
      assert (Hsame : forall st2, w_dp st2 = w_dp st1 ->
                w_dp (if negb (rc_addr r =? addr) then st1 else
                      if affects (rc_hold r) then
                        (if amem (rc_aidx r) (w_dh st1) then st1
                         else mkW (w_dh st1 ++ [(rc_aidx r, rc_hold r)]) (w_dp st1)
                                  (w_nd st1 + (if is_del (rc_hold r) then 1 else 0)))
                      else st1) = w_dp st1).
      { intros. destruct (negb (rc_addr r =? addr)); auto. destruct (affects (rc_hold r)); auto.
        destruct (amem (rc_aidx r) (w_dh st1)); auto. }
      rewrite (Hsame st1 eq_refl). exact Hdp.
  Qed.

  Lemma walk_rec_inv : forall st r,
    nd_inv st -> NoDup (map fst (w_dh st)) -> NoDup (map fst (w_dp st)) ->
    nd_inv (walk_rec addr gt st r) /\ NoDup (map fst (w_dh (walk_rec addr gt st r))) /\
    NoDup (map fst (w_dp (walk_rec addr gt st r))).
  Proof.
    intros st r Hnd Hh Hp. unfold walk_rec.
    destruct (rc_aidx r <=? gt); auto.
    set (st1 := if affects (rc_par r) then _ else st).
    assert (H1 : nd_inv st1 /\ NoDup (map fst (w_dh st1)) /\ NoDup (map fst (w_dp st1))).
    { unfold st1. destruct (affects (rc_par r)); auto.
      destruct (amem (rc_aidx r) (w_dp st)) eqn:Em; auto.
      apply amem_false_iff in Em. repeat split; cbn [w_dh w_dp w_nd]; auto.
      - unfold nd_inv in *. cbn [w_dh w_dp w_nd]. rewrite filter_app, app_length. cbn [filter snd fst].
        destruct (is_del (rc_par r)); cbn [length]; lia.
      - rewrite map_app. apply NoDup_app_snoc; auto. }
    destruct H1 as [Hnd1 [Hh1 Hp1]].
    destruct (negb (rc_addr r =? addr)); auto.
    destruct (affects (rc_hold r)); auto.
    destruct (amem (rc_aidx r) (w_dh st1)) eqn:Em; auto.
    apply amem_false_iff in Em. repeat split; cbn [w_dh w_dp w_nd]; auto.
    - unfold nd_inv in *. cbn [w_dh w_dp w_nd]. rewrite filter_app, app_length. cbn [filter snd fst].
      destruct (is_del (rc_hold r)); cbn [length]; lia.
    - rewrite map_app. apply NoDup_app_snoc; auto.
  Qed.

  Lemma walk_fold_dh : forall l st i,
    alookup i (w_dh (fold_left (walk_rec addr gt) l st)) =
    match alookup i (w_dh st) with
    | Some d => Some d
    | None => if gt <? i then option_map rc_hold (find (hold_match i) l) else None
    end.
  Proof.
    induction l as [|r t IH]; intros st i; cbn [fold_left find].
    - destruct (alookup i (w_dh st)); auto. destruct (gt <? i); auto.
    - rewrite IH, walk_rec_dh. destruct (alookup i (w_dh st)); auto.
      destruct (gt <? i); cbn; auto. destruct (hold_match i r); auto.
  Qed.

  Lemma walk_fold_dp : forall l st i,
    alookup i (w_dp (fold_left (walk_rec addr gt) l st)) =
    match alookup i (w_dp st) with
    | Some d => Some d
    | None => if gt <? i then option_map (fun r => (rc_par r, rc_addr r)) (find (par_match i) l) else None
    end.
  Proof.
    induction l as [|r t IH]; intros st i; cbn [fold_left find].
    - destruct (alookup i (w_dp st)); auto. destruct (gt <? i); auto.
    - rewrite IH, walk_rec_dp. destruct (alookup i (w_dp st)); auto.
      destruct (gt <? i); cbn; auto. destruct (par_match i r); auto.
  Qed.

  Lemma walk_fold_inv : forall l st,
    nd_inv st -> NoDup (map fst (w_dh st)) -> NoDup (map fst (w_dp st)) ->
    nd_inv (fold_left (walk_rec addr gt) l st) /\
    NoDup (map fst (w_dh (fold_left (walk_rec addr gt) l st))) /\
    NoDup (map fst (w_dp (fold_left (walk_rec addr gt) l st))).
  Proof.
    induction l as [|r t IH]; intros st H1 H2 H3; cbn [fold_left]; auto.
    destruct (walk_rec_inv st r H1 H2 H3) as [A [B C]]. apply IH; auto.
  Qed.
End Walk.

Lemma walk_flat : forall addr gt deltas,
  walk addr gt deltas = fold_left (walk_rec addr gt) (r_flat deltas) w0.
Proof. intros. unfold walk, r_flat. apply fold_left_concat. Qed.

(* ------------------------------------------------------------------------------------------ *)
(* sorted id lists                                                                            *)
(* ------------------------------------------------------------------------------------------ *)
Definition ids_sorted (l : list N) : Prop := StronglySorted N.lt l.

Lemma ins_un_in : forall x l k, In k (ins_un x l) <-> k = x \/ In k l.
Proof.
  intros x l k; induction l as [|y t IH]; cbn; [intuition|].
  destruct (x ?= y) eqn:E; cbn.
  - apply N.compare_eq in E; subst. intuition.
  - intuition.
  - rewrite IH. intuition.
Qed.

Lemma ins_un_sorted : forall x l, ids_sorted l -> ids_sorted (ins_un x l).
Proof.
  intros x l; induction l as [|y t IH]; cbn; intros Hs.
  - constructor; constructor.
  - inversion Hs as [|? ? H1 H2]; subst. destruct (x ?= y) eqn:E; auto.
    + rewrite N.compare_lt_iff in E. constructor; auto. constructor; auto.
      apply Forall_forall. intros z Hz. rewrite Forall_forall in H2. specialize (H2 z Hz). lia.
    + rewrite N.compare_gt_iff in E. constructor; [apply IH; exact H1|].
      apply Forall_forall. intros z Hz. rewrite Forall_forall in H2. apply ins_un_in in Hz.
      destruct Hz as [->|Hz]; auto.
Qed.

Lemma usort_n_in : forall l k, In k (usort_n l) <-> In k l.
Proof. induction l as [|x t IH]; intro k; cbn; [tauto|]. rewrite ins_un_in, IH. intuition. Qed.

Lemma usort_n_sorted : forall l, ids_sorted (usort_n l).
Proof. induction l as [|x t IH]; cbn; [constructor | apply ins_un_sorted; auto]. Qed.

Lemma filter_map_ids_sorted {V} (f : N -> option (N * V)) (ks : list N) :
  ids_sorted ks -> (forall k x, f k = Some x -> fst x = k) -> ssorted N.ltb (filter_map f ks).
Proof.
  intros Hs Hf. induction ks as [|k t IH]; cbn; [constructor|].
  inversion Hs as [|? ? H1 H2]; subst. destruct (f k) eqn:E; [|apply IH; exact H1].
  constructor; [apply IH; exact H1|]. apply Forall_forall. intros y Hy. rewrite Forall_forall in H2.
  apply filter_map_in in Hy. destruct Hy as [k' [Hk' Hfk']].
  unfold klt. rewrite (Hf _ _ E), (Hf _ _ Hfk'). apply N.ltb_lt. auto.
Qed.

Lemma sort_n_spec : forall l, NoDup l -> ids_sorted (sort_n l) /\ (forall i, In i (sort_n l) <-> In i l).
Proof.
  intros l Hnd. unfold sort_n.
  assert (Hs : ssorted N.ltb (isort N.ltb (map (fun i : N => (i, tt)) l))).
  { apply isort_ssorted; auto. rewrite map_map. cbn. rewrite map_id. auto. }
  split.
  - clear Hnd. induction Hs as [|x t Hs IH Hall]; cbn; constructor; auto.
    apply Forall_forall. intros y Hy. apply in_map_iff in Hy. destruct Hy as [z [<- Hz]].
    rewrite Forall_forall in Hall. specialize (Hall z Hz). unfold klt in Hall. apply N.ltb_lt in Hall. auto.
  - intro i. rewrite in_map_iff. split.
    + intros [[j u] [<- Hin]]. apply (proj1 (isort_in N.ltb _ _)) in Hin.
      apply in_map_iff in Hin. destruct Hin as [k [E Hk]]. inversion E; subst. auto.
    + intros Hin. exists (i, tt). split; auto. apply (proj2 (isort_in N.ltb _ _)).
      apply in_map_iff. exists i. auto.
Qed.

Lemma ids_sorted_app_inv : forall l1 l2, ids_sorted (l1 ++ l2) ->
  ids_sorted l1 /\ ids_sorted l2 /\ (forall a b, In a l1 -> In b l2 -> a < b).
Proof.
  induction l1 as [|x t IH]; cbn; intros l2 H.
  - repeat split; auto; [constructor | intros ? ? []].
  - inversion H as [|? ? H1 H2]; subst. destruct (IH _ H1) as [S1 [S2 C]].
    rewrite Forall_forall in H2. repeat split; auto.
    + constructor; auto. apply Forall_forall. intros; apply H2, in_or_app; auto.
    + intros a b [<-|Ha] Hb; [apply H2, in_or_app; auto | auto].
Qed.

Lemma nsorted_last_max : forall (l : list (N * ritem)) z, nsorted l -> last_opt l = Some z ->
  forall x, In x l -> fst x <= fst z.
Proof.
  intros l z Hs Hl x Hx. apply last_opt_split in Hl. destruct Hl as [l' ->].
  apply ssorted_app_inv in Hs. destruct Hs as [_ [_ C]].
  apply in_app_or in Hx. destruct Hx as [Hx|[<-|[]]]; [|lia].
  specialize (C x z Hx (or_introl eq_refl)). unfold klt in C. apply N.ltb_lt in C. lia.
Qed.

(* ------------------------------------------------------------------------------------------ *)
(* cutting a sorted listing at a bound                                                        *)
(* ------------------------------------------------------------------------------------------ *)
Definition le_bound (b : option N) (i : N) : bool :=
  match b with Some m => i <=? m | None => true end.

Lemma firstn_cut : forall (L S : list (N * ritem)) (bound : option N) (n : nat),
  nsorted L -> nsorted S ->
  (forall x, In x S <-> In x L /\ le_bound bound (fst x) = true) ->
  (bound <> None -> (n <= length S)%nat) ->
  firstn n S = firstn n L.
Proof.
  intros L S bound n HL HS Hmem Hlen.
  destruct (filter_downclosed N.ltb (fun x => le_bound bound (fst x)) L HL) as [Hsplit _].
  { intros x y Hxy Hy. unfold klt in Hxy. apply N.ltb_lt in Hxy. destruct bound; cbn in *; auto. lia. }
  assert (HSf : S = filter (fun x => le_bound bound (fst x)) L).
  { apply ssorted_unique with (ltb := N.ltb); auto.
    - apply ssorted_filter; auto.
    - intro x. rewrite Hmem, filter_In. tauto. }
  destruct bound as [m|].
  - rewrite Hsplit, <- HSf. rewrite firstn_app.
    assert ((n - length S)%nat = 0%nat) as -> by (specialize (Hlen ltac:(discriminate)); lia).
    cbn. rewrite app_nil_r. auto.
  - f_equal. rewrite HSf. cbn. clear. induction L; cbn; congruence.
Qed.

(* ------------------------------------------------------------------------------------------ *)
(* the delta-only loops with their early exit                                                 *)
(* ------------------------------------------------------------------------------------------ *)
Definition maxinv (res : list (N * ritem)) (mx : N) : Prop :=
  (forall x, In x res -> fst x <= mx) /\ (res <> [] -> exists x, In x res /\ fst x = mx) /\
  (res = [] -> mx = 0).

Lemma delta_loop_spec : forall f limit,
  (forall i it, f i = Some it -> fst it = i) ->
  forall ids res mx, ids_sorted ids -> (forall i, In i ids -> 0 < i) -> maxinv res mx ->
  exists taken skipped,
    ids = taken ++ skipped /\
    fst (delta_loop f limit ids res mx) = res ++ filter_map f taken /\
    (skipped = [] \/ (limit <= nlen (fst (delta_loop f limit ids res mx)) /\
                      forall i, In i skipped -> snd (delta_loop f limit ids res mx) < i)) /\
    maxinv (fst (delta_loop f limit ids res mx)) (snd (delta_loop f limit ids res mx)) /\
    (limit <= nlen res -> snd (delta_loop f limit ids res mx) = mx).
Proof.
  intros f limit Hf. induction ids as [|i rest IH]; intros res mx Hs Hpos Hm; cbn [delta_loop].
  - exists [], []. cbn. rewrite app_nil_r. repeat split; auto; apply Hm.
  - inversion Hs as [|? ? Hs1 Hs2]; subst. rewrite Forall_forall in Hs2.
    assert (Hpos' : forall j, In j rest -> 0 < j) by (intros; apply Hpos; right; auto).
    destruct ((limit <=? nlen res) && (mx <? i)) eqn:Eb.
    + apply andb_true_iff in Eb. destruct Eb as [E1 E2].
      exists [], (i :: rest). cbn. rewrite app_nil_r. repeat split; auto; try apply Hm.
      right. split; [lia|]. intros j [<-|Hj]; [lia|]. specialize (Hs2 j Hj). lia.
    + destruct (f i) as [it|] eqn:Efi.
      * assert (Hm' : maxinv (res ++ [it]) (if mx <? i then i else mx)).
        { destruct Hm as [M1 [M2 M3]]. pose proof (Hf _ _ Efi) as Hk. split; [|split].
          - intros x Hx. apply in_app_or in Hx. destruct Hx as [Hx|[<-|[]]].
            + specialize (M1 x Hx). destruct (mx <? i) eqn:E; lia.
            + rewrite Hk. destruct (mx <? i) eqn:E; lia.
          - intros _. destruct (mx <? i) eqn:E.
            + exists it. split; [apply in_or_app; right; left; auto | auto].
            + destruct res as [|r0 res'].
              * specialize (M3 eq_refl). specialize (Hpos i (or_introl eq_refl)). lia.
              * destruct (M2 ltac:(discriminate)) as [x [Hx Hxm]]. exists x. split; [apply in_or_app; left; auto | auto].
          - intro C. destruct res; discriminate. }
        destruct (IH (res ++ [it]) (if mx <? i then i else mx) Hs1 Hpos' Hm')
          as [tk [sk [Hids [Hres [Hskip [Hinv Hkeep]]]]]].
        exists (i :: tk), sk. subst rest. cbn [app filter_map]. rewrite Efi.
        split; [reflexivity|]. split; [rewrite Hres, <- app_assoc; reflexivity|].
        split; [exact Hskip|]. split; [exact Hinv|].
        intros Hl. rewrite Hkeep.
        -- assert (mx <? i = false) as -> by lia. auto.
        -- unfold nlen in *. rewrite app_length. cbn. lia.
      * destruct (IH res mx Hs1 Hpos' Hm) as [tk [sk [Hids [Hres [Hskip [Hinv Hkeep]]]]]].
        exists (i :: tk), sk. subst rest. cbn [app filter_map]. rewrite Efi.
        split; [reflexivity|]. split; [exact Hres|]. split; [exact Hskip|]. split; [exact Hinv | exact Hkeep].
Qed.

Lemma ids_sorted_nodup : forall l, ids_sorted l -> NoDup l.
Proof.
  induction l as [|x t IH]; intro H; [constructor|]. inversion H as [|? ? H1 H2]; subst.
  constructor; auto. intro Hin. rewrite Forall_forall in H2. specialize (H2 x Hin). lia.
Qed.

Lemma ids_sorted_last_max : forall l z, ids_sorted l -> last_opt l = Some z -> forall i, In i l -> i <= z.
Proof.
  intros l z Hs Hl i Hi. apply last_opt_split in Hl. destruct Hl as [l' ->].
  apply ids_sorted_app_inv in Hs. destruct Hs as [_ [_ C]].
  apply in_app_or in Hi. destruct Hi as [Hi|[<-|[]]]; [|lia].
  specialize (C i z Hi (or_introl eq_refl)). lia.
Qed.

Lemma filter_map_keys_incl {V} (f : N -> option (N * V)) (ks : list N) :
  (forall k x, f k = Some x -> fst x = k) ->
  forall k, In k (map fst (filter_map f ks)) -> In k ks.
Proof.
  intros Hf k Hk. apply in_map_iff in Hk. destruct Hk as [x [<- Hx]].
  apply filter_map_in in Hx. destruct Hx as [k' [Hk' Hfk]]. rewrite (Hf _ _ Hfk). auto.
Qed.

Lemma filter_map_keys_nodup {V} (f : N -> option (N * V)) (ks : list N) :
  (forall k x, f k = Some x -> fst x = k) -> NoDup ks -> NoDup (map fst (filter_map f ks)).
Proof.
  intros Hf. induction ks as [|k t IH]; cbn; intro Hn; [constructor|]. inversion Hn; subst.
  destruct (f k) eqn:E; auto. cbn. constructor; auto. rewrite (Hf _ _ E).
  intro Hin. apply (filter_map_keys_incl f t Hf) in Hin. contradiction.
Qed.

Lemma assemble : forall (L : list (N * ritem)) (item f2 f3 : N -> option (N * ritem)) (gt limit : N)
    (pgids ids2 ids3 : list N) (hasMore : bool) (maxID : N),
  1 <= limit ->
  nsorted L ->
  (forall x, In x L <-> gt < fst x /\ item (fst x) = Some x) ->
  (forall i x, item i = Some x -> fst x = i) ->
  (forall i x, f2 i = Some x -> fst x = i) ->
  (forall i x, f3 i = Some x -> fst x = i) ->
  ids_sorted pgids -> (forall i, In i pgids -> gt < i) ->
  (hasMore = true -> last_opt pgids = Some maxID) ->
  let in_page := fun i => nmem i pgids || (hasMore && (maxID <? i)) in
  let result0 := filter_map item pgids in
  let mx0 := match last_opt result0 with Some it => fst it | None => 0 end in
  (hasMore = true -> limit <= nlen result0) ->
  ids_sorted ids2 -> ids_sorted ids3 ->
  (forall i, In i ids2 -> gt < i /\ in_page i = false /\ f2 i = item i) ->
  (forall i, In i ids3 -> gt < i /\ in_page i = false /\ f3 i = item i /\ ~ In i ids2) ->
  (forall i, gt < i -> in_page i = false -> ~ In i ids2 -> ~ In i ids3 -> item i = None) ->
  let r1 := delta_loop f2 limit ids2 result0 mx0 in
  let r2 := delta_loop f3 limit ids3 (fst r1) (snd r1) in
  firstn (N.to_nat limit) (isort N.ltb (fst r2)) = firstn (N.to_nat limit) L.
Proof.
  intros L item f2 f3 gt limit pgids ids2 ids3 hasMore maxID Hlim HL HLin Hik Hf2k Hf3k Hpg Hpggt Hmax
         in_page result0 mx0 Hover Hs2 Hs3 H2 H3 Hcomplete r1 r2.
  (* result0 *)
  assert (Hr0s : nsorted result0) by (apply filter_map_ids_sorted; auto).
  assert (Hm0 : maxinv result0 mx0).
  { unfold mx0. split; [|split].
    - intros x Hx. destruct (last_opt result0) as [z|] eqn:El.
      + apply (nsorted_last_max result0 z Hr0s El x Hx).
      + apply last_opt_none in El. rewrite El in Hx. contradiction.
    - intros Hne. destruct (last_opt result0) as [z|] eqn:El.
      + exists z. split; auto. apply last_opt_split in El. destruct El as [l' ->]. apply in_or_app; right; left; auto.
      + apply last_opt_none in El. contradiction.
    - intros ->. reflexivity. }
  assert (Hpos2 : forall i, In i ids2 -> 0 < i) by (intros i Hi; destruct (H2 i Hi); lia).
  assert (Hpos3 : forall i, In i ids3 -> 0 < i) by (intros i Hi; destruct (H3 i Hi); lia).
  destruct (delta_loop_spec f2 limit Hf2k ids2 result0 mx0 Hs2 Hpos2 Hm0)
    as [tk2 [sk2 [Hids2 [Hres1 [Hskip2 [Hinv1 _]]]]]].
  fold r1 in Hres1, Hskip2, Hinv1.
  destruct (delta_loop_spec f3 limit Hf3k ids3 (fst r1) (snd r1) Hs3 Hpos3 Hinv1)
    as [tk3 [sk3 [Hids3 [Hres2 [Hskip3 [Hinv2 Hkeep3]]]]]].
  fold r2 in Hres2, Hskip3, Hinv2, Hkeep3.
  set (R := fst r2) in *. set (m := snd r2) in *.
  assert (HR : R = result0 ++ filter_map f2 tk2 ++ filter_map f3 tk3) by (rewrite Hres2, Hres1, <- app_assoc; auto).
  assert (Htk2 : forall i, In i tk2 -> In i ids2) by (intros; rewrite Hids2; apply in_or_app; auto).
  assert (Htk3 : forall i, In i tk3 -> In i ids3) by (intros; rewrite Hids3; apply in_or_app; auto).
  (* membership of R *)
  assert (HRin : forall x, In x R <->
            (In (fst x) pgids \/ In (fst x) tk2 \/ In (fst x) tk3) /\ item (fst x) = Some x).
  { intro x. rewrite HR, !in_app_iff. unfold result0. rewrite !filter_map_in. split.
    - intros [[i [Hi Hx]]|[[i [Hi Hx]]|[i [Hi Hx]]]].
      + rewrite (Hik _ _ Hx). auto.
      + rewrite (Hf2k _ _ Hx). destruct (H2 i (Htk2 i Hi)) as [_ [_ E]]. rewrite <- E. auto.
      + rewrite (Hf3k _ _ Hx). destruct (H3 i (Htk3 i Hi)) as [_ [_ [E _]]]. rewrite <- E. auto.
    - intros [[Hi|[Hi|Hi]] Hx].
      + left. eauto.
      + right. left. exists (fst x). split; auto. destruct (H2 _ (Htk2 _ Hi)) as [_ [_ E]]. rewrite E. auto.
      + right. right. exists (fst x). split; auto. destruct (H3 _ (Htk3 _ Hi)) as [_ [_ [E _]]]. rewrite E. auto. }
  assert (HRL : forall x, In x R -> In x L).
  { intros x Hx. apply HRin in Hx. destruct Hx as [Hi Hx]. apply HLin. split; auto.
    destruct Hi as [Hi|[Hi|Hi]]; [apply Hpggt; auto | apply (H2 _ (Htk2 _ Hi)) | apply (H3 _ (Htk3 _ Hi))]. }
  (* keys of R are bounded by the page when it has more *)
  assert (HRmax : hasMore = true -> forall x, In x R -> fst x <= maxID).
  { intros Hm x Hx. apply HRin in Hx. destruct Hx as [[Hi|[Hi|Hi]] _].
    - apply (ids_sorted_last_max pgids maxID Hpg (Hmax Hm)); auto.
    - destruct (H2 _ (Htk2 _ Hi)) as [_ [Hp _]]. unfold in_page in Hp. rewrite Hm in Hp.
      apply orb_false_iff in Hp. cbn in Hp. lia.
    - destruct (H3 _ (Htk3 _ Hi)) as [_ [Hp _]]. unfold in_page in Hp. rewrite Hm in Hp.
      apply orb_false_iff in Hp. cbn in Hp. lia. }
  (* R has unique keys *)
  assert (HRnd : NoDup (map fst R)).
  { rewrite HR, !map_app.
    pose proof (ids_sorted_nodup _ Hpg) as Np. pose proof (ids_sorted_nodup _ Hs2) as N2.
    pose proof (ids_sorted_nodup _ Hs3) as N3. rewrite Hids2 in N2. rewrite Hids3 in N3.
    apply NoDup_app_disjoint; [apply filter_map_keys_nodup; auto | apply NoDup_app_disjoint |].
    - apply filter_map_keys_nodup; auto. apply NoDup_app_l in N2. auto.
    - apply filter_map_keys_nodup; auto. apply NoDup_app_l in N3. auto.
    - intros k K2 K3. apply (filter_map_keys_incl f2 tk2 Hf2k) in K2. apply (filter_map_keys_incl f3 tk3 Hf3k) in K3.
      destruct (H3 _ (Htk3 _ K3)) as [_ [_ [_ Hn]]]. apply Hn. auto.
    - intros k K1 K23. apply (filter_map_keys_incl item pgids Hik) in K1.
      assert (in_page k = false) as Hp.
      { apply in_app_or in K23. destruct K23 as [K|K].
        - apply (filter_map_keys_incl f2 tk2 Hf2k) in K. apply (H2 _ (Htk2 _ K)).
        - apply (filter_map_keys_incl f3 tk3 Hf3k) in K. apply (H3 _ (Htk3 _ K)). }
      unfold in_page in Hp. apply orb_false_iff in Hp. destruct Hp as [Hp _].
      apply nmem_true_iff in K1. congruence. }
  set (S := isort N.ltb R).
  assert (HSs : nsorted S) by (apply isort_ssorted; auto).
  assert (HSin : forall x, In x S <-> In x R) by (intro; apply isort_in).
  assert (HSlen : length S = length R) by apply isort_length.
  (* an element of the listing that is in range of the page is a candidate *)
  assert (Hcand : forall x, In x L -> in_page (fst x) = false \/ In (fst x) pgids ->
            In x R \/ In (fst x) sk2 \/ In (fst x) sk3).
  { intros x Hx Hp. apply HLin in Hx. destruct Hx as [Hgt Hx].
    destruct (in_dec N.eq_dec (fst x) pgids) as [Hi|Hni].
    - left. apply HRin. auto.
    - destruct Hp as [Hp|Hp]; [|contradiction].
      destruct (in_dec N.eq_dec (fst x) ids2) as [Hi2|Hn2].
      + rewrite Hids2 in Hi2. apply in_app_or in Hi2. destruct Hi2; [left; apply HRin; auto | auto].
      + destruct (in_dec N.eq_dec (fst x) ids3) as [Hi3|Hn3].
        * rewrite Hids3 in Hi3. apply in_app_or in Hi3. destruct Hi3; [left; apply HRin; auto | auto].
        * rewrite (Hcomplete _ Hgt Hp Hn2 Hn3) in Hx. discriminate. }
  destruct (list_eq_dec N.eq_dec sk2 []) as [E2|E2]; [destruct (list_eq_dec N.eq_dec sk3 []) as [E3|E3]|].
  - (* no early exit *)
    apply (firstn_cut L S (if hasMore then Some maxID else None)); auto.
    + intro x. rewrite HSin. split.
      * intros Hx. split; auto. destruct hasMore eqn:Hm; cbn; auto. specialize (HRmax eq_refl x Hx). lia.
      * intros [Hx Hb]. destruct (Hcand x Hx) as [?|[C|C]]; auto.
        -- destruct (nmem (fst x) pgids) eqn:En; [right; apply nmem_true_iff; auto|]. left.
           unfold in_page. rewrite En. destruct hasMore; cbn in *; auto. lia.
        -- rewrite E2 in C. contradiction.
        -- rewrite E3 in C. contradiction.
    + intros Hb. destruct hasMore; [|contradiction]. specialize (Hover eq_refl).
      rewrite HSlen, HR, app_length. unfold nlen in Hover. lia.
  - (* exit in the third loop *)
    destruct Hskip3 as [C|[Hl3 Hsk3]]; [contradiction|].
    assert (Hsk2 : forall i, In i sk2 -> m < i).
    { intros i Hi. destruct Hskip2 as [C|[Hl2 Hsk2]]; [rewrite C in Hi; contradiction|].
      rewrite (Hkeep3 Hl2). auto. }
    apply (firstn_cut L S (Some m)); auto.
    + intro x. rewrite HSin. split.
      * intros Hx. split; auto. cbn. destruct Hinv2 as [M1 _]. specialize (M1 x Hx). lia.
      * intros [Hx Hb]. cbn in Hb.
        assert (Hp : in_page (fst x) = false \/ In (fst x) pgids).
        { destruct (nmem (fst x) pgids) eqn:En; [right; apply nmem_true_iff; auto|]. left.
          unfold in_page. rewrite En. destruct hasMore eqn:Hm; cbn; auto.
          destruct Hinv2 as [_ [M2 _]]. destruct M2 as [y [Hy Hym]].
          { intro C. fold R in C. unfold nlen in Hl3. fold R in Hl3. rewrite C in Hl3. cbn in Hl3. lia. }
          specialize (HRmax eq_refl y Hy). fold m in Hym. lia. }
        destruct (Hcand x Hx Hp) as [?|[C|C]]; auto.
        -- specialize (Hsk2 _ C). lia.
        -- specialize (Hsk3 _ C). fold m in Hsk3. lia.
    + intros _. rewrite HSlen. unfold nlen in Hl3. fold R in Hl3. lia.
  - (* exit in the second loop *)
    destruct Hskip2 as [C|[Hl2 Hsk2]]; [contradiction|].
    assert (Hm : m = snd r1) by (apply Hkeep3; auto).
    assert (HlR : limit <= nlen R).
    { unfold nlen in *. rewrite HR. rewrite Hres1 in Hl2. rewrite !app_length in *. lia. }
    assert (Hsk3 : forall i, In i sk3 -> m < i).
    { intros i Hi. destruct Hskip3 as [C|[_ H]]; [rewrite C in Hi; contradiction | apply H; auto]. }
    apply (firstn_cut L S (Some m)); auto.
    + intro x. rewrite HSin. split.
      * intros Hx. split; auto. cbn. destruct Hinv2 as [M1 _]. specialize (M1 x Hx). fold m in M1. lia.
      * intros [Hx Hb]. cbn in Hb.
        assert (Hp : in_page (fst x) = false \/ In (fst x) pgids).
        { destruct (nmem (fst x) pgids) eqn:En; [right; apply nmem_true_iff; auto|]. left.
          unfold in_page. rewrite En. destruct hasMore eqn:Hmo; cbn; auto.
          destruct Hinv2 as [_ [M2 _]]. destruct M2 as [y [Hy Hym]].
          { intro C. fold R in C. unfold nlen in HlR. rewrite C in HlR. cbn in HlR. lia. }
          specialize (HRmax eq_refl y Hy). fold m in Hym. lia. }
        destruct (Hcand x Hx Hp) as [?|[C|C]]; auto.
        -- specialize (Hsk2 _ C). lia.
        -- specialize (Hsk3 _ C). lia.
    + intros _. rewrite HSlen. unfold nlen in HlR. lia.
Qed.

(* ------------------------------------------------------------------------------------------ *)
(* res_page as two runs of the delta-only loop                                                *)
(* ------------------------------------------------------------------------------------------ *)
Definition rp_persisted rows crs deltas addr gt limit :=
  db_limited rows crs addr gt (res_dblimit deltas addr gt limit).
Definition rp_hasMore rows crs deltas addr gt limit :=
  negb (is_nil (rp_persisted rows crs deltas addr gt limit)) &&
  (nlen (rp_persisted rows crs deltas addr gt limit) =? res_dblimit deltas addr gt limit).
Definition rp_maxID rows crs deltas addr gt limit :=
  match last_opt (rp_persisted rows crs deltas addr gt limit) with Some pd => pr_aidx pd | None => 0 end.
Definition rp_in_page rows crs deltas addr gt limit (i : N) :=
  nmem i (map pr_aidx (rp_persisted rows crs deltas addr gt limit)) ||
  (rp_hasMore rows crs deltas addr gt limit && (rp_maxID rows crs deltas addr gt limit <? i)).
Definition rp_result0 app incl rows crs deltas addr gt limit :=
  filter_map (db_item app incl addr (walk addr gt deltas)) (rp_persisted rows crs deltas addr gt limit).
Definition rp_mx0 app incl rows crs deltas addr gt limit :=
  match last_opt (rp_result0 app incl rows crs deltas addr gt limit) with Some it => fst it | None => 0 end.
Definition rp_ids2 rows crs deltas addr gt limit :=
  sort_n (filter (fun i => negb (rp_in_page rows crs deltas addr gt limit i)) (map fst (w_dh (walk addr gt deltas)))).
Definition rp_ids3 (app : bool) rows crs deltas addr gt limit :=
  if app then
    sort_n (map fst (filter (fun e : N * (dlt * N) =>
       negb (rp_in_page rows crs deltas addr gt limit (fst e)) && negb (is_del (fst (snd e)))
       && (snd (snd e) =? addr) && negb (amem (fst e) (w_dh (walk addr gt deltas)))) (w_dp (walk addr gt deltas))))
  else [].

Lemma res_page_shape : forall app incl rows crs deltas addr gt limit, limit <> 0 ->
  let w := walk addr gt deltas in
  let r1 := delta_loop (delta_item app incl rows crs addr w) limit (rp_ids2 rows crs deltas addr gt limit)
                       (rp_result0 app incl rows crs deltas addr gt limit) (rp_mx0 app incl rows crs deltas addr gt limit) in
  let r2 := delta_loop (creator_item incl w) limit (rp_ids3 app rows crs deltas addr gt limit) (fst r1) (snd r1) in
  res_page app incl rows crs deltas addr gt limit = firstn (N.to_nat limit) (isort N.ltb (fst r2)).
Proof.
  intros app incl rows crs deltas addr gt limit Hl w r1 r2.
  unfold res_page. assert (limit =? 0 = false) as -> by lia. cbv zeta.
  subst r2 r1 w.
  unfold rp_ids3, rp_ids2, rp_in_page, rp_mx0, rp_result0, rp_maxID, rp_hasMore, rp_persisted.
  destruct app.
  - match goal with |- (let '(x, y) := ?d in _) = _ => destruct d as [result1 mx1] end. cbn [fst snd].
    match goal with |- (let '(x, y) := ?d in _) = _ => destruct d as [result2 mx2] end. reflexivity.
  - match goal with |- (let '(x, y) := ?d in _) = _ => destruct d as [result1 mx1] end. reflexivity.
Qed.

(* ------------------------------------------------------------------------------------------ *)
(* well-formed worlds                                                                         *)
(* ------------------------------------------------------------------------------------------ *)
(* What the tracker database and the evaluator's deltas guarantee:
   - (address, creatable) is the primary key of the resources table, no row is empty, and for
     assets the account that has the params also has a holding ("a creator must have a holding");
   - assetcreators has creatable i ↦ c exactly when c's row for i carries the params;
   - a creatable has one creator for all time ([owner]): params only ever live at that address,
     in the database and in every delta record; no zero address.                               *)
Record res_wf (app : bool) (rows : list dbrow) (crs : list (N * N)) (flat : list rrec)
       (owner : N -> N) : Prop := mkWf {
  wf_key : NoDup (map (fun r => (rw_addr r, rw_aidx r)) rows);
  wf_nonempty : forall r, In r rows -> rw_hold r <> None \/ rw_par r <> None;
  wf_asset_hold : app = false -> forall r, In r rows -> rw_hold r <> None;
  wf_crs : forall i c, alookup i crs = Some c <->
                       exists r, find_row rows c i = Some r /\ rw_par r <> None;
  wf_owner_db : forall r, In r rows -> rw_par r <> None -> rw_addr r = owner (rw_aidx r);
  wf_owner_delta : forall r, In r flat -> affects (rc_par r) = true -> rc_addr r = owner (rc_aidx r);
  wf_nz_db : forall r, In r rows -> rw_addr r <> 0;
  wf_nz_delta : forall r, In r flat -> rc_addr r <> 0
}.

Lemma find_row_some : forall rows a i r, find_row rows a i = Some r ->
  In r rows /\ rw_addr r = a /\ rw_aidx r = i.
Proof.
  intros rows a i r H. unfold find_row in H. apply find_some in H. destruct H as [Hin H].
  apply andb_true_iff in H. destruct H as [H1 H2]. apply N.eqb_eq in H1, H2. auto.
Qed.

Lemma find_row_none : forall rows a i, find_row rows a i = None ->
  forall r, In r rows -> ~ (rw_addr r = a /\ rw_aidx r = i).
Proof.
  intros rows a i H r Hin [H1 H2]. unfold find_row in H.
  pose proof (find_none _ _ H r Hin) as Hn. cbn in Hn. rewrite H1, H2, !N.eqb_refl in Hn. discriminate.
Qed.

Lemma find_row_in : forall rows r, NoDup (map (fun r => (rw_addr r, rw_aidx r)) rows) -> In r rows ->
  find_row rows (rw_addr r) (rw_aidx r) = Some r.
Proof.
  induction rows as [|x t IH]; intros r Hnd Hin; [contradiction|].
  cbn in Hnd. inversion Hnd; subst. unfold find_row. cbn [find].
  destruct Hin as [->|Hin].
  - rewrite !N.eqb_refl. auto.
  - destruct ((rw_addr x =? rw_addr r) && (rw_aidx x =? rw_aidx r)) eqn:E.
    + apply andb_true_iff in E. destruct E as [E1 E2]. apply N.eqb_eq in E1, E2.
      exfalso. apply H1. apply in_map_iff. exists r. rewrite E1, E2. auto.
    + apply IH; auto.
Qed.

Lemma find_ext_in {A} (f g : A -> bool) (l : list A) :
  (forall x, In x l -> f x = g x) -> find f l = find g l.
Proof.
  induction l as [|x t IH]; cbn; auto. intro H. rewrite (H x (or_introl eq_refl)).
  destruct (g x); auto.
Qed.

Section World.
  Variables (app incl : bool) (rows : list dbrow) (crs : list (N * N)) (deltas : list (list rrec))
            (owner : N -> N) (addr gt : N).
  Let flat := r_flat deltas.
  Hypothesis Hwf : res_wf app rows crs flat owner.
  Hypothesis Haddr : addr <> 0.
  Let w := walk addr gt deltas.

  Lemma dh_char : forall i, gt < i -> alookup i (w_dh w) = latest_hold flat addr i.
  Proof.
    intros i Hi. unfold w. rewrite walk_flat, walk_fold_dh. cbn [w0 w_dh alookup].
    assert (gt <? i = true) as -> by lia. reflexivity.
  Qed.

  Lemma dh_affects : forall i d, alookup i (w_dh w) = Some d -> gt < i /\ affects d = true.
  Proof.
    intros i d H. unfold w in H. rewrite walk_flat, walk_fold_dh in H. cbn [w0 w_dh alookup] in H.
    destruct (gt <? i) eqn:E; [|discriminate]. split; [lia|].
    destruct (find (hold_match addr i) (r_flat deltas)) eqn:Ef; [|discriminate].
    cbn in H. inversion H; subst. apply find_some in Ef. destruct Ef as [_ Ef].
    unfold hold_match in Ef. apply andb_true_iff in Ef. tauto.
  Qed.

  Lemma dp_char : forall i, gt < i ->
    match alookup i (w_dp w) with
    | Some (d, c) => c = owner i /\ latest_par flat (owner i) i = Some d /\ affects d = true
    | None => latest_par flat (owner i) i = None
    end.
  Proof.
    intros i Hi. unfold w. rewrite walk_flat, walk_fold_dp. cbn [w0 w_dp alookup].
    assert (gt <? i = true) as -> by lia.
    assert (Hext : find (par_match i) (r_flat deltas) =
                   find (fun r => (rc_addr r =? owner i) && (rc_aidx r =? i) && affects (rc_par r)) (r_flat deltas)).
    { apply find_ext_in. intros r Hr. unfold par_match.
      destruct ((rc_aidx r =? i) && affects (rc_par r)) eqn:E.
      - apply andb_true_iff in E. destruct E as [E1 E2]. apply N.eqb_eq in E1.
        rewrite (wf_owner_delta _ _ _ _ _ Hwf r Hr E2), E1, !N.eqb_refl, E2. auto.
      - destruct (rc_aidx r =? i); cbn in *; [rewrite E, andb_false_r; auto | rewrite andb_false_r; auto]. }
    unfold latest_par. fold flat in Hext |- *. rewrite <- Hext.
    destruct (find (par_match i) flat) as [r|] eqn:Ef; cbn; auto.
    apply find_some in Ef. destruct Ef as [Hin Ef]. unfold par_match in Ef.
    apply andb_true_iff in Ef. destruct Ef as [E1 E2]. apply N.eqb_eq in E1.
    rewrite (wf_owner_delta _ _ _ _ _ Hwf r Hin E2), E1. auto.
  Qed.

  Lemma dp_gt : forall i x, alookup i (w_dp w) = Some x -> gt < i.
  Proof.
    intros i x H. unfold w in H. rewrite walk_flat, walk_fold_dp in H. cbn [w0 w_dp alookup] in H.
    destruct (gt <? i) eqn:E; [lia | discriminate].
  Qed.

  Lemma walk_inv : nd_inv w /\ NoDup (map fst (w_dh w)) /\ NoDup (map fst (w_dp w)).
  Proof.
    unfold w. rewrite walk_flat. apply walk_fold_inv; cbn; try constructor.
  Qed.

  (* params of any address other than the owner: none *)
  Lemma w_par_other : forall a i, a <> owner i -> w_par rows flat a i = None.
  Proof.
    intros a i Ha. unfold w_par, latest_par, db_par.
    destruct (find _ flat) as [r|] eqn:Ef.
    - exfalso. apply find_some in Ef. destruct Ef as [Hin Ef].
      apply andb_true_iff in Ef. destruct Ef as [Ef E3]. apply andb_true_iff in Ef. destruct Ef as [E1 E2].
      apply N.eqb_eq in E1, E2. apply Ha. rewrite <- E1, <- E2. apply (wf_owner_delta _ _ _ _ _ Hwf); auto.
    - cbn. destruct (find_row rows a i) as [r|] eqn:Er; auto.
      destruct (rw_par r) eqn:Ep; auto. exfalso.
      apply find_row_some in Er. destruct Er as [Hin [E1 E2]].
      apply Ha. rewrite <- E1, <- E2. apply (wf_owner_db _ _ _ _ _ Hwf); auto. congruence.
  Qed.

  Lemma w_par_addr_in : forall a i p, w_par rows flat a i = Some p ->
    In a (map rw_addr rows ++ map rc_addr flat).
  Proof.
    intros a i p H. unfold w_par, latest_par, db_par in H. apply in_or_app.
    destruct (find _ flat) as [r|] eqn:Ef.
    - right. apply find_some in Ef. destruct Ef as [Hin Ef].
      apply andb_true_iff in Ef. destruct Ef as [Ef _]. apply andb_true_iff in Ef. destruct Ef as [E1 _].
      apply N.eqb_eq in E1. rewrite <- E1. apply in_map; auto.
    - left. cbn in H. destruct (find_row rows a i) as [r|] eqn:Er; [|discriminate].
      apply find_row_some in Er. destruct Er as [Hin [E1 _]]. rewrite <- E1. apply in_map; auto.
  Qed.

  Lemma first_creator_char : forall i l,
    first_creator rows flat i l =
    match w_par rows flat (owner i) i with
    | Some p => if nmem (owner i) l then Some (owner i, p) else None
    | None => None
    end.
  Proof.
    intros i l. induction l as [|a t IH]; cbn [first_creator nmem].
    - destruct (w_par rows flat (owner i) i); auto.
    - destruct (N.eq_dec a (owner i)) as [->|Hne].
      + rewrite N.eqb_refl. cbn. destruct (w_par rows flat (owner i) i); auto.
      + rewrite (w_par_other a i Hne), IH. assert (owner i =? a = false) as -> by lia. auto.
  Qed.

  Lemma w_creator_char : forall i,
    w_creator rows flat i =
    match w_par rows flat (owner i) i with Some p => Some (owner i, p) | None => None end.
  Proof.
    intro i. unfold w_creator. rewrite first_creator_char.
    destruct (w_par rows flat (owner i) i) eqn:E; auto.
    apply w_par_addr_in in E. apply nmem_true_iff in E. rewrite E. auto.
  Qed.

  (* the owner is never the zero address when it has params *)
  Lemma owner_nz : forall i p, w_par rows flat (owner i) i = Some p -> owner i <> 0.
  Proof.
    intros i p H. apply w_par_addr_in in H. apply in_app_or in H. destruct H as [H|H].
    - apply in_map_iff in H. destruct H as [r [E Hin]]. rewrite <- E. apply (wf_nz_db _ _ _ _ _ Hwf); auto.
    - apply in_map_iff in H. destruct H as [r [E Hin]]. rewrite <- E. apply (wf_nz_delta _ _ _ _ _ Hwf); auto.
  Qed.

  (* creator and params as the world has them *)
  Definition cp_world (i : N) : N * option N :=
    match w_par rows flat (owner i) i with
    | Some p => (owner i, par_out app incl (Some p))
    | None => (0, None)
    end.

  Lemma res_item_cp : forall i,
    res_item app incl rows flat addr i =
    let hold := w_hold rows flat addr i in
    if member app addr hold (fst (cp_world i)) then Some (i, (hold, fst (cp_world i), snd (cp_world i))) else None.
  Proof.
    intro i. unfold res_item, cp_world. rewrite w_creator_char.
    destruct (w_par rows flat (owner i) i); auto.
  Qed.

  (* the database's creator table agrees with the database's params *)
  Lemma crs_some : forall i c, alookup i crs = Some c ->
    c = owner i /\ exists r p, find_row rows c i = Some r /\ rw_par r = Some p.
  Proof.
    intros i c H. apply (wf_crs _ _ _ _ _ Hwf) in H. destruct H as [r [Hf Hp]].
    pose proof (find_row_some _ _ _ _ Hf) as [Hin [E1 E2]].
    split.
    - rewrite <- E1, <- E2. apply (wf_owner_db _ _ _ _ _ Hwf); auto.
    - destruct (rw_par r) eqn:E; [|contradiction]. eauto.
  Qed.

  Lemma crs_none : forall i, alookup i crs = None -> db_par rows (owner i) i = None.
  Proof.
    intros i H. unfold db_par. destruct (find_row rows (owner i) i) as [r|] eqn:Er; auto.
    destruct (rw_par r) eqn:Ep; auto. exfalso.
    assert (alookup i crs = Some (owner i)) as C.
    { apply (wf_crs _ _ _ _ _ Hwf). exists r. split; auto. congruence. }
    congruence.
  Qed.

  (* ---------------------------------------------------------------------------------------- *)
  (* the items computed by the three loops are the world's items                              *)
  (* ---------------------------------------------------------------------------------------- *)
  Lemma hold_db_row : forall i r, gt < i -> find_row rows addr i = Some r ->
    w_hold rows flat addr i =
    match alookup i (w_dh w) with Some DDel => None | Some (DSet h) => Some h | _ => rw_hold r end.
  Proof.
    intros i r Hi Hr. unfold w_hold, db_hold. rewrite Hr, <- (dh_char i Hi).
    destruct (alookup i (w_dh w)) as [[| |h]|]; auto.
  Qed.

  Lemma hold_no_row : forall i, gt < i -> find_row rows addr i = None ->
    w_hold rows flat addr i = match alookup i (w_dh w) with Some (DSet h) => Some h | _ => None end.
  Proof.
    intros i Hi Hr. unfold w_hold, db_hold. rewrite Hr, <- (dh_char i Hi).
    destruct (alookup i (w_dh w)) as [[| |h]|]; auto.
  Qed.

  (* creator/params when the params are in the deltas *)
  Lemma cp_delta : forall i d c, alookup i (w_dp w) = Some (d, c) ->
    cp_world i = match d with DSet p => (c, par_out app incl (Some p)) | _ => (0, None) end.
  Proof.
    intros i d c H. pose proof (dp_char i (dp_gt i _ H)) as Hc. rewrite H in Hc.
    destruct Hc as [-> [Hl Ha]]. unfold cp_world, w_par. rewrite Hl.
    destruct d; cbn in *; auto. discriminate.
  Qed.

  (* creator/params when the deltas do not mention the params *)
  Lemma cp_db : forall i, gt < i -> alookup i (w_dp w) = None ->
    cp_world i = match alookup i crs with
                 | Some c => (c, par_out app incl (db_par rows c i))
                 | None => (0, None)
                 end.
  Proof.
    intros i Hi H. pose proof (dp_char i Hi) as Hc. rewrite H in Hc.
    unfold cp_world, w_par. rewrite Hc. cbn [dlt_apply].
    destruct (alookup i crs) as [c|] eqn:Ec.
    - destruct (crs_some i c Ec) as [-> [r [p [Hf Hp]]]]. unfold db_par. rewrite Hf, Hp. auto.
    - rewrite (crs_none i Ec). auto.
  Qed.

  Lemma db_item_ok : forall r, In r rows -> rw_addr r = addr -> gt < rw_aidx r ->
    db_item app incl addr w (db_join rows crs r) = res_item app incl rows flat addr (rw_aidx r).
  Proof.
    intros r Hin Ha Hi. set (i := rw_aidx r).
    assert (Hr : find_row rows addr i = Some r).
    { rewrite <- Ha. apply find_row_in; auto. apply (wf_key _ _ _ _ _ Hwf). }
    rewrite res_item_cp. cbv zeta. rewrite (hold_db_row i r Hi Hr).
    assert (Hpd : pr_aidx (db_join rows crs r) = i /\ pr_hold (db_join rows crs r) = rw_hold r).
    { unfold db_join. fold i. destruct (alookup i crs); [destruct (find_row rows n i)|]; auto. }
    destruct Hpd as [Hpi Hph]. unfold db_item. rewrite Hpi, Hph.
    assert (Hcp : cp_world i =
                  match alookup i (w_dp w) with
                  | Some (DDel, _) => (0, None)
                  | Some (DSet p, c) => (c, par_out app incl (Some p))
                  | _ => if negb (pr_creator (db_join rows crs r) =? 0)
                         then (pr_creator (db_join rows crs r), par_out app incl (Some (pr_par (db_join rows crs r))))
                         else (0, None)
                  end).
    { destruct (alookup i (w_dp w)) as [[d c]|] eqn:Ed.
      - rewrite (cp_delta i d c Ed). destruct d; auto.
        pose proof (dp_char i Hi) as Hc. rewrite Ed in Hc. destruct Hc as [_ [_ Hc]]. discriminate.
      - rewrite (cp_db i Hi Ed). unfold db_join. fold i.
        destruct (alookup i crs) as [c|] eqn:Ec; auto.
        destruct (crs_some i c Ec) as [Hc [cr [p [Hf Hp]]]]. rewrite Hf. cbn [pr_creator pr_par].
        rewrite Hp. unfold db_par. rewrite Hf, Hp.
        assert (c <> 0).
        { pose proof (find_row_some _ _ _ _ Hf) as [Hinc [E1 _]]. rewrite <- E1. apply (wf_nz_db _ _ _ _ _ Hwf); auto. }
        assert (c =? 0 = false) as -> by lia. auto. }
    rewrite <- Hcp. reflexivity.
  Qed.

  Lemma delta_item_ok : forall i, gt < i -> find_row rows addr i = None ->
    delta_item app incl rows crs addr w i = res_item app incl rows flat addr i.
  Proof.
    intros i Hi Hr. rewrite res_item_cp. cbv zeta. rewrite (hold_no_row i Hi Hr).
    unfold delta_item.
    assert (Hcp : cp_world i =
                  match alookup i (w_dp w) with
                  | Some (DDel, _) => (0, None)
                  | Some (DSet p, c) => (c, par_out app incl (Some p))
                  | Some (DNone, c) => (c, None)
                  | None => match alookup i crs with
                            | Some c => (c, if app && negb incl then None
                                            else match find_row rows c i with Some cr => rw_par cr | None => None end)
                            | None => (0, None)
                            end
                  end).
    { destruct (alookup i (w_dp w)) as [[d c]|] eqn:Ed.
      - rewrite (cp_delta i d c Ed). destruct d; auto.
        pose proof (dp_char i Hi) as Hc. rewrite Ed in Hc. destruct Hc as [_ [_ Hc]]. discriminate.
      - rewrite (cp_db i Hi Ed). destruct (alookup i crs) as [c|]; auto. }
    rewrite <- Hcp. reflexivity.
  Qed.

  Lemma creator_item_ok : forall i d, app = true -> find_row rows addr i = None ->
    alookup i (w_dh w) = None -> alookup i (w_dp w) = Some (d, addr) -> is_del d = false ->
    creator_item incl w i = res_item app incl rows flat addr i.
  Proof.
    intros i d Happ Hr Hh Hp Hd. pose proof (dp_gt i _ Hp) as Hi.
    rewrite res_item_cp. cbv zeta. rewrite (hold_no_row i Hi Hr), Hh.
    rewrite (cp_delta i d addr Hp). unfold creator_item. rewrite Hp.
    pose proof (dp_char i Hi) as Hc. rewrite Hp in Hc. destruct Hc as [_ [_ Ha]].
    destruct d as [| |p]; try discriminate. cbn [fst snd]. unfold member. rewrite Happ.
    rewrite N.eqb_refl. cbn. unfold par_out. cbn. destruct incl; auto.
  Qed.

  Lemma no_item : forall i, gt < i -> find_row rows addr i = None -> alookup i (w_dh w) = None ->
    (app = true -> forall d, alookup i (w_dp w) = Some (d, addr) -> is_del d = true) ->
    res_item app incl rows flat addr i = None.
  Proof.
    intros i Hi Hr Hh Hp. rewrite res_item_cp. cbv zeta. rewrite (hold_no_row i Hi Hr), Hh.
    unfold member. destruct (bool_dec app true) as [Happ|Happ];
      [rewrite Happ | apply not_true_is_false in Happ; rewrite Happ; reflexivity].
    cbn [is_some orb].
    destruct (fst (cp_world i) =? addr) eqn:E; auto. exfalso. apply N.eqb_eq in E.
    destruct (alookup i (w_dp w)) as [[d c]|] eqn:Ed.
    - rewrite (cp_delta i d c Ed) in E. destruct d; cbn in E; try congruence.
      subst c. specialize (Hp Happ _ eq_refl). discriminate.
    - rewrite (cp_db i Hi Ed) in E. destruct (alookup i crs) as [c|] eqn:Ec; cbn in E; [|congruence].
      subst c. destruct (crs_some i addr Ec) as [_ [r [p [Hf _]]]]. congruence.
  Qed.

  (* a database row of addr that drops out of the result was deleted in the deltas *)
  Lemma dropped_deleted : forall r, In r rows -> rw_addr r = addr -> gt < rw_aidx r ->
    db_item app incl addr w (db_join rows crs r) = None ->
    alookup (rw_aidx r) (w_dh w) = Some DDel \/ exists c, alookup (rw_aidx r) (w_dp w) = Some (DDel, c).
  Proof.
    intros r Hin Ha Hi Hnone. rewrite (db_item_ok r Hin Ha Hi) in Hnone. set (i := rw_aidx r) in *.
    assert (Hr : find_row rows addr i = Some r).
    { rewrite <- Ha. apply find_row_in; auto. apply (wf_key _ _ _ _ _ Hwf). }
    rewrite res_item_cp in Hnone. cbv zeta in Hnone. rewrite (hold_db_row i r Hi Hr) in Hnone.
    destruct (alookup i (w_dh w)) as [dh|] eqn:Edh.
    - destruct dh as [| |h]; auto.
      + apply dh_affects in Edh. destruct Edh as [_ C]. discriminate.
      + exfalso. unfold member in Hnone. destruct (bool_dec app true) as [Happ|Happ];
          [rewrite Happ in Hnone | apply not_true_is_false in Happ; rewrite Happ in Hnone]; cbn in Hnone; discriminate.
    - (* holding untouched by the deltas *)
      destruct (rw_hold r) as [h|] eqn:Eh.
      { exfalso. unfold member in Hnone. destruct (bool_dec app true) as [Happ|Happ];
          [rewrite Happ in Hnone | apply not_true_is_false in Happ; rewrite Happ in Hnone]; cbn in Hnone; discriminate. }
      destruct (bool_dec app true) as [Happ|Happ].
      2:{ exfalso. apply not_true_is_false in Happ. apply (wf_asset_hold _ _ _ _ _ Hwf Happ r Hin). auto. }
      (* app: the row has only params, so addr is the creator in the database *)
      destruct (wf_nonempty _ _ _ _ _ Hwf r Hin) as [C|Hpar]; [congruence|].
      assert (Hown : owner i = addr) by (rewrite <- Ha; symmetry; apply (wf_owner_db _ _ _ _ _ Hwf); auto).
      right. unfold member in Hnone. rewrite Happ in Hnone. cbn [is_some orb] in Hnone.
      destruct (alookup i (w_dp w)) as [[d c]|] eqn:Ed.
      + rewrite (cp_delta i d c Ed) in Hnone. destruct d as [| |p].
        * pose proof (dp_char i Hi) as Hc. rewrite Ed in Hc. destruct Hc as [_ [_ Hc]]. discriminate.
        * eauto.
        * exfalso. pose proof (dp_char i Hi) as Hc. rewrite Ed in Hc. destruct Hc as [Hc _].
          cbn [fst] in Hnone. rewrite Hc, Hown, N.eqb_refl in Hnone. discriminate.
      + exfalso. rewrite (cp_db i Hi Ed) in Hnone.
        assert (alookup i crs = Some addr) as Ec.
        { apply (wf_crs _ _ _ _ _ Hwf). exists r. split; auto. }
        rewrite Ec in Hnone. cbn [fst] in Hnone. rewrite N.eqb_refl in Hnone. discriminate.
  Qed.

  (* ---------------------------------------------------------------------------------------- *)
  (* the listing                                                                              *)
  (* ---------------------------------------------------------------------------------------- *)
  Definition r_item := res_item app incl rows flat addr.
  Definition r_L := res_listing app incl rows deltas addr gt.

  Lemma r_item_key : forall i x, r_item i = Some x -> fst x = i.
  Proof.
    intros i x H. unfold r_item, res_item in H.
    destruct (member app addr _ _); inversion H; auto.
  Qed.

  Lemma r_item_in_ids : forall i x, r_item i = Some x -> In i (map rw_aidx rows ++ map rc_aidx flat).
  Proof.
    intros i x H.
    destruct (in_dec N.eq_dec i (map rw_aidx rows ++ map rc_aidx flat)) as [|Hn]; auto. exfalso.
    assert (Hrow : forall a, find_row rows a i = None).
    { intro a. destruct (find_row rows a i) as [r|] eqn:E; auto. exfalso. apply Hn.
      apply find_row_some in E. destruct E as [Hin [_ E]]. apply in_or_app. left. rewrite <- E. apply in_map; auto. }
    assert (Hfl : forall f, find (fun r => f r && (rc_aidx r =? i)) flat = None).
    { intro f. destruct (find _ flat) as [r|] eqn:E; auto. exfalso. apply Hn.
      apply find_some in E. destruct E as [Hin E]. apply andb_true_iff in E. destruct E as [_ E].
      apply N.eqb_eq in E. apply in_or_app. right. rewrite <- E. apply in_map; auto. }
    assert (Hh : forall a, w_hold rows flat a i = None).
    { intro a. unfold w_hold, latest_hold, db_hold. rewrite Hrow.
      rewrite (find_ext_in _ (fun r => ((rc_addr r =? a) && affects (rc_hold r)) && (rc_aidx r =? i))).
      - rewrite Hfl. auto.
      - intros r _. destruct (rc_addr r =? a), (rc_aidx r =? i), (affects (rc_hold r)); auto. }
    assert (Hp : forall a, w_par rows flat a i = None).
    { intro a. unfold w_par, latest_par, db_par. rewrite Hrow.
      rewrite (find_ext_in _ (fun r => ((rc_addr r =? a) && affects (rc_par r)) && (rc_aidx r =? i))).
      - rewrite Hfl. auto.
      - intros r _. destruct (rc_addr r =? a), (rc_aidx r =? i), (affects (rc_par r)); auto. }
    assert (Hc : forall l, first_creator rows flat i l = None).
    { induction l as [|a t IH]; cbn; auto. rewrite Hp. auto. }
    unfold r_item, res_item, w_creator in H. rewrite Hh, Hc in H. cbn [fst snd] in H.
    unfold member in H. assert (0 =? addr = false) as E0 by lia. rewrite E0 in H.
    destruct (bool_dec app true) as [Happ|Happ];
      [rewrite Happ in H | apply not_true_is_false in Happ; rewrite Happ in H]; cbn in H; discriminate.
  Qed.

  Lemma r_L_sorted : nsorted r_L.
  Proof.
    unfold r_L, res_listing. apply filter_map_ids_sorted; [apply usort_n_sorted|].
    intros k x H. apply (r_item_key k x H).
  Qed.

  Lemma r_L_in : forall x, In x r_L <-> gt < fst x /\ r_item (fst x) = Some x.
  Proof.
    intro x. unfold r_L, res_listing. rewrite filter_map_in. fold flat. fold r_item. split.
    - intros [i [Hi Hx]]. rewrite (r_item_key _ _ Hx). apply (proj1 (usort_n_in _ _)) in Hi. apply filter_In in Hi.
      destruct Hi as [_ Hi]. split; [lia | auto].
    - intros [Hgt Hx]. exists (fst x). split; auto. apply (proj2 (usort_n_in _ _)). apply filter_In.
      split; [apply (r_item_in_ids _ _ Hx) | lia].
  Qed.

  (* ---------------------------------------------------------------------------------------- *)
  (* the database page                                                                        *)
  (* ---------------------------------------------------------------------------------------- *)
  Definition r_mine := filter (fun r => (rw_addr r =? addr) && (gt <? rw_aidx r)) rows.
  Definition r_full := map snd (isort N.ltb (map (fun r => (rw_aidx r, r)) r_mine)).

  Lemma r_full_in : forall r, In r r_full <-> In r rows /\ rw_addr r = addr /\ gt < rw_aidx r.
  Proof.
    intro r. unfold r_full. rewrite in_map_iff. split.
    - intros [[k r'] [E Hin]]. cbn in E; subst r'. apply (proj1 (isort_in N.ltb _ _)) in Hin.
      apply in_map_iff in Hin. destruct Hin as [r' [E Hin]]. inversion E; subst.
      apply filter_In in Hin. destruct Hin as [Hin Hc]. apply andb_true_iff in Hc. destruct Hc as [C1 C2].
      apply N.eqb_eq in C1. repeat split; auto. lia.
    - intros [Hin [Ha Hg]]. exists (rw_aidx r, r). split; auto. apply (proj2 (isort_in N.ltb _ _)).
      apply in_map_iff. exists r. split; auto. apply filter_In. split; auto.
      rewrite Ha, N.eqb_refl. cbn. lia.
  Qed.

  Lemma NoDup_map_inj_on {A B C} (f : A -> B) (g : A -> C) (l : list A) :
    NoDup (map f l) -> (forall x y, In x l -> In y l -> g x = g y -> f x = f y) -> NoDup (map g l).
  Proof.
    induction l as [|x t IH]; cbn; intros Hn Hinj; [constructor|]. inversion Hn; subst.
    constructor.
    - intro Hin. apply in_map_iff in Hin. destruct Hin as [y [E Hy]]. apply H1.
      rewrite (Hinj x y); auto. apply in_map; auto.
    - apply IH; auto.
  Qed.

  Lemma r_full_sorted : ids_sorted (map rw_aidx r_full).
  Proof.
    unfold r_full. set (P := isort N.ltb (map (fun r => (rw_aidx r, r)) r_mine)).
    assert (Hs : ssorted N.ltb P).
    { apply isort_ssorted; auto. rewrite map_map. cbn.
      apply (NoDup_map_inj_on (fun r => (rw_addr r, rw_aidx r))).
      - apply NoDup_map_filter. apply (wf_key _ _ _ _ _ Hwf).
      - intros x y Hx Hy E. apply filter_In in Hx, Hy. destruct Hx as [_ Hx]. destruct Hy as [_ Hy].
        apply andb_true_iff in Hx, Hy. destruct Hx as [Hx _]. destruct Hy as [Hy _].
        apply N.eqb_eq in Hx, Hy. congruence. }
    assert (Hk : forall x, In x P -> fst x = rw_aidx (snd x)).
    { intros x Hx. apply (proj1 (isort_in N.ltb _ _)) in Hx. apply in_map_iff in Hx.
      destruct Hx as [r [<- _]]. auto. }
    clearbody P. induction Hs as [|x t Hs IH Hall]; cbn; constructor.
    - apply IH. intros; apply Hk; right; auto.
    - apply Forall_forall. intros j Hj. rewrite map_map in Hj. apply in_map_iff in Hj.
      destruct Hj as [y [<- Hy]]. rewrite Forall_forall in Hall. specialize (Hall y Hy).
      unfold klt in Hall. apply N.ltb_lt in Hall.
      rewrite (Hk x (or_introl eq_refl)), (Hk y (or_intror Hy)) in Hall. auto.
  Qed.

  Lemma db_join_aidx : forall r, pr_aidx (db_join rows crs r) = rw_aidx r.
  Proof. intro r. unfold db_join. destruct (alookup _ crs); [destruct (find_row rows _ _)|]; auto. Qed.

  (* ---------------------------------------------------------------------------------------- *)
  (* the page                                                                                 *)
  (* ---------------------------------------------------------------------------------------- *)
  Variable limit : N.
  Hypothesis Hlim : 1 <= limit.
  Hypothesis Hnowrap : limit + w_nd w < 2 ^ 63.

  Let dbLimit := limit + w_nd w.
  Let pg := firstn (N.to_nat dbLimit) r_full.
  Let pgids := map rw_aidx pg.

  Lemma dblimit_eq : res_dblimit deltas addr gt limit = dbLimit.
  Proof. unfold res_dblimit, dbLimit. fold w. apply N.mod_small. lia. Qed.

  Lemma persisted_eq : rp_persisted rows crs deltas addr gt limit = map (db_join rows crs) pg.
  Proof.
    unfold rp_persisted. rewrite dblimit_eq. unfold db_limited, sql_limit.
    assert (2 ^ 63 <=? dbLimit = false) as -> by (unfold dbLimit; lia).
    fold r_mine. fold r_full. unfold pg. apply firstn_map.
  Qed.

  Lemma seen_eq : map pr_aidx (rp_persisted rows crs deltas addr gt limit) = pgids.
  Proof.
    rewrite persisted_eq, map_map. unfold pgids. apply map_ext. apply db_join_aidx.
  Qed.

  Lemma pg_in : forall r, In r pg -> In r rows /\ rw_addr r = addr /\ gt < rw_aidx r.
  Proof.
    intros r H. apply r_full_in. unfold pg in H. rewrite <- (firstn_skipn (N.to_nat dbLimit) r_full).
    apply in_or_app. auto.
  Qed.

  Lemma pgids_sorted : ids_sorted pgids.
  Proof.
    pose proof r_full_sorted as H. rewrite <- (firstn_skipn (N.to_nat dbLimit) r_full), map_app in H.
    apply ids_sorted_app_inv in H. apply H.
  Qed.

  Lemma last_opt_map {A B} (f : A -> B) (l : list A) : last_opt (map f l) = option_map f (last_opt l).
  Proof.
    induction l as [|x t IH]; cbn; auto. destruct t; cbn in *; auto.
  Qed.

  Lemma hasMore_true : rp_hasMore rows crs deltas addr gt limit = true ->
    pg <> [] /\ length pg = N.to_nat dbLimit /\
    last_opt pgids = Some (rp_maxID rows crs deltas addr gt limit).
  Proof.
    unfold rp_hasMore, rp_maxID. rewrite dblimit_eq, persisted_eq. intro H.
    apply andb_true_iff in H. destruct H as [H1 H2]. apply N.eqb_eq in H2.
    unfold nlen in H2. rewrite map_length in H2.
    assert (pg <> []) as Hne by (intro C; rewrite C in H1; discriminate).
    repeat split; auto; [lia|].
    unfold pgids. rewrite !last_opt_map. destruct (last_opt pg) eqn:E; cbn.
    - rewrite db_join_aidx. auto.
    - apply last_opt_none in E. contradiction.
  Qed.

  Lemma hasMore_false : rp_hasMore rows crs deltas addr gt limit = false -> pg = r_full.
  Proof.
    unfold rp_hasMore. rewrite dblimit_eq, persisted_eq. intro H.
    unfold nlen in H. rewrite map_length in H.
    assert (Hn : (1 <= N.to_nat dbLimit)%nat) by (unfold dbLimit; lia).
    unfold pg in *. apply andb_false_iff in H. destruct H as [H|H].
    - apply negb_false_iff in H. destruct (firstn (N.to_nat dbLimit) r_full) eqn:E; [|discriminate].
      destruct r_full; auto. destruct (N.to_nat dbLimit); [lia | discriminate].
    - apply N.eqb_neq in H. apply firstn_all2. rewrite firstn_length in H. lia.
  Qed.

  (* an id that is not "in the page" has no database row for addr *)
  Lemma not_in_page_no_row : forall i, gt < i -> rp_in_page rows crs deltas addr gt limit i = false ->
    find_row rows addr i = None.
  Proof.
    intros i Hi Hp. unfold rp_in_page in Hp. rewrite seen_eq in Hp. apply orb_false_iff in Hp. destruct Hp as [Hs Hm].
    destruct (find_row rows addr i) as [r|] eqn:Er; auto. exfalso.
    apply find_row_some in Er. destruct Er as [Hin [Ha Hx]].
    assert (Hf : In r r_full) by (apply r_full_in; repeat split; auto; lia).
    rewrite <- (firstn_skipn (N.to_nat dbLimit) r_full) in Hf. fold pg in Hf.
    apply in_app_or in Hf. destruct Hf as [Hf|Hf].
    - assert (nmem i pgids = true); [|congruence]. apply nmem_true_iff. unfold pgids. rewrite <- Hx. apply in_map; auto.
    - destruct (rp_hasMore rows crs deltas addr gt limit) eqn:Hh.
      + destruct (hasMore_true Hh) as [_ [_ Hl]]. cbn in Hm.
        pose proof r_full_sorted as Hsrt.
        rewrite <- (firstn_skipn (N.to_nat dbLimit) r_full), map_app in Hsrt. fold pg in Hsrt. fold pgids in Hsrt.
        apply ids_sorted_app_inv in Hsrt. destruct Hsrt as [_ [_ C]].
        apply last_opt_split in Hl. destruct Hl as [l' Hl].
        specialize (C (rp_maxID rows crs deltas addr gt limit) i).
        assert (rp_maxID rows crs deltas addr gt limit < i); [|lia].
        apply C; [rewrite Hl; apply in_or_app; right; left; auto | rewrite <- Hx; apply in_map; auto].
      + pose proof (hasMore_false Hh) as E. unfold pg in E.
        pose proof (firstn_skipn (N.to_nat dbLimit) r_full) as E2. rewrite E in E2.
        pose proof (f_equal (@length _) E2) as E3. rewrite app_length in E3.
        destruct (skipn (N.to_nat dbLimit) r_full); [contradiction | cbn in E3; lia].
  Qed.

  Lemma result0_eq : rp_result0 app incl rows crs deltas addr gt limit = filter_map r_item pgids.
  Proof.
    unfold rp_result0. rewrite persisted_eq. unfold pgids. fold w.
    assert (H : forall r, In r pg -> db_item app incl addr w (db_join rows crs r) = r_item (rw_aidx r)).
    { intros r Hr. destruct (pg_in r Hr) as [Hin [Ha Hg]]. apply db_item_ok; auto. }
    revert H. generalize pg. intro l. induction l as [|r t IH]; cbn; intro H; auto.
    rewrite (H r (or_introl eq_refl)). destruct (r_item (rw_aidx r)); rewrite IH; auto.
  Qed.

  Lemma filter_split_length {A} (f : A -> bool) (l : list A) :
    (length (filter f l) + length (filter (fun x => negb (f x)) l) = length l)%nat.
  Proof. induction l as [|x t IH]; cbn; auto. destruct (f x); cbn; lia. Qed.

  (* the crux: over-requesting by the number of delta deletions leaves at least [limit] survivors *)
  Lemma overrequest_suffices : rp_hasMore rows crs deltas addr gt limit = true ->
    limit <= nlen (rp_result0 app incl rows crs deltas addr gt limit).
  Proof.
    intro Hh. destruct (hasMore_true Hh) as [_ [Hlen _]].
    destruct walk_inv as [Hnd [Hdh Hdp]].
    unfold rp_result0. rewrite persisted_eq. fold w.
    set (f := db_item app incl addr w).
    pose proof (filter_map_length f (map (db_join rows crs) pg)) as Hsum.
    rewrite map_length in Hsum.
    set (dropped := filter (fun x => negb (is_some (f x))) (map (db_join rows crs) pg)) in *.
    set (D := map pr_aidx dropped).
    assert (HDn : NoDup D).
    { unfold D, dropped. apply NoDup_map_filter. rewrite map_map.
      rewrite (map_ext _ rw_aidx) by apply db_join_aidx. apply ids_sorted_nodup, pgids_sorted. }
    assert (HDdel : forall i, In i D ->
              In i (map fst (filter (fun e => is_del (snd e)) (w_dh w))) \/
              In i (map fst (filter (fun e => is_del (fst (snd e))) (w_dp w)))).
    { intros i Hi. unfold D in Hi. apply in_map_iff in Hi. destruct Hi as [pd [<- Hpd]].
      unfold dropped in Hpd. apply filter_In in Hpd. destruct Hpd as [Hpd Hnone].
      apply in_map_iff in Hpd. destruct Hpd as [r [<- Hr]]. destruct (pg_in r Hr) as [Hin [Ha Hg]].
      assert (f (db_join rows crs r) = None) as Hn by (destruct (f (db_join rows crs r)); [discriminate | auto]).
      rewrite db_join_aidx.
      destruct (dropped_deleted r Hin Ha Hg Hn) as [H1|[c H2]].
      - left. apply alookup_some_in in H1. apply in_map_iff. exists (rw_aidx r, DDel). split; auto.
        apply filter_In. split; auto.
      - right. apply alookup_some_in in H2. apply in_map_iff. exists (rw_aidx r, (DDel, c)). split; auto.
        apply filter_In. split; auto. }
    set (A1 := map fst (filter (fun e => is_del (snd e)) (w_dh w))) in *.
    set (A2 := map fst (filter (fun e => is_del (fst (snd e))) (w_dp w))) in *.
    set (inA1 := fun i => if in_dec N.eq_dec i A1 then true else false).
    pose proof (filter_split_length inA1 D) as Hsp.
    assert (H1 : (length (filter inA1 D) <= length A1)%nat).
    { apply NoDup_incl_length; [apply NoDup_filter; auto|].
      intros i Hi. apply filter_In in Hi. destruct Hi as [_ Hi]. unfold inA1 in Hi.
      destruct (in_dec N.eq_dec i A1); [auto | discriminate]. }
    assert (H2 : (length (filter (fun x => negb (inA1 x)) D) <= length A2)%nat).
    { apply NoDup_incl_length; [apply NoDup_filter; auto|].
      intros i Hi. apply filter_In in Hi. destruct Hi as [HiD Hi]. unfold inA1 in Hi.
      destruct (in_dec N.eq_dec i A1); [discriminate|]. destruct (HDdel i HiD); [contradiction | auto]. }
    unfold nd_inv in Hnd. unfold A1, A2 in H1, H2. rewrite !map_length in H1, H2.
    assert (length D = length dropped) by (unfold D; apply map_length).
    unfold nlen. unfold dbLimit in Hlen. lia.
  Qed.

  Theorem res_page_firstn :
    res_page app incl rows crs deltas addr gt limit = firstn (N.to_nat limit) r_L.
  Proof.
    rewrite res_page_shape by lia. cbv zeta. fold w.
    destruct walk_inv as [_ [Hdh Hdp]].
    (* the id lists of the two loops *)
    assert (Hnd2 : NoDup (filter (fun i => negb (rp_in_page rows crs deltas addr gt limit i)) (map fst (w_dh w)))).
    { apply NoDup_filter; auto. }
    destruct (sort_n_spec _ Hnd2) as [Hs2 Hin2]. fold (rp_ids2 rows crs deltas addr gt limit) in Hs2, Hin2.
    assert (H3spec : ids_sorted (rp_ids3 app rows crs deltas addr gt limit) /\
              forall i, In i (rp_ids3 app rows crs deltas addr gt limit) <->
                app = true /\ exists d, alookup i (w_dp w) = Some (d, addr) /\ is_del d = false /\
                  rp_in_page rows crs deltas addr gt limit i = false /\ alookup i (w_dh w) = None).
    { unfold rp_ids3. fold w. destruct (bool_dec app true) as [Happ|Happ].
      - rewrite Happ.
        set (cond := fun e : N * (dlt * N) => _).
        assert (Hn : NoDup (map fst (filter cond (w_dp w)))) by (apply NoDup_map_filter; auto).
        destruct (sort_n_spec _ Hn) as [Hs Hin]. split; auto.
        intro i. rewrite Hin, in_map_iff. split.
        + intros [[j [d c]] [E He]]. cbn in E; subst j. apply filter_In in He. destruct He as [He Hc].
          unfold cond in Hc. cbn [fst snd] in Hc.
          apply andb_true_iff in Hc. destruct Hc as [Hc C4]. apply andb_true_iff in Hc. destruct Hc as [Hc C3].
          apply andb_true_iff in Hc. destruct Hc as [C1 C2].
          apply negb_true_iff in C1, C2, C4. apply N.eqb_eq in C3. subst c.
          split; auto. exists d. repeat split; auto.
          * apply alookup_in_nodup; auto.
          * unfold amem in C4. destruct (alookup i (w_dh w)); [discriminate | auto].
        + intros [_ [d [Hd [Hdel [Hp Hh]]]]]. exists (i, (d, addr)). split; auto.
          apply filter_In. split; [apply alookup_some_in; auto|].
          unfold cond. cbn [fst snd]. rewrite Hp, Hdel, N.eqb_refl. unfold amem. rewrite Hh. auto.
      - apply not_true_is_false in Happ. rewrite Happ. split; [constructor|].
        intro i. split; [intros [] | intros [C _]; discriminate]. }
    destruct H3spec as [Hs3 Hin3].
    unfold rp_mx0. rewrite result0_eq.
    apply (assemble r_L r_item (delta_item app incl rows crs addr w) (creator_item incl w) gt limit
             pgids (rp_ids2 rows crs deltas addr gt limit) (rp_ids3 app rows crs deltas addr gt limit)
             (rp_hasMore rows crs deltas addr gt limit) (rp_maxID rows crs deltas addr gt limit)).
    - exact Hlim.
    - apply r_L_sorted.
    - apply r_L_in.
    - apply r_item_key.
    - intros i x H. unfold delta_item in H. destruct (member app addr _ _); inversion H; auto.
    - intros i x H. unfold creator_item in H. destruct (alookup i (w_dp w)) as [[d c]|]; inversion H; auto.
    - apply pgids_sorted.
    - intros i Hi. unfold pgids in Hi. apply in_map_iff in Hi. destruct Hi as [r [<- Hr]]. apply (pg_in r Hr).
    - intro Hh. apply (hasMore_true Hh).
    - rewrite <- result0_eq. apply overrequest_suffices.
    - exact Hs2.
    - exact Hs3.
    - intros i Hi. apply Hin2 in Hi. apply filter_In in Hi. destruct Hi as [Hk Hp].
      apply negb_true_iff in Hp.
      assert (Hgt : gt < i).
      { destruct (alookup i (w_dh w)) as [d|] eqn:E; [apply (dh_affects i d E) | apply alookup_none_iff in E; contradiction]. }
      unfold rp_in_page in Hp. rewrite seen_eq in Hp. repeat split; auto.
      apply delta_item_ok; auto. apply not_in_page_no_row; auto. unfold rp_in_page. rewrite seen_eq. auto.
    - intros i Hi. apply Hin3 in Hi. destruct Hi as [Happ [d [Hd [Hdel [Hp Hh]]]]].
      pose proof (dp_gt i _ Hd) as Hgt.
      pose proof (not_in_page_no_row i Hgt Hp) as Hrow.
      unfold rp_in_page in Hp. rewrite seen_eq in Hp. repeat split; auto.
      + apply (creator_item_ok i d); auto.
      + intro C. apply Hin2 in C. apply filter_In in C. destruct C as [C _]. apply alookup_none_iff in Hh. contradiction.
    - intros i Hgt Hp Hn2 Hn3.
      assert (Hp' : rp_in_page rows crs deltas addr gt limit i = false) by (unfold rp_in_page; rewrite seen_eq; auto).
      apply no_item; auto.
      + apply not_in_page_no_row; auto.
      + destruct (alookup i (w_dh w)) eqn:E; auto. exfalso. apply Hn2. apply Hin2. apply filter_In. split.
        * apply alookup_some_in in E. apply (in_map fst) in E. auto.
        * rewrite Hp'. auto.
      + intros Happ d Hd. destruct (is_del d) eqn:Edel; auto. exfalso. apply Hn3. apply Hin3.
        split; auto. exists d. repeat split; auto.
        destruct (alookup i (w_dh w)) eqn:E; auto. exfalso. apply Hn2. apply Hin2. apply filter_In. split.
        * apply alookup_some_in in E. apply (in_map fst) in E. auto.
        * rewrite Hp'. auto.
  Qed.
End World.
