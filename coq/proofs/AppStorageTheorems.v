(* C23 proofs, part 3: the statements of props/C23.v. *)
From Coq Require Import NArith PeanoNat List Bool Lia ZifyN ZifyNat ZifyBool.
From Verif.lib Require Import Term.
From Verif.model Require Import Overflow AssocList AppStorage AppStorageSpec.
From Verif.proofs Require Import OverflowProofs AssocListProofs AppStorageProofs AppStorageInv.
Import ListNotations.
Open Scope N_scope.

Section Reach.
  Variables (P : params) (cr : N) (gs ls : N * N) (ops : list op).
  Hypothesis Hgs : schema_wf gs.
  Hypothesis Hls : schema_wf ls.
  Hypothesis Hwf : Forall op_wf ops.
  Hypothesis Hvol : volume ops < 2 ^ 64.
  Let w := run P (winit cr gs ls) ops.

  Lemma reach : Inv w (volume ops).
  Proof. apply reach_inv; assumption. Qed.

  Theorem box_accounting :
    w_tb w = box_count (w_box w) /\ w_tbb w = box_bytes (w_box w).
  Proof. destruct reach as [[_ A B _ _] _ _ _ _]. auto. Qed.

  (* the saturating counters stay below everything ever requested, hence below 2^64: the
     AddSaturate / SubSaturate calls of NewBox / DelBox never saturated *)
  Theorem box_counters_bounded : w_tb w <= volume ops /\ w_tbb w <= volume ops.
  Proof. destruct reach as [[_ _ _ A B] _ _ _ _]. auto. Qed.

  Theorem global_schema_bound : forall s, w_global w = Some s ->
    fst (count_kv (st_kv s)) <= fst (w_gschema w) /\ snd (count_kv (st_kv s)) <= snd (w_gschema w).
  Proof. intros s H. destruct (i_glob w _ reach s H) as [[_ _ A B _] _]. auto. Qed.

  Theorem local_schema_bound : forall a s sch, aget N.eqb a (w_local w) = Some (s, sch) ->
    fst (count_kv (st_kv s)) <= fst sch /\ snd (count_kv (st_kv s)) <= snd sch.
  Proof. intros a s sch H. destruct (i_loc w _ reach a s sch H) as ([_ _ A B _] & _). auto. Qed.

  (* the incremental counters of updateCounts are the real counts, the limits checked by
     checkCounts are the declared schemas *)
  Theorem counts_exact :
    (forall s, w_global w = Some s -> st_counts s = count_kv (st_kv s) /\ st_max s = w_gschema w) /\
    (forall a s sch, aget N.eqb a (w_local w) = Some (s, sch) ->
       st_counts s = count_kv (st_kv s) /\ sch = w_lschema w /\ (w_global w <> None -> st_max s = sch)).
  Proof.
    split.
    - intros s H. destruct (i_glob w _ reach s H) as [[_ A _ _ _] B]. auto.
    - intros a s sch H. destruct (i_loc w _ reach a s sch H) as ([_ A _ _ _] & B & C). auto.
  Qed.

  Theorem keys_distinct :
    NoDup (map fst (w_box w)) /\ NoDup (map fst (w_local w)) /\
    (forall s, w_global w = Some s -> NoDup (map fst (st_kv s))).
  Proof.
    destruct reach as [[A _ _ _ _] B C _ _]. repeat split; auto.
    intros s H. destruct (B s H) as [[X _ _ _ _] _]. exact X.
  Qed.

  (* the executable predicate evaluated by the check holds of the model's state *)
  Theorem spec_state_holds : spec_state w = true.
  Proof.
    unfold spec_state, spec_boxes, spec_schemas. destruct box_accounting as [A B].
    rewrite A, B, !N.eqb_refl. cbn [andb]. apply andb_true_iff. split.
    - destruct (w_global w) as [s|] eqn:E; [|reflexivity].
      destruct (global_schema_bound s E) as [X Y]. unfold schema_holds.
      apply andb_true_iff. split; apply N.leb_le; assumption.
    - apply forallb_forall. intros [a [s sch]] Hin. cbn [fst snd].
      assert (aget N.eqb a (w_local w) = Some (s, sch)) as H.
      { apply (In_aget N.eqb Neqb_eq); [apply reach|exact Hin]. }
      destruct (local_schema_bound a s sch H) as [X Y]. unfold schema_holds.
      apply andb_true_iff. split; apply N.leb_le; assumption.
  Qed.
End Reach.

(* spec_state is the property, read off an observed state *)
Lemma spec_state_sound w : spec_state w = true ->
  w_tb w = N.of_nat (length (w_box w)) /\
  w_tbb w = asum (fun name value => blen name + blen value) (w_box w) /\
  (forall s, w_global w = Some s ->
     fst (count_kv (st_kv s)) <= fst (w_gschema w) /\ snd (count_kv (st_kv s)) <= snd (w_gschema w)) /\
  (forall a s sch, In (a, (s, sch)) (w_local w) ->
     fst (count_kv (st_kv s)) <= fst sch /\ snd (count_kv (st_kv s)) <= snd sch).
Proof.
  unfold spec_state, spec_boxes, spec_schemas, schema_holds. rewrite !andb_true_iff.
  intros [[A B] [C D]]. apply N.eqb_eq in A, B. split; [exact A|]. split; [exact B|]. split.
  - intros s E. rewrite E in C. apply andb_true_iff in C. destruct C as [X Y].
    apply N.leb_le in X, Y. auto.
  - intros a s sch Hin. rewrite forallb_forall in D. specialize (D _ Hin). cbn [fst snd] in D.
    apply andb_true_iff in D. destruct D as [X Y]. apply N.leb_le in X, Y. auto.
Qed.

Lemma failing_call_changes_nothing P w o w' e : step P w o = (w', Err e) -> w' = w.
Proof.
  destruct o as [s accts oc sc|]; cbn [step].
  - destruct (applicationCall P s accts oc sc w) as [w1 [l|e1]]; intros H; inversion H; reflexivity.
  - discriminate.
Qed.

(* a program that fails part-way has already written: setKey stores the value and the new
   counts before checkCounts refuses them; only the discarded child cow protects the state *)
Definition P0 : params := mkPar 64 32768 128 128.
Lemma put_writes_before_check :
  let w := winit 1 (1, 0) (0, 0) in
  exists w' s, run_script P0 false 1 [] [SGlobalPut [1] (TVu 7); SGlobalPut [2] (TVu 8)] w = (w', Err R_LOGIC) /\
    w_global w' = Some s /\ count_kv (st_kv s) = (2, 0) /\ w_gschema w' = (1, 0) /\
    fst (step P0 w (OCall 1 [] NoOp [SGlobalPut [1] (TVu 7); SGlobalPut [2] (TVu 8)])) = w.
Proof. vm_compute. eexists _, _. repeat split. Qed.

(* a defect of the copy-on-write layer that the transcription reproduces: after the creator
   closed out of its own application, an update of the application by somebody else in the
   same block is refused (recovered panic in AccountDeltas.ModifiedAccounts), although the
   same update is accepted in the next block *)
Lemma update_after_creator_closeout :
  let w := run P0 (winit 1 (1, 1) (1, 1)) [OCall 1 [] OptIn []; OEndBlock; OCall 1 [] CloseOut []] in
  snd (step P0 w (OCall 2 [] (UpdateApp (0, 0)) [])) = Err R_APPLY /\
  snd (step P0 (end_block w) (OCall 2 [] (UpdateApp (0, 0)) [])) = Ok [] /\
  snd (step P0 w (OCall 1 [] (UpdateApp (0, 0)) [])) = Ok [].
Proof. vm_compute. repeat split. Qed.
