(* Agreement proofs -- C07, part 3: the dispatches of the player, voteAggregator, proposalManager and
   player.handle respect the persistence relation; main theorem. *)
From Coq Require Import NArith List Bool Lia ZifyN ZifyNat ZifyBool String.
Import ListNotations.
From Verif.model Require Import AgreementTypes AgreementVotes AgreementProposals AgreementPlayer AgreementPersist.
From Verif.proofs Require Import AgreementLemmas AgreementVoteProofs AgreementTreeProofs AgreementC03Proofs AgreementC07Rel.
Open Scope N_scope.

Notation rqf := (rq false).
Ltac pfin := simpl; unfold prel; simpl; split; simpl; auto; try exact Logic.I.
Definition rtr (cur : N) {A} (RA : A -> A -> Prop) : router * A -> router * A -> Prop := prel (rt_rel cur) RA.

Lemma prel_mono_l : forall A cur cur' (RA : A -> A -> Prop) (x y : router * A),
  cur <= cur' -> rtr cur RA x y -> rtr cur' RA x y.
Proof. intros A cur cur' RA x y L [H1 H2]; split; auto. eapply rt_rel_mono; eauto. Qed.

(* ---------- typed dispatches ---------- *)
(* reading / writing a period-0 node below the round level never fails *)
Lemma keep_period_0 : forall pl, AgreementC07Rel.keep_period pl 0 = true.
Proof. intro pl. unfold AgreementC07Rel.keep_period. rewrite orb_true_r. reflexivity. Qed.

Lemma with_period_ok0 : forall A pl s rn (h : periodNode -> A),
  exists x, with_period pl 0 s rn (fun pn => Ok (pn, h pn)) = Ok x.
Proof.
  intros A pl s rn h. unfold with_period. rewrite rn_update_aget_any, keep_period_0, N.eqb_refl. simpl. eauto.
Qed.

Lemma with_round_old_ok : forall k A B pm pl cur r p rt rt' (f : roundNode -> res (roundNode * A)) (g : roundNode -> res (roundNode * B)),
  rt_rel cur rt rt' -> r < cur -> (forall rn, exists x, f rn = Ok x) -> (forall rn, exists y, g rn = Ok y) ->
  rq k (fun x y => rt_rel cur (fst x) (fst y)) (with_round pm pl r p rt f) (with_round pm pl r p rt' g).
Proof.
  intros k A B pm pl cur r p rt rt' f g R L HF HG. unfold with_round.
  rewrite !root_update_aget_any, N.eqb_refl. destruct (AgreementC07Rel.keep_round pm pl r) eqn:KR; [|apply rq_panic].
  destruct (HF (rn_update pl p (match aget N.eqb r rt with Some rn => rn | None => rn_zero end))) as [[a' xa] EF].
  destruct (HG (rn_update pl p (match aget N.eqb r rt' with Some rn => rn | None => rn_zero end))) as [[b' xb] EG].
  rewrite EF, EG. simpl.
  intros q Lq. rewrite !aget_aset_N. assert (E : (q =? r) = false) by (apply N.eqb_neq; lia). rewrite E.
  rewrite !root_update_aget_any, E. destruct (AgreementC07Rel.keep_round pm pl q); simpl; auto.
Qed.

Section Dispatch.
  Variable k : bool.
  Variable pm : params.
  Variable pl : player.
  Variable cur : N.

  Lemma d_staged_rel : forall rt rt' r p, rt_rel cur rt rt' -> cur <= r ->
    rq k (rtr cur eq) (d_staged pm pl rt r p) (d_staged pm pl rt' r p).
  Proof.
    intros. unfold d_staged. apply (with_round_rel k _ eq pm pl cur); auto.
    intros a b R. apply rn_read_staging_rel; auto.
  Qed.

  Lemma d_pinned_rel : forall rt rt' r, rt_rel cur rt rt' -> cur <= r ->
    rq k (rtr cur eq) (d_pinned pm pl rt r) (d_pinned pm pl rt' r).
  Proof.
    intros. unfold d_pinned. apply (with_round_rel k _ eq pm pl cur); auto.
    intros a b R. simpl. pfin. unfold rn_store_read_pinned. destruct R as (S & _). rewrite S; auto.
  Qed.

  Lemma d_next_status_rel : forall rt rt' r p, rt_rel cur rt rt' -> cur <= r ->
    rq k (rtr cur eq) (d_next_status pm pl rt r p) (d_next_status pm pl rt' r p).
  Proof.
    intros. unfold d_next_status. apply (with_round_rel k _ eq pm pl cur); auto.
    intros a b R. apply (with_period_read_rel k _ pl p 0 a b pn_vp); auto. intros pa pb (_ & V & _); auto.
  Qed.

  Lemma d_freshest_rel : forall rt rt' r, rt_rel cur rt rt' -> cur <= r ->
    rq k (rtr cur eq) (d_freshest pm pl rt r) (d_freshest pm pl rt' r).
  Proof.
    intros. unfold d_freshest. apply (with_round_rel k _ eq pm pl cur); auto.
    intros a b R. simpl. pfin. apply R.
  Qed.

  Lemma d_dump_rel : forall rt rt' r p s, rt_rel cur rt rt' -> cur <= r ->
    rq k (rtr cur eq) (d_dump pm pl rt r p s) (d_dump pm pl rt' r p s).
  Proof.
    intros. unfold d_dump. apply (with_round_rel k _ eq pm pl cur); auto.
    intros a b R. apply (with_period_read_rel k _ pl p s a b (fun pn => vt_dump (pn_step s pn))); auto.
    intros pa pb (_ & _ & S). unfold pn_step. rewrite S; auto.
  Qed.

  Lemma d_freeze_rel : forall rt rt' r p, rt_rel cur rt rt' -> cur <= r ->
    rq k (rtr cur eq) (d_freeze pm pl rt r p) (d_freeze pm pl rt' r p).
  Proof.
    intros. unfold d_freeze. apply (with_round_rel k _ eq pm pl cur); auto.
    intros a b R. apply (with_period_rel k _ eq pl p 0 a b); auto.
    intros pa pb P. apply pn_pt_op_rel; auto. intros ta tb T. apply pt_checked_freeze_rel; auto.
  Qed.

  Lemma d_read_lowest_rel : forall rt rt' r, rt_rel cur rt rt' ->
    rq k (rt_rel cur) (d_read_lowest pm pl rt r) (d_read_lowest pm pl rt' r).
  Proof.
    intros rt rt' r R. unfold d_read_lowest.
    destruct (N.le_gt_cases cur r) as [L|L].
    - eapply rq_bind.
      + apply (with_round_rel k _ (fun _ _ => True) pm pl cur r 0 rt rt'); auto.
        intros a b RN. eapply rq_bind; [apply rn_store_read_lowest_rel; eauto|].
        intros a1 b1 R1. simpl. pfin.
      + intros [a1 u] [b1 u'] [R1 _]; simpl in *; auto.
    - eapply rq_bind.
      + apply (with_round_old_ok k _ _ pm pl cur r 0 rt rt'); auto; intro rn;
          unfold rn_store_read_lowest; destruct (with_period_ok0 _ pl 0 rn (fun _ => tt)) as [[rn' u] E]; rewrite E; simpl; eauto.
      + intros [a1 u] [b1 u'] R1; simpl in *; auto.
  Qed.

  (* ---------- voteAggregator ---------- *)
  Lemma va_filter_vote_rel : forall rt rt' x, rt_rel cur rt rt' ->
    (vote_fresh (fresh_of pl) x = true -> cur <= vt_rnd x) ->
    rq k (rtr cur eq) (va_filter_vote pm pl rt x) (va_filter_vote pm pl rt' x).
  Proof.
    intros rt rt' x R HF. unfold va_filter_vote.
    destruct (vote_fresh (fresh_of pl) x) eqn:VF; simpl; [|pfin].
    eapply rq_bind.
    - apply (with_round_rel k _ eq pm pl cur); auto. intros a b RN.
      apply (with_period_read_rel k _ pl (vt_per x) (vt_step x) a b (fun pn => vt_filter (pn_step (vt_step x) pn) x)); auto.
      intros pa pb (_ & _ & S). unfold pn_step. rewrite S; auto.
    - intros [a1 d] [b1 d'] [R1 E]; simpl in *. subst d'. pfin.
  Qed.

  Lemma va_deliver_rel : forall rt rt' x, rt_rel cur rt rt' -> cur <= vt_rnd x ->
    rq k (rtr cur eq) (va_deliver pm pl rt x) (va_deliver pm pl rt' x).
  Proof.
    intros. unfold va_deliver. apply (with_round_rel k _ eq pm pl cur); auto.
    intros a b R. apply rn_vote_accepted_rel; auto.
  Qed.

  Lemma va_deliver_all_rel : forall vs rt rt' acc, rt_rel cur rt rt' -> (forall x, In x vs -> cur <= vt_rnd x) ->
    rq k (rtr cur eq) (va_deliver_all pm pl rt vs acc) (va_deliver_all pm pl rt' vs acc).
  Proof.
    induction vs as [|x vs IH]; intros rt rt' acc R HV; simpl; [pfin|].
    eapply rq_bind; [apply va_deliver_rel; [exact R | apply HV; left; auto]|].
    intros [a1 o] [b1 o'] [R1 E]; simpl in *. subst o'. apply IH; [exact R1 | intros y Hy; apply HV; right; auto].
  Qed.
End Dispatch.

(* ---------- well-formedness of the environment ---------- *)
(* verified bundles carry votes of the bundle's own round (bundle.verify re-assembles every vote with
   the bundle's round / period / step) *)
Definition mev_wf (m : mevent) : Prop :=
  match me_in m with
  | InBundle b => forall x, In x (ub_votes b ++ flat_map (fun e => [eqv_first e; eqv_second e]) (ub_eqs b)) -> vt_rnd x = ub_rnd b
  | _ => True
  end.
Definition nowrap (pl : player) (n : N) : Prop := p_rnd pl + n + 1 < 2 ^ 64.

Lemma add1_small : forall x, x + 1 < 2 ^ 64 -> add1 x = x + 1.
Proof. intros x H. unfold add1, w64. apply N.mod_small; auto. Qed.

Lemma root_update_rel : forall pm pl cur r rt rt', rt_rel cur rt rt' -> rt_rel cur (root_update pm pl r rt) (root_update pm pl r rt').
Proof.
  intros pm pl cur r rt rt' R k L. rewrite !root_update_aget_any.
  destruct (AgreementC07Rel.keep_round pm pl k); simpl; auto.
  destruct (k =? r) eqn:E; [|apply R; auto]. apply N.eqb_eq in E; subst.
  specialize (R r L). destruct (aget N.eqb r rt), (aget N.eqb r rt'); simpl in *; auto; try contradiction. apply rn_rel_refl.
Qed.

Lemma vote_fresh_round : forall pl x, vote_fresh (fresh_of pl) x = true -> vt_rnd x = p_rnd pl \/ vt_rnd x = add1 (p_rnd pl).
Proof.
  intros pl x H. unfold vote_fresh in H; simpl in H.
  destruct (p_rnd pl =? vt_rnd x) eqn:E1; [apply N.eqb_eq in E1; auto|].
  destruct (add1 (p_rnd pl) =? vt_rnd x) eqn:E2; [apply N.eqb_eq in E2; auto|]. simpl in H. discriminate.
Qed.

Section Root.
  Variable k : bool.
  Variable pm : params.
  Variable pl : player.
  Hypothesis NW : nowrap pl 0.
  Let cur := p_rnd pl.

  Lemma cur_le_add1 : cur <= add1 cur.
  Proof. unfold cur, nowrap in *. rewrite add1_small; lia. Qed.

  Lemma va_filter_vote_fresh : forall rt x,
    wp (va_filter_vote pm pl rt x) (fun r => snd r = true -> vote_fresh (fresh_of pl) x = true).
  Proof.
    intros rt x. unfold va_filter_vote. destruct (vote_fresh (fresh_of pl) x); simpl; [|intros; discriminate].
    apply wp_bind. destruct (with_round _ _ _ _ _ _) as [[rt1 d]| |]; simpl; auto.
  Qed.

  Lemma fresh_round_ge : forall x, vote_fresh (fresh_of pl) x = true -> cur <= vt_rnd x.
  Proof.
    intros x H. destruct (vote_fresh_round pl x H) as [E|E]; rewrite E; [unfold cur; lia | apply cur_le_add1].
  Qed.

  Lemma va_handle_rel : forall rt rt' m, rt_rel cur rt rt' -> mev_wf m ->
    rq k (rtr cur eq) (va_handle pm pl rt m) (va_handle pm pl rt' m).
  Proof.
    intros rt rt' m R WF. unfold va_handle.
    pose proof (root_update_rel pm pl cur 0 rt rt' R) as R0.
    destruct (me_in m) as [x|b|pv] eqn:EI; destruct (me_verified m).
    - destruct (mm_cancelled (me_meta m)); [pfin|].
      destruct (mm_proto_err (me_meta m)); [pfin|].
      destruct (mm_err (me_meta m)); [pfin|].
      eapply rq_bind; [apply rq_wp_l; [apply va_filter_vote_fresh | apply va_filter_vote_rel; [exact R0 | apply fresh_round_ge]]|].
      intros [a1 ok] [b1 ok'] [VF [R1 E]]; simpl in *. subst ok'. destruct ok; [|pfin].
      eapply rq_bind; [apply va_deliver_rel; [exact R1 | apply fresh_round_ge; auto]|].
      intros [a2 o] [b2 o'] [R2 E]; simpl in *. subst o'. destruct o as [th|]; [|pfin].
      destruct (th_rnd th =? p_rnd pl); [pfin|].
      destruct (th_rnd th =? add1 (p_rnd pl)); [pfin|apply rq_panic].
    - destruct (mm_proto_err (me_meta m)); [pfin|].
      eapply rq_bind; [apply va_filter_vote_rel; [exact R0 | apply fresh_round_ge]|].
      intros [a1 ok] [b1 ok'] [R1 E]; simpl in *. subst ok'. pfin.
    - destruct (mm_cancelled (me_meta m)); [pfin|].
      destruct (mm_proto_err (me_meta m)); [pfin|].
      destruct (mm_err (me_meta m)); [pfin|].
      destruct (bundle_fresh (fresh_of pl) b) eqn:BF; simpl; [|pfin].
      assert (BR : ub_rnd b = cur).
      { unfold bundle_fresh in BF; simpl in BF. destruct (p_rnd pl =? ub_rnd b) eqn:E; simpl in BF; [|discriminate].
        apply N.eqb_eq in E; auto. }
      eapply rq_bind.
      + apply va_deliver_all_rel; [exact R0|]. unfold mev_wf in WF. rewrite EI in WF.
        intros x Hx. rewrite (WF x Hx), BR. lia.
      + intros [a1 o] [b1 o'] [R1 E]; simpl in *. subst o'. destruct o; pfin.
    - pfin.
    - apply rq_panic.
    - apply rq_panic.
  Qed.

  (* ---------- proposalManager ---------- *)
  Lemma pm_check_dup_rel : forall rt rt' x, rt_rel cur rt rt' -> cur <= vt_rnd x ->
    rq k (rtr cur eq) (pm_check_dup pm pl rt x) (pm_check_dup pm pl rt' x).
  Proof.
    intros. unfold pm_check_dup. apply (with_round_rel k _ eq pm pl cur); auto. intros a b RN.
    apply (with_period_read_rel k _ pl (vt_per x) 0 a b (fun pn => pt_filter (pn_pt pn) x)); auto.
    intros pa pb ((D & _) & _). unfold pt_filter. rewrite D; auto.
  Qed.

  Lemma pm_check_dup_old : forall rt rt' x, rt_rel cur rt rt' -> vt_rnd x < cur -> vt_per x = 0 ->
    rq k (fun a b => rt_rel cur (fst a) (fst b)) (pm_check_dup pm pl rt x) (pm_check_dup pm pl rt' x).
  Proof.
    intros rt rt' x R L P0. unfold pm_check_dup. rewrite P0.
    apply with_round_old_ok; auto; intro rn; apply with_period_ok0.
  Qed.

  Lemma proposal_fresh_round : forall x, proposal_fresh (fresh_of pl) x = true -> cur <= vt_rnd x.
  Proof.
    intros x H. unfold proposal_fresh in H; simpl in H.
    destruct (vt_rnd x =? p_rnd pl) eqn:E1; [apply N.eqb_eq in E1; unfold cur; lia|].
    destruct (vt_rnd x =? add1 (p_rnd pl)) eqn:E2; [apply N.eqb_eq in E2; rewrite E2; apply cur_le_add1|discriminate].
  Qed.
  Lemma useful_old : forall x, useful_for_cred_history pm (p_rnd pl) x = true -> vt_rnd x < cur /\ vt_per x = 0.
  Proof.
    intros x H. unfold useful_for_cred_history in H. repeat (apply andb_true_iff in H; destruct H as [H ?]).
    apply N.ltb_lt in H. apply N.eqb_eq in H1. auto.
  Qed.

  Lemma pm_filter_vote_rel : forall rt rt' x, rt_rel cur rt rt' ->
    rq k (fun a b => rt_rel cur (fst a) (fst b) /\ snd (snd a) = snd (snd b) /\ (snd (snd a) = true -> fst (snd a) = fst (snd b)))
        (pm_filter_vote pm pl rt x) (pm_filter_vote pm pl rt' x).
  Proof.
    intros rt rt' x R. unfold pm_filter_vote.
    destruct (proposal_fresh (fresh_of pl) x) eqn:PF; simpl.
    - eapply rq_bind; [apply pm_check_dup_rel; [exact R | apply proposal_fresh_round; auto]|].
      intros [a1 d] [b1 d'] [R1 E]; simpl in *. subst d'. auto.
    - destruct (useful_for_cred_history pm (p_rnd pl) x) eqn:U; simpl.
      + eapply rq_bind; [apply pm_check_dup_old; [exact R | apply useful_old; auto | apply useful_old; auto]|].
        intros [a1 d] [b1 d'] R1; simpl in *. split; auto. split; auto. intro; discriminate.
      + split; auto.
  Qed.

  Lemma pm_vote_rel : forall rt rt' m x, rt_rel cur rt rt' ->
    (k = true -> me_verified m = true -> useful_for_cred_history pm (p_rnd pl) x = false) ->
    rq k (rtr cur pv_rel) (pm_vote pm pl rt m x) (pm_vote pm pl rt' m x).
  Proof.
    intros rt rt' m x R NL. unfold pm_vote.
    pose proof (root_update_rel pm pl cur 0 rt rt' R) as R0.
    destruct (me_verified m) eqn:MV; simpl.
    - destruct (mm_cancelled (me_meta m)); [pfin|].
      destruct (mm_err (me_meta m)); [pfin|].
      destruct (proposal_fresh (fresh_of pl) x) eqn:PF; simpl.
      + eapply rq_bind.
        * apply (with_round_rel k _ pv_rel pm pl cur); [exact R0 | apply proposal_fresh_round; auto|].
          intros a b RN. apply rn_store_vote_rel; auto.
        * intros [a1 ea] [b1 eb] [R1 E]; simpl in *. pfin.
      + destruct (useful_for_cred_history pm (p_rnd pl) x) eqn:U; simpl; [|pfin].
        destruct k; [specialize (NL eq_refl eq_refl); discriminate|].
        eapply rq_bind; [apply (with_round_old _ _ pm pl cur); [exact R0 | apply useful_old; auto]|].
        intros [a1 ea] [b1 eb] R1; simpl in *.
        destruct ea, eb; pfin.
    - eapply rq_bind; [apply pm_filter_vote_rel; exact R0|].
      intros [a1 [fa oa]] [b1 [fb ob]] (R1 & E1 & E2); simpl in *. subst ob.
      destruct oa; pfin.
  Qed.

  Lemma pm_payload_rel : forall rt rt' m pv, rt_rel cur rt rt' ->
    rq k (rtr cur eq) (pm_payload pm pl rt m pv) (pm_payload pm pl rt' m pv).
  Proof.
    intros rt rt' m pv R. unfold pm_payload.
    pose proof (root_update_rel pm pl cur 0 rt rt' R) as R0.
    assert (PP : forall r p, cur <= r ->
              rq k (rtr cur eq)
                  (with_round pm pl r p (root_update pm pl 0 rt) (fun rn => let '(rn', out) := rn_store_payload_present pl rn pv in Ok (rn', out)))
                  (with_round pm pl r p (root_update pm pl 0 rt') (fun rn => let '(rn', out) := rn_store_payload_present pl rn pv in Ok (rn', out)))).
    { intros r p L. apply (with_round_rel k _ eq pm pl cur); auto. intros a b RN.
      pose proof (rn_store_payload_present_rel pl a b pv RN) as [H1 H2].
      destruct (rn_store_payload_present pl a pv) as [a' oa]; destruct (rn_store_payload_present pl b pv) as [b' ob]; simpl in *.
      pfin. }
    destruct (me_verified m); simpl.
    - destruct (mm_cancelled (me_meta m)); [pfin|].
      destruct (mm_err (me_meta m)); [pfin|].
      apply (with_round_rel k _ eq pm pl cur); auto; [unfold cur; lia|].
      intros a b RN. apply rn_store_payload_verified_rel; auto.
    - destruct (p_rnd pl =? v_rnd pv).
      + eapply rq_bind; [apply PP; unfold cur; lia|].
        intros [a1 oa] [b1 ob] [R1 E]; simpl in *. subst ob. destruct oa; pfin.
      + eapply rq_bind; [apply PP; apply cur_le_add1|].
        intros [a1 oa] [b1 ob] [R1 E]; simpl in *. subst ob. destruct oa; pfin.
  Qed.

  Lemma pm_new_period_rel : forall rt rt' th, rt_rel cur rt rt' -> th_rnd th = cur ->
    rq k (rt_rel cur) (pm_new_period pm pl rt th) (pm_new_period pm pl rt' th).
  Proof.
    intros rt rt' th R E. unfold pm_new_period.
    eapply rq_bind.
    - apply (with_round_rel k _ (fun _ _ => True) pm pl cur); [exact R | lia |].
      intros a b RN. eapply rq_bind; [apply rn_store_new_period_rel; eauto|].
      intros a1 b1 R1; simpl. pfin.
    - intros [a1 u] [b1 u'] [R1 _]; simpl in *; auto.
  Qed.

  Lemma pm_threshold_rel : forall rt rt' r0 th, rt_rel cur rt rt' ->
    rq k (rtr cur eq) (pm_threshold pm pl rt r0 th) (pm_threshold pm pl rt' r0 th).
  Proof.
    intros rt rt' r0 th R. unfold pm_threshold.
    pose proof (root_update_rel pm pl cur r0 rt rt' R) as R0.
    unfold pm_pre_threshold.
    destruct (negb (p_rnd pl =? th_rnd th)) eqn:ER; [apply rq_panic|].
    assert (E : th_rnd th = cur).
    { apply negb_false_iff in ER. apply N.eqb_eq in ER. unfold cur; auto. }
    destruct (negb (tkind_eqb (th_t th) TCert) && (th_per th <? p_per pl)); [apply rq_panic|].
    destruct (tkind_eqb (th_t th) TSoft && is_bottom (th_val th)); [apply rq_panic|]. simpl.
    assert (SC : forall a b, rt_rel cur a b ->
              rq k (rtr cur eq)
                (do r <- with_round pm pl (th_rnd th) (th_per th) a (fun rn => rn_store_threshold pl rn th);
                 (let '(rt2, out) := r in Ok (rt2, Some out)))
                (do r <- with_round pm pl (th_rnd th) (th_per th) b (fun rn => rn_store_threshold pl rn th);
                 (let '(rt2, out) := r in Ok (rt2, Some out)))).
    { intros a b RAB. eapply rq_bind.
      - apply (with_round_rel k _ eq pm pl cur); [exact RAB | lia |]. intros x y RN. apply rn_store_threshold_rel; auto.
      - intros [a1 oa] [b1 ob] [R1 E1]; simpl in *. subst ob. pfin. }
    destruct (th_t th).
    - eapply rq_bind; [|intros a b RAB; apply SC; exact RAB].
      destruct (p_per pl <? th_per th); [apply pm_new_period_rel; auto | simpl; auto].
    - eapply rq_bind; [|intros a b RAB; apply SC; exact RAB].
      destruct (p_per pl <? th_per th); [apply pm_new_period_rel; auto | simpl; auto].
    - eapply rq_bind; [apply pm_new_period_rel; auto|]. intros a b RAB; simpl. pfin.
  Qed.

  Lemma pm_threshold_round : forall rt r0 th, wp (pm_threshold pm pl rt r0 th) (fun _ => th_rnd th = cur).
  Proof.
    intros rt r0 th. unfold pm_threshold, pm_pre_threshold.
    destruct (negb (p_rnd pl =? th_rnd th)) eqn:ER; [apply wp_panic|].
    apply negb_false_iff in ER. apply N.eqb_eq in ER.
    destruct (negb (tkind_eqb (th_t th) TCert) && (th_per th <? p_per pl)); [apply wp_panic|].
    destruct (tkind_eqb (th_t th) TSoft && is_bottom (th_val th)); [apply wp_panic|]. simpl.
    destruct (th_t th); match goal with |- wp ?x _ => destruct x as [[? ?]| |]; simpl; auto end.
  Qed.

  Lemma pm_new_round_rel : forall rt rt' target, rt_rel cur rt rt' -> cur <= target ->
    rq k (rtr cur eq) (pm_new_round pm pl rt target) (pm_new_round pm pl rt' target).
  Proof.
    intros rt rt' target R L. unfold pm_new_round.
    pose proof (root_update_rel pm pl cur target rt rt' R) as R0.
    apply (with_round_rel k _ eq pm pl cur); auto. intros a b (S & F & P).
    unfold rn_store_new_round. rewrite S.
    eapply rq_bind; [apply rq_refl; intros; reflexivity|]. intros x y E; subst y. simpl. pfin.
    split; [|split]; auto.
  Qed.
End Root.

(* ---------- player ---------- *)
Definition hrel (x y : player * router * list action) : Prop :=
  fst (fst x) = fst (fst y) /\ snd x = snd y /\ rt_rel (p_rnd (fst (fst x))) (snd (fst x)) (snd (fst y)).

Lemma good_thresh_round : forall pm D th, good_thresh pm D th -> ub_rnd (th_b th) = th_rnd th.
Proof. intros pm D th (_ & K & _). inversion K; auto. Qed.

Section PlayerRel.
  Variable k : bool.
  Variable pm : params.
  Variable D : list vote.
  Hypothesis DYN : pm_dynfilter pm = false.

  Lemma partition_policy_rel : forall pl rt rt', nowrap pl 0 -> RInv pm D rt -> rt_rel (p_rnd pl) rt rt' ->
    rq k (rtr (p_rnd pl) eq) (partition_policy pm pl rt) (partition_policy pm pl rt').
  Proof.
    intros pl rt rt' NW I R. unfold partition_policy.
    destruct (negb (partitioned pl)); [pfin|].
    eapply rq_bind; [apply rq_wp_l; [apply (d_freshest_spec pm D); exact I | apply d_freshest_rel; [exact R | lia]]|].
    intros [a1 fr] [b1 fr'] [[I1 TP] [R1 E]]; simpl in *. subst fr'.
    match goal with |- rq k _ (match ?g with _ => _ end) _ => destruct g as [[br bp]|] eqn:EG end; [|pfin].
    assert (BR : p_rnd pl <= br).
    { destruct fr as [th|].
      - destruct (negb (is_bottom (ub_val (th_b th)))).
        + inversion EG; subst. destruct (TP th eq_refl) as [G ER]. rewrite (good_thresh_round _ _ _ G), ER. lia.
        + destruct (p_per pl =? 0); inversion EG; subst; lia.
      - destruct (p_per pl =? 0); inversion EG; subst; lia. }
    eapply rq_bind; [apply rq_wp_l; [apply (d_staged_spec pm D); exact I1 | apply d_staged_rel; [exact R1 | exact BR]]|].
    intros [a2 [sv c]] [b2 [sv' c']] [[I2 _] [R2 E]]; simpl in *. inversion E; subst sv' c'.
    destruct c; [pfin|].
    eapply rq_bind; [apply d_pinned_rel; [exact R2 | exact BR]|].
    intros [a3 [pv ok]] [b3 [pv' ok']] [R3 E3]; simpl in *. inversion E3; subst. destruct ok'; pfin.
  Qed.

  Lemma issue_soft_vote_rel : forall pl rt rt' d, rt_rel (p_rnd pl) rt rt' ->
    rq k hrel (issue_soft_vote pm pl rt d) (issue_soft_vote pm pl rt' d).
  Proof.
    intros pl rt rt' d R. unfold issue_soft_vote.
    eapply rq_bind; [apply d_freeze_rel; [exact R | lia]|].
    intros [a1 fz] [b1 fz'] [R1 E]; simpl in *. subst fz'.
    eapply rq_bind; [apply d_next_status_rel; [exact R1 | lia]|].
    intros [a2 ns] [b2 ns'] [R2 E]; simpl in *. subst ns'.
    repeat match goal with |- rq k _ (if ?c then _ else _) _ => destruct c end; simpl; unfold hrel; simpl; auto.
  Qed.

  Lemma issue_next_vote_rel : forall pl rt rt' d, nowrap pl 0 -> RInv pm D rt -> rt_rel (p_rnd pl) rt rt' ->
    rq k hrel (issue_next_vote pm pl rt d) (issue_next_vote pm pl rt' d).
  Proof.
    intros pl rt rt' d NW I R. unfold issue_next_vote.
    eapply rq_bind; [apply partition_policy_rel; auto|].
    intros [a1 acts] [b1 acts'] [R1 E]; simpl in *. subst acts'.
    eapply rq_bind; [apply d_staged_rel; [exact R1 | lia]|].
    intros [a2 [sv c]] [b2 [sv' c']] [R2 E]; simpl in *. inversion E; subst sv' c'.
    eapply rq_bind with (R := rtr (p_rnd pl) eq).
    - destruct c; [pfin|].
      eapply rq_bind; [apply d_next_status_rel; [exact R2 | lia]|].
      intros [a3 ns] [b3 ns'] [R3 E3]; simpl in *. subst ns'. pfin.
    - intros [a4 prop] [b4 prop'] [R4 E4]; simpl in *. subst prop'.
      destruct (next_vote_ranges pm (p_step pl) d) as [lo up]. simpl. unfold hrel; simpl; auto.
  Qed.

  Lemma issue_fast_vote_rel : forall pl rt rt', nowrap pl 0 -> RInv pm D rt -> rt_rel (p_rnd pl) rt rt' ->
    rq k (rtr (p_rnd pl) eq) (issue_fast_vote pm pl rt) (issue_fast_vote pm pl rt').
  Proof.
    intros pl rt rt' NW I R. unfold issue_fast_vote.
    eapply rq_bind; [apply partition_policy_rel; auto|].
    intros [a1 acts] [b1 acts'] [R1 E]; simpl in *. subst acts'.
    eapply rq_bind; [apply d_dump_rel; [exact R1 | lia]|]. intros [a2 e1] [b2 e1'] [R2 E]; simpl in *. subst e1'.
    eapply rq_bind; [apply d_dump_rel; [exact R2 | lia]|]. intros [a3 e2] [b3 e2'] [R3 E]; simpl in *. subst e2'.
    eapply rq_bind; [apply d_dump_rel; [exact R3 | lia]|]. intros [a4 e3] [b4 e3'] [R4 E]; simpl in *. subst e3'.
    eapply rq_bind; [apply d_staged_rel; [exact R4 | lia]|].
    intros [a5 [sv c]] [b5 [sv' c']] [R5 E]; simpl in *. inversion E; subst sv' c'.
    eapply rq_bind with (R := rtr (p_rnd pl) eq).
    - destruct c; [pfin|].
      eapply rq_bind; [apply d_next_status_rel; [exact R5 | lia]|].
      intros [a6 ns] [b6 ns'] [R6 E6]; simpl in *. subst ns'. pfin.
    - intros [a7 [s prop]] [b7 [s' prop']] [R7 E7]; simpl in *. inversion E7; subst. pfin.
  Qed.

  Lemma update_cred_history_rel : forall pl rt rt', rt_rel (p_rnd pl) rt rt' ->
    rq k (rt_rel (p_rnd pl)) (update_cred_history pm pl rt) (update_cred_history pm pl rt').
  Proof.
    intros pl rt rt' R. unfold update_cred_history.
    destruct (negb (p_per pl =? 0)); [simpl; auto|]. destruct (p_rnd pl <=? pm_crlag pm); [simpl; auto|].
    apply d_read_lowest_rel; auto.
  Qed.

  Lemma enter_period_rel : forall pl rt rt' src target, nowrap pl 0 -> RInv pm D rt -> rt_rel (p_rnd pl) rt rt' ->
    rq k hrel (enter_period pm pl rt src target) (enter_period pm pl rt' src target).
  Proof.
    intros pl rt rt' src target NW I R. unfold enter_period.
    eapply rq_bind; [apply partition_policy_rel; auto|].
    intros [a1 acts] [b1 acts'] [R1 E]; simpl in *. subst acts'.
    eapply rq_bind; [apply pm_threshold_rel; auto|].
    intros [a2 out] [b2 out'] [R2 E]; simpl in *. subst out'.
    destruct out as [[prop auth|prop]|]; simpl; unfold hrel; simpl; auto;
      destruct (th_t src); simpl; auto; destruct (is_bottom (th_val src)); simpl; auto.
  Qed.

  (* ---------- the recursive handler ---------- *)
  (* strict mode only: no verified proposal-vote inside the late-credential window of an OLD round *)
  Definition late_free (pl : player) (m : mevent) : Prop :=
    match me_in m with
    | InVote x => k = true -> me_verified m = true -> useful_for_cred_history pm (p_rnd pl) x = false
    | _ => True
    end.
  Definition pev_wf (pl : player) (bnd : N) (e : pevent) : Prop :=
    match e with
    | PMsg m => mev_wf m /\ late_free pl m
    | PRoundInt r => p_rnd pl < r /\ r + bnd + 2 < 2 ^ 64
    | _ => True
    end.

  Variable bnd : N.
  Variable rec : player -> router -> pevent -> hres.
  Hypothesis Hrec : forall pl rt rt' e,
    RInv pm D rt -> pev_ok pm D pl e -> pev_wf pl bnd e -> nowrap pl bnd -> rt_rel (p_rnd pl) rt rt' ->
    rq k hrel (rec pl rt e) (rec pl rt' e).

  Lemma enter_round_rel : forall pl rt rt' target,
    RInv pm D rt -> rt_rel (p_rnd pl) rt rt' -> nowrap pl 0 -> p_rnd pl <= target -> target + bnd + 1 < 2 ^ 64 ->
    rq k hrel (enter_round pm rec pl rt target) (enter_round pm rec pl rt' target).
  Proof.
    intros pl rt rt' target I R NW LT NT. unfold enter_round.
    eapply rq_bind; [apply rq_wp_l; [apply (pm_new_round_spec pm D); exact I | apply pm_new_round_rel; auto]|].
    intros [a1 e] [b1 e'] [I1 [R1 E]]; simpl in *. subst e'.
    set (pl' := mkPlayer target 0 s_soft (p_step pl) (filter_timeout pm 0) dl_filter false 0 (p_pending pl) (p_pnext pl)).
    assert (R1' : rt_rel target a1 b1) by (eapply rt_rel_mono; eauto).
    eapply rq_bind; [apply rq_wp_l; [apply (d_freshest_spec pm D); exact I1 | apply (d_freshest_rel k pm pl' target); [exact R1' | lia]]|].
    intros [a2 fr] [b2 fr'] [[I2 TP] [R2 E]]; simpl in *. subst fr'.
    destruct fr as [th|]; [|simpl; unfold hrel; simpl; auto].
    eapply rq_bind.
    - apply Hrec; [exact I2 | simpl; apply (TP th); auto | simpl; auto | unfold nowrap, pl'; simpl; lia | exact R2].
    - intros [[pla a3] acts] [[plb b3] acts'] (E1 & E2 & R3); simpl in *. subst plb acts'. unfold hrel; simpl; auto.
  Qed.

  Lemma handle_threshold_rel : forall pl rt rt' th,
    RInv pm D rt -> good_thresh pm D th -> nowrap pl (bnd + 1) -> rt_rel (p_rnd pl) rt rt' ->
    rq k hrel (handle_threshold pm rec pl rt th) (handle_threshold pm rec pl rt' th).
  Proof.
    intros pl rt rt' th I G NW R. unfold handle_threshold.
    assert (NW0 : nowrap pl 0) by (unfold nowrap in *; lia).
    destruct (th_t th) eqn:ET.
    - destruct (th_per th <? p_per pl); [simpl; unfold hrel; simpl; auto|].
      destruct (p_per pl <? th_per th); [apply enter_period_rel; auto|].
      eapply rq_bind; [apply pm_threshold_rel; auto|].
      intros [a1 out] [b1 out'] [R1 E]; simpl in *. subst out'.
      destruct out as [[prop auth|prop]|]; simpl; unfold hrel; simpl; auto.
      destruct (p_step pl <=? s_cert); simpl; auto.
    - eapply rq_bind.
      { apply rq_wp_l; [apply wp_and; [apply (pm_threshold_spec pm D); exact I | apply pm_threshold_round]|apply pm_threshold_rel; auto]. }
      intros [a1 out] [b1 out'] [[[I1 _] ER] [R1 E]]; simpl in *. subst out'.
      eapply rq_bind; [apply rq_wp_l; [apply (d_staged_spec pm D); exact I1 | apply d_staged_rel; [exact R1 | lia]]|].
      intros [a2 [sv c]] [b2 [sv' c']] [[I2 _] [R2 E]]; simpl in *. inversion E; subst sv' c'.
      destruct c.
      + eapply rq_bind; [apply rq_wp_l; [apply (update_cred_history_spec pm D); exact I2 | apply update_cred_history_rel; exact R2]|].
        intros a3 b3 [I3 R3].
        eapply rq_bind.
        * apply enter_round_rel; auto; unfold nowrap in *; rewrite add1_small; lia.
        * intros [[pla a4] acts] [[plb b4] acts'] (E1 & E2 & R4); simpl in *. subst plb acts'. unfold hrel; simpl; auto.
      + destruct (p_per pl <? th_per th).
        * eapply rq_bind; [apply enter_period_rel; auto|].
          intros [[pla a4] acts] [[plb b4] acts'] (E1 & E2 & R4); simpl in *. subst plb acts'. unfold hrel; simpl; auto.
        * simpl. unfold hrel; simpl; auto.
    - destruct (th_per th <? p_per pl); [simpl; unfold hrel; simpl; auto|].
      apply enter_period_rel; auto.
  Qed.
End PlayerRel.

Section PlayerRel2.
  Variable k : bool.
  Variable pm : params.
  Variable D : list vote.
  Hypothesis DYN : pm_dynfilter pm = false.
  Variable bnd : N.
  Variable rec : player -> router -> pevent -> hres.
  Hypothesis Hrec : forall pl rt rt' e,
    RInv pm D rt -> pev_ok pm D pl e -> pev_wf k pm pl bnd e -> nowrap pl bnd -> rt_rel (p_rnd pl) rt rt' ->
    rq k hrel (rec pl rt e) (rec pl rt' e).

  Lemma handle_proposal_vote_rel : forall pl rt rt' m x,
    RInv pm D rt -> nowrap pl (bnd + 1) -> rt_rel (p_rnd pl) rt rt' ->
    (k = true -> me_verified m = true -> useful_for_cred_history pm (p_rnd pl) x = false) ->
    rq k hrel (handle_proposal_vote pm rec pl rt m x) (handle_proposal_vote pm rec pl rt' m x).
  Proof.
    intros pl rt rt' m x I NW R NL. unfold handle_proposal_vote.
    assert (NW0 : nowrap pl 0) by (unfold nowrap in *; lia).
    eapply rq_bind; [apply rq_wp_l; [apply (pm_vote_spec pm D); exact I | apply pm_vote_rel; auto]|].
    intros [a1 ef] [b1 ef'] [I1 [R1 E]]; simpl in E, R1, I1.
    (* the body only depends on ef up to the late-credential note, which is ignored when DynamicFilterTimeout is off *)
    match goal with |- rq k _ (bind ?ba _) (bind ?bb _) => assert (EB : ba = bb) end.
    { cbv zeta. rewrite DYN. destruct ef, ef'; simpl in E; try discriminate; try inversion E; subst; simpl; auto. }
    rewrite EB. clear EB.
    match goal with |- rq k _ (bind ?bb _) (bind ?bb _) => destruct bb as [[[pl1 acts] done]| |] eqn:EBB end;
      [|apply rq_panic|simpl; auto].
    assert (PR : p_rnd pl1 = p_rnd pl).
    { clear -EBB. cbv zeta in EBB. destruct ef'; simpl in EBB;
        repeat match type of EBB with context [if ?c then _ else _] => destruct c end;
        try discriminate; inversion EBB; subst; reflexivity. }
    simpl.
    match goal with |- rq k _ (let '(pl2, tail) := ?pt in _) _ => destruct pt as [pl2 tail] eqn:EPT end.
    assert (PR2 : p_rnd pl2 = p_rnd pl).
    { destruct (me_verified m); inversion EPT; subst; simpl; auto. }
    destruct tail as [t|]; [|simpl; unfold hrel; simpl; repeat split; auto; rewrite PR2; auto].
    destruct done; [|simpl; unfold hrel; simpl; repeat split; auto; rewrite PR2; auto].
    eapply rq_bind.
    - apply Hrec; [exact I1 | | | | rewrite PR2; exact R1].
      + simpl. split; [intros y Hy; simpl in Hy; contradiction|]. unfold payload_ok; simpl. intro C; discriminate.
      + simpl. unfold mev_wf, late_free; simpl; auto.
      + unfold nowrap in *. rewrite PR2. lia.
    - intros [[pla a3] acts3] [[plb b3] acts3'] (E1 & E2 & R3); simpl in *. subst plb acts3'. unfold hrel; simpl; auto.
  Qed.

  Lemma handle_message_rel : forall pl rt rt' m,
    RInv pm D rt -> (forall x, In x (delivered_by m) -> In x D) -> payload_ok pl m -> mev_wf m -> late_free k pm pl m ->
    nowrap pl (bnd + 1) -> rt_rel (p_rnd pl) rt rt' ->
    rq k hrel (handle_message pm rec pl rt m) (handle_message pm rec pl rt' m).
  Proof.
    intros pl rt rt' m I S PO WF LF NW R. unfold handle_message.
    assert (NW0 : nowrap pl 0) by (unfold nowrap in *; lia).
    assert (NWB : nowrap pl bnd) by (unfold nowrap in *; lia).
    destruct (me_in m) as [x|b|pv] eqn:EM.
    - destruct (vt_step x =? s_propose); [apply handle_proposal_vote_rel; auto; unfold late_free in LF; rewrite EM in LF; exact LF|].
      eapply rq_bind; [apply rq_wp_l; [apply (va_handle_spec pm D); [exact I | exact S] | apply va_handle_rel; auto]|].
      intros [a1 ef] [b1 ef'] [[I1 G1] [R1 E]]; simpl in *. subst ef'.
      destruct ef as [| | |th]; simpl; try (unfold hrel; simpl; auto; fail).
      + destruct (negb (me_verified m)); simpl; unfold hrel; simpl; auto.
      + destruct (negb (me_verified m)); [simpl; unfold hrel; simpl; auto|].
        eapply rq_bind; [apply Hrec; [exact I1 | simpl; inversion G1; auto | simpl; auto | exact NWB | exact R1]|].
        intros [[pla a3] acts3] [[plb b3] acts3'] (E1 & E2 & R3); simpl in *. subst plb acts3'. unfold hrel; simpl; auto.
    - eapply rq_bind; [apply rq_wp_l; [apply (va_handle_spec pm D); [exact I | exact S] | apply va_handle_rel; auto]|].
      intros [a1 ef] [b1 ef'] [[I1 G1] [R1 E]]; simpl in *. subst ef'.
      destruct ef as [| | |th]; simpl; try (unfold hrel; simpl; auto; fail).
      + destruct (negb (me_verified m)); simpl; [unfold hrel; simpl; auto | exact Logic.I].
      + destruct (negb (me_verified m)); [simpl; unfold hrel; simpl; auto|].
        eapply rq_bind; [apply Hrec; [exact I1 | simpl; inversion G1; auto | simpl; auto | exact NWB | exact R1]|].
        intros [[pla a3] acts3] [[plb b3] acts3'] (E1 & E2 & R3); simpl in *. subst plb acts3'. unfold hrel; simpl; auto.
    - eapply rq_bind; [apply rq_wp_l; [apply (pm_payload_spec pm D); eauto | apply pm_payload_rel; auto]|].
      intros [a1 ef] [b1 ef'] [[I1 PA] [R1 E]]; simpl in *. subst ef'.
      assert (TAILS : forall acts1 (th : thresh) ra rb,
                RInv pm D ra -> rt_rel (p_rnd pl) ra rb -> ub_rnd (th_b th) = p_rnd pl ->
                rq k hrel
                  (do rt3 <- update_cred_history pm pl ra;
                   do r3 <- enter_round pm rec pl rt3 (add1 (ub_rnd (th_b th)));
                   (let '(pl2, rt4, as_) := r3 in Ok (pl2, rt4, acts1 ++ AEnsure pv (th_b th) :: as_)))
                  (do rt3 <- update_cred_history pm pl rb;
                   do r3 <- enter_round pm rec pl rt3 (add1 (ub_rnd (th_b th)));
                   (let '(pl2, rt4, as_) := r3 in Ok (pl2, rt4, acts1 ++ AEnsure pv (th_b th) :: as_)))).
      { intros acts1 th ra rb IA RA EU.
        eapply rq_bind; [apply rq_wp_l; [apply (update_cred_history_spec pm D); exact IA | apply update_cred_history_rel; exact RA]|].
        intros a3 b3 [I3 R3].
        eapply rq_bind.
        - apply (enter_round_rel k pm D DYN bnd rec Hrec); auto; unfold nowrap in *; rewrite EU, add1_small; lia.
        - intros [[pla a4] acts4] [[plb b4] acts4'] (E1 & E2 & R4); simpl in *. subst plb acts4'. unfold hrel; simpl; auto. }
      destruct ef as [| | |rnd per pinned prop auth|prop auth|prop auth]; try (simpl; unfold hrel; simpl; auto; fail).
      + cbv zeta. destruct (rnd =? p_rnd pl); [simpl; unfold hrel; simpl; auto|]. simpl.
        destruct (mm_hnil (me_meta m)); simpl; unfold hrel; simpl; auto.
      + cbv zeta. simpl.
        eapply rq_bind; [apply rq_wp_l; [apply (d_freshest_spec pm D); exact I1 | apply d_freshest_rel; [exact R1 | lia]]|].
        intros [a2 fr] [b2 fr'] [[I2 TP] [R2 E]]; simpl in *. subst fr'.
        destruct fr as [th|]; [|simpl; unfold hrel; simpl; auto].
        destruct (tkind_eqb (th_t th) TCert && value_eqb (th_val th) pv); [|simpl; unfold hrel; simpl; auto].
        destruct (TP th eq_refl) as [G ER]. apply TAILS; auto. rewrite (good_thresh_round _ _ _ G); auto.
      + cbv zeta. simpl.
        eapply rq_bind; [apply rq_wp_l; [apply (d_freshest_spec pm D); exact I1 | apply d_freshest_rel; [exact R1 | lia]]|].
        intros [a2 fr] [b2 fr'] [[I2 TP] [R2 E]]; simpl in *. subst fr'.
        assert (FIN : rq k hrel
                  (if p_step pl <=? s_cert
                   then Ok (pl, a2, (if mm_hnil (me_meta m) then [] ++ [ARelayCompound pv auth] else []) ++ [AAttest (p_rnd pl) (p_per pl) s_cert prop])
                   else Ok (pl, a2, if mm_hnil (me_meta m) then [] ++ [ARelayCompound pv auth] else []))
                  (if p_step pl <=? s_cert
                   then Ok (pl, b2, (if mm_hnil (me_meta m) then [] ++ [ARelayCompound pv auth] else []) ++ [AAttest (p_rnd pl) (p_per pl) s_cert prop])
                   else Ok (pl, b2, if mm_hnil (me_meta m) then [] ++ [ARelayCompound pv auth] else []))).
        { destruct (p_step pl <=? s_cert); simpl; unfold hrel; simpl; auto. }
        destruct fr as [th|]; [|exact FIN].
        destruct (tkind_eqb (th_t th) TCert && value_eqb (th_val th) pv); [|exact FIN].
        destruct (TP th eq_refl) as [G ER]. apply TAILS; auto. rewrite (good_thresh_round _ _ _ G); auto.
  Qed.

  Lemma handle_fast_timeout_rel : forall pl rt rt' en bad,
    RInv pm D rt -> nowrap pl 0 -> rt_rel (p_rnd pl) rt rt' ->
    rq k hrel (handle_fast_timeout pm pl rt en bad) (handle_fast_timeout pm pl rt' en bad).
  Proof.
    intros pl rt rt' en bad I NW R. unfold handle_fast_timeout.
    destruct bad; [simpl; unfold hrel; simpl; auto|]. destruct (pm_frlambda pm =? 0); [exact Logic.I|].
    destruct (p_frd pl =? 0); [simpl; unfold hrel; simpl; auto|].
    eapply rq_bind; [apply (issue_fast_vote_rel k pm D DYN); auto|].
    intros [a1 acts] [b1 acts'] [R1 E]; simpl in *. subst acts'. unfold hrel; simpl; auto.
  Qed.

  Lemma handle_timeout_rel : forall pl rt rt' en bad,
    RInv pm D rt -> nowrap pl 0 -> rt_rel (p_rnd pl) rt rt' ->
    rq k hrel (handle_timeout pm pl rt en bad) (handle_timeout pm pl rt' en bad).
  Proof.
    intros pl rt rt' en bad I NW R. unfold handle_timeout.
    destruct (p_step pl =? s_soft).
    - eapply rq_bind; [apply issue_soft_vote_rel; auto|].
      intros [[pla a1] acts] [[plb b1] acts'] (E1 & E2 & R1); simpl in *. subst plb acts'. unfold hrel; simpl; auto.
    - destruct (p_step pl =? s_cert); [apply (issue_next_vote_rel k pm D DYN); auto|].
      destruct (p_nap pl); [apply (issue_next_vote_rel k pm D DYN); auto|].
      destruct (next_vote_ranges pm _ _) as [lo up].
      destruct (up - lo =? 0); [exact Logic.I|]. simpl. unfold hrel; simpl; auto.
  Qed.

  Lemma handle_body_rel : forall pl rt rt' e,
    RInv pm D rt -> pev_ok pm D pl e -> pev_wf k pm pl (bnd + 1) e -> nowrap pl (bnd + 1) -> rt_rel (p_rnd pl) rt rt' ->
    rq k hrel (handle_body pm rec pl rt e) (handle_body pm rec pl rt' e).
  Proof.
    intros pl rt rt' e I PE WF NW R.
    assert (NW0 : nowrap pl 0) by (unfold nowrap in *; lia).
    destruct e as [m|th|fast en bad|r|r p s err]; simpl.
    - destruct PE. destruct WF. apply handle_message_rel; auto.
    - apply (handle_threshold_rel k pm D DYN bnd rec Hrec); auto.
    - destruct fast; [apply handle_fast_timeout_rel | apply handle_timeout_rel]; auto.
    - simpl in WF. destruct WF. apply (enter_round_rel k pm D DYN bnd rec Hrec); auto; lia.
    - unfold hrel; simpl; auto.
  Qed.
End PlayerRel2.

Lemma p_handle_rel : forall k pm D, pm_dynfilter pm = false -> forall fuel pl rt rt' e,
  RInv pm D rt -> pev_ok pm D pl e -> pev_wf k pm pl (N.of_nat fuel) e -> nowrap pl (N.of_nat fuel) -> rt_rel (p_rnd pl) rt rt' ->
  rq k hrel (p_handle fuel pm pl rt e) (p_handle fuel pm pl rt' e).
Proof.
  intros k pm D DYN. induction fuel as [|f IH]; intros pl rt rt' e I PE WF NW R; simpl; [exact Logic.I|].
  apply (handle_body_rel k pm D DYN (N.of_nat f) (p_handle f pm)); auto.
  - replace (N.of_nat f + 1) with (N.of_nat (S f)) by lia. exact WF.
  - unfold nowrap in *. lia.
Qed.

(* ---------- submitTop, whole runs, the persistence projection ---------- *)
Definition srel (x y : state * list action) : Prop :=
  s_pl (fst x) = s_pl (fst y) /\ snd x = snd y /\ rt_rel (p_rnd (s_pl (fst x))) (s_rt (fst x)) (s_rt (fst y)).

Definition ev_ok (k : bool) (pm : params) (st : state) (e : ext_event) : Prop :=
  ev_payload_ok (s_pl st) e /\ pev_wf k pm (s_pl st) (N.of_nat default_fuel) (pevent_of e) /\
  nowrap (s_pl st) (N.of_nat default_fuel).

Lemma step_rel : forall k pm D st st' e,
  pm_dynfilter pm = false -> RInv pm D (s_rt st) -> (forall x, In x (ev_delivered e) -> In x D) -> ev_ok k pm st e ->
  s_pl st = s_pl st' -> rt_rel (p_rnd (s_pl st)) (s_rt st) (s_rt st') ->
  rq k srel (step pm st e) (step pm st' e).
Proof.
  intros k pm D st st' e DYN I S (PO & WF & NW) EP R. unfold step. rewrite <- EP.
  eapply rq_bind.
  - apply (p_handle_rel k pm D DYN default_fuel); auto.
    + apply root_update_inv; exact I.
    + destruct e; simpl in *; auto.
    + apply root_update_rel; exact R.
  - intros [[pla a1] acts] [[plb b1] acts'] (E1 & E2 & R1); simpl in *. subst plb acts'. unfold srel; simpl; auto.
Qed.

Fixpoint trace_wf (k : bool) (pm : params) (st : state) (es : list ext_event) : Prop :=
  match es with
  | [] => True
  | e :: es' => ev_ok k pm st e /\ match step pm st e with Ok (st1, _) => trace_wf k pm st1 es' | _ => True end
  end.

Lemma run_rel : forall k pm, pm_dynfilter pm = false -> forall es D st st',
  RInv pm D (s_rt st) -> trace_wf k pm st es -> s_pl st = s_pl st' -> rt_rel (p_rnd (s_pl st)) (s_rt st) (s_rt st') ->
  forall i a b, nth_error (fst (run pm st es)) i = Some a -> nth_error (fst (run pm st' es)) i = Some b ->
    fst a = fst b /\ s_pl (snd a) = s_pl (snd b) /\ rt_rel (p_rnd (s_pl (snd a))) (s_rt (snd a)) (s_rt (snd b)).
Proof.
  intros k pm DYN. induction es as [|e es IH]; intros D st st' I T EP R i a b HA HB; simpl in HA, HB.
  - destruct i; discriminate.
  - destruct T as [EO T].
    set (D1 := D ++ ev_delivered e).
    assert (I1 : RInv pm D1 (s_rt st)) by (eapply RInv_mono; [|exact I]; intros x Hx; apply in_or_app; auto).
    pose proof (step_rel k pm D1 st st' e DYN I1 (fun x Hx => in_or_app _ _ _ (or_intror Hx)) EO EP R) as SR.
    pose proof (step_spec pm D1 st e I1 (fun x Hx => in_or_app _ _ _ (or_intror Hx)) (proj1 EO)) as SP.
    destruct (step pm st e) as [[st1 acts1]| |]; simpl in HA; try (destruct i; discriminate).
    destruct (step pm st' e) as [[st2 acts2]| |]; simpl in HB; try (destruct i; discriminate).
    destruct (run pm st1 es) as [l1 o1] eqn:E1. destruct (run pm st2 es) as [l2 o2] eqn:E2. simpl in HA, HB.
    destruct SR as (P1 & P2 & P3); simpl in P1, P2, P3. destruct SP as [A _]; simpl in A.
    destruct i; simpl in HA, HB.
    + inversion HA; inversion HB; subst; simpl. auto.
    + pose proof (IH D1 st1 st2 A T P1 P3 i a b) as H. rewrite E1, E2 in H. apply H; auto.
Qed.

(* strict mode: the two runs also stop at the same step in the same way *)
Definition same_outcome (o o' : outcome) : Prop :=
  match o, o' with
  | Finished, Finished => True
  | Panicked _, Panicked _ => True
  | Exhausted, Exhausted => True
  | _, _ => False
  end.

Lemma run_rel_strict : forall pm, pm_dynfilter pm = false -> forall es D st st',
  RInv pm D (s_rt st) -> trace_wf true pm st es -> s_pl st = s_pl st' -> rt_rel (p_rnd (s_pl st)) (s_rt st) (s_rt st') ->
  List.length (fst (run pm st es)) = List.length (fst (run pm st' es)) /\
  same_outcome (snd (run pm st es)) (snd (run pm st' es)).
Proof.
  intros pm DYN. induction es as [|e es IH]; intros D st st' I T EP R; simpl; auto.
  destruct T as [EO T].
  set (D1 := D ++ ev_delivered e).
  assert (I1 : RInv pm D1 (s_rt st)) by (eapply RInv_mono; [|exact I]; intros x Hx; apply in_or_app; auto).
  pose proof (step_rel true pm D1 st st' e DYN I1 (fun x Hx => in_or_app _ _ _ (or_intror Hx)) EO EP R) as SR.
  pose proof (step_spec pm D1 st e I1 (fun x Hx => in_or_app _ _ _ (or_intror Hx)) (proj1 EO)) as SP.
  destruct (step pm st e) as [[st1 acts1]| |]; destruct (step pm st' e) as [[st2 acts2]| |]; simpl in SR; try discriminate; simpl; auto.
  destruct SR as (P1 & P2 & P3); simpl in P1, P2, P3. destruct SP as [A _]; simpl in A.
  pose proof (IH D1 st1 st2 A T P1 P3) as [H1 H2].
  destruct (run pm st1 es) as [l1 o1]. destruct (run pm st2 es) as [l2 o2]. simpl in *. auto.
Qed.

(* the restored state is related to the original one *)
Definition pending_nil (pl : player) : Prop :=
  forall k v m, In (k, Some (v, m)) (p_pending pl) -> mm_hnil m = true.

Lemma persist_player_id : forall pl, pending_nil pl -> persist_player pl = pl.
Proof.
  intros pl H. unfold persist_player, set_pending. destruct pl as [r p s l d dt n f pend nx]; simpl in *. f_equal.
  induction pend as [|[k t] rest IH]; simpl; auto.
  rewrite IH; [|intros k' v m Hk; eapply H; right; eauto]. f_equal.
  destruct t as [[v m]|]; auto. f_equal. f_equal. f_equal.
  pose proof (H k v m (or_introl eq_refl)) as E. destruct m; simpl in *; subst; reflexivity.
Qed.

Lemma aget_map_snd' : forall (A B : Type) (f : A -> B) k (l : list (N * A)),
  aget N.eqb k (map (fun kv => (fst kv, f (snd kv))) l) = option_map f (aget N.eqb k l).
Proof. induction l as [|[k0 v0] t IH]; simpl; auto. destruct (k =? k0); auto. Qed.

Lemma persist_pn_rel : forall pn, pn_rel pn (persist_pn pn).
Proof. intro pn. unfold pn_rel, pt_rel, sk_rel; simpl. repeat split; auto. Qed.

Lemma persist_rn_rel : forall rn, rn_rel rn (persist_rn rn).
Proof.
  intro rn. split; [|split]; simpl; auto. intro p. rewrite (aget_map_snd' _ _ persist_pn).
  destruct (aget N.eqb p (rn_periods rn)); simpl; auto. apply persist_pn_rel.
Qed.

Lemma persist_router_rel : forall pl rt, rt_rel (p_rnd pl) rt (persist_router pl rt).
Proof.
  intros pl rt r L. unfold persist_router. rewrite (aget_map_snd' _ _ persist_rn).
  rewrite (aget_filter_key N.eqb N.eqb_eq (fun k => p_rnd pl <=? k)); [|apply N.leb_le; auto].
  destruct (aget N.eqb r rt); simpl; auto. apply persist_rn_rel.
Qed.

(* states reached from a fresh round satisfy the invariant of C03 *)
From Verif.model Require Import AgreementCheck.
Lemma reach_inv : forall pm es D st st',
  RInv pm D (s_rt st) -> trace_ok pm st es -> state_after pm st es = Some st' ->
  RInv pm (D ++ delivered es) (s_rt st').
Proof.
  induction es as [|e es IH]; intros D st st' I T H; simpl in *.
  - inversion H; subst. unfold delivered; simpl. rewrite app_nil_r; auto.
  - destruct T as [PO T].
    set (D1 := D ++ ev_delivered e).
    assert (I1 : RInv pm D1 (s_rt st)) by (eapply RInv_mono; [|exact I]; intros x Hx; apply in_or_app; auto).
    pose proof (step_spec pm D1 st e I1 (fun x Hx => in_or_app _ _ _ (or_intror Hx)) PO) as SP.
    destruct (step pm st e) as [[st1 acts1]| |]; try discriminate. destruct SP as [A _]; simpl in A.
    pose proof (IH D1 st1 st' A T H) as H2. unfold delivered in *; simpl. unfold D1 in H2. rewrite <- app_assoc in H2. exact H2.
Qed.

(* C07, behavioural part, for protocols without DynamicFilterTimeout: from every state sigma reachable
   from a fresh round whose Pending tails are own (handle-less) messages, the run from
   restore (persist sigma) and the run from sigma emit the same action lists, keep the same player and
   the same state on everything persistence keeps, at every step at which both runs are defined.
   PARTIAL: nothing is claimed from the first step on at which either run panics -- missing is the proof
   that a panic occurs in one run iff in the other when verified late proposal-votes for rounds OLDER
   than the player's round are delivered (the proposalTracker contract post-condition on a router the
   restored node re-created empty); see the strict theorem below for the complement. *)
Theorem restore_persist_id_on_observables_partial_proof : forall pm r0 es0 sigma es,
  pm_dynfilter pm = false ->
  trace_ok pm (init pm r0) es0 -> state_after pm (init pm r0) es0 = Some sigma ->
  pending_nil (s_pl sigma) -> trace_wf false pm sigma es ->
  forall i a b,
    nth_error (fst (run pm sigma es)) i = Some a ->
    nth_error (fst (run pm (restore (persist sigma)) es)) i = Some b ->
    fst a = fst b /\ s_pl (snd a) = s_pl (snd b) /\
    rt_rel (p_rnd (s_pl (snd a))) (s_rt (snd a)) (s_rt (snd b)).
Proof.
  intros pm r0 es0 sigma es DYN T0 H0 PN T i a b HA HB.
  pose proof (reach_inv pm es0 [] (init pm r0) sigma (RInv_init pm [] r0) T0 H0) as I.
  eapply (run_rel false pm DYN es _ sigma (restore (persist sigma))); eauto.
  - unfold restore, persist; simpl. rewrite persist_player_id; auto.
  - unfold restore, persist; simpl. apply persist_router_rel.
Qed.

(* strict version: if, in addition, no VERIFIED proposal-vote inside the late-credential window of a
   round older than the player's round is delivered after the restart ([trace_wf true]), the two runs
   are in lockstep for the whole continuation: same number of steps, same way of ending (finished /
   panic / fuel), and at every step the same actions, player and persisted-observable state *)
Theorem restore_persist_id_on_observables_strict_proof : forall pm r0 es0 sigma es,
  pm_dynfilter pm = false ->
  trace_ok pm (init pm r0) es0 -> state_after pm (init pm r0) es0 = Some sigma ->
  pending_nil (s_pl sigma) -> trace_wf true pm sigma es ->
  let ro := run pm sigma es in
  let rr := run pm (restore (persist sigma)) es in
  List.length (fst ro) = List.length (fst rr) /\ same_outcome (snd ro) (snd rr) /\
  forall i a b, nth_error (fst ro) i = Some a -> nth_error (fst rr) i = Some b ->
    fst a = fst b /\ s_pl (snd a) = s_pl (snd b) /\
    rt_rel (p_rnd (s_pl (snd a))) (s_rt (snd a)) (s_rt (snd b)).
Proof.
  intros pm r0 es0 sigma es DYN T0 H0 PN T ro rr.
  pose proof (reach_inv pm es0 [] (init pm r0) sigma (RInv_init pm [] r0) T0 H0) as I.
  assert (EP : s_pl sigma = s_pl (restore (persist sigma))) by (unfold restore, persist; simpl; rewrite persist_player_id; auto).
  assert (RR : rt_rel (p_rnd (s_pl sigma)) (s_rt sigma) (s_rt (restore (persist sigma)))) by (unfold restore, persist; simpl; apply persist_router_rel).
  destruct (run_rel_strict pm DYN es _ sigma (restore (persist sigma)) I T EP RR) as [L O].
  split; [exact L|]. split; [exact O|].
  intros i a b HA HB. eapply (run_rel true pm DYN es _ sigma (restore (persist sigma))); eauto.
Qed.
