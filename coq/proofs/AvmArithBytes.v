(* C32 proofs, part 2: big-endian byte strings -- decoding, minimal / fixed-width encoding,
   comparison, bitwise operations, bit/byte access -- and the byte-math opcodes. *)
From Coq Require Import NArith ZArith List Bool Lia ZifyN ZifyNat ZifyBool.
From Verif.model Require Import AvmArith AvmArithSpec.
From Verif.proofs Require Import AvmArithUint.
Import ListNotations.
Open Scope N_scope.

Definition bytes_wf (l : list N) : Prop := Forall (fun b => b < 256) l.

(* positional weight of a byte with n bytes to its right *)
Definition P8 (n : nat) : N := 2 ^ (8 * N.of_nat n).

Lemma P8_0 : P8 0 = 1. Proof. reflexivity. Qed.
Lemma P8_S : forall n, P8 (S n) = 256 * P8 n.
Proof.
  intros n. unfold P8. rewrite Nat2N.inj_succ.
  replace (8 * N.succ (N.of_nat n)) with (8 + 8 * N.of_nat n) by lia.
  rewrite N.pow_add_r. reflexivity.
Qed.
Lemma P8_pos : forall n, 0 < P8 n.
Proof. intros. unfold P8. apply N.neq_0_lt_0, N.pow_nonzero. lia. Qed.
Lemma P8_add : forall n m, P8 (n + m) = P8 n * P8 m.
Proof.
  intros. unfold P8. rewrite Nat2N.inj_add, N.mul_add_distr_l, N.pow_add_r. reflexivity.
Qed.
Lemma P8_le : forall n m, (n <= m)%nat -> P8 n <= P8 m.
Proof. intros. unfold P8. apply N.pow_le_mono_r; lia. Qed.

Lemma be_val_cons : forall b t, be_val (b :: t) = b * P8 (length t) + be_val t.
Proof. intros. cbn [be_val]. rewrite N.shiftl_mul_pow2. reflexivity. Qed.

Lemma be_val_nil : be_val [] = 0. Proof. reflexivity. Qed.

Lemma be_val_bound : forall l, bytes_wf l -> be_val l < P8 (length l).
Proof.
  induction l as [|b t IH]; intros H.
  - cbn [length be_val]. rewrite P8_0. lia.
  - inversion H as [|? ? Hb Ht]; subst. specialize (IH Ht).
    rewrite be_val_cons. cbn [length]. rewrite P8_S.
    pose proof (P8_pos (length t)). nia.
Qed.

Lemma be_val_app : forall a b, be_val (a ++ b) = be_val a * P8 (length b) + be_val b.
Proof.
  induction a as [|x a IH]; intros b.
  - cbn [app]. rewrite be_val_nil. lia.
  - cbn [app]. rewrite !be_val_cons, IH, app_length, P8_add. lia.
Qed.

Lemma bytes_wf_app : forall a b, bytes_wf (a ++ b) <-> bytes_wf a /\ bytes_wf b.
Proof. intros. apply Forall_app. Qed.

Lemma bytes_ok_wf : forall l, bytes_ok l = true <-> bytes_wf l.
Proof.
  intros l. unfold bytes_ok, bytes_wf. rewrite forallb_forall, Forall_forall.
  split; intros H x Hx; specialize (H x Hx); [apply N.ltb_lt | apply N.ltb_lt]; assumption.
Qed.

(* ---- SetBytes (Horner fold) = positional value ---- *)
Lemma setbytes_fold : forall l acc,
  fold_left (fun acc b => acc * 256 + b) l acc = acc * P8 (length l) + be_val l.
Proof.
  induction l as [|b t IH]; intros acc.
  - cbn [fold_left length]. rewrite P8_0, be_val_nil. lia.
  - cbn [fold_left length]. rewrite IH, be_val_cons, P8_S. lia.
Qed.

Lemma setbytes_val : forall l, setbytes l = be_val l.
Proof. intros. unfold setbytes. rewrite setbytes_fold. lia. Qed.

(* ---- Bytes (minimal big-endian) ---- *)
Lemma bytes_fuel_spec : forall fuel n acc, n < P8 fuel ->
  exists pre, bytes_fuel fuel n acc = pre ++ acc /\ be_val pre = n /\ bytes_wf pre /\ hd 1 pre <> 0.
Proof.
  induction fuel as [|f IH]; intros n acc Hn.
  - rewrite P8_0 in Hn. assert (n = 0) by lia. subst n.
    exists []. cbn. repeat split; [constructor | lia].
  - cbn [bytes_fuel]. destruct (N.eqb_spec n 0) as [->|Hn0].
    + exists []. cbn. repeat split; [constructor | lia].
    + rewrite P8_S in Hn.
      assert (Hq : n / 256 < P8 f) by (apply N.div_lt_upper_bound; lia).
      destruct (IH (n / 256) (n mod 256 :: acc) Hq) as (pre & E & Hv & Hwf & Hhd).
      exists (pre ++ [n mod 256]). rewrite E, <- app_assoc. split; [reflexivity|].
      split; [|split].
      * rewrite be_val_app, Hv. cbn [length]. rewrite P8_S, P8_0, be_val_cons, be_val_nil. cbn [length].
        rewrite P8_0. pose proof (N.div_mod n 256). lia.
      * apply bytes_wf_app. split; [assumption|]. constructor; [|constructor].
        apply N.mod_lt. lia.
      * destruct pre as [|x pre]; cbn [app hd] in *; [|assumption].
        rewrite be_val_nil in Hv. pose proof (N.div_mod n 256). lia.
Qed.

Lemma size_fuel : forall n, n < P8 (N.to_nat (N.size n)).
Proof.
  intros n. unfold P8. rewrite N2Nat.id.
  apply N.lt_le_trans with (2 ^ N.size n); [apply N.size_gt|].
  apply N.pow_le_mono_r; lia.
Qed.

Theorem bigbytes_min : forall n,
  be_val (bigbytes n) = n /\ bytes_wf (bigbytes n) /\ hd 1 (bigbytes n) <> 0.
Proof.
  intros n. unfold bigbytes.
  destruct (bytes_fuel_spec (N.to_nat (N.size n)) n [] (size_fuel n)) as (pre & E & Hv & Hwf & Hhd).
  rewrite E, app_nil_r. auto.
Qed.

(* ---- comparison of equal-length strings is numeric comparison ---- *)
Lemma bytes_compare_val : forall a b, length a = length b -> bytes_wf a -> bytes_wf b ->
  bytes_compare a b = (be_val a ?= be_val b).
Proof.
  induction a as [|x a IH]; intros [|y b] Hl Ha Hb; try discriminate.
  - reflexivity.
  - cbn [length] in Hl. injection Hl as Hl.
    inversion Ha as [|? ? Hx Ha']; inversion Hb as [|? ? Hy Hb']; subst.
    cbn [bytes_compare]. rewrite !be_val_cons, <- Hl.
    pose proof (be_val_bound a Ha'). pose proof (be_val_bound b Hb') as Hbb. rewrite <- Hl in Hbb.
    pose proof (P8_pos (length a)).
    destruct (N.compare_spec x y) as [->|Hlt|Hgt].
    + rewrite IH by assumption.
      destruct (N.compare_spec (be_val a) (be_val b)) as [E|E|E]; symmetry.
      * apply N.compare_eq_iff. lia.
      * apply N.compare_lt_iff. lia.
      * apply N.compare_gt_iff. lia.
    + symmetry. apply N.compare_lt_iff. nia.
    + symmetry. apply N.compare_gt_iff. nia.
Qed.

Lemma be_val_inj : forall a b, length a = length b -> bytes_wf a -> bytes_wf b ->
  be_val a = be_val b -> a = b.
Proof.
  induction a as [|x a IH]; intros [|y b] Hl Ha Hb Hv; try discriminate; [reflexivity|].
  cbn [length] in Hl. injection Hl as Hl.
  inversion Ha as [|? ? Hx Ha']; inversion Hb as [|? ? Hy Hb']; subst.
  rewrite !be_val_cons, <- Hl in Hv.
  pose proof (be_val_bound a Ha'). pose proof (be_val_bound b Hb') as Hbb. rewrite <- Hl in Hbb.
  pose proof (P8_pos (length a)).
  assert (x = y) by nia. subst y.
  f_equal. apply IH; try assumption. lia.
Qed.

Lemma bytes_equal_iff : forall a b, bytes_equal a b = true <-> a = b.
Proof.
  induction a as [|x a IH]; intros [|y b]; cbn [bytes_equal]; split; intros H;
    try discriminate; try reflexivity.
  - apply andb_true_iff in H as [H1 H2]. apply N.eqb_eq in H1. apply IH in H2. subst. reflexivity.
  - injection H as -> ->. rewrite N.eqb_refl. cbn [andb]. apply IH. reflexivity.
Qed.

Lemma list_N_eqb_iff : forall a b, list_N_eqb a b = true <-> a = b.
Proof.
  induction a as [|x a IH]; intros [|y b]; cbn [list_N_eqb]; split; intros H;
    try discriminate; try reflexivity.
  - apply andb_true_iff in H as [H1 H2]. apply N.eqb_eq in H1. apply IH in H2. subst. reflexivity.
  - injection H as -> ->. rewrite N.eqb_refl. cbn [andb]. apply IH. reflexivity.
Qed.

Lemma bytes_equal_list_N_eqb : forall a b, bytes_equal a b = list_N_eqb a b.
Proof.
  induction a as [|x a IH]; intros [|y b]; cbn [bytes_equal list_N_eqb]; try reflexivity.
Qed.

(* ---- nonzero: strip leading zero bytes ---- *)
Lemma nonzero_val : forall l, be_val (nonzero l) = be_val l.
Proof.
  induction l as [|b t IH]; [reflexivity|]. cbn [nonzero].
  destruct (N.eqb_spec b 0) as [->|Hb]; cbn [negb]; [|reflexivity].
  rewrite IH, be_val_cons. lia.
Qed.
Lemma nonzero_wf : forall l, bytes_wf l -> bytes_wf (nonzero l).
Proof.
  induction l as [|b t IH]; intros H; [constructor|]. cbn [nonzero].
  destruct (N.eqb_spec b 0); cbn [negb]; [|assumption]. inversion H; subst. apply IH. assumption.
Qed.
Lemma nonzero_hd : forall l, hd 1 (nonzero l) <> 0.
Proof.
  induction l as [|b t IH]; [cbn; lia|]. cbn [nonzero].
  destruct (N.eqb_spec b 0); cbn [negb hd]; assumption.
Qed.

(* a stripped string of length n > 0 has value >= 256^(n-1) *)
Lemma stripped_lower : forall l, hd 1 l <> 0 -> l <> [] -> P8 (length l - 1) <= be_val l.
Proof.
  intros [|b t] Hhd Hne; [contradiction|]. cbn [hd length] in *.
  rewrite be_val_cons. replace (S (length t) - 1)%nat with (length t) by lia.
  pose proof (P8_pos (length t)). nia.
Qed.

Lemma stripped_len_lt : forall a b, bytes_wf a -> hd 1 b <> 0 ->
  (length a < length b)%nat -> be_val a < be_val b.
Proof.
  intros a b Ha Hb Hl.
  assert (b <> []) by (destruct b; cbn [length] in Hl; [lia | discriminate]).
  pose proof (be_val_bound a Ha). pose proof (stripped_lower b Hb H).
  pose proof (P8_le (length a) (length b - 1) ltac:(lia)). lia.
Qed.

Lemma bytes_lt_v_spec : forall a b, bytes_wf a -> bytes_wf b ->
  bytes_lt_v a b = b2u (be_val a <? be_val b).
Proof.
  intros a b Ha Hb. unfold bytes_lt_v.
  pose proof (nonzero_wf a Ha) as Wa. pose proof (nonzero_wf b Hb) as Wb.
  pose proof (nonzero_hd a) as Ka. pose proof (nonzero_hd b) as Kb.
  rewrite <- (nonzero_val a), <- (nonzero_val b).
  destruct (Nat.ltb_spec (length (nonzero a)) (length (nonzero b))) as [L|L].
  - pose proof (stripped_len_lt _ _ Wa Kb L).
    destruct (N.ltb_spec (be_val (nonzero a)) (be_val (nonzero b))); [reflexivity | lia].
  - destruct (Nat.ltb_spec (length (nonzero b)) (length (nonzero a))) as [L'|L'].
    + pose proof (stripped_len_lt _ _ Wb Ka L').
      destruct (N.ltb_spec (be_val (nonzero a)) (be_val (nonzero b))); [lia | reflexivity].
    + rewrite bytes_compare_val by (try assumption; lia).
      destruct (N.compare_spec (be_val (nonzero a)) (be_val (nonzero b))) as [E|E|E];
        destruct (N.ltb_spec (be_val (nonzero a)) (be_val (nonzero b))); try lia; reflexivity.
Qed.

Lemma bytes_eq_v_spec : forall a b, bytes_wf a -> bytes_wf b ->
  bytes_equal (nonzero a) (nonzero b) = (be_val a =? be_val b).
Proof.
  intros a b Ha Hb.
  pose proof (nonzero_wf a Ha) as Wa. pose proof (nonzero_wf b Hb) as Wb.
  pose proof (nonzero_hd a) as Ka. pose proof (nonzero_hd b) as Kb.
  rewrite <- (nonzero_val a), <- (nonzero_val b).
  destruct (N.eqb_spec (be_val (nonzero a)) (be_val (nonzero b))) as [E|E].
  - apply bytes_equal_iff. apply be_val_inj; try assumption.
    destruct (Nat.lt_trichotomy (length (nonzero a)) (length (nonzero b))) as [L|[L|L]]; [|assumption|].
    + pose proof (stripped_len_lt _ _ Wa Kb L). lia.
    + pose proof (stripped_len_lt _ _ Wb Ka L). lia.
  - destruct (bytes_equal (nonzero a) (nonzero b)) eqn:Q; [|reflexivity].
    apply bytes_equal_iff in Q. rewrite Q in E. contradiction.
Qed.

(* ---- the byte-math opcodes ---- *)
Definition guard64 (a b : list N) (r : res) : res :=
  if (64 <? blen a) || (64 <? blen b) then Err else r.

Lemma too_long_blen : forall l, too_long l = (64 <? blen l).
Proof. reflexivity. Qed.

Lemma guard_swap : forall a b r,
  (if too_long b || too_long a then Err else r) = guard64 a b r.
Proof. intros. unfold guard64. rewrite !too_long_blen, orb_comm. reflexivity. Qed.

Lemma of_N_not_neg : forall q, (Z.of_N q <? 0)%Z = false.
Proof. intros. apply Z.ltb_ge, N2Z.is_nonneg. Qed.

Lemma bplus_spec : forall a b,
  opBytesPlus a b = guard64 a b (Ok [B (bigbytes (be_val a + be_val b))]).
Proof.
  intros. unfold opBytesPlus, bytes_binop. rewrite guard_swap, !setbytes_val.
  rewrite of_N_not_neg, N2Z.id. reflexivity.
Qed.

Lemma bmul_spec : forall a b,
  opBytesMul a b = guard64 a b (Ok [B (bigbytes (be_val a * be_val b))]).
Proof.
  intros. unfold opBytesMul, bytes_binop. rewrite guard_swap, !setbytes_val.
  rewrite of_N_not_neg, N2Z.id. reflexivity.
Qed.

Lemma bminus_spec : forall a b,
  opBytesMinus a b =
  guard64 a b (if be_val a <? be_val b then Err else Ok [B (bigbytes (be_val a - be_val b))]).
Proof.
  intros. unfold opBytesMinus, bytes_binop. rewrite guard_swap, !setbytes_val.
  destruct (Z.ltb_spec (Z.of_N (be_val a) - Z.of_N (be_val b)) 0),
           (N.ltb_spec (be_val a) (be_val b)); try lia; [reflexivity|].
  rewrite <- N2Z.inj_sub by assumption. rewrite N2Z.id. reflexivity.
Qed.

Lemma size_zero_iff : forall n, (N.size n =? 0) = (n =? 0).
Proof. intros [|p]; [reflexivity|]. destruct p; reflexivity. Qed.

Lemma bdiv_spec : forall a b,
  opBytesDiv a b =
  guard64 a b (if be_val b =? 0 then Err else Ok [B (bigbytes (be_val a / be_val b))]).
Proof.
  intros. unfold opBytesDiv, bytes_binop. rewrite !setbytes_val, !size_zero_iff.
  unfold guard64. rewrite !too_long_blen, (orb_comm (64 <? blen b)).
  destruct ((64 <? blen a) || (64 <? blen b)); [reflexivity|].
  destruct (N.eqb_spec (be_val b) 0).
  - cbn. reflexivity.
  - rewrite of_N_not_neg, N2Z.id. reflexivity.
Qed.

Lemma bmod_spec : forall a b,
  opBytesModulo a b =
  guard64 a b (if be_val b =? 0 then Err else Ok [B (bigbytes (be_val a mod be_val b))]).
Proof.
  intros. unfold opBytesModulo, bytes_binop. rewrite !setbytes_val, !size_zero_iff.
  unfold guard64. rewrite !too_long_blen, (orb_comm (64 <? blen b)).
  destruct ((64 <? blen a) || (64 <? blen b)); [reflexivity|].
  destruct (N.eqb_spec (be_val b) 0).
  - cbn. reflexivity.
  - rewrite of_N_not_neg, N2Z.id. reflexivity.
Qed.

Lemma bsqrt_spec : forall a,
  opBytesSqrt a = if 64 <? blen a then Err else Ok [B (bigbytes (N.sqrt (be_val a)))].
Proof. intros. unfold opBytesSqrt. rewrite too_long_blen, setbytes_val. reflexivity. Qed.

Lemma bcmp_spec : forall a b, bytes_wf a -> bytes_wf b ->
  opBytesLt a b = guard64 a b (Ok [U (b2u (be_val a <? be_val b))]) /\
  opBytesGt a b = guard64 a b (Ok [U (b2u (be_val b <? be_val a))]) /\
  opBytesLe a b = guard64 a b (Ok [U (b2u (be_val a <=? be_val b))]) /\
  opBytesGe a b = guard64 a b (Ok [U (b2u (be_val b <=? be_val a))]) /\
  opBytesEq a b = guard64 a b (Ok [U (b2u (be_val a =? be_val b))]) /\
  opBytesNeq a b = guard64 a b (Ok [U (b2u (negb (be_val a =? be_val b)))]).
Proof.
  intros a b Ha Hb.
  unfold opBytesLe, opBytesGe, opBytesGt, opBytesNeq, opBytesLt, opBytesEq.
  rewrite !guard_swap, !bytes_lt_v_spec, bytes_eq_v_spec by assumption.
  unfold guard64. rewrite (orb_comm (64 <? blen b)).
  destruct ((64 <? blen a) || (64 <? blen b)); [repeat split; reflexivity|].
  unfold not_v, b2u.
  destruct (N.ltb_spec (be_val a) (be_val b)), (N.ltb_spec (be_val b) (be_val a)),
           (N.leb_spec (be_val a) (be_val b)), (N.leb_spec (be_val b) (be_val a)),
           (N.eqb_spec (be_val a) (be_val b)); try lia; repeat split; reflexivity.
Qed.

(* ---- concatenating digits: bits of x * 2^k + s ---- *)
Lemma testbit_cat : forall x s k i, s < 2 ^ k ->
  N.testbit (x * 2 ^ k + s) i = if i <? k then N.testbit s i else N.testbit x (i - k).
Proof.
  intros x s k i Hs.
  assert (Hnz : 2 ^ k <> 0) by (apply N.pow_nonzero; lia).
  destruct (N.ltb_spec i k) as [H|H].
  - rewrite <- (N.mod_pow2_bits_low (x * 2 ^ k + s) k i H).
    rewrite N.add_comm, N.mod_add by assumption. rewrite N.mod_small by assumption. reflexivity.
  - replace i with ((i - k) + k) at 1 by lia. rewrite <- N.div_pow2_bits.
    rewrite N.div_add_l by assumption. rewrite N.div_small by assumption. rewrite N.add_0_r. reflexivity.
Qed.

Lemma lt_pow2_bits : forall n k, (forall i, k <= i -> N.testbit n i = false) -> n < 2 ^ k.
Proof.
  intros n k H.
  assert (E : n mod 2 ^ k = n).
  { apply N.bits_inj. intro i. destruct (N.lt_ge_cases i k) as [L|L].
    - apply N.mod_pow2_bits_low. assumption.
    - rewrite N.mod_pow2_bits_high by assumption. symmetry. apply H. assumption. }
  rewrite <- E. apply N.mod_lt. apply N.pow_nonzero. lia.
Qed.

Lemma bits_lt_pow2 : forall n k i, n < 2 ^ k -> k <= i -> N.testbit n i = false.
Proof.
  intros n k i Hn Hi. replace n with (n mod 2 ^ k) by (apply N.mod_small; assumption).
  apply N.mod_pow2_bits_high. assumption.
Qed.

Lemma zip_with_length : forall f a b, length a = length b -> length (zip_with f a b) = length a.
Proof.
  intros f. induction a as [|x a IH]; intros [|y b] H; try discriminate; [reflexivity|].
  cbn [zip_with length]. f_equal. apply IH. cbn [length] in H. lia.
Qed.

Section Bitwise.
  Variable f : N -> N -> N.
  Variable fb : bool -> bool -> bool.
  Hypothesis f_spec : forall a b i, N.testbit (f a b) i = fb (N.testbit a i) (N.testbit b i).
  Hypothesis fb_ff : fb false false = false.

  Lemma bitwise_lt : forall a b k, a < 2 ^ k -> b < 2 ^ k -> f a b < 2 ^ k.
  Proof.
    intros a b k Ha Hb. apply lt_pow2_bits. intros i Hi.
    rewrite f_spec, (bits_lt_pow2 a k i Ha Hi), (bits_lt_pow2 b k i Hb Hi). exact fb_ff.
  Qed.

  Lemma bitwise_cat : forall x y s s' k, s < 2 ^ k -> s' < 2 ^ k ->
    f (x * 2 ^ k + s) (y * 2 ^ k + s') = f x y * 2 ^ k + f s s'.
  Proof.
    intros x y s s' k Hs Hs'. apply N.bits_inj. intro i.
    rewrite f_spec, !testbit_cat by (try assumption; apply bitwise_lt; assumption).
    destruct (i <? k); rewrite f_spec; reflexivity.
  Qed.

  Lemma zip_with_wf : forall a b, bytes_wf a -> bytes_wf b -> bytes_wf (zip_with f a b).
  Proof.
    induction a as [|x a IH]; intros [|y b] Ha Hb; cbn [zip_with]; try constructor.
    - inversion Ha; inversion Hb; subst. change 256 with (2 ^ 8). apply bitwise_lt; assumption.
    - inversion Ha; inversion Hb; subst. apply IH; assumption.
  Qed.

  Lemma zip_with_val : forall a b, length a = length b -> bytes_wf a -> bytes_wf b ->
    be_val (zip_with f a b) = f (be_val a) (be_val b).
  Proof.
    induction a as [|x a IH]; intros [|y b] Hl Ha Hb; try discriminate.
    - cbn [zip_with]. rewrite be_val_nil. apply N.bits_inj. intro i.
      rewrite f_spec, N.bits_0. symmetry. exact fb_ff.
    - cbn [length] in Hl. injection Hl as Hl.
      inversion Ha as [|? ? Hx Ha']; inversion Hb as [|? ? Hy Hb']; subst.
      cbn [zip_with]. rewrite !be_val_cons, zip_with_length, <- Hl by assumption.
      unfold P8. rewrite bitwise_cat.
      + rewrite IH by assumption. reflexivity.
      + apply be_val_bound. assumption.
      + pose proof (be_val_bound b Hb') as Hbb. rewrite <- Hl in Hbb. exact Hbb.
  Qed.
End Bitwise.

Lemma repeat0_val : forall n, be_val (repeat 0 n) = 0.
Proof. induction n as [|n IH]; [reflexivity|]. cbn [repeat]. rewrite be_val_cons, IH. lia. Qed.
Lemma repeat0_wf : forall n, bytes_wf (repeat 0 n).
Proof. induction n; cbn [repeat]; constructor; [lia | assumption]. Qed.

Lemma zpad_val : forall s n, be_val (zpad s n) = be_val s.
Proof. intros. unfold zpad. rewrite be_val_app, repeat0_val. lia. Qed.
Lemma zpad_wf : forall s n, bytes_wf s -> bytes_wf (zpad s n).
Proof. intros. unfold zpad. apply bytes_wf_app. split; [apply repeat0_wf | assumption]. Qed.
Lemma zpad_length : forall s n, (length s <= n)%nat -> length (zpad s n) = n.
Proof. intros. unfold zpad. rewrite app_length, repeat_length. lia. Qed.

Lemma bytes_logic_spec : forall f fb,
  (forall a b i, N.testbit (f a b) i = fb (N.testbit a i) (N.testbit b i)) ->
  fb false false = false -> (forall a b, f a b = f b a) ->
  forall a b, bytes_wf a -> bytes_wf b ->
  exists l, bytes_logic f a b = Ok [B l] /\
    be_val l = f (be_val a) (be_val b) /\ bytes_wf l /\ length l = Nat.max (length a) (length b).
Proof.
  intros f fb Hf Hff Hcomm a b Ha Hb. unfold bytes_logic, bytes_logic_prep.
  destruct (Nat.ltb_spec (length a) (length b)) as [L|L].
  - eexists. split; [reflexivity|].
    assert (Hlen : length (zpad a (length b)) = length b) by (apply zpad_length; lia).
    split; [|split].
    + rewrite (zip_with_val f fb Hf Hff) by (try assumption; apply zpad_wf; assumption).
      rewrite zpad_val. reflexivity.
    + apply (zip_with_wf f fb Hf Hff); [apply zpad_wf|]; assumption.
    + rewrite zip_with_length by assumption. rewrite Hlen. lia.
  - eexists. split; [reflexivity|].
    assert (Hlen : length (zpad b (length a)) = length a) by (apply zpad_length; lia).
    split; [|split].
    + rewrite (zip_with_val f fb Hf Hff) by (try assumption; apply zpad_wf; assumption).
      rewrite zpad_val. apply Hcomm.
    + apply (zip_with_wf f fb Hf Hff); [apply zpad_wf|]; assumption.
    + rewrite zip_with_length by assumption. rewrite Hlen. lia.
Qed.

Lemma bor_spec : forall a b, bytes_wf a -> bytes_wf b ->
  exists l, opBytesBitOr a b = Ok [B l] /\ be_val l = N.lor (be_val a) (be_val b) /\
            bytes_wf l /\ length l = Nat.max (length a) (length b).
Proof. apply (bytes_logic_spec N.lor orb); [apply N.lor_spec | reflexivity | apply N.lor_comm]. Qed.
Lemma band_spec : forall a b, bytes_wf a -> bytes_wf b ->
  exists l, opBytesBitAnd a b = Ok [B l] /\ be_val l = N.land (be_val a) (be_val b) /\
            bytes_wf l /\ length l = Nat.max (length a) (length b).
Proof. apply (bytes_logic_spec N.land andb); [apply N.land_spec | reflexivity | apply N.land_comm]. Qed.
Lemma bxor_spec : forall a b, bytes_wf a -> bytes_wf b ->
  exists l, opBytesBitXor a b = Ok [B l] /\ be_val l = N.lxor (be_val a) (be_val b) /\
            bytes_wf l /\ length l = Nat.max (length a) (length b).
Proof. apply (bytes_logic_spec N.lxor xorb); [apply N.lxor_spec | reflexivity | apply N.lxor_comm]. Qed.

Lemma bnot_val : forall a, bytes_wf a ->
  be_val (map (fun b => N.lxor b 255) a) = P8 (length a) - 1 - be_val a /\
  bytes_wf (map (fun b => N.lxor b 255) a).
Proof.
  induction a as [|x a IH]; intros H.
  - cbn. split; [reflexivity | constructor].
  - inversion H as [|? ? Hx Ha]; subst. destruct (IH Ha) as [IHv IHw].
    assert (Ex : N.lxor x 255 = 255 - x).
    { change 255 with (2 ^ 8 - 1). apply lxor_ones_low. exact Hx. }
    cbn [map]. split.
    + rewrite !be_val_cons, map_length, IHv, Ex. cbn [length]. rewrite P8_S.
      pose proof (be_val_bound a Ha). pose proof (P8_pos (length a)).
      rewrite N.mul_sub_distr_r. nia.
    + constructor; [rewrite Ex; lia | assumption].
Qed.

Lemma bnot_spec : forall a, bytes_wf a ->
  exists l, opBytesBitNot a = Ok [B l] /\ be_val l = 2 ^ (8 * blen a) - 1 - be_val a /\
            bytes_wf l /\ length l = length a.
Proof.
  intros a Ha. eexists. split; [reflexivity|]. destruct (bnot_val a Ha) as [Hv Hw].
  split; [exact Hv|]. split; [assumption | apply map_length].
Qed.

(* ---- bitlen of a byte string ---- *)
Lemma log2_cat : forall b s k, 0 < b -> s < 2 ^ k -> N.log2 (b * 2 ^ k + s) = N.log2 b + k.
Proof.
  intros b s k Hb Hs. destruct (N.log2_spec b Hb) as [L1 L2].
  apply N.log2_unique; [lia|]. split.
  - rewrite N.pow_add_r.
    assert (2 ^ N.log2 b * 2 ^ k <= b * 2 ^ k) by (apply N.mul_le_mono_r; assumption). lia.
  - replace (N.succ (N.log2 b + k)) with (N.succ (N.log2 b) + k) by lia. rewrite N.pow_add_r.
    assert ((b + 1) * 2 ^ k <= 2 ^ N.succ (N.log2 b) * 2 ^ k) by (apply N.mul_le_mono_r; lia). lia.
Qed.

Lemma bitlen_bytes_spec : forall l, bytes_wf l -> bitlen_bytes l = bitlen_of (be_val l).
Proof.
  induction l as [|b t IH]; intros H; [reflexivity|].
  inversion H as [|? ? Hb Ht]; subst. cbn [bitlen_bytes]. rewrite be_val_cons.
  destruct (N.eqb_spec b 0) as [->|Hb0]; cbn [negb].
  - rewrite IH by assumption. f_equal; lia.
  - unfold len8. rewrite size_bitlen. unfold bitlen_of.
    pose proof (be_val_bound t Ht) as Hbt. pose proof (P8_pos (length t)).
    destruct (N.eqb_spec b 0); [contradiction|].
    destruct (N.eqb_spec (b * P8 (length t) + be_val t) 0); [nia|].
    unfold P8 in *. rewrite log2_cat by (try assumption; lia). lia.
Qed.

(* ---- btoi / itob ---- *)
Lemma land_255 : forall b, b < 256 -> N.land b 255 = b.
Proof.
  intros b Hb. change 255 with (N.ones 8). rewrite N.land_ones. apply N.mod_small. exact Hb.
Qed.

Lemma bytes_to_int_fold : forall l acc, bytes_wf l -> (acc + 1) * P8 (length l) <= W ->
  fold_left (fun value b => N.lor (shl64 value 8) (N.land b 255)) l acc = acc * P8 (length l) + be_val l.
Proof.
  induction l as [|b t IH]; intros acc H Hacc.
  - cbn [fold_left length]. rewrite P8_0, be_val_nil. lia.
  - inversion H as [|? ? Hb Ht]; subst. cbn [fold_left length] in *. rewrite P8_S in Hacc.
    pose proof (P8_pos (length t)).
    assert (E : N.lor (shl64 acc 8) (N.land b 255) = acc * 256 + b).
    { unfold shl64. rewrite N.shiftl_mul_pow2, land_255 by assumption.
      rewrite N.mod_small by (change (2 ^ 8) with 256; nia).
      apply lor_shifted_low. exact Hb. }
    rewrite E, IH by (try assumption; nia). rewrite be_val_cons, P8_S. lia.
Qed.

Lemma bytes_to_int_val : forall l, bytes_wf l -> (length l <= 8)%nat -> bytes_to_int l = be_val l.
Proof.
  intros l H Hl. unfold bytes_to_int. rewrite bytes_to_int_fold; [lia | assumption |].
  rewrite N.mul_1_l. rewrite W_pow. unfold P8. apply N.pow_le_mono_r; lia.
Qed.

Lemma btoi_spec : forall l, bytes_wf l ->
  opBtoi l = if 8 <? blen l then Err else Ok [U (be_val l)].
Proof.
  intros l H. unfold opBtoi, blen. destruct (N.ltb_spec 8 (N.of_nat (length l))); [reflexivity|].
  rewrite bytes_to_int_val by (try assumption; lia). reflexivity.
Qed.

Lemma be_fixed_spec : forall k n,
  be_val (be_fixed k n) = n mod P8 k /\ bytes_wf (be_fixed k n) /\ length (be_fixed k n) = k.
Proof.
  induction k as [|k IH]; intros n.
  - cbn [be_fixed]. rewrite P8_0, N.mod_1_r. repeat split. constructor.
  - destruct (IH n) as (Hv & Hw & Hl). cbn [be_fixed]. split; [|split].
    + rewrite be_val_cons, Hv, Hl, N.shiftr_div_pow2. fold (P8 k). rewrite P8_S.
      pose proof (P8_pos k).
      rewrite (N.mul_comm 256 (P8 k)), N.mod_mul_r by lia. lia.
    + constructor; [apply N.mod_lt; lia | assumption].
    + cbn [length]. f_equal. assumption.
Qed.

Lemma itob_spec : forall a, a < W ->
  exists l, opItob a = Ok [B l] /\ be_val l = a /\ bytes_wf l /\ length l = 8%nat.
Proof.
  intros a Ha. eexists. split; [reflexivity|].
  destruct (be_fixed_spec 8 a) as (Hv & Hw & Hl). split; [|split; assumption].
  rewrite Hv. apply N.mod_small. change (P8 8) with (2 ^ 64). rewrite <- W_pow. exact Ha.
Qed.

Theorem btoi_itob : forall a, a < W -> forall l, opItob a = Ok [B l] -> opBtoi l = Ok [U a].
Proof.
  intros a Ha l E. destruct (itob_spec a Ha) as (l' & E' & Hv & Hw & Hl).
  rewrite E in E'. injection E' as ->. rewrite btoi_spec by assumption.
  unfold blen. rewrite Hl, Hv. reflexivity.
Qed.

Theorem itob_btoi : forall l, bytes_wf l -> length l = 8%nat ->
  exists a, opBtoi l = Ok [U a] /\ a < W /\ opItob a = Ok [B l].
Proof.
  intros l Hw Hl. exists (be_val l). rewrite btoi_spec by assumption. unfold blen. rewrite Hl.
  split; [reflexivity|].
  assert (Hb : be_val l < W).
  { pose proof (be_val_bound l Hw) as Hb. rewrite Hl in Hb. change (P8 8) with (2 ^ 64) in Hb.
    rewrite W_pow. exact Hb. }
  split; [assumption|].
  destruct (itob_spec (be_val l) Hb) as (l' & E & Hv & Hw' & Hl'). rewrite E. do 3 f_equal.
  apply be_val_inj; try assumption. lia.
Qed.

(* ---- getbyte / setbyte ---- *)
Lemma byte_at_nth : forall l i, byte_at l i = nth (N.to_nat i) l 0.
Proof.
  induction l as [|x t IH]; intros i.
  - cbn [byte_at]. destruct (N.to_nat i); reflexivity.
  - cbn [byte_at]. destruct (N.eqb_spec i 0) as [->|Hi]; [reflexivity|].
    rewrite IH. replace (N.to_nat i) with (S (N.to_nat (i - 1))) by lia. reflexivity.
Qed.

Lemma replace_at_set_nth : forall l i v, i < blen l ->
  replace_at l i v = set_nth l (N.to_nat i) v.
Proof.
  unfold blen. induction l as [|x t IH]; intros i v Hi.
  - cbn [length] in Hi. lia.
  - cbn [replace_at]. destruct (N.eqb_spec i 0) as [->|Hi0]; [reflexivity|].
    cbn [length] in Hi. rewrite IH by lia.
    replace (N.to_nat i) with (S (N.to_nat (i - 1))) by lia. reflexivity.
Qed.

Lemma getbyte_spec : forall l i,
  opGetByte l i = if blen l <=? i then Err else Ok [U (byte_at l i)].
Proof. intros. unfold opGetByte, blen. rewrite byte_at_nth. reflexivity. Qed.

Lemma setbyte_spec : forall l i v,
  opSetByte l i v =
  if 255 <? v then Err else if blen l <=? i then Err else Ok [B (replace_at l i v)].
Proof.
  intros. unfold opSetByte. fold (blen l).
  destruct (N.ltb_spec 255 v); [reflexivity|].
  destruct (N.leb_spec (blen l) i); [reflexivity|].
  rewrite replace_at_set_nth by assumption. rewrite N.mod_small by lia. reflexivity.
Qed.

(* ---- getbit / setbit on a byte string ---- *)
Lemma split_at : forall (l : list N) i, (i < length l)%nat ->
  l = firstn i l ++ nth i l 0 :: skipn (S i) l /\
  length (firstn i l) = i /\ length (skipn (S i) l) = (length l - S i)%nat.
Proof.
  intros l i Hi. split; [|split].
  - rewrite <- (firstn_skipn i l) at 1. f_equal.
    revert i Hi. induction l as [|x t IH]; intros i Hi; [cbn in Hi; lia|].
    destruct i; [reflexivity|]. cbn [skipn nth]. apply IH. cbn [length] in Hi. lia.
  - apply firstn_length_le. lia.
  - apply skipn_length.
Qed.

Lemma bytes_wf_nth : forall l i, bytes_wf l -> nth i l 0 < 256.
Proof.
  intros l i H. destruct (Nat.lt_ge_cases i (length l)) as [L|L].
  - unfold bytes_wf in H. rewrite Forall_forall in H. apply H. apply nth_In. assumption.
  - rewrite nth_overflow by assumption. lia.
Qed.

Lemma split_wf : forall l i, (i < length l)%nat -> bytes_wf l ->
  bytes_wf (firstn i l) /\ bytes_wf (skipn (S i) l).
Proof.
  intros l i Hi Hw. destruct (split_at l i Hi) as (E & _ & _).
  rewrite E in Hw. apply bytes_wf_app in Hw as [H1 H2]. inversion H2; subst. split; assumption.
Qed.

(* value and bit k of a string around the byte at position i *)
Lemma be_val_split : forall l i, (i < length l)%nat ->
  let post := skipn (S i) l in
  be_val l = (be_val (firstn i l) * 256 + nth i l 0) * P8 (length post) + be_val post.
Proof.
  intros l i Hi post. destruct (split_at l i Hi) as (E & _ & _).
  rewrite E at 1. rewrite be_val_app, be_val_cons. cbn [length]. rewrite P8_S. fold post. lia.
Qed.

Lemma bit_index : forall l idx, bytes_wf l -> idx / 8 < blen l ->
  let i := N.to_nat (idx / 8) in
  let m := 7 - idx mod 8 in
  let k := 8 * blen l - 1 - idx in
  k = 8 * N.of_nat (length (skipn (S i) l)) + m /\ m < 8 /\ idx < 8 * blen l /\
  N.testbit (be_val l) k = N.testbit (nth i l 0) m.
Proof.
  intros l idx Hw Hidx i m k. unfold blen in *.
  assert (Hi : (i < length l)%nat) by (subst i; lia).
  destruct (split_at l i Hi) as (_ & _ & Hpost).
  assert (Hm : idx mod 8 < 8) by (apply N.mod_lt; lia).
  assert (Hdm : idx = 8 * (idx / 8) + idx mod 8) by (apply N.div_mod; lia).
  assert (Hk : k = 8 * N.of_nat (length (skipn (S i) l)) + m).
  { subst k m i. rewrite Hpost. lia. }
  split; [exact Hk|]. split; [subst m; lia|]. split; [lia|].
  rewrite (be_val_split l i Hi). cbv zeta. unfold P8. rewrite Hk.
  rewrite testbit_cat.
  2:{ apply be_val_bound. apply (split_wf l i Hi Hw). }
  destruct (N.ltb_spec (8 * N.of_nat (length (skipn (S i) l)) + m) (8 * N.of_nat (length (skipn (S i) l)))); [lia|].
  replace (8 * N.of_nat (length (skipn (S i) l)) + m - 8 * N.of_nat (length (skipn (S i) l))) with m by lia.
  change 256 with (2 ^ 8). rewrite testbit_cat by (apply bytes_wf_nth; assumption).
  destruct (N.ltb_spec m 8); [reflexivity | subst m; lia].
Qed.

Lemma shiftr_128 : forall j, j < 8 -> N.shiftr 128 j = 2 ^ (7 - j).
Proof.
  intros j Hj. rewrite N.shiftr_div_pow2. change 128 with (2 ^ 7).
  replace (2 ^ 7) with (2 ^ (7 - j) * 2 ^ j) by (rewrite <- N.pow_add_r; f_equal; lia).
  apply N.div_mul. apply N.pow_nonzero. lia.
Qed.

Lemma byteidx_guard : forall n idx, (n <=? idx / 8) = (8 * n <=? idx).
Proof.
  intros n idx. destruct (N.leb_spec n (idx / 8)), (N.leb_spec (8 * n) idx); try reflexivity; dlia.
Qed.

Lemma getbit_b_spec : forall l idx, bytes_wf l ->
  opGetBit (B l) idx =
  if 8 * blen l <=? idx then Err
  else Ok [U (b2u (N.testbit (be_val l) (8 * blen l - 1 - idx)))].
Proof.
  intros l idx Hw. unfold opGetBit. fold (blen l). rewrite byteidx_guard.
  destruct (N.leb_spec (8 * blen l) idx) as [H|H]; [reflexivity|].
  assert (Hi : idx / 8 < blen l) by dlia.
  destruct (bit_index l idx Hw Hi) as (_ & Hm & _ & Hbit).
  assert (Hj : idx mod 8 < 8) by (apply N.mod_lt; lia).
  rewrite shiftr_128 by assumption. rewrite getbit_pow2, Hbit. reflexivity.
Qed.

Lemma testbit_true_ge : forall x m, N.testbit x m = true -> 2 ^ m <= x.
Proof.
  intros x m H. destruct (N.lt_ge_cases x (2 ^ m)) as [L|L]; [|assumption].
  rewrite (bits_lt_pow2 x m m L) in H by lia. discriminate.
Qed.

Lemma set_nth_split : forall l i v, (i < length l)%nat ->
  be_val (set_nth l i v) = (be_val (firstn i l) * 256 + v) * P8 (length (skipn (S i) l)) + be_val (skipn (S i) l) /\
  length (set_nth l i v) = length l.
Proof.
  intros l i v Hi. destruct (split_at l i Hi) as (_ & L1 & L2). unfold set_nth. split.
  - rewrite be_val_app, be_val_cons. cbn [length]. rewrite P8_S. lia.
  - rewrite app_length. cbn [length]. rewrite L1, L2. lia.
Qed.

Lemma setbit_b_err : forall l idx bit,
  (1 <? bit) || (8 * blen l <=? idx) = true -> opSetBit (B l) idx bit = Err.
Proof.
  intros l idx bit H. unfold opSetBit. fold (blen l). rewrite byteidx_guard.
  destruct (1 <? bit); [reflexivity|]. cbn [orb] in H. rewrite H. reflexivity.
Qed.

Lemma setbit_b_spec : forall l idx bit, bytes_wf l -> bit <= 1 -> idx < 8 * blen l ->
  let v := be_val l in let k := 8 * blen l - 1 - idx in
  exists l', opSetBit (B l) idx bit = Ok [B l'] /\
    be_val l' = (if bit =? 1 then (if N.testbit v k then v else v + 2 ^ k)
                 else (if N.testbit v k then v - 2 ^ k else v)) /\
    bytes_wf l' /\ length l' = length l.
Proof.
  intros l idx bit Hw Hbit Hidx v k. unfold opSetBit. fold (blen l). rewrite byteidx_guard.
  destruct (N.ltb_spec 1 bit); [lia|].
  destruct (N.leb_spec (8 * blen l) idx); [lia|].
  assert (Hi : idx / 8 < blen l) by dlia.
  destruct (bit_index l idx Hw Hi) as (Hk & Hm & _ & Hbitk). fold k in Hk, Hbitk. fold v in Hbitk.
  assert (Hj : idx mod 8 < 8) by (apply N.mod_lt; lia).
  rewrite shiftr_128 by assumption.
  set (i := N.to_nat (idx / 8)) in *. set (m := 7 - idx mod 8) in *.
  assert (Hil : (i < length l)%nat) by (subst i; unfold blen in Hi; lia).
  set (x := nth i l 0) in *.
  assert (Hx : x < 256) by (apply bytes_wf_nth; assumption).
  destruct (split_wf l i Hil Hw) as (Wpre & Wpost).
  pose proof (be_val_split l i Hil) as Ev. cbv zeta in Ev. fold x in Ev. fold v in Ev.
  set (post := skipn (S i) l) in *. set (pre := firstn i l) in *.
  assert (E2k : 2 ^ k = 2 ^ m * P8 (length post)).
  { rewrite Hk. unfold P8. rewrite <- N.pow_add_r. f_equal. lia. }
  assert (Hwf' : forall x', x' < 256 -> bytes_wf (set_nth l i x')).
  { intros x' Hx'. unfold set_nth. apply bytes_wf_app. split; [assumption|]. constructor; assumption. }
  assert (H2m : 2 ^ m < 2 ^ 8) by (apply N.pow_lt_mono_r; lia).
  pose proof (P8_pos (length post)) as HP.
  destruct (N.eqb_spec bit 1) as [->|Hb1].
  - eexists. split; [reflexivity|].
    destruct (set_nth_split l i (N.lor x (2 ^ m)) Hil) as (Ev' & El'). fold pre post in Ev'.
    split; [|split; [|exact El']].
    + rewrite Ev', lor_pow2, Hbitk. destruct (N.testbit x m); [lia|].
      rewrite E2k, Ev. lia.
    + apply Hwf'. change 256 with (2 ^ 8).
      apply (bitwise_lt N.lor orb N.lor_spec eq_refl); assumption.
  - eexists. split; [reflexivity|].
    destruct (set_nth_split l i (N.ldiff x (2 ^ m)) Hil) as (Ev' & El'). fold pre post in Ev'.
    split; [|split; [|exact El']].
    + rewrite Ev', ldiff_pow2, Hbitk. destruct (N.testbit x m) eqn:Eb; [|lia].
      pose proof (testbit_true_ge x m Eb) as Hge.
      rewrite E2k, Ev.
      replace (be_val pre * 256 + (x - 2 ^ m)) with (be_val pre * 256 + x - 2 ^ m) by lia.
      rewrite N.mul_sub_distr_r.
      assert (2 ^ m * P8 (length post) <= x * P8 (length post)) by (apply N.mul_le_mono_r; assumption).
      lia.
    + apply Hwf'. rewrite ldiff_pow2. destruct (N.testbit x m); lia.
Qed.

(* ---- extract_uint16/32/64 ---- *)
Lemma skipn_nth : forall (l : list N) i, (i < length l)%nat -> skipn i l = nth i l 0 :: skipn (S i) l.
Proof.
  induction l as [|x t IH]; intros i Hi; [cbn in Hi; lia|].
  destruct i; [reflexivity|]. cbn [skipn nth]. rewrite IH by (cbn [length] in Hi; lia). reflexivity.
Qed.

Lemma slice_firstn_skipn : forall n l s, s + N.of_nat n <= blen l ->
  slice l s (N.of_nat n) n = firstn n (skipn (N.to_nat s) l).
Proof.
  unfold blen. induction n as [|n IH]; intros l s H; [reflexivity|].
  cbn [slice]. destruct (N.eqb_spec (N.of_nat (S n)) 0); [lia|].
  rewrite skipn_nth by lia. cbn [firstn]. rewrite byte_at_nth. f_equal.
  replace (N.of_nat (S n) - 1) with (N.of_nat n) by lia.
  rewrite IH by lia. f_equal. f_equal. lia.
Qed.

Lemma firstn_skipn_wf : forall l n s, bytes_wf l -> bytes_wf (firstn n (skipn s l)).
Proof.
  intros l n s H.
  assert (bytes_wf (skipn s l)).
  { rewrite <- (firstn_skipn s l) in H. apply bytes_wf_app in H. apply H. }
  rewrite <- (firstn_skipn n (skipn s l)) in H0. apply bytes_wf_app in H0. apply H0.
Qed.

Lemma extract_uint_spec : forall n l s, bytes_wf l -> (n <= 8)%nat -> s < W -> blen l + 8 < W ->
  opExtractNBytes (N.of_nat n) l s =
  if blen l <? s + N.of_nat n then Err
  else Ok [U (be_val (slice l s (N.of_nat n) n))].
Proof.
  intros n l s Hw Hn Hs Hl. unfold opExtractNBytes, extract_carefully. fold (blen l).
  destruct (N.ltb_spec (blen l) s) as [H1|H1].
  - destruct (N.ltb_spec (blen l) (s + N.of_nat n)); [reflexivity | lia].
  - assert (E : (s + N.of_nat n) mod W = s + N.of_nat n) by (apply N.mod_small; lia).
    rewrite E. destruct (N.ltb_spec (s + N.of_nat n) s); [lia|].
    destruct (N.ltb_spec (blen l) (s + N.of_nat n)) as [H2|H2]; [reflexivity|].
    replace (s + N.of_nat n - s) with (N.of_nat n) by lia. rewrite Nat2N.id.
    rewrite bytes_to_int_val.
    + rewrite slice_firstn_skipn by assumption. reflexivity.
    + apply firstn_skipn_wf. assumption.
    + rewrite firstn_length. lia.
Qed.
