(* C31: no Go-level panic can originate in the frame's own cost computation or return-value
   check (given the table obligation cost_safe), the contracts on op families are satisfiable,
   and the instances for the regenerated tables. *)
From Coq Require Import List NArith ZArith Bool Arith Lia.
From Verif.model Require Import AvmTypes AvmFrame AvmTable.
From Verif.gen Require Import AvmTables.
From Verif.proofs Require Import AvmFrameProofs AvmAgreeProofs AvmTableProofs.
Import ListNotations.

(* ---- the cost computation *)
Lemma lc_safe_stack : forall nargs lc (stack : list sval),
    lc_safe nargs lc = true -> nargs <= length stack -> lc_compute lc (top_blen stack) <> None.
Proof.
  intros nargs lc stack Hs Hn. unfold lc_compute. unfold lc_safe in Hs.
  destruct (negb (lc_chunk lc =? 0)%Z && negb (lc_size lc =? 0)%Z); [|discriminate].
  apply andb_true_iff in Hs. destruct Hs as [Hs _]. apply andb_true_iff in Hs. destruct Hs as [H1 H2].
  unfold top_blen.
  replace ((0 <=? lc_depth lc)%Z && (lc_depth lc <? Z.of_nat (length stack))%Z) with true; [discriminate|].
  symmetry. apply andb_true_iff. split; [exact H1|]. apply Z.ltb_lt. apply Z.ltb_lt in H2. lia.
Qed.

Lemma lc_safe_blank : forall nargs lc, lc_safe nargs lc = true -> lc_compute lc blank_len <> None.
Proof.
  intros nargs lc Hs. unfold lc_compute. unfold lc_safe in Hs.
  destruct (negb (lc_chunk lc =? 0)%Z && negb (lc_size lc =? 0)%Z); [|discriminate].
  apply andb_true_iff in Hs. destruct Hs as [Hs H3]. apply andb_true_iff in Hs. destruct Hs as [H1 _].
  unfold blank_len. rewrite H1, H3. discriminate.
Qed.

Lemma field_cost_safe : forall nargs cs f, forallb (lc_safe nargs) cs = true -> lc_safe nargs (field_cost cs f) = true.
Proof.
  intros nargs cs f H. unfold field_cost.
  destruct (nth_in_or_default (N.to_nat f) cs zero_lc) as [Hin|Hd].
  - rewrite forallb_forall in H. now apply H.
  - rewrite Hd. reflexivity.
Qed.

Lemma imm_costs_safe : forall nargs size (blen : Z -> option Z) prog pc,
    (forall lc, lc_safe nargs lc = true -> lc_compute lc blen <> None) ->
    pc + N.to_nat size <= length prog ->
    forall imms pos, imms_safe nargs size imms pos = true ->
                     imm_costs imms prog (pc + N.to_nat pos) blen <> None.
Proof.
  intros nargs size blen prog pc Hb Hlen. induction imms as [|im r IH]; intros pos Hs; simpl; [discriminate|].
  simpl in Hs. apply andb_true_iff in Hs. destruct Hs as [Hh Hr].
  specialize (IH (pos + 1)%N Hr).
  replace (pc + N.to_nat (pos + 1)) with (S (pc + N.to_nat pos)) in IH by lia.
  destruct (im_costs im) as [|c cs] eqn:Ec.
  - destruct (imm_costs r prog (S (pc + N.to_nat pos)) blen); [discriminate | congruence].
  - apply andb_true_iff in Hh. destruct Hh as [Hp Hf]. apply N.ltb_lt in Hp.
    replace (Nat.leb (length prog) (pc + N.to_nat pos)) with false by (symmetry; apply Nat.leb_gt; lia).
    pose proof (Hb _ (field_cost_safe nargs (c :: cs) (byte_at prog (pc + N.to_nat pos)) Hf)) as Hc.
    destruct (lc_compute (field_cost (c :: cs) (byte_at prog (pc + N.to_nat pos))) blen); [|congruence].
    destruct (imm_costs r prog (S (pc + N.to_nat pos)) blen); [discriminate | congruence].
Qed.

Lemma details_cost_safe : forall s (blen : Z -> option Z) prog pc,
    cost_safe s = true ->
    (forall lc, lc_safe (length (os_args s)) lc = true -> lc_compute lc blen <> None) ->
    pc + N.to_nat (os_size s) <= length prog ->
    details_cost s prog pc blen <> None.
Proof.
  intros s blen prog pc Hs Hb Hlen. unfold cost_safe in Hs. apply andb_true_iff in Hs. destruct Hs as [H1 H2].
  unfold details_cost. pose proof (Hb _ H1) as Hc.
  destruct (lc_compute (os_full s) blen) as [c|]; [|congruence].
  destruct (negb (c =? 0)%Z); [discriminate|].
  destruct (N.eqb (os_sub s) 0).
  - replace (S pc) with (pc + N.to_nat 1) by (simpl; lia). eapply imm_costs_safe; eauto.
  - replace (S (S pc)) with (pc + N.to_nat 2) by (simpl; lia). eapply imm_costs_safe; eauto.
Qed.

Lemma ret_check_no_panic : forall mb ex rets xs,
    length rets = length xs -> ret_check mb ex rets xs <> Err EPanic.
Proof.
  induction rets as [|t rets IH]; intros xs Hl; simpl; [discriminate|].
  destruct xs as [|x xs]; [discriminate|]. simpl in Hl.
  destruct (negb (op_compat t (sv_type x))); [destruct ex; discriminate|].
  destruct (N.eqb (sv_type x) avmBytes && (Z.of_N mb <? sv_blen x)%Z); [discriminate|].
  apply IH. lia.
Qed.

Section NoPanic.
  Variable tbl : N -> N -> opspec * list opspec.
  Variable max_depth : nat.
  Variable max_bytes : N.
  Variable W : Type.
  Variable bmax : Z.
  Variable isolate : bool.
  Variable opf : opspec -> list N -> state W -> outcome W.
  Variable v mode : N.
  Variable prog : list N.

  (* A Go panic inside step() itself (not inside an op function) is possible only in the return
     value loop, for an op that always exits and whose op function left the stack shorter than its
     declared returns; the cost computation never indexes out of range. *)
  Theorem step_panic_only_after_exit_op : forall st,
      cost_safe (get_op_spec tbl v prog (st_pc W st)) = true ->
      st_pc W st < length prog ->
      step tbl max_depth max_bytes W bmax isolate opf v mode prog st = Err EPanic ->
      os_trusted (get_op_spec tbl v prog (st_pc W st)) = false /\
      always_exits (get_op_spec tbl v prog (st_pc W st)) = true.
  Proof.
    intros st Hsafe Hpc H. unfold step in H.
    set (s := get_op_spec tbl v prog (st_pc W st)) in *.
    dif H. dif H. dif H. dif H. dif H.
    destruct (step_cost s prog (st_pc W st) (st_stack W st)) as [c|] eqn:Ec.
    - dif H. dif H.
      destruct (opf s prog _) as [|stack' n calls' pool' w']; [discriminate|].
      destruct (os_trusted s) eqn:Etr.
      + dif H.
      + split; [reflexivity|].
        destruct (always_exits s) eqn:Eex; [reflexivity|]. exfalso.
        rewrite andb_true_r in H.
        destruct (negb (Z.of_nat (length stack') - Z.of_nat (length (st_stack W st)) =?
                        Z.of_nat (length (os_rets s)) - Z.of_nat (length (os_args s)))%Z) eqn:Eh; [discriminate|].
        apply negb_false_iff in Eh. apply Z.eqb_eq in Eh. apply Nat.ltb_ge in E1.
        destruct (Nat.ltb (length stack') (length (os_rets s))) eqn:El; [apply Nat.ltb_lt in El; lia|].
        apply Nat.ltb_ge in El.
        destruct (ret_check max_bytes false (os_rets s) (skipn (length stack' - length (os_rets s)) stack')) eqn:Er.
        * dif H.
        * inversion H; subst e. revert Er. apply ret_check_no_panic. rewrite skipn_length. lia.
    - exfalso. clear H. apply Nat.ltb_ge in E1.
      assert (forall lc, lc_safe (length (os_args s)) lc = true -> lc_compute lc (top_blen (st_stack W st)) <> None) as Hb
          by (intros lc Hl; eapply lc_safe_stack; eauto).
      unfold step_cost in Ec.
      pose proof Hsafe as Hsafe'. unfold cost_safe in Hsafe'. apply andb_true_iff in Hsafe'. destruct Hsafe' as [H1 H2].
      pose proof (Hb _ H1) as Hc.
      destruct (lc_compute (os_full s) (top_blen (st_stack W st))) as [c0|]; [|congruence].
      destruct (c0 <=? 0)%Z; [|discriminate].
      revert Ec. apply details_cost_safe; auto.
      apply andb_false_iff in E3. destruct E3 as [E3|E3].
      + apply negb_false_iff in E3. apply Nat.eqb_eq in E3. rewrite E3. lia.
      + apply Nat.ltb_ge in E3. exact E3.
  Qed.
End NoPanic.

(* ---- the reference op family meets the budget and stack-effect contracts (non-vacuity) *)
Lemma ref_opf_stack : forall lsv mb v s prog st stack' n calls' pool' w',
    ref_opf lsv mb v s prog st = OOk unit stack' n calls' pool' w' ->
    stack' = st_stack unit st /\ pool' = st_pool unit st.
Proof.
  intros lsv mb v s prog st stack' n calls' pool' w' H. unfold ref_opf in H.
  repeat match type of H with
         | (match ?x with _ => _ end) = _ => destruct x; try discriminate
         | (if ?x then _ else _) = _ => destruct x; try discriminate
         end; inversion H; subst; split; reflexivity.
Qed.

Lemma ref_opf_budget_ok : forall lsv mb v bmax isolate prog,
    op_budget_ok unit bmax isolate (ref_opf lsv mb v) prog (fun _ => 0%Z).
Proof.
  intros lsv mb v bmax isolate prog s st stack' n calls' pool' w' H Hrem.
  destruct (ref_opf_stack _ _ _ _ _ _ _ _ _ _ _ H) as [_ Hp]. subst pool'.
  assert (remaining unit bmax isolate (mkSt unit (st_pc unit st) stack' calls' (st_cost unit st) (st_pool unit st) w')
          = remaining unit bmax isolate st) as Hq by reflexivity.
  cbv zeta. unfold mu. rewrite Hq. simpl. repeat split; lia.
Qed.

Lemma ref_opf_effect_ok : forall lsv mb v prog, op_effect_ok mb unit (ref_opf lsv mb v) prog.
Proof.
  intros lsv mb v prog s st stack' n calls' pool' w' H.
  destruct (ref_opf_stack _ _ _ _ _ _ _ _ _ _ _ H) as [Hs _]. subst stack'.
  destruct (os_trusted s); [auto|].
  intros x Hx. rewrite <- (firstn_skipn (length (st_stack unit st) - (if always_exits s then 0 else length (os_rets s))) (st_stack unit st)).
  apply in_or_app. now left.
Qed.

(* ---- regenerated tables *)
Lemma gen_cost_safe : forall v prog pc,
    os_hasop (get_op_spec gen_tbl v prog pc) = true -> cost_safe (get_op_spec gen_tbl v prog pc) = true.
Proof. intros v prog pc H. exact (proj2 (gen_min_cost v prog pc H)). Qed.

Theorem gen_step_panic_only_after_exit_op :
  forall (W : Type) bmax isolate (opf : opspec -> list N -> state W -> outcome W) v mode prog (st : state W),
    st_pc W st < length prog ->
    step gen_tbl max_depth_nat max_string_size W bmax isolate opf v mode prog st = Err EPanic ->
    os_trusted (get_op_spec gen_tbl v prog (st_pc W st)) = false /\
    always_exits (get_op_spec gen_tbl v prog (st_pc W st)) = true.
Proof.
  intros W bmax isolate opf v mode prog st Hpc H.
  apply (step_panic_only_after_exit_op gen_tbl max_depth_nat max_string_size W bmax isolate opf v mode prog st); auto.
  apply gen_cost_safe.
  destruct (os_hasop (get_op_spec gen_tbl v prog (st_pc W st))) eqn:E; [reflexivity|].
  unfold step in H. rewrite E in H. discriminate.
Qed.

(* non-vacuity: a run of the reference family on the regenerated tables *)
Definition ex31_prog : list N := [4; 66; 0; 1; 0; 66; 0; 0]%N.
Definition ex31_st (pc : nat) (cost : Z) : state unit := mkSt unit pc [] [] cost None tt.
Example ex31_eval :
  eval_loop gen_tbl max_depth_nat max_string_size unit 700 false (ref_opf 14 max_string_size 4) 701 4 ModeApp ex31_prog (ex31_st 1 0)
  = (VError EFinalStack, ex31_st 8 2).
Proof. vm_compute. reflexivity. Qed.
