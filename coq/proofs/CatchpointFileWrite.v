(* C16 proofs: restoring the producer's own data gives back the producer's state.
   Proved for the UNCHUNKED file (one balances section holding one complete record per account,
   all KVs and online rows) and every well-formed world; that cutting the stream into chunks and
   splitting accounts whose resources exceed the budget ([write_file]) does not change the result
   is compared with the real writer + accessor on every generated file (checks/C16.py), not proved. *)
From Coq Require Import List NArith ZArith Bool Lia ZifyN ZifyNat ZifyBool.
From Verif.model Require Import MerkleTrie MerkleTrieSpec CatchpointHash CatchpointFile CatchpointFileCheck.
From Verif.proofs Require Import MerkleTrieProofs MerkleTrieCanonProofs CatchpointFileProofs.
Import ListNotations.
Open Scope N_scope.

Section Write.
  Variable fixed : bool.
  Variable H : bytes -> bytes.
  Variable tot_of : bytes -> counts.
  Variable flags_of : bytes -> bool * bool * bool * bool.
  Variable leafA : bytes -> bytes -> bytes.
  Variable leafR : bytes -> N -> bytes -> bytes.
  Variable leafK : bytes -> bytes -> bytes.

  Definition acct := (bytes * bytes * list (N * bytes))%type.
  Definition rec_of (x : acct) : brec := mkRec (fst (fst x)) (snd (fst x)) false (snd x).
  Definition rows_of (l : list acct) : list (bytes * bytes) := map fst l.
  Definition res_of (l : list acct) : list (bytes * N * bytes) :=
    flat_map (fun x => map (fun r => (fst (fst x), fst r, snd r)) (snd x)) l.

  (* the unchunked file of a world *)
  Definition flat_file (ver balr blkr : N) (w : world) : list section :=
    [SHdr ver balr blkr (w_totals w); SSp (w_sp w) 1;
     SBal (map rec_of (w_accts w)) (w_kvs w) (w_oa w) (w_orp w)].

  Definition wf_world (w : world) : Prop :=
    w_accts w <> [] /\
    NoDup (map (fun x : acct => fst (fst x)) (w_accts w)) /\
    (forall x, In x (w_accts w) -> NoDup (map fst (snd x)) /\
               fold_left (fun c e => count_res flags_of c (snd e)) (snd x) counts_zero = tot_of (snd (fst x))) /\
    NoDup (map fst (w_kvs w)) /\ NoDup (w_oa w) /\ NoDup (w_orp w).

  (* ---------- the staging writers on fresh keys ---------- *)
  Lemma has_key_false {A} k (l : list (bytes * A)) : ~ In k (map fst l) -> has_key k l = false.
  Proof.
    intros Hn. destruct (has_key k l) eqn:E; [|reflexivity]. exfalso. apply Hn.
    apply has_key_in in E. destruct E as (v & X). apply in_map_iff. exists (k, v). auto.
  Qed.

  Lemma has_res_false a c (l : list (bytes * N * bytes)) :
    (forall e, ~ In (a, c, e) l) -> has_res a c l = false.
  Proof.
    intros Hn. unfold has_res. destruct (existsb _ l) eqn:E; [|reflexivity]. exfalso.
    apply existsb_exists in E. destruct E as ([[a' c'] e'] & X & Y). cbn in Y.
    apply andb_true_iff in Y. destruct Y as [Y1 Y2]. apply beqb_eq in Y1. apply N.eqb_eq in Y2. subst.
    apply (Hn e'). exact X.
  Qed.

  Lemma write_res_fresh a : forall rs res,
    NoDup (map fst rs) -> (forall c e, In c (map fst rs) -> ~ In (a, c, e) res) ->
    (fix go (rs : list (N * bytes)) (res : list (bytes * N * bytes)) :=
       match rs with
       | [] => Some res
       | (c, e) :: rs' => if has_res a c res then None else go rs' (res ++ [(a, c, e)])
       end) rs res = Some (res ++ map (fun r => (a, fst r, snd r)) rs).
  Proof.
    induction rs as [|[c e] rs IH]; intros res Hn Hf; [rewrite app_nil_r; reflexivity|].
    cbn [map fst] in Hn. inversion Hn; subst.
    rewrite has_res_false by (intros e'; apply Hf; left; reflexivity).
    rewrite IH; [cbn; rewrite <- app_assoc; reflexivity | assumption|].
    intros c' e' X Y. apply in_app_iff in Y. destruct Y as [Y|[Y|[]]].
    - apply (Hf c' e'); [right; exact X | exact Y].
    - inversion Y; subst. contradiction.
  Qed.

  Lemma write_balances_fresh : forall (l : list acct) accts res,
    NoDup (map (fun x : acct => fst (fst x)) l) ->
    (forall x, In x l -> NoDup (map fst (snd x))) ->
    (forall x, In x l -> ~ In (fst (fst x)) (map fst accts)) ->
    (forall x c e, In x l -> ~ In (fst (fst x), c, e) res) ->
    write_balances (map rec_of l) accts res = Some (accts ++ rows_of l, res ++ res_of l).
  Proof.
    induction l as [|[[a e] rs] l IH]; intros accts res Hn Hr Ha Hx.
    - cbn. rewrite !app_nil_r. reflexivity.
    - cbn [map rec_of write_balances b_addr b_enc b_res fst snd]. cbn [map fst] in Hn.
      apply NoDup_cons_iff in Hn. destruct Hn as [Hnin Hn].
      assert (Hother : forall x, In x l -> fst (fst x) <> a).
      { intros x X E. apply Hnin. apply in_map_iff. exists x. auto. }
      rewrite has_key_false by (apply (Ha (a, e, rs)); left; reflexivity).
      rewrite (write_res_fresh a rs res).
      + rewrite IH.
        * cbn [rows_of res_of map flat_map fst snd]. rewrite <- !app_assoc. reflexivity.
        * exact Hn.
        * intros x X. apply Hr. right. exact X.
        * intros x X Y. rewrite map_app, in_app_iff in Y. cbn in Y. destruct Y as [Y|[Y|[]]].
          -- apply (Ha x); [right; exact X | exact Y].
          -- apply (Hother x X). symmetry. exact Y.
        * intros x c e' X Y. apply in_app_iff in Y. destruct Y as [Y|Y].
          -- apply (Hx x c e'); [right; exact X | exact Y].
          -- apply in_map_iff in Y. destruct Y as (r & E & _). inversion E. apply (Hother x X). congruence.
      + apply (Hr (a, e, rs)). left. reflexivity.
      + intros c e' _. apply (Hx (a, e, rs) c e'). left. reflexivity.
  Qed.

  Lemma write_kvs_fresh : forall kvs st,
    NoDup (map fst kvs) -> (forall k, In k (map fst kvs) -> ~ In k (map fst st)) ->
    write_kvs kvs st = Some (st ++ kvs).
  Proof.
    induction kvs as [|[k v] kvs IH]; intros st Hn Hf; [rewrite app_nil_r; reflexivity|].
    cbn [map fst] in Hn. inversion Hn; subst. cbn [write_kvs].
    rewrite has_key_false by (apply Hf; left; reflexivity).
    rewrite IH; [rewrite <- app_assoc; reflexivity | assumption|].
    intros k' X Y. rewrite map_app, in_app_iff in Y. cbn in Y. destruct Y as [Y|[Y|[]]].
    - apply (Hf k'); [right; exact X | exact Y].
    - subst. contradiction.
  Qed.

  Lemma write_rows_fresh : forall rows st,
    NoDup rows -> (forall r, In r rows -> ~ In r st) -> write_rows rows st = Some (st ++ rows).
  Proof.
    induction rows as [|r rows IH]; intros st Hn Hf; [rewrite app_nil_r; reflexivity|].
    inversion Hn; subst. cbn [write_rows].
    assert (E : existsb (beqb r) st = false).
    { destruct (existsb (beqb r) st) eqn:E; [|reflexivity]. exfalso. apply existsb_exists in E.
      destruct E as (x & X & Y). apply beqb_eq in Y. subst. apply (Hf x); [left; reflexivity | exact X]. }
    rewrite E, IH; [rewrite <- app_assoc; reflexivity | assumption|].
    intros r' X Y. apply in_app_iff in Y. destruct Y as [Y|[Y|[]]]; [apply (Hf r'); [right; exact X | exact Y] | subst; contradiction].
  Qed.

  Lemma check_records_complete : forall (l : list acct),
    (forall x, In x l -> fold_left (fun c e => count_res flags_of c (snd e)) (snd x) counts_zero = tot_of (snd (fst x))) ->
    check_records fixed tot_of flags_of (map rec_of l) None counts_zero = Some (None, counts_zero).
  Proof.
    induction l as [|x l IH]; intros Hc; [reflexivity|].
    cbn [map CatchpointFile.check_records rec_of b_more b_res b_enc].
    rewrite (Hc x (or_introl eq_refl)).
    assert (E : forall c, counts_eqb c c = true).
    { intros [[[a b] c] d]. cbn. rewrite !N.eqb_refl. reflexivity. }
    rewrite E. apply IH. intros y Y. apply Hc. right. exact Y.
  Qed.

  (* ---------- the trie of a duplicate-free hash list ---------- *)
  Definition all_len_n (n : nat) (s : kset) : Prop := forall y, In y s -> length y = n.

  Lemma build_trie_nodup n : forall hs st s,
    rel st s -> all_len_n n s -> NoDup hs -> (forall h, In h hs -> length h = n /\ bytes_ok h /\ ~ In h s) ->
    exists t, build_trie hs st = Some t /\ rel t (rev hs ++ s).
  Proof.
    induction hs as [|h hs IH]; intros st s R A Hn Hh; [exists st; split; [reflexivity | exact R]|].
    inversion Hn; subst. destruct (Hh h (or_introl eq_refl)) as (L & B & Nin).
      pose proof (trie_add_refines st s h R B) as T.
      assert (Em : len_mismatch h s = false).
      { destruct s as [|y s']; [reflexivity|]. cbn. rewrite (A y (or_introl eq_refl)), L, Nat.eqb_refl. reflexivity. }
      rewrite Em in T. assert (Emem : mem h s = false).
      { destruct (mem h s) eqn:E; [|reflexivity]. apply mem_in in E. contradiction. }
      rewrite Emem in T. destruct T as (st' & Et & R').
      cbn [build_trie]. rewrite Et.
      destruct (IH st' (h :: s) R') as (t & Eb & Rt).
      + intros y [<-|Y]; [exact L | apply A; exact Y].
      + assumption.
      + intros h' X. destruct (Hh h' (or_intror X)) as (L' & B' & N'). repeat split; auto.
        intros [E|Y]; [subst; contradiction | contradiction].
      + exists t. split; [exact Eb|]. cbn [rev]. rewrite <- app_assoc. exact Rt.
  Qed.
  (* ---------- finishBalances gives the accounts back ---------- *)
  Lemma filter_res_of : forall (l : list acct) (a : bytes),
    NoDup (map (fun x : acct => fst (fst x)) l) ->
    map (fun r : bytes * N * bytes => (snd (fst r), snd r)) (filter (fun r => beqb (fst (fst r)) a) (res_of l)) =
    flat_map (fun x : acct => if beqb (fst (fst x)) a then snd x else []) l.
  Proof.
    induction l as [|[[a0 e0] rs] l IH]; intros a Hn; [reflexivity|].
    cbn [map fst] in Hn. apply NoDup_cons_iff in Hn. destruct Hn as [_ Hn].
    cbn [res_of flat_map fst snd]. rewrite filter_app, map_app. fold (res_of l). rewrite (IH a Hn). f_equal.
    destruct (beqb a0 a) eqn:E.
    - induction rs as [|[c x] rs IHr]; [reflexivity|]. cbn [map filter fst snd]. rewrite E. cbn [map fst snd]. f_equal. exact IHr.
    - induction rs as [|[c x] rs IHr]; [reflexivity|]. cbn [map filter fst snd]. rewrite E. exact IHr.
  Qed.

  Lemma own_resources : forall (l : list acct) (x : acct),
    NoDup (map (fun x : acct => fst (fst x)) l) -> In x l ->
    flat_map (fun y : acct => if beqb (fst (fst y)) (fst (fst x)) then snd y else []) l = snd x.
  Proof.
    induction l as [|y l IH]; intros x Hn Hin; [destruct Hin|].
    cbn [map] in Hn. apply NoDup_cons_iff in Hn. destruct Hn as [Hnin Hn]. cbn [flat_map].
    destruct Hin as [->|Hin].
    - rewrite beqb_refl.
      assert (Z : flat_map (fun y : acct => if beqb (fst (fst y)) (fst (fst x)) then snd y else []) l = []).
      { clear IH Hn. induction l as [|z l IHl]; [reflexivity|]. cbn [flat_map].
        destruct (beqb (fst (fst z)) (fst (fst x))) eqn:E.
        - apply beqb_eq in E. exfalso. apply Hnin. left. exact E.
        - apply IHl. intros X. apply Hnin. right. exact X. }
      rewrite Z, app_nil_r. reflexivity.
    - destruct (beqb (fst (fst y)) (fst (fst x))) eqn:E.
      + apply beqb_eq in E. exfalso. apply Hnin. rewrite E. apply in_map_iff. exists x. auto.
      + apply IH; assumption.
  Qed.

  Lemma world_accts_back (l : list acct) :
    NoDup (map (fun x : acct => fst (fst x)) l) ->
    map (fun e : bytes * bytes => (fst e, snd e, map (fun r : bytes * N * bytes => (snd (fst r), snd r))
                                                     (filter (fun r => beqb (fst (fst r)) (fst e)) (res_of l)))) (rows_of l) = l.
  Proof.
    intros Hn. unfold rows_of. rewrite map_map.
    rewrite <- (map_id l) at 2. apply map_ext_in. intros [[a e] rs] Hin. cbn [fst snd].
    rewrite (filter_res_of l a Hn). pose proof (own_resources l (a, e, rs) Hn Hin) as O. cbn [fst snd] in O. rewrite O. reflexivity.
  Qed.

  (* ---------- restore (flat file of w) = w ---------- *)
  Definition flat_hashes (w : world) : list bytes :=
    flat_map (record_hashes leafA leafR) (map rec_of (w_accts w)) ++ map (fun e => leafK (fst e) (snd e)) (w_kvs w).

  (* the label the producer computes: the root is that of the canonical trie of the leaf set (C14 / C17) *)
  Definition producer_label (ver blkr : N) (digest : bytes) (w : world) : bytes :=
    make_label H blkr digest (root_hash H (canon_set (rev (flat_hashes w)))) (w_totals w)
               (label_extras_of H ver (w_sp w) (w_oa w) (w_orp w)).

  Theorem restore_flat_file n ver balr blkr digest (w : world) :
    (129 <=? ver) && (ver <=? 131) = true -> wf_world w ->
    NoDup (flat_hashes w) -> (forall h, In h (flat_hashes w) -> length h = n /\ bytes_ok h) ->
    exists t, restore fixed H tot_of flags_of leafA leafR leafK (flat_file ver balr blkr w)
                      (producer_label ver blkr digest w) blkr digest = Accepted (w, t).
  Proof.
    intros Hver (Hne & Hna & Hacc & Hnk & Hno & Hnp) Hnd Hlen.
    apply andb_true_iff in Hver. destruct Hver as [V1 V2].
    assert (Hv128 : (ver =? 128) = false) by lia.
    assert (Hvr : (128 <=? ver) && (ver <=? 131) = true) by lia.
    destruct w as [accts kvs oa orp sp totals]. cbn [w_accts w_kvs w_oa w_orp w_sp w_totals] in *.
    destruct accts as [|x0 l0]; [congruence|]. set (accts := x0 :: l0) in *.
    assert (Em : map rec_of accts = rec_of x0 :: map rec_of l0) by reflexivity.
    unfold CatchpointFile.restore, flat_file. cbn [w_accts w_kvs w_oa w_orp w_sp w_totals].
    cbn [CatchpointFile.process_all CatchpointFile.process_section a_init a_seen].
    rewrite Hvr. cbn [CatchpointFile.process_all CatchpointFile.process_section a_seen a_version negb N.eqb].
    unfold a_init. cbn [a_expect a_cnt a_accts a_res a_kvs a_oa a_orp a_sp a_hashes a_blkround a_totals a_version a_seen].
    rewrite Hv128. rewrite Em. cbv iota. rewrite <- Em.
    rewrite (check_records_complete accts (fun x X => proj2 (Hacc x X))).
    rewrite (write_balances_fresh accts [] [] Hna (fun x X => proj1 (Hacc x X)) (fun _ _ Y => Y) (fun _ _ _ _ Y => Y)).
    rewrite (write_kvs_fresh kvs [] Hnk (fun _ _ Y => Y)).
    rewrite (write_rows_fresh oa [] Hno (fun _ _ Y => Y)), (write_rows_fresh orp [] Hnp (fun _ _ Y => Y)).
    cbn [app CatchpointFile.process_all a_expect andb].
    rewrite andb_false_r. cbn [a_hashes].
    fold (flat_hashes (mkWorld accts kvs oa orp sp totals)). set (w := mkWorld accts kvs oa orp sp totals) in *.
    destruct (build_trie_nodup n (flat_hashes w) t_empty [] eq_refl ltac:(intros y []) Hnd) as (t & Eb & Rt).
    { intros h X. destruct (Hlen h X). repeat split; auto. }
    change (flat_map (record_hashes leafA leafR) (map rec_of accts) ++ map (fun e => leafK (fst e) (snd e)) kvs) with (flat_hashes w).
    rewrite Eb. cbn [a_blkround]. rewrite N.eqb_refl. cbn [negb].
    rewrite app_nil_r in Rt. pose proof (rel_root _ _ Rt) as Hroot.
    unfold staged_label, producer_label. cbn [a_blkround a_totals a_version a_sp a_oa a_orp w_totals w_sp w_oa w_orp w].
    rewrite Hroot, beqb_refl. exists t. f_equal. f_equal.
    unfold world_of. cbn [a_accts a_res a_kvs a_oa a_orp a_sp a_totals]. unfold w. f_equal.
    apply world_accts_back. exact Hna.
  Qed.
End Write.
