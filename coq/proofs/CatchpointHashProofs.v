(* C15 lemmas: injectivity of the catchpoint pre-images (model/CatchpointHash.v) up to an
   explicit hash collision, the KV key‖value ambiguity, and the label-level consequences. *)
From Coq Require Import List NArith Bool Lia ZifyN ZifyNat ZifyBool.
Import ListNotations.
From Verif.model Require Import CatchpointHash CatchpointHashSpec.
Open Scope N_scope.

(* ---------- lists ---------- *)
Lemma app_eq_len {A} (a b x y : list A) :
  length a = length b -> a ++ x = b ++ y -> a = b /\ x = y.
Proof.
  revert b; induction a as [|u a IH]; intros [|v b] Hl He; simpl in *; try discriminate.
  - auto.
  - injection He as Huv He. injection Hl as Hl. destruct (IH b Hl He) as [-> ->]. subst. auto.
Qed.

Lemma app_eq_len_tail {A} (a b x y : list A) :
  length x = length y -> a ++ x = b ++ y -> a = b /\ x = y.
Proof.
  intros Hl He. apply app_eq_len; auto.
  apply (f_equal (@length A)) in He. rewrite !app_length in He. lia.
Qed.

Definition bytes_eq_dec : forall x y : bytes, {x = y} + {x <> y} := list_eq_dec N.eq_dec.

Lemma go_copy_length dst src : length (go_copy dst src) = length dst.
Proof. unfold go_copy. rewrite app_length, firstn_length, skipn_length. lia. Qed.

Lemma be_low_length n : forall x acc, length (be_low n x acc) = (n + length acc)%nat.
Proof.
  induction n as [|n IH]; intros x acc; cbn [be_low]; [reflexivity|].
  rewrite IH. cbn [length]. lia.
Qed.

Lemma be_low4 a :
  be_low 4 a [] = [a / 256 / 256 / 256 mod 256; a / 256 / 256 mod 256; a / 256 mod 256; a mod 256].
Proof. reflexivity. Qed.

Lemma le_bytes_length n : forall x, length (le_bytes n x) = n.
Proof. induction n as [|n IH]; intros x; cbn [le_bytes length]; [reflexivity | now rewrite IH]. Qed.

Lemma le_bytes_inj n : forall x y,
  x < 256 ^ N.of_nat n -> y < 256 ^ N.of_nat n -> le_bytes n x = le_bytes n y -> x = y.
Proof.
  induction n as [|n IH]; intros x y Hx Hy He.
  - change (256 ^ N.of_nat 0) with 1 in *. lia.
  - rewrite Nat2N.inj_succ, N.pow_succ_r' in Hx, Hy.
    cbn [le_bytes] in He. injection He as Hm Hd.
    assert (x / 256 = y / 256) as Hq.
    { apply IH; auto; apply N.div_lt_upper_bound; lia. }
    rewrite (N.div_mod' x 256), (N.div_mod' y 256). congruence.
Qed.

(* ---------- shape of a leaf ---------- *)
Section Leaves.
  Variable H : bytes -> bytes.

  Lemma trunc31_length p : length (trunc31 H p) = 31%nat.
  Proof. unfold trunc31. rewrite go_copy_length, repeat_length. reflexivity. Qed.

  Lemma leaf_shape a k p :
    finishV6 H (hashBufV6 a k) p = be_low 4 a [] ++ k :: trunc31 H p.
  Proof.
    unfold finishV6, hashBufV6, trunc31. rewrite be_low4.
    cbn [app firstn skipn]. reflexivity.
  Qed.

  Lemma leaf_eq_inv a1 k1 p1 a2 k2 p2 :
    finishV6 H (hashBufV6 a1 k1) p1 = finishV6 H (hashBufV6 a2 k2) p2 ->
    k1 = k2 /\ trunc31 H p1 = trunc31 H p2.
  Proof.
    rewrite !leaf_shape, !be_low4. cbn [app]. intro E. injection E. auto.
  Qed.

  Lemma collision_or_eq p1 p2 :
    trunc31 H p1 = trunc31 H p2 -> p1 = p2 \/ leaf_collision H p1 p2.
  Proof.
    intro Ht. destruct (bytes_eq_dec p1 p2); [left | right; split]; auto.
  Qed.

  (* ----- accounts ----- *)
  Lemma account_leaf_inj a1 u1 r1 e1 a2 u2 r2 e2 :
    length a1 = 32%nat -> length a2 = 32%nat ->
    account_leaf H a1 u1 r1 e1 = account_leaf H a2 u2 r2 e2 ->
    (a1 = a2 /\ e1 = e2) \/ leaf_collision H (account_prehash a1 e1) (account_prehash a2 e2).
  Proof.
    intros L1 L2 E. unfold account_leaf in E. apply leaf_eq_inv in E as [_ Ht].
    destruct (collision_or_eq _ _ Ht) as [Hp | Hc]; [left | right; exact Hc].
    unfold account_prehash in Hp. apply app_eq_len; congruence.
  Qed.

  (* ----- resources ----- *)
  Lemma resource_prehash_inj a1 c1 e1 a2 c2 e2 :
    length a1 = 32%nat -> length a2 = 32%nat -> c1 < 2 ^ 64 -> c2 < 2 ^ 64 ->
    resource_prehash a1 c1 e1 = resource_prehash a2 c2 e2 -> a1 = a2 /\ c1 = c2 /\ e1 = e2.
  Proof.
    intros L1 L2 B1 B2 E. unfold resource_prehash in E.
    apply app_eq_len in E as [Ha E]; [|congruence].
    apply app_eq_len in E as [Hc He]; [|now rewrite !le_bytes_length].
    repeat split; auto.
    apply (le_bytes_inj 8); auto.
  Qed.

  Lemma resource_leaf_k_inj k1 a1 c1 u1 e1 k2 a2 c2 u2 e2 :
    length a1 = 32%nat -> length a2 = 32%nat -> c1 < 2 ^ 64 -> c2 < 2 ^ 64 ->
    resource_leaf_k H k1 a1 c1 u1 e1 = resource_leaf_k H k2 a2 c2 u2 e2 ->
    k1 = k2 /\
    ((a1 = a2 /\ c1 = c2 /\ e1 = e2) \/
     leaf_collision H (resource_prehash a1 c1 e1) (resource_prehash a2 c2 e2)).
  Proof.
    intros L1 L2 B1 B2 E. unfold resource_leaf_k in E. apply leaf_eq_inv in E as [Hk Ht].
    split; auto.
    destruct (collision_or_eq _ _ Ht) as [Hp | Hc]; [left | right; exact Hc].
    now apply resource_prehash_inj.
  Qed.

  Lemma resource_leaf_inj ia1 ip1 a1 c1 u1 e1 ia2 ip2 a2 c2 u2 e2 l :
    length a1 = 32%nat -> length a2 = 32%nat -> c1 < 2 ^ 64 -> c2 < 2 ^ 64 ->
    resource_leaf H ia1 ip1 a1 c1 u1 e1 = Some l ->
    resource_leaf H ia2 ip2 a2 c2 u2 e2 = Some l ->
    resource_kind ia1 ip1 = resource_kind ia2 ip2 /\
    ((a1 = a2 /\ c1 = c2 /\ e1 = e2) \/
     leaf_collision H (resource_prehash a1 c1 e1) (resource_prehash a2 c2 e2)).
  Proof.
    intros L1 L2 B1 B2 E1 E2. unfold resource_leaf in *.
    destruct (resource_kind ia1 ip1) as [k1|]; [|discriminate].
    destruct (resource_kind ia2 ip2) as [k2|]; [|discriminate].
    injection E1 as E1. injection E2 as E2. subst l.
    destruct (resource_leaf_k_inj _ _ _ _ _ _ _ _ _ _ L1 L2 B1 B2 (eq_sym E2)) as [-> R]. auto.
  Qed.

  (* ----- KV ----- *)
  Lemma kv_leaf_concat k1 v1 k2 v2 :
    k1 ++ v1 = k2 ++ v2 -> kv_leaf H k1 v1 = kv_leaf H k2 v2.
  Proof. intro E. unfold kv_leaf, kv_prehash. now rewrite E. Qed.

  Lemma kv_leaf_eq k1 v1 k2 v2 :
    kv_leaf H k1 v1 = kv_leaf H k2 v2 ->
    k1 ++ v1 = k2 ++ v2 \/ leaf_collision H (kv_prehash k1 v1) (kv_prehash k2 v2).
  Proof.
    intro E. unfold kv_leaf in E. apply leaf_eq_inv in E as [_ Ht].
    exact (collision_or_eq _ _ Ht).
  Qed.

  Lemma kv_leaf_inj_fixed_len k1 v1 k2 v2 :
    length k1 = length k2 ->
    kv_leaf H k1 v1 = kv_leaf H k2 v2 ->
    (k1 = k2 /\ v1 = v2) \/ leaf_collision H (kv_prehash k1 v1) (kv_prehash k2 v2).
  Proof.
    intros L E. destruct (kv_leaf_eq _ _ _ _ E) as [Hc | Hc]; [left | right; exact Hc].
    now apply app_eq_len.
  Qed.

  (* ----- all classes ----- *)
  Lemma leaf_of_shape e l :
    leaf_of H e = Some l ->
    kind_of e < 4 /\
    exists a, l = be_low 4 a [] ++ kind_of e :: trunc31 H (prehash_of e).
  Proof.
    destruct e as [a u r enc | a c ia ip u enc | k v]; cbn [leaf_of kind_of prehash_of]; intro E.
    - injection E as <-. split; [reflexivity|]. eexists. apply leaf_shape.
    - unfold resource_leaf in E. destruct (resource_kind ia ip) as [kk|] eqn:K; [|discriminate].
      injection E as <-. split.
      + unfold resource_kind in K. destruct ia; [injection K as <-; reflexivity|].
        destruct ip; [injection K as <-; reflexivity | discriminate].
      + eexists. apply leaf_shape.
    - injection E as <-. split; [reflexivity|]. eexists. apply leaf_shape.
  Qed.

  Lemma leaf_length e l : leaf_of H e = Some l -> length l = 36%nat.
  Proof.
    intro E. apply leaf_of_shape in E as [_ [a ->]].
    rewrite app_length, be_low_length. cbn [length]. rewrite trunc31_length. reflexivity.
  Qed.

  Lemma leaf_kind_byte e l : leaf_of H e = Some l -> nth 4 l 255 = kind_of e.
  Proof.
    intro E. apply leaf_of_shape in E as [_ [a ->]]. rewrite be_low4. reflexivity.
  Qed.

  (* domain separation: needs nothing from the hash function *)
  Lemma leaf_kinds_separated e1 e2 l1 l2 :
    leaf_of H e1 = Some l1 -> leaf_of H e2 = Some l2 -> kind_of e1 <> kind_of e2 -> l1 <> l2.
  Proof.
    intros E1 E2 Hk Hl. apply leaf_kind_byte in E1, E2. congruence.
  Qed.

  Lemma res_kind_vals ia ip k : resource_kind ia ip = Some k -> k = 1 \/ k = 2.
  Proof.
    unfold resource_kind. intro K.
    destruct ia; [injection K as <-; auto|]. destruct ip; [injection K as <-; auto | discriminate].
  Qed.

  Lemma leaf_of_inj e1 e2 l :
    wf_entry e1 -> wf_entry e2 ->
    leaf_of H e1 = Some l -> leaf_of H e2 = Some l ->
    same_ident e1 e2 \/ kv_ambiguous e1 e2 \/ leaf_collision H (prehash_of e1) (prehash_of e2).
  Proof.
    intros W1 W2 E1 E2.
    destruct (leaf_of_shape _ _ E1) as [_ [x1 S1]].
    destruct (leaf_of_shape _ _ E2) as [_ [x2 S2]].
    assert (kind_of e1 = kind_of e2 /\ trunc31 H (prehash_of e1) = trunc31 H (prehash_of e2)) as [Hk Ht].
    { rewrite S1, !be_low4 in S2. cbn [app] in S2. injection S2. auto. }
    destruct (collision_or_eq _ _ Ht) as [Hp | Hc]; [| right; right; exact Hc].
    destruct e1 as [a1 u1 r1 n1 | a1 c1 ia1 ip1 u1 n1 | k1 v1];
      destruct e2 as [a2 u2 r2 n2 | a2 c2 ia2 ip2 u2 n2 | k2 v2];
      cbn [kind_of prehash_of wf_entry same_ident kv_ambiguous leaf_of] in *.
    - left. unfold account_prehash in Hp. apply app_eq_len; congruence.
    - exfalso. unfold resource_leaf in E2. destruct (resource_kind ia2 ip2) eqn:K; [|discriminate].
      destruct (res_kind_vals _ _ _ K) as [-> | ->]; discriminate.
    - discriminate.
    - exfalso. unfold resource_leaf in E1. destruct (resource_kind ia1 ip1) eqn:K; [|discriminate].
      destruct (res_kind_vals _ _ _ K) as [-> | ->]; discriminate.
    - left. destruct W1 as [L1 B1], W2 as [L2 B2].
      destruct (resource_prehash_inj _ _ _ _ _ _ L1 L2 B1 B2 Hp) as [-> [-> ->]].
      repeat split; auto.
      unfold resource_leaf in E1, E2.
      destruct (resource_kind ia1 ip1) eqn:K1; [|discriminate].
      destruct (resource_kind ia2 ip2) eqn:K2; [|discriminate].
      congruence.
    - exfalso. unfold resource_leaf in E1. destruct (resource_kind ia1 ip1) eqn:K; [|discriminate].
      destruct (res_kind_vals _ _ _ K) as [-> | ->]; discriminate.
    - discriminate.
    - exfalso. unfold resource_leaf in E2. destruct (resource_kind ia2 ip2) eqn:K; [|discriminate].
      destruct (res_kind_vals _ _ _ K) as [-> | ->]; discriminate.
    - unfold kv_prehash in Hp.
      destruct (bytes_eq_dec k1 k2) as [-> | Hn].
      + left. split; auto. now apply app_inv_head in Hp.
      + right. left. split; auto. intro Q. injection Q. auto.
  Qed.

  Lemma leaf_collision_sym x y : leaf_collision H x y -> leaf_collision H y x.
  Proof. intros [A B]. split; auto. Qed.

  (* ---------- label ---------- *)
  Lemma concat32_inj (l1 l2 : list bytes) :
    length l1 = length l2 ->
    Forall (fun d => length d = 32%nat) l1 -> Forall (fun d => length d = 32%nat) l2 ->
    concat l1 = concat l2 -> l1 = l2.
  Proof.
    revert l2; induction l1 as [|d1 l1 IH]; intros [|d2 l2] L F1 F2 E; cbn [length concat] in *; try discriminate; auto.
    inversion F1; inversion F2; subst.
    apply app_eq_len in E as [-> E]; [|congruence].
    f_equal. apply IH; auto.
  Qed.

  Lemma concat32_length (l : list bytes) :
    Forall (fun d => length d = 32%nat) l -> length (concat l) = (32 * length l)%nat.
  Proof.
    induction 1 as [|d l Hd _ IH]; cbn [concat length]; [reflexivity|].
    rewrite app_length, IH, Hd. lia.
  Qed.

  Lemma label_buffer_inj bh1 r1 t1 x1 bh2 r2 t2 x2 :
    length bh1 = 32%nat -> length bh2 = 32%nat -> length r1 = 32%nat -> length r2 = 32%nat ->
    length x1 = length x2 ->
    Forall (fun d => length d = 32%nat) x1 -> Forall (fun d => length d = 32%nat) x2 ->
    label_buffer bh1 r1 t1 x1 = label_buffer bh2 r2 t2 x2 ->
    bh1 = bh2 /\ r1 = r2 /\ t1 = t2 /\ x1 = x2.
  Proof.
    intros B1 B2 R1 R2 L F1 F2 E. unfold label_buffer in E.
    apply app_eq_len in E as [-> E]; [|congruence].
    apply app_eq_len in E as [-> E]; [|congruence].
    apply app_eq_len_tail in E as [-> E]; [| rewrite !concat32_length; auto ].
    repeat split; auto. now apply concat32_inj.
  Qed.

  Lemma label_digest_inj bh1 r1 t1 x1 bh2 r2 t2 x2 :
    length bh1 = 32%nat -> length bh2 = 32%nat -> length r1 = 32%nat -> length r2 = 32%nat ->
    length x1 = length x2 ->
    Forall (fun d => length d = 32%nat) x1 -> Forall (fun d => length d = 32%nat) x2 ->
    label_digest H bh1 r1 t1 x1 = label_digest H bh2 r2 t2 x2 ->
    (bh1 = bh2 /\ r1 = r2 /\ t1 = t2 /\ x1 = x2) \/
    hash_collision H (label_buffer bh1 r1 t1 x1) (label_buffer bh2 r2 t2 x2).
  Proof.
    intros B1 B2 R1 R2 L F1 F2 E. unfold label_digest in E.
    destruct (bytes_eq_dec (label_buffer bh1 r1 t1 x1) (label_buffer bh2 r2 t2 x2)) as [Q | Q].
    - left. now apply label_buffer_inj.
    - right. split; auto.
  Qed.

  (* ---------- states ---------- *)
  Lemma in_leaves_of es l :
    In l (leaves_of H es) <-> exists e, In e es /\ leaf_of H e = Some l.
  Proof.
    unfold leaves_of. rewrite in_flat_map. split.
    - intros [e [I J]]. exists e. split; auto.
      destruct (leaf_of H e) as [l'|]; cbn in J; [destruct J as [-> | []]; auto | contradiction].
    - intros [e [I J]]. exists e. split; auto. rewrite J. now left.
  Qed.

  Lemma covered_or_collide es1 es2 :
    wf_state H es1 -> wf_state H es2 ->
    (forall x, In x (leaves_of H es1) -> In x (leaves_of H es2)) ->
    covered es1 es2 \/ entries_collide H es1 es2.
  Proof.
    intros W1 W2 Sub.
    assert (forall l, (forall e, In e l -> In e es1) ->
              (forall e, In e l -> exists e', In e' es2 /\ (same_ident e e' \/ kv_ambiguous e e'))
              \/ entries_collide H es1 es2) as G.
    { induction l as [|e l IH]; intro Incl.
      - left. intros e [].
      - destruct (IH (fun e' I => Incl e' (or_intror I))) as [IHc | IHc]; [| right; exact IHc].
        assert (In e es1) as Ie by (apply Incl; now left).
        destruct (W1 e Ie) as [We Le].
        destruct (leaf_of H e) as [le|] eqn:Ee; [| congruence].
        assert (In le (leaves_of H es2)) as I2.
        { apply Sub. apply in_leaves_of. eauto. }
        apply in_leaves_of in I2 as [e' [Ie' Ee']].
        destruct (W2 e' Ie') as [We' _].
        destruct (leaf_of_inj e e' le We We' Ee Ee') as [S | [S | S]].
        + left. intros e0 [<- | I0]; [exists e'; auto | auto].
        + left. intros e0 [<- | I0]; [exists e'; auto | auto].
        + right. exists e, e'. auto. }
    apply (G es1). auto.
  Qed.

  Lemma entries_collide_sym es1 es2 : entries_collide H es1 es2 -> entries_collide H es2 es1.
  Proof. intros [e1 [e2 [I1 [I2 C]]]]. exists e2, e1. repeat split; auto; apply leaf_collision_sym, C. Qed.

  Section StateLevel.
    Variable root : list bytes -> bytes.
    Variable trie_collision : list bytes -> list bytes -> Prop.
    Hypothesis root_len : forall l, length (root l) = 32%nat.
    Hypothesis root_binding : forall l1 l2,
        root l1 = root l2 -> (forall x, In x l1 <-> In x l2) \/ trie_collision l1 l2.

    Lemma label_inj_except_kv es1 es2 bh1 bh2 t1 t2 x1 x2 :
      wf_state H es1 -> wf_state H es2 ->
      length bh1 = 32%nat -> length bh2 = 32%nat -> length x1 = length x2 ->
      Forall (fun d => length d = 32%nat) x1 -> Forall (fun d => length d = 32%nat) x2 ->
      state_label H root es1 bh1 t1 x1 = state_label H root es2 bh2 t2 x2 ->
      (bh1 = bh2 /\ t1 = t2 /\ x1 = x2 /\ state_equiv es1 es2)
      \/ hash_collision H (label_buffer bh1 (root (leaves_of H es1)) t1 x1)
                          (label_buffer bh2 (root (leaves_of H es2)) t2 x2)
      \/ trie_collision (leaves_of H es1) (leaves_of H es2)
      \/ entries_collide H es1 es2.
    Proof.
      intros W1 W2 B1 B2 L F1 F2 E. unfold state_label in E.
      destruct (label_digest_inj _ _ _ _ _ _ _ _ B1 B2 (root_len _) (root_len _) L F1 F2 E)
        as [[-> [R [-> ->]]] | C]; [| right; left; exact C].
      destruct (root_binding _ _ R) as [S | C]; [| right; right; left; exact C].
      destruct (covered_or_collide es1 es2 W1 W2 (fun x => proj1 (S x))) as [C1 | C1];
        [| right; right; right; exact C1].
      destruct (covered_or_collide es2 es1 W2 W1 (fun x => proj2 (S x))) as [C2 | C2];
        [| right; right; right; apply entries_collide_sym, C2].
      left. repeat split; auto.
    Qed.

    Lemma covered_fixed_len n es1 es2 :
      kv_keys_fixed_len n es1 -> kv_keys_fixed_len n es2 -> covered es1 es2 ->
      forall e, In e es1 -> exists e', In e' es2 /\ same_ident e e'.
    Proof.
      intros K1 K2 C e I. destruct (C e I) as [e' [I' [S | A]]]; [eauto|].
      exfalso. destruct e as [| |k1 v1]; destruct e' as [| |k2 v2]; cbn [kv_ambiguous] in A; try contradiction.
      destruct A as [Hn Hc]. apply app_eq_len in Hc as [-> ->].
      - now apply Hn.
      - rewrite (K1 _ _ I), (K2 _ _ I'). reflexivity.
    Qed.

    Lemma label_inj_fixed_keylen n es1 es2 bh1 bh2 t1 t2 x1 x2 :
      wf_state H es1 -> wf_state H es2 ->
      kv_keys_fixed_len n es1 -> kv_keys_fixed_len n es2 ->
      length bh1 = 32%nat -> length bh2 = 32%nat -> length x1 = length x2 ->
      Forall (fun d => length d = 32%nat) x1 -> Forall (fun d => length d = 32%nat) x2 ->
      state_label H root es1 bh1 t1 x1 = state_label H root es2 bh2 t2 x2 ->
      (bh1 = bh2 /\ t1 = t2 /\ x1 = x2 /\ state_same es1 es2)
      \/ hash_collision H (label_buffer bh1 (root (leaves_of H es1)) t1 x1)
                          (label_buffer bh2 (root (leaves_of H es2)) t2 x2)
      \/ trie_collision (leaves_of H es1) (leaves_of H es2)
      \/ entries_collide H es1 es2.
    Proof.
      intros W1 W2 K1 K2 B1 B2 L F1 F2 E.
      destruct (label_inj_except_kv _ _ _ _ _ _ _ _ W1 W2 B1 B2 L F1 F2 E)
        as [[-> [-> [-> [C1 C2]]]] | R]; [left | right; exact R].
      repeat split; auto; eapply covered_fixed_len; eauto.
    Qed.
  End StateLevel.
End Leaves.

(* ---------- data-level corollaries: "given an injective encoding" ---------- *)
Section Data.
  Variable H : bytes -> bytes.
  Variables AD RD : Type.
  Variables (ad_upd ad_rb : AD -> N) (ad_enc : AD -> bytes).
  Variables (rd_asset rd_app : RD -> bool) (rd_upd : RD -> N) (rd_enc : RD -> bytes).
  Hypothesis ad_enc_inj : forall d1 d2, ad_enc d1 = ad_enc d2 -> d1 = d2.
  Hypothesis rd_enc_inj : forall d1 d2, rd_enc d1 = rd_enc d2 -> d1 = d2.

  Lemma account_leaf_inj_data a1 d1 a2 d2 :
    length a1 = 32%nat -> length a2 = 32%nat ->
    account_leaf H a1 (ad_upd d1) (ad_rb d1) (ad_enc d1) = account_leaf H a2 (ad_upd d2) (ad_rb d2) (ad_enc d2) ->
    (a1 = a2 /\ d1 = d2) \/
    leaf_collision H (account_prehash a1 (ad_enc d1)) (account_prehash a2 (ad_enc d2)).
  Proof.
    intros L1 L2 E. destruct (account_leaf_inj H _ _ _ _ _ _ _ _ L1 L2 E) as [[-> Q] | C]; auto.
  Qed.

  Lemma resource_leaf_inj_data a1 c1 d1 a2 c2 d2 l :
    length a1 = 32%nat -> length a2 = 32%nat -> c1 < 2 ^ 64 -> c2 < 2 ^ 64 ->
    resource_leaf H (rd_asset d1) (rd_app d1) a1 c1 (rd_upd d1) (rd_enc d1) = Some l ->
    resource_leaf H (rd_asset d2) (rd_app d2) a2 c2 (rd_upd d2) (rd_enc d2) = Some l ->
    (a1 = a2 /\ c1 = c2 /\ d1 = d2) \/
    leaf_collision H (resource_prehash a1 c1 (rd_enc d1)) (resource_prehash a2 c2 (rd_enc d2)).
  Proof.
    intros L1 L2 B1 B2 E1 E2.
    destruct (resource_leaf_inj H _ _ _ _ _ _ _ _ _ _ _ _ _ L1 L2 B1 B2 E1 E2) as [_ [[-> [-> Q]] | C]]; auto.
  Qed.
End Data.

(* ---------- the refutations (hold for EVERY hash function) ---------- *)
Definition w_k1 : bytes := make_box_key 7 [97; 98].     (* box "ab" of app 7 *)
Definition w_v1 : bytes := [99].                        (* "c"  *)
Definition w_k2 : bytes := make_box_key 7 [97].         (* box "a" of app 7 *)
Definition w_v2 : bytes := [98; 99].                    (* "bc" *)

Lemma w_concat : w_k1 ++ w_v1 = w_k2 ++ w_v2.
Proof. vm_compute. reflexivity. Qed.

Lemma w_distinct : (w_k1, w_v1) <> (w_k2, w_v2).
Proof. vm_compute. intro Q. discriminate Q. Qed.

Lemma kv_leaf_inj_refuted :
  exists k1 v1 k2 v2,
    k1 = make_box_key 7 [97; 98] /\ v1 = [99] /\ k2 = make_box_key 7 [97] /\ v2 = [98; 99] /\
    (k1, v1) <> (k2, v2) /\
    box_bytes [97; 98] v1 = box_bytes [97] v2 /\
    forall H, kv_leaf H k1 v1 = kv_leaf H k2 v2.
Proof.
  exists w_k1, w_v1, w_k2, w_v2.
  split; [reflexivity|]. split; [reflexivity|]. split; [reflexivity|]. split; [reflexivity|].
  split; [exact w_distinct|]. split; [reflexivity|].
  intro H. apply kv_leaf_concat. exact w_concat.
Qed.

(* the application account of both states: TotalBoxes = 1, TotalBoxBytes = 3 in both, so the very
   same account entry [acct] belongs to both states *)
Definition w_state1 (acct : entry) : list entry := [acct; EKv w_k1 w_v1].
Definition w_state2 (acct : entry) : list entry := [acct; EKv w_k2 w_v2].

Lemma label_inj_refuted :
  forall a u r enc, length a = 32%nat ->
    let acct := EAcct a u r enc in
    (forall H, wf_state H (w_state1 acct) /\ wf_state H (w_state2 acct)) /\
    ~ state_same (w_state1 acct) (w_state2 acct) /\
    state_equiv (w_state1 acct) (w_state2 acct) /\
    forall H root bh t x,
      state_label H root (w_state1 acct) bh t x = state_label H root (w_state2 acct) bh t x.
Proof.
  intros a u r enc La acct.
  assert (forall H, wf_state H (w_state1 acct) /\ wf_state H (w_state2 acct)) as W.
  { intro H. split; intros e0 [<- | [<- | []]]; cbn; split; auto; discriminate. }
  split; [exact W|]. split; [|split; [split|]].
  - intros [S _].
    destruct (S (EKv w_k1 w_v1)) as [e' [I Q]]; [right; now left|].
    destruct I as [<- | [<- | []]]; cbn [same_ident] in Q; [contradiction|].
    destruct Q as [Q1 Q2]. apply w_distinct. now rewrite Q1, Q2.
  - intros e0 [<- | [<- | []]].
    + exists acct. split; [now left | left; cbn; auto].
    + exists (EKv w_k2 w_v2). split; [right; now left | right; cbn; split; [exact w_distinct | exact w_concat]].
  - intros e0 [<- | [<- | []]].
    + exists acct. split; [now left | left; cbn; auto].
    + exists (EKv w_k1 w_v1). split; [right; now left | right; cbn; split].
      * intro Q. apply w_distinct. now symmetry.
      * symmetry. exact w_concat.
  - intros H root bh t x. unfold state_label, leaves_of, w_state1, w_state2.
    cbn [flat_map leaf_of]. now rewrite (kv_leaf_concat H _ _ _ _ w_concat).
Qed.

Lemma leaf_shape_all H e l : leaf_of H e = Some l ->
  length l = 36%nat /\ nth 4 l 255 = kind_of e /\ kind_of e < 4.
Proof.
  intro E. split; [exact (leaf_length H e l E)|]. split; [exact (leaf_kind_byte H e l E)|].
  exact (proj1 (leaf_of_shape H e l E)).
Qed.
