(* C09, part 2: the catchpoint leftovers.  Invariants of the catchpoint tables / files over every
   execution of the crash machine and what recoverFromCrash guarantees on any reachable disk. *)
From Coq Require Import List Arith Bool Lia FinFun.
From Verif.model Require Import LedgerCrash.
From Verif.proofs Require Import LedgerCrashProofs.
Import ListNotations.

(* ---------- membership lemmas for the table / file helpers ---------- *)
Lemma memb_true : forall x l, memb x l = true <-> In x l.
Proof.
  intros x l. unfold memb. rewrite existsb_exists. split.
  - intros (y & Hy & E). apply Nat.eqb_eq in E. subst. exact Hy.
  - intros H. exists x. split; [exact H|apply Nat.eqb_refl].
Qed.

Lemma In_insert_nat : forall y x l, In y (insert_nat x l) <-> y = x \/ In y l.
Proof.
  intros y x l. induction l as [|z l IH]; simpl.
  - intuition.
  - destruct (x <? z) eqn:E1; simpl; [intuition|].
    destruct (x =? z) eqn:E2; simpl.
    + apply Nat.eqb_eq in E2. subst. intuition.
    + rewrite IH. intuition.
Qed.

Lemma In_remove_nat : forall y x l, In y (remove_nat x l) <-> In y l /\ y <> x.
Proof.
  intros y x l. unfold remove_nat. rewrite filter_In. rewrite negb_true_iff, Nat.eqb_neq. intuition.
Qed.

Lemma In_rm_file : forall y c x l, In (y, c) (rm_file x l) <-> In (y, c) l /\ y <> x.
Proof.
  intros y c x l. unfold rm_file. rewrite filter_In. simpl. rewrite negb_true_iff, Nat.eqb_neq. intuition.
Qed.

Lemma In_put_file : forall y c x b l, In (y, c) (put_file x b l) <-> (In (y, c) l /\ y <> x) \/ (y = x /\ c = b).
Proof.
  intros y c x b l. unfold put_file. rewrite in_app_iff, In_rm_file. simpl. split.
  - intros [H|[H|[]]]; [left; exact H|]. inversion H; subst. right; auto.
  - intros [H|[H1 H2]]; [left; exact H|]. subst. right; left; reflexivity.
Qed.

Lemma has_file_true : forall x l, has_file x l = true <-> exists c, In (x, c) l.
Proof.
  intros x l. unfold has_file. rewrite existsb_exists. split.
  - intros ([y c] & Hy & E). simpl in E. apply Nat.eqb_eq in E. subst. exists c. exact Hy.
  - intros (c & H). exists (x, c). split; [exact H|apply Nat.eqb_refl].
Qed.

Lemma In_fold_insert : forall y rs l0, In y (fold_left (fun l r => insert_nat r l) rs l0) <-> In y rs \/ In y l0.
Proof.
  intros y rs. induction rs as [|r rs IH]; intros l0; simpl; [intuition|].
  rewrite IH, In_insert_nat. intuition.
Qed.

Lemma last_app_gen : forall {A} (a b : list A) d, last (a ++ b) d = last b (last a d).
Proof.
  intros A a. induction a as [|x a IH]; intros b d; [reflexivity|].
  change ((x :: a) ++ b) with (x :: (a ++ b)). rewrite !last_cons. apply IH.
Qed.

(* ---------- arithmetic of calculateCatchpointRounds ---------- *)
Lemma cp_rounds_bounds : forall old off I CL r, In r (cp_rounds old off I CL) -> old < r /\ r <= old + off.
Proof.
  intros old off I CL r. unfold cp_rounds.
  destruct (I =? 0) eqn:EI; [intros []|]. apply Nat.eqb_neq in EI.
  set (mn := if old + 1 <? CL + 1 then CL + 1 else old + 1).
  assert (Hmn : old + 1 <= mn) by (unfold mn; destruct (old + 1 <? CL + 1) eqn:E; [apply Nat.ltb_lt in E; lia|lia]).
  destruct ((old + off) / I <? (mn + I - 1) / I) eqn:E; [intros []|]. apply Nat.ltb_ge in E.
  rewrite in_map_iff. intros (i & <- & Hi). apply in_seq in Hi.
  pose proof (ceil_mul_ge mn I ltac:(lia)) as H1.
  pose proof (div_mul_le (old + off) I) as H2.
  assert (H3 : (mn + I - 1) / I * I <= i * I) by (apply Nat.mul_le_mono_r; lia).
  assert (H4 : i * I <= (old + off) / I * I) by (apply Nat.mul_le_mono_r; lia).
  lia.
Qed.

Lemma cp_rounds_nodup : forall old off I CL, NoDup (cp_rounds old off I CL).
Proof.
  intros old off I CL. unfold cp_rounds.
  destruct (I =? 0) eqn:EI; [constructor|]. apply Nat.eqb_neq in EI.
  destruct (_ <? _); [constructor|].
  apply FinFun.Injective_map_NoDup; [|apply seq_NoDup].
  intros a b H. apply Nat.mul_cancel_r in H; [exact H|exact EI].
Qed.

(* strictly increasing lists: the unfinishedcatchpoints table has a primary key on the round *)
Fixpoint ssorted (l : list nat) : Prop :=
  match l with [] => True | x :: tl => (forall y, In y tl -> x < y) /\ ssorted tl end.

Lemma ssorted_insert : forall x l, ssorted l -> ssorted (insert_nat x l).
Proof.
  intros x l. induction l as [|z l IH]; intros H; simpl.
  - split; [intros y []|exact I].
  - destruct H as [H1 H2]. destruct (x <? z) eqn:E1.
    + apply Nat.ltb_lt in E1. split; [|split; assumption].
      intros y [<-|Hy]; [exact E1|]. specialize (H1 y Hy). lia.
    + apply Nat.ltb_ge in E1. destruct (x =? z) eqn:E2; [split; assumption|]. apply Nat.eqb_neq in E2.
      split; [|apply IH; exact H2].
      intros y Hy. apply In_insert_nat in Hy. destruct Hy as [->|Hy]; [lia|apply H1; exact Hy].
Qed.

Lemma ssorted_filter : forall f l, ssorted l -> ssorted (filter f l).
Proof.
  intros f l. induction l as [|z l IH]; intros H; simpl; [exact I|].
  destruct H as [H1 H2]. destruct (f z); [|apply IH; exact H2].
  split; [|apply IH; exact H2]. intros y Hy. apply filter_In in Hy. apply H1. tauto.
Qed.

Lemma ssorted_fold_insert : forall rs l, ssorted l -> ssorted (fold_left (fun l r => insert_nat r l) rs l).
Proof. induction rs; intros l H; simpl; [exact H|]. apply IHrs. apply ssorted_insert. exact H. Qed.

Lemma ssorted_nodup : forall l, ssorted l -> NoDup l.
Proof.
  induction l as [|z l IH]; intros H; [constructor|]. destruct H as [H1 H2].
  constructor; [|apply IH; exact H2]. intros Hin. specialize (H1 z Hin). lia.
Qed.

Section Cp.
  Variable cf : cfg.
  Hypothesis CLpos : 0 < c_CL cf.    (* the effective CatchpointLookback (Go falls back to MaxBalLookback when 0) *)

  (* ---------- state predicates ---------- *)
  Definition data_ok (dbr : nat) (cp : cpd) : Prop :=
    forall x c, In (x, c) (cp_data cp) -> (c = true /\ In x (cp_first cp)) \/ (cp_flag cp = true /\ x = dbr).
  Definition files_ok (cp : cpd) : Prop :=
    forall r c, In (r, c) (cp_files cp) -> (c = true /\ In r (cp_stored cp)) \/ In r (cp_unfinished cp).
  Definition lb_ok (cp : cpd) : Prop :=
    cp_lookback cp = c_CL cf \/
    (cp_lookback cp = 0 /\ cp_flag cp = false /\ cp_unfinished cp = [] /\ cp_first cp = [] /\ cp_data cp = [] /\ cp_files cp = []).
  Definition nofiles_ok (cp : cpd) : Prop :=
    c_files cf = false -> cp_data cp = [] /\ cp_files cp = [].
  (* an unfinished catchpoint whose first-stage record exists has its data file (unless that
     file is just being re-created by recovery) *)
  Definition unf_ok (dbr : nat) (cp : cpd) : Prop :=
    c_files cf = true -> forall r, In r (cp_unfinished cp) -> In (r - c_CL cf) (cp_first cp) ->
      has_file (r - c_CL cf) (cp_data cp) = true \/ (cp_flag cp = true /\ r - c_CL cf = dbr).
  (* every first-stage record has its data file, except in the middle of pruning / re-creation *)
  Definition first_ok (dbr : nat) (cp : cpd) : Prop :=
    c_files cf = true -> forall x, In x (cp_first cp) ->
      has_file x (cp_data cp) = true \/
      (c_CL cf <= dbr /\ x <= dbr - c_CL cf /\ cp_unfinished cp = [] /\ cp_flag cp = false) \/
      (cp_flag cp = true /\ x = dbr).
  Definition files_le (dbr : nat) (cp : cpd) : Prop := forall r c, In (r, c) (cp_files cp) -> r <= dbr.
  Definition unf_le (dbr : nat) (cp : cpd) : Prop := forall r, In r (cp_unfinished cp) -> r <= dbr.

  Definition cpinv (dbr : nat) (cp : cpd) : Prop :=
    data_ok dbr cp /\ files_ok cp /\ lb_ok cp /\ nofiles_ok cp /\ unf_ok dbr cp /\ first_ok dbr cp /\
    files_le dbr cp /\ unf_le dbr cp /\ ssorted (cp_unfinished cp).

  Definition strict (cp : cpd) : Prop :=
    c_files cf = true -> forall x, In x (cp_first cp) -> has_file x (cp_data cp) = true.

  (* what holds whenever no commit / recovery is in progress *)
  Definition idle (cp : cpd) : Prop :=
    cp_flag cp = false /\ strict cp /\ (c_files cf = true -> cp_unfinished cp = []).

  Definition trace_ok (dbr : nat) (cp : cpd) (tr : list cpd) : Prop :=
    Forall (cpinv dbr) tr /\ idle (last tr cp).

  Ltac cpsplit := refine (conj _ (conj _ (conj _ (conj _ (conj _ (conj _ (conj _ (conj _ _)))))))).
  Ltac cpunf := unfold data_ok, files_ok, lb_ok, nofiles_ok, unf_ok, first_ok, files_le, unf_le, strict.

  (* ---------- Hoare triples over traces ---------- *)
  Definition hoare (pre : cpd -> Prop) (f : cpd -> list cpd) (mid post : cpd -> Prop) : Prop :=
    forall cp, pre cp -> Forall mid (f cp) /\ post (last (f cp) cp).

  Lemma cp_init_inv : cpinv 0 cp_init /\ idle cp_init.
  Proof.
    unfold cpinv, idle. cpunf. unfold cp_init; simpl.
    repeat split; auto; try (intros; contradiction). right. repeat split; reflexivity.
  Qed.

  Lemma has_file_put_other : forall y x b l, y <> x -> has_file y l = true -> has_file y (put_file x b l) = true.
  Proof.
    intros y x b l Hne H. apply has_file_true in H. destruct H as (c & H). apply has_file_true.
    exists c. apply In_put_file. left; auto.
  Qed.

  Lemma has_file_put_same : forall x b l, has_file x (put_file x b l) = true.
  Proof. intros. apply has_file_true. exists b. apply In_put_file. right; auto. Qed.

  Lemma has_file_rm_other : forall y x l, y <> x -> has_file y l = true -> has_file y (rm_file x l) = true.
  Proof.
    intros y x l Hne H. apply has_file_true in H. destruct H as (c & H). apply has_file_true.
    exists c. apply In_rm_file. auto.
  Qed.

  (* ---------- finishFirstStage ---------- *)
  Definition pre_first (x : nat) (U : list nat) (F : list (nat * bool)) (cp : cpd) : Prop :=
    cpinv x cp /\ cp_lookback cp = c_CL cf /\
    (c_files cf = true -> forall y, In y (cp_first cp) -> has_file y (cp_data cp) = true \/ (cp_flag cp = true /\ y = x)) /\
    cp_flag cp = true /\ cp_unfinished cp = U /\ cp_files cp = F.
  Definition stage1 (x : nat) (U : list nat) (F : list (nat * bool)) (cp : cpd) : Prop :=
    cpinv x cp /\ cp_lookback cp = c_CL cf /\ cp_flag cp = false /\ strict cp /\ cp_unfinished cp = U /\ cp_files cp = F.

  Lemma finish_first_hoare : forall x U F,
    hoare (pre_first x U F) (finish_first cf x) (cpinv x) (stage1 x U F).
  Proof.
    intros x U F cp ((Hd & Hf & Hl & Hn & Hu & Hk & Hfl & Hul & Hso) & Hlb & Hstrict & Hflag & HU & HF).
    unfold finish_first. destruct (c_files cf) eqn:EF.
    - (* files *)
      assert (Hput : forall b, cpinv x (set_data (put_file x b (cp_data cp)) cp)).
      { intros b. unfold cpinv. cpunf. simpl. rewrite EF.
        cpsplit; [> | exact Hf | left; exact Hlb | discriminate | | | exact Hfl | exact Hul | exact Hso].
        - intros y c Hy. apply In_put_file in Hy. destruct Hy as [[Hy Hne]|[-> ->]]; [apply Hd; exact Hy|right; auto].
        - intros _ r Hr Hx. destruct (Hu EF r Hr Hx) as [H|H]; [|right; exact H].
          destruct (Nat.eq_dec (r - c_CL cf) x) as [E|E]; [right; auto|].
          left. apply has_file_put_other; assumption.
        - intros _ y Hy. destruct (Nat.eq_dec y x) as [->|E]; [right; right; auto|].
          destruct (Hstrict eq_refl y Hy) as [H|[_ H]]; [|contradiction].
          left. apply has_file_put_other; assumption. }
      assert (Hstrict3 : forall y, In y (insert_nat x (cp_first cp)) -> has_file y (put_file x true (cp_data cp)) = true).
      { intros y Hy. apply In_insert_nat in Hy.
        destruct (Nat.eq_dec y x) as [->|E]; [apply has_file_put_same|].
        destruct Hy as [Hy|Hy]; [contradiction|].
        destruct (Hstrict eq_refl y Hy) as [H|[_ H]]; [|contradiction].
        apply has_file_put_other; assumption. }
      assert (S3 : cpinv x (set_flag false (set_first (insert_nat x (cp_first cp)) (set_data (put_file x true (cp_data cp)) cp)))).
      { unfold cpinv. cpunf. simpl. rewrite EF.
        cpsplit; [> | exact Hf | left; exact Hlb | discriminate | | | exact Hfl | exact Hul | exact Hso].
        - intros y c Hy. left. apply In_put_file in Hy. destruct Hy as [[Hy Hne]|[-> ->]].
          + destruct (Hd y c Hy) as [[H1 H2]|[_ H]]; [|contradiction]. split; [exact H1|]. apply In_insert_nat. right; exact H2.
          + split; [reflexivity|]. apply In_insert_nat. left; reflexivity.
        - intros _ r Hr Hx. left. apply Hstrict3. exact Hx.
        - intros _ y Hy. left. apply Hstrict3. exact Hy. }
      cbn [app]. split; [apply Forall_cons; [apply Hput|apply Forall_cons; [apply Hput|apply Forall_cons; [exact S3|apply Forall_nil]]]|].
      unfold stage1. cbn [last]. split; [exact S3|]. unfold strict. simpl.
      split; [exact Hlb|]. split; [reflexivity|]. split; [intros _; exact Hstrict3|]. split; assumption.
    - (* no files *)
      destruct (Hn EF) as [Hn1 Hn2].
      assert (S3 : cpinv x (set_flag false (set_first (insert_nat x (cp_first cp)) cp))).
      { unfold cpinv. cpunf. simpl. rewrite EF, Hn1.
        cpsplit; [> intros y c [] | exact Hf | left; exact Hlb | intros _; split; [reflexivity|exact Hn2] | discriminate | discriminate | exact Hfl | exact Hul | exact Hso]. }
      cbn [app]. split; [apply Forall_cons; [exact S3|apply Forall_nil]|].
      unfold stage1. cbn [last]. split; [exact S3|]. unfold strict. simpl.
      split; [exact Hlb|]. split; [reflexivity|]. split; [intros H; rewrite EF in H; discriminate|]. split; assumption.
  Qed.

  (* ---------- finishCatchpoint ---------- *)
  (* loop invariant while the rounds [rs] are still to be finished *)
  Definition stage2 (dbr : nat) (rs : list nat) (cp : cpd) : Prop :=
    cpinv dbr cp /\ cp_lookback cp = c_CL cf /\ cp_flag cp = false /\ strict cp /\
    (c_files cf = true -> forall u, In u (cp_unfinished cp) -> In u rs) /\
    (forall r, In r rs -> In r (cp_unfinished cp) /\ r <= dbr).

  Lemma finish_catchpoint_hoare : forall dbr r tl F, ~ In r tl ->
    hoare (fun cp => stage2 dbr (r :: tl) cp /\ cp_files cp = F /\ forall c, ~ In (r, c) F)
          (finish_catchpoint cf r (c_CL cf)) (cpinv dbr)
          (fun cp => stage2 dbr tl cp /\ forall r' c, In (r', c) (cp_files cp) -> In (r', c) F \/ r' = r).
  Proof.
    intros dbr r tl F Hnd cp (((Hd & Hf & Hl & Hn & Hu & Hk & Hfl & Hul & Hso) & Hlb & Hflag & Hstrict & Hsub & Hin) & HF & Hnofile).
    subst F.
    assert (Hr : In r (cp_unfinished cp) /\ r <= dbr) by (apply Hin; left; reflexivity).
    destruct Hr as [Hr Hrle].
    unfold finish_catchpoint.
    destruct (memb (r - c_CL cf) (cp_first cp)) eqn:EM; cbn [negb].
    - (* first-stage record exists: label ... *)
      apply memb_true in EM.
      assert (S1 : cpinv dbr (set_label r cp)).
      { unfold cpinv. cpunf. simpl. cpsplit; [> exact Hd | exact Hf | exact Hl | exact Hn | exact Hu | exact Hk | exact Hfl | exact Hul | exact Hso]. }
      destruct (c_files cf) eqn:EF; cbn [negb].
      + assert (Hhas : has_file (r - c_CL cf) (cp_data cp) = true) by (apply Hstrict; [exact EF|exact EM]).
        simpl (cp_data (set_label r cp)). rewrite Hhas. cbn [negb].
        assert (Hput : forall b, cpinv dbr (set_files (put_file r b (cp_files cp)) (set_label r cp))).
        { intros b. unfold cpinv. cpunf. simpl. rewrite EF.
          cpsplit; [> exact Hd | | left; exact Hlb | discriminate | intros _; exact (Hu EF) | intros _; exact (Hk EF) | | exact Hul | exact Hso].
          - intros r' c Hy. apply In_put_file in Hy. destruct Hy as [[Hy Hne]|[-> ->]]; [apply Hf; exact Hy|right; exact Hr].
          - intros r' c Hy. apply In_put_file in Hy. destruct Hy as [[Hy Hne]|[-> ->]]; [eapply Hfl; exact Hy|exact Hrle]. }
        set (f2 := set_files (put_file r true (cp_files cp)) (set_label r cp)).
        assert (S4 : cpinv dbr (set_unfinished (remove_nat r (cp_unfinished f2)) (set_stored (insert_nat r (cp_stored f2)) f2))).
        { unfold cpinv. cpunf. unfold f2. simpl. rewrite EF.
          cpsplit; [> exact Hd | | left; exact Hlb | discriminate | | | | | apply ssorted_filter; exact Hso].
          - intros r' c Hy. apply In_put_file in Hy. destruct Hy as [[Hy Hne]|[-> ->]].
            + destruct (Hf r' c Hy) as [[H1 H2]|H]; [left; split; [exact H1|apply In_insert_nat; right; exact H2]|].
              right. apply In_remove_nat. auto.
            + left. split; [reflexivity|apply In_insert_nat; left; reflexivity].
          - intros _ u Hu' Hx. apply In_remove_nat in Hu'. left. apply Hstrict; [exact EF|exact Hx].
          - intros _ y Hy. left. apply Hstrict; [exact EF|exact Hy].
          - intros r' c Hy. apply In_put_file in Hy. destruct Hy as [[Hy Hne]|[-> ->]]; [eapply Hfl; exact Hy|exact Hrle].
          - intros u Hu'. apply In_remove_nat in Hu'. apply Hul. tauto. }
        split; [apply Forall_cons; [exact S1|apply Forall_cons; [apply Hput|apply Forall_cons; [apply Hput|apply Forall_cons; [exact S4|apply Forall_nil]]]]|].
        cbn [last]. split.
        * unfold stage2. split; [exact S4|]. unfold strict, f2. simpl.
          split; [exact Hlb|]. split; [exact Hflag|]. split; [exact Hstrict|]. split.
          -- intros _ u Hu'. apply In_remove_nat in Hu'. destruct Hu' as [Hu1 Hu2].
             destruct (Hsub eq_refl u Hu1) as [E|E]; [congruence|exact E].
          -- intros r' Hr'. destruct (Hin r' (or_intror Hr')) as [H1 H2]. split; [|exact H2].
             apply In_remove_nat. split; [exact H1|]. intros ->. contradiction.
        * unfold f2. simpl. intros r' c Hy. apply In_put_file in Hy. destruct Hy as [[Hy Hne]|[-> ->]]; [left; exact Hy|right; reflexivity].
      + (* labels only: the unfinished record stays *)
        split; [apply Forall_cons; [exact S1|apply Forall_nil]|].
        cbn [last]. split.
        * unfold stage2. split; [exact S1|]. unfold strict. simpl.
          split; [exact Hlb|]. split; [exact Hflag|]. split; [exact Hstrict|].
          split; [intros H; rewrite EF in H; discriminate|].
          intros r' Hr'. apply Hin. right; exact Hr'.
        * simpl. intros r' c Hy. left; exact Hy.
    - (* no first-stage record: the unfinished record is deleted *)
      assert (S1 : cpinv dbr (set_unfinished (remove_nat r (cp_unfinished cp)) cp)).
      { unfold cpinv. cpunf. simpl.
        cpsplit; [> exact Hd | | left; exact Hlb | exact Hn | | | exact Hfl | | apply ssorted_filter; exact Hso].
        - intros r' c Hy. destruct (Hf r' c Hy) as [H|H]; [left; exact H|].
          right. apply In_remove_nat. split; [exact H|]. intros ->. exact (Hnofile c Hy).
        - intros EF u Hu' Hx. apply In_remove_nat in Hu'. left. apply Hstrict; [exact EF|exact Hx].
        - intros EF y Hy. left. apply Hstrict; [exact EF|exact Hy].
        - intros u Hu'. apply In_remove_nat in Hu'. apply Hul. tauto. }
      split; [apply Forall_cons; [exact S1|apply Forall_nil]|].
      cbn [last]. split.
      + unfold stage2. split; [exact S1|]. unfold strict. simpl.
        split; [exact Hlb|]. split; [exact Hflag|]. split; [exact Hstrict|]. split.
        * intros EF u Hu'. apply In_remove_nat in Hu'. destruct Hu' as [Hu1 Hu2].
          destruct (Hsub EF u Hu1) as [E|E]; [congruence|exact E].
        * intros r' Hr'. destruct (Hin r' (or_intror Hr')) as [H1 H2]. split; [|exact H2].
          apply In_remove_nat. split; [exact H1|]. intros ->. contradiction.
      + simpl. intros r' c Hy. left; exact Hy.
  Qed.

  Lemma finish_catchpoints_hoare : forall dbr rs, NoDup rs ->
    hoare (fun cp => stage2 dbr rs cp /\ forall r, In r rs -> forall c, ~ In (r, c) (cp_files cp))
          (finish_catchpoints cf rs (c_CL cf)) (cpinv dbr) (stage2 dbr []).
  Proof.
    intros dbr rs. induction rs as [|r tl IH]; intros Hnd cp [Hpre Hfresh].
    - simpl. split; [constructor|exact Hpre].
    - inversion Hnd; subst. cbn [finish_catchpoints]. cbv zeta.
      destruct (finish_catchpoint_hoare dbr r tl (cp_files cp) H1 cp) as [F1 [Q1 Q1']].
      { split; [exact Hpre|]. split; [reflexivity|]. apply Hfresh. left; reflexivity. }
      destruct (IH H2 (last (finish_catchpoint cf r (c_CL cf) cp) cp)) as [F2 Q2].
      { split; [exact Q1|]. intros r' Hr' c Hy. destruct (Q1' r' c Hy) as [H | ->]; [|contradiction].
        eapply Hfresh; [right; exact Hr'|exact H]. }
      split; [apply Forall_app; split; assumption|]. unfold last_cp. rewrite last_app_gen. exact Q2.
  Qed.

  (* finishCatchpointsAfterCrash *)
  Lemma recover_catchpoints_hoare : forall dbr rs, NoDup rs ->
    hoare (stage2 dbr rs) (recover_catchpoints cf rs (c_CL cf)) (cpinv dbr) (stage2 dbr []).
  Proof.
    intros dbr rs. induction rs as [|r tl IH]; intros Hnd cp Hpre.
    - simpl. split; [constructor|exact Hpre].
    - inversion Hnd; subst. cbn [recover_catchpoints]. cbv zeta.
      set (cp0 := set_files (rm_file r (cp_files cp)) cp).
      destruct Hpre as ((Hd & Hf & Hl & Hn & Hu & Hk & Hfl & Hul & Hso) & Hlb & Hflag & Hstrict & Hsub & Hin).
      assert (S0 : stage2 dbr (r :: tl) cp0).
      { unfold stage2, cpinv, cp0. cpunf. simpl.
        split; [cpsplit; [> exact Hd | | | | exact Hu | exact Hk | | exact Hul | exact Hso]|].
        - intros r' c Hy. apply In_rm_file in Hy. apply Hf. tauto.
        - left; exact Hlb.
        - intros EF. destruct (Hn EF) as [E1 E2]. rewrite E2. split; [exact E1|reflexivity].
        - intros r' c Hy. apply In_rm_file in Hy. eapply Hfl. apply Hy.
        - split; [exact Hlb|split; [exact Hflag|split; [exact Hstrict|split; [exact Hsub|exact Hin]]]]. }
      destruct (finish_catchpoint_hoare dbr r tl (cp_files cp0) H1 cp0) as [F1 [Q1 _]].
      { split; [exact S0|]. split; [reflexivity|]. unfold cp0; simpl. intros c Hy. apply In_rm_file in Hy. tauto. }
      unfold last_cp. rewrite last_cons.
      destruct (IH H2 _ Q1) as [F2 Q2].
      split.
      + change ((cp0 :: finish_catchpoint cf r (c_CL cf) cp0) ++ ?x) with (cp0 :: (finish_catchpoint cf r (c_CL cf) cp0 ++ x)).
        apply Forall_cons; [exact (proj1 S0)|]. apply Forall_app; split; assumption.
      + change ((cp0 :: finish_catchpoint cf r (c_CL cf) cp0) ++ ?x) with (cp0 :: (finish_catchpoint cf r (c_CL cf) cp0 ++ x)).
        rewrite last_cons, last_app_gen. exact Q2.
  Qed.

  (* ---------- pruneFirstStageRecordsData ---------- *)
  Definition stage3 (dbr m : nat) (cp : cpd) : Prop :=
    cpinv dbr cp /\ cp_lookback cp = c_CL cf /\ cp_flag cp = false /\
    (c_files cf = true -> cp_unfinished cp = []) /\
    (c_files cf = true -> forall x, In x (cp_first cp) -> has_file x (cp_data cp) = true \/ x <= m).

  Lemma prune_files_hoare : forall dbr m olds, c_CL cf <= dbr -> m = dbr - c_CL cf ->
    (forall x, In x olds -> x <= m) ->
    hoare (stage3 dbr m) (prune_files olds) (cpinv dbr)
          (fun cp => stage3 dbr m cp /\ forall x, In x olds -> has_file x (cp_data cp) = false).
  Proof.
    intros dbr m olds HCL Hm. induction olds as [|x tl IH]; intros Holds cp Hpre.
    - simpl. split; [constructor|]. split; [exact Hpre|]. intros x [].
    - destruct Hpre as ((Hd & Hf & Hl & Hn & Hu & Hk & Hfl & Hul & Hso) & Hlb & Hflag & Hunf & Hweak).
      cbn [prune_files]. cbv zeta.
      set (cp1 := set_data (rm_file x (cp_data cp)) cp).
      assert (Hx : x <= m) by (apply Holds; left; reflexivity).
      assert (S1 : stage3 dbr m cp1).
      { unfold stage3, cpinv, cp1. cpunf. simpl.
        split; [cpsplit; [> | exact Hf | left; exact Hlb | | | | exact Hfl | exact Hul | exact Hso]|].
        - intros y c Hy. apply In_rm_file in Hy. apply Hd. tauto.
        - intros EF. destruct (Hn EF) as [E1 E2]. rewrite E1. split; [reflexivity|exact E2].
        - intros EF r Hr. rewrite (Hunf EF) in Hr. contradiction.
        - intros EF y Hy. destruct (Nat.eq_dec y x) as [->|E].
          + right. left. split; [exact HCL|]. split; [lia|]. split; [apply Hunf; exact EF|exact Hflag].
          + destruct (Hweak EF y Hy) as [H|H]; [left; apply has_file_rm_other; assumption|].
            right. left. split; [exact HCL|]. split; [lia|]. split; [apply Hunf; exact EF|exact Hflag].
        - split; [exact Hlb|]. split; [exact Hflag|]. split; [exact Hunf|].
          intros EF y Hy. destruct (Nat.eq_dec y x) as [->|E]; [right; exact Hx|].
          destruct (Hweak EF y Hy) as [H|H]; [left; apply has_file_rm_other; assumption|right; exact H]. }
      destruct (IH (fun y Hy => Holds y (or_intror Hy)) cp1 S1) as [F2 [Q2 N2]].
      split; [apply Forall_cons; [exact (proj1 S1)|exact F2]|].
      rewrite last_cons. split; [exact Q2|].
      intros y [<-|Hy]; [|apply N2; exact Hy].
      (* the file of x stays deleted: later steps only delete *)
      clear - F2 IH. 
      assert (Hgen : forall l c0, has_file x (cp_data c0) = false -> has_file x (cp_data (last (prune_files l c0) c0)) = false).
      { induction l as [|z l IHl]; intros c0 H0; [exact H0|].
        cbn [prune_files]. cbv zeta. rewrite last_cons. apply IHl. simpl.
        destruct (has_file x (rm_file z (cp_data c0))) eqn:E; [|reflexivity].
        apply has_file_true in E. destruct E as (c & E). apply In_rm_file in E.
        assert (has_file x (cp_data c0) = true) by (apply has_file_true; exists c; tauto). congruence. }
      apply Hgen. unfold cp1. simpl.
      destruct (has_file x (rm_file x (cp_data cp))) eqn:E; [|reflexivity].
      apply has_file_true in E. destruct E as (c & E). apply In_rm_file in E. tauto.
  Qed.

  Lemma prune_files_first : forall l c0 d0, cp_first d0 = cp_first c0 ->
    cp_first (last (prune_files l c0) d0) = cp_first c0.
  Proof.
    induction l as [|z l IH]; intros c0 d0 H; [exact H|].
    cbn [prune_files]. cbv zeta. rewrite last_cons. rewrite IH by reflexivity. reflexivity.
  Qed.

  Lemma prune_first_hoare : forall dbr m, c_CL cf <= dbr -> m = dbr - c_CL cf ->
    hoare (stage3 dbr m) (prune_first m) (cpinv dbr) (fun cp => cpinv dbr cp /\ idle cp).
  Proof.
    intros dbr m HCL Hm cp Hpre. unfold prune_first. cbv zeta.
    set (olds := filter (fun x => x <=? m) (cp_first cp)).
    assert (Holds : forall x, In x olds -> x <= m).
    { intros x Hx. unfold olds in Hx. apply filter_In in Hx. destruct Hx as [_ Hx]. apply Nat.leb_le in Hx. exact Hx. }
    destruct (prune_files_hoare dbr m olds HCL Hm Holds cp Hpre) as [F1 [Q1 N1]].
    set (cp1 := last_cp (prune_files olds cp) cp) in *. unfold last_cp in cp1. fold cp1 in Q1, N1.
    assert (Hfirst : cp_first cp1 = cp_first cp).
    { unfold cp1. apply prune_files_first. reflexivity. }
    destruct Q1 as ((Hd & Hf & Hl & Hn & Hu & Hk & Hfl & Hul & Hso) & Hlb & Hflag & Hunf & Hweak).
    set (cp2 := set_first (filter (fun x => negb (x <=? m)) (cp_first cp1)) cp1).
    assert (Hstrict2 : strict cp2).
    { unfold strict, cp2. simpl. intros EF x Hx. apply filter_In in Hx. destruct Hx as [Hx1 Hx2].
      apply negb_true_iff, Nat.leb_gt in Hx2.
      destruct (Hweak EF x Hx1) as [H|H]; [exact H|lia]. }
    assert (S2 : cpinv dbr cp2).
    { unfold cpinv, cp2. cpunf. simpl.
      cpsplit; [> | exact Hf | left; exact Hlb | exact Hn | | | exact Hfl | exact Hul | exact Hso].
      - intros y c Hy. destruct (Hd y c Hy) as [[H1 H2]|[H _]]; [|congruence].
        left. split; [exact H1|]. apply filter_In. split; [exact H2|].
        apply negb_true_iff, Nat.leb_gt.
        destruct (le_lt_dec y m) as [Hle|Hgt]; [|exact Hgt].
        assert (In y olds) by (unfold olds; apply filter_In; split; [rewrite <- Hfirst; exact H2|apply Nat.leb_le; exact Hle]).
        assert (has_file y (cp_data cp1) = true) by (apply has_file_true; exists c; exact Hy).
        rewrite (N1 y H) in H0. discriminate.
      - intros EF r Hr. rewrite (Hunf EF) in Hr. contradiction.
      - intros EF y Hy. left. apply Hstrict2; [exact EF|exact Hy]. }
    split.
    - apply Forall_app. split; [exact F1|]. apply Forall_cons; [exact S2|apply Forall_nil].
    - rewrite last_app_gen. cbn [last]. split; [exact S2|].
      unfold idle. split; [exact Hflag|]. split; [exact Hstrict2|exact Hunf].
  Qed.

  Lemma no_elems_nil : forall (l : list nat), (forall u, In u l -> In u []) -> l = [].
  Proof. intros l H. destruct l as [|x l]; [reflexivity|]. destruct (H x (or_introl eq_refl)). Qed.

  (* ---------- a whole commit: catchpointTracker.commitRound + postCommitUnlocked ---------- *)
  Lemma commit_trace_ok : forall cp0 t,
    cpinv (t_old t) cp0 -> idle cp0 ->
    cpinv (t_new t) (commit_cp cf t cp0) /\
    trace_ok (t_new t) (commit_cp cf t cp0) (post_trace cf t (commit_cp cf t cp0)).
  Proof.
    intros cp0 t (Hd & Hf & Hl & Hn & Hu & Hk & Hfl & Hul & Hso) (Hflag0 & Hstrict0 & Hunf0).
    set (rs := cp_rounds (t_old t) (t_off t) (c_I cf) (c_CL cf)).
    set (cp := commit_cp cf t cp0).
    assert (Enb : t_new t = t_old t + t_off t) by reflexivity.
    assert (Hrs : forall r, In r rs -> t_old t < r /\ r <= t_new t).
    { intros r Hr. apply cp_rounds_bounds in Hr. rewrite Enb. exact Hr. }
    assert (Efirst : cp_first cp = cp_first cp0) by (unfold cp, commit_cp; destruct (t_first t); reflexivity).
    assert (Edata : cp_data cp = cp_data cp0) by (unfold cp, commit_cp; destruct (t_first t); reflexivity).
    assert (Efiles : cp_files cp = cp_files cp0) by (unfold cp, commit_cp; destruct (t_first t); reflexivity).
    assert (Estored : cp_stored cp = cp_stored cp0) by (unfold cp, commit_cp; destruct (t_first t); reflexivity).
    assert (Elb : cp_lookback cp = c_CL cf) by (unfold cp, commit_cp; destruct (t_first t); reflexivity).
    assert (Eflag : cp_flag cp = t_first t).
    { unfold cp, commit_cp. destruct (t_first t); simpl; [reflexivity|exact Hflag0]. }
    assert (Eunf : cp_unfinished cp = fold_left (fun l r => insert_nat r l) rs (cp_unfinished cp0)).
    { unfold cp, commit_cp. destruct (t_first t); reflexivity. }
    assert (Hstrict : strict cp).
    { unfold strict. rewrite Efirst, Edata. exact Hstrict0. }
    assert (Hinv : cpinv (t_new t) cp).
    { unfold cpinv. cpunf. rewrite Efirst, Edata, Efiles, Estored, Eunf.
      cpsplit; [> | | left; exact Elb | exact Hn | | | | | apply ssorted_fold_insert; exact Hso].
      - intros x c Hx. destruct (Hd x c Hx) as [H|[H _]]; [left; exact H|congruence].
      - intros r c Hr. destruct (Hf r c Hr) as [H|H]; [left; exact H|]. right. apply In_fold_insert. right; exact H.
      - intros EF r Hr Hx. left. apply Hstrict0; [exact EF|exact Hx].
      - intros EF x Hx. left. apply Hstrict0; [exact EF|exact Hx].
      - intros r c Hr. specialize (Hfl r c Hr). lia.
      - intros r Hr. apply In_fold_insert in Hr. destruct Hr as [Hr|Hr]; [apply Hrs in Hr; lia|specialize (Hul r Hr); lia]. }
    split; [exact Hinv|].
    unfold trace_ok, post_trace. fold rs. cbv zeta. fold cp.
    (* stage 1 *)
    set (t1 := if t_first t then finish_first cf (t_new t) cp else []).
    assert (H1 : Forall (cpinv (t_new t)) t1 /\ stage1 (t_new t) (cp_unfinished cp) (cp_files cp) (last t1 cp)).
    { unfold t1. destruct (t_first t) eqn:ET.
      - apply finish_first_hoare. unfold pre_first.
        split; [exact Hinv|]. split; [exact Elb|]. split; [|split; [exact Eflag|split; reflexivity]].
        intros EF y Hy. left. apply Hstrict; [exact EF|exact Hy].
      - split; [constructor|]. simpl. unfold stage1.
        split; [exact Hinv|split; [exact Elb|split; [exact Eflag|split; [exact Hstrict|split; reflexivity]]]]. }
    destruct H1 as [F1 (I1 & L1 & G1 & S1 & U1 & FF1)].
    set (cp1 := last t1 cp) in *.
    (* stage 2 *)
    set (t2 := finish_catchpoints cf rs (c_CL cf) cp1).
    assert (H2 : Forall (cpinv (t_new t)) t2 /\ stage2 (t_new t) [] (last t2 cp1)).
    { unfold t2. apply finish_catchpoints_hoare; [apply cp_rounds_nodup|].
      split.
      - unfold stage2. split; [exact I1|]. split; [exact L1|]. split; [exact G1|]. split; [exact S1|]. split.
        + intros EF u Hu'. rewrite U1, Eunf, (Hunf0 EF) in Hu'. apply In_fold_insert in Hu'. destruct Hu' as [H|[]]. exact H.
        + intros r Hr. split; [rewrite U1, Eunf; apply In_fold_insert; left; exact Hr|apply Hrs; exact Hr].
      - intros r Hr c Hy. rewrite FF1, Efiles in Hy. specialize (Hfl r c Hy). apply Hrs in Hr. lia. }
    destruct H2 as [F2 (I2 & L2 & G2 & S2 & Sub2 & _)].
    set (cp2 := last t2 cp1) in *.
    assert (Hunf2 : c_files cf = true -> cp_unfinished cp2 = []).
    { intros EF. apply no_elems_nil. apply Sub2. exact EF. }
    (* stage 3 *)
    unfold last_cp. fold t1. fold cp1. fold t2. fold cp2.
    set (t3 := if c_CL cf <=? t_new t then prune_first (t_new t - c_CL cf) cp2 else []).
    assert (H3 : Forall (cpinv (t_new t)) t3 /\ idle (last t3 cp2)).
    { unfold t3. destruct (c_CL cf <=? t_new t) eqn:EC.
      - apply Nat.leb_le in EC.
        destruct (prune_first_hoare (t_new t) (t_new t - c_CL cf) EC eq_refl cp2) as [F3 [_ Q3]]; [|split; assumption].
        unfold stage3. split; [exact I2|]. split; [exact L2|]. split; [exact G2|]. split; [exact Hunf2|].
        intros EF x Hx. left. apply S2; [exact EF|exact Hx].
      - split; [constructor|]. simpl. unfold idle. split; [exact G2|]. split; [exact S2|exact Hunf2]. }
    destruct H3 as [F3 Q3].
    split.
    - apply Forall_app. split; [exact F1|]. apply Forall_app. split; [exact F2|exact F3].
    - rewrite !last_app_gen. exact Q3.
  Qed.

  (* ---------- catchpointTracker.recoverFromCrash on ANY disk state satisfying the invariant ---------- *)
  Lemma recover_trace_ok : forall dbr cp, cpinv dbr cp -> trace_ok dbr cp (recover_trace cf dbr cp).
  Proof.
    intros dbr cp Hinv. pose proof Hinv as (Hd & Hf & Hl & Hn & Hu & Hk & Hfl & Hul & Hso).
    unfold trace_ok, recover_trace. cbv zeta.
    set (t1 := if cp_flag cp then set_data (rm_file dbr (cp_data cp)) cp :: finish_first cf dbr (set_data (rm_file dbr (cp_data cp)) cp) else []).
    (* stage A: afterwards the flag is clear; either the lookback is still 0 (nothing ever committed) or it is CL *)
    assert (HA : Forall (cpinv dbr) t1 /\ cpinv dbr (last t1 cp) /\ cp_flag (last t1 cp) = false /\
                 (cp_flag cp = true -> cp_lookback (last t1 cp) = c_CL cf /\ strict (last t1 cp)) /\
                 (cp_flag cp = false -> last t1 cp = cp)).
    { unfold t1. destruct (cp_flag cp) eqn:EFlag.
      - assert (Hlb : cp_lookback cp = c_CL cf) by (destruct Hl as [H|(_ & H & _)]; [exact H|congruence]).
        set (cp0 := set_data (rm_file dbr (cp_data cp)) cp).
        assert (I0 : cpinv dbr cp0).
        { unfold cpinv, cp0. cpunf. simpl. rewrite EFlag.
          cpsplit; [> | exact Hf | left; exact Hlb | | | | exact Hfl | exact Hul | exact Hso].
          - intros x c Hx. apply In_rm_file in Hx. destruct (Hd x c (proj1 Hx)) as [H|[_ H]]; [left; exact H|tauto].
          - intros EF. destruct (Hn EF) as [E1 E2]. rewrite E1. split; [reflexivity|exact E2].
          - intros EF r Hr Hx. destruct (Hu EF r Hr Hx) as [H|[_ H]]; [|right; auto].
            destruct (Nat.eq_dec (r - c_CL cf) dbr) as [E|E]; [right; auto|left; apply has_file_rm_other; assumption].
          - intros EF x Hx. destruct (Nat.eq_dec x dbr) as [->|E]; [right; right; auto|].
            destruct (Hk EF x Hx) as [H|[(_ & _ & _ & H)|[_ H]]]; [left; apply has_file_rm_other; assumption|congruence|contradiction]. }
        destruct (finish_first_hoare dbr (cp_unfinished cp0) (cp_files cp0) cp0) as [F1 (I1 & L1 & G1 & S1 & _)].
        { unfold pre_first. split; [exact I0|]. split; [exact Hlb|]. split; [|split; [exact EFlag|split; reflexivity]].
          intros EF x Hx. unfold cp0; simpl. destruct (Nat.eq_dec x dbr) as [->|E]; [right; auto|].
          destruct (Hk EF x Hx) as [H|[(_ & _ & _ & H)|[_ H]]]; [left; apply has_file_rm_other; assumption|congruence|contradiction]. }
        rewrite last_cons. fold cp0.
        split; [apply Forall_cons; assumption|]. split; [exact I1|]. split; [exact G1|]. split; [intros _; split; assumption|discriminate].
      - split; [constructor|]. simpl. split; [exact Hinv|]. split; [exact EFlag|]. split; [discriminate|reflexivity]. }
    destruct HA as (F1 & I1 & G1 & A1 & A2).
    unfold last_cp. set (cp1 := last t1 cp) in *.
    destruct I1 as (Hd1 & Hf1 & Hl1 & Hn1 & Hu1 & Hk1 & Hfl1 & Hul1 & Hso1).
    assert (I1 : cpinv dbr cp1) by (unfold cpinv; cpsplit; assumption).
    destruct (cp_lookback cp1 =? 0) eqn:EL.
    - (* nothing was ever committed *)
      apply Nat.eqb_eq in EL. split; [exact F1|]. change (idle cp1).
      destruct Hl1 as [H|(_ & _ & E1 & E2 & _)]; [lia|].
      unfold idle. split; [exact G1|]. split; [|intros _; exact E1].
      unfold strict. rewrite E2. intros _ x [].
    - apply Nat.eqb_neq in EL.
      assert (L1 : cp_lookback cp1 = c_CL cf) by (destruct Hl1 as [H|(H & _)]; [exact H|contradiction]).
      rewrite L1.
      (* stage B *)
      set (t2 := recover_catchpoints cf (cp_unfinished cp1) (c_CL cf) cp1).
      assert (HB : Forall (cpinv dbr) t2 /\ cpinv dbr (last t2 cp1) /\ cp_lookback (last t2 cp1) = c_CL cf /\
                   cp_flag (last t2 cp1) = false /\ (c_files cf = true -> cp_unfinished (last t2 cp1) = [])).
      { assert (Hcase : cp_unfinished cp1 = [] \/ strict cp1).
        { destruct (cp_unfinished cp1) as [|u0 us] eqn:EU; [left; reflexivity|right].
          unfold strict. intros EF x Hx. destruct (Hk1 EF x Hx) as [H|[(_ & _ & H & _)|[H _]]]; [exact H| |congruence].
          rewrite EU in H. discriminate. }
        destruct Hcase as [EU|Hst].
        - unfold t2. rewrite EU. simpl. split; [constructor|]. split; [exact I1|]. split; [exact L1|]. split; [exact G1|]. intros _; exact EU.
        - destruct (recover_catchpoints_hoare dbr (cp_unfinished cp1) (ssorted_nodup _ Hso1) cp1) as [F2 (I2 & L2 & G2 & S2 & Sub2 & _)].
          { unfold stage2. split; [exact I1|]. split; [exact L1|]. split; [exact G1|]. split; [exact Hst|]. split.
            - intros _ u Hu'. exact Hu'.
            - intros r Hr. split; [exact Hr|apply Hul1; exact Hr]. }
          fold t2 in F2, I2, L2, G2, S2, Sub2.
          split; [exact F2|]. split; [exact I2|]. split; [exact L2|]. split; [exact G2|].
          intros EF. apply no_elems_nil. apply Sub2. exact EF. }
      destruct HB as (F2 & I2 & L2 & G2 & Hunf2).
      set (cp2 := last t2 cp1) in *.
      (* stage C *)
      set (t3 := if c_CL cf <=? dbr then prune_first (dbr - c_CL cf) cp2 else []).
      assert (H3 : Forall (cpinv dbr) t3 /\ idle (last t3 cp2)).
      { pose proof I2 as (_ & _ & _ & _ & _ & Hk2 & _).
        unfold t3. destruct (c_CL cf <=? dbr) eqn:EC.
        - apply Nat.leb_le in EC.
          destruct (prune_first_hoare dbr (dbr - c_CL cf) EC eq_refl cp2) as [F3 [_ Q3]]; [|split; assumption].
          unfold stage3. split; [exact I2|]. split; [exact L2|]. split; [exact G2|]. split; [exact Hunf2|].
          intros EF x Hx. destruct (Hk2 EF x Hx) as [H|[(_ & H & _)|[H _]]]; [left; exact H|right; exact H|congruence].
        - apply Nat.leb_gt in EC. split; [constructor|]. simpl. unfold idle. split; [exact G2|]. split; [|exact Hunf2].
          unfold strict. intros EF x Hx. destruct (Hk2 EF x Hx) as [H|[(H & _)|[H _]]]; [exact H|lia|congruence]. }
      destruct H3 as [F3 Q3].
      split.
      + apply Forall_app. split; [exact F1|]. apply Forall_app. split; [exact F2|exact F3].
      + rewrite !last_app_gen. exact Q3.
  Qed.

End Cp.

(* ---------------------------------------------------------------------------------------- *)
(* the catchpoint invariant along every execution of the machine *)
Section CpMachine.
  Variables B W : Type.
  Variable apply : B -> W -> W.
  Variable genesis : W.
  Variable cf : cfg.
  Hypothesis CLpos : 0 < c_CL cf.

  Notation state := (state B W).
  Notation step := (step B W apply cf).
  Notation step' := (step' B W apply cf).
  Notation run := (run B W apply cf).
  Notation init := (init B W genesis).
  Notation Inv := (Inv B W apply genesis cf).

  Definition cp_minv (s : state) : Prop :=
    let d := s_d B W s in
    cpinv cf (d_dbr d) (d_cp d) /\
    match s_m B W s with
    | Down _ _ => True
    | Recovering _ _ tr => trace_ok cf (d_dbr d) (d_cp d) tr
    | Up _ _ v =>
        match v_phase B W v with
        | PIdle => idle cf (d_cp d)
        | PPostTx t => d_dbr d = t_new t /\ trace_ok cf (t_new t) (d_cp d) (post_trace cf t (d_cp d))
        | PUnlocked tr => trace_ok cf (d_dbr d) (d_cp d) tr
        end
    end.

  Lemma trace_ok_step : forall dbr cp c tr, trace_ok cf dbr cp (c :: tr) -> cpinv cf dbr c /\ trace_ok cf dbr c tr.
  Proof.
    intros dbr cp c tr [F I]. inversion F; subst. split; [assumption|]. split; [assumption|].
    rewrite last_cons in I. exact I.
  Qed.

  Lemma cp_minv_init : cp_minv init.
  Proof. unfold cp_minv; simpl. split; [apply cp_init_inv; exact CLpos|exact I]. Qed.

  Lemma cp_minv_step : forall s o s', Inv s -> cp_minv s -> step s o = Some s' -> cp_minv s'.
  Proof.
    intros s o s' [HD HV] [HC HM] Hs. destruct s as [d m]. simpl in HD, HV, HC, HM.
    unfold LedgerCrash.step, LedgerCrash.upd_v in Hs. cbn [LedgerCrash.s_d LedgerCrash.s_m] in Hs.
    destruct o.
    - (* OAdd *) destruct m as [| |v]; try discriminate. inversion Hs; subst; clear Hs.
      unfold cp_minv; simpl. split; [exact HC|exact HM].
    - (* OFlush *) destruct m as [| |v]; try discriminate.
      destruct (v_sync B W v); try discriminate. destruct (_ && _); [|discriminate].
      inversion Hs; subst; clear Hs. unfold cp_minv; simpl. split; [exact HC|exact HM].
    - (* OFlushed *) destruct m as [| |v]; try discriminate.
      destruct (v_sync B W v); try discriminate. inversion Hs; subst; clear Hs.
      unfold cp_minv; simpl. split; [exact HC|exact HM].
    - (* OConfirm *) destruct m as [| |v]; try discriminate.
      destruct (_ <=? _); [|discriminate]. inversion Hs; subst; clear Hs.
      unfold cp_minv; simpl. split; [exact HC|exact HM].
    - (* ONotify *) destruct m as [| |v]; try discriminate.
      destruct (v_sync B W v); try discriminate. destruct (_ <=? _); [|discriminate].
      inversion Hs; subst; clear Hs. unfold cp_minv; simpl. split; [exact HC|exact HM].
    - (* OForget *) destruct m as [| |v]; try discriminate.
      destruct (v_sync B W v); try discriminate. inversion Hs; subst; clear Hs.
      unfold cp_minv; simpl. split; [exact HC|exact HM].
    - (* OCommit *) destruct m as [| |v]; try discriminate.
      destruct (v_phase B W v) eqn:EP; try discriminate.
      destruct (v_chan B W v) as [t0|] eqn:EC; try discriminate.
      destruct (adjust (v_dbr B W v) t0) as [t|] eqn:EA.
      + inversion Hs; subst; clear Hs.
        apply adjust_spec in EA. destruct EA as (A1 & _).
        destruct HV as (_ & _ & _ & _ & _ & _ & V7 & _). rewrite EP in V7.
        assert (Hold : t_old t = d_dbr d) by congruence.
        destruct (commit_trace_ok cf CLpos (d_cp d) t) as [C1 C2]; [rewrite Hold; exact HC|exact HM|].
        unfold cp_minv; simpl. split; [exact C1|]. split; [reflexivity|exact C2].
      + inversion Hs; subst; clear Hs. unfold cp_minv; simpl. split; [exact HC|exact HM].
    - (* OPost *) destruct m as [| |v]; try discriminate.
      destruct (v_phase B W v) eqn:EP; try discriminate. inversion Hs; subst; clear Hs.
      destruct HM as [E T]. unfold cp_minv; simpl. split; [exact HC|]. rewrite E. exact T.
    - (* OMicro *) destruct m as [|tr|v]; try discriminate.
      + destruct tr as [|c tr]; [discriminate|]. inversion Hs; subst; clear Hs.
        apply trace_ok_step in HM. unfold cp_minv; simpl. exact HM.
      + destruct (v_phase B W v) eqn:EP; try discriminate. destruct tr as [|c tr]; [discriminate|].
        inversion Hs; subst; clear Hs. apply trace_ok_step in HM. unfold cp_minv; simpl. exact HM.
    - (* ODone *) destruct m as [| |v]; try discriminate.
      destruct (v_phase B W v) eqn:EP; try discriminate. destruct tr; [|discriminate].
      inversion Hs; subst; clear Hs. unfold cp_minv; simpl. split; [exact HC|]. destruct HM as [_ I]. exact I.
    - (* OCrash *) inversion Hs; subst. unfold cp_minv; simpl. split; [exact HC|exact I].
    - (* OOpen *) destruct m; try discriminate. destruct (can_open B W d); [|discriminate].
      inversion Hs; subst. unfold cp_minv; simpl. split; [exact HC|]. apply recover_trace_ok; assumption.
    - (* OReplay *) destruct m as [|tr|]; try discriminate. destruct tr; [|discriminate].
      inversion Hs; subst. unfold cp_minv; simpl. split; [exact HC|]. destruct HM as [_ I]. exact I.
    - (* OCommitFails *) destruct m as [| |v]; try discriminate.
      destruct (v_phase B W v) eqn:EP; try discriminate.
      destruct (v_chan B W v); try discriminate. destruct (adjust _ _); [|discriminate].
      inversion Hs; subst; clear Hs. unfold cp_minv; simpl. split; [exact HC|exact HM].
    - (* OFlushFails *) destruct m as [| |v]; try discriminate.
      destruct (v_sync B W v); try discriminate. destruct (1 <=? _); [|discriminate].
      inversion Hs; subst. unfold cp_minv; simpl. split; [exact HC|exact HM].
  Qed.

  Lemma both_run_from : forall ops s, Inv s -> cp_minv s -> Inv (run s ops) /\ cp_minv (run s ops).
  Proof.
    induction ops as [|o ops IH]; intros s H1 H2; simpl; [split; assumption|].
    apply IH.
    - apply inv_step'. exact H1.
    - unfold LedgerCrash.step'. destruct (step s o) eqn:E; [|exact H2]. eapply cp_minv_step; eauto.
  Qed.

  (* at every point of every execution (hence at every crash point): torn catchpoint files exist
     only where a database record says so, so that recovery finds them *)
  Theorem cp_durable_inv : forall ops,
    let d := s_d B W (run init ops) in cpinv cf (d_dbr d) (d_cp d).
  Proof.
    intros ops. destruct (both_run_from ops init (inv_init B W apply genesis cf) cp_minv_init) as [_ [H _]]. exact H.
  Qed.

  (* cp_recover: OpenLedger on the disk of ANY crash point leaves no catchpoint leftovers *)
  Theorem cp_recover : forall ops,
    let d := s_d B W (run init ops) in
    let cp' := d_cp (s_d B W (open_full B W apply cf d)) in
    cp_flag cp' = false /\
    (forall x c, In (x, c) (cp_data cp') -> c = true /\ In x (cp_first cp')) /\
    (forall r c, In (r, c) (cp_files cp') -> c = true /\ In r (cp_stored cp')) /\
    (c_files cf = true -> cp_unfinished cp' = []) /\
    (c_files cf = false -> cp_data cp' = [] /\ cp_files cp' = []).
  Proof.
    intros ops d cp'.
    destruct (both_run_from ops init (inv_init B W apply genesis cf) cp_minv_init) as [[HD _] [HC _]].
    fold d in HD, HC.
    assert (H0 : Inv (mkState B W d (Down B W)) /\ cp_minv (mkState B W d (Down B W))).
    { split; [split; [exact HD|exact I]|split; [exact HC|exact I]]. }
    destruct (both_run_from (open_ops B W apply cf d) _ (proj1 H0) (proj2 H0)) as [_ HM].
    fold (open_full B W apply cf d) in HM.
    destruct (open_full_shape B W apply genesis cf d HD) as (v & Em & _ & _ & _ & _ & _ & Ep & _).
    destruct HM as [(Hd & Hf & Hl & Hn & Hu & Hk & Hfl & Hul & Hso) HM]. rewrite Em, Ep in HM.
    fold cp' in Hd, Hf, Hl, Hn, Hu, Hk, Hfl, Hul, Hso, HM.
    destruct HM as (Hflag & Hstrict & Hunf).
    split; [exact Hflag|]. split; [|split; [|split; [exact Hunf|exact Hn]]].
    - intros x c Hx. destruct (Hd x c Hx) as [H|[H _]]; [exact H|congruence].
    - intros r c Hr. destruct (Hf r c Hr) as [H|H]; [exact H|].
      destruct (c_files cf) eqn:EF.
      + rewrite (Hunf ltac:(first [exact EF|reflexivity])) in H. contradiction.
      + destruct (Hn ltac:(first [exact EF|reflexivity])) as [_ E]. rewrite E in Hr. contradiction.
  Qed.

End CpMachine.
