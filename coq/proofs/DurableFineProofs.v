(* C02: the fine-grained wrapper (model/DurableFine.v: write / checkpoint+release / crash are
   separate operations, machine state cached) is simulated by the atomic wrapper of model/Durable.v
   on the coarsened operation list; hence released_after_persist and crash_nonequiv hold for every
   interleaving of the fine operations as well. *)
From Coq Require Import List Bool Arith Lia.
From Verif.model Require Import Durable DurableFine.
From Verif.proofs Require Import DurableProofs.
Import ListNotations.

Section FineProofs.

Variables S E V : Type.
Variable init : S.
Variable step : S -> E -> S * list V.
Variable restore : S -> S.

(* decode . encode need not be the identity: it is enough that a restored state is equivalent to the
   encoded one for an equivalence that the machine respects and that preserves the attested votes
   (for the agreement machine: C07, "restore is the identity on the observables") *)
Variable eqv : S -> S -> Prop.
Hypothesis eqv_refl : forall s, eqv s s.
Hypothesis eqv_trans : forall a b c, eqv a b -> eqv b c -> eqv a c.
Hypothesis eqv_step : forall s s' e, eqv s s' ->
  snd (step s e) = snd (step s' e) /\ eqv (fst (step s e)) (fst (step s' e)).
Hypothesis eqv_restore : forall s, eqv (restore s) s.

Local Notation state_of := (Durable.state_of S E V step).
Local Notation run_votes := (Durable.run_votes S E V step).
Local Notation dstep := (Durable.dstep S E V init step true).
Local Notation drun := (Durable.drun S E V init step true).
Local Notation fstep := (DurableFine.fstep S E V init step restore).
Local Notation frun := (DurableFine.frun S E V init step restore).
Local Notation fstate := (DurableFine.fstate S E V).
Local Notation dstate := (Durable.dstate E V).
Local Notation fsnap := (DurableFine.fsnap S E V).
Local Notation coarsen := (DurableFine.coarsen E).

Definition snap_rel (fs : fsnap) (ds : Durable.snapshot E V) : Prop :=
  match fs with (p, s, vs) => ds = Snap E V p vs /\ eqv s (state_of init p) end.

Definition disk_rel (fd : option fsnap) (dd : option (Durable.snapshot E V)) : Prop :=
  match fd, dd with
  | None, None => True
  | Some fs, Some ds => snap_rel fs ds
  | _, _ => False
  end.

Definition q_rel (a : fsnap * list V) (b : Durable.snapshot E V * list V) : Prop :=
  snap_rel (fst a) (fst b) /\ snd a = snd b.

Record Sim (f : fstate) (d : dstate) : Prop := {
  sim_path : f_path S E V f = path E V d;
  sim_st : eqv (f_st S E V f) (state_of init (f_path S E V f));
  sim_disk : disk_rel (f_disk S E V f) (disk E V d);
  sim_queue : Forall2 q_rel (f_queue S E V f) (queue E V d);
  sim_await : forall vs, In (true, vs) (f_await S E V f) -> incl vs (released E V d);
  sim_rel : incl (f_released S E V f) (released E V d) }.

Lemma state_of_snoc s p e : state_of s (p ++ [e]) = fst (step (state_of s p) e).
Proof. rewrite (state_of_app S E V step). reflexivity. Qed.

Lemma sim_step f d o : Sim f d -> Sim (fstep f o) (fold_left dstep (coarsen o) d).
Proof.
  intros [Hp Hs Hd Hq Ha Hr]. destruct o as [e|ok| |]; cbn [DurableFine.coarsen fold_left].
  - (* FEv *)
    cbn [DurableFine.fstep Durable.dstep]. rewrite <- Hp.
    destruct (eqv_step _ _ e Hs) as [Hv Hn].
    destruct (step (f_st S E V f) e) as [s' vs] eqn:Es.
    destruct (step (state_of init (f_path S E V f)) e) as [s'' vs''] eqn:Es'.
    cbn in Hv, Hn. subst vs''.
    assert (Hn' : eqv s' (state_of init (f_path S E V f ++ [e]))).
    { rewrite state_of_snoc, Es'. exact Hn. }
    constructor; cbn.
    + reflexivity.
    + exact Hn'.
    + exact Hd.
    + destruct vs as [|v0 vs]; [exact Hq|].
      apply Forall2_app; [exact Hq|]. constructor; [|constructor].
      split; cbn; [|reflexivity]. split; [reflexivity|exact Hn'].
    + exact Ha.
    + exact Hr.
  - (* FWrite *)
    cbn [DurableFine.fstep].
    assert (Hcase : (f_queue S E V f = [] /\ queue E V d = []) \/
                    exists p s ws vs qf qd, f_queue S E V f = ((p, s, ws), vs) :: qf /\
                       queue E V d = (Snap E V p ws, vs) :: qd /\ eqv s (state_of init p) /\ Forall2 q_rel qf qd).
    { inversion Hq as [|[[[p s] ws] vs] [ds vs'] qf qd [[H1 H1'] H2] Hq']; [left; auto|right].
      cbn in H1, H1', H2. subst. exists p, s, ws, vs', qf, qd. auto. }
    destruct Hcase as [[Ef Ed]|(p & s & ws & vs & qf & qd & Ef & Ed & Es & Hq')].
    + rewrite Ef. destruct ok; cbn [fold_left Durable.dstep]; rewrite Ed;
        (constructor; auto; rewrite ?Ef, ?Ed; auto).
    + rewrite Ef. destruct ok; cbn [fold_left Durable.dstep]; rewrite Ed.
      * constructor; cbn; auto.
        -- intros us Hin. apply in_app_or in Hin. destruct Hin as [Hin|[Hin|[]]].
           ++ apply incl_appl. apply Ha. exact Hin.
           ++ injection Hin as <-. apply incl_appr. apply incl_refl.
        -- apply incl_appl. exact Hr.
      * constructor; cbn; auto.
        intros us Hin. apply in_app_or in Hin. destruct Hin as [Hin|[Hin|[]]]; [auto|discriminate].
  - (* FRelease *)
    cbn [DurableFine.fstep]. destruct (f_await S E V f) as [|[ok vs] a] eqn:Ea.
    + constructor; auto. rewrite Ea. exact Ha.
    + constructor; cbn; auto.
      * intros ws Hin. apply Ha. right. exact Hin.
      * destruct ok; [|exact Hr]. apply incl_app; [exact Hr|]. apply Ha. left. reflexivity.
  - (* FCrash *)
    cbn [DurableFine.fstep Durable.dstep fold_left]. unfold disk_rel in Hd.
    destruct (f_disk S E V f) as [[[p s] vs]|] eqn:Ef; destruct (disk E V d) as [ds|] eqn:Ed; try contradiction.
    + destruct Hd as [-> Hes].
      assert (Her : eqv (restore s) (state_of init p)) by (eapply eqv_trans; [apply eqv_restore|exact Hes]).
      constructor; cbn; auto;
        first [ now (rewrite ?Ef, ?Ed; cbn; auto)
              | now (constructor; [|constructor]; split; cbn; auto)
              | now (intros ws []) ].
    + constructor; cbn; auto;
        first [ now (rewrite ?Ef, ?Ed; exact I) | now (intros ws []) ].
Qed.

Lemma sim_fold ops : forall f d, Sim f d ->
  Sim (fold_left fstep ops f) (fold_left dstep (flat_map coarsen ops) d).
Proof.
  induction ops as [|o ops IH]; intros f d H; cbn; [exact H|].
  rewrite fold_left_app. apply IH. apply sim_step. exact H.
Qed.

Lemma sim_init : Sim (DurableFine.f_init S E V init) (Durable.d_init E V).
Proof. constructor; cbn; auto; try constructor. intros vs []. intros v []. Qed.

(* every run of the fine wrapper is simulated by the atomic wrapper *)
Theorem fine_refines ops : Sim (frun ops) (drun (flat_map coarsen ops)).
Proof. apply sim_fold. exact sim_init. Qed.

(* released votes were attested along the single run whose snapshot is on disk *)
Theorem fine_released_after_persist ops v :
  In v (f_released S E V (frun ops)) ->
  exists p s vs, f_disk S E V (frun ops) = Some (p, s, vs) /\ eqv s (state_of init p) /\ In v (run_votes init p).
Proof.
  intros Hv. destruct (fine_refines ops) as [_ _ Hd _ _ Hr].
  apply Hr in Hv. destruct (released_after_persist S E V init step _ _ Hv) as [dp [dvs [Ed Hin]]].
  unfold disk_rel in Hd. rewrite Ed in Hd.
  destruct (f_disk S E V (frun ops)) as [[[p s] vs]|]; [|contradiction].
  destruct Hd as [Hs1 Hs2]. injection Hs1 as <- <-. exists dp, s, dvs. auto.
Qed.

(* the property for the fine wrapper: no interleaving of events, writes, failed writes, checkpoint
   deliveries and crashes makes the node release two conflicting votes *)
Theorem fine_crash_nonequiv (conflict : V -> V -> Prop) :
  (forall evs v1 v2, In v1 (run_votes init evs) -> In v2 (run_votes init evs) -> ~ conflict v1 v2) ->
  forall ops v1 v2, In v1 (f_released S E V (frun ops)) -> In v2 (f_released S E V (frun ops)) -> ~ conflict v1 v2.
Proof.
  intros Honce ops v1 v2 H1 H2. destruct (fine_refines ops) as [_ _ _ _ _ Hr].
  eapply (crash_nonequiv S E V init step conflict Honce); apply Hr; eassumption.
Qed.

End FineProofs.

(* ---- proposal-votes are released without persistence: the toy machine that votes once per run
   (attest-once holds, DurableProofs.toy_once) releases two values around a crash ---- *)
Lemma np_refuted :
  In 5 (snd (DurableFine.np_run bool nat nat false toy_step [Some 5; None; Some 6])) /\
  In 6 (snd (DurableFine.np_run bool nat nat false toy_step [Some 5; None; Some 6])).
Proof. vm_compute. split; auto. Qed.

(* the premises on restore / eqv are satisfiable *)
Lemma fine_premises_id : forall (S E V : Type) (step : S -> E -> S * list V),
  (forall s : S, s = s) /\ (forall a b c : S, a = b -> b = c -> a = c) /\
  (forall s s' e, s = s' -> snd (step s e) = snd (step s' e) /\ fst (step s e) = fst (step s' e)) /\
  (forall s : S, (fun x => x) s = s).
Proof. intros. repeat split; intros; subst; reflexivity. Qed.

From Verif.model Require Import AgreementTypes.
Lemma assemble_repropose_not_persistent : forall r p v,
  persistent [AAssemble r p; ARezero r] = false /\ persistent [ARepropose r p v] = false /\
  persistent [AAttest r p s_soft v] = true.
Proof. intros. repeat split. Qed.
