(* C15 lemmas about the executable checker (model/CatchpointHashCheck.v): its boolean
   identities are the Prop-level ones, parsed entries are well-formed, and -- for EVERY hash
   function, in particular the SHA-512/256 the runner uses -- a "violation" verdict on a case on
   which the implementation agrees with the model exhibits a collision of that hash function. *)
From Coq Require Import List NArith ZArith Bool String Lia ZifyN ZifyNat ZifyBool.
Import ListNotations.
From Verif.lib Require Import Term.
From Verif.model Require Import CatchpointHash CatchpointHashSpec CatchpointHashCheck.
From Verif.proofs Require Import CatchpointHashProofs.
Open Scope N_scope.

Lemma bytes_eqb_eq a b : bytes_eqb a b = true <-> a = b.
Proof.
  unfold bytes_eqb. revert b; induction a as [|x a IH]; intros [|y b]; cbn [list_eqb]; split; intro E;
    try discriminate; auto.
  - apply andb_true_iff in E as [E1 E2]. apply N.eqb_eq in E1. apply IH in E2. congruence.
  - injection E as -> ->. apply andb_true_iff. split; [apply N.eqb_refl | now apply IH].
Qed.

Lemma optN_eqb_eq a b : optN_eqb a b = true <-> a = b.
Proof.
  destruct a, b; cbn; split; intro E; try discriminate; auto.
  - apply N.eqb_eq in E. congruence.
  - injection E as ->. apply N.eqb_refl.
Qed.

Lemma ident_eqb_iff e1 e2 : ident_eqb e1 e2 = true <-> same_ident e1 e2.
Proof.
  destruct e1, e2; cbn [ident_eqb same_ident]; try (split; [discriminate | contradiction]);
    rewrite ?andb_true_iff, ?bytes_eqb_eq, ?optN_eqb_eq, ?N.eqb_eq; tauto.
Qed.

Lemma ident_eqb_false e1 e2 : ident_eqb e1 e2 = false -> ~ same_ident e1 e2.
Proof. intros E S. apply ident_eqb_iff in S. congruence. Qed.

Lemma kv_boundary_iff e1 e2 : kv_boundary e1 e2 = true <-> kv_ambiguous e1 e2.
Proof.
  destruct e1 as [| |k1 v1], e2 as [| |k2 v2]; cbn [kv_boundary kv_ambiguous]; try (split; [discriminate | contradiction]).
  rewrite andb_true_iff, negb_true_iff, bytes_eqb_eq. split; intros [A B]; split; auto.
  - intro Q. injection Q as -> ->.
    assert (ident_eqb (EKv k2 v2) (EKv k2 v2) = true) by (apply ident_eqb_iff; cbn; auto). congruence.
  - destruct (ident_eqb (EKv k1 v1) (EKv k2 v2)) eqn:I; auto.
    apply ident_eqb_iff in I. cbn in I. destruct I as [-> ->]. now contradiction A.
Qed.

Lemma is32_len b : is32 b = true -> List.length b = 32%nat.
Proof. unfold is32. intro E. apply N.eqb_eq in E. lia. Qed.

Lemma u64_lt x : u64 x = true -> x < 2 ^ 64.
Proof. unfold u64. intro E. apply N.ltb_lt in E. exact E. Qed.

Lemma parse_entry_wf t e : parse_entry t = Some e -> wf_entry e.
Proof.
  unfold parse_entry. intro E.
  repeat match type of E with
         | match ?x with _ => _ end = _ => destruct x eqn:?; try discriminate E
         | (if ?c then _ else _) = _ => destruct c eqn:?; try discriminate E
         end;
    injection E as <-; cbn [wf_entry]; auto;
    repeat match goal with Hb : _ && _ = true |- _ => apply andb_true_iff in Hb as [? ?] end;
    auto using is32_len, u64_lt.
Qed.

Section Sound.
  Variable H : bytes -> bytes.

  Lemma shape_ok_model e : shape_ok e (leaf_of H e) = true.
  Proof.
    unfold shape_ok. destruct (leaf_of H e) as [l|] eqn:E.
    - rewrite (leaf_length H e l E), (leaf_kind_byte H e l E).
      destruct (leaf_of_shape H e l E) as [K _].
      apply N.ltb_lt in K.
      apply andb_true_iff; split; [apply andb_true_iff; split|]; [reflexivity | apply N.eqb_refl | exact K].
    - destruct e as [| a c ia ip u enc |]; cbn [leaf_of] in E; try discriminate.
      unfold resource_leaf in E. cbn [kind_of]. destruct (resource_kind ia ip); [discriminate | reflexivity].
  Qed.

  Lemma obs_eqb_eq o1 o2 : obs_eqb o1 o2 = true <-> o1 = o2.
  Proof.
    destruct o1, o2; cbn [obs_eqb]; rewrite ?bytes_eqb_eq; split; intro E; try discriminate; try congruence; auto.
  Qed.

  (* the injectivity part of spec_ok can fail on a case where the implementation's leaves are the
     model's only through the recorded KV ambiguity or a collision of the hash function *)
  Lemma collide_sound e1 e2 :
    wf_entry e1 -> wf_entry e2 ->
    ident_eqb e1 e2 = false -> collide (leaf_of H e1) (leaf_of H e2) = true ->
    kv_boundary e1 e2 = true \/ leaf_collision H (prehash_of e1) (prehash_of e2).
  Proof.
    intros W1 W2 I C. unfold collide in C.
    destruct (leaf_of H e1) as [l1|] eqn:E1; [|discriminate].
    destruct (leaf_of H e2) as [l2|] eqn:E2; [|discriminate].
    apply bytes_eqb_eq in C. subst l2.
    destruct (leaf_of_inj H e1 e2 l1 W1 W2 E1 E2) as [S | [S | S]].
    - exfalso. now apply (ident_eqb_false _ _ I).
    - left. now apply kv_boundary_iff.
    - now right.
  Qed.

  Lemma entry_eqb_eq e1 e2 : entry_eqb e1 e2 = true -> e1 = e2.
  Proof.
    destruct e1, e2; cbn [entry_eqb]; try discriminate;
      rewrite ?andb_true_iff, ?bytes_eqb_eq, ?N.eqb_eq, ?Bool.eqb_true_iff; intuition congruence.
  Qed.

  Lemma check_leafpair_viol_sound e1 e2 o1 o2 same d :
    wf_entry e1 -> wf_entry e2 ->
    obs_eqb (leaf_of H e1) o1 = true -> obs_eqb (leaf_of H e2) o2 = true ->
    (* Go-level equality of the data agrees with equality of the encodings *)
    (if same =? 1 then ident_eqb e1 e2 else if same =? 0 then negb (ident_eqb e1 e2) else true) = true ->
    check_leafpair H e1 e2 o1 o2 same = v_viol d ->
    leaf_collision H (prehash_of e1) (prehash_of e2).
  Proof.
    intros W1 W2 C1 C2 Ssame V.
    apply obs_eqb_eq in C1, C2. subst o1 o2.
    unfold check_leafpair in V. rewrite !shape_ok_model, Ssame in V. cbn [andb] in V.
    assert ((if entry_eqb e1 e2 then obs_eqb (leaf_of H e1) (leaf_of H e2) else true) = true) as Sfun.
    { destruct (entry_eqb e1 e2) eqn:Q; auto. apply entry_eqb_eq in Q. subst. now apply obs_eqb_eq. }
    rewrite Sfun in V. cbn [andb] in V.
    destruct (ident_eqb e1 e2) eqn:I.
    - cbn [orb negb andb] in V. unfold verdict in V. cbn [negb] in V.
      repeat match type of V with context [if ?c then _ else _] => destruct c end; discriminate V.
    - cbn [orb] in V.
      destruct (collide (leaf_of H e1) (leaf_of H e2)) eqn:C.
      + destruct (collide_sound e1 e2 W1 W2 I C) as [K | K]; auto.
        rewrite K in V. cbn in V. discriminate V.
      + cbn [negb andb] in V. unfold verdict in V. cbn [negb] in V.
        repeat match type of V with context [if ?c then _ else _] => destruct c end; discriminate V.
  Qed.
End Sound.
