(* C06: the statements exported to props/C06.v, for the model's own runs and for any
   observation trace accepted by the oracle. *)
From Coq Require Import NArith List Bool String Lia ZifyN ZifyNat ZifyBool Permutation.
From Verif.lib Require Import Term.
From Verif.model Require Import VoteTracker VoteTrackerSpec VoteTrackerCheck.
From Verif.proofs Require Import VoteTrackerLists VoteTrackerSpecProofs VoteTrackerProofs VoteTrackerCheckProofs.
Import ListNotations.
Open Scope N_scope.

Lemma nth_error_map_inv {A B} (f : A -> B) l i y :
  nth_error (map f l) i = Some y -> exists x, nth_error l i = Some x /\ f x = y.
Proof.
  revert i. induction l as [|a l IH]; intros [|i] H; cbn [map nth_error] in H; try discriminate.
  - inversion H. exists a. split; reflexivity.
  - apply IH. exact H.
Qed.

(* ---------- facts carried by any good trace ---------- *)
Section Trace.
Variables (q : option N) (l : list vote) (obs : list (out * option state)).
Hypothesis W : wf_votes l.
Hypothesis T : trace_ok q [] l obs.

Lemma trace_step i o snap : nth_error obs i = Some (o, snap) ->
  exists x, nth_error l i = Some x /\ firstn (S i) l = firstn i l ++ [x] /\
            step_obs q (firstn i l) x o /\ snap_rel (firstn (S i) l) o snap.
Proof.
  intros H. destruct T as [T1 _]. destruct (T1 _ _ _ H) as [x [Hx [A B]]]. cbn [app] in A, B.
  exists x. pose proof (firstn_snoc_nth _ _ _ Hx) as E. rewrite E. auto.
Qed.

Lemma trace_wf_prefix n : wf_votes (firstn n l).
Proof. apply (wf_votes_prefix _ (skipn n l)). rewrite firstn_skipn. exact W. Qed.

Lemma trace_snapshot_inv i o st : nth_error obs i = Some (o, Some st) -> Inv (firstn (S i) l) st.
Proof. intros H. destruct (trace_step _ _ _ H) as [x [_ [_ [_ SR]]]]. cbn [snap_rel] in SR. apply SR. Qed.

Lemma trace_tracker_wf i o st : nth_error obs i = Some (o, Some st) -> tracker_wf st.
Proof. intros H. eapply Inv_tracker_wf; [eapply trace_snapshot_inv; eauto|apply trace_wf_prefix]. Qed.

Lemma trace_tally i o st p : nth_error obs i = Some (o, Some st) -> count st p = spec_tally (firstn (S i) l) p.
Proof. intros H. apply count_spec; [eapply trace_snapshot_inv; eauto|apply trace_wf_prefix]. Qed.

Lemma trace_threshold i p b snap : nth_error obs i = Some (OThreshold p b, snap) ->
  reaches q (spec_tally (firstn (S i) l) p) = true /\
  (forall p', reaches q (spec_tally (firstn i l) p') = false) /\
  (forall p', reaches q (spec_tally (firstn (S i) l) p') = true -> p' = p) /\
  bundle_valid q (firstn (S i) l) p b.
Proof.
  intros H. destruct (trace_step _ _ _ H) as [x [_ [E [SO _]]]]. cbn [step_obs] in SO. rewrite <- E in SO.
  destruct SO as [_ [NT [R [B BV]]]]. split; [exact R|]. split; [exact B|]. split; [|exact BV]. intros p' R'. apply NT; assumption.
Qed.

Lemma trace_first_crossing_emits i o snap : nth_error obs i = Some (o, snap) ->
  (exists p, reaches q (spec_tally (firstn (S i) l) p) = true) ->
  (forall p', reaches q (spec_tally (firstn i l) p') = false) ->
  (exists p b, o = OThreshold p b) \/ is_panic o = true.
Proof.
  intros H [p R] B. destruct (trace_step _ _ _ H) as [x [_ [E [SO _]]]].
  destruct o as [|p' b|t]; [|left; eauto|right; reflexivity].
  exfalso. cbn [step_obs] in SO. rewrite <- E in SO. destruct SO as [_ [_ [D|[p0 D]]]]; [rewrite D in R|rewrite B in D]; discriminate.
Qed.

Lemma trace_panic i t snap : nth_error obs i = Some (OPanic t, snap) ->
  ~ quorums_intersect q (firstn (S i) l).
Proof.
  intros H [HE NT]. destruct (trace_step _ _ _ H) as [x [_ [E [SO _]]]]. cbn [step_obs] in SO. rewrite <- E in SO.
  destruct SO as [[_ RE]|[_ [_ [p [p' [Hne [R R']]]]]]]; [congruence|]. apply Hne. apply NT; assumption.
Qed.
End Trace.

Theorem observed_trace_facts q l obs : wf_votes l -> trace_ok q [] l obs ->
  (forall i o st, nth_error obs i = Some (o, Some st) ->
     tracker_wf st /\ forall p, count st p = spec_tally (firstn (S i) l) p) /\
  (forall i j p b s p' b' s', nth_error obs i = Some (OThreshold p b, s) ->
     nth_error obs j = Some (OThreshold p' b', s') -> i = j) /\
  (forall i p b s, nth_error obs i = Some (OThreshold p b, s) ->
     reaches q (spec_tally (firstn (S i) l) p) = true /\
     (forall p', reaches q (spec_tally (firstn i l) p') = false) /\
     (forall p', reaches q (spec_tally (firstn (S i) l) p') = true -> p' = p) /\
     bundle_valid q (firstn (S i) l) p b) /\
  (forall i o s, nth_error obs i = Some (o, s) ->
     (exists p, reaches q (spec_tally (firstn (S i) l) p) = true) ->
     (forall p', reaches q (spec_tally (firstn i l) p') = false) ->
     (exists p b, o = OThreshold p b) \/ is_panic o = true).
Proof.
  intros W T. split; [|split; [|split]].
  - intros i o st H. split; [eapply trace_tracker_wf; eauto|]. intros p. eapply trace_tally; eauto.
  - intros. eapply trace_ok_threshold_once; eauto.
  - intros. eapply trace_threshold; eauto.
  - intros. eapply trace_first_crossing_emits; eauto.
Qed.

(* ---------- the model's own trace ---------- *)
Section Model.
Variables (q : option N) (l : list vote).
Hypothesis R0 : reaches q 0 = false.
Hypothesis W : wf_votes l.

Lemma model_trace_ok : trace_ok q [] l (run q init l).
Proof. apply run_trace_ok; [exact R0|apply Good_init; exact R0|exact W]. Qed.

Lemma exec_nth i o : nth_error (exec q l) i = Some o -> exists snap, nth_error (run q init l) i = Some (o, snap).
Proof.
  unfold exec. intros H. apply nth_error_map_inv in H. destruct H as [[o' snap] [H E]]. cbn [fst] in E. subst. eauto.
Qed.

Theorem tracker_invariant i o st : nth_error (run q init l) i = Some (o, Some st) -> tracker_wf st.
Proof. apply (trace_tracker_wf q l _ W model_trace_ok). Qed.

Theorem tally_spec i o st p : nth_error (run q init l) i = Some (o, Some st) ->
  count st p = spec_tally (firstn (S i) l) p.
Proof. apply (trace_tally q l _ W model_trace_ok). Qed.

Theorem threshold_at_most_once i j p b p' b' :
  nth_error (exec q l) i = Some (OThreshold p b) -> nth_error (exec q l) j = Some (OThreshold p' b') -> i = j.
Proof.
  intros Hi Hj. destruct (exec_nth _ _ Hi) as [s Hi']. destruct (exec_nth _ _ Hj) as [s' Hj'].
  eapply (trace_ok_threshold_once q l _ W model_trace_ok); eauto.
Qed.

Theorem threshold_only_at_first_crossing i p b : nth_error (exec q l) i = Some (OThreshold p b) ->
  reaches q (spec_tally (firstn (S i) l) p) = true /\
  (forall p', reaches q (spec_tally (firstn i l) p') = false) /\
  (forall p', reaches q (spec_tally (firstn (S i) l) p') = true -> p' = p).
Proof.
  intros H. destruct (exec_nth _ _ H) as [s H']. pose proof (trace_threshold q l _ model_trace_ok _ _ _ _ H'). tauto.
Qed.

Theorem threshold_at_first_crossing i o : nth_error (exec q l) i = Some o ->
  (exists p, reaches q (spec_tally (firstn (S i) l) p) = true) ->
  (forall p', reaches q (spec_tally (firstn i l) p') = false) ->
  (exists p b, o = OThreshold p b) \/ is_panic o = true.
Proof. intros H. destruct (exec_nth _ _ H) as [s H']. apply (trace_first_crossing_emits q l _ model_trace_ok _ _ _ H'). Qed.

Theorem genBundle_valid i p b : nth_error (exec q l) i = Some (OThreshold p b) ->
  bundle_valid q (firstn (S i) l) p b.
Proof. intros H. destruct (exec_nth _ _ H) as [s H']. apply (trace_threshold q l _ model_trace_ok _ _ _ _ H'). Qed.

Theorem panic_iff :
  (forall o, In o (exec q l) -> is_panic o = false) <->
  (forall l1 l2, l = l1 ++ l2 -> quorums_intersect q l1).
Proof. apply (run_no_panic_iff q R0 l [] init (Good_init q R0) W). Qed.

Theorem no_panic_all_processed :
  (forall o, In o (exec q l) -> is_panic o = false) -> List.length (exec q l) = List.length l.
Proof.
  intros NP. unfold exec. rewrite map_length. destruct model_trace_ok as [_ [_ L]]. apply L. exact NP.
Qed.

Theorem outputs_refine_spec : map out_kind (exec q l) = spec_outs q [] l.
Proof.
  unfold exec. rewrite map_map. apply (run_kinds q R0 l [] init (Good_init q R0) W).
Qed.
End Model.

Theorem no_panic_under_QI t l : 0 < t -> wf_votes l -> total_weight l + spec_eqw l < 2 * t ->
  forall o, In o (exec (Some t) l) -> is_panic o = false.
Proof.
  intros Pt W B. assert (R0 : reaches (Some t) 0 = false) by (cbn [reaches]; apply N.leb_gt; exact Pt).
  apply (proj2 (panic_iff (Some t) l R0 W)). intros l1 l2 E. subst l.
  eapply quorums_intersect_suff; eauto.
Qed.

(* ---------- the checker ---------- *)
Theorem check_sound step pr l ob obs_t :
  in_domain (step_quorum pr step) l = true ->
  (check_parsed step pr l ob obs_t = v_ok \/ check_parsed step pr l ob obs_t = v_triv) ->
  wf_votes l /\ trace_ok (step_quorum pr step) [] l (map fst ob).
Proof.
  intros D V. unfold in_domain in D. apply andb_true_iff in D. destruct D as [WB RB].
  apply negb_true_iff in RB. pose proof (wf_votes_b_sound l WB) as W. split; [exact W|].
  apply spec_ok_sound; [exact RB|exact W|].
  unfold check_parsed, in_domain in V. rewrite WB, RB in V. cbn [negb andb orb] in V.
  destruct (spec_ok (step_quorum pr step) l (map fst ob)); [reflexivity|].
  cbn [andb] in V. unfold verdict in V. cbn [negb] in V. unfold v_viol, v_ok, v_triv in V.
  destruct V as [V|V]; inversion V.
Qed.
