(* C04: unauthenticatedBundle.verify / Certificate.Authenticate accept exactly quorum proofs. *)
From Coq Require Import List NArith ZArith Bool Lia ZifyN ZifyBool.
From Verif.model Require Import Bundle.
Import ListNotations.
Open Scope N_scope.

Lemma mem_In x l : mem x l = true <-> In x l.
Proof.
  induction l as [|y l IH]; cbn; [split; [discriminate|tauto]|].
  rewrite orb_true_iff, IH, N.eqb_eq. split; intros [H|H]; auto.
Qed.

Lemma mem_app x l1 l2 : mem x (l1 ++ l2) = mem x l1 || mem x l2.
Proof. induction l1 as [|y l1 IH]; cbn; [reflexivity|]. rewrite IH, orb_assoc. reflexivity. Qed.

Lemma nodupb_NoDup l : nodupb l = true <-> NoDup l.
Proof.
  induction l as [|x l IH]; cbn; [split; [constructor|reflexivity]|].
  rewrite andb_true_iff, negb_true_iff, IH. split.
  - intros [H1 H2]. constructor; [|exact H2]. intros Hin. apply mem_In in Hin. congruence.
  - intros H. inversion H; subst. split; [|assumption].
    destruct (mem x l) eqn:E; [|reflexivity]. apply mem_In in E. contradiction.
Qed.

Lemma forallb_ext_in {A} (f g : A -> bool) l : (forall x, In x l -> f x = g x) -> forallb f l = forallb g l.
Proof. induction l as [|a l IH]; cbn; intros H; [reflexivity|]. rewrite H, IH; auto. Qed.

(* the incremental scan accepts exactly duplicate-free lists disjoint from what was seen *)
Lemma dup_scan_spec l : forall seen,
  dup_scan seen l = (if nodupb l && forallb (fun x => negb (mem x seen)) l then Some (rev l ++ seen) else None).
Proof.
  induction l as [|x l IH]; intros seen; cbn; [reflexivity|].
  destruct (mem x seen) eqn:Es; cbn.
  - rewrite andb_false_r. reflexivity.
  - rewrite IH. cbn.
    destruct (mem x l) eqn:El; cbn.
    + (* x occurs later: the later occurrence sees x in seen *)
      assert (forallb (fun y => negb ((y =? x) || mem y seen)) l = false) as ->.
      { apply mem_In in El. apply not_true_is_false. intros H. rewrite forallb_forall in H.
        specialize (H x El). rewrite N.eqb_refl in H. discriminate. }
      rewrite andb_false_r. reflexivity.
    + assert (forallb (fun y => negb ((y =? x) || mem y seen)) l = forallb (fun y => negb (mem y seen)) l) as ->.
      { apply forallb_ext_in. intros y Hy. destruct (N.eqb_spec y x) as [->|Hne]; [|reflexivity].
        apply mem_In in Hy. congruence. }
      destruct (nodupb l && forallb (fun y => negb (mem y seen)) l); [|reflexivity].
      rewrite <- app_assoc. reflexivity.
Qed.

Lemma nodupb_app l1 l2 :
  nodupb (l1 ++ l2) = nodupb l1 && nodupb l2 && forallb (fun x => negb (mem x l1)) l2.
Proof.
  induction l1 as [|x l1 IH]; cbn.
  - assert (forallb (fun _ : N => true) l2 = true) as -> by (induction l2; cbn; auto).
    rewrite andb_true_r. reflexivity.
  - rewrite mem_app, IH, negb_orb.
    assert (forallb (fun y => negb ((y =? x) || mem y l1)) l2 = negb (mem x l2) && forallb (fun y => negb (mem y l1)) l2) as ->.
    { clear. induction l2 as [|y l2 IH]; cbn; [reflexivity|]. rewrite IH, !negb_orb.
      rewrite (N.eqb_sym x y). destruct (y =? x), (mem y l1), (mem x l2), (forallb _ l2); reflexivity. }
    destruct (mem x l1), (mem x l2), (nodupb l1), (nodupb l2), (forallb _ l2); reflexivity.
Qed.

Lemma total_app a b : total (a ++ b) =
  match total a, total b with Some x, Some y => Some (x + y) | _, _ => None end.
Proof.
  induction a as [|[w|] a IH]; cbn.
  - destruct (total b); reflexivity.
  - rewrite IH. destruct (total a), (total b); try reflexivity. f_equal. lia.
  - reflexivity.
Qed.

Lemma wadd_lt a b : wadd a b < W64.
Proof. unfold wadd. apply N.mod_upper_bound. discriminate. Qed.

Lemma wadd_assoc_mod acc w t : (wadd acc w + t) mod W64 = (acc + (w + t)) mod W64.
Proof.
  unfold wadd. rewrite N.add_mod_idemp_l by discriminate. f_equal. lia.
Qed.

Lemma sum_votes_spec s bt l : forall acc, acc < W64 ->
  sum_votes s bt l acc =
  match total (map (vote_valid s bt) l) with None => None | Some t => Some ((acc + t) mod W64) end.
Proof.
  induction l as [|v l IH]; intros acc Hacc; cbn [sum_votes map total].
  - rewrite N.add_0_r, N.mod_small by exact Hacc. reflexivity.
  - destruct (vote_valid s bt v) as [w|]; [|reflexivity].
    rewrite IH by apply wadd_lt.
    destruct (total (map (vote_valid s bt) l)) as [t|]; [|reflexivity].
    rewrite wadd_assoc_mod. reflexivity.
Qed.

Lemma sum_eqs_spec l : forall acc, acc < W64 ->
  sum_eqs l acc =
  match total (map eq_valid l) with None => None | Some t => Some ((acc + t) mod W64) end.
Proof.
  induction l as [|e l IH]; intros acc Hacc; cbn [sum_eqs map total].
  - rewrite N.add_0_r, N.mod_small by exact Hacc. reflexivity.
  - destruct (eq_valid e) as [w|]; [|reflexivity].
    rewrite IH by apply wadd_lt.
    destruct (total (map eq_valid l)) as [t|]; [|reflexivity].
    rewrite wadd_assoc_mod. reflexivity.
Qed.

(* no uint64 wrap in the weight sum (weights are stake-bounded: the sum over distinct voters
   is at most the online stake < 2^64) *)
Definition nowrap (b : ubundle) : Prop :=
  match total (all_weights b) with Some t => t < W64 | None => True end.

Definition size_ok (thr : N) (b : ubundle) : bool :=
  negb ((thr <? N.of_nat (length (b_votes b))) || (thr <? N.of_nat (length (b_eqs b))) ||
        (thr <? N.of_nat (length (b_votes b)) + N.of_nat (length (b_eqs b)))).

(* exact characterisation of acceptance *)
Lemma verify_char thr b : nowrap b ->
  (verify thr b = None <-> size_ok thr b = true /\ proves_quorum thr b = true).
Proof.
  intros Hnw. unfold verify, proves_quorum, size_ok, nowrap, all_weights in *.
  destruct (b_step b =? 0) eqn:Es; cbn [negb andb].
  { split; [discriminate|]. intros [_ H]. discriminate. }
  destruct ((thr <? N.of_nat (length (b_votes b))) || (thr <? N.of_nat (length (b_eqs b))) ||
            (thr <? N.of_nat (length (b_votes b)) + N.of_nat (length (b_eqs b)))) eqn:Esz; cbn [negb].
  { split; [discriminate|]. intros [H _]. discriminate. }
  rewrite dup_scan_spec. cbn [mem]. rewrite nodupb_app.
  assert (Hf : forallb (fun x : N => negb false) (map bv_sender (b_votes b)) = true)
    by (induction (map bv_sender (b_votes b)); cbn; auto).
  rewrite Hf, andb_true_r.
  destruct (nodupb (map bv_sender (b_votes b))) eqn:En1; cbn [andb].
  2:{ split; [discriminate|]. intros [_ H]. discriminate. }
  rewrite dup_scan_spec. rewrite app_nil_r.
  assert (Hm : forallb (fun x => negb (mem x (rev (map bv_sender (b_votes b))))) (map be_sender (b_eqs b))
               = forallb (fun x => negb (mem x (map bv_sender (b_votes b)))) (map be_sender (b_eqs b))).
  { apply forallb_ext_in. intros x _. f_equal.
    destruct (mem x (map bv_sender (b_votes b))) eqn:E.
    - apply mem_In. apply -> in_rev. apply mem_In. exact E.
    - apply not_true_is_false. intros H. apply mem_In in H. apply in_rev in H. apply mem_In in H. congruence. }
  rewrite Hm.
  destruct (nodupb (map be_sender (b_eqs b)) &&
            forallb (fun x => negb (mem x (map bv_sender (b_votes b)))) (map be_sender (b_eqs b))) eqn:En2.
  2:{ split; [discriminate|]. intros [_ H].
      destruct (nodupb (map be_sender (b_eqs b))); cbn [andb] in *; [|discriminate].
      first [discriminate | rewrite En2 in H; discriminate]. }
  cbn [andb].
  rewrite sum_votes_spec by reflexivity. rewrite total_app in *.
  destruct (total (map (vote_valid (b_step b) (b_bottom b)) (b_votes b))) as [t1|].
  2:{ split; [discriminate|]. intros [_ H]. discriminate. }
  rewrite N.add_0_l.
  rewrite sum_eqs_spec by (apply N.mod_upper_bound; discriminate).
  destruct (total (map eq_valid (b_eqs b))) as [t2|].
  2:{ split; [discriminate|]. intros [_ H]. discriminate. }
  rewrite N.add_mod_idemp_l by discriminate. rewrite N.mod_small by exact Hnw.
  destruct (thr <=? t1 + t2); split; auto; try discriminate. intros [_ H]. discriminate.
Qed.

Theorem bundle_accept_sound thr b : nowrap b -> verify thr b = None -> proves_quorum thr b = true.
Proof. intros Hn H. apply (verify_char thr b Hn) in H. tauto. Qed.

Theorem bundle_accept_complete thr b : nowrap b -> size_ok thr b = true ->
  proves_quorum thr b = true -> verify thr b = None.
Proof. intros Hn H1 H2. apply (verify_char thr b Hn). tauto. Qed.

(* unfolding of the declarative predicate into the property's clauses *)
Theorem proves_quorum_meaning thr b : proves_quorum thr b = true ->
  b_step b <> 0 /\
  NoDup (map bv_sender (b_votes b) ++ map be_sender (b_eqs b)) /\
  (forall v, In v (b_votes b) -> exists w, vote_valid (b_step b) (b_bottom b) v = Some w) /\
  (forall e, In e (b_eqs b) -> be_same e = false /\ exists w, be_ok0 e = Some w /\ be_ok1 e = true) /\
  exists t, total (all_weights b) = Some t /\ thr <= t.
Proof.
  unfold proves_quorum. intros H. apply andb_true_iff in H. destruct H as [H H3].
  apply andb_true_iff in H. destruct H as [H1 H2].
  split; [apply negb_true_iff in H1; apply N.eqb_neq; exact H1|].
  split; [apply nodupb_NoDup; exact H2|].
  destruct (total (all_weights b)) as [t|] eqn:Et; [|discriminate].
  assert (Hall : forall o, In o (all_weights b) -> exists w, o = Some w).
  { clear -Et. revert t Et. induction (all_weights b) as [|[w|] l IH]; cbn; intros t Et o Ho.
    - destruct Ho.
    - destruct Ho as [<-|Ho]; [eauto|]. destruct (total l) as [t'|]; [|discriminate]. eapply IH; eauto.
    - discriminate. }
  split; [|split].
  - intros v Hv. apply Hall. unfold all_weights. apply in_or_app. left. apply in_map. exact Hv.
  - intros e He. assert (Hx : exists w, eq_valid e = Some w).
    { apply Hall. unfold all_weights. apply in_or_app. right. apply in_map. exact He. }
    destruct Hx as [w Hw]. unfold eq_valid in Hw.
    destruct (be_same e); [discriminate|]. split; [reflexivity|].
    destruct (be_ok0 e) as [w0|]; [|discriminate]. destruct (be_ok1 e); [|discriminate]. eauto.
  - exists t. split; [reflexivity|apply N.leb_le; exact H3].
Qed.

(* the alterations the property lists *)
Corollary duplicate_voter_rejected thr b : nowrap b ->
  ~ NoDup (map bv_sender (b_votes b) ++ map be_sender (b_eqs b)) -> verify thr b <> None.
Proof.
  intros Hn Hd Hv. apply (bundle_accept_sound thr b Hn) in Hv.
  apply proves_quorum_meaning in Hv. tauto.
Qed.

Corollary missing_weight_rejected thr b t : nowrap b ->
  total (all_weights b) = Some t -> t < thr -> verify thr b <> None.
Proof.
  intros Hn Ht Hlt Hv. apply (bundle_accept_sound thr b Hn) in Hv.
  apply proves_quorum_meaning in Hv. destruct Hv as [_ [_ [_ [_ [t' [Ht' Hle]]]]]].
  rewrite Ht in Ht'. injection Ht' as <-. lia.
Qed.

Corollary invalid_vote_rejected thr b v : nowrap b ->
  In v (b_votes b) -> vote_valid (b_step b) (b_bottom b) v = None -> verify thr b <> None.
Proof.
  intros Hn Hin Hinv Hv. apply (bundle_accept_sound thr b Hn) in Hv.
  apply proves_quorum_meaning in Hv. destruct Hv as [_ [_ [Hall _]]].
  destruct (Hall v Hin) as [w Hw]. congruence.
Qed.

Corollary identical_pair_rejected thr b e : nowrap b ->
  In e (b_eqs b) -> be_same e = true -> verify thr b <> None.
Proof.
  intros Hn Hin Hs Hv. apply (bundle_accept_sound thr b Hn) in Hv.
  apply proves_quorum_meaning in Hv. destruct Hv as [_ [_ [_ [Hall _]]]].
  destruct (Hall e Hin) as [Hf _]. congruence.
Qed.

(* soft / cert bundles for bottom: no plain vote can be valid *)
Corollary bottom_vote_rejected thr b : nowrap b -> b_step b <= 2 -> b_bottom b = true ->
  b_votes b <> [] -> verify thr b <> None.
Proof.
  intros Hn Hs Hb Hne Hv. destruct (b_votes b) as [|v l] eqn:E; [congruence|].
  apply (invalid_vote_rejected thr b v Hn); [rewrite E; left; reflexivity| |exact Hv].
  unfold vote_valid. rewrite Hb. apply N.leb_le in Hs. rewrite Hs. reflexivity.
Qed.

Theorem cert_accept_sound thr cr br dm b : nowrap b ->
  authenticate thr cr br dm b = None ->
  b_step b = 2 /\ cr = br /\ dm = true /\ proves_quorum thr b = true /\
  (b_bottom b = true -> b_votes b = []).
Proof.
  intros Hn. unfold authenticate.
  destruct (b_step b =? 2) eqn:E1; cbn [negb]; [|discriminate].
  destruct (cr =? br) eqn:E2; cbn [negb]; [|discriminate].
  destruct dm; cbn [negb]; [|discriminate].
  destruct (verify thr b) eqn:Ev; [discriminate|]. intros _.
  apply N.eqb_eq in E1, E2. split; [exact E1|]. split; [exact E2|]. split; [reflexivity|].
  split; [apply bundle_accept_sound; assumption|].
  intros Hb. destruct (b_votes b) eqn:Evs; [reflexivity|]. exfalso.
  apply (bottom_vote_rejected thr b Hn); [lia|exact Hb|congruence|exact Ev].
Qed.

Corollary cert_wrong_round_or_digest_rejected thr cr br dm b :
  cr <> br \/ dm = false \/ b_step b <> 2 -> authenticate thr cr br dm b <> None.
Proof.
  unfold authenticate. intros H.
  destruct (b_step b =? 2) eqn:E1; cbn [negb]; [|discriminate].
  destruct (cr =? br) eqn:E2; cbn [negb]; [|discriminate].
  destruct dm; cbn [negb]; [|discriminate].
  apply N.eqb_eq in E1, E2. destruct H as [H|[H|H]]; congruence.
Qed.

(* the checker's spec oracle is the statement itself *)
Lemma small_sum_nowrap b : small_sum b = true -> nowrap b.
Proof.
  unfold small_sum, nowrap, all_weights. intros H.
  destruct (total (map (vote_valid (b_step b) (b_bottom b)) (b_votes b) ++ map eq_valid (b_eqs b))) as [t|] eqn:Et; [|exact I].
  destruct (total (map (fun v => match bv_ok v with Some w => Some w | None => Some 0 end) (b_votes b) ++
                   map (fun e => match be_ok0 e with Some w => Some w | None => Some 0 end) (b_eqs b))) as [u|] eqn:Eu;
    [|discriminate].
  apply N.ltb_lt in H. enough (t <= u) by lia.
  rewrite total_app in Et, Eu.
  destruct (total (map (vote_valid (b_step b) (b_bottom b)) (b_votes b))) as [t1|] eqn:Et1; [|discriminate].
  destruct (total (map eq_valid (b_eqs b))) as [t2|] eqn:Et2; [|discriminate].
  destruct (total (map (fun v => match bv_ok v with Some w => Some w | None => Some 0 end) (b_votes b))) as [u1|] eqn:Eu1; [|discriminate].
  destruct (total (map (fun e => match be_ok0 e with Some w => Some w | None => Some 0 end) (b_eqs b))) as [u2|] eqn:Eu2; [|discriminate].
  injection Et as <-. injection Eu as <-.
  assert (t1 <= u1).
  { clear -Et1 Eu1. revert t1 u1 Et1 Eu1. induction (b_votes b) as [|v l IH]; cbn; intros t1 u1 Et1 Eu1.
    - injection Et1 as <-. lia.
    - unfold vote_valid in Et1 at 1. destruct ((b_step b <=? 2) && b_bottom b); [discriminate|].
      destruct (bv_ok v) as [w|]; [|discriminate].
      destruct (total (map (vote_valid (b_step b) (b_bottom b)) l)) as [t'|]; [|discriminate].
      destruct (total (map _ l)) as [u'|]; [|discriminate].
      injection Et1 as <-. injection Eu1 as <-. specialize (IH t' u' eq_refl eq_refl). lia. }
  assert (t2 <= u2).
  { clear -Et2 Eu2. revert t2 u2 Et2 Eu2. induction (b_eqs b) as [|e l IH]; cbn; intros t2 u2 Et2 Eu2.
    - injection Et2 as <-. lia.
    - unfold eq_valid in Et2 at 1. destruct (be_same e); [discriminate|].
      destruct (be_ok0 e) as [w|]; [|discriminate]. destruct (be_ok1 e); [|discriminate].
      destruct (total (map eq_valid l)) as [t'|]; [|discriminate].
      destruct (total (map _ l)) as [u'|]; [|discriminate].
      injection Et2 as <-. injection Eu2 as <-. specialize (IH t' u' eq_refl eq_refl). lia. }
  lia.
Qed.
