(* C40: the schema-directed encoder / decoder of model/Msgpack.v, for EVERY schema environment:
   decode (encode v) = normal form of v, the encoding is injective on normal forms, prefix-free,
   canonical inputs re-encode identically. *)
From Coq Require Import List NArith ZArith Bool Lia ZifyN ZifyNat ZifyBool.
From Verif.model Require Import Msgpack.
From Verif.proofs Require Import MsgpackPrim.
Import ListNotations.
Open Scope N_scope.

(* ---------- induction principle for the nested inductive [value] ---------- *)
Section ValueInd.
  Variable P : value -> Prop.
  Hypothesis HU : forall n, P (VUint n).
  Hypothesis HI : forall z, P (VInt z).
  Hypothesis HB : forall b, P (VBool b).
  Hypothesis HY : forall b, P (VBytes b).
  Hypothesis HN : P VNil.
  Hypothesis HL : forall l, Forall P l -> P (VList l).
  Hypothesis HM : forall l, Forall (fun kv => P (fst kv) /\ P (snd kv)) l -> P (VMap l).
  Hypothesis HS : forall l, Forall P l -> P (VStruct l).
  Hypothesis HR : forall v, P v -> P (VRef v).
  Hypothesis HO : forall v, P v -> P (VSome v).
  Hypothesis HD : P VDefault.

  Fixpoint value_ind2 (v : value) : P v :=
    match v with
    | VUint n => HU n
    | VInt z => HI z
    | VBool b => HB b
    | VBytes b => HY b
    | VNil => HN
    | VList l => HL l ((fix go (l : list value) : Forall P l :=
                          match l with [] => Forall_nil _ | x :: t => Forall_cons x (value_ind2 x) (go t) end) l)
    | VMap l => HM l ((fix go (l : list (value * value)) : Forall (fun kv => P (fst kv) /\ P (snd kv)) l :=
                         match l with
                         | [] => Forall_nil _
                         | kv :: t => Forall_cons kv (conj (value_ind2 (fst kv)) (value_ind2 (snd kv))) (go t)
                         end) l)
    | VStruct l => HS l ((fix go (l : list value) : Forall P l :=
                            match l with [] => Forall_nil _ | x :: t => Forall_cons x (value_ind2 x) (go t) end) l)
    | VRef v' => HR v' (value_ind2 v')
    | VSome v' => HO v' (value_ind2 v')
    | VDefault => HD
    end.
End ValueInd.

Section Proofs.
Variable env : list schema.
Variable deep : bool.

Notation E := (enc env deep).
Notation NM := (norm env deep).
Notation W := (wtb env deep).
Notation Z0 := (is_zero env deep).
Notation OM := (omitted env deep).

(* ---------- named versions of the local fixpoints over struct fields ---------- *)
Fixpoint enc_fields (fs : list (fhdr * schema)) (vs : list value) {struct vs} : N * bytes :=
  match fs, vs with
  | (h, fsch) :: fs', v :: vs' =>
      let (n, bs) := enc_fields fs' vs' in
      if OM h fsch v then (n, bs) else (n + 1, enc_str (f_name h) ++ E fsch v ++ bs)
  | _, _ => (0, [])
  end.

Fixpoint norm_fields (fs : list (fhdr * schema)) (vs : list value) {struct vs} : list value :=
  match fs, vs with
  | (h, fsch) :: fs', v :: vs' => (if OM h fsch v then VDefault else NM fsch v) :: norm_fields fs' vs'
  | _, _ => []
  end.

Fixpoint wt_fields (fs : list (fhdr * schema)) (vs : list value) {struct vs} : bool :=
  match fs, vs with
  | [], [] => true
  | (h, fsch) :: fs', v :: vs' =>
      (OM h fsch v || W fsch v) && (negb (f_req h) || negb (Z0 fsch v)) && wt_fields fs' vs'
  | _, _ => false
  end.

Fixpoint zero_fields (fs : list (fhdr * schema)) (vs : list value) {struct vs} : bool :=
  match fs, vs with
  | (_, fsch) :: fs', v :: vs' => Z0 fsch v && zero_fields fs' vs'
  | _, _ => true
  end.

Lemma enc_struct_eq fs vs :
  E (SStruct fs) (VStruct vs) = hdr_map (fst (enc_fields fs vs)) ++ snd (enc_fields fs vs).
Proof. reflexivity. Qed.

Lemma norm_struct_eq fs vs : NM (SStruct fs) (VStruct vs) = VStruct (norm_fields fs vs).
Proof. reflexivity. Qed.

Lemma wt_struct_eq fs vs : W (SStruct fs) (VStruct vs) = wt_fields fs vs.
Proof. reflexivity. Qed.

Lemma zero_struct_eq fs vs : Z0 (SStruct fs) (VStruct vs) = zero_fields fs vs.
Proof. reflexivity. Qed.


(* ---------- order of keys ---------- *)
Lemma vlt_asym a : forall c, vlt a c = true -> vlt c a = false.
Proof.
  induction a using value_ind2; intros c; destruct c; simpl; intros Hlt; try discriminate; auto.
  - apply N.ltb_lt in Hlt. apply N.ltb_ge. lia.
  - apply Z.ltb_lt in Hlt. apply Z.ltb_ge. lia.
  - now apply lex_lt_asym.
Qed.

Fixpoint ksorted (ks : list value) : bool :=
  match ks with [] => true | k :: t => forallb (vlt k) t && ksorted t end.

Lemma sorted_keys_ks l : sorted_keys l = ksorted (map fst l).
Proof.
  induction l as [|[k x] l IH]; simpl; auto. rewrite IH. f_equal.
  clear IH. induction l as [|[k' x'] l IH2]; simpl; auto. now rewrite IH2.
Qed.

Lemma minsert_last k v : forall acc,
  forallb (fun kv : value * value => vlt (fst kv) k) acc = true -> minsert k v acc = acc ++ [(k, v)].
Proof.
  induction acc as [|[k' v'] acc IH]; simpl; intros H; auto.
  apply andb_true_iff in H. destruct H as [H1 H2].
  rewrite (vlt_asym _ _ H1), H1. f_equal. now apply IH.
Qed.

Lemma ksorted_app_inv a : forall k t,
  ksorted (a ++ k :: t) = true -> forallb (fun x => vlt x k) a = true.
Proof.
  induction a as [|x a IH]; simpl; intros k t H; auto.
  apply andb_true_iff in H. destruct H as [H1 H2].
  rewrite forallb_app in H1. apply andb_true_iff in H1. destruct H1 as [_ H1]. simpl in H1.
  apply andb_true_iff in H1. destruct H1 as [H1 _]. rewrite H1. simpl. eauto.
Qed.

Lemma fold_minsert_sorted (gv : value -> value) : forall l acc,
  ksorted (map fst acc ++ map fst l) = true ->
  fold_left (fun a (kv : value * value) => minsert (fst kv) (gv (snd kv)) a) l acc
  = acc ++ map (fun kv : value * value => (fst kv, gv (snd kv))) l.
Proof.
  induction l as [|[k x] l IH]; intros acc H; simpl.
  - now rewrite app_nil_r.
  - simpl in H. rewrite minsert_last.
    + rewrite IH.
      * now rewrite <- app_assoc.
      * rewrite map_app. simpl. rewrite <- app_assoc. exact H.
    + pose proof (ksorted_app_inv _ _ _ H) as H1.
      rewrite forallb_forall in *. intros [k' x'] Hin. simpl.
      apply (H1 k'). apply in_map_iff. exists (k', x'). auto.
Qed.

(* ---------- loops on canonical input ---------- *)
Lemma dec_list_rt (D : decoder) (f : value -> bytes) (g : value -> value) : forall l rest,
  Forall (fun x => forall r, D (f x ++ r) = Ok (g x, r)) l ->
  dec_list D (length l) (flat_map f l ++ rest) = Ok (map g l, rest).
Proof.
  induction l as [|x l IH]; intros rest H; simpl; auto.
  inversion H; subst. rewrite <- app_assoc. rewrite H2. cbn [bind fst snd].
  rewrite IH by assumption. reflexivity.
Qed.

Lemma dec_map_rt (DK DV : decoder) (fk fv : value -> bytes) (gk gv : value -> value) :
  forall (l : list (value * value)) (acc : list (value * value)) (rest : bytes),
  Forall (fun kv : value * value =>
            (forall r, DK (fk (fst kv) ++ r) = Ok (gk (fst kv), r)) /\
            (forall r, DV (fv (snd kv) ++ r) = Ok (gv (snd kv), r))) l ->
  dec_map DK DV (length l) (flat_map (fun kv : value * value => fk (fst kv) ++ fv (snd kv)) l ++ rest) acc
  = Ok (fold_left (fun a (kv : value * value) => minsert (gk (fst kv)) (gv (snd kv)) a) l acc, rest).
Proof.
  induction l as [|[k x] l IH]; intros acc rest H; simpl; auto.
  inversion H; subst. destruct H2 as [Hk Hv]. simpl in Hk, Hv.
  rewrite <- !app_assoc. rewrite Hk. cbn [bind fst snd]. rewrite Hv. cbn [bind fst snd].
  now rewrite IH.
Qed.

(* ---------- first byte of an encoding ---------- *)
Definition hd_not_nil (b : bytes) : Prop := match b with x :: _ => x <> 192 | [] => False end.

Lemma hd_not_nil_app a b : hd_not_nil a -> hd_not_nil (a ++ b).
Proof. destruct a; simpl; intros H; [contradiction|exact H]. Qed.

Lemma hd_enc_uint n : n < 18446744073709551616 -> hd_not_nil (enc_uint n).
Proof.
  intros H. unfold enc_uint. destruct (N.ltb_spec n 128); [cbn [hd_not_nil]; lia|].
  repeat match goal with |- context [if ?c then _ else _] => destruct c end; cbn [hd_not_nil]; lia.
Qed.

Lemma hd_enc_int z : (- 9223372036854775808 <= z < 9223372036854775808)%Z -> hd_not_nil (enc_int z).
Proof.
  intros H. unfold enc_int. destruct (Z.leb_spec 0 z); [apply hd_enc_uint; lia|].
  destruct (Z.leb_spec (-32) z); [cbn [hd_not_nil]; lia|].
  repeat match goal with |- context [if ?c then _ else _] => destruct c end; cbn [hd_not_nil]; lia.
Qed.

Lemma hd_hdr_map n : hd_not_nil (hdr_map n).
Proof.
  unfold hdr_map. destruct (N.ltb_spec n 16); [cbn [hd_not_nil]; lia|].
  repeat match goal with |- context [if ?c then _ else _] => destruct c end; cbn [hd_not_nil]; lia.
Qed.
Lemma hd_hdr_arr n : hd_not_nil (hdr_arr n).
Proof.
  unfold hdr_arr. destruct (N.ltb_spec n 16); [cbn [hd_not_nil]; lia|].
  repeat match goal with |- context [if ?c then _ else _] => destruct c end; cbn [hd_not_nil]; lia.
Qed.
Lemma hd_enc_str x : len x < 4294967296 -> hd_not_nil (enc_str x).
Proof.
  intros H. unfold enc_str, hdr_str. destruct (N.ltb_spec (len x) 32); [cbn [hd_not_nil app]; lia|].
  repeat match goal with |- context [if ?c then _ else _] => destruct c end; cbn [hd_not_nil app]; lia.
Qed.
Lemma hd_enc_bin x : hd_not_nil (enc_bin x).
Proof.
  unfold enc_bin, hdr_bin.
  repeat match goal with |- context [if ?c then _ else _] => destruct c end; cbn [hd_not_nil app]; lia.
Qed.

Lemma int_ok_range bits z :
  int_ok bits z = true -> 0 < bits -> bits <= 64 -> (- 9223372036854775808 <= z < 9223372036854775808)%Z.
Proof.
  unfold int_ok. intros H H1 H2. apply andb_true_iff in H. destruct H as [Ha Hb].
  apply Z.leb_le in Ha. apply Z.ltb_lt in Hb.
  assert (Hp : (2 ^ (Z.of_N bits - 1) <= 2 ^ 63)%Z) by (apply Z.pow_le_mono_r; lia).
  change (2 ^ 63)%Z with 9223372036854775808%Z in Hp. lia.
Qed.

Lemma enc_head : forall v s, W s v = true ->
  E s v <> [] /\ (head_nil v = false -> hd_not_nil (E s v)).
Proof.
  induction v using value_ind2; intros s Hw; cbn [wtb] in Hw.
  - destruct s; try discriminate. apply andb_true_iff in Hw. destruct Hw as [H1 H2].
    apply N.leb_le in H1. apply N.ltb_lt in H2. cbn [enc]. split; [apply enc_uint_nonempty|].
    intros _. apply hd_enc_uint. lia.
  - destruct s; try discriminate. rewrite !andb_true_iff in Hw. destruct Hw as [[H1 H2] H3].
    apply N.ltb_lt in H2. apply N.leb_le in H3. cbn [enc]. split; [apply enc_int_nonempty|].
    intros _. apply hd_enc_int. eapply int_ok_range; eauto.
  - cbn [enc]. split; [discriminate|]. intros _. destruct b; simpl; lia.
  - destruct s; try discriminate; cbn [enc]; rewrite !andb_true_iff in Hw; destruct Hw as [[H1 H2] H3].
    + split; [apply enc_bin_nonempty|intros _; apply hd_enc_bin].
    + apply N.ltb_lt in H3. split; [apply enc_str_nonempty|intros _; now apply hd_enc_str].
    + split; [apply enc_bin_nonempty|intros _; apply hd_enc_bin].
  - cbn [enc]. split; [discriminate|]. simpl. discriminate.
  - destruct s; try discriminate; cbn [enc]; (split; [|intros _; apply hd_not_nil_app, hd_hdr_arr]);
      intros Hc; apply app_eq_nil in Hc; destruct Hc as [Hc _]; now apply hdr_arr_nonempty in Hc.
  - destruct s; try discriminate; cbn [enc]. split; [|intros _; apply hd_not_nil_app, hd_hdr_map].
    intros Hc; apply app_eq_nil in Hc; destruct Hc as [Hc _]; now apply hdr_map_nonempty in Hc.
  - destruct s; try discriminate. rewrite enc_struct_eq. split; [|intros _; apply hd_not_nil_app, hd_hdr_map].
    intros Hc; apply app_eq_nil in Hc; destruct Hc as [Hc _]; now apply hdr_map_nonempty in Hc.
  - destruct s; try discriminate. cbn [enc head_nil]. destruct (lookup env id); [|discriminate]. now apply IHv.
  - destruct s; try discriminate. cbn [enc head_nil]. apply andb_true_iff in Hw. destruct Hw as [H1 H2].
    now apply IHv.
  - discriminate.
Qed.

Lemma flat_map_len_ge (f : value -> bytes) : forall l,
  Forall (fun x => f x <> []) l -> len l <= len (flat_map f l).
Proof.
  induction l as [|x l IH]; intros H; simpl.
  - unfold len. simpl. lia.
  - inversion H; subst. rewrite len_cons, len_app. specialize (IH H3).
    assert (1 <= len (f x)). { destruct (f x); [congruence|]. rewrite len_cons. lia. }
    lia.
Qed.


(* ---------- normal forms ---------- *)
Lemma omitted_oe h s v : OM h s v = true -> f_oe h = true.
Proof. unfold omitted. intros H. apply andb_true_iff in H. tauto. Qed.

Lemma omitted_zero h s v : OM h s v = true -> Z0 s v = true.
Proof. unfold omitted. intros H. apply andb_true_iff in H. tauto. Qed.

Lemma forallb_map {A B} (f : B -> bool) (g : A -> B) l : forallb f (map g l) = forallb (fun x => f (g x)) l.
Proof. induction l; simpl; auto. now rewrite IHl. Qed.

Lemma forallb_ext_in {A} (f g : A -> bool) l : Forall (fun x => f x = g x) l -> forallb f l = forallb g l.
Proof. induction 1; simpl; auto. now rewrite H, IHForall. Qed.

Lemma is_zero_norm : forall v s, Z0 s (NM s v) = Z0 s v.
Proof.
  induction v using value_ind2; intros s; try reflexivity.
  - (* VList *)
    destruct s; try reflexivity; cbn [norm is_zero].
    + rewrite forallb_map. apply forallb_ext_in. eapply Forall_impl; [|exact H]. simpl. auto.
    + destruct l; reflexivity.
  - (* VMap *)
    destruct s; try reflexivity; cbn [norm is_zero]. destruct l; reflexivity.
  - (* VStruct *)
    destruct s; try reflexivity. rewrite norm_struct_eq, !zero_struct_eq.
    revert fs. induction H as [|v vs Hv Hvs IH]; intros fs; destruct fs as [|[h fsch] fs]; try reflexivity.
    cbn [norm_fields zero_fields]. rewrite IH. f_equal.
    destruct (OM h fsch v) eqn:Eo.
    + cbn [is_zero]. symmetry. eapply omitted_zero; eauto.
    + apply Hv.
  - (* VRef *)
    destruct s; try reflexivity. cbn [norm]. destruct (lookup env id) eqn:El; [|reflexivity].
    cbn [is_zero]. rewrite El. apply IHv.
  - (* VSome *)
    destruct s; try reflexivity. cbn [norm is_zero]. now rewrite IHv.
Qed.

Lemma omitted_norm h s v : OM h s (NM s v) = OM h s v.
Proof. unfold omitted. now rewrite is_zero_norm. Qed.

Lemma flat_map_ext_in {A B} (f g : A -> list B) l : Forall (fun x => f x = g x) l -> flat_map f l = flat_map g l.
Proof. induction 1; simpl; auto. now rewrite H, IHForall. Qed.

Lemma flat_map_map {A B C} (f : B -> list C) (g : A -> B) l : flat_map f (map g l) = flat_map (fun x => f (g x)) l.
Proof. induction l; simpl; auto. now rewrite IHl. Qed.

Lemma enc_norm : forall v s, E s (NM s v) = E s v.
Proof.
  induction v using value_ind2; intros s; try reflexivity.
  - destruct s; try reflexivity; cbn [norm enc]; rewrite len_map, flat_map_map; f_equal;
      apply flat_map_ext_in; (eapply Forall_impl; [|exact H]); simpl; auto.
  - destruct s; try reflexivity; cbn [norm enc]. rewrite len_map, flat_map_map. f_equal.
    apply flat_map_ext_in. eapply Forall_impl; [|exact H]. intros [k x] [H1 H2]. simpl in *. now rewrite H1, H2.
  - destruct s; try reflexivity. rewrite norm_struct_eq, !enc_struct_eq.
    assert (Hf : enc_fields fs (norm_fields fs l) = enc_fields fs l).
    { revert fs. induction H as [|v vs Hv Hvs IH]; intros fs; destruct fs as [|[h fsch] fs]; try reflexivity.
      cbn [norm_fields enc_fields]. rewrite IH. destruct (enc_fields fs vs) as [n bs].
      destruct (OM h fsch v) eqn:Eo.
      - assert (Ho : OM h fsch VDefault = true).
        { unfold omitted. rewrite (omitted_oe _ _ _ Eo). reflexivity. }
        now rewrite Ho.
      - rewrite omitted_norm, Eo. now rewrite Hv. }
    now rewrite Hf.
  - destruct s; try reflexivity. cbn [norm]. destruct (lookup env id) eqn:El; [|reflexivity].
    cbn [enc]. rewrite El. apply IHv.
  - destruct s; try reflexivity. cbn [norm enc]. apply IHv.
Qed.

Lemma map_ext_Forall {A B} (f g : A -> B) l : Forall (fun x => f x = g x) l -> map f l = map g l.
Proof. induction 1; simpl; auto. now rewrite H, IHForall. Qed.

Lemma norm_idem : forall v s, NM s (NM s v) = NM s v.
Proof.
  induction v using value_ind2; intros s; try reflexivity.
  - destruct s; try reflexivity; cbn [norm]; f_equal; rewrite map_map; apply map_ext_Forall;
      (eapply Forall_impl; [|exact H]); simpl; auto.
  - destruct s; try reflexivity; cbn [norm]. f_equal. rewrite map_map. apply map_ext_Forall.
    eapply Forall_impl; [|exact H]. intros [k x] [H1 H2]. simpl in *. now rewrite H1, H2.
  - destruct s; try reflexivity. rewrite !norm_struct_eq. f_equal.
    revert fs. induction H as [|v vs Hv Hvs IH]; intros fs; destruct fs as [|[h fsch] fs]; try reflexivity.
    cbn [norm_fields]. rewrite IH. f_equal.
    destruct (OM h fsch v) eqn:Eo.
    + assert (Ho : OM h fsch VDefault = true).
      { unfold omitted. rewrite (omitted_oe _ _ _ Eo). reflexivity. }
      now rewrite Ho.
    + rewrite omitted_norm, Eo. apply Hv.
  - destruct s; try reflexivity. cbn [norm]. destruct (lookup env id) eqn:El; [|cbn [norm]; now rewrite El].
    cbn [norm]. rewrite El. f_equal. apply IHv.
  - destruct s; try reflexivity. cbn [norm]. f_equal. apply IHv.
Qed.

Lemma vkey_norm : forall v s, vkey v = true -> NM s v = v.
Proof.
  induction v using value_ind2; intros s Hk; try discriminate; try reflexivity.
  destruct s; try reflexivity. cbn [norm]. destruct (lookup env id); [|reflexivity].
  f_equal. now apply IHv.
Qed.


(* ---------- struct decoding on canonical input ---------- *)
Section StructRT.
Variable call : N -> bytes -> res (value * bytes).
Variable zero : schema -> value.
Notation DS := (dec_s env deep call zero).

Definition mkfds (fs : list (fhdr * schema)) : list fdec :=
  map (fun x : fhdr * schema => let (h, fsch) := x in (h, fsch, DS fsch)) fs.

Lemma dec_struct_eq fs b : DS (SStruct fs) b = struct_dec env deep zero (mkfds fs) b.
Proof. reflexivity. Qed.

Lemma mkfds_length fs : length (mkfds fs) = length fs.
Proof. unfold mkfds. now rewrite map_length. Qed.

Lemma find_name_app key : forall pre t i,
  (forall g, In g pre -> bytes_eqb (f_name (fst g)) key = false) ->
  find_name key (mkfds (pre ++ t)) i = find_name key (mkfds t) (i + length pre).
Proof.
  induction pre as [|[h fsch] pre IH]; intros t i Hne; simpl.
  - f_equal. lia.
  - pose proof (Hne (h, fsch) (or_introl eq_refl)) as Hq. simpl in Hq. rewrite Hq.
    rewrite IH by (intros g Hg; apply Hne; now right).
    f_equal. lia.
Qed.

Lemma names_sorted_pre : forall pre h fsch post,
  names_sorted (pre ++ (h, fsch) :: post) = true ->
  forall g, In g pre -> bytes_eqb (f_name (fst g)) (f_name h) = false.
Proof.
  induction pre as [|[h0 s0] pre IH]; intros h fsch post Hs g Hg; [inversion Hg|].
  simpl in Hs. apply andb_true_iff in Hs. destruct Hs as [H1 H2].
  destruct Hg as [Hg|Hg].
  - subst g. simpl. rewrite forallb_forall in H1.
    specialize (H1 (h, fsch)). simpl in H1.
    assert (Hl : lex_lt (f_name h0) (f_name h) = true) by (apply H1; apply in_or_app; right; now left).
    destruct (bytes_eqb (f_name h0) (f_name h)) eqn:Eb; auto.
    apply bytes_eqb_eq in Eb. apply lex_lt_neq in Hl. contradiction.
  - eapply IH; eauto.
Qed.

Fixpoint pres (fs : list (fhdr * schema)) (vs : list value) {struct vs} : list (option value) :=
  match fs, vs with
  | (h, fsch) :: fs', v :: vs' => (if OM h fsch v then None else Some (NM fsch v)) :: pres fs' vs'
  | _, _ => []
  end.

Lemma set_nth_app {A} (x : A) : forall sp y t, set_nth (length sp) x (sp ++ y :: t) = sp ++ x :: t.
Proof. induction sp; simpl; intros; auto. now rewrite IHsp. Qed.

Lemma nth_app_len {A} (d : A) : forall sp y t, nth (length sp) (sp ++ y :: t) d = y.
Proof. induction sp; simpl; intros; auto. Qed.

Lemma sloop_map_rt fs0 : forall post pre vs sp rest,
  fs0 = pre ++ post -> names_sorted fs0 = true -> length sp = length pre ->
  (forall g, In g fs0 -> len (f_name (fst g)) < 4294967296) ->
  Forall2 (fun (g : fhdr * schema) v =>
             OM (fst g) (snd g) v = false -> forall r, DS (snd g) (E (snd g) v ++ r) = Ok (NM (snd g) v, r)) post vs ->
  sloop_map (mkfds fs0) (N.to_nat (fst (enc_fields post vs))) (snd (enc_fields post vs) ++ rest)
            (sp ++ repeat None (length post))
  = Ok (sp ++ pres post vs, rest).
Proof.
  induction post as [|[h fsch] post IH]; intros pre vs sp rest Hfs Hsort Hlen Hnm HD.
  - inversion HD; subst. simpl. reflexivity.
  - inversion HD as [|g v post' vs' Hhd Htl]; subst. cbn [enc_fields pres length repeat].
    destruct (enc_fields post vs') as [n bs] eqn:Een.
    assert (IH' : forall sp', length sp' = length (pre ++ [(h, fsch)]) ->
              sloop_map (mkfds (pre ++ (h, fsch) :: post)) (N.to_nat n) (bs ++ rest) (sp' ++ repeat None (length post))
              = Ok (sp' ++ pres post vs', rest)).
    { intros sp' Hl. specialize (IH (pre ++ [(h, fsch)]) vs' sp' rest).
      rewrite Een in IH. apply IH; auto. now rewrite <- app_assoc. }
    destruct (OM h fsch v) eqn:Eo.
    + cbn [fst snd].
      replace (sp ++ None :: repeat None (length post)) with ((sp ++ [None]) ++ repeat None (length post))
        by (now rewrite <- app_assoc).
      rewrite IH' by (rewrite !app_length; simpl; lia). now rewrite <- app_assoc.
    + cbn [fst snd]. replace (N.to_nat (n + 1)) with (S (N.to_nat n)) by lia.
      cbn [sloop_map]. rewrite <- !app_assoc.
      rewrite rd_str_enc by (apply (Hnm (h, fsch)); apply in_or_app; right; now left).
      cbn [bind fst snd].
      rewrite (find_name_app (f_name h) pre ((h, fsch) :: post) 0)
        by (eapply names_sorted_pre; eauto).
      cbn [mkfds map find_name]. rewrite bytes_eqb_refl. simpl Nat.add.
      rewrite <- Hlen. rewrite nth_app_len.
      rewrite (Hhd Eo). cbn [bind fst snd]. rewrite set_nth_app.
      replace (sp ++ Some (NM fsch v) :: repeat None (length post))
        with ((sp ++ [Some (NM fsch v)]) ++ repeat None (length post)) by (now rewrite <- app_assoc).
      rewrite IH' by (rewrite !app_length; simpl; lia). now rewrite <- app_assoc.
Qed.

Lemma fin_slots_pres : forall fs vs, length vs = length fs ->
  fin_slots zero (mkfds fs) (pres fs vs) = norm_fields fs vs.
Proof.
  induction fs as [|[h fsch] fs IH]; intros vs Hl; destruct vs as [|v vs]; try discriminate; auto.
  cbn [mkfds map pres fin_slots norm_fields]. fold (mkfds fs). rewrite IH by (simpl in Hl; lia). f_equal.
  destruct (OM h fsch v) eqn:Eo; auto. now rewrite (omitted_oe _ _ _ Eo).
Qed.

Lemma req_ok_norm : forall fs vs, wt_fields fs vs = true -> req_ok env deep (mkfds fs) (norm_fields fs vs) = true.
Proof.
  induction fs as [|[h fsch] fs IH]; intros vs Hw; destruct vs as [|v vs]; try discriminate; auto.
  cbn [wt_fields] in Hw. rewrite !andb_true_iff in Hw. destruct Hw as [[H1 H2] H3].
  cbn [mkfds map norm_fields req_ok]. fold (mkfds fs). rewrite IH by assumption. rewrite andb_true_r.
  destruct (OM h fsch v) eqn:Eo.
  - cbn [is_zero]. rewrite (omitted_zero _ _ _ Eo) in H2. exact H2.
  - now rewrite is_zero_norm.
Qed.

End StructRT.

Lemma wt_fields_length : forall fs vs, wt_fields fs vs = true -> length vs = length fs.
Proof.
  induction fs as [|[h fsch] fs IH]; intros vs Hw; destruct vs as [|v vs]; try discriminate; auto.
  cbn [wt_fields] in Hw. rewrite !andb_true_iff in Hw. destruct Hw as [_ H3]. simpl. f_equal. now apply IH.
Qed.

Lemma enc_fields_count : forall fs vs, fst (enc_fields fs vs) <= len fs /\ fst (enc_fields fs vs) <= len (snd (enc_fields fs vs)).
Proof.
  induction fs as [|[h fsch] fs IH]; intros vs; destruct vs as [|v vs]; cbn [enc_fields fst snd];
    try (unfold len; simpl; lia).
  specialize (IH vs). destruct (enc_fields fs vs) as [n bs]. cbn [fst snd] in *.
  rewrite len_cons. destruct (OM h fsch v); cbn [fst snd].
  - lia.
  - rewrite !len_app. pose proof (enc_str_nonempty (f_name h)) as Hne.
    assert (1 <= len (enc_str (f_name h))). { destruct (enc_str (f_name h)); [congruence|]. rewrite len_cons. lia. }
    lia.
Qed.


(* ---------- schema well-formedness ---------- *)
Fixpoint sok_fields (fs : list (fhdr * schema)) : bool :=
  match fs with [] => true | (_, fsch) :: fs' => schema_ok env fsch && sok_fields fs' end.

Lemma schema_ok_struct fs :
  schema_ok env (SStruct fs) =
  names_sorted fs && (len fs <? 65536)
  && forallb (fun g : fhdr * schema => (len (f_name (fst g)) <? 32) && bytes_ok (f_name (fst g))) fs
  && sok_fields fs.
Proof. reflexivity. Qed.

Hypothesis Henv : env_ok env = true.

Lemma lookup_ok id s : lookup env id = Some s -> schema_ok env s = true.
Proof.
  unfold lookup. intros H. apply nth_error_In in H. unfold env_ok in Henv.
  rewrite forallb_forall in Henv. auto.
Qed.

Lemma need_in_list x l : In x l -> (need x <= fold_right (fun x m => Nat.max (need x) m) O l)%nat.
Proof. induction l; simpl; intros H; [contradiction|]. destruct H; [subst|specialize (IHl H)]; lia. Qed.

Lemma need_in_map k x (l : list (value * value)) : In (k, x) l ->
  (need k <= fold_right (fun kv m => Nat.max (Nat.max (need (fst kv)) (need (snd kv))) m) O l /\
   need x <= fold_right (fun kv m => Nat.max (Nat.max (need (fst kv)) (need (snd kv))) m) O l)%nat.
Proof. induction l; simpl; intros H; [contradiction|]. destruct H; [subst; simpl|specialize (IHl H)]; lia. Qed.

Lemma within_zero bd : within bd 0 = true.
Proof. destruct bd; simpl; auto. apply N.leb_le. lia. Qed.

(* ---------- THE round trip ---------- *)
Theorem dec_enc : forall v s, W s v = true -> schema_ok env s = true ->
  forall d zero rest, (need (NM s v) <= d)%nat ->
  dec_s env deep (dec env deep d) zero s (E s v ++ rest) = Ok (NM s v, rest).
Proof.
  induction v using value_ind2; intros s Hw Hs d zero rest Hd; cbn [wtb] in Hw; unfold u32 in Hw.
  - (* VUint *)
    destruct s; try discriminate. apply andb_true_iff in Hw. destruct Hw as [H1 H2].
    apply N.ltb_lt in H2. pose proof H1 as H1'. apply N.leb_le in H1'.
    cbn [enc norm dec_s]. rewrite rd_uint64_enc by lia. cbn [bind fst snd]. now rewrite H1.
  - (* VInt *)
    destruct s; try discriminate. rewrite !andb_true_iff in Hw. destruct Hw as [[H1 H2] H3].
    apply N.ltb_lt in H2. apply N.leb_le in H3.
    cbn [enc norm dec_s]. rewrite rd_int64_enc by (eapply int_ok_range; eauto). cbn [bind fst snd]. now rewrite H1.
  - (* VBool *)
    destruct s; try discriminate. cbn [enc norm dec_s]. destruct b; reflexivity.
  - (* VBytes *)
    destruct s; try discriminate; rewrite !andb_true_iff in Hw; destruct Hw as [[H1 H2] H3]; cbn [enc norm dec_s].
    + apply N.ltb_lt in H3. rewrite rd_bin_enc_bin by exact H3. cbn [bind fst snd]. now rewrite H2.
    + apply N.ltb_lt in H3. rewrite rd_str_enc by exact H3. cbn [bind fst snd]. now rewrite H2.
    + apply N.eqb_eq in H2. apply N.ltb_lt in H3. subst n. rewrite rd_exact_enc by exact H3. reflexivity.
  - (* VNil *)
    destruct s; try discriminate; cbn [enc norm dec_s app]; try reflexivity.
    + cbn. now rewrite within_zero.
    + cbn. now rewrite within_zero.
  - (* VList *)
    destruct s; try discriminate.
    + (* array *)
      rewrite !andb_true_iff in Hw. destruct Hw as [[H1 H2] H3].
      apply N.eqb_eq in H1. apply N.ltb_lt in H2.
      cbn [schema_ok] in Hs. cbn [enc norm dec_s]. rewrite <- app_assoc.
      rewrite rd_arrhdr_enc by lia. cbn [bind]. rewrite H1, N.ltb_irrefl.
      rewrite forallb_forall in H3.
      assert (Hne : Forall (fun x => E s x <> []) l).
      { apply Forall_forall. intros x Hx. apply enc_head. auto. }
      rewrite lacks_spec, len_app.
      pose proof (flat_map_len_ge (E s) l Hne) as Hge.
      destruct (N.ltb_spec (len (flat_map (E s) l) + len rest) n); [lia|].
      subst n. unfold len at 1. rewrite Nat2N.id.
      rewrite (dec_list_rt _ (E s) (NM s)).
      * cbn [bind fst snd]. rewrite N.sub_diag. simpl repeat. now rewrite app_nil_r.
      * rewrite Forall_forall in *. intros x Hx r. apply H; auto.
        cbn [norm need] in Hd. pose proof (need_in_list (NM s x) (map (NM s) l) (in_map _ _ _ Hx)). lia.
    + (* slice *)
      rewrite !andb_true_iff in Hw. destruct Hw as [[H1 H2] H3]. apply N.ltb_lt in H2.
      cbn [schema_ok] in Hs. cbn [enc norm dec_s]. rewrite <- app_assoc.
      rewrite rd_arrhdr_enc by lia. cbn [bind]. rewrite H1. cbn [negb].
      rewrite forallb_forall in H3.
      assert (Hne : Forall (fun x => E s x <> []) l).
      { apply Forall_forall. intros x Hx. apply enc_head. auto. }
      rewrite lacks_spec, len_app.
      pose proof (flat_map_len_ge (E s) l Hne) as Hge.
      destruct (N.ltb_spec (len (flat_map (E s) l) + len rest) (len l)); [lia|].
      unfold len at 1. rewrite Nat2N.id.
      rewrite (dec_list_rt _ (E s) (NM s)).
      * reflexivity.
      * rewrite Forall_forall in *. intros x Hx r. apply H; auto.
        cbn [norm need] in Hd. pose proof (need_in_list (NM s x) (map (NM s) l) (in_map _ _ _ Hx)). lia.
  - (* VMap *)
    destruct s; try discriminate.
    rewrite !andb_true_iff in Hw. destruct Hw as [[[H1 H2] H3] H4]. apply N.ltb_lt in H2.
    cbn [schema_ok] in Hs. apply andb_true_iff in Hs. destruct Hs as [Hs1 Hs2].
    cbn [enc norm dec_s]. rewrite <- app_assoc.
    rewrite rd_maphdr_enc by lia. cbn [bind]. rewrite H1. cbn [negb].
    rewrite forallb_forall in H4.
    set (f := fun kv : value * value => let (k, x) := kv in E s1 k ++ E s2 x).
    assert (Hf : flat_map f l = flat_map (fun kv : value * value => E s1 (fst kv) ++ E s2 (snd kv)) l).
    { apply flat_map_ext_in. apply Forall_forall. intros [k x] _. reflexivity. }
    assert (Hne : Forall (fun kv : value * value => E s1 (fst kv) ++ E s2 (snd kv) <> []) l).
    { apply Forall_forall. intros [k x] Hx. specialize (H4 _ Hx). simpl in H4.
      rewrite !andb_true_iff in H4. destruct H4 as [[_ Hk] _]. simpl.
      intros Hc. apply app_eq_nil in Hc. destruct Hc as [Hc _]. eapply enc_head in Hc; eauto. }
    rewrite Hf.
    assert (Hge : len l <= len (flat_map (fun kv : value * value => E s1 (fst kv) ++ E s2 (snd kv)) l)).
    { clear - Hne. induction l as [|kv l IH]; simpl.
      - unfold len; simpl; lia.
      - inversion Hne; subst. rewrite len_cons, len_app. specialize (IH H2).
        assert (1 <= len (E s1 (fst kv) ++ E s2 (snd kv))).
        { destruct (E s1 (fst kv) ++ E s2 (snd kv)); [congruence|]. rewrite len_cons. lia. }
        lia. }
    rewrite lacks_spec, len_app.
    destruct (N.ltb_spec (len (flat_map (fun kv : value * value => E s1 (fst kv) ++ E s2 (snd kv)) l) + len rest) (len l)); [lia|].
    unfold len at 1. rewrite Nat2N.id.
    rewrite (dec_map_rt _ _ (E s1) (E s2) (fun k => k) (NM s2)).
    + cbn [bind fst snd]. rewrite fold_minsert_sorted.
      * cbn [app]. f_equal. f_equal. f_equal. apply map_ext_Forall. apply Forall_forall.
        intros [k x] Hx. specialize (H4 _ Hx). simpl in H4. rewrite !andb_true_iff in H4.
        destruct H4 as [[Hk _] _]. simpl. now rewrite (vkey_norm _ s1 Hk).
      * simpl. now rewrite <- sorted_keys_ks.
    + rewrite Forall_forall in *. intros [k x] Hx. specialize (H4 _ Hx). simpl in H4.
      rewrite !andb_true_iff in H4. destruct H4 as [[Hk Hwk] Hwx].
      pose proof (H _ Hx) as [IHk IHx]. simpl in IHk, IHx. simpl.
      cbn [norm need] in Hd.
      pose proof (need_in_map (NM s1 k) (NM s2 x)
                    (map (fun kv : value * value => let (k, x) := kv in (NM s1 k, NM s2 x)) l)) as Hn.
      assert (Hin : In (NM s1 k, NM s2 x) (map (fun kv : value * value => let (k, x) := kv in (NM s1 k, NM s2 x)) l)).
      { apply in_map_iff. exists (k, x). auto. }
      specialize (Hn Hin). split; intros r.
      * rewrite <- (vkey_norm _ s1 Hk) at 2. apply IHk; auto. lia.
      * apply IHx; auto. lia.
  - (* VStruct *)
    destruct s; try discriminate. change (wt_fields fs l = true) in Hw. rewrite schema_ok_struct in Hs.
    rewrite !andb_true_iff in Hs. destruct Hs as [[[Hs1 Hs2] Hs3] Hs4]. apply N.ltb_lt in Hs2.
    rewrite enc_struct_eq, norm_struct_eq, dec_struct_eq. rewrite <- app_assoc.
    pose proof (enc_fields_count fs l) as [Hc1 Hc2].
    unfold struct_dec. rewrite rd_maphdr_enc by lia.
    rewrite lacks_spec, len_app.
    destruct (N.ltb_spec (len (snd (enc_fields fs l)) + len rest) (fst (enc_fields fs l))); [lia|].
    rewrite mkfds_length.
    pose proof (sloop_map_rt (dec env deep d) zero fs fs [] l [] rest eq_refl Hs1 eq_refl) as Hloop.
    simpl app in Hloop. rewrite Hloop.
    + cbn [bind fst snd]. rewrite fin_slots_pres by (now apply wt_fields_length).
      rewrite req_ok_norm by exact Hw. reflexivity.
    + intros g Hg. rewrite forallb_forall in Hs3. specialize (Hs3 _ Hg).
      apply andb_true_iff in Hs3. destruct Hs3 as [Hs3 _]. apply N.ltb_lt in Hs3. lia.
    + (* per-field decoders, from the induction hypothesis *)
      rewrite norm_struct_eq in Hd. cbn [need] in Hd.
      clear Hloop Hc1 Hc2 Hs1 Hs2 Hs3 H0.
      revert fs Hw Hs4 Hd. induction H as [|v vs Hv Hvs IH]; intros fs Hw Hs4 Hd;
        destruct fs as [|[h fsch] fs]; try discriminate; constructor.
      * cbn [fst snd]. intros Eo r.
        cbn [wt_fields] in Hw. rewrite Eo in Hw. rewrite !andb_true_iff in Hw. destruct Hw as [[Hw1 _] _].
        cbn [sok_fields] in Hs4. apply andb_true_iff in Hs4. destruct Hs4 as [Hs4 _].
        apply Hv; auto. cbn [norm_fields] in Hd. rewrite Eo in Hd. simpl in Hd. lia.
      * cbn [wt_fields] in Hw. rewrite !andb_true_iff in Hw. destruct Hw as [_ Hw].
        cbn [sok_fields] in Hs4. apply andb_true_iff in Hs4. destruct Hs4 as [_ Hs4].
        apply IH; auto. cbn [norm_fields] in Hd. simpl in Hd. lia.
  - (* VRef *)
    destruct s; try discriminate. destruct (lookup env id) as [s'|] eqn:El; [|discriminate].
    cbn [enc norm dec_s]. rewrite El. cbn [norm] in Hd. rewrite El in Hd. cbn [need] in Hd.
    destruct d as [|d']; [lia|]. cbn [dec]. rewrite El.
    rewrite IHv; auto.
    + eapply lookup_ok; eauto.
    + lia.
  - (* VSome *)
    destruct s; try discriminate. apply andb_true_iff in Hw. destruct Hw as [H1 H2].
    cbn [schema_ok] in Hs. cbn [enc norm dec_s].
    pose proof (enc_head v s H1) as [_ Hh]. apply negb_true_iff in H2. specialize (Hh H2).
    destruct (E s v) as [|x t] eqn:Ee; [contradiction|]. simpl in Hh. cbn [app].
    assert (Hx : dec_s env deep (dec env deep d) zero s (x :: t ++ rest) = Ok (NM s v, rest)).
    { change (x :: t ++ rest) with ((x :: t) ++ rest). rewrite <- Ee. apply IHv; auto. }
    destruct (N.eq_dec x 192) as [->|Hne]; [contradiction|].
    destruct x as [|p]; [now rewrite Hx|].
    repeat (destruct p as [p|p|]; try (now rewrite Hx)). contradiction.
  - discriminate.
Qed.

(* ---------- corollaries ---------- *)

(* protocol.Decode of protocol.Encode, at any AllowableDepth that the value needs, with trailing bytes *)
Theorem decode_encode : forall id v d rest,
  W (SRef id) v = true -> (need (NM (SRef id) v) <= d)%nat ->
  decode env deep d id (E (SRef id) v ++ rest) = Ok (NM (SRef id) v, rest).
Proof.
  intros id v d rest Hw Hd.
  assert (Hs : schema_ok env (SRef id) = true).
  { destruct v; try discriminate. cbn [wtb] in Hw. cbn [schema_ok]. destruct (lookup env id); [reflexivity|discriminate]. }
  exact (dec_enc v (SRef id) Hw Hs d zero_val rest Hd).
Qed.

(* injective up to normal form, and prefix free *)
Theorem enc_prefix_free : forall s v1 v2 r1 r2,
  W s v1 = true -> W s v2 = true -> schema_ok env s = true ->
  E s v1 ++ r1 = E s v2 ++ r2 -> NM s v1 = NM s v2 /\ r1 = r2.
Proof.
  intros s v1 v2 r1 r2 H1 H2 Hs He.
  set (d := Nat.max (need (NM s v1)) (need (NM s v2))).
  pose proof (dec_enc v1 s H1 Hs d zero_val r1 (Nat.le_max_l _ _)) as D1.
  pose proof (dec_enc v2 s H2 Hs d zero_val r2 (Nat.le_max_r _ _)) as D2.
  rewrite He in D1. rewrite D1 in D2. inversion D2. auto.
Qed.

Theorem enc_inj : forall s v1 v2,
  W s v1 = true -> W s v2 = true -> schema_ok env s = true ->
  E s v1 = E s v2 -> NM s v1 = NM s v2.
Proof.
  intros s v1 v2 H1 H2 Hs He.
  destruct (enc_prefix_free s v1 v2 [] [] H1 H2 Hs) as [H _]; [now rewrite He|exact H].
Qed.

(* bytes that are a canonical encoding decode to a value that re-encodes to exactly these bytes *)
Theorem reencode_canonical : forall s v0 d zero rest v rest',
  W s v0 = true -> schema_ok env s = true -> (need (NM s v0) <= d)%nat ->
  dec_s env deep (dec env deep d) zero s (E s v0 ++ rest) = Ok (v, rest') ->
  E s v ++ rest' = E s v0 ++ rest /\ NM s v = v.
Proof.
  intros s v0 d zero rest v rest' Hw Hs Hd Hdec.
  rewrite (dec_enc v0 s Hw Hs d zero rest Hd) in Hdec. inversion Hdec; subst.
  split; [now rewrite enc_norm|apply norm_idem].
Qed.

End Proofs.

(* ---------- the two Go encoders ---------- *)
(* msgp (deep = false) and go-codec (deep = true, RecursiveEmptyCheck looks through pointers) can only
   differ below a non-nil pointer *)
Fixpoint ptr_free (v : value) : bool :=
  match v with
  | VSome _ => false
  | VRef v' => ptr_free v'
  | VList l | VStruct l => forallb ptr_free l
  | VMap l => forallb (fun kv : value * value => ptr_free (fst kv) && ptr_free (snd kv)) l
  | _ => true
  end.

Lemma is_zero_ptr_free env : forall v s, ptr_free v = true -> is_zero env false s v = is_zero env true s v.
Proof.
  induction v using value_ind2; intros s Hp; try reflexivity; try discriminate.
  - destruct s; try reflexivity. cbn [is_zero]. cbn [ptr_free] in Hp. rewrite forallb_forall in Hp.
    apply forallb_ext_in. rewrite Forall_forall in *. intros x Hx. apply H; auto.
  - destruct s; try reflexivity. rewrite !zero_struct_eq. cbn [ptr_free] in Hp.
    revert fs. induction H as [|v vs Hv Hvs IH]; intros fs; destruct fs as [|[h fsch] fs]; try reflexivity.
    cbn [forallb] in Hp. apply andb_true_iff in Hp. destruct Hp as [Hp1 Hp2].
    cbn [zero_fields]. rewrite IH by assumption. now rewrite Hv.
  - destruct s; try reflexivity. cbn [is_zero]. destruct (lookup env id); [|reflexivity]. now apply IHv.
Qed.

Theorem encoders_agree_ptr_free env : forall v s, ptr_free v = true -> enc env false s v = enc env true s v.
Proof.
  induction v using value_ind2; intros s Hp; try reflexivity; try discriminate.
  - destruct s; try reflexivity; cbn [enc]; f_equal; cbn [ptr_free] in Hp; rewrite forallb_forall in Hp;
      apply flat_map_ext_in; rewrite Forall_forall in *; intros x Hx; apply H; auto.
  - destruct s; try reflexivity; cbn [enc]. f_equal. cbn [ptr_free] in Hp. rewrite forallb_forall in Hp.
    apply flat_map_ext_in. rewrite Forall_forall in *. intros [k x] Hx. specialize (Hp _ Hx). simpl in Hp.
    apply andb_true_iff in Hp. destruct Hp as [Hp1 Hp2]. destruct (H _ Hx) as [Hk Hv]. simpl in Hk, Hv.
    now rewrite Hk, Hv.
  - destruct s; try reflexivity. rewrite !enc_struct_eq. cbn [ptr_free] in Hp.
    assert (Hf : enc_fields env false fs l = enc_fields env true fs l).
    { revert fs. induction H as [|v vs Hv Hvs IH]; intros fs; destruct fs as [|[h fsch] fs]; try reflexivity.
      cbn [forallb] in Hp. apply andb_true_iff in Hp. destruct Hp as [Hp1 Hp2].
      cbn [enc_fields]. rewrite IH by assumption. unfold omitted. rewrite (is_zero_ptr_free env v fsch Hp1).
      now rewrite Hv. }
    now rewrite Hf.
  - destruct s; try reflexivity. cbn [enc]. destruct (lookup env id); [|reflexivity]. now apply IHv.
Qed.

(* ... and they DO differ on a non-nil pointer to a zero value (transactions.Transaction with
   HeartbeatTxnFields = &HeartbeatTxnFields{}; replayed on the real encoders by the harness) *)
Definition wit_env : list schema :=
  [ SStruct [ (mkF [104; 98] 0 false true, SPtr (SRef 1)) ];
    SStruct [ (mkF [97] 0 false true, SUint 255) ] ].
Definition wit_val : value := VRef (VStruct [ VSome (VRef (VStruct [ VUint 0 ])) ]).

Theorem encoders_agree_refuted :
  exists env s v, env_ok env = true /\ wtb env false s v = true /\ wtb env true s v = true /\
                  enc env false s v <> enc env true s v.
Proof.
  exists wit_env, (SRef 0), wit_val. repeat split; try (vm_compute; reflexivity).
  vm_compute. discriminate.
Qed.
