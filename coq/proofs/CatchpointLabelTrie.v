(* C14 proofs, part 2: accountsUpdateBalances moves the trie from the leaves of the old state to
   the leaves of the new one -- provided no two different keys share a leaf. *)
From Coq Require Import List NArith ZArith Bool Lia ZifyN ZifyNat ZifyBool.
From Verif.model Require Import MerkleTrie MerkleTrieSpec CatchpointLabel.
From Verif.proofs Require Import MerkleTrieProofs MerkleTrieCanonProofs CatchpointLabelCompact.
Import ListNotations.
Open Scope N_scope.

(* ---------- the set-level meaning of the trie calls ---------- *)
Definition all_len (n : nat) (s : kset) : Prop := forall y, In y s -> length y = n.

Lemma len_mismatch_false n x s : all_len n s -> length x = n -> len_mismatch x s = false.
Proof.
  intros A L. destruct s as [|y s]; [reflexivity|]. cbn.
  rewrite (A y) by (left; reflexivity). rewrite L, Nat.eqb_refl. reflexivity.
Qed.

Lemma sstep_add n s x : all_len n (s_cur s) -> length x = n ->
  exists b, snd (sstep s (OAdd x)) = RBool b /\
    (forall y, In y (s_cur (fst (sstep s (OAdd x)))) <-> y = x \/ In y (s_cur s)) /\
    s_committed (fst (sstep s (OAdd x))) = s_committed s /\
    (b = false -> s_cur (fst (sstep s (OAdd x))) = s_cur s).
Proof.
  intros A L. cbn [sstep]. rewrite (len_mismatch_false n x _ A L).
  destruct (mem x (s_cur s)) eqn:E.
  - exists false. cbn [fst snd]. split; [reflexivity|]. split; [|split; reflexivity].
    intros y. split; [tauto|]. intros [->|Y]; [apply mem_in; exact E | exact Y].
  - exists true. cbn [fst snd s_cur s_committed]. split; [reflexivity|]. split; [|split; [reflexivity | discriminate]].
    intros y. cbn [In]. split; intros [Y|Y]; auto.
Qed.

Lemma sstep_del n s x : all_len n (s_cur s) -> length x = n ->
  exists b, snd (sstep s (ODel x)) = RBool b /\
    (forall y, In y (s_cur (fst (sstep s (ODel x)))) <-> In y (s_cur s) /\ y <> x) /\
    s_committed (fst (sstep s (ODel x))) = s_committed s /\
    (b = false -> s_cur (fst (sstep s (ODel x))) = s_cur s).
Proof.
  intros A L. cbn [sstep]. rewrite (len_mismatch_false n x _ A L).
  destruct (mem x (s_cur s)) eqn:E.
  - exists true. cbn [fst snd s_cur s_committed]. split; [reflexivity|]. split; [|split; [reflexivity | discriminate]].
    intros y. apply in_set_del.
  - exists false. cbn [fst snd]. split; [reflexivity|]. split; [|split; reflexivity].
    intros y. split; [|tauto]. intros Y. split; [exact Y|]. intros ->. apply mem_in in Y. congruence.
Qed.

Section Trie.
  Variables K V : Type.
  Variable keq_dec : forall a b : K, {a = b} + {a <> b}.
  Variable veqb : V -> V -> bool.
  Hypothesis veqb_eq : forall a b, veqb a b = true -> a = b.
  Variable kclass : K -> N.
  Variable leaf : K -> V -> key.
  Variable n : nat.
  Hypothesis leaf_ok : forall k v, length (leaf k v) = n /\ bytes_ok (leaf k v).

  Notation store := (store K V).
  Notation upd := (upd keq_dec).
  Notation kvlike := (kvlike kclass).
  Notation write_all := (write_all K V keq_dec).

  (* the leaves of a state *)
  Definition live (st : store) (x : key) : Prop := exists k v, st k = Some v /\ x = leaf k v.
  Definition set_is (s : kset) (st : store) : Prop := forall y, In y s <-> live st y.

  Lemma live_ext (st1 st2 : store) : (forall k, st1 k = st2 k) -> forall y, live st1 y <-> live st2 y.
  Proof. intros E y. unfold live. split; intros (k & v & A & B); exists k, v; [rewrite <- E | rewrite E]; auto. Qed.

  Lemma set_is_ext s (st1 st2 : store) : (forall k, st1 k = st2 k) -> set_is s st1 -> set_is s st2.
  Proof. intros E S y. rewrite (S y). apply live_ext. exact E. Qed.

  Lemma set_is_len s st : set_is s st -> all_len n s.
  Proof. intros S y Hy. apply S in Hy. destruct Hy as (k & v & _ & ->). apply leaf_ok. Qed.

  Lemma live_del (st : store) k ov :
    st k = Some ov ->
    (forall k2 v2, k2 <> k -> st k2 = Some v2 -> leaf k2 v2 <> leaf k ov) ->
    forall y, (live st y /\ y <> leaf k ov) <-> live (upd st k None) y.
  Proof.
    intros Hk D y. split.
    - intros [(k2 & v2 & A & ->) Hne]. exists k2, v2. split; [|reflexivity].
      rewrite upd_other; [exact A|]. intros ->. congruence.
    - intros (k2 & v2 & A & ->). destruct (keq_dec k2 k) as [->|Hne].
      + rewrite upd_same in A. discriminate.
      + rewrite upd_other in A by exact Hne. split; [exists k2, v2; auto | apply (D k2 v2 Hne A)].
  Qed.

  Lemma live_add (st : store) k nv :
    st k = None -> forall y, (y = leaf k nv \/ live st y) <-> live (upd st k (Some nv)) y.
  Proof.
    intros Hk y. split.
    - intros [->|(k2 & v2 & A & ->)].
      + exists k, nv. rewrite upd_same. auto.
      + exists k2, v2. split; [|reflexivity]. rewrite upd_other; [exact A|]. intros ->. congruence.
    - intros (k2 & v2 & A & ->). destruct (keq_dec k2 k) as [->|Hne].
      + rewrite upd_same in A. inversion A. left. reflexivity.
      + rewrite upd_other in A by exact Hne. right. exists k2, v2. auto.
  Qed.

  (* ---------- one Trie.Add / Trie.Delete call ---------- *)
  Definition tstep_post (s s' : sstate) (acc acc' : N) : Prop :=
    s_committed s' = s_committed s /\ acc <= acc' /\ (acc' = acc -> s_cur s' = s_cur s).

  Lemma trie_call_add m s x acc : Rel m s -> all_len n (s_cur s) -> length x = n -> bytes_ok x ->
    exists m' s' acc', trie_call m (OAdd x) acc = Some (m', acc') /\ Rel m' s' /\
      (forall y, In y (s_cur s') <-> y = x \/ In y (s_cur s)) /\ tstep_post s s' acc acc'.
  Proof.
    intros R A L B. destruct (step_refines m s (OAdd x) R B) as [R' E].
    destruct (sstep_add n s x A L) as (b & Eb & Hin & Hc & Hu).
    unfold trie_call. destruct (step m (OAdd x)) as [m' r]. cbn [fst snd] in *.
    rewrite E, Eb. exists m', (fst (sstep s (OAdd x))).
    destruct b; eexists; (split; [reflexivity|]); (split; [exact R'|]); (split; [exact Hin|]);
      unfold tstep_post; repeat split; auto; try lia.
  Qed.

  Lemma trie_call_del m s x acc : Rel m s -> all_len n (s_cur s) -> length x = n -> bytes_ok x ->
    exists m' s' acc', trie_call m (ODel x) acc = Some (m', acc') /\ Rel m' s' /\
      (forall y, In y (s_cur s') <-> In y (s_cur s) /\ y <> x) /\ tstep_post s s' acc acc'.
  Proof.
    intros R A L B. destruct (step_refines m s (ODel x) R B) as [R' E].
    destruct (sstep_del n s x A L) as (b & Eb & Hin & Hc & Hu).
    unfold trie_call. destruct (step m (ODel x)) as [m' r]. cbn [fst snd] in *.
    rewrite E, Eb. exists m', (fst (sstep s (ODel x))).
    destruct b; eexists; (split; [reflexivity|]); (split; [exact R'|]); (split; [exact Hin|]);
      unfold tstep_post; repeat split; auto; try lia.
  Qed.

  Lemma tstep_post_trans s s1 s2 a a1 a2 :
    tstep_post s s1 a a1 -> tstep_post s1 s2 a1 a2 -> tstep_post s s2 a a2.
  Proof.
    unfold tstep_post. intros (A1 & B1 & C1) (A2 & B2 & C2). split; [congruence|]. split; [lia|].
    intros E. assert (a1 = a) by lia. assert (a2 = a1) by lia. rewrite C2, C1; auto.
  Qed.

  Lemma tstep_post_refl s a : tstep_post s s a a.
  Proof. unfold tstep_post. repeat split; auto. lia. Qed.

  (* "nothing else that is live has the leaf that is about to be deleted" *)
  Definition del_safe (st : store) (k : K) : Prop :=
    forall ov k2 v2, st k = Some ov -> k2 <> k -> st k2 = Some v2 -> leaf k2 v2 <> leaf k ov.

  (* Delete(old leaf) / Add(new leaf) of one key *)
  Lemma del_add_ok (st : store) k nw m s acc :
    Rel m s -> set_is (s_cur s) st -> del_safe st k ->
    exists m' s' acc', del_add leaf k (st k) nw m acc = Some (m', acc') /\ Rel m' s' /\
      set_is (s_cur s') (upd st k nw) /\ tstep_post s s' acc acc'.
  Proof.
    intros R S D. unfold del_add.
    assert (Step1 : exists m1 s1 acc1,
               match st k with Some ov => trie_call m (ODel (leaf k ov)) acc | None => Some (m, acc) end
               = Some (m1, acc1) /\ Rel m1 s1 /\ set_is (s_cur s1) (upd st k None) /\ tstep_post s s1 acc acc1).
    { destruct (st k) as [ov|] eqn:Ek.
      - destruct (trie_call_del m s (leaf k ov) acc R (set_is_len _ _ S) (proj1 (leaf_ok k ov)) (proj2 (leaf_ok k ov)))
          as (m1 & s1 & acc1 & E & R1 & Hin & Post).
        exists m1, s1, acc1. split; [exact E|]. split; [exact R1|]. split; [|exact Post].
        intros y. rewrite Hin, (S y). apply (live_del st k ov Ek). intros k2 v2 Hne A. eapply D; eauto.
      - exists m, s, acc. split; [reflexivity|]. split; [exact R|]. split; [|apply tstep_post_refl].
        eapply set_is_ext; [|exact S]. intros k'.
        destruct (keq_dec k' k) as [->|Hne]; [rewrite upd_same; auto | rewrite upd_other; auto]. }
    destruct Step1 as (m1 & s1 & acc1 & -> & R1 & S1 & P1).
    destruct nw as [nv|].
    - destruct (trie_call_add m1 s1 (leaf k nv) acc1 R1 (set_is_len _ _ S1)
                  (proj1 (leaf_ok k nv)) (proj2 (leaf_ok k nv))) as (m2 & s2 & acc2 & E & R2 & Hin & P2).
      exists m2, s2, acc2. split; [exact E|]. split; [exact R2|]. split; [|eapply tstep_post_trans; eauto].
      assert (L := live_add (upd st k None) k nv (upd_same _ _ _ _ _ _)).
      intros y. rewrite Hin. rewrite (S1 y), L. apply live_ext. intros k'.
      destruct (keq_dec k' k) as [->|Hne]; [rewrite !upd_same; auto | rewrite !upd_other; auto].
    - exists m1, s1, acc1. split; [reflexivity|]. split; [exact R1|]. split; [exact S1 | exact P1].
  Qed.

  (* one compacted delta *)
  Lemma balance_one_ok (db st : store) k od nw m s acc :
    Rel m s -> set_is (s_cur s) st -> del_safe st k ->
    db k = st k -> (kvlike k = true -> od = st k) ->
    exists m' s' acc', balance_one veqb kclass leaf db (k, (od, nw)) m acc = Some (m', acc') /\ Rel m' s' /\
      set_is (s_cur s') (upd st k nw) /\ tstep_post s s' acc acc'.
  Proof.
    intros R S D Edb Eod. unfold balance_one.
    assert (Same : forall v, st k = v ->
              exists m' s' acc', Some (m, acc) = Some (m', acc') /\ Rel m' s' /\
                set_is (s_cur s') (upd st k v) /\ tstep_post s s' acc acc').
    { intros v E. exists m, s, acc. split; [reflexivity|]. split; [exact R|]. split; [|apply tstep_post_refl].
      eapply set_is_ext; [|exact S]. intros k'.
      destruct (keq_dec k' k) as [->|Hne]; [rewrite upd_same; auto | rewrite upd_other; auto]. }
    destruct (kvlike k) eqn:Ek.
    - rewrite (Eod eq_refl). clear Eod Edb.
      pose proof (del_add_ok st k nw m s acc R S D) as DA.
      destruct (st k) as [ov|] eqn:Es, nw as [nv|]; try exact DA.
      destruct (veqb ov nv) eqn:Ev; [|exact DA].
      apply veqb_eq in Ev. subst nv. apply Same. reflexivity.
    - rewrite Edb. apply del_add_ok; auto.
  Qed.

  (* all of them, in the order given *)
  Definition pv (st : store) (rest : list (cdelta K V)) (k : K) (v : V) : Prop :=
    st k = Some v \/ exists o, In (k, (o, Some v)) rest.
  Definition dist (st : store) (rest : list (cdelta K V)) : Prop :=
    forall k1 k2 v1 v2, k1 <> k2 -> pv st rest k1 v1 -> pv st rest k2 v2 -> leaf k1 v1 <> leaf k2 v2.

  Lemma balance_all_ok (db : store) : forall rest (st : store) m s acc,
    NoDup (map fst rest) ->
    (forall k o nw, In (k, (o, nw)) rest -> db k = st k /\ (kvlike k = true -> o = st k)) ->
    dist st rest -> Rel m s -> set_is (s_cur s) st ->
    exists m' s' acc', balance_all veqb kclass leaf db rest m acc = Some (m', acc') /\ Rel m' s' /\
      set_is (s_cur s') (write_all rest st) /\ tstep_post s s' acc acc'.
  Proof.
    induction rest as [|[k [od nw]] rest IH]; intros st m s acc Hn Hpre D R S.
    - exists m, s, acc. cbn. split; [reflexivity|]. split; [exact R|]. split; [exact S | apply tstep_post_refl].
    - cbn [balance_all]. cbn [map fst] in Hn. inversion Hn; subst.
      destruct (Hpre k od nw (or_introl eq_refl)) as [Edb Eod].
      assert (Ds : del_safe st k).
      { intros ov k2 v2 A Hne B. apply (D k2 k v2 ov Hne); left; assumption. }
      destruct (balance_one_ok db st k od nw m s acc R S Ds Edb Eod) as (m1 & s1 & acc1 & -> & R1 & S1 & P1).
      destruct (IH (upd st k nw) m1 s1 acc1 H2) as (m2 & s2 & acc2 & E2 & R2 & S2 & P2); auto.
      + intros k' o' n' X. assert (k' <> k).
        { intros ->. apply H1. apply in_map_iff. exists (k, (o', n')). auto. }
        rewrite upd_other by assumption. apply (Hpre k' o' n'). right. exact X.
      + intros k1 k2 v1 v2 Hne A B. apply (D k1 k2 v1 v2 Hne).
        * destruct A as [A|(o & A)]; [|right; exists o; right; exact A].
          destruct (keq_dec k1 k) as [->|Hk]; [rewrite upd_same in A; subst nw; right; exists od; left; reflexivity|].
          rewrite upd_other in A by exact Hk. left. exact A.
        * destruct B as [B|(o & B)]; [|right; exists o; right; exact B].
          destruct (keq_dec k2 k) as [->|Hk]; [rewrite upd_same in B; subst nw; right; exists od; left; reflexivity|].
          rewrite upd_other in B by exact Hk. left. exact B.
      + exists m2, s2, acc2. split; [exact E2|]. split; [exact R2|]. split; [exact S2|].
        eapply tstep_post_trans; eauto.
  Qed.

  (* ---------- accountsUpdateBalances between two states ---------- *)
  (* [c] describes the change from [sOld] to [sNew]: one entry per changed key with its new value
     (and, for KV keys, its old value); the DB still holds [sOld] *)
  Definition describes (c : list (cdelta K V)) (sOld sNew : store) : Prop :=
    NoDup (map fst c) /\
    (forall k o nw, In (k, (o, nw)) c -> nw = sNew k /\ (kvlike k = true -> o = sOld k)) /\
    (forall k, ~ In k (map fst c) -> sNew k = sOld k).

  (* no two DIFFERENT keys share a leaf, in or across the two states *)
  Definition distinct2 (sOld sNew : store) : Prop :=
    forall k1 k2 v1 v2, k1 <> k2 -> (sOld k1 = Some v1 \/ sNew k1 = Some v1) ->
      (sOld k2 = Some v2 \/ sNew k2 = Some v2) -> leaf k1 v1 <> leaf k2 v2.

  Lemma describes_write_all c sOld sNew : describes c sOld sNew -> forall k, write_all c sOld k = sNew k.
  Proof.
    intros (Hn & Hin & Hout) k. destruct (write_all_char K V keq_dec kclass c sOld Hn) as [A B].
    destruct (in_dec keq_dec k (map fst c)) as [X|X].
    - apply in_map_iff in X. destruct X as ([k' [o nw]] & E & X). cbn in E. subst k'.
      rewrite (A k o nw X). apply (Hin k o nw X).
    - rewrite (B k X). symmetry. apply Hout. exact X.
  Qed.

  Lemma balance_all_between (db sOld sNew : store) c m s :
    describes c sOld sNew -> distinct2 sOld sNew -> (forall k, db k = sOld k) ->
    Rel m s -> set_is (s_cur s) sOld ->
    exists m' s' acc', balance_all veqb kclass leaf db c m 0 = Some (m', acc') /\ Rel m' s' /\
      set_is (s_cur s') sNew /\ tstep_post s s' 0 acc'.
  Proof.
    intros Hd D Edb R S. pose proof Hd as (Hn & Hin & Hout).
    destruct (balance_all_ok db c sOld m s 0 Hn) as (m' & s' & acc' & E & R' & S' & P'); auto.
    - intros k o nw X. split; [apply Edb | apply (Hin k o nw X)].
    - intros k1 k2 v1 v2 Hne A B. apply (D k1 k2 v1 v2 Hne).
      + destruct A as [A|(o & A)]; [left; exact A | right; symmetry; apply (Hin _ _ _ A)].
      + destruct B as [B|(o & B)]; [left; exact B | right; symmetry; apply (Hin _ _ _ B)].
    - exists m', s', acc'. split; [exact E|]. split; [exact R'|]. split; [|exact P'].
      eapply set_is_ext; [|exact S']. apply describes_write_all. exact Hd.
  Qed.

  Lemma describes_by_class c sOld sNew : describes c sOld sNew -> describes (by_class kclass c) sOld sNew.
  Proof.
    intros (Hn & Hin & Hout). split; [apply by_class_nodup; exact Hn|]. split.
    - intros k o nw X. apply by_class_in in X. apply (Hin k o nw X).
    - intros k X. apply Hout. intros Y. apply X. apply in_map_iff in Y. destruct Y as (d & E & Y).
      apply in_map_iff. exists d. split; [exact E | apply by_class_in; exact Y].
  Qed.

  (* the trie after accountsUpdateBalances holds exactly the leaves of the new state, in what is
     live AND in what is committed to its pages *)
  Lemma update_balances_ok (db sOld sNew : store) c m s :
    describes c sOld sNew -> distinct2 sOld sNew -> (forall k, db k = sOld k) ->
    Rel m s -> set_is (s_cur s) sOld -> set_is (s_committed s) sOld ->
    exists m' s', update_balances veqb kclass leaf db c m = Some m' /\ Rel m' s' /\
      set_is (s_cur s') sNew /\ set_is (s_committed s') sNew.
  Proof.
    intros Hd D Edb R S Sc. unfold update_balances.
    destruct (balance_all_between db sOld sNew (by_class kclass c) m s (describes_by_class _ _ _ Hd) D Edb R S)
      as (m1 & s1 & acc & -> & R1 & S1 & (Pc & Pa & Pu)).
    destruct (0 <? acc) eqn:Ea.
    - destruct (step_refines m1 s1 OCommit R1 I) as [R2 _]. cbn [sstep fst] in R2.
      eexists _, _. split; [reflexivity|]. split; [exact R2|]. cbn. split; exact S1.
    - exists m1, s1. split; [reflexivity|]. split; [exact R1|]. split; [exact S1|].
      assert (Ez : acc = 0) by lia. rewrite Pc. intros y. rewrite (Sc y), <- (S y), <- (Pu Ez). apply S1.
  Qed.
End Trie.
