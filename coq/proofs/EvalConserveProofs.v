(* C18: conservation of Algos (with pending rewards at the current level) by Move, by every
   modelled transaction type, by a group, by the rewards withdrawal at block start, by the
   end-of-block updates, and by a whole block. *)
From Coq Require Import NArith List Bool Lia ZifyN ZifyBool.
From Verif.model Require Import Overflow EvalCow EvalApply EvalGroup EvalSpec.
From Verif.proofs Require Import OverflowProofs EvalCowProofs EvalGroupProofs.
Import ListNotations.
Open Scope N_scope.

(* ------------------------------------------------------------------ sums over a universe *)
Lemma sumf_ext f g U : (forall a, In a U -> f a = g a) -> sumf f U = sumf g U.
Proof.
  induction U as [|a r IH]; cbn [sumf]; intros H; [reflexivity|].
  rewrite (H a) by now left. rewrite IH; [reflexivity|]. intros b Hb. apply H. now right.
Qed.

(* changing the value at one point of a duplicate-free universe *)
Lemma sumf_update f g U a : NoDup U -> In a U -> (forall b, b <> a -> f b = g b) ->
  sumf g U + f a = sumf f U + g a.
Proof.
  induction U as [|u r IH]; cbn [sumf In]; intros Hnd Hin Hfg; [contradiction|].
  apply NoDup_cons_iff in Hnd. destruct Hnd as [Hu Hr].
  destruct (N.eq_dec u a) as [->|Hne].
  - assert (sumf g r = sumf f r) as ->.
    { apply sumf_ext. intros b Hb. symmetry. apply Hfg. intro. subst. contradiction. }
    lia.
  - destruct Hin as [->|Hin]; [contradiction|]. specialize (IH Hr Hin Hfg).
    rewrite (Hfg u Hne). lia.
Qed.

Lemma total_table P lvl (f : N -> acct) U :
  total P lvl (map (fun a => (a, f a)) U) = sumf (fun a => bwp P lvl (f a)) U.
Proof. induction U as [|a r IH]; cbn [map total fold_right sumf snd]; [reflexivity|]. unfold total in IH. now rewrite IH. Qed.

(* ------------------------------------------------------------------ money of one account *)
Lemma M64 : Overflow.M 64 = 2 ^ 64. Proof. reflexivity. Qed.

Lemma bwp_set_money P lvl x a b r :
  bwp P lvl (set_money x a b r) =
  match a_status x with NotPart => a | _ => a + (a / p_unit P) * (lvl - b) end.
Proof. reflexivity. Qed.

(* basics.WithUpdatedRewards when it does not panic: the balance becomes the balance with
   pending rewards, nothing is pending afterwards *)
Lemma with_rewards_ok P lvl x x1 :
  0 < p_unit P -> a_algos x < 2 ^ 64 -> a_rbase x <= lvl -> lvl < 2 ^ 64 ->
  with_rewards P lvl x = Ok x1 ->
  a_algos x1 = bwp P lvl x /\ a_algos x1 < 2 ^ 64 /\ a_rbase x1 <= lvl /\
  bwp P lvl x1 = a_algos x1 /\ a_status x1 = a_status x /\
  (a_status x <> NotPart -> a_rbase x1 = lvl).
Proof.
  intros Hu Ha Hb' Hl. assert (Hb : a_rbase x < 2 ^ 64) by lia. unfold with_rewards, bwp.
  assert (Hcase : a_status x = NotPart \/ a_status x <> NotPart) by (destruct (a_status x); auto; right; discriminate).
  destruct Hcase as [Hs|Hs].
  - rewrite Hs. intros H. inversion H. subst x1. rewrite Hs. repeat split; auto. contradiction.
  - assert (Hw : (if p_unit P =? 0 then Err E_PANIC else
                   let units := reward_units P (a_algos x) in
                   let '(delta, o1) := osub 64 lvl (a_rbase x) in
                   let '(rewards, o2) := omul 64 units delta in
                   let '(out, o3) := oadd 64 (a_algos x) rewards in
                   if o1 || o2 || o3 then Err E_PANIC
                   else Ok (set_money x out lvl ((a_rewarded x + rewards) mod 2 ^ 64))) = Ok x1 ->
                 a_algos x1 = a_algos x + a_algos x / p_unit P * (lvl - a_rbase x) /\
                 a_algos x1 < 2 ^ 64 /\ a_rbase x1 <= lvl /\
                 a_algos x1 + a_algos x1 / p_unit P * (lvl - a_rbase x1) = a_algos x1 /\
                 a_status x1 = a_status x /\ a_rbase x1 = lvl).
    { destruct (p_unit P =? 0) eqn:E0; [apply N.eqb_eq in E0; lia|].
      cbn zeta. unfold reward_units.
      assert (Hunits : a_algos x / p_unit P < 2 ^ 64).
      { eapply N.le_lt_trans; [|exact Ha]. apply N.div_le_upper_bound; [lia|]. nia. }
      pose proof (osub_exact 64 lvl (a_rbase x)) as Hsub. rewrite M64 in Hsub. specialize (Hsub Hl Hb).
      destruct (osub 64 lvl (a_rbase x)) as [delta o1]. cbn [fst snd] in Hsub.
      destruct o1.
      { destruct (omul 64 (a_algos x / p_unit P) delta) as [rw o2]. destruct (oadd 64 (a_algos x) rw) as [out o3].
        cbn [orb]. intros H; discriminate. }
      destruct Hsub as [_ Hsub]. destruct (Hsub eq_refl) as [Hd Hle].
      assert (Hdl : delta < 2 ^ 64) by lia.
      pose proof (omul_exact 64 (a_algos x / p_unit P) delta) as Hmul. rewrite M64 in Hmul. specialize (Hmul Hunits Hdl).
      destruct (omul 64 (a_algos x / p_unit P) delta) as [rewards o2]. cbn [fst snd] in Hmul.
      destruct o2.
      { destruct (oadd 64 (a_algos x) rewards) as [out o3]. cbn [orb]. intros H; discriminate. }
      destruct Hmul as (Hm1 & Hm2 & _). specialize (Hm2 eq_refl).
      assert (Hrl : rewards < 2 ^ 64).
      { destruct (N.lt_ge_cases rewards (2 ^ 64)) as [|Hge]; [assumption|]. rewrite Hm2 in Hge. apply Hm1 in Hge. discriminate. }
      pose proof (oadd_exact 64 (a_algos x) rewards) as Hadd. rewrite M64 in Hadd. specialize (Hadd Ha Hrl).
      destruct (oadd 64 (a_algos x) rewards) as [out o3]. cbn [fst snd] in Hadd.
      destruct o3; [cbn [orb]; intros H; discriminate|]. cbn [orb]. destruct Hadd as [Ha1 Ha2]. specialize (Ha2 eq_refl).
      assert (Hol : out < 2 ^ 64).
      { destruct (N.lt_ge_cases out (2 ^ 64)) as [|Hge]; [assumption|]. rewrite Ha2 in Hge. apply Ha1 in Hge. discriminate. }
      intros H. inversion H. subst x1. cbn [set_money a_algos a_rbase a_status].
      rewrite N.sub_diag, N.mul_0_r, N.add_0_r. subst. repeat split; auto. lia. }
    destruct (a_status x) eqn:Hst; try contradiction; intros H; destruct (Hw H) as (H1 & H2 & H3 & H4 & H5 & H6);
      rewrite H5; repeat split; auto.
Qed.

Lemma auto_heartbeat_money E b x :
  a_algos (auto_heartbeat E b x) = a_algos x /\ a_rbase (auto_heartbeat E b x) = a_rbase x /\
  a_status (auto_heartbeat E b x) = a_status x.
Proof.
  unfold auto_heartbeat. destruct (negb _); [auto|].
  destruct (omul 64 (a_algos b) 2) as [t o]. destruct (negb o && _); auto.
Qed.

Lemma bwp_same P lvl x y :
  a_algos x = a_algos y -> a_rbase x = a_rbase y -> a_status x = a_status y -> bwp P lvl x = bwp P lvl y.
Proof. intros H1 H2 H3. unfold bwp. now rewrite H1, H2, H3. Qed.

(* ------------------------------------------------------------------ asset operations leave accounts alone *)
Definition same_view (c c' : cow) : Prop := forall b, lookup c' b = lookup c b.
Lemma same_view_refl c : same_view c c. Proof. intro; reflexivity. Qed.
Lemma same_view_trans a b c : same_view a b -> same_view b c -> same_view a c.
Proof. intros H1 H2 x. now rewrite H2, H1. Qed.
Lemma sv_ph c a i d : same_view c (put_holding_delta c a i d). Proof. intro; reflexivity. Qed.
Lemma sv_pp c a i d : same_view c (put_params_delta c a i d). Proof. intro; reflexivity. Qed.
Lemma sv_cr c i v : same_view c (set_creatable c i v). Proof. intro; reflexivity. Qed.

Lemma sv_aux c l' : aux_eq (c_top c) l' -> same_view c (set_top c l').
Proof. intros (H & _) b. unfold lookup, set_top. cbn [c_top c_parents c_base layers_lookup]. now rewrite H. Qed.

Ltac sv_side := first [exact same_view_refl | exact same_view_trans | exact sv_ph | exact sv_pp | exact sv_cr | exact sv_aux].

Lemma allocate_app_view a i g sp c : same_view c (fst (allocate_app a i g sp c)).
Proof. apply (keeps_allocate_app same_view); sv_side. Qed.
Lemma deallocate_app_view a i g c : same_view c (fst (deallocate_app a i g c)).
Proof. apply (keeps_deallocate_app same_view); sv_side. Qed.
Lemma set_key_view a i g k b c : same_view c (fst (set_key a i g k b c)).
Proof. apply (keeps_set_key same_view); sv_side. Qed.
Lemma del_key_view a i g k c : same_view c (fst (del_key a i g k c)).
Proof. apply (keeps_del_key same_view); sv_side. Qed.
Lemma length_checks_view E nl sz c : same_view c (fst (length_checks E nl sz c)).
Proof. apply (keeps_length_checks same_view); sv_side. Qed.

Lemma asset_params_view i c : same_view c (fst (asset_params i c)).
Proof. apply (keeps_asset_params same_view same_view_refl same_view_trans). Qed.
Lemma take_out_view a i amt bp c : same_view c (fst (take_out a i amt bp c)).
Proof. apply (keeps_take_out same_view same_view_refl same_view_trans sv_ph). Qed.
Lemma put_in_view a i amt bp c : same_view c (fst (put_in a i amt bp c)).
Proof. apply (keeps_put_in same_view same_view_refl same_view_trans sv_ph). Qed.
Lemma asset_freeze_view s i acct fr c : same_view c (fst (asset_freeze s i acct fr c)).
Proof. apply (keeps_asset_freeze same_view same_view_refl same_view_trans sv_ph). Qed.
Lemma some_or_fail_ok {A} (o : option A) c c' a : some_or_fail o c = (c', Ok a) -> c' = c /\ o = Some a.
Proof. destruct o; cbn [some_or_fail]; unfold ret, fail; intros H; inversion H; auto. Qed.

Lemma res_eq_dec (r : res bool) : r = Ok true \/ r <> Ok true.
Proof. destruct r as [[|]|e]; [left; reflexivity | right; discriminate | right; discriminate]. Qed.

(* ------------------------------------------------------------------ the invariant *)
Section Conserve.
  Variable E : env.
  Let P := e_P E.
  Let lvl := e_lvl E.
  Hypothesis Hunit : 0 < p_unit P.
  Hypothesis Hlvl : lvl < 2 ^ 64.
  Variable U : list N.
  Hypothesis HU : NoDup U.

  Definition tot (c : cow) : N := tot_at P lvl U c.
  Definition wfc (c : cow) : Prop := wf_cow lvl c.
  Definition Inv (T : N) (c : cow) : Prop := wfc c /\ tot c = T.
  (* nothing pending: the stored balance is the balance with rewards *)
  Definition settled (c : cow) (a : N) : Prop := bwp P lvl (lookup c a) = a_algos (lookup c a).

  Lemma Inv_ext T c c' : (forall a, lookup c' a = lookup c a) -> Inv T c -> Inv T c'.
  Proof.
    intros H [Hw Ht]. split.
    - intro a. rewrite H. apply Hw.
    - rewrite <- Ht. apply sumf_ext. intros a _. now rewrite H.
  Qed.

  Lemma wfc_put c a x : wfc c -> a_algos x < 2 ^ 64 -> a_rbase x <= lvl -> wfc (put c a x).
  Proof.
    intros Hw H1 H2 b. destruct (N.eq_dec a b) as [->|Hne].
    - now rewrite lookup_put_same.
    - rewrite lookup_put_other by exact Hne. apply Hw.
  Qed.

  Lemma tot_put c a x : In a U -> tot (put c a x) + bwp P lvl (lookup c a) = tot c + bwp P lvl x.
  Proof.
    intros Hin. unfold tot.
    pose proof (sumf_update (fun b => bwp P lvl (lookup c b)) (fun b => bwp P lvl (lookup (put c a x) b)) U a HU Hin) as H.
    cbv beta in H. rewrite lookup_put_same in H. apply H. intros b Hb. now rewrite lookup_put_other by auto.
  Qed.

  (* a write that does not change the money of the account *)
  Lemma Inv_put_same T c a x : In a U -> Inv T c ->
    a_algos x = a_algos (lookup c a) -> a_rbase x = a_rbase (lookup c a) ->
    bwp P lvl x = bwp P lvl (lookup c a) -> Inv T (put c a x).
  Proof.
    intros Hin [Hw Ht] H1 H2 H3. split.
    - apply wfc_put; auto; [rewrite H1|rewrite H2]; apply Hw.
    - pose proof (tot_put c a x Hin). lia.
  Qed.

  (* the same for an account that need not be in the universe *)
  Lemma Inv_put_same_any T c a x : Inv T c ->
    a_algos x = a_algos (lookup c a) -> a_rbase x = a_rbase (lookup c a) ->
    bwp P lvl x = bwp P lvl (lookup c a) -> Inv T (put c a x).
  Proof.
    intros HI H1 H2 H3. destruct (in_dec N.eq_dec a U) as [Hin|Hnin]; [now apply Inv_put_same|].
    destruct HI as [Hw Ht]. split.
    - apply wfc_put; auto; [rewrite H1|rewrite H2]; apply Hw.
    - rewrite <- Ht. apply sumf_ext. intros b Hb. rewrite lookup_put_other; [reflexivity|]. intro. subst. contradiction.
  Qed.

  Lemma Inv_view T c c' : same_view c c' -> Inv T c -> Inv T c'.
  Proof. intros H. apply Inv_ext. exact H. Qed.

  (* a counter-only update of the record just read *)
  Lemma Inv_put_counts T c a ap ast : Inv T c -> Inv T (put c a (set_asset_counts (lookup c a) ap ast)).
  Proof. intros HI. apply Inv_put_same_any; auto. Qed.

  Tactic Notation "mstep" hyp(H) "as" ident(c) ident(v) ident(H1) :=
    apply bind_ok in H; destruct H as (c & v & H1 & H).
  Ltac mlook H := unfold m_lookup in H; inversion H; subst; clear H.
  Ltac mguard H := apply guard_ok in H; destruct H as [? ->].

  (* ---------------------------------------------------------------- Move *)
  Lemma move_side_spec debit a amt r c c' r' :
    amt < 2 ^ 64 -> In a U -> wfc c ->
    move_side E debit a amt r c = (c', Ok r') ->
    wfc c' /\ (forall b, b <> a -> lookup c' b = lookup c b) /\ settled c' a /\
    a_status (lookup c' a) = a_status (lookup c a) /\
    (if debit then tot c' + amt = tot c else tot c' = tot c + amt).
  Proof.
    intros Hamt Hin Hw H. unfold move_side in H.
    mstep H as c1 bal Hl. mlook Hl.
    mstep H as c2 new Hn. unfold lift in Hn. inversion Hn as [[Hc Hnew]]. subst c2. clear Hn.
    mstep H as c3 rr Hr. unfold lift in Hr. inversion Hr as [[Hc Hrr]]. subst c3. clear Hr Hrr.
    mstep H as c4 uu Hwr. unfold ret in H. inversion H. subst c4 r'. clear H.
    destruct (Hw a) as [Ha Hb].
    fold P lvl in Hnew.
    destruct (with_rewards_ok P lvl _ _ Hunit Ha Hb Hlvl Hnew) as (N1 & N2 & N3 & N4 & N5 & N6).
    apply when_ok in Hwr. destruct Hwr as [[Hmw H0]|[Hmw ->]].
    - (* written *)
      set (bal := lookup c1 a) in *.
      assert (Hv : exists v, c' = put c1 a (auto_heartbeat E bal (set_algos new v)) /\ v < 2 ^ 64 /\
                             (if debit then v + amt = a_algos new else v = a_algos new + amt)).
      { destruct debit.
        - pose proof (osub_exact 64 (a_algos new) amt) as Hs. rewrite M64 in Hs. specialize (Hs N2 Hamt).
          destruct (osub 64 (a_algos new) amt) as [v o]. cbn [fst snd] in Hs. destruct o; [discriminate|].
          destruct Hs as [_ Hs]. destruct (Hs eq_refl) as [Hv Hle]. unfold m_put in H0. inversion H0.
          exists v. repeat split; auto; lia.
        - pose proof (oadd_exact 64 (a_algos new) amt) as Hs. rewrite M64 in Hs. specialize (Hs N2 Hamt).
          destruct (oadd 64 (a_algos new) amt) as [v o]. cbn [fst snd] in Hs. destruct o; [discriminate|].
          destruct Hs as [Hs1 Hs]. specialize (Hs eq_refl). unfold m_put in H0. inversion H0.
          exists v. repeat split; auto.
          destruct (N.lt_ge_cases v (2 ^ 64)) as [|Hge]; [assumption|]. rewrite Hs in Hge. apply Hs1 in Hge. discriminate. }
      destruct Hv as (v & -> & Hvl & Hveq).
      destruct (auto_heartbeat_money E bal (set_algos new v)) as (A1 & A2 & A3).
      set (x2 := auto_heartbeat E bal (set_algos new v)) in *.
      cbn [set_algos set_money a_algos a_rbase a_status] in A1, A2, A3.
      assert (Hbx : bwp P lvl x2 = v).
      { unfold bwp. rewrite A1, A2, A3. destruct (a_status new) eqn:Hs; auto;
          rewrite N6 by (rewrite <- N5; discriminate); rewrite N.sub_diag, N.mul_0_r; lia. }
      split; [apply wfc_put; auto; [now rewrite A1|now rewrite A2]|].
      split; [intros b Hb'; now apply lookup_put_other; auto|].
      split; [unfold settled; rewrite lookup_put_same, Hbx; now rewrite A1|].
      split; [rewrite lookup_put_same, A3; exact N5|].
      pose proof (tot_put c1 a x2 Hin) as Ht. fold bal in Ht. rewrite Hbx in Ht. rewrite <- N1 in Ht.
      destruct debit; lia.
    - (* skipped: nothing to move, nothing pending *)
      unfold must_write in Hmw. apply orb_false_iff in Hmw. destruct Hmw as [Hmw _].
      apply orb_false_iff in Hmw. destruct Hmw as [Hz Hun].
      apply negb_false_iff, N.eqb_eq in Hz. apply N.ltb_ge in Hun. unfold reward_units in Hun. fold P in Hun.
      assert (Hu0 : a_algos (lookup c1 a) / p_unit P = 0) by (now apply N.le_0_r).
      split; [assumption|]. split; [auto|].
      split; [unfold settled, bwp; destruct (a_status (lookup c1 a)); auto; rewrite Hu0; lia|].
      split; [reflexivity|]. subst amt. destruct debit; lia.
  Qed.

  (* move_conserves *)
  Lemma move_spec from to amt fr tr c c' r T :
    amt < 2 ^ 64 -> In from U -> In to U -> Inv T c ->
    move E from to amt fr tr c = (c', Ok r) ->
    Inv T c' /\ settled c' from /\ settled c' to /\
    a_status (lookup c' from) = a_status (lookup c from) /\
    (forall b, b <> from -> b <> to -> lookup c' b = lookup c b).
  Proof.
    intros Hamt Hf Ht [Hw HT] H. unfold move in H.
    mstep H as c1 r1 H1. mstep H as c2 r2 H2. unfold ret in H. inversion H. subst c2. clear H.
    destruct (move_side_spec _ _ _ _ _ _ _ Hamt Hf Hw H1) as (W1 & F1 & S1 & St1 & T1).
    destruct (move_side_spec _ _ _ _ _ _ _ Hamt Ht W1 H2) as (W2 & F2 & S2 & St2 & T2).
    cbn iota in T1, T2.
    split; [split; [assumption|lia]|].
    split.
    { destruct (N.eq_dec from to) as [->|Hne]; [assumption|].
      unfold settled in *. rewrite F2 by auto. exact S1. }
    split; [assumption|].
    split.
    { destruct (N.eq_dec from to) as [->|Hne]; [congruence|]. rewrite F2 by auto. exact St1. }
    intros b Hb1 Hb2. rewrite F2, F1; auto.
  Qed.

  (* ---------------------------------------------------------------- takeFee, Rekey *)
  Lemma take_fee_spec tx ad c c' ad' T :
    t_fee tx < 2 ^ 64 -> In (t_sender tx) U -> In (e_feesink E) U -> Inv T c ->
    take_fee E tx ad c = (c', Ok ad') ->
    Inv T c' /\ settled c' (t_sender tx) /\
    a_status (lookup c' (t_sender tx)) = a_status (lookup c (t_sender tx)).
  Proof.
    intros Hfee Hs Hk HI H. unfold take_fee in H.
    mstep H as c1 r1 H1. mstep H as c2 u2 H2. unfold ret in H. inversion H. subst c2. clear H.
    destruct (move_spec _ _ _ _ _ _ _ _ _ Hfee Hs Hk HI H1) as (I1 & S1 & _ & St & _).
    apply when_ok in H2. destruct H2 as [[_ H2]|[_ ->]]; [|auto].
    unfold m_addfee in H2. inversion H2. subst c'.
    split; [eapply Inv_ext; [|exact I1]; intro; apply lookup_addfee|].
    split; [exact S1 | exact St].
  Qed.

  Lemma rekey_spec tx c c' u T :
    In (t_sender tx) U -> Inv T c -> settled c (t_sender tx) ->
    rekey tx c = (c', Ok u) ->
    Inv T c' /\ settled c' (t_sender tx) /\
    a_status (lookup c' (t_sender tx)) = a_status (lookup c (t_sender tx)).
  Proof.
    intros Hs HI Hset H. unfold rekey in H.
    apply when_ok in H. destruct H as [[_ H]|[_ ->]]; [|auto].
    mstep H as c1 x Hl. mlook Hl.
    unfold m_put in H. inversion H. subst c'. clear H.
    split; [apply Inv_put_same; auto|].
    unfold settled. rewrite lookup_put_same. split; [exact Hset | reflexivity].
  Qed.

  (* ---------------------------------------------------------------- Payment *)
  Definition pay_addrs (sender rcv amt closeto : N) : Prop :=
    In sender U /\ (amt <> 0 \/ rcv <> 0 -> In rcv U) /\ (closeto <> 0 -> In closeto U).

  Lemma get_rewarded_spec a c c' x :
    wfc c -> get_rewarded E a c = (c', Ok x) ->
    c' = c /\ a_algos x = bwp P lvl (lookup c a) /\ a_algos x < 2 ^ 64.
  Proof.
    intros Hw H. unfold get_rewarded in H. mstep H as c1 y Hl. mlook Hl.
    unfold lift in H. inversion H as [[Hc Hx]]. subst c'.
    destruct (Hw a) as [Ha Hb]. fold P lvl in Hx.
    destruct (with_rewards_ok P lvl _ _ Hunit Ha Hb Hlvl Hx) as (N1 & N2 & _). auto.
  Qed.

  Lemma payment_spec sender rcv amt closeto ad c c' ad' T :
    amt < 2 ^ 64 -> pay_addrs sender rcv amt closeto -> Inv T c ->
    payment E sender rcv amt closeto ad c = (c', Ok ad') -> Inv T c'.
  Proof.
    intros Hamt (Hs & Hr & Hc) HI H. unfold payment in H.
    mstep H as c1 ad1 H1.
    assert (I1 : Inv T c1).
    { destruct (negb (amt =? 0) || negb (rcv =? 0)) eqn:Hcond.
      - mstep H1 as c0 r0 Hm. unfold ret in H1. inversion H1. subst c0.
        assert (Hin : In rcv U).
        { apply Hr. apply orb_true_iff in Hcond. destruct Hcond as [Hc1|Hc1]; apply negb_true_iff, N.eqb_neq in Hc1; auto. }
        now destruct (move_spec _ _ _ _ _ _ _ _ _ Hamt Hs Hin HI Hm).
      - unfold ret in H1. inversion H1. now subst. }
    clear H1. destruct (closeto =? 0) eqn:Hcl.
    - unfold ret in H. inversion H. now subst.
    - apply N.eqb_neq in Hcl. specialize (Hc Hcl).
      mstep H as c2 rec Hg. destruct I1 as [W1 T1].
      destruct (get_rewarded_spec _ _ _ _ W1 Hg) as (-> & Hrec & Hrl). clear Hg.
      mstep H as c3 r3 Hm. mstep H as c4 rec2 Hg2.
      destruct (move_spec _ _ _ _ _ _ _ _ _ Hrl Hs Hc (conj W1 T1) Hm) as ([W2 T2] & _).
      destruct (get_rewarded_spec _ _ _ _ W2 Hg2) as (-> & Hrec2 & _). clear Hg2.
      mstep H as c5 u5 G1. apply guard_ok in G1. destruct G1 as [Hz ->]. apply N.eqb_eq in Hz.
      mstep H as c6 u6 G2. mguard G2. mstep H as c7 u7 G3. mguard G3. mstep H as c8 u8 G4. mguard G4.
      mstep H as c9 u9 G5. mguard G5. mstep H as c10 u10 G6. mguard G6. mstep H as c11 u11 G7. mguard G7.
      mstep H as c12 u12 Hp. unfold m_put in Hp. inversion Hp. subst c12. unfold ret in H. inversion H. subst c'.
      split.
      + apply wfc_put; auto; cbn; lia.
      + pose proof (tot_put c3 sender acct0 Hs) as Ht. rewrite <- Hrec2, Hz in Ht.
        change (bwp P lvl acct0) with 0 in Ht. lia.
  Qed.

  (* ---------------------------------------------------------------- Keyreg *)
  Lemma keyreg_spec sender fee vpk spk sppk vf vl vkd np c c' u T :
    In sender U -> Inv T c -> settled c sender ->
    keyreg E sender fee vpk spk sppk vf vl vkd np c = (c', Ok u) -> Inv T c'.
  Proof.
    intros Hs HI Hset H. unfold keyreg in H.
    mstep H as c1 record Hl. mlook Hl.
    mstep H as c2 u2 G. apply guard_ok in G. destruct G as [Hnp ->]. apply negb_true_iff in Hnp.
    assert (Hput : forall st el hb a b c2 d e f,
               Inv T (put c1 sender (set_part (lookup c1 sender) st el hb a b c2 d e f))).
    { intros. destruct HI as [Hw HT]. split.
      - apply wfc_put; auto; cbn [set_part a_algos a_rbase]; apply Hw.
      - pose proof (tot_put c1 sender (set_part (lookup c1 sender) st el hb a b c2 d e f) Hs) as Ht.
        assert (Hb : bwp P lvl (set_part (lookup c1 sender) st el hb a b c2 d e f) = bwp P lvl (lookup c1 sender)).
        { unfold settled in Hset. rewrite Hset. unfold bwp in *. cbn [set_part a_status a_algos a_rbase].
          destruct (a_status (lookup c1 sender)); try discriminate; destruct st; lia. }
        lia. }
    destruct ((vpk =? 0) || (spk =? 0)).
    - mstep H as c3 st Hst. unfold m_put in H. inversion H. subst c'.
      assert (c3 = c1) as ->.
      { destruct np; [destruct (p_nonpart (e_P E))|]; unfold ret, fail in Hst; now inversion Hst. }
      apply Hput.
    - mstep H as c3 u3 G1. mguard G1. mstep H as c4 u4 G2. mguard G2.
      unfold m_put in H. inversion H. subst c'. apply Hput.
  Qed.

  (* ---------------------------------------------------------------- assets *)
  Ltac viewstep Hm lem :=
    let K := fresh "K" in pose proof lem as K; rewrite Hm in K; cbn [fst] in K.

  Lemma m_del_holding_ok a i c c' u : m_del_holding a i c = (c', Ok u) -> same_view c c'.
  Proof. unfold m_del_holding. destruct (in_mods c a); intros H; inversion H; intro; reflexivity. Qed.
  Lemma m_del_params_ok a i c c' u : m_del_params a i c = (c', Ok u) -> same_view c c'.
  Proof. unfold m_del_params. destruct (in_mods c a); intros H; inversion H; intro; reflexivity. Qed.

  Lemma asset_config_spec sender asset cp ctr c c' u T :
    Inv T c -> asset_config E sender asset cp ctr c = (c', Ok u) -> Inv T c'.
  Proof.
    intros HI H. unfold asset_config in H. destruct (asset =? 0).
    - mstep H as c1 record Hl. mlook Hl.
      mstep H as c2 present Hp. unfold m_get_params in Hp. inversion Hp. subst c2 present. clear Hp.
      mstep H as c3 u3 G1. mguard G1. mstep H as c4 u4 G2. mguard G2.
      mstep H as c5 u5 Hput. unfold m_put in Hput. inversion Hput. subst c5. clear Hput.
      mstep H as c6 u6 H6. unfold m_put_params in H6. inversion H6. subst c6. clear H6.
      mstep H as c7 u7 H7. unfold m_put_holding in H7. inversion H7. subst c7. clear H7.
      unfold m_set_creatable in H. inversion H. subst c'. clear H.
      eapply Inv_view; [|apply Inv_put_counts; exact HI].
      intro b. reflexivity.
    - mstep H as c1 pc Hap. viewstep Hap (asset_params_view asset c). destruct pc as [params creator].
      mstep H as c2 u2 G1. mguard G1.
      assert (I1 : Inv T c1) by (eapply Inv_view; eauto).
      destruct (ap_is_zero cp).
      + mstep H as c3 record Hl. mlook Hl.
        mstep H as c4 u4 G2. mguard G2. mstep H as c5 u5 G3. mguard G3.
        mstep H as c6 h Hh. unfold m_get_holding in Hh. inversion Hh. subst c6 h. clear Hh.
        mstep H as c7 u7 G4. mguard G4.
        mstep H as c8 u8 Hput. unfold m_put in Hput. inversion Hput. subst c8. clear Hput.
        mstep H as c9 u9 H9. unfold m_set_creatable in H9. inversion H9. subst c9. clear H9.
        mstep H as c10 u10 H10. apply m_del_holding_ok in H10. apply m_del_params_ok in H.
        eapply Inv_view; [exact H|]. eapply Inv_view; [exact H10|].
        eapply Inv_view; [|apply Inv_put_counts; exact I1]. intro b. reflexivity.
      + unfold m_put_params in H. inversion H. subst c'. eapply Inv_view; [|exact I1]. intro b. reflexivity.
  Qed.

  Lemma asset_freeze_spec sender asset acct fr c c' u T :
    Inv T c -> asset_freeze sender asset acct fr c = (c', Ok u) -> Inv T c'.
  Proof.
    intros HI H. viewstep H (asset_freeze_view sender asset acct fr c). eapply Inv_view; eauto.
  Qed.

  Lemma asset_transfer_spec sender asset amt asender rcv closeto c c' u T :
    Inv T c -> asset_transfer E sender asset amt asender rcv closeto c = (c', Ok u) -> Inv T c'.
  Proof.
    intros HI H. unfold asset_transfer in H.
    mstep H as c1 sc Hsc.
    assert (I1 : Inv T c1).
    { destruct (asender =? 0).
      - unfold ret in Hsc. inversion Hsc. now subst.
      - mstep Hsc as k1 pc Hap. viewstep Hap (asset_params_view asset c).
        mstep Hsc as k2 u2 G. mguard G. unfold ret in Hsc. inversion Hsc. subst c1. eapply Inv_view; eauto. }
    destruct sc as [source clawback].
    mstep H as c2 u2 Hopt.
    assert (I2 : Inv T c2).
    { apply when_ok in Hopt. destruct Hopt as [[_ Hopt]|[_ ->]]; [|assumption].
      mstep Hopt as k1 h Hh. unfold m_get_holding in Hh. inversion Hh. subst k1 h. clear Hh.
      destruct (get_holding c1 source asset).
      - unfold ret in Hopt. inversion Hopt. now subst.
      - mstep Hopt as k2 pc Hap. viewstep Hap (asset_params_view asset c1).
        assert (Ik : Inv T k2) by (eapply Inv_view; eauto).
        mstep Hopt as k3 record Hl. mlook Hl.
        mstep Hopt as k4 u4 G. mguard G.
        mstep Hopt as k5 u5 Hput. unfold m_put in Hput. inversion Hput. subst k5. clear Hput.
        unfold m_put_holding in Hopt. inversion Hopt. subst c2.
        eapply Inv_view; [|apply Inv_put_counts; exact Ik]. intro b. reflexivity. }
    mstep H as c3 u3 Hto. viewstep Hto (take_out_view source asset amt clawback c2).
    mstep H as c4 u4 Hpi. viewstep Hpi (put_in_view rcv asset amt clawback c3).
    assert (I4 : Inv T c4) by (eapply Inv_view; [exact K0|]; eapply Inv_view; eauto).
    destruct (closeto =? 0).
    - unfold ret in H. inversion H. now subst.
    - mstep H as c5 u5 G1. mguard G1.
      mstep H as c6 record Hl. mlook Hl.
      mstep H as c7 u7 G2. mguard G2.
      mstep H as c8 own Ho. unfold m_get_params in Ho. inversion Ho. subst c8 own. clear Ho.
      mstep H as c9 u9 G3. mguard G3.
      mstep H as c10 h Hh. unfold m_get_holding in Hh. inversion Hh. subst c10 h. clear Hh.
      mstep H as c11 hh Hs. apply some_or_fail_ok in Hs. destruct Hs as [-> Hs].
      mstep H as c12 dst Hd. unfold m_get_params in Hd. inversion Hd. subst c12 dst. clear Hd.
      mstep H as c13 u13 Hto2.
      match type of Hto2 with take_out ?a ?i ?m ?b ?c = _ => viewstep Hto2 (take_out_view a i m b c) end.
      mstep H as c14 u14 Hpi2.
      match type of Hpi2 with put_in ?a ?i ?m ?b ?c = _ => viewstep Hpi2 (put_in_view a i m b c) end.
      mstep H as c15 h2 Hh2. unfold m_get_holding in Hh2. inversion Hh2. subst c15 h2. clear Hh2.
      mstep H as c16 u16 G4. mguard G4.
      mstep H as c17 u17 Hput. unfold m_put in Hput. inversion Hput. subst c17. clear Hput.
      apply m_del_holding_ok in H. eapply Inv_view; [exact H|].
      assert (I14 : Inv T c14) by (eapply Inv_view; [exact K2|]; eapply Inv_view; eauto).
      assert (Hrec : lookup c6 source = lookup c14 source) by (now rewrite K2, K1).
      rewrite Hrec. apply Inv_put_counts. exact I14.
  Qed.

  (* ---------------------------------------------------------------- applications *)
  Lemma viewed {A} (m : M A) c c' r T :
    same_view c (fst (m c)) -> m c = (c', r) -> Inv T c -> Inv T c'.
  Proof. intros Hv Hm. rewrite Hm in Hv. cbn [fst] in Hv. now apply Inv_view. Qed.

  (* a write that only changes resource counters of the record just read *)
  Lemma Inv_put_record T c a x : Inv T c ->
    a_algos x = a_algos (lookup c a) -> a_rbase x = a_rbase (lookup c a) -> a_status x = a_status (lookup c a) ->
    Inv T (put c a x).
  Proof. intros HI H1 H2 H3. apply Inv_put_same_any; auto. now apply bwp_same. Qed.

  Ltac inv_put HI :=
    match goal with
    | |- Inv ?T ?big =>
      match big with
      | context [put ?c ?a ?x] =>
        apply (Inv_view T (put c a x)); [intro; reflexivity | apply Inv_put_record; [exact HI | reflexivity ..]]
      end
    end.

  Lemma new_box_spec app n nl sz c c' u T : Inv T c -> new_box E app n nl sz c = (c', Ok u) -> Inv T c'.
  Proof.
    intros HI H. unfold new_box in H.
    mstep H as c1 u1 G1. mguard G1. mstep H as c2 u2 G2. mguard G2. mstep H as c3 u3 G3. mguard G3.
    mstep H as c4 ex Hb. unfold m_get_box in Hb. inversion Hb. subst c4 ex. clear Hb.
    mstep H as c5 u5 G4. mguard G4.
    mstep H as c6 record Hl. mlook Hl.
    mstep H as c7 u7 Hp. unfold m_put in Hp. inversion Hp. subst c7. clear Hp.
    unfold m_put_box in H. inversion H. subst c'. inv_put HI.
  Qed.

  Lemma del_box_spec app n nl c c' r T : Inv T c -> del_box app n nl c = (c', Ok r) -> Inv T c'.
  Proof.
    intros HI H. unfold del_box in H.
    mstep H as c1 ex Hb. unfold m_get_box in Hb. inversion Hb. subst c1 ex. clear Hb.
    destruct (get_box c app n).
    - mstep H as c2 record Hl. mlook Hl.
      mstep H as c3 u3 Hp. unfold m_put in Hp. inversion Hp. subst c3. clear Hp.
      mstep H as c4 u4 Hq. unfold m_put_box in Hq. inversion Hq. subst c4. clear Hq.
      unfold ret in H. inversion H. subst c'. inv_put HI.
    - unfold ret in H. inversion H. now subst.
  Qed.

  Definition sbody_ok (sender : N) (b : sbody) : Prop :=
    match b with
    | SPay rcv amt closeto => amt < 2 ^ 64 /\ pay_addrs sender rcv amt closeto
    | _ => True
    end.

  Lemma apply_sbody_spec sender b ad ctr c c' ad' T :
    sbody_ok sender b -> Inv T c -> apply_sbody E sender b ad ctr c = (c', Ok ad') -> Inv T c'.
  Proof.
    intros Hok HI H. unfold apply_sbody in H. destruct b.
    - destruct Hok as [Hamt Hp]. eapply payment_spec; [exact Hamt|exact Hp|exact HI|exact H].
    - mstep H as c3 u3 H3. unfold ret in H. inversion H. subst c'. eapply asset_config_spec; eauto.
    - mstep H as c3 u3 H3. unfold ret in H. inversion H. subst c'. eapply asset_transfer_spec; eauto.
    - mstep H as c3 u3 H3. unfold ret in H. inversion H. subst c'. eapply asset_freeze_spec; eauto.
  Qed.

  (* an inner transaction: the application account pays the fee to the sink, then the body *)
  Definition inner_ok (app : N) (e : N * sbody) : Prop :=
    fst e < 2 ^ 64 /\ In (app_addr app) U /\ In (e_feesink E) U /\ sbody_ok (app_addr app) (snd e).

  Lemma perform_spec app fee b c c' u T :
    inner_ok app (fee, b) -> Inv T c -> perform E app fee b c = (c', Ok u) -> Inv T c'.
  Proof.
    intros (Hfee & Happ & Hsink & Hb) HI H. cbn [fst snd] in Hfee, Hb. unfold perform in H.
    mstep H as c1 ad H1.
    destruct (take_fee_spec (mkTxn (app_addr app) fee 0 0 0 true true (app_addr app) 0 0 0 0 BOther) _ _ _ _ _ Hfee Happ Hsink HI H1) as (I1 & _).
    mstep H as c2 u2 Hi. unfold m_inctxn in Hi. inversion Hi. subst c2. clear Hi.
    mstep H as c3 ctr Hct. unfold m_counter in Hct. inversion Hct. subst c3 ctr. clear Hct.
    mstep H as c4 ad4 Hbody. unfold ret in H. inversion H. subst c'.
    eapply apply_sbody_spec; [exact Hb| |exact Hbody].
    eapply Inv_view; [|exact I1]. intro x. reflexivity.
  Qed.

  Lemma perform_group_spec app g c c' u T :
    Forall (inner_ok app) g -> Inv T c -> perform_group E app g c = (c', Ok u) -> Inv T c'.
  Proof.
    revert c. induction g as [|[fee b] r IH]; intros c Hok HI H; cbn [perform_group] in H.
    - unfold ret in H. inversion H. now subst.
    - inversion Hok as [|? ? H1 H2]. subst. mstep H as c1 u1 Hp.
      eapply IH; [exact H2| |exact H]. eapply perform_spec; eauto.
  Qed.

  Definition op_ok (app : N) (op : appop) : Prop :=
    match op with OInner g => Forall (inner_ok app) g | _ => True end.

  Lemma run_op_spec app clear op c c' u T :
    op_ok app op -> Inv T c -> run_op E app clear op c = (c', Ok u) -> Inv T c'.
  Proof.
    intros Hok HI H. unfold run_op in H. destruct op.
    - mstep H as c1 u1 H1. pose proof (viewed _ _ _ _ _ (length_checks_view E nlen size c) H1 HI) as I1.
      mstep H as c2 u2 G. mguard G.
      mstep H as c3 ex Hb. unfold m_get_box in Hb. inversion Hb. subst c3 ex. clear Hb.
      destruct (get_box c1 app name).
      + apply guard_ok in H. destruct H as [_ ->]. exact I1.
      + eapply new_box_spec; eauto.
    - mstep H as c1 u1 H1. pose proof (viewed _ _ _ _ _ (length_checks_view E nlen 0 c) H1 HI) as I1.
      mstep H as c2 u2 G. mguard G.
      mstep H as c3 r3 Hd. unfold ret in H. inversion H. subst c'. eapply del_box_spec; eauto.
    - mstep H as c1 u1 H1. pose proof (viewed _ _ _ _ _ (length_checks_view E nlen size c) H1 HI) as I1.
      mstep H as c2 u2 G. mguard G.
      mstep H as c3 ex Hb. unfold m_get_box in Hb. inversion Hb. subst c3 ex. clear Hb.
      mstep H as c4 u4 G2. mguard G2.
      mstep H as c5 r5 Hd. eapply new_box_spec; [|exact H]. eapply del_box_spec; eauto.
    - mstep H as c1 cr Hc. unfold m_get_app_creator in Hc. inversion Hc. subst c1 cr. clear Hc.
      mstep H as c2 creator Hs. apply some_or_fail_ok in Hs. destruct Hs as [-> _].
      exact (viewed _ _ _ _ _ (set_key_view creator app true key isbytes c) H HI).
    - mstep H as c1 cr Hc. unfold m_get_app_creator in Hc. inversion Hc. subst c1 cr. clear Hc.
      mstep H as c2 creator Hs. apply some_or_fail_ok in Hs. destruct Hs as [-> _].
      exact (viewed _ _ _ _ _ (del_key_view creator app true key c) H HI).
    - exact (viewed _ _ _ _ _ (set_key_view acct app false key isbytes c) H HI).
    - exact (viewed _ _ _ _ _ (del_key_view acct app false key c) H HI).
    - mstep H as c1 u1 G1. mguard G1. mstep H as c2 u2 G2. mguard G2.
      eapply perform_group_spec; eauto.
    - mstep H as c1 cr Hc. unfold m_get_app_creator in Hc. inversion Hc. subst c1 cr. clear Hc.
      mstep H as c2 creator Hs. apply some_or_fail_ok in Hs. destruct Hs as [-> _].
      mstep H as c3 p Hp. unfold m_get_appparams in Hp. inversion Hp. subst c3 p. clear Hp.
      mstep H as c4 params Hs2. apply some_or_fail_ok in Hs2. destruct Hs2 as [-> _].
      mstep H as c5 u5 G. mguard G.
      unfold m_put_appparams in H. inversion H. subst c'. eapply Inv_view; [|exact HI]. intro b. reflexivity.
    - discriminate.
  Qed.

  Lemma run_script_spec app clear script c c' u T :
    Forall (op_ok app) script -> Inv T c -> run_script E app clear script c = (c', Ok u) -> Inv T c'.
  Proof.
    revert c. induction script as [|op r IH]; intros c Hok HI H; cbn [run_script] in H.
    - unfold ret in H. inversion H. now subst.
    - inversion Hok as [|? ? H1 H2]. subst. mstep H as c1 u1 Ho.
      eapply IH; [exact H2| |exact H]. eapply run_op_spec; eauto.
  Qed.

  (* StatefulEval: whatever the program does and however it ends, the total is kept *)
  Lemma stateful_eval_spec app clear script acc c c' r T :
    Forall (op_ok app) script -> Inv T c -> stateful_eval E app clear script acc c = (c', r) -> Inv T c'.
  Proof.
    intros Hok HI H.
    destruct (res_eq_dec r) as [->|Hne].
    - unfold stateful_eval in H.
      pose proof (run_script_okc E app clear script (child c) (okc_child c)) as Hokc.
      destruct (run_script E app clear script (child c)) as [c1 [u|e]] eqn:Hr; cbn [fst] in Hokc; [|discriminate].
      destruct acc; [|discriminate]. inversion H. subst c'.
      eapply Inv_ext; [intro a; now apply lookup_commit|].
      destruct u. eapply run_script_spec; [exact Hok| |exact Hr].
      eapply Inv_ext; [intro a; apply lookup_child | exact HI].
    - rewrite (stateful_eval_not_approved _ _ _ _ _ _ _ _ H Hne). exact HI.
  Qed.

  Lemma create_application_spec creator call ctr c c' idx T :
    Inv T c -> create_application E creator call ctr c = (c', Ok idx) -> Inv T c'.
  Proof.
    intros HI H. unfold create_application in H.
    mstep H as c1 record Hl. mlook Hl.
    mstep H as c2 u2 G1. mguard G1.
    mstep H as c3 present Hp. unfold m_get_appparams in Hp. inversion Hp. subst c3 present. clear Hp.
    mstep H as c4 u4 G2. mguard G2.
    mstep H as c5 u5 Hput. unfold m_put in Hput. inversion Hput. subst c5. clear Hput.
    mstep H as c6 u6 Hq. unfold m_put_appparams in Hq. inversion Hq. subst c6. clear Hq.
    mstep H as c7 u7 Ha. unfold ret in H. inversion H. subst c'.
    eapply viewed; [apply allocate_app_view|exact Ha|]. inv_put HI.
  Qed.

  Lemma optin_application_spec sender app params c c' u T :
    Inv T c -> optin_application E sender app params c = (c', Ok u) -> Inv T c'.
  Proof.
    intros HI H. unfold optin_application in H.
    mstep H as c1 record Hl. mlook Hl.
    mstep H as c2 has Hh. unfold m_get_applocal in Hh. inversion Hh. subst c2 has. clear Hh.
    mstep H as c3 u3 G1. mguard G1. mstep H as c4 u4 G2. mguard G2.
    mstep H as c5 u5 Hput. unfold m_put in Hput. inversion Hput. subst c5. clear Hput.
    mstep H as c6 u6 Hq. unfold m_put_applocal in Hq. inversion Hq. subst c6. clear Hq.
    eapply viewed; [apply allocate_app_view|exact H|]. inv_put HI.
  Qed.

  Lemma m_del_applocal_ok a i c c' u : m_del_applocal a i c = (c', Ok u) -> same_view c c'.
  Proof. unfold m_del_applocal. destruct (in_mods c a); intros H; inversion H; intro; reflexivity. Qed.
  Lemma m_del_appparams_ok a i c c' u : m_del_appparams a i c = (c', Ok u) -> same_view c c'.
  Proof. unfold m_del_appparams. destruct (in_mods c a); intros H; inversion H; intro; reflexivity. Qed.

  Lemma closeout_application_spec sender app c c' u T :
    Inv T c -> closeout_application sender app c = (c', Ok u) -> Inv T c'.
  Proof.
    intros HI H. unfold closeout_application in H.
    mstep H as c1 record Hl. mlook Hl.
    mstep H as c2 u2 G1. mguard G1.
    mstep H as c3 ls Hh. unfold m_get_applocal in Hh. inversion Hh. subst c3 ls. clear Hh.
    mstep H as c4 schema Hs. apply some_or_fail_ok in Hs. destruct Hs as [-> _].
    mstep H as c5 u5 Hput. unfold m_put in Hput. inversion Hput. subst c5. clear Hput.
    mstep H as c6 u6 Hd. apply m_del_applocal_ok in Hd.
    eapply viewed; [apply deallocate_app_view|exact H|].
    eapply Inv_view; [exact Hd|]. inv_put HI.
  Qed.

  Lemma delete_application_spec creator app c c' u T :
    Inv T c -> delete_application E creator app c = (c', Ok u) -> Inv T c'.
  Proof.
    intros HI H. unfold delete_application in H.
    mstep H as c1 p Hp. unfold m_get_appparams in Hp. inversion Hp. subst c1 p. clear Hp.
    mstep H as c2 record Hl. mlook Hl.
    mstep H as c3 u3 Hput. unfold m_put in Hput. inversion Hput. subst c3. clear Hput.
    mstep H as c4 record2 Hl2. mlook Hl2.
    mstep H as c5 u5 Hput2. unfold m_put in Hput2. inversion Hput2. subst c5. clear Hput2.
    mstep H as c6 u6 Hd. apply m_del_appparams_ok in Hd.
    eapply viewed; [apply deallocate_app_view|exact H|].
    eapply Inv_view; [exact Hd|].
    match goal with |- Inv T (put (put ?c0 ?a0 ?x0) ?a1 ?x1) =>
      assert (I0 : Inv T (put c0 a0 x0)) by (apply Inv_put_record; [exact HI|reflexivity..]);
      apply Inv_put_record; [exact I0|reflexivity..] end.
  Qed.

  (* inner transactions name the called application's account; a creating call (whose id is
     not known beforehand) issues none *)
  Definition call_ok (call : appcall) : Prop :=
    Forall (op_ok (ac_app call)) (ac_script call) /\
    (ac_app call = 0 -> Forall (fun op => match op with OInner _ => False | _ => True end) (ac_script call)).

  Lemma op_ok_any app app' script :
    Forall (fun op => match op with OInner _ => False | _ => True end) script -> Forall (op_ok app) script -> Forall (op_ok app') script.
  Proof.
    induction script as [|op r IH]; intros H1 H2; constructor; inversion H1; inversion H2; subst; auto.
    destruct op; cbn in *; auto. contradiction.
  Qed.

  Lemma application_call_spec sender call ctr c c' u T :
    call_ok call -> Inv T c -> application_call E sender call ctr c = (c', Ok u) -> Inv T c'.
  Proof.
    intros [Hops Hcreate] HI H. unfold application_call in H.
    mstep H as c1 app Hc.
    assert (I1 : Inv T c1 /\ Forall (op_ok app) (ac_script call)).
    { destruct (ac_app call =? 0) eqn:Ez.
      - apply N.eqb_eq in Ez. split; [eapply create_application_spec; eauto|].
        eapply op_ok_any; [exact (Hcreate Ez) | exact Hops].
      - unfold ret in Hc. inversion Hc. subst. auto. }
    destruct I1 as [I1 Hops1]. clear Hc.
    mstep H as c2 cr Hcr. unfold m_get_app_creator in Hcr. inversion Hcr. subst c2 cr. clear Hcr.
    mstep H as c3 p Hp.
    assert (c3 = c1) as ->.
    { destruct (get_app_creator c1 app).
      - mstep Hp as k1 pp Hq. unfold m_get_appparams in Hq. inversion Hq. subst k1 pp.
        mstep Hp as k2 x Hs. apply some_or_fail_ok in Hs. destruct Hs as [-> _]. unfold ret in Hp. now inversion Hp.
      - unfold ret in Hp. now inversion Hp. }
    clear Hp. mstep H as c4 u4 G. mguard G.
    destruct (ac_oc call =? 3).
    - mstep H as c5 has Hh. unfold m_get_applocal in Hh. inversion Hh. subst c5 has. clear Hh.
      mstep H as c6 u6 G2. mguard G2.
      mstep H as c7 u7 Hclear.
      assert (I7 : Inv T c7).
      { destruct p.
        - destruct (stateful_eval E app true (ac_script call) (ac_accept call) c1) as [k r] eqn:Hse.
          inversion Hclear. subst k. eapply stateful_eval_spec; eauto.
        - unfold ret in Hclear. inversion Hclear. now subst. }
      eapply closeout_application_spec; eauto.
    - destruct p as [[params creator]|]; [|discriminate].
      mstep H as c5 u5 Hopt.
      assert (I5 : Inv T c5).
      { apply when_ok in Hopt. destruct Hopt as [[_ Hopt]|[_ ->]]; [eapply optin_application_spec; eauto|exact I1]. }
      mstep H as c6 approved Hse. pose proof (stateful_eval_spec _ _ _ _ _ _ _ _ Hops1 I5 Hse) as I6.
      mstep H as c7 u7 G3. mguard G3.
      destruct ((ac_oc call =? 0) || (ac_oc call =? 1)).
      + unfold ret in H. inversion H. now subst.
      + destruct (ac_oc call =? 2); [eapply closeout_application_spec; eauto|].
        destruct (ac_oc call =? 5); [eapply delete_application_spec; eauto | discriminate].
  Qed.

  (* ---------------------------------------------------------------- applyTransaction *)
  (* every address the transaction names is inside the universe; amounts are uint64 *)
  Definition tx_ok (tx : txn) : Prop :=
    t_fee tx < 2 ^ 64 /\ In (t_sender tx) U /\ In (e_feesink E) U /\
    match t_body tx with
    | BPay rcv amt closeto => amt < 2 ^ 64 /\ pay_addrs (t_sender tx) rcv amt closeto
    | BApp call => call_ok call
    | _ => True
    end.

  (* txn_conserves: payment (with or without close), keyreg, with fee and rekey *)
  Lemma apply_transaction_spec tx ctr c c' ad T :
    tx_ok tx -> Inv T c -> apply_transaction E tx ctr c = (c', Ok ad) -> Inv T c'.
  Proof.
    intros (Hfee & Hs & Hk & Hbody) HI H. unfold apply_transaction in H.
    mstep H as c1 ad1 H1. mstep H as c2 u2 H2.
    destruct (take_fee_spec _ _ _ _ _ _ Hfee Hs Hk HI H1) as (I1 & S1 & _).
    destruct (rekey_spec _ _ _ _ _ Hs I1 S1 H2) as (I2 & S2 & _).
    destruct (t_body tx).
    - mstep H as c3 u3 H3. unfold ret in H. inversion H. subst c'. eapply application_call_spec; eauto.
    - destruct Hbody as [Hamt Hp]. eapply payment_spec; [exact Hamt|exact Hp|exact I2|exact H].
    - mstep H as c3 u3 H3. unfold ret in H. inversion H. subst c'.
      eapply keyreg_spec; [exact Hs|exact I2|exact S2|exact H3].
    - mstep H as c3 u3 H3. unfold ret in H. inversion H. subst c'. eapply asset_config_spec; eauto.
    - mstep H as c3 u3 H3. unfold ret in H. inversion H. subst c'. eapply asset_transfer_spec; eauto.
    - mstep H as c3 u3 H3. unfold ret in H. inversion H. subst c'. eapply asset_freeze_spec; eauto.
    - discriminate.
  Qed.

  Lemma transaction_pre_pure tx c c' u :
    (guard ((t_fv tx <=? e_rnd E) && (e_rnd E <=? t_lv tx)) E_DEAD ;;;
     guard (t_genok tx) E_GENESIS ;;;
     m_checkdup (e_P E) (e_rnd E) (t_txid tx) (t_sender tx) (t_lease tx) ;;;
     acctdata <- m_lookup (t_sender tx) ;;
     guard (t_authorizer tx =? (if a_auth acctdata =? 0 then t_sender tx else a_auth acctdata)) E_AUTH) c = (c', Ok u) ->
    c' = c.
  Proof.
    intros H. mstep H as c1 u1 G1. mguard G1. mstep H as c2 u2 G2. mguard G2.
    mstep H as c3 u3 Hd. unfold m_checkdup in Hd. destruct (checkdup _ _ c _ _ _); inversion Hd. subst c3.
    mstep H as c4 x Hl. mlook Hl. apply guard_ok in H. now destruct H as [_ ->].
  Qed.

  Lemma transaction_spec tx c c' u T :
    tx_ok tx -> Inv T c -> transaction E tx c = (c', Ok u) -> Inv T c'.
  Proof.
    intros Hok HI H. unfold transaction in H.
    mstep H as c1 u1 H1. mstep H as c1' ctr Hctr. unfold m_counter in Hctr. inversion Hctr. subst c1' ctr. clear Hctr.
    mstep H as c2 ad H2. mstep H as c3 u3 H3.
    unfold m_addtx in H. inversion H. subst c'. clear H.
    assert (c1 = c).
    { apply when_ok in H1. destruct H1 as [[_ H1]|[_ ->]]; [|reflexivity]. now apply transaction_pre_pure in H1. }
    subst c1.
    assert (c3 = c2).
    { apply when_ok in H3. destruct H3 as [[_ H3]|[_ ->]]; [|reflexivity].
      unfold check_min_balance in H3. now inversion H3. }
    subst c3. eapply Inv_ext; [intro; apply lookup_addtx|]. eapply apply_transaction_spec; eauto.
  Qed.

  Lemma group_loop_spec g0 multi txs c c' u T :
    Forall tx_ok txs -> Inv T c -> group_loop E g0 multi txs c = (c', Ok u) -> Inv T c'.
  Proof.
    revert c. induction txs as [|tx r IH]; intros c Hok HI H; cbn [group_loop] in H.
    - unfold ret in H. inversion H. now subst.
    - inversion Hok. subst. mstep H as c1 u1 H1. mstep H as c2 u2 G2. mstep H as c3 u3 G3.
      mguard G2. mguard G3. eapply IH; [assumption| |exact H]. eapply transaction_spec; [|exact HI|exact H1]. assumption.
  Qed.

  Lemma group_body_spec g lf c c' u T :
    Forall tx_ok g -> Inv T c -> group_body E g lf c = (c', Ok u) -> Inv T c'.
  Proof.
    intros Hok HI H. unfold group_body in H.
    mstep H as c1 u1 H1. mstep H as c2 u2 H2. mstep H as c3 u3 G3.
    destruct (summarize_fees g lf). unfold lift in H. inversion H. subst c'.
    mguard G3.
    apply when_ok in H1. destruct H1 as [[_ H1]|[_ ->]].
    - mguard H1. eapply group_loop_spec; [exact Hok|exact HI|exact H2].
    - eapply group_loop_spec; [exact Hok|exact HI|exact H2].
  Qed.

  (* group_conserves: whatever TransactionGroup answers, the total is what it was *)
  Lemma transaction_group_spec ev g lf T :
    Forall tx_ok g -> Inv T (ev_cow ev) -> Inv T (ev_cow (fst (transaction_group E ev g lf))).
  Proof.
    intros Hok HI. destruct (transaction_group E ev g lf) as [ev' [[]|e]] eqn:Hg; cbn [fst].
    - destruct g as [|tx g'].
      + unfold transaction_group in Hg. destruct (ev_corrupt ev); inversion Hg; now subst.
      + destruct (group_all E ev (tx :: g') lf ev' ltac:(discriminate) Hg) as (c1 & Hb & _ & Hl & _).
        eapply Inv_ext; [exact Hl|]. eapply group_body_spec; [exact Hok| |exact Hb].
        eapply Inv_ext; [intro; apply lookup_child|exact HI].
    - apply group_atomic in Hg. now subst.
  Qed.

  Definition groups_ok (gs : list (list txn * N)) : Prop := Forall (fun g => Forall tx_ok (fst g)) gs.

  Lemma eval_groups_spec gs ev ev' T :
    groups_ok gs -> Inv T (ev_cow ev) -> eval_groups E ev gs = Ok ev' -> Inv T (ev_cow ev').
  Proof.
    revert ev. induction gs as [|[g lf] r IH]; intros ev Hok HI H; cbn [eval_groups] in H.
    - inversion H. now subst.
    - inversion Hok as [|? ? Hg Hr]. subst. pose proof (transaction_group_spec ev g lf T Hg HI) as HI1.
      destruct (transaction_group E ev g lf) as [ev1 [[]|e]]; [|discriminate]. cbn [fst] in HI1. eauto.
  Qed.

  (* ---------------------------------------------------------------- endOfBlock *)
  Lemma reset_expired_spec addrs c c' u T :
    (forall a, In a addrs -> In a U /\ a_status (lookup c a) <> NotPart) -> Inv T c ->
    reset_expired addrs c = (c', Ok u) -> Inv T c'.
  Proof.
    revert c. induction addrs as [|a r IH]; intros c Hin HI H; cbn [reset_expired] in H.
    - unfold ret in H. inversion H. now subst.
    - mstep H as c1 x Hl. mlook Hl.
      mstep H as c2 u2 Hp. unfold m_put in Hp. inversion Hp. subst c2. clear Hp.
      destruct (Hin a (or_introl eq_refl)) as [HaU Hst].
      eapply IH; [| |exact H].
      + intros b Hb. destruct (Hin b (or_intror Hb)) as [HbU Hbs]. split; [assumption|].
        destruct (N.eq_dec a b) as [->|Hne]; [rewrite lookup_put_same; discriminate|].
        now rewrite lookup_put_other by auto.
      + apply Inv_put_same; auto. unfold bwp. cbn [clear_online set_part a_status a_algos a_rbase].
        destruct (a_status (lookup c1 a)); auto. contradiction.
  Qed.

  Lemma suspend_absent_spec addrs c c' u T :
    (forall a, In a addrs -> In a U /\ a_status (lookup c a) <> NotPart) -> Inv T c ->
    suspend_absent addrs c = (c', Ok u) -> Inv T c'.
  Proof.
    revert c. induction addrs as [|a r IH]; intros c Hin HI H; cbn [suspend_absent] in H.
    - unfold ret in H. inversion H. now subst.
    - mstep H as c1 x Hl. mlook Hl.
      mstep H as c2 u2 Hp. unfold m_put in Hp. inversion Hp. subst c2. clear Hp.
      destruct (Hin a (or_introl eq_refl)) as [HaU Hst].
      eapply IH; [| |exact H].
      + intros b Hb. destruct (Hin b (or_intror Hb)) as [HbU Hbs]. split; [assumption|].
        destruct (N.eq_dec a b) as [->|Hne]; [rewrite lookup_put_same; discriminate|].
        now rewrite lookup_put_other by auto.
      + apply Inv_put_same; auto. unfold bwp. cbn [suspend set_part a_status a_algos a_rbase].
        destruct (a_status (lookup c1 a)); auto. contradiction.
  Qed.

  (* validateAbsentOnlineAccounts has checked that every listed account is Online *)
  Lemma validate_absent_spec addrs c c' u :
    validate_absent addrs c = (c', Ok u) -> c' = c /\ forall a, In a addrs -> a_status (lookup c a) = Online.
  Proof.
    revert c'. induction addrs as [|a r IH]; intros c' H; cbn [validate_absent] in H.
    - unfold ret in H. inversion H. split; [reflexivity|]. intros a [].
    - mstep H as c1 x Hl. mlook Hl.
      mstep H as c2 u2 G1. apply guard_ok in G1. destruct G1 as [Hon ->].
      mstep H as c3 u3 G2. mguard G2. mstep H as c4 u4 G3. mguard G3.
      destruct (IH _ H) as [-> Hall]. split; [reflexivity|].
      intros b [<-|Hb]; [|auto]. destruct (a_status (lookup c1 a)); try discriminate. reflexivity.
  Qed.

  Lemma validate_expired_pure addrs c c' u : validate_expired E addrs c = (c', Ok u) -> c' = c.
  Proof.
    revert c'. induction addrs as [|a r IH]; intros c' H; cbn [validate_expired] in H.
    - unfold ret in H. now inversion H.
    - mstep H as c1 x Hl. mlook Hl.
      mstep H as c2 u2 G1. mguard G1. mstep H as c3 u3 G2. mguard G2. eauto.
  Qed.

  Lemma record_proposal_spec proposer c c' u T :
    (proposer <> 0 -> In proposer U) -> Inv T c -> record_proposal E proposer c = (c', Ok u) -> Inv T c'.
  Proof.
    intros Hp HI H. unfold record_proposal in H.
    apply when_ok in H. destruct H as [[Hb H]|[_ ->]]; [|assumption].
    apply negb_true_iff, N.eqb_neq in Hb. specialize (Hp Hb).
    mstep H as c1 x Hl. mlook Hl.
    unfold m_put in H. lazy beta zeta in H. apply (f_equal fst) in H. cbn [fst] in H. subst c'.
    set (prp := lookup c1 proposer).
    set (p1 := if acct_is_zero prp then prp else set_lastprop prp (e_rnd E)).
    assert (H1 : a_algos p1 = a_algos prp /\ a_rbase p1 = a_rbase prp /\ a_status p1 = a_status prp).
    { unfold p1. destruct (acct_is_zero prp); repeat split. }
    destruct H1 as (A1 & A2 & A3).
    apply Inv_put_same; auto; fold prp.
    - destruct (suspended p1); [cbn; exact A1 | exact A1].
    - destruct (suspended p1); [cbn; exact A2 | exact A2].
    - destruct (suspended p1) eqn:Hsus.
      + unfold suspended in Hsus. apply andb_true_iff in Hsus. destruct Hsus as [Hoff _].
        unfold bwp. cbn [set_status set_part a_status a_algos a_rbase]. rewrite A1, A2.
        rewrite A3 in Hoff. destruct (a_status prp); try discriminate. reflexivity.
      + now apply bwp_same.
  Qed.

  Lemma end_block_spec expired absent proposer payout c c' u T :
    e_validate E = true ->
    payout < 2 ^ 64 -> In (e_feesink E) U -> (proposer <> 0 -> In proposer U) ->
    (forall a, In a expired -> In a U /\ a_status (lookup c a) <> NotPart) ->
    (forall a, In a absent -> In a U) ->
    Inv T c -> end_block E expired absent proposer payout c = (c', Ok u) -> Inv T c'.
  Proof.
    intros Hval Hpay Hk Hp Hexp Habs HI H. unfold end_block in H. rewrite Hval in H. cbn [when] in H.
    mstep H as c1 u1 H1. apply validate_expired_pure in H1. subst c1.
    mstep H as c2 u2 G. mguard G.
    mstep H as c3 u3 H3. pose proof (reset_expired_spec _ _ _ _ _ Hexp HI H3) as I1.
    mstep H as c4 u4 H4. apply validate_absent_spec in H4. destruct H4 as [-> Hon].
    mstep H as c5 u5 H5. assert (I2 : Inv T c5).
    { eapply suspend_absent_spec; [|exact I1|exact H5]. intros a Ha. split; [auto|]. rewrite (Hon a Ha). discriminate. }
    mstep H as c6 u6 H6. assert (I3 : Inv T c6).
    { unfold perform_payout in H6. apply when_ok in H6. destruct H6 as [[Hb H6]|[_ ->]]; [|assumption].
      apply andb_true_iff in Hb. destruct Hb as [Hb _]. apply negb_true_iff, N.eqb_neq in Hb.
      mstep H6 as c7 r7 Hm. unfold ret in H6. inversion H6. subst c7.
      now destruct (move_spec _ _ _ _ _ _ _ _ _ Hpay Hk (Hp Hb) I2 Hm). }
    eapply record_proposal_spec; eauto.
  Qed.
End Conserve.

(* ------------------------------------------------------------------ block start *)

(* raising the level adds (level increase) x (reward units) of pending rewards *)
Lemma level_shift P U c prevlvl lvl :
  prevlvl <= lvl -> (forall a, In a U -> a_rbase (lookup c a) <= prevlvl) ->
  tot_at P lvl U c = tot_at P prevlvl U c + units_of P U c * (lvl - prevlvl).
Proof.
  intros Hle. unfold tot_at, units_of. induction U as [|a r IH]; cbn [sumf]; intros Hrb; [lia|].
  rewrite IH by (intros b Hb; apply Hrb; now right).
  specialize (Hrb a (or_introl eq_refl)).
  assert (bwp P lvl (lookup c a) = bwp P prevlvl (lookup c a) + part_units P (lookup c a) * (lvl - prevlvl)) as ->.
  { unfold bwp, part_units. destruct (a_status (lookup c a)); try lia;
      replace (lvl - a_rbase (lookup c a)) with ((prevlvl - a_rbase (lookup c a)) + (lvl - prevlvl)) by lia; lia. }
  lia.
Qed.

Lemma lookup_base_cow b a : lookup (base_cow b) a = base_lookup b a.
Proof. reflexivity. Qed.

(* rewards_conserve: StartEvaluator takes out of the pool exactly what the raised level
   hands to the accounts as pending rewards *)
Lemma start_block_spec E b prevlvl ru U ev :
  0 < p_unit (e_P E) -> e_lvl E < 2 ^ 64 -> prevlvl < 2 ^ 64 -> ru < 2 ^ 64 -> NoDup U -> In (e_pool E) U ->
  (forall a, a_algos (base_lookup b a) < 2 ^ 64 /\ a_rbase (base_lookup b a) <= prevlvl) ->
  ru = units_of (e_P E) U (base_cow b) ->
  start_block E b prevlvl ru = Ok ev ->
  Inv E U (tot_at (e_P E) prevlvl U (base_cow b)) (ev_cow ev) /\ prevlvl <= e_lvl E /\
  ev_payset ev = [] /\ c_parents (ev_cow ev) = [] /\ c_base (ev_cow ev) = b.
Proof.
  intros Hu Hl Hprev Hru HU Hpool Hwf Hrueq H. unfold start_block in H.
  pose proof (Hwf (e_pool E)) as [Hpa Hpb].
  pose proof (osub_exact 64 (e_lvl E) prevlvl) as Hs. rewrite M64 in Hs. specialize (Hs Hl Hprev).
  destruct (osub 64 (e_lvl E) prevlvl) as [rpu o1]. cbn [fst snd] in Hs.
  destruct o1; [discriminate|]. destruct Hs as [_ Hs]. destruct (Hs eq_refl) as [Hrpu Hle].
  change (mkCow layer0 [] b) with (base_cow b) in H. set (c0 := base_cow b) in *.
  assert (Hw0 : wfc E c0).
  { intro a. unfold c0. rewrite lookup_base_cow. destruct (Hwf a). split; [assumption|lia]. }
  destruct (with_rewards (e_P E) (e_lvl E) (lookup c0 (e_pool E))) as [poolOld|e] eqn:Hwr; [|discriminate].
  destruct (Hw0 (e_pool E)) as [Ha Hb].
  destruct (with_rewards_ok _ _ _ _ Hu Ha Hb Hl Hwr) as (N1 & N2 & N3 & N4 & N5 & N6).
  assert (Hrl : rpu < 2 ^ 64) by lia.
  pose proof (omul_exact 64 ru rpu) as Hm. rewrite M64 in Hm. specialize (Hm Hru Hrl).
  destruct (omul 64 ru rpu) as [w o2]. cbn [fst snd] in Hm.
  destruct o2.
  { destruct (osub 64 (a_algos poolOld) w). discriminate. }
  destruct Hm as (Hm1 & Hm2 & _). specialize (Hm2 eq_refl).
  assert (Hwl : w < 2 ^ 64).
  { destruct (N.lt_ge_cases w (2 ^ 64)) as [|Hge]; [assumption|]. rewrite Hm2 in Hge. apply Hm1 in Hge. discriminate. }
  pose proof (osub_exact 64 (a_algos poolOld) w) as Hs2. rewrite M64 in Hs2. specialize (Hs2 N2 Hwl).
  destruct (osub 64 (a_algos poolOld) w) as [v o3]. cbn [fst snd] in Hs2.
  destruct o3; [discriminate|]. cbn [orb] in H. destruct Hs2 as [_ Hs2]. destruct (Hs2 eq_refl) as [Hv Hvle].
  destruct (snd (osub 64 v (p_minbal (e_P E)))); [discriminate|].
  inversion H. subst ev. clear H. cbn [ev_cow ev_payset].
  split; [|repeat split; auto].
  set (x2 := set_algos poolOld v).
  assert (Hbx : bwp (e_P E) (e_lvl E) x2 = v).
  { unfold bwp, x2. cbn [set_algos set_money a_status a_algos a_rbase].
    destruct (a_status poolOld) eqn:Hst; auto;
      rewrite N6 by (rewrite <- N5; discriminate); rewrite N.sub_diag, N.mul_0_r; lia. }
  split.
  - apply wfc_put; auto; unfold x2; cbn [set_algos set_money a_algos a_rbase]; lia.
  - pose proof (tot_put E U HU c0 (e_pool E) x2 Hpool) as Ht. rewrite Hbx, <- N1 in Ht.
    pose proof (level_shift (e_P E) U c0 prevlvl (e_lvl E) Hle) as Hsh.
    assert (Hrb : forall a, In a U -> a_rbase (lookup c0 a) <= prevlvl) by (intros a _; apply Hwf).
    specialize (Hsh Hrb). unfold tot in *. unfold tot_at in *. rewrite <- Hrueq in Hsh. nia.
Qed.

(* ------------------------------------------------------------------ a whole block *)
(* block_conserves: for every block the evaluator accepts (validate mode), the sum of all
   balances with pending rewards at the block's level equals the sum before the block at the
   previous level.  [U] enumerates the accounts (any duplicate-free list containing every
   address the block names and every account that earns rewards). *)
Theorem block_conserves E b prevlvl ru gs expired absent proposer payout U ev :
  e_validate E = true ->
  0 < p_unit (e_P E) -> e_lvl E < 2 ^ 64 -> prevlvl < 2 ^ 64 -> ru < 2 ^ 64 -> payout < 2 ^ 64 -> NoDup U ->
  In (e_pool E) U -> In (e_feesink E) U -> (proposer <> 0 -> In proposer U) ->
  (forall a, In a expired -> In a U) -> (forall a, In a absent -> In a U) ->
  groups_ok E U gs ->
  (forall a, a_algos (base_lookup b a) < 2 ^ 64 /\ a_rbase (base_lookup b a) <= prevlvl) ->
  ru = units_of (e_P E) U (base_cow b) ->
  (* the accounts the header lists as expired are participating ones (see
     expire_nonparticipating_refuted for why this is needed) *)
  (forall ev0 ev1, start_block E b prevlvl ru = Ok ev0 -> eval_groups E ev0 gs = Ok ev1 ->
                   forall a, In a expired -> a_status (lookup (ev_cow ev1) a) <> NotPart) ->
  eval_block E b prevlvl ru gs expired absent proposer payout = Ok ev ->
  tot_at (e_P E) (e_lvl E) U (ev_cow ev) = tot_at (e_P E) prevlvl U (base_cow b) /\
  wfc E (ev_cow ev).
Proof.
  intros Hval Hu Hl Hprev Hru Hpay HU Hpool Hsink Hprop Hexp Habs Hgs Hwf Hrueq Hpart H.
  unfold eval_block in H.
  destruct (start_block E b prevlvl ru) as [ev0|e0] eqn:Hs; [|discriminate].
  destruct (start_block_spec _ _ _ _ _ _ Hu Hl Hprev Hru HU Hpool Hwf Hrueq Hs) as (I0 & _).
  destruct (eval_groups E ev0 gs) as [ev1|e1] eqn:Hg; [|discriminate].
  pose proof (eval_groups_spec E Hu Hl U HU gs ev0 ev1 _ Hgs I0 Hg) as I1.
  destruct (end_block E expired absent proposer payout (ev_cow ev1)) as [c2 [u|e2]] eqn:He; [|discriminate].
  inversion H. subst ev. cbn [ev_cow].
  assert (I2 : Inv E U (tot_at (e_P E) prevlvl U (base_cow b)) c2).
  { eapply end_block_spec; try eassumption.
    intros a Ha. split; [auto|]. eapply Hpart; eauto. }
  destruct I2 as [W T]. split; [exact T | exact W].
Qed.
