(* C17 lemmas, part 4: the paged store (layer 2 of model/MerkleTrieStore.v).
   [Inv s fp]: the bookkeeping invariant of the cache for a live footprint fp; it is what makes
   "write every dirty page from its in-memory view" safe.  Preserved by page loads, by a
   transaction (Add/Delete), by commit with ANY admissible re-allocation, by evict (with the
   repaired rule) and by reload. *)
From Coq Require Import List NArith Bool Lia ZifyN ZifyNat ZifyBool Arith.
From Verif.model Require Import MerkleTrie MerkleTrieStore MerkleTrieStoreRel.
From Verif.proofs Require Import MerkleTrieHeapProofs.
Import ListNotations.
Open Scope N_scope.

Section Paged.
Variable npp : N.
Hypothesis Hnpp : 0 < npp <= base_id.

Notation page := (page npp).
Notation rd := (rd).

Notation dirty := (dirty npp).
Notation Inv := (Inv npp).

(* ---------- arithmetic of pages ---------- *)
Lemma page_mono x y : x <= y -> page x <= page y.
Proof. intros H. unfold MerkleTrieStore.page. apply N.div_le_mono; lia. Qed.

Lemma page_pos x : base_id <= x -> 0 < page x.
Proof.
  intros H. unfold MerkleTrieStore.page. apply N.div_str_pos. lia.
Qed.

Lemma same_page_mid x y : x < y -> page x = page y -> 0 < y mod npp.
Proof.
  unfold MerkleTrieStore.page. intros Hlt E.
  destruct (N.eq_dec (y mod npp) 0) as [Z|Z]; [|lia].
  pose proof (N.div_mod y npp) as Dy. pose proof (N.div_mod x npp) as Dx.
  pose proof (N.mod_lt x npp). nia.
Qed.

Lemma round_up_ge x : x <= round_up npp x.
Proof.
  unfold round_up. pose proof (N.div_mod (x + (npp - 1)) npp). pose proof (N.mod_lt (x + (npp - 1)) npp). nia.
Qed.

Lemma round_up_page x y z : x < round_up npp y -> round_up npp y <= z -> page x <> page z.
Proof.
  unfold round_up, MerkleTrieStore.page. set (k := (y + (npp - 1)) / npp). intros A B E.
  assert (x / npp < k) by (apply N.div_lt_upper_bound; lia).
  assert (k <= z / npp) by (apply N.div_le_lower_bound; lia). lia.
Qed.

(* ---------- loading a page ---------- *)
Definition with_mem (s : pstore) (mem : heap) (def : N) : pstore :=
  {| p_mem := mem; p_disk := p_disk s; p_root := p_root s; p_next := p_next s; p_elen := p_elen s;
     p_created := p_created s; p_delpages := p_delpages s; p_deferred := def;
     p_modified := p_modified s; p_dhas := p_dhas s; p_droot := p_droot s;
     p_dnext := p_dnext s; p_delen := p_delen s |}.

Definition load (s : pstore) (P : N) : pstore :=
  with_mem s (merge_page npp (p_mem s) (p_disk s) P) (if p_deferred s =? P then 0 else p_deferred s).

Lemma merge_grows mem disk P x : mem x <> None -> merge_page npp mem disk P x <> None.
Proof. unfold merge_page. destruct (page x =? P); [destruct (disk x); congruence | auto]. Qed.

Lemma merge_none mem disk P x :
  merge_page npp mem disk P x = None -> mem x = None /\ (page x = P -> disk x = None).
Proof.
  unfold merge_page. destruct (page x =? P) eqn:E.
  - destruct (disk x); [discriminate|]. tauto.
  - apply N.eqb_neq in E. tauto.
Qed.

Lemma rd_load s fp P : Inv s fp -> forall x, rd (load s P) x = rd s x.
Proof.
  intros I x. unfold MerkleTrieStore.rd, load, with_mem, merge_page; cbn.
  destruct (page x =? P); [|reflexivity].
  destruct (p_disk s x) eqn:D; [|reflexivity].
  destruct (p_mem s x) eqn:M; [|reflexivity]. f_equal. symmetry. eapply iv_coh; eauto.
Qed.

(* premise-strengthening form: a load can only shrink the set of live nodes missing from memory *)
Lemma Inv_load s fp P : Inv s fp -> Inv (load s P) fp.
Proof.
  intros I. pose proof (rd_load s fp P I) as RD.
  assert (Miss : forall x, In x fp -> p_mem (load s P) x = None -> p_mem s x = None /\ page x <> P).
  { intros x Hx Hm. cbn in Hm. apply merge_none in Hm. destruct Hm as [A B]. split; [exact A|].
    intros E. pose proof (iv_live _ _ _ I x Hx) as L. unfold MerkleTrieStore.rd in L. rewrite A in L.
    apply L. apply B. exact E. }
  constructor.
  - intros x [Hm|Hd]; apply (iv_bnd _ _ _ I); [|right; exact Hd]. cbn in Hm. unfold merge_page in Hm.
    destruct (page x =? P); [|left; exact Hm]. destruct (p_disk s x) eqn:D; [right; congruence | left; exact Hm].
  - intros x n n' Hm Hd. cbn in Hm, Hd. unfold merge_page in Hm. destruct (page x =? P).
    + rewrite Hd in Hm. congruence.
    + eapply iv_coh; eauto.
  - intros x Hm. cbn in Hm |- *. unfold merge_page in Hm. destruct (page x =? P).
    + pose proof (iv_new _ _ _ I x) as X. destruct (p_disk s x) eqn:D; [left; congruence | apply X; exact Hm].
    + apply (iv_new _ _ _ I); exact Hm.
  - intros x Hx. rewrite RD. apply (iv_live _ _ _ I). exact Hx.
  - intros x Hx Hm Hd. destruct (Miss x Hx Hm) as [A B]. cbn.
    pose proof (iv_safe _ _ _ I x Hx A Hd) as E. rewrite E.
    destruct (page x =? P) eqn:E2; [apply N.eqb_eq in E2; congruence | reflexivity].
  - intros x y Hm Hd Hy Hp Hdy. cbn in Hm, Hd, Hdy |- *. unfold merge_page in *.
    destruct (page x =? P) eqn:E.
    + rewrite Hp, E. destruct (p_disk s y); congruence.
    + rewrite Hp, E. eapply (iv_pg _ _ _ I x y); eauto.
  - intros Hmid y Hy Hp Hm. destruct (Miss y Hy Hm) as [A B]. cbn in Hmid, Hp |- *.
    pose proof (iv_tail _ _ _ I Hmid y Hy Hp A) as E. rewrite E.
    destruct (page (p_next s) =? P) eqn:E2; [apply N.eqb_eq in E2; congruence | reflexivity].
  - exact (iv_clean _ _ _ I).
  - exact (iv_base _ _ _ I).
  - exact (iv_nd _ _ _ I).
Qed.

Lemma load_has s P x : page x = P -> p_disk s x <> None -> p_mem (load s P) x <> None.
Proof.
  intros E D. cbn. unfold merge_page. rewrite E, N.eqb_refl. destruct (p_disk s x); congruence.
Qed.

(* ---------- replaying the getNode calls of a transaction ---------- *)
Lemma replay_as_loads next0 : forall reads s,
  exists s', replay_loads npp next0 (p_disk s) reads (p_mem s) (p_deferred s) = (p_mem s', p_deferred s') /\
    s' = with_mem s (p_mem s') (p_deferred s') /\
    (forall fp, Inv s fp -> Inv s' fp /\ forall x, rd s' x = rd s x) /\
    (forall x, p_mem s x <> None -> p_mem s' x <> None) /\
    (forall x, In x reads -> x < next0 -> p_disk s x <> None -> p_mem s' x <> None).
Proof.
  induction reads as [|x l IH]; intros s.
  - exists s. cbn. split; [reflexivity|]. split; [destruct s; reflexivity|].
    split; [intros fp I; split; [exact I | reflexivity]|]. split; [auto | intros x []].
  - cbn [replay_loads]. destruct ((next0 <=? x) || match p_mem s x with Some _ => true | None => false end) eqn:E.
    + destruct (IH s) as (s' & E1 & E2 & E3 & E4 & E5). exists s'.
      split; [exact E1|]. split; [exact E2|]. split; [exact E3|]. split; [exact E4|].
      intros y [<-|Hy] Hlt Hd; [|apply E5; assumption].
      apply orb_true_iff in E. destruct E as [E|E]; [apply N.leb_le in E; lia|].
      apply E4. destruct (p_mem s x); [discriminate | discriminate].
    + destruct (IH (load s (page x))) as (s' & E1 & E2 & E3 & E4 & E5). exists s'.
      split; [exact E1|]. split; [rewrite E2; reflexivity|].
      split.
      { intros fp I. destruct (E3 fp (Inv_load s fp (page x) I)) as [A B]. split; [exact A|].
        intros y. rewrite B. apply (rd_load s fp). exact I. }
      split; [intros y Hy; apply E4; cbn; apply merge_grows; exact Hy|].
      intros y [<-|Hy] Hlt Hd; [|apply E5; assumption].
      apply E4. apply load_has; [reflexivity | exact Hd].
Qed.

(* ---------- small list facts ---------- *)
Lemma memb_In x l : memb x l = true <-> In x l.
Proof.
  unfold memb. rewrite existsb_exists. split.
  - intros (y & Hy & E). apply N.eqb_eq in E. subst. exact Hy.
  - intros H. exists x. split; [exact H | apply N.eqb_refl].
Qed.
Lemma memb_nIn x l : memb x l = false <-> ~ In x l.
Proof. rewrite <- memb_In. destruct (memb x l); split; congruence. Qed.

Lemma in_range x n a : In x (range n a) <-> a <= x < a + N.of_nat n.
Proof.
  revert a. induction n as [|n IH]; intros a; cbn [range In].
  - lia.
  - rewrite IH. lia.
Qed.

Lemma in_add_set y x l : In y (add_set x l) <-> y = x \/ In y l.
Proof.
  unfold add_set. destruct (memb x l) eqn:E; cbn; [|intuition].
  apply memb_In in E. split; [auto | intros [->|H]; auto].
Qed.

Lemma in_delpages created : forall dels acc P,
  In P (fold_left (fun acc x => if memb x created then acc else add_set (page x) acc) dels acc) <->
  In P acc \/ exists x, In x dels /\ ~ In x created /\ P = page x.
Proof.
  induction dels as [|d dels IH]; intros acc P; cbn [fold_left].
  - split; [auto | intros [H|(x & [] & _)]; exact H].
  - rewrite IH. destruct (memb d created) eqn:E.
    + apply memb_In in E. split.
      * intros [H|(x & Hx & A & B)]; [auto | right; exists x; split; [right; exact Hx | auto]].
      * intros [H|(x & [<-|Hx] & A & B)]; [auto | tauto | right; exists x; auto].
    + apply memb_nIn in E. rewrite in_add_set. split.
      * intros [[->|H]|(x & Hx & A & B)]; [right; exists d; split; [left; reflexivity | auto] | auto |
                                           right; exists x; split; [right; exact Hx | auto]].
      * intros [H|(x & [<-|Hx] & A & B)]; [auto | auto | right; exists x; auto].
Qed.

(* ---------- commitTransaction ---------- *)
Lemma Inv_finish_tx s fp st' fp' newroot elen :
  Inv s fp ->
  p_next s <= o_next st' ->
  (forall x, x < p_next s -> o_h st' x = rd s x) ->
  NoDup fp' -> bounded fp' (o_next st') ->
  (forall x, In x fp' -> ~ In x (o_dels st') /\ (In x fp \/ p_next s <= x)) ->
  (forall x, In x (o_dels st') -> (In x fp /\ In x (o_reads st')) \/ p_next s <= x) ->
  bounded (o_dels st') (o_next st') ->
  (forall x, In x fp' -> o_h st' x <> None) ->
  Inv (finish_tx npp s st' newroot elen) fp' /\
  (forall x, In x fp' -> rd (finish_tx npp s st' newroot elen) x = o_h st' x).
Proof.
  intros I Hn Hh Nd' Bd' Pf Pd Pdb Hdef.
  unfold finish_tx.
  destruct (replay_as_loads (p_next s) (rev (o_reads st')) s) as (s1 & E1 & E2 & E3 & E4 & E5).
  rewrite E1. destruct (E3 fp I) as [I1 RD1].
  set (next0 := p_next s) in *.
  set (news := range (N.to_nat (o_next st' - next0)) next0).
  set (created1 := news ++ p_created s).
  assert (Pn1 : p_next s1 = next0) by (rewrite E2; reflexivity).
  assert (Pc1 : p_created s1 = p_created s) by (rewrite E2; reflexivity).
  assert (Pdp1 : p_delpages s1 = p_delpages s) by (rewrite E2; reflexivity).
  assert (Pdk1 : p_disk s1 = p_disk s) by (rewrite E2; reflexivity).
  assert (Hnews : forall x, In x news <-> next0 <= x < o_next st').
  { intros x. unfold news. rewrite in_range. lia. }
  assert (Mem2 : forall x, ~ In x (o_dels st') ->
            (if memb x (o_dels st') then None
             else if (next0 <=? x) && (x <? o_next st') then o_h st' x else p_mem s1 x) =
            if (next0 <=? x) && (x <? o_next st') then o_h st' x else p_mem s1 x).
  { intros x Hx. apply memb_nIn in Hx. rewrite Hx. reflexivity. }
  (* live nodes: the new heap agrees with the transaction's heap *)
  assert (RD : forall x, In x fp' ->
            MerkleTrieStore.rd
              {| p_mem := fun x0 => if memb x0 (o_dels st') then None
                                    else if (next0 <=? x0) && (x0 <? o_next st') then o_h st' x0 else p_mem s1 x0;
                 p_disk := p_disk s; p_root := newroot; p_next := o_next st'; p_elen := elen;
                 p_created := filter (fun x0 => negb (memb x0 (o_dels st'))) created1;
                 p_delpages := fold_left (fun acc x0 => if memb x0 created1 then acc else add_set (page x0) acc)
                                         (o_dels st') (p_delpages s);
                 p_deferred := p_deferred s1; p_modified := true; p_dhas := p_dhas s; p_droot := p_droot s;
                 p_dnext := p_dnext s; p_delen := p_delen s |} x = o_h st' x).
  { intros x Hx. destruct (Pf x Hx) as [Hnd Hor]. unfold MerkleTrieStore.rd. cbn [p_mem p_disk].
    rewrite (Mem2 x Hnd).
    destruct ((next0 <=? x) && (x <? o_next st')) eqn:Er.
    - pose proof (Hdef x Hx). destruct (o_h st' x); [reflexivity | congruence].
    - assert (x < next0).
      { apply andb_false_iff in Er. destruct Er as [Er|Er]; [apply N.leb_gt in Er; exact Er|].
        apply N.ltb_ge in Er. apply Bd' in Hx. lia. }
      rewrite Hh by assumption. rewrite <- RD1. unfold MerkleTrieStore.rd. rewrite Pdk1. reflexivity. }
  split; [|exact RD].
  constructor; cbn [p_mem p_disk p_next p_created p_delpages p_deferred p_modified].
  - (* bounds *)
    intros x [Hm|Hd].
    + destruct (memb x (o_dels st')); [congruence|].
      destruct ((next0 <=? x) && (x <? o_next st')) eqn:Er.
      * apply andb_true_iff in Er. destruct Er as [A B]. apply N.leb_le in A. apply N.ltb_lt in B.
        pose proof (iv_base _ _ _ I). unfold next0 in *. lia.
      * pose proof (iv_bnd _ _ _ I1 x (or_introl Hm)). lia.
    + pose proof (iv_bnd _ _ _ I x (or_intror Hd)). lia.
  - (* coherence *)
    intros x n n' Hm Hd.
    pose proof (iv_bnd _ _ _ I x (or_intror (ltac:(congruence) : p_disk s x <> None))) as Bx.
    destruct (memb x (o_dels st')); [discriminate|].
    assert (Er : (next0 <=? x) && (x <? o_next st') = false).
    { apply andb_false_iff. left. apply N.leb_gt. lia. }
    rewrite Er in Hm. eapply (iv_coh _ _ _ I1); eauto. rewrite Pdk1. exact Hd.
  - (* every in-memory node is stored or pending *)
    intros x Hm. destruct (memb x (o_dels st')) eqn:Ed; [congruence|]. apply memb_nIn in Ed.
    destruct ((next0 <=? x) && (x <? o_next st')) eqn:Er.
    + right. apply filter_In. split; [|apply negb_true_iff; apply memb_nIn; exact Ed].
      unfold created1. apply in_or_app. left. apply Hnews.
      apply andb_true_iff in Er. destruct Er as [A B]. apply N.leb_le in A. apply N.ltb_lt in B. lia.
    + destruct (iv_new _ _ _ I1 x Hm) as [A|A]; [left; rewrite <- Pdk1; exact A|].
      right. apply filter_In. split; [|apply negb_true_iff; apply memb_nIn; exact Ed].
      unfold created1. apply in_or_app. right. rewrite <- Pc1. exact A.
  - intros x Hx. rewrite (RD x Hx). apply Hdef. exact Hx.
  - (* safe *)
    intros x Hx Hm Hdirty. destruct (Pf x Hx) as [Hnd Hor]. rewrite (Mem2 x Hnd) in Hm.
    destruct ((next0 <=? x) && (x <? o_next st')) eqn:Er; [pose proof (Hdef x Hx); congruence|].
    assert (Hlt : x < next0).
    { apply andb_false_iff in Er. destruct Er as [Er|Er]; [apply N.leb_gt in Er; exact Er|].
      apply N.ltb_ge in Er. apply Bd' in Hx. lia. }
    assert (Hfp : In x fp) by (destruct Hor; [assumption | lia]).
    unfold dirty in Hdirty. cbn [p_created p_delpages] in Hdirty. apply in_app_or in Hdirty.
    destruct Hdirty as [Hc|Hp].
    + apply in_map_iff in Hc. destruct Hc as (c & Ec & Hc). apply filter_In in Hc. destruct Hc as [Hc _].
      unfold created1 in Hc. apply in_app_or in Hc. destruct Hc as [Hc|Hc].
      * (* a node created by this transaction on the same page: the tail page *)
        apply Hnews in Hc.
        assert (Ep : page x = page next0).
        { pose proof (page_mono x next0 ltac:(lia)). pose proof (page_mono next0 c ltac:(lia)). lia. }
        assert (Hmid : 0 < next0 mod npp) by (eapply same_page_mid; eauto).
        rewrite <- Pn1 in Hmid, Ep.
        rewrite (iv_tail _ _ _ I1 Hmid x Hfp Ep Hm). symmetry. exact Ep.
      * apply (iv_safe _ _ _ I1 x Hfp Hm). unfold dirty. apply in_or_app. left.
        rewrite Pc1. apply in_map_iff. exists c. auto.
    + apply in_delpages in Hp. destruct Hp as [Hp|(z & Hz & Hzc & Ez)].
      * apply (iv_safe _ _ _ I1 x Hfp Hm). unfold dirty. apply in_or_app. right. rewrite Pdp1. exact Hp.
      * (* the page of a deleted stored node: that node was read, so its page is complete *)
        exfalso. destruct (Pd z Hz) as [[Hzfp Hzr]|Hge].
        -- assert (Hzn : ~ In z news) by (intros H; apply Hzc; unfold created1; apply in_or_app; left; exact H).
           assert (Hzlt : z < next0).
           { pose proof (iv_live _ _ _ I z Hzfp) as L.
             assert (p_mem s z <> None \/ p_disk s z <> None).
             { unfold MerkleTrieStore.rd in L. destruct (p_mem s z); [left; congruence | right; exact L]. }
             apply (iv_bnd _ _ _ I) in H. lia. }
           assert (Hzm : p_mem s1 z <> None).
           { pose proof (iv_live _ _ _ I z Hzfp) as L. unfold MerkleTrieStore.rd in L.
             destruct (p_mem s z) eqn:Mz; [apply E4; congruence|].
             apply E5; [apply in_rev in Hzr; exact Hzr | exact Hzlt | exact L]. }
           assert (Hzd : p_disk s1 z <> None).
           { destruct (iv_new _ _ _ I1 z Hzm) as [A|A]; [exact A|]. exfalso. apply Hzc.
             unfold created1. apply in_or_app. right. rewrite <- Pc1. exact A. }
           assert (Hxd : p_disk s1 x <> None).
           { pose proof (iv_live _ _ _ I1 x Hfp) as L. unfold MerkleTrieStore.rd in L. rewrite Hm in L. exact L. }
           apply (iv_pg _ _ _ I1 z x Hzm Hzd Hfp Ez Hxd). exact Hm.
        -- apply Hzc. unfold created1. apply in_or_app. left. apply Hnews.
           split; [exact Hge | apply Pdb; exact Hz].
  - (* pages that hold a stored node in memory are complete *)
    intros x y Hm Hd Hy Hp Hdy.
    pose proof (iv_bnd _ _ _ I x (or_intror Hd)) as Bx. pose proof (iv_bnd _ _ _ I y (or_intror Hdy)) as By.
    destruct (Pf y Hy) as [Hnd Hor]. rewrite (Mem2 y Hnd).
    assert (Ery : (next0 <=? y) && (y <? o_next st') = false) by (apply andb_false_iff; left; apply N.leb_gt; lia).
    rewrite Ery.
    destruct (memb x (o_dels st')); [congruence|].
    assert (Erx : (next0 <=? x) && (x <? o_next st') = false) by (apply andb_false_iff; left; apply N.leb_gt; lia).
    rewrite Erx in Hm.
    assert (Hfp : In y fp) by (destruct Hor; [assumption | lia]).
    apply (iv_pg _ _ _ I1 x y); auto; rewrite Pdk1; assumption.
  - (* the partially filled tail page *)
    intros Hmid y Hy Hp Hm. destruct (Pf y Hy) as [Hnd Hor]. rewrite (Mem2 y Hnd) in Hm.
    destruct ((next0 <=? y) && (y <? o_next st')) eqn:Er; [pose proof (Hdef y Hy); congruence|].
    assert (Hlt : y < next0).
    { apply andb_false_iff in Er. destruct Er as [Er|Er]; [apply N.leb_gt in Er; exact Er|].
      apply N.ltb_ge in Er. apply Bd' in Hy. lia. }
    assert (Hfp : In y fp) by (destruct Hor; [assumption | lia]).
    assert (Ep : page y = page next0).
    { pose proof (page_mono y next0 ltac:(lia)). pose proof (page_mono next0 (o_next st') Hn). lia. }
    assert (Hmid0 : 0 < next0 mod npp) by (eapply same_page_mid; eauto).
    rewrite <- Pn1 in Hmid0, Ep.
    rewrite (iv_tail _ _ _ I1 Hmid0 y Hfp Ep Hm). rewrite <- Hp. exact (eq_sym Ep).
  - intros H. discriminate.
  - pose proof (iv_base _ _ _ I). unfold next0 in *. lia.
  - exact Nd'.
Qed.

(* ---------- renamings ---------- *)
Lemma nodupb_NoDup l : nodupb l = true -> NoDup l.
Proof.
  induction l as [|x l IH]; cbn; intros H; constructor.
  - apply andb_true_iff in H. destruct H as [H _]. apply negb_true_iff in H. apply memb_nIn. exact H.
  - apply IH. apply andb_true_iff in H. tauto.
Qed.

Lemma fwd_notin rho x : ~ In x (map fst rho) -> rho_fwd rho x = x.
Proof.
  unfold rho_fwd. induction rho as [|[a b] rho IH]; cbn; intros H; [reflexivity|].
  destruct (a =? x) eqn:E; [apply N.eqb_eq in E; tauto|]. apply IH. tauto.
Qed.

Lemma fwd_in rho x : In x (map fst rho) -> In (x, rho_fwd rho x) rho.
Proof.
  unfold rho_fwd. induction rho as [|[a b] rho IH]; cbn; intros H; [destruct H|].
  destruct (a =? x) eqn:E.
  - apply N.eqb_eq in E. subst. left. reflexivity.
  - apply N.eqb_neq in E. destruct H as [H|H]; [congruence|]. right. apply IH. exact H.
Qed.

Lemma bwd_notin rho y : ~ In y (map snd rho) -> rho_bwd rho y = None.
Proof.
  unfold rho_bwd. induction rho as [|[a b] rho IH]; cbn; intros H; [reflexivity|].
  destruct (b =? y) eqn:E; [apply N.eqb_eq in E; tauto|]. apply IH. tauto.
Qed.

Lemma bwd_in rho x y : NoDup (map snd rho) -> In (x, y) rho -> rho_bwd rho y = Some x.
Proof.
  unfold rho_bwd. induction rho as [|[a b] rho IH]; cbn; intros Nd H; [destruct H|].
  inversion Nd as [|? ? Hn Nd']; subst.
  destruct (b =? y) eqn:E.
  - apply N.eqb_eq in E. subst. destruct H as [H|H]; [inversion H; reflexivity|].
    exfalso. apply Hn. apply in_map_iff. exists (x, y). auto.
  - apply N.eqb_neq in E. destruct H as [H|H]; [inversion H; congruence|]. apply IH; assumption.
Qed.

Lemma fwd_inj rho x x' : NoDup (map snd rho) ->
  In x (map fst rho) -> In x' (map fst rho) -> rho_fwd rho x = rho_fwd rho x' -> x = x'.
Proof.
  intros Nd H H' E. apply fwd_in in H. apply fwd_in in H'. rewrite E in H.
  pose proof (bwd_in _ _ _ Nd H). pose proof (bwd_in _ _ _ Nd H'). congruence.
Qed.

Lemma ren_id rho n : points_into (map fst rho) n = false -> ren_node rho n = n.
Proof.
  destruct n as [h|cs]; cbn; [reflexivity|]. intros H. f_equal.
  induction cs as [|[i c] cs IH]; cbn in *; [reflexivity|].
  apply orb_false_iff in H. destruct H as [A B]. apply memb_nIn in A.
  rewrite (fwd_notin rho c A), (IH B). reflexivity.
Qed.

Lemma repr_rename_both h h' rho :
  (forall t id fp, repr h t id fp ->
     (forall x, In x fp -> h' (rho_fwd rho x) = option_map (ren_node rho) (h x)) ->
     repr h' t (rho_fwd rho id) (map (rho_fwd rho) fp)) /\
  (forall cs ics fp, reprs h cs ics fp ->
     (forall x, In x fp -> h' (rho_fwd rho x) = option_map (ren_node rho) (h x)) ->
     reprs h' cs (map (fun p => (fst p, rho_fwd rho (snd p))) ics) (map (rho_fwd rho) fp)).
Proof.
  apply repr_reprs_ind.
  - intros id k Hh E. constructor. rewrite E by (left; reflexivity). rewrite Hh. reflexivity.
  - intros id cs ics fp Hh _ IH E. cbn [map].
    apply repr_node with (map (fun p => (fst p, rho_fwd rho (snd p))) ics).
    + rewrite E by (left; reflexivity). rewrite Hh. reflexivity.
    + apply IH. intros x Hx. apply E. right. exact Hx.
  - intros _. constructor.
  - intros i c cid cs ics fpc fp _ IH1 _ IH2 E. cbn [map fst snd]. rewrite map_app. constructor.
    + apply IH1. intros x Hx. apply E. apply in_or_app. left. exact Hx.
    + apply IH2. intros x Hx. apply E. apply in_or_app. right. exact Hx.
Qed.

Lemma in_all_ids s x : In x (all_ids s) <-> base_id <= x < p_next s.
Proof. unfold all_ids. rewrite in_range. lia. Qed.

(* ---------- the loads at the start of commit ---------- *)
Definition good (s : pstore) (fp : list N) (mem : heap) : Prop :=
  Inv (with_mem s mem 0) fp /\ (forall x, rd (with_mem s mem 0) x = rd s x) /\
  (forall x, p_mem s x <> None -> mem x <> None).

Lemma good_merge s fp mem P : good s fp mem -> good s fp (merge_page npp mem (p_disk s) P).
Proof.
  intros (I & R & G).
  assert (E : with_mem s (merge_page npp mem (p_disk s) P) 0 = load (with_mem s mem 0) P).
  { unfold load, with_mem. cbn [p_mem p_disk p_deferred p_root p_next p_elen p_created p_delpages p_modified p_dhas p_droot p_dnext p_delen]. destruct (0 =? P); reflexivity. }
  split; [rewrite E; apply Inv_load; exact I|].
  split; [intros x; rewrite E, (rd_load _ fp P I); apply R|].
  intros x Hx. apply merge_grows. apply G. exact Hx.
Qed.

Lemma good_children s fp : forall cs mem, good s fp mem ->
  good s fp (fold_left (fun m (p : N * N) => match m (snd p) with Some _ => m
                                              | None => merge_page npp m (p_disk s) (page (snd p)) end) cs mem).
Proof.
  induction cs as [|p cs IH]; intros mem G; cbn [fold_left]; [exact G|].
  apply IH. destruct (mem (snd p)); [exact G | apply good_merge; exact G].
Qed.

Lemma good_created s fp : forall l mem, good s fp mem ->
  good s fp (fold_left (load_children npp (p_disk s)) l mem).
Proof.
  induction l as [|x l IH]; intros mem G; cbn [fold_left]; [exact G|].
  apply IH. unfold load_children. destruct (mem x) as [[h|cs]|]; try exact G.
  apply good_children. exact G.
Qed.

Lemma good_start s fp : Inv s fp ->
  good s fp (if p_deferred s =? 0 then p_mem s else merge_page npp (p_mem s) (p_disk s) (p_deferred s)).
Proof.
  intros I. destruct (p_deferred s =? 0) eqn:E.
  - apply N.eqb_eq in E.
    assert (Es : with_mem s (p_mem s) 0 = s) by (unfold with_mem; rewrite <- E; destruct s; reflexivity).
    split; [rewrite Es; exact I|]. split; [rewrite Es; reflexivity | auto].
  - assert (Es : with_mem s (merge_page npp (p_mem s) (p_disk s) (p_deferred s)) 0 = load s (p_deferred s)).
    { unfold load, with_mem. rewrite N.eqb_refl. reflexivity. }
    split; [rewrite Es; apply Inv_load; exact I|].
    split; [intros x; rewrite Es; apply (rd_load s fp); exact I|].
    intros x Hx. apply merge_grows. exact Hx.
Qed.

Lemma NoDup_map_inj_in {A B} (g : A -> B) (l : list A) :
  (forall x y, In x l -> In y l -> g x = g y -> x = y) -> NoDup l -> NoDup (map g l).
Proof.
  induction l as [|a l IH]; intros Inj Nd; cbn; constructor.
  - inversion Nd; subst. intros Hin. apply in_map_iff in Hin. destruct Hin as (y & E & Hy).
    assert (y = a) by (apply Inj; [right; exact Hy | left; reflexivity | exact E]). subst. tauto.
  - inversion Nd; subst. apply IH; [|assumption]. intros x y Hx Hy. apply Inj; right; assumption.
Qed.

(* ---------- commit ---------- *)
Lemma commit_ok s fp rho next' s' :
  Inv s fp -> p_commit npp s rho next' = (s', POk) ->
  Inv s' (map (rho_fwd rho) fp) /\
  (forall x, In x fp -> rd s' (rho_fwd rho x) = option_map (ren_node rho) (rd s x) /\
                        p_disk s' (rho_fwd rho x) = option_map (ren_node rho) (rd s x)) /\
  p_root s' = rho_fwd rho (p_root s) /\ p_droot s' = rho_fwd rho (p_root s) /\ p_dhas s' = true /\
  p_dnext s' = next' /\ p_next s' = next' /\ p_elen s' = p_elen s /\ p_delen s' = p_elen s /\
  p_modified s' = false /\ (forall x, p_disk s' x <> None -> base_id <= x < next') /\ p_next s <= next' /\
  rho_fwd rho 0 = 0.
Proof.
  intros I C. unfold p_commit in C.
  set (mem0 := fold_left (load_children npp (p_disk s)) (p_created s)
                 (if p_deferred s =? 0 then p_mem s else merge_page npp (p_mem s) (p_disk s) (p_deferred s))) in *.
  pose proof (good_created s fp (p_created s) _ (good_start s fp I)) as G. fold mem0 in G.
  destruct G as (I0 & R0 & G0).
  change {| p_mem := mem0; p_disk := p_disk s; p_root := p_root s; p_next := p_next s; p_elen := p_elen s;
            p_created := p_created s; p_delpages := p_delpages s; p_deferred := 0;
            p_modified := p_modified s; p_dhas := p_dhas s; p_droot := p_droot s;
            p_dnext := p_dnext s; p_delen := p_delen s |} with (with_mem s mem0 0) in C.
  set (s0 := with_mem s mem0 0) in *.
  destruct (rho_ok npp s0 rho next') eqn:OK; cbn [negb] in C; [|discriminate].
  inversion C; subst s'; clear C.
  unfold rho_ok in OK. repeat (apply andb_true_iff in OK; destruct OK as [OK ?]).
  rename H into Hdisk. rename H0 into Hran. rename H1 into Hdom. rename H2 into NdR. rename H3 into NdD. rename OK into Hnx.
  apply N.leb_le in Hnx. apply nodupb_NoDup in NdD. apply nodupb_NoDup in NdR.
  rewrite forallb_forall in Hdisk, Hran, Hdom.
  set (f := rho_fwd rho). set (dom := map fst rho) in *. set (ran := map snd rho) in *.
  set (D := commit_dirty npp s0 rho) in *.
  assert (Pn0 : p_next s0 = p_next s) by reflexivity.
  assert (Pm0 : p_mem s0 = mem0) by reflexivity.
  assert (Pd0 : p_disk s0 = p_disk s) by reflexivity.
  assert (Pc0 : p_created s0 = p_created s) by reflexivity.
  assert (Pp0 : p_delpages s0 = p_delpages s) by reflexivity.
  rewrite Pn0 in Hnx.
  assert (Live0 : forall x, In x fp -> match mem0 x with Some n => Some n | None => p_disk s x end <> None)
    by exact (iv_live _ _ _ I0).
  assert (New0 : forall x, mem0 x <> None -> p_disk s x <> None \/ In x (p_created s)) by exact (iv_new _ _ _ I0).
  assert (Coh0 : forall x n n', mem0 x = Some n -> p_disk s x = Some n' -> n = n') by exact (iv_coh _ _ _ I0).
  assert (Pg0 : forall x y, mem0 x <> None -> p_disk s x <> None -> In y fp -> page y = page x ->
                            p_disk s y <> None -> mem0 y <> None) by exact (iv_pg _ _ _ I0).
  assert (Safe0 : forall x, In x fp -> mem0 x = None -> In (page x) (dirty s) -> 0 = page x) by exact (iv_safe _ _ _ I0).
  assert (Hru : p_next s <= round_up npp (p_next s)) by apply round_up_ge.
  (* facts about the renaming *)
  assert (DomMem : forall x, In x dom -> mem0 x <> None).
  { intros x Hx. apply in_map_iff in Hx. destruct Hx as (p & <- & Hp). specialize (Hdom p Hp).
    cbn in Hdom. destruct (mem0 (fst p)); [congruence | discriminate]. }
  assert (RanB : forall y, In y ran -> round_up npp (p_next s) <= y < next').
  { intros y Hy. apply in_map_iff in Hy. destruct Hy as (p & <- & Hp). specialize (Hran p Hp).
    apply andb_true_iff in Hran. destruct Hran as [A B]. apply N.leb_le in A. apply N.ltb_lt in B.
    rewrite Pn0 in A. split; assumption. }
  assert (Old : forall x, (mem0 x <> None \/ p_disk s x <> None) -> base_id <= x < p_next s).
  { intros x H. apply (iv_bnd _ _ _ I0 x). exact H. }
  assert (DomOld : forall x, In x dom -> base_id <= x < p_next s) by (intros x Hx; apply Old; left; apply DomMem; exact Hx).
  assert (OldNotRan : forall x, x < p_next s -> ~ In x ran) by (intros x Hx Hr; apply RanB in Hr; lia).
  assert (Ffix : forall x, ~ In x dom -> f x = x) by (intros x Hx; apply fwd_notin; exact Hx).
  assert (Fran : forall x, In x dom -> In (f x) ran /\ rho_bwd rho (f x) = Some x).
  { intros x Hx. pose proof (fwd_in rho x Hx) as Hp. split.
    - apply in_map_iff. exists (x, rho_fwd rho x). auto.
    - apply bwd_in; assumption. }
  set (mem1 := fun y => match rho_bwd rho y with
                        | Some x => option_map (ren_node rho) (mem0 x)
                        | None => if memb y dom then None else option_map (ren_node rho) (mem0 y)
                        end).
  set (disk1 := fun y => if memb (page y) D then mem1 y else p_disk s y).
  (* the renamed memory *)
  assert (M1 : forall x, x < p_next s -> mem1 (f x) = option_map (ren_node rho) (mem0 x)).
  { intros x Hx. unfold mem1. destruct (in_dec N.eq_dec x dom) as [Hd|Hd].
    - destruct (Fran x Hd) as [_ ->]. reflexivity.
    - unfold f. rewrite (fwd_notin rho x Hd). rewrite bwd_notin by (apply OldNotRan; exact Hx).
      apply memb_nIn in Hd. rewrite Hd. reflexivity. }
  assert (Hb : base_id <= p_next s) by exact (iv_base _ _ _ I).
  assert (M1new : forall y, mem1 y <> None -> base_id <= y < next').
  { intros y Hy. unfold mem1 in Hy. destruct (rho_bwd rho y) as [x|] eqn:Eb.
    - unfold rho_bwd in Eb. destruct (List.find (fun p => snd p =? y) rho) as [p|] eqn:Ef; [|discriminate].
      apply find_some in Ef. destruct Ef as [Hp Ey]. apply N.eqb_eq in Ey.
      assert (In y ran) by (apply in_map_iff; exists p; auto). apply RanB in H. lia.
    - destruct (memb y dom); [congruence|]. destruct (mem0 y) eqn:My; [|cbn in Hy; congruence].
      assert (base_id <= y < p_next s) by (apply Old; left; congruence). lia. }
  assert (Pos : forall x, base_id <= x -> page x <> 0) by (intros x Hx; pose proof (page_pos x Hx); lia).
  (* a live node missing from memory lies on a page that is not rewritten *)
  assert (Miss : forall x, In x fp -> mem0 x = None -> ~ In (page x) D).
  { intros x Hx Hm HD.
    assert (Lx : p_disk s x <> None).
    { pose proof (Live0 x Hx) as L. rewrite Hm in L. exact L. }
    assert (Bx : base_id <= x < p_next s) by (apply Old; right; exact Lx).
    assert (NoSafe : ~ In (page x) (dirty s)).
    { intros Hd. pose proof (Safe0 x Hx Hm Hd) as E. apply (Pos x); [lia | congruence]. }
    assert (InMemCase : forall z, mem0 z <> None -> page x = page z -> False).
    { intros z Hz Ep. destruct (New0 z Hz) as [A|A].
      - apply (Pg0 z x Hz A Hx Ep Lx). exact Hm.
      - apply NoSafe. unfold dirty. apply in_or_app. left. apply in_map_iff. exists z. auto. }
    unfold D, commit_dirty in HD. apply in_app_or in HD. destruct HD as [HD|HD].
    - apply in_map_iff in HD. destruct HD as (z & Ez & Hz). rewrite Pc0 in Hz.
      repeat (apply in_app_or in Hz; destruct Hz as [Hz|Hz]).
      + apply NoSafe. unfold dirty. apply in_or_app. left. apply in_map_iff. exists z. auto.
      + apply (InMemCase z); [apply DomMem; exact Hz | congruence].
      + apply RanB in Hz. eapply (round_up_page x (p_next s) z); [lia | lia | congruence].
      + unfold commit_parents in Hz. apply filter_In in Hz. destruct Hz as [_ Hz]. rewrite Pm0 in Hz.
        apply (InMemCase z); [destruct (mem0 z); [congruence | discriminate] | congruence].
    - apply NoSafe. unfold dirty. apply in_or_app. right. exact HD. }
  assert (Parent : forall x n, mem0 x = Some n -> ~ In (page x) D -> points_into dom n = false).
  { intros x n Hm HD. destruct (points_into dom n) eqn:E; [|reflexivity]. exfalso. apply HD.
    unfold D, commit_dirty. apply in_or_app. left. apply in_map_iff. exists x. split; [reflexivity|].
    apply in_or_app. right. apply in_or_app. right. apply in_or_app. right.
    unfold commit_parents. apply filter_In. split.
    - apply in_all_ids. rewrite Pn0. apply Old. left. congruence.
    - rewrite Pm0, Hm. exact E. }
  (* Claim A *)
  assert (A : forall x, In x fp ->
            disk1 (f x) = option_map (ren_node rho) (rd s x) /\
            (match mem1 (f x) with Some n => Some n | None => disk1 (f x) end) = option_map (ren_node rho) (rd s x)).
  { intros x Hx. rewrite <- R0. change (rd s0 x) with (match mem0 x with Some n => Some n | None => p_disk s x end).
    pose proof (Live0 x Hx) as L.
    assert (Bx : base_id <= x < p_next s).
    { apply Old. destruct (mem0 x); [left; congruence | right; exact L]. }
    rewrite (M1 x) by lia.
    assert (Dk : disk1 (f x) = option_map (ren_node rho) (match mem0 x with Some n => Some n | None => p_disk s x end)).
    { unfold disk1. destruct (in_dec N.eq_dec x dom) as [Hd|Hd].
      - destruct (Fran x Hd) as [Hr _].
        assert (HD : memb (page (f x)) D = true).
        { apply memb_In. unfold D, commit_dirty. apply in_or_app. left. apply in_map_iff. exists (f x).
          split; [reflexivity|]. apply in_or_app. right. apply in_or_app. right. apply in_or_app. left. exact Hr. }
        rewrite HD, (M1 x) by lia. pose proof (DomMem x Hd). destruct (mem0 x); [reflexivity | congruence].
      - rewrite (Ffix x Hd). destruct (memb (page x) D) eqn:HD.
        + apply memb_In in HD. pose proof (M1 x ltac:(lia)) as Mx. rewrite (Ffix x Hd) in Mx. rewrite Mx.
          destruct (mem0 x) eqn:Mm; [reflexivity|]. exfalso. apply (Miss x Hx Mm HD).
        + apply memb_nIn in HD. destruct (mem0 x) as [n|] eqn:Mm.
          * destruct (New0 x ltac:(congruence)) as [Hdk|Hc].
            -- destruct (p_disk s x) as [n'|] eqn:Dk; [|congruence].
               assert (n = n') by (eapply (Coh0 x); eauto). subst n'.
               cbn. rewrite (ren_id rho n (Parent x n Mm HD)). reflexivity.
            -- exfalso. apply HD. unfold D, commit_dirty. apply in_or_app. left. apply in_map_iff.
               exists x. split; [reflexivity|]. apply in_or_app. left. exact Hc.
          * destruct (p_disk s x) as [n|] eqn:Dk; [|congruence].
            assert (Hall : In x (all_ids s0)) by (apply in_all_ids; rewrite Pn0; exact Bx).
            specialize (Hdisk x Hall). rewrite Pm0, Pd0, Mm, Dk in Hdisk.
            fold D dom in Hdisk. apply memb_nIn in HD. rewrite HD in Hdisk. cbn in Hdisk.
            apply negb_true_iff in Hdisk. cbn. rewrite (ren_id rho n Hdisk). reflexivity. }
    split; [exact Dk|]. destruct (mem0 x); [reflexivity | exact Dk]. }
  assert (Finj : forall x y, In x fp -> In y fp -> f x = f y -> x = y).
  { intros x y Hx Hy E.
    assert (Bnd : forall z, In z fp -> z < p_next s).
    { intros z Hz. pose proof (Live0 z Hz) as L.
      assert (base_id <= z < p_next s) by (apply Old; destruct (mem0 z); [left; congruence | right; exact L]). lia. }
    destruct (in_dec N.eq_dec x dom) as [Hdx|Hdx]; destruct (in_dec N.eq_dec y dom) as [Hdy|Hdy].
    - eapply fwd_inj; eauto.
    - rewrite (Ffix y Hdy) in E. destruct (Fran x Hdx) as [Hr _]. rewrite E in Hr.
      exfalso. apply (OldNotRan y); [apply Bnd; exact Hy | exact Hr].
    - rewrite (Ffix x Hdx) in E. destruct (Fran y Hdy) as [Hr _]. rewrite <- E in Hr.
      exfalso. apply (OldNotRan x); [apply Bnd; exact Hx | exact Hr].
    - rewrite (Ffix x Hdx), (Ffix y Hdy) in E. exact E. }
  cbn [p_root p_droot p_dhas p_dnext p_next p_elen p_delen p_modified p_disk p_mem].
  fold mem1 disk1.
  assert (Dbound : forall y, disk1 y <> None -> base_id <= y < next').
  { intros y Hy. unfold disk1 in Hy. destruct (memb (page y) D); [apply M1new; exact Hy|].
    assert (base_id <= y < p_next s) by (apply Old; right; exact Hy). lia. }
  split; [|split; [|do 8 (split; [reflexivity|]); split; [|split]]].
  - (* the invariant of the committed state *)
    constructor; cbn [p_mem p_disk p_next p_created p_delpages p_deferred p_modified].
    + intros y [Hy|Hy]; [apply M1new | apply Dbound]; exact Hy.
    + intros y n n' Hm Hd. change (disk1 y = Some n') in Hd. change (mem1 y = Some n) in Hm.
      unfold disk1 in Hd. destruct (memb (page y) D) eqn:HD; [congruence|].
      apply memb_nIn in HD.
      assert (By : base_id <= y < p_next s) by (apply Old; right; congruence).
      assert (Hnd : ~ In y dom).
      { intros Hd'. apply HD. unfold D, commit_dirty. apply in_or_app. left. apply in_map_iff. exists y.
        split; [reflexivity|]. apply in_or_app. right. apply in_or_app. left. exact Hd'. }
      pose proof (M1 y ltac:(lia)) as My. rewrite (Ffix y Hnd) in My. rewrite My in Hm.
      destruct (mem0 y) as [n0|] eqn:Mm; [|discriminate]. cbn in Hm. inversion Hm; subst n.
      assert (n0 = n') by (eapply (Coh0 y); eauto). subst n'.
      apply ren_id. eapply Parent; eauto.
    + intros y Hy. change (mem1 y <> None) in Hy. left. change (disk1 y <> None). unfold disk1. destruct (memb (page y) D) eqn:HD; [exact Hy|].
      apply memb_nIn in HD.
      assert (Hnr : ~ In y ran).
      { intros Hr. apply HD. unfold D, commit_dirty. apply in_or_app. left. apply in_map_iff. exists y.
        split; [reflexivity|]. apply in_or_app. right. apply in_or_app. right. apply in_or_app. left. exact Hr. }
      unfold mem1 in Hy. rewrite (bwd_notin rho y Hnr) in Hy. destruct (memb y dom); [congruence|].
      destruct (mem0 y) eqn:Mm; [|cbn in Hy; congruence].
      destruct (New0 y ltac:(congruence)) as [Hd|Hc]; [exact Hd|].
      exfalso. apply HD. unfold D, commit_dirty. apply in_or_app. left. apply in_map_iff.
      exists y. split; [reflexivity|]. apply in_or_app. left. exact Hc.
    + intros y Hy. apply in_map_iff in Hy. destruct Hy as (x & <- & Hx).
      change (match mem1 (f x) with Some n => Some n | None => disk1 (f x) end <> None).
      destruct (A x Hx) as [_ ->]. pose proof (iv_live _ _ _ I x Hx). destruct (rd s x); [discriminate | congruence].
    + intros y _ _ []. 
    + intros x y Hm Hd Hy Hp Hdy. change (mem1 x <> None) in Hm. change (disk1 x <> None) in Hd.
      change (disk1 y <> None) in Hdy. change (mem1 y <> None).
      unfold disk1 in Hdy, Hd. rewrite Hp in Hdy. destruct (memb (page x) D) eqn:HD; [exact Hdy|].
      apply memb_nIn in HD. apply in_map_iff in Hy. destruct Hy as (y0 & Ey & Hy0).
      assert (By : base_id <= y < p_next s) by (apply Old; right; exact Hdy).
      assert (Hnd : ~ In y0 dom).
      { intros Hd'. destruct (Fran y0 Hd') as [Hr _]. fold f in Ey. rewrite Ey in Hr. apply RanB in Hr. lia. }
      fold f in Ey. rewrite (Ffix y0 Hnd) in Ey. subst y0.
      assert (Bx : base_id <= x < p_next s) by (apply Old; right; exact Hd).
      assert (Hndx : ~ In x dom).
      { intros Hd'. apply HD. unfold D, commit_dirty. apply in_or_app. left. apply in_map_iff. exists x.
        split; [reflexivity|]. apply in_or_app. right. apply in_or_app. left. exact Hd'. }
      pose proof (M1 x ltac:(lia)) as Mx. rewrite (Ffix x Hndx) in Mx. rewrite Mx in Hm.
      pose proof (M1 y ltac:(lia)) as My. rewrite (Ffix y Hnd) in My. rewrite My.
      assert (mem0 y <> None).
      { apply (Pg0 x y); auto. destruct (mem0 x); [congruence | cbn in Hm; congruence]. }
      destruct (mem0 y); [discriminate | congruence].
    + intros Hmid y Hy Hp Hm. exfalso. change (mem1 y = None) in Hm. apply in_map_iff in Hy. destruct Hy as (y0 & Ey & Hy0). fold f in Ey.
      pose proof (Live0 y0 Hy0) as L.
      assert (By0 : base_id <= y0 < p_next s) by (apply Old; destruct (mem0 y0); [left; congruence | right; exact L]).
      destruct (in_dec N.eq_dec y0 dom) as [Hd|Hd].
      * rewrite <- Ey, (M1 y0) in Hm by lia. pose proof (DomMem y0 Hd). destruct (mem0 y0); [discriminate | congruence].
      * rewrite (Ffix y0 Hd) in Ey. subst y0.
        eapply (round_up_page y (p_next s) next'); [lia | lia | exact Hp].
    + auto.
    + pose proof (iv_base _ _ _ I). lia.
    + apply NoDup_map_inj_in; [|exact (iv_nd _ _ _ I)]. intros x y Hx Hy E. apply Finj; assumption.
  - (* live and stored views of the renamed footprint *)
    intros x Hx. destruct (A x Hx) as [A1 A2]. split; [exact A2 | exact A1].
  - intros z Hz. apply Dbound in Hz. lia.
  - lia.
  - apply Ffix. intros H0. apply DomOld in H0. unfold base_id in H0. lia.
Qed.

(* ---------- evict (with the repaired rule), reload, getNode ---------- *)
Lemma evict_ok s fp Dp : Inv s fp -> p_modified s = false ->
  Inv (p_evict npp true s Dp) fp /\ (forall x, rd (p_evict npp true s Dp) x = rd s x).
Proof.
  intros I Hc. destruct (iv_clean _ _ _ I Hc) as [Cr Dl].
  assert (RD : forall x, rd (p_evict npp true s Dp) x = rd s x).
  { intros x. unfold MerkleTrieStore.rd, p_evict. cbn [p_mem p_disk].
    destruct (memb (page x) Dp); [|reflexivity]. destruct (p_mem s x) as [n|] eqn:M; [|reflexivity].
    destruct (iv_new _ _ _ I x ltac:(congruence)) as [A|A]; [|rewrite Cr in A; destruct A].
    destruct (p_disk s x) as [n'|] eqn:Dk; [|congruence]. f_equal. symmetry. eapply iv_coh; eauto. }
  split; [|exact RD].
  assert (Sub : forall x, p_mem (p_evict npp true s Dp) x <> None -> p_mem s x <> None /\ ~ In (page x) Dp).
  { intros x H. unfold p_evict in H. cbn [p_mem] in H. destruct (memb (page x) Dp) eqn:E; [congruence|].
    apply memb_nIn in E. tauto. }
  constructor.
  - intros x [H|H]; apply (iv_bnd _ _ _ I); [left; apply Sub; exact H | right; exact H].
  - intros x n n' Hm Hd. unfold p_evict in Hm. cbn [p_mem p_disk] in *. destruct (memb (page x) Dp); [discriminate|].
    eapply iv_coh; eauto.
  - intros x H. apply Sub in H. apply (iv_new _ _ _ I). tauto.
  - intros x Hx. rewrite RD. apply (iv_live _ _ _ I). exact Hx.
  - intros x _ _ Hd. unfold dirty, p_evict in Hd. cbn [p_created p_delpages] in Hd. rewrite Cr, Dl in Hd. destruct Hd.
  - intros x y Hm Hd Hy Hp Hdy. apply Sub in Hm. destruct Hm as [Hm Hn].
    unfold p_evict. cbn [p_mem p_disk] in *. rewrite Hp. apply memb_nIn in Hn. rewrite Hn.
    eapply (iv_pg _ _ _ I x y); eauto.
  - intros Hmid y Hy Hp Hm. unfold p_evict in *. cbn [p_mem p_next p_deferred] in *.
    set (T := page (p_next s)) in *.
    destruct (memb T Dp) eqn:ET.
    + destruct (existsb (fun x => (page x =? T) && match p_mem s x with Some _ => true | None => false end) (all_ids s)) eqn:EH.
      * apply N.ltb_lt in Hmid. rewrite Hmid. reflexivity.
      * rewrite andb_false_r.
        assert (My : p_mem s y = None).
        { destruct (p_mem s y) eqn:M; [|reflexivity]. exfalso.
          assert (In y (all_ids s)).
          { apply in_all_ids. apply (iv_bnd _ _ _ I). left. congruence. }
          rewrite <- not_true_iff_false in EH. apply EH. apply existsb_exists. exists y. split; [assumption|].
          rewrite M, Hp, N.eqb_refl. reflexivity. }
        apply (iv_tail _ _ _ I Hmid y Hy Hp My).
    + rewrite andb_false_r. cbn [andb]. rewrite Hp, ET in Hm. apply (iv_tail _ _ _ I Hmid y Hy Hp Hm).
  - exact (iv_clean _ _ _ I).
  - exact (iv_base _ _ _ I).
  - exact (iv_nd _ _ _ I).
Qed.

Lemma get_ok s fp x : Inv s fp -> Inv (p_get npp s x) fp /\ (forall y, rd (p_get npp s x) y = rd s y).
Proof.
  intros I. unfold p_get. destruct (p_mem s x); [split; [exact I | reflexivity]|].
  change (Inv (load s (page x)) fp /\ forall y, rd (load s (page x)) y = rd s y).
  split; [apply Inv_load; exact I | apply (rd_load s fp); exact I].
Qed.

Lemma reload_ok s fpd :
  (if p_dhas s
   then (forall x, p_disk s x <> None -> base_id <= x < p_dnext s) /\ base_id <= p_dnext s /\
        (forall x, In x fpd -> p_disk s x <> None) /\ NoDup fpd
   else fpd = [] /\ forall x, p_disk s x = None) ->
  Inv (p_reload npp s) fpd /\ (forall x, rd (p_reload npp s) x = p_disk s x).
Proof.
  intros H. unfold p_reload. destruct (p_dhas s).
  - destruct H as (Bd & Bs & Lv & Nd).
    split; [|intros x; reflexivity].
    constructor; cbn [p_mem p_disk p_next p_created p_delpages p_deferred p_modified]; unfold hempty.
    + intros x [A|A]; [congruence | apply Bd; exact A].
    + intros; discriminate.
    + intros x A. congruence.
    + intros x Hx. unfold MerkleTrieStore.rd. cbn. unfold hempty. apply Lv. exact Hx.
    + intros x _ _ [].
    + intros x y A. congruence.
    + intros Hmid y Hy Hp _. pose proof (Bd y (Lv y Hy)) as By.
      assert (E : negb (p_dnext s =? base_id) = true).
      { apply negb_true_iff. apply N.eqb_neq. lia. }
      rewrite E. apply N.ltb_lt in Hmid. rewrite Hmid. reflexivity.
    + auto.
    + exact Bs.
    + exact Nd.
  - destruct H as [-> Em]. split; [|intros x; reflexivity].
    constructor; cbn [p_mem p_disk p_next p_created p_delpages p_deferred p_modified]; unfold hempty.
    + intros x [A|A]; [congruence | rewrite Em in A; congruence].
    + intros; discriminate.
    + intros x A. congruence.
    + intros x [].
    + intros x [].
    + intros x y A. congruence.
    + intros _ y [].
    + auto.
    + lia.
    + constructor.
Qed.
End Paged.
