(* C15 lemmas: the msgpack encoding of ledgercore.AccountTotals that goes into the label
   pre-image ([enc_totals], model/CatchpointHash.v) is injective, in fact self-delimiting.
   Generic part: a canonical omitempty struct encoding (field count, then name/value pairs of
   the non-empty fields in a fixed order of pairwise different names) is prefix-injective when
   the value encodings are. *)
From Coq Require Import List NArith Bool Lia ZifyN ZifyNat ZifyBool.
Import ListNotations.
From Verif.model Require Import CatchpointHash.
From Verif.proofs Require Import CatchpointHashProofs.
Open Scope N_scope.

(* a set of byte strings none of which is a proper prefix of another, in the strong form
   "the split point of a concatenation is determined" *)
Definition pinj (P : bytes -> Prop) : Prop :=
  forall p1 p2 r1 r2, P p1 -> P p2 -> p1 ++ r1 = p2 ++ r2 -> p1 = p2 /\ r1 = r2.

Lemma Some_inj {A} (a b : A) : Some a = Some b -> a = b.
Proof. intro E. now injection E. Qed.

(* ---------- integers ---------- *)
Lemma be_low_rev n : forall x acc, be_low n x acc = rev (le_bytes n x) ++ acc.
Proof.
  induction n as [|n IH]; intros x acc; cbn [be_low le_bytes rev]; [reflexivity|].
  rewrite IH, <- app_assoc. reflexivity.
Qed.

Lemma be_low_app_inj n x y r1 r2 :
  x < 256 ^ N.of_nat n -> y < 256 ^ N.of_nat n ->
  be_low n x [] ++ r1 = be_low n y [] ++ r2 -> x = y /\ r1 = r2.
Proof.
  intros Bx By E. apply app_eq_len in E as [E ->]; [| now rewrite !be_low_length].
  split; auto. rewrite !be_low_rev, !app_nil_r in E.
  apply (f_equal (@rev N)) in E. rewrite !rev_involutive in E.
  now apply (le_bytes_inj n).
Qed.

Lemma msgp_uint_cases x :
  (x < 128 /\ msgp_uint x = [x]) \/
  (128 <= x < 256 /\ msgp_uint x = [204; x]) \/
  (256 <= x < 65536 /\ msgp_uint x = 205 :: be_low 2 x []) \/
  (65536 <= x < 4294967296 /\ msgp_uint x = 206 :: be_low 4 x []) \/
  (4294967296 <= x /\ msgp_uint x = 207 :: be_low 8 x []).
Proof.
  unfold msgp_uint.
  destruct (x <? 128) eqn:A; [left; split; [lia | reflexivity]|].
  destruct (x <? 256) eqn:B; [right; left; split; [lia | reflexivity]|].
  destruct (x <? 65536) eqn:C; [right; right; left; split; [lia | reflexivity]|].
  destruct (x <? 4294967296) eqn:D; [right; right; right; left; split; [lia | reflexivity]|].
  right; right; right; right; split; [lia | reflexivity].
Qed.

Definition P_uint (p : bytes) : Prop := exists x, x < 2 ^ 64 /\ p = msgp_uint x.

Lemma msgp_uint_inj x y r1 r2 :
  x < 2 ^ 64 -> y < 2 ^ 64 -> msgp_uint x ++ r1 = msgp_uint y ++ r2 -> x = y /\ r1 = r2.
Proof.
  intros Bx By E.
  assert (2 ^ 64 = 18446744073709551616) as P64 by reflexivity. rewrite P64 in Bx, By. clear P64.
  destruct (msgp_uint_cases x) as [[Rx Ex] | [[Rx Ex] | [[Rx Ex] | [[Rx Ex] | [Rx Ex]]]]];
    destruct (msgp_uint_cases y) as [[Ry Ey] | [[Ry Ey] | [[Ry Ey] | [[Ry Ey] | [Ry Ey]]]]];
    rewrite Ex, Ey in E; cbn [app] in E; clear Ex Ey;
    pose proof (f_equal (hd 0) E) as Hh; cbn [hd] in Hh;
    try (exfalso; clear E; lia).
  - injection E as _ E. auto.
  - injection E as E1 E2. auto.
  - apply (f_equal (@tl N)) in E; cbn [tl] in E. apply (be_low_app_inj 2) in E; auto;
      change (256 ^ N.of_nat 2) with 65536; lia.
  - apply (f_equal (@tl N)) in E; cbn [tl] in E. apply (be_low_app_inj 4) in E; auto;
      change (256 ^ N.of_nat 4) with 4294967296; lia.
  - apply (f_equal (@tl N)) in E; cbn [tl] in E. apply (be_low_app_inj 8) in E; auto;
      change (256 ^ N.of_nat 8) with 18446744073709551616; lia.
Qed.

Lemma pinj_uint : pinj P_uint.
Proof. intros p1 p2 r1 r2 [x [Bx ->]] [y [By ->]] E. destruct (msgp_uint_inj _ _ _ _ Bx By E) as [-> ->]. auto. Qed.

Lemma opt_uint_P x p : x < 2 ^ 64 -> opt_uint x = Some p -> P_uint p.
Proof. unfold opt_uint. intros B E. destruct (x =? 0); [discriminate|]. injection E as <-. exists x; auto. Qed.

Lemma opt_uint_inj x y : x < 2 ^ 64 -> y < 2 ^ 64 -> opt_uint x = opt_uint y -> x = y.
Proof.
  unfold opt_uint. intros Bx By E.
  destruct (x =? 0) eqn:X; destruct (y =? 0) eqn:Y; try discriminate; [lia|].
  apply Some_inj in E.
  assert (msgp_uint x ++ [] = msgp_uint y ++ []) as E' by now rewrite E.
  now destruct (msgp_uint_inj _ _ _ _ Bx By E').
Qed.

(* ---------- omitempty structs ---------- *)
Definition fld := (bytes * option bytes)%type.
Definition is_present (f : fld) : bool := match snd f with Some _ => true | None => false end.
Definition enc_field (f : fld) : bytes := match snd f with Some v => msgp_name (fst f) ++ v | None => [] end.
Definition npresent (fs : list fld) : nat := length (filter is_present fs).
Definition body (fs : list fld) : bytes := concat (map enc_field (filter is_present fs)).

Lemma msgp_struct_eq fs : msgp_struct fs = (128 + N.of_nat (npresent fs)) :: body fs.
Proof. reflexivity. Qed.

Lemma body_some n p fs : body ((n, Some p) :: fs) = msgp_name n ++ p ++ body fs.
Proof. unfold body. cbn [filter is_present snd map concat enc_field fst]. now rewrite app_assoc. Qed.
Lemma body_none n fs : body ((n, None) :: fs) = body fs.
Proof. reflexivity. Qed.
Lemma npresent_some n p fs : npresent ((n, Some p) :: fs) = S (npresent fs).
Proof. reflexivity. Qed.
Lemma npresent_none n fs : npresent ((n, None) :: fs) = npresent fs.
Proof. reflexivity. Qed.

Lemma msgp_name_inj n1 n2 x y : msgp_name n1 ++ x = msgp_name n2 ++ y -> n1 = n2 /\ x = y.
Proof.
  unfold msgp_name. cbn [app]. intro E.
  pose proof (f_equal (hd 0) E) as Hl. apply (f_equal (@tl N)) in E. cbn [hd tl] in Hl, E.
  apply app_eq_len in E; auto. lia.
Qed.

Lemma body_starts fs : (0 < npresent fs)%nat ->
  exists n p rest, In n (map fst fs) /\ body fs = msgp_name n ++ p ++ rest.
Proof.
  induction fs as [|[n [p|]] fs IH]; intro Hp.
  - cbn in Hp. lia.
  - exists n, p, (body fs). split; [now left | apply body_some].
  - rewrite npresent_none in Hp. destruct (IH Hp) as [n' [p' [rest [I E]]]].
    exists n', p', rest. split; [now right | now rewrite body_none].
Qed.

Inductive compat : list fld -> list fld -> Prop :=
| compat_nil : compat [] []
| compat_cons n o1 o2 (P : bytes -> Prop) l1 l2 :
    pinj P -> (forall p, o1 = Some p -> P p) -> (forall p, o2 = Some p -> P p) ->
    compat l1 l2 -> compat ((n, o1) :: l1) ((n, o2) :: l2).

Lemma compat_names l1 l2 : compat l1 l2 -> map fst l1 = map fst l2.
Proof. induction 1; cbn [map fst]; congruence. Qed.

Lemma body_inj l1 l2 :
  compat l1 l2 -> NoDup (map fst l1) -> npresent l1 = npresent l2 ->
  forall r1 r2, body l1 ++ r1 = body l2 ++ r2 -> map snd l1 = map snd l2 /\ r1 = r2.
Proof.
  induction 1 as [| n o1 o2 P l1 l2 PI P1 P2 C IH]; intros ND NP r1 r2 E.
  - cbn in E. auto.
  - cbn [map fst] in ND. inversion ND as [| ? ? Hnot ND']; subst.
    destruct o1 as [p1|]; destruct o2 as [p2|].
    + rewrite !body_some, <- !app_assoc in E. rewrite !npresent_some in NP.
      apply msgp_name_inj in E as [_ E].
      destruct (PI p1 p2 _ _ (P1 _ eq_refl) (P2 _ eq_refl) E) as [-> E'].
      destruct (IH ND' (eq_add_S _ _ NP) _ _ E') as [Q ->]. cbn [map snd]. split; congruence.
    + exfalso. rewrite body_some, body_none, npresent_some, npresent_none in *.
      destruct (body_starts l2) as [n' [p' [rest [I B]]]]; [lia|].
      rewrite B, <- !app_assoc in E. apply msgp_name_inj in E as [-> _].
      apply Hnot. now rewrite (compat_names _ _ C).
    + exfalso. rewrite body_some, body_none, npresent_some, npresent_none in *.
      destruct (body_starts l1) as [n' [p' [rest [I B]]]]; [lia|].
      rewrite B, <- !app_assoc in E. apply msgp_name_inj in E as [-> _].
      now apply Hnot.
    + rewrite !body_none in E. rewrite !npresent_none in NP.
      destruct (IH ND' NP _ _ E) as [Q ->]. cbn [map snd]. split; congruence.
Qed.

Lemma struct_inj l1 l2 r1 r2 :
  compat l1 l2 -> NoDup (map fst l1) ->
  msgp_struct l1 ++ r1 = msgp_struct l2 ++ r2 -> map snd l1 = map snd l2 /\ r1 = r2.
Proof.
  intros C ND E. rewrite !msgp_struct_eq in E. cbn [app] in E.
  pose proof (f_equal (hd 0) E) as Hn. apply (f_equal (@tl N)) in E. cbn [hd tl] in Hn, E.
  apply (body_inj _ _ C ND); auto. lia.
Qed.

(* ---------- AlgoCount ---------- *)
Definition n_mon : bytes := [109; 111; 110].
Definition n_rwd : bytes := [114; 119; 100].
Definition ac_fields (m r : N) : list fld := [(n_mon, opt_uint m); (n_rwd, opt_uint r)].

Definition P_ac (p : bytes) : Prop :=
  exists m r, m < 2 ^ 64 /\ r < 2 ^ 64 /\ p = msgp_struct (ac_fields m r).

Ltac in_consts Q := repeat (destruct Q as [Q | Q]; [discriminate Q|]); exact Q.
Ltac nodup_consts :=
  repeat (constructor; [cbn [In]; let Q := fresh "Q" in intro Q; in_consts Q |]);
  constructor.

Lemma ac_compat m1 r1 m2 r2 :
  m1 < 2 ^ 64 -> r1 < 2 ^ 64 -> m2 < 2 ^ 64 -> r2 < 2 ^ 64 ->
  compat (ac_fields m1 r1) (ac_fields m2 r2).
Proof.
  intros. unfold ac_fields.
  apply compat_cons with (P := P_uint); [exact pinj_uint | intros ? Hp; eapply opt_uint_P; [| exact Hp]; assumption ..|].
  apply compat_cons with (P := P_uint); [exact pinj_uint | intros ? Hp; eapply opt_uint_P; [| exact Hp]; assumption ..|].
  constructor.
Qed.

Lemma ac_nodup m r : NoDup (map fst (ac_fields m r)).
Proof. cbn [ac_fields map fst]. unfold n_mon, n_rwd. nodup_consts. Qed.

Lemma ac_struct_inj m1 r1 m2 r2 x1 x2 :
  m1 < 2 ^ 64 -> r1 < 2 ^ 64 -> m2 < 2 ^ 64 -> r2 < 2 ^ 64 ->
  msgp_struct (ac_fields m1 r1) ++ x1 = msgp_struct (ac_fields m2 r2) ++ x2 ->
  m1 = m2 /\ r1 = r2 /\ x1 = x2.
Proof.
  intros B1 B2 B3 B4 E.
  destruct (struct_inj _ _ _ _ (ac_compat _ _ _ _ B1 B2 B3 B4) (ac_nodup _ _) E) as [Q ->].
  cbn [ac_fields map snd] in Q. injection Q as Q1 Q2.
  repeat split; auto using opt_uint_inj.
Qed.

Lemma pinj_ac : pinj P_ac.
Proof.
  intros p1 p2 x1 x2 [m1 [r1 [B1 [B2 ->]]]] [m2 [r2 [B3 [B4 ->]]]] E.
  destruct (ac_struct_inj _ _ _ _ _ _ B1 B2 B3 B4 E) as [-> [-> ->]]. auto.
Qed.

Lemma enc_algocount_eq m r :
  enc_algocount m r = if (m =? 0) && (r =? 0) then None else Some (msgp_struct (ac_fields m r)).
Proof. reflexivity. Qed.

Lemma enc_algocount_P m r p : m < 2 ^ 64 -> r < 2 ^ 64 -> enc_algocount m r = Some p -> P_ac p.
Proof.
  intros B1 B2. rewrite enc_algocount_eq. destruct ((m =? 0) && (r =? 0)); [discriminate|].
  intro E. injection E as <-. exists m, r. auto.
Qed.

Lemma enc_algocount_inj m1 r1 m2 r2 :
  m1 < 2 ^ 64 -> r1 < 2 ^ 64 -> m2 < 2 ^ 64 -> r2 < 2 ^ 64 ->
  enc_algocount m1 r1 = enc_algocount m2 r2 -> m1 = m2 /\ r1 = r2.
Proof.
  intros B1 B2 B3 B4. rewrite !enc_algocount_eq.
  destruct ((m1 =? 0) && (r1 =? 0)) eqn:Z1; destruct ((m2 =? 0) && (r2 =? 0)) eqn:Z2; intro E; try discriminate.
  - lia.
  - apply Some_inj in E.
    assert (msgp_struct (ac_fields m1 r1) ++ [] = msgp_struct (ac_fields m2 r2) ++ []) as E' by now rewrite E.
    destruct (ac_struct_inj _ _ _ _ _ _ B1 B2 B3 B4 E') as [-> [-> _]]. auto.
Qed.

(* ---------- AccountTotals ---------- *)
Definition wf_totals (t : totals) : Prop :=
  t_on_mon t < 2 ^ 64 /\ t_on_rwd t < 2 ^ 64 /\ t_off_mon t < 2 ^ 64 /\ t_off_rwd t < 2 ^ 64 /\
  t_np_mon t < 2 ^ 64 /\ t_np_rwd t < 2 ^ 64 /\ t_lvl t < 2 ^ 64.

Definition tot_fields (t : totals) : list fld :=
  [ ([110; 111; 116; 112; 97; 114; 116], enc_algocount (t_np_mon t) (t_np_rwd t));
    ([111; 102; 102; 108; 105; 110; 101], enc_algocount (t_off_mon t) (t_off_rwd t));
    ([111; 110; 108; 105; 110; 101], enc_algocount (t_on_mon t) (t_on_rwd t));
    ([114; 119; 100; 108; 118; 108], opt_uint (t_lvl t)) ].

Lemma enc_totals_eq t : enc_totals t = msgp_struct (tot_fields t).
Proof. reflexivity. Qed.

Lemma tot_compat t1 t2 : wf_totals t1 -> wf_totals t2 -> compat (tot_fields t1) (tot_fields t2).
Proof.
  intros (A1 & A2 & A3 & A4 & A5 & A6 & A7) (B1 & B2 & B3 & B4 & B5 & B6 & B7). unfold tot_fields.
  apply compat_cons with (P := P_ac); [exact pinj_ac | intros ? Hp; eapply enc_algocount_P; [| | exact Hp]; assumption ..|].
  apply compat_cons with (P := P_ac); [exact pinj_ac | intros ? Hp; eapply enc_algocount_P; [| | exact Hp]; assumption ..|].
  apply compat_cons with (P := P_ac); [exact pinj_ac | intros ? Hp; eapply enc_algocount_P; [| | exact Hp]; assumption ..|].
  apply compat_cons with (P := P_uint); [exact pinj_uint | intros ? Hp; eapply opt_uint_P; [| exact Hp]; assumption ..|].
  constructor.
Qed.

Lemma tot_nodup t : NoDup (map fst (tot_fields t)).
Proof. cbn [tot_fields map fst]. nodup_consts. Qed.

(* self-delimiting, hence injective *)
Lemma enc_totals_prefix_inj t1 t2 r1 r2 :
  wf_totals t1 -> wf_totals t2 -> enc_totals t1 ++ r1 = enc_totals t2 ++ r2 -> t1 = t2 /\ r1 = r2.
Proof.
  intros W1 W2 E. rewrite !enc_totals_eq in E.
  destruct (struct_inj _ _ _ _ (tot_compat _ _ W1 W2) (tot_nodup _) E) as [Q ->].
  split; auto.
  destruct W1 as (A1 & A2 & A3 & A4 & A5 & A6 & A7), W2 as (B1 & B2 & B3 & B4 & B5 & B6 & B7).
  cbn [tot_fields map snd] in Q. injection Q as Q1 Q2 Q3 Q4.
  apply enc_algocount_inj in Q1 as [? ?]; auto.
  apply enc_algocount_inj in Q2 as [? ?]; auto.
  apply enc_algocount_inj in Q3 as [? ?]; auto.
  apply opt_uint_inj in Q4; auto.
  destruct t1, t2; cbn in *; subst; reflexivity.
Qed.

Lemma enc_totals_inj t1 t2 : wf_totals t1 -> wf_totals t2 -> enc_totals t1 = enc_totals t2 -> t1 = t2.
Proof.
  intros W1 W2 E.
  assert (enc_totals t1 ++ [] = enc_totals t2 ++ []) as E' by now rewrite E.
  now destruct (enc_totals_prefix_inj _ _ _ _ W1 W2 E').
Qed.

(* ---------- the label in terms of the totals themselves; no "same version" premise: the
   self-delimiting totals encoding also separates the V6 / V7 / current label formats ---------- *)
Section LabelTotals.
  Variable H : bytes -> bytes.

  Lemma label_buffer_totals_inj bh1 r1 t1 x1 bh2 r2 t2 x2 :
    length bh1 = 32%nat -> length bh2 = 32%nat -> length r1 = 32%nat -> length r2 = 32%nat ->
    wf_totals t1 -> wf_totals t2 ->
    Forall (fun d => length d = 32%nat) x1 -> Forall (fun d => length d = 32%nat) x2 ->
    label_buffer bh1 r1 (enc_totals t1) x1 = label_buffer bh2 r2 (enc_totals t2) x2 ->
    bh1 = bh2 /\ r1 = r2 /\ t1 = t2 /\ x1 = x2.
  Proof.
    intros B1 B2 R1 R2 W1 W2 F1 F2 E. unfold label_buffer in E.
    apply app_eq_len in E as [-> E]; [|congruence].
    apply app_eq_len in E as [-> E]; [|congruence].
    apply enc_totals_prefix_inj in E as [-> E]; auto.
    repeat split; auto. apply concat32_inj; auto.
    apply (f_equal (@length N)) in E. rewrite !concat32_length in E; auto. lia.
  Qed.

  Lemma label_inj_totals bh1 r1 t1 x1 bh2 r2 t2 x2 :
    length bh1 = 32%nat -> length bh2 = 32%nat -> length r1 = 32%nat -> length r2 = 32%nat ->
    wf_totals t1 -> wf_totals t2 ->
    Forall (fun d => length d = 32%nat) x1 -> Forall (fun d => length d = 32%nat) x2 ->
    label_digest H bh1 r1 (enc_totals t1) x1 = label_digest H bh2 r2 (enc_totals t2) x2 ->
    (bh1 = bh2 /\ r1 = r2 /\ t1 = t2 /\ x1 = x2) \/
    CatchpointHashSpec.hash_collision H (label_buffer bh1 r1 (enc_totals t1) x1)
                                        (label_buffer bh2 r2 (enc_totals t2) x2).
  Proof.
    intros B1 B2 R1 R2 W1 W2 F1 F2 E. unfold label_digest in E.
    destruct (bytes_eq_dec (label_buffer bh1 r1 (enc_totals t1) x1) (label_buffer bh2 r2 (enc_totals t2) x2)) as [Q | Q].
    - left. now apply label_buffer_totals_inj.
    - right. split; auto.
  Qed.
End LabelTotals.
