(* C11: the evaluator side (roundCowState.checkDup / addTx / commitToParent, the admission checks
   of BlockEvaluator.transaction), every step of a history preserves the invariant, and the
   end-to-end statement: no transaction is committed twice, no lease is granted twice. *)
From Coq Require Import NArith List Bool Lia ZifyN ZifyNat ZifyBool.
From Verif.model Require Import TxTail TxTailSpec.
From Verif.proofs Require Import TxTailBasics TxTailInv.
Import ListNotations.
Open Scope N_scope.

(* the cow that holds exactly the transactions [txs] (added in this order) *)
Definition cow_of (txs : list tx) : cow := mkCow (rev (map t_id txs)) (leases_of txs).

Lemma cow_of_nil : cow0 = cow_of [].
Proof. reflexivity. Qed.

Lemma cow_addTx_of : forall txs x, cow_addTx (cow_of txs) x = cow_of (txs ++ [x]).
Proof.
  intros. unfold cow_addTx, cow_of. cbn [c_ids c_leases]. f_equal.
  - rewrite map_app, rev_app_distr. reflexivity.
  - rewrite leases_of_app.
    change (leases_of [x]) with (if t_lease x =? 0 then [] else [(t_key x, t_lv x)]).
    destruct (t_lease x =? 0); reflexivity.
Qed.

Lemma cow_commit_of : forall g acc, cow_commitToParent (cow_of g) (cow_of acc) = cow_of (acc ++ g).
Proof.
  intros. unfold cow_commitToParent, cow_of. cbn [c_ids c_leases]. f_equal.
  - rewrite map_app, rev_app_distr. reflexivity.
  - rewrite leases_of_app. reflexivity.
Qed.

Section Eval.
Variable p : proto.
Notation L := (p_life p).

(* in-block detection: one level of the chain of cows *)
Lemma cow_check_level : forall c parents hdr id k base,
  cow_check (cow_of c :: parents) p hdr id k base = DupNone ->
  ~ In id (map t_id c) /\
  (p_sup p = true -> snd k <> 0 -> forall e, klookup k (leases_of c) = Some e -> e < hdr) /\
  cow_check parents p hdr id k base = DupNone.
Proof.
  intros c parents hdr id k base H. cbn [cow_check cow_of c_ids c_leases] in H.
  destruct (existsb (N.eqb id) (rev (map t_id c))) eqn:Ec; [discriminate|].
  destruct (p_sup p && negb (snd k =? 0) &&
            match klookup k (leases_of c) with Some e => hdr <=? e | None => false end) eqn:El; [discriminate|].
  split; [|split; [|exact H]].
  - intros HI. assert (existsb (N.eqb id) (rev (map t_id c)) = true); [|congruence].
    apply existsb_exists. exists id. split; [apply -> in_rev; exact HI|apply N.eqb_refl].
  - intros Hs Hk e Ee. rewrite Hs, Ee in El. replace (snd k =? 0) with false in El by lia.
    cbn [negb andb] in El. lia.
Qed.

Lemma cow_checkDup_two : forall c a t hdr fv lv id k,
  cow_checkDup [cow_of c; cow_of a] t p hdr fv lv id k = DupNone ->
  ~ In id (map t_id (a ++ c)) /\
  (p_sup p = true -> snd k <> 0 ->
     (forall e, klookup k (leases_of c) = Some e -> e < hdr) /\
     (forall e, klookup k (leases_of a) = Some e -> e < hdr)) /\
  checkDup t p hdr fv lv id k = DupNone.
Proof.
  intros c a t hdr fv lv id k H. unfold cow_checkDup in H.
  apply cow_check_level in H. destruct H as [H1 [H2 H]].
  apply cow_check_level in H. destruct H as [H3 [H4 H]]. cbn [cow_check] in H.
  split; [|split; [|exact H]].
  - rewrite map_app, in_app_iff. tauto.
  - intros Hs Hk. split; [apply H2|apply H4]; assumption.
Qed.

(* what the evaluator has checked for the transactions of a block, in payset order *)
Definition admitted1 (t : tail) (hdr : N) (before : list tx) (x : tx) : Prop :=
  t_fv x <= hdr /\ hdr <= t_lv x /\ t_lv x <= t_fv x + L /\
  ~ In (t_id x) (map t_id before) /\
  (p_sup p = true -> t_lease x <> 0 -> forall y, In y before -> t_lease y <> 0 -> t_key y <> t_key x) /\
  checkDup t p hdr (t_fv x) (t_lv x) (t_id x) (t_key x) = DupNone.

Definition AdmittedAll (t : tail) (hdr : N) (txs : list tx) : Prop :=
  forall l1 x l2, txs = l1 ++ x :: l2 -> admitted1 t hdr l1 x.

Lemma admitted_alive : forall t hdr txs y, AdmittedAll t hdr txs -> In y txs -> hdr <= t_lv y.
Proof.
  intros t hdr txs y H HI. apply in_split in HI. destruct HI as [l1 [l2 E]].
  destruct (H _ _ _ E) as [_ [H2 _]]. exact H2.
Qed.

Lemma tx_admit_admitted : forall t hdr acc g1 x,
  AdmittedAll t hdr (acc ++ g1) ->
  tx_admit t p hdr [cow_of g1; cow_of acc] x = true ->
  admitted1 t hdr (acc ++ g1) x.
Proof.
  intros t hdr acc g1 x HA H. unfold tx_admit in H.
  repeat (apply andb_true_iff in H; destruct H as [H ?]).
  destruct (cow_checkDup [cow_of g1; cow_of acc] t p hdr (t_fv x) (t_lv x) (t_id x) (t_key x)) eqn:E;
    try discriminate.
  apply cow_checkDup_two in E. destruct E as [Hid [Hls Hcd]].
  unfold admitted1. repeat split; try lia; try assumption.
  intros Hs Hl y Hy Hly Hkey.
  destruct (Hls Hs) as [Hc Ha]; [cbn [t_key snd]; exact Hl|].
  assert (Hal : hdr <= t_lv y) by (eapply admitted_alive; eauto).
  apply in_app_or in Hy. destruct Hy as [Hy|Hy].
  - destruct (klookup (t_key x) (leases_of acc)) as [e|] eqn:Ek.
    + pose proof (Ha e eq_refl) as Hlt. apply klookup_leases_sound in Ek.
      destruct Ek as [y' [Hy' [_ [_ He]]]].
      assert (hdr <= t_lv y') by (eapply admitted_alive; [exact HA|apply in_or_app; left; exact Hy']). lia.
    + apply klookup_None_notin in Ek. apply Ek. rewrite leases_of_eq, map_rev, map_map. cbn [kv fst].
      apply -> in_rev. rewrite <- Hkey. apply in_map. apply in_leased. auto.
  - destruct (klookup (t_key x) (leases_of g1)) as [e|] eqn:Ek.
    + pose proof (Hc e eq_refl) as Hlt. apply klookup_leases_sound in Ek.
      destruct Ek as [y' [Hy' [_ [_ He]]]].
      assert (hdr <= t_lv y') by (eapply admitted_alive; [exact HA|apply in_or_app; right; exact Hy']). lia.
    + apply klookup_None_notin in Ek. apply Ek. rewrite leases_of_eq, map_rev, map_map. cbn [kv fst].
      apply -> in_rev. rewrite <- Hkey. apply in_map. apply in_leased. auto.
Qed.

Lemma Admitted_snoc : forall t hdr txs x,
  AdmittedAll t hdr txs -> admitted1 t hdr txs x -> AdmittedAll t hdr (txs ++ [x]).
Proof.
  intros t hdr txs x HA Hx l1 y l2 E.
  destruct l2 as [|z l2'] using rev_ind.
  - apply app_inj_tail in E. destruct E as [-> ->]. exact Hx.
  - clear IHl2'. rewrite app_comm_cons, app_assoc in E. apply app_inj_tail in E. destruct E as [E _].
    apply (HA _ _ _ E).
Qed.

Lemma eval_group_admitted : forall t hdr acc g g1 child',
  AdmittedAll t hdr (acc ++ g1) ->
  eval_group t p hdr (cow_of acc) (cow_of g1) g = Some child' ->
  child' = cow_of (g1 ++ g) /\ AdmittedAll t hdr (acc ++ g1 ++ g).
Proof.
  intros t hdr acc. induction g as [|x g IH]; intros g1 child' HA H.
  - cbn [eval_group] in H. inversion H. rewrite !app_nil_r. auto.
  - cbn [eval_group] in H. destruct (tx_admit t p hdr [cow_of g1; cow_of acc] x) eqn:E; [|discriminate].
    rewrite cow_addTx_of in H.
    pose proof (tx_admit_admitted _ _ _ _ _ HA E) as Hx.
    destruct (IH (g1 ++ [x]) child') as [H1 H2].
    + rewrite app_assoc. apply Admitted_snoc; assumption.
    + exact H.
    + rewrite <- !app_assoc in *. cbn [app] in *. auto.
Qed.

Lemma eval_groups_admitted : forall t hdr gs acc root' acc',
  AdmittedAll t hdr acc ->
  eval_groups t p hdr (cow_of acc) acc gs = (root', acc') ->
  AdmittedAll t hdr acc'.
Proof.
  intros t hdr. induction gs as [|g gs IH]; intros acc root' acc' HA H.
  - cbn [eval_groups] in H. inversion H. subst. exact HA.
  - cbn [eval_groups] in H. rewrite cow_of_nil in H.
    destruct (eval_group t p hdr (cow_of acc) (cow_of []) g) as [child|] eqn:E.
    + destruct (eval_group_admitted t hdr acc g [] child) as [-> HA']; [rewrite app_nil_r; exact HA|exact E|].
      cbn [app] in *. rewrite cow_commit_of in H. apply (IH _ _ _ HA' H).
    + apply (IH _ _ _ HA H).
Qed.

Lemma eval_block_admitted : forall t hdr gs, AdmittedAll t hdr (eval_block t p hdr gs).
Proof.
  intros. unfold eval_block.
  destruct (eval_groups t p hdr cow0 [] gs) as [root' acc'] eqn:E. cbn [snd].
  rewrite cow_of_nil in E. apply (eval_groups_admitted _ _ _ _ _ _) with (2 := E).
  intros l1 x l2 E0. destruct l1; discriminate.
Qed.

(* the evaluator's delta is the one newBlock derives from the payset *)
Lemma eval_group_child : forall t hdr root g g1 child,
  eval_group t p hdr root (cow_of g1) g = Some child -> child = cow_of (g1 ++ g).
Proof.
  intros t hdr root. induction g as [|x g IHg]; intros g1 child E.
  - cbn [eval_group] in E. inversion E. rewrite app_nil_r. reflexivity.
  - cbn [eval_group] in E. destruct (tx_admit t p hdr [cow_of g1; root] x); [|discriminate].
    rewrite cow_addTx_of in E. apply IHg in E. rewrite <- app_assoc in E. exact E.
Qed.

Lemma eval_groups_root : forall t hdr gs acc root' acc',
  eval_groups t p hdr (cow_of acc) acc gs = (root', acc') -> root' = cow_of acc'.
Proof.
  intros t hdr. induction gs as [|g gs IH]; intros acc root' acc' H.
  - cbn [eval_groups] in H. inversion H. reflexivity.
  - cbn [eval_groups] in H. rewrite cow_of_nil in H.
    destruct (eval_group t p hdr (cow_of acc) (cow_of []) g) as [child|] eqn:E.
    + apply eval_group_child in E. cbn [app] in E. subst child.
      rewrite cow_commit_of in H. apply (IH _ _ _ H).
    + apply (IH _ _ _ H).
Qed.

(* ---------- AdmittedAll => the block is one the txTail relies on ---------- *)
Lemma NoDup_map_prefix : forall A C (f : A -> C) (l : list A),
  (forall l1 x l2, l = l1 ++ x :: l2 -> ~ In (f x) (map f l1)) -> NoDup (map f l).
Proof.
  intros A C f l. induction l as [|a l IH] using rev_ind; intros H; [constructor|].
  rewrite map_app. cbn [map]. rewrite <- (rev_involutive (map f l ++ [f a])).
  apply NoDup_rev. rewrite rev_app_distr. cbn [rev app]. constructor.
  - rewrite <- in_rev. apply (H l a []). reflexivity.
  - apply NoDup_rev. apply IH. intros l1 x l2 E. apply (H l1 x (l2 ++ [a])). rewrite E, <- app_assoc. reflexivity.
Qed.

Lemma admitted_blk_ok : forall t hdr txs, AdmittedAll t hdr txs -> blk_ok p hdr txs = true.
Proof.
  intros t hdr txs HA. unfold blk_ok. apply andb_true_iff. split.
  - apply forallb_forall. intros x HI. apply in_split in HI. destruct HI as [l1 [l2 E]].
    destruct (HA _ _ _ E) as [H1 [H2 [H3 _]]]. lia.
  - destruct (p_sup p) eqn:Hs; [|reflexivity]. cbn [negb orb]. apply nodup_keys_NoDup.
    assert (HA' : forall l1 x l2, leased txs = l1 ++ x :: l2 -> ~ In (t_key x) (map t_key l1)).
    { intros l1 x l2 E HI. apply in_map_iff in HI. destruct HI as [y [Hk Hy]].
      (* y before x in leased txs, hence in txs *)
      assert (Hsplit : exists m1 m2, txs = m1 ++ x :: m2 /\ l1 = leased m1).
      { clear HA Hk Hy. revert l1 x l2 E. unfold leased. induction txs as [|a txs IH]; intros l1 x l2 E.
        - destruct l1; discriminate.
        - cbn [filter] in E. destruct (negb (t_lease a =? 0)) eqn:Ea.
          + destruct l1 as [|b l1].
            * inversion E. subst. exists [], txs. auto.
            * inversion E. subst. destruct (IH _ _ _ H1) as [m1 [m2 [-> ->]]].
              exists (b :: m1), m2. cbn [app filter]. rewrite Ea. auto.
          + destruct (IH _ _ _ E) as [m1 [m2 [-> ->]]]. exists (a :: m1), m2. cbn [app filter]. rewrite Ea. auto. }
      destruct Hsplit as [m1 [m2 [E1 ->]]]. apply in_leased in Hy. destruct Hy as [Hy Hly].
      assert (Hlx : t_lease x <> 0).
      { assert (In x (leased txs)) by (rewrite E; apply in_or_app; right; left; reflexivity).
        apply in_leased in H. tauto. }
      destruct (HA _ _ _ E1) as [_ [_ [_ [_ [Hl _]]]]]. exact (Hl Hs Hlx y Hy Hly Hk). }
    apply NoDup_map_prefix. exact HA'.
Qed.

Lemma admitted_ids_nodup : forall t hdr txs, AdmittedAll t hdr txs -> NoDup (map t_id txs).
Proof.
  intros t hdr txs HA. apply NoDup_map_prefix. intros l1 x l2 E.
  destruct (HA _ _ _ E) as [_ [_ [_ [H _]]]]. exact H.
Qed.

(* ---------- every operation inside the discipline succeeds and keeps the invariant ---------- *)
Definition blocks_after (s : sys) (o : op) : blocks_t :=
  match o with
  | OBlock txs => (s_latest s + 1, txs) :: s_blocks s
  | OEval gs => (s_latest s + 1, eval_block (s_tail s) p (s_latest s + 1) gs) :: s_blocks s
  | ORestart keep => trunc (s_blocks s) keep
  | _ => s_blocks s
  end.

Lemma step_inv : forall s o, Inv p s -> op_ok p s o = true ->
  exists s', step p s o = (s', OK) /\ Inv p s' /\ s_blocks s' = blocks_after s o.
Proof.
  intros s o HI Hok. destruct o as [txs|gs|r|off|keep]; cbn [op_ok] in Hok.
  - eexists. split; [reflexivity|]. split; [apply inv_add_block; assumption|reflexivity].
  - eexists. split; [reflexivity|]. split; [|reflexivity]. apply inv_add_block; [exact HI|].
    eapply admitted_blk_ok. apply eval_block_admitted.
  - eexists. split; [reflexivity|]. split; [|reflexivity].
    destruct HI as [HB HT HW HD Hdn].
    split; cbn [s_tail s_blocks s_latest s_rows s_dbRound]; try assumption.
    + apply (tinv_committedUpTo p _ _ _ _ _ HT HB); lia.
    + cbn [committedUpTo lwm]. lia.
  - destruct (inv_commit p s off HI) as [s' [E HI']]; [lia|lia|].
    exists s'. split; [exact E|]. split; [exact HI'|].
    unfold step, step_gen in E. cbn [blocks_after].
    destruct (prepareCommit (s_tail s) (s_dbRound s) off); try (inversion E; fail).
    destruct (txtailNewRound (s_rows s) (s_dbRound s + 1) deltas (s_dbRound s + off + 1 - retain));
      inversion E. reflexivity.
  - destruct (inv_restart p s keep HI) as [s' [E [HI' [HB' _]]]]; [lia|lia|].
    exists s'. auto.
Qed.

Lemma run_inv : forall ops s s', Inv p s -> run p s ops = Some s' -> Inv p s'.
Proof.
  induction ops as [|o ops IH]; intros s s' HI H.
  - cbn in H. inversion H. subst. exact HI.
  - unfold run in H. cbn [run_gen] in H. destruct (op_ok p s o) eqn:Hok; [|discriminate].
    destruct (step_inv s o HI Hok) as [s1 [E [HI1 _]]]. unfold step in E. rewrite E in H.
    apply (IH s1 s' HI1 H).
Qed.

Lemma inv_sys0 : Inv p sys0.
Proof.
  split; cbn [sys0 s_tail s_blocks s_latest s_rows s_dbRound].
  - split.
    + intros r. cbn [lookup]. split; [congruence|lia].
    + intros r txs H. discriminate.
  - split; cbn [tail0 recent lastValid lwm pending hdrs lowestHdr].
    + intros r rl H. discriminate.
    + intros r txs H. discriminate.
    + intros lv id [].
    + intros r x [txs [H _]]. discriminate.
    + reflexivity.
    + intros r Hr. lia.
  - cbn. lia.
  - unfold DInv. rewrite nrange_empty by lia. reflexivity.
  - lia.
Qed.

(* ---------- the end-to-end property of histories built by the evaluator ---------- *)
Record HOk (B : blocks_t) : Prop := {
  h_ids : forall r1 r2 x1 x2, committed B r1 x1 -> committed B r2 x2 ->
          t_id x1 = t_id x2 -> t_lv x1 = t_lv x2 -> r1 = r2;
  h_ids_in : forall r txs, lookup r B = Some txs -> NoDup (map t_id txs);
  h_lease : p_sup p = true -> p_fix p = true ->
            forall r1 r2 x1 x2, committed B r1 x1 -> committed B r2 x2 ->
            t_key x1 = t_key x2 -> t_lease x1 <> 0 -> r1 < r2 -> t_lv x1 < r2
}.

Lemma spec_none : forall B n cur fv lv id k, BInv p B n ->
  spec_dup B n p cur fv lv id k = DupNone ->
  (p_sup p = true -> snd k <> 0 -> forall r x, committed B r x -> holds_lease p k cur fv r x = false) /\
  (forall r x, committed B r x -> same_tx lv id r x = false).
Proof.
  intros B n cur fv lv id k HB H. unfold spec_dup in H.
  destruct (committed_some B n (same_tx lv id)) eqn:E2.
  { destruct (p_sup p && negb (snd k =? 0) && committed_some B n (holds_lease p k cur fv)); discriminate. }
  split.
  - intros Hs Hk r x Hc. rewrite Hs in H. replace (snd k =? 0) with false in H by lia. cbn [negb andb] in H.
    destruct (committed_some B n (holds_lease p k cur fv)) eqn:E1; [discriminate|].
    destruct (holds_lease p k cur fv r x) eqn:Eh; [|reflexivity].
    assert (committed_some B n (holds_lease p k cur fv) = true); [|congruence].
    apply (committed_some_iff p _ _ _ HB). exists r, x. auto.
  - intros r x Hc. destruct (same_tx lv id r x) eqn:Eh; [|reflexivity].
    assert (committed_some B n (same_tx lv id) = true); [|congruence].
    apply (committed_some_iff p _ _ _ HB). exists r, x. auto.
Qed.

Lemma hok_add : forall s txs,
  Inv p s -> HOk (s_blocks s) -> AdmittedAll (s_tail s) (s_latest s + 1) txs ->
  HOk ((s_latest s + 1, txs) :: s_blocks s).
Proof.
  intros s txs HI [H1 H2 H3] HA.
  set (n := s_latest s) in *. set (B := s_blocks s) in *.
  pose proof (inv_b p s HI) as HB. fold B n in HB.
  assert (Hcom : forall r x, committed ((n + 1, txs) :: B) r x <-> (r = n + 1 /\ In x txs) \/ (r <= n /\ committed B r x)).
  { intros r x. unfold committed. rewrite lookup_cons. destruct (N.eqb_spec r (n + 1)) as [->|Hn].
    - split.
      + intros [txs0 [E HI0]]. inversion E. subst. left. auto.
      + intros [[_ HI0]|[Hn _]]; [exists txs; auto|lia].
    - split.
      + intros [txs0 [E HI0]]. right. split; [|exists txs0; auto].
        assert (lookup r B <> None) by congruence. apply (b_dom p _ _ HB) in H. lia.
      + intros [[E _]|[_ H]]; [contradiction|exact H]. }
  assert (Hnew : forall x, In x txs ->
            (p_sup p = true -> t_lease x <> 0 -> forall r y, committed B r y ->
                holds_lease p (t_key x) (n + 1) (t_fv x) r y = false) /\
            (forall r y, committed B r y -> same_tx (t_lv x) (t_id x) r y = false)).
  { intros x Hx. apply in_split in Hx. destruct Hx as [l1 [l2 E]].
    destruct (HA _ _ _ E) as [_ [Hal [_ [_ [_ Hcd]]]]].
    rewrite (checkDup_exact_inv p s) in Hcd by (auto; fold n; lia).
    apply (spec_none B n) in Hcd; [|exact HB]. exact Hcd. }
  split.
  - intros r1 r2 x1 x2 Hc1 Hc2 Eid Elv. apply Hcom in Hc1. apply Hcom in Hc2.
    destruct Hc1 as [[-> Hx1]|[Hr1 Hc1]], Hc2 as [[-> Hx2]|[Hr2 Hc2]].
    + reflexivity.
    + exfalso. destruct (Hnew _ Hx1) as [_ Hs]. specialize (Hs _ _ Hc2). unfold same_tx in Hs.
      rewrite Eid, Elv, !N.eqb_refl in Hs. discriminate.
    + exfalso. destruct (Hnew _ Hx2) as [_ Hs]. specialize (Hs _ _ Hc1). unfold same_tx in Hs.
      rewrite <- Eid, <- Elv, !N.eqb_refl in Hs. discriminate.
    + apply (H1 _ _ _ _ Hc1 Hc2 Eid Elv).
  - intros r txs0. rewrite lookup_cons. destruct (N.eqb_spec r (n + 1)) as [->|Hn].
    + intros E. inversion E. subst. apply (admitted_ids_nodup _ _ _ HA).
    + apply H2.
  - intros Hs Hf r1 r2 x1 x2 Hc1 Hc2 Ek Hl Hlt. apply Hcom in Hc1. apply Hcom in Hc2.
    destruct Hc1 as [[-> Hx1]|[Hr1 Hc1]], Hc2 as [[-> Hx2]|[Hr2 Hc2]]; try lia.
    + destruct (Hnew _ Hx2) as [Hh _].
      assert (Hl2 : t_lease x2 <> 0).
      { unfold t_key in Ek. inversion Ek. congruence. }
      specialize (Hh Hs Hl2 _ _ Hc1). unfold holds_lease in Hh.
      rewrite Ek, lkey_eqb_refl, Hf in Hh. cbn [andb orb] in Hh. rewrite andb_true_r in Hh. lia.
    + apply (H3 Hs Hf _ _ _ _ Hc1 Hc2 Ek Hl Hlt).
Qed.

Lemma hok_trunc : forall B keep, HOk B -> HOk (trunc B keep).
Proof.
  intros B keep [H1 H2 H3].
  assert (Hc : forall r x, committed (trunc B keep) r x -> committed B r x).
  { intros r x [txs [E HI]]. rewrite lookup_trunc in E. destruct (r <=? keep); [exists txs; auto|discriminate]. }
  split.
  - intros. eapply H1; eauto.
  - intros r txs E. rewrite lookup_trunc in E. destruct (r <=? keep); [eauto|discriminate].
  - intros Hs Hf r1 r2 x1 x2 Hc1 Hc2. apply (H3 Hs Hf); auto.
Qed.

Definition is_raw_block (o : op) : bool := match o with OBlock _ => true | _ => false end.

Lemma run_hok : forall ops s s', Inv p s -> HOk (s_blocks s) ->
  forallb (fun o => negb (is_raw_block o)) ops = true ->
  run p s ops = Some s' -> HOk (s_blocks s').
Proof.
  induction ops as [|o ops IH]; intros s s' HI HH Hev H.
  - cbn in H. inversion H. subst. exact HH.
  - unfold run in H. cbn [run_gen] in H. destruct (op_ok p s o) eqn:Hok; [|discriminate].
    cbn [forallb] in Hev. apply andb_true_iff in Hev. destruct Hev as [Ho Hev].
    destruct (step_inv s o HI Hok) as [s1 [E [HI1 HB1]]]. unfold step in E. rewrite E in H.
    apply (IH s1 s' HI1); [|exact Hev|exact H]. rewrite HB1.
    destruct o as [txs|gs|r|off|keep]; cbn [blocks_after]; try exact HH.
    + discriminate.
    + apply hok_add; [exact HI|exact HH|apply eval_block_admitted].
    + apply hok_trunc. exact HH.
Qed.

Lemma hok_nil : HOk [].
Proof.
  split.
  - intros r1 r2 x1 x2 [txs [H _]]. discriminate.
  - intros r txs H. discriminate.
  - intros _ _ r1 r2 x1 x2 [txs [H _]]. discriminate.
Qed.
End Eval.
