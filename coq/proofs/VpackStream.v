(* C42: both layers composed, one message and whole connections; the two refutations for the
   code as it was before fixes/C42.patch. *)
From Coq Require Import NArith List Bool String Ascii Lia ZifyN ZifyNat ZifyBool Arith.
From Verif.lib Require Import Term.
From Verif.model Require Import Vpack VpackSpec.
From Verif.proofs Require Import VpackBase VpackStateful VpackParse VpackStateless.
Import ListNotations.
Open Scope N_scope.

(* ---- stateless round trip, for every input the (fixed) parser accepts ---- *)
Theorem stateless_roundtrip_lemma : forall m x,
  compress_vote true m = Some x -> decompress_vote x = Some m.
Proof.
  intros m x H. apply parse_canonical in H as (v & W & -> & ->). apply decompress_frame. assumption.
Qed.

(* ---- bytes of the frame are bytes of the vote ---- *)
Lemma bytes_ok_wp : forall d pre, bytes_ok (when_present d (pre ++ d)) -> bytes_ok d.
Proof.
  intros d pre H. unfold when_present in H. destruct d as [|b d]; [constructor|].
  simpl is_nil in H. cbv iota in H. apply bytes_ok_app in H as [_ H]. exact H.
Qed.

Lemma has_le_1 : forall d, has d <= 1.
Proof. intro d. destruct (has_01 d) as [-> | ->]; lia. Qed.

Lemma frame_bytes_ok : forall v, bytes_ok (encode_msgp v) -> bytes_ok (frame v).
Proof.
  intros v H. unfold encode_msgp, enc_bin, enc_u in H.
  apply bytes_ok_app in H as [_ H]. apply bytes_ok_app in H as [_ H]. apply bytes_ok_app in H as [_ H].
  rewrite <- !app_assoc in H.
  apply bytes_ok_app in H as [_ H]. apply bytes_ok_app in H as [_ H]. apply bytes_ok_app in H as [Hpf H].
  apply bytes_ok_app in H as [_ H]. apply bytes_ok_app in H as [_ H].
  apply bytes_ok_app in H as [Hper H]. apply bytes_ok_wp in Hper.
  apply bytes_ok_app in H as [_ H].
  apply bytes_ok_app in H as [Hdig H]. rewrite app_assoc in Hdig. apply bytes_ok_wp in Hdig.
  apply bytes_ok_app in H as [Henc H]. rewrite app_assoc in Henc. apply bytes_ok_wp in Henc.
  apply bytes_ok_app in H as [Hoper H]. apply bytes_ok_wp in Hoper.
  apply bytes_ok_app in H as [Hoprop H]. rewrite app_assoc in Hoprop. apply bytes_ok_wp in Hoprop.
  apply bytes_ok_app in H as [_ H]. apply bytes_ok_app in H as [Hrnd H].
  apply bytes_ok_app in H as [_ H]. apply bytes_ok_app in H as [_ H]. apply bytes_ok_app in H as [Hsnd H].
  apply bytes_ok_app in H as [Hstep H]. apply bytes_ok_wp in Hstep.
  apply bytes_ok_app in H as [_ H]. apply bytes_ok_app in H as [_ H].
  apply bytes_ok_app in H as [_ H]. apply bytes_ok_app in H as [_ H]. apply bytes_ok_app in H as [Hp H].
  apply bytes_ok_app in H as [_ H]. apply bytes_ok_app in H as [_ H]. apply bytes_ok_app in H as [Hp1s H].
  apply bytes_ok_app in H as [_ H]. apply bytes_ok_app in H as [_ H]. apply bytes_ok_app in H as [Hp2 H].
  apply bytes_ok_app in H as [_ H]. apply bytes_ok_app in H as [_ H]. apply bytes_ok_app in H as [Hp2s H].
  apply bytes_ok_app in H as [_ H]. apply bytes_ok_app in H as [_ H]. apply bytes_ok_app in H as [_ H].
  apply bytes_ok_app in H as [_ H]. apply bytes_ok_app in H as [_ Hs].
  unfold frame, vote_body. constructor.
  { unfold vote_mask.
    pose proof (has_le_1 (v_per v)); pose proof (has_le_1 (v_dig v)); pose proof (has_le_1 (v_encdig v));
      pose proof (has_le_1 (v_oper v)); pose proof (has_le_1 (v_oprop v)); pose proof (has_le_1 (v_step v)). lia. }
  constructor; [lia|].
  repeat (apply bytes_ok_app; split; [assumption|]). assumption.
Qed.

(* ---- one message through both ends ---- *)
Theorem send_recv_step : forall st m x,
  wf_state st -> bytes_ok m -> compress_vote true m = Some x ->
  exists f st', compress true st x = Some (f, st') /\ recv st f = Some (m, st') /\ wf_state st'.
Proof.
  intros st m x W Hok H. apply parse_canonical in H as (v & Wv & -> & ->).
  destruct (compress_accepts_frame st v Wv) as (f & st' & Hc).
  pose proof (lockstep st (frame v) f st' W (frame_bytes_ok v Hok) Hc) as [Hd W'].
  exists f, st'. split; [assumption|]. split; [|assumption].
  unfold recv. rewrite Hd. cbn [bind]. unfold frame at 1. rewrite norm_frame_cons. fold (frame v).
  rewrite decompress_frame by assumption. reflexivity.
Qed.

(* ---- whole connections ---- *)
Definition expected (m : bytes) : option bytes :=
  match compress_vote true m with Some _ => Some m | None => None end.

Theorem stream_lemma : forall ms st,
  wf_state st -> Forall bytes_ok ms ->
  exists st', run_conn true true st st ms = (map expected ms, st', st') /\ wf_state st'.
Proof.
  induction ms as [|m ms IH]; intros st W HF; [exists st; simpl; auto|].
  inversion HF as [|? ? Hm HF']; subst.
  simpl run_conn. simpl map. unfold expected at 1.
  destruct (compress_vote true m) as [x|] eqn:Ecv.
  - destruct (send_recv_step st m x W Hm Ecv) as (f & st' & Hc & Hr & W').
    rewrite Hc, Hr.
    destruct (IH st' W' HF') as (st2 & E & Wf). rewrite E. exists st2. auto.
  - destruct (IH st W HF') as (st2 & E & Wf). rewrite E. exists st2. auto.
Qed.

(* ---- witnesses ---- *)
Definition seq_bytes (start : N) (n : nat) : bytes := map (fun i => (start + N.of_nat i) mod 256) (seq 0 n).

(* a vote whose round 5 is encoded as uint64 (cf 00 00 00 00 00 00 00 05); everything else canonical *)
Definition witness_vote (rnd : bytes) : vote :=
  {| v_pf := seq_bytes 1 80; v_per := []; v_dig := []; v_encdig := []; v_oper := []; v_oprop := [];
     v_rnd := rnd; v_snd := seq_bytes 16 32; v_step := [];
     v_p := seq_bytes 2 32; v_p1s := seq_bytes 3 64; v_p2 := seq_bytes 4 32; v_p2s := seq_bytes 5 64;
     v_s := seq_bytes 6 64 |}.
Definition noncanon_rnd : bytes := [207; 0; 0; 0; 0; 0; 0; 0; 5].

Lemma noncanonical_rnd_witness :
  let m := encode_msgp (witness_vote noncanon_rnd) in
  wf_vote (witness_vote noncanon_rnd) = true /\ all_bytes m = true /\
  (exists x, compress_vote true m = Some x) /\
  exists s0 m', new_state 16 = Some s0 /\
    fst (fst (run_conn true false s0 s0 [m; m])) = [Some m; Some m'] /\ m' <> m /\
    List.length m = 501%nat /\ List.length m' = 493%nat /\
    (* the fixed encoder on the same input *)
    fst (fst (run_conn true true s0 s0 [m; m])) = [Some m; Some m].
Proof.
  cbv zeta. split; [vm_compute; reflexivity|]. split; [vm_compute; reflexivity|].
  split; [eexists; vm_compute; reflexivity|].
  destruct (new_state 16) as [s0|] eqn:E; [|vm_compute in E; discriminate].
  exists s0. eexists. split; [reflexivity|].
  assert (Es : Some s0 = new_state 16) by (symmetry; exact E).
  vm_compute in Es. inversion Es; subst s0; clear Es E.
  split; [vm_compute; reflexivity|].
  split; [vm_compute; discriminate|].
  split; [vm_compute; reflexivity|]. split; vm_compute; reflexivity.
Qed.

(* a vote whose rawVote map lists snd before rnd: accepted by the unfixed parser, comes back
   as different bytes, without an error; the fixed parser rejects it *)
Definition unordered_vote : bytes :=
  [131] ++ fx "cred" ++ [129] ++ enc_bin "pf" (seq_bytes 1 80) ++
  fx "r" ++ [130] ++ enc_bin "snd" (17 :: seq_bytes 17 31) ++ enc_u "rnd" [5] ++
  fx "sig" ++ [134] ++ enc_bin "p" (seq_bytes 2 32) ++ enc_bin "p1s" (seq_bytes 3 64) ++
  enc_bin "p2" (seq_bytes 4 32) ++ enc_bin "p2s" (seq_bytes 5 64) ++ enc_bin "ps" (zeros 64) ++
  enc_bin "s" (seq_bytes 6 64).

Lemma unordered_keys_witness :
  all_bytes unordered_vote = true /\
  (exists x m', compress_vote false unordered_vote = Some x /\ decompress_vote x = Some m' /\
                m' <> unordered_vote /\ List.length m' = List.length unordered_vote) /\
  compress_vote true unordered_vote = None.
Proof.
  split; [vm_compute; reflexivity|]. split.
  - eexists. eexists. split; [vm_compute; reflexivity|]. split; [vm_compute; reflexivity|].
    split; [vm_compute; discriminate | vm_compute; reflexivity].
  - vm_compute. reflexivity.
Qed.

(* ---- the other msgpack uints (per, step, oper) may be non-canonical: still exact ---- *)
Definition witness_vote2 : vote :=
  {| v_pf := seq_bytes 1 80; v_per := [205; 0; 1]; v_dig := seq_bytes 9 32; v_encdig := [];
     v_oper := [206; 0; 0; 0; 7]; v_oprop := seq_bytes 11 32;
     v_rnd := [205; 1; 0]; v_snd := seq_bytes 16 32; v_step := [204; 2];
     v_p := seq_bytes 2 32; v_p1s := seq_bytes 3 64; v_p2 := seq_bytes 4 32; v_p2s := seq_bytes 5 64;
     v_s := seq_bytes 6 64 |}.

(* ---- what the checker's oracle means ---- *)
Lemma term_eqb_TB : forall t b, term_eqb t (TB b) = true -> t = TB b.
Proof.
  intros [z|b'|s|l] b H; simpl in H; try discriminate. apply list_eqb_N_eq in H. subst. reflexivity.
Qed.

Lemma term_eqb_TS : forall t s, term_eqb t (TS s) = true -> t = TS s.
Proof.
  intros [z|b'|s'|l] s H; simpl in H; try discriminate. apply String.eqb_eq in H. subst. reflexivity.
Qed.

Lemma spec_v_meaning : forall m x f ds dv es dd,
  spec_v m (TL [TB x; TB f; ds; dv; es; dd]) = true -> dv = TB m /\ dd = TS "same".
Proof.
  intros m x f ds dv es dd H. unfold spec_v in H.
  apply andb_true_iff in H as [_ H]. apply andb_true_iff in H as [H _].
  apply andb_true_iff in H as [H1 H2]. split; [apply term_eqb_TB | apply term_eqb_TS]; assumption.
Qed.
