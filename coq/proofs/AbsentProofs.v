(* C27 lemmas: the list validations of model/Absent.v accept exactly the justified lists of
   model/AbsentSpec.v. *)
From Coq Require Import NArith ZArith List Bool Lia ZifyN ZifyNat ZifyBool Arith.
From Verif.lib Require Import Term.
From Verif.model Require Import Overflow Absent AbsentSpec.
From Verif.proofs Require Import OverflowProofs OverflowSpecProofs.
Import ListNotations.
Open Scope N_scope.

Lemma W64_val : W64 = 18446744073709551616. Proof. reflexivity. Qed.

(* ---------- addresses ---------- *)
Lemma list_eqb_N_spec (a b : list N) : reflect (a = b) (list_eqb N.eqb a b).
Proof.
  revert b. induction a as [|x a IH]; intros [|y b]; cbn [list_eqb]; try (constructor; congruence).
  destruct (N.eqb_spec x y) as [->|Hne]; cbn [andb].
  - destruct (IH b) as [->|Hne]; constructor; congruence.
  - constructor. congruence.
Qed.

Lemma addr_eqb_spec (a b : addr) : reflect (a = b) (addr_eqb a b).
Proof. apply list_eqb_N_spec. Qed.

Lemma addr_eqb_refl a : addr_eqb a a = true.
Proof. destruct (addr_eqb_spec a a); congruence. Qed.

Lemma mem_In a l : mem a l = true <-> In a l.
Proof.
  unfold mem. rewrite existsb_exists. split.
  - intros [x [Hin Heq]]. destruct (addr_eqb_spec a x); [subst; assumption|discriminate].
  - intros Hin. exists a. split; [assumption|apply addr_eqb_refl].
Qed.

Lemma mem_false a l : mem a l = false <-> ~ In a l.
Proof. rewrite <- mem_In. destruct (mem a l); split; congruence. Qed.

(* ---------- duplicate-freeness by counting ---------- *)
Lemma count_zero a l : count a l = 0%nat <-> ~ In a l.
Proof.
  unfold count. induction l as [|x l IH]; cbn [filter length In].
  - tauto.
  - destruct (addr_eqb_spec a x) as [->|Hne]; cbn [length].
    + split; [discriminate|]. intros H. exfalso. apply H. left. reflexivity.
    + rewrite IH. split; [intros H [He|Hi]; [congruence|tauto]|tauto].
Qed.

Lemma nodupb_NoDup l : nodupb l = true <-> NoDup l.
Proof.
  unfold nodupb. induction l as [|x l IH].
  - cbn. split; [constructor|reflexivity].
  - assert (Hstep : forallb (fun a => Nat.eqb (count a (x :: l)) 1) (x :: l) = true <->
                    ~ In x l /\ forallb (fun a => Nat.eqb (count a l) 1) l = true).
    { cbn [forallb]. rewrite andb_true_iff.
      assert (Hhd : Nat.eqb (count x (x :: l)) 1 = true <-> ~ In x l).
      { unfold count. cbn [filter]. rewrite addr_eqb_refl. cbn [length].
        rewrite Nat.eqb_eq. fold (count x l). rewrite <- count_zero. lia. }
      rewrite Hhd.
      assert (Htl : ~ In x l -> forall a, In a l -> count a (x :: l) = count a l).
      { intros Hn a Ha. unfold count. cbn [filter].
        destruct (addr_eqb_spec a x) as [Heq|Hne]; [subst a; contradiction|reflexivity]. }
      split; intros [Hn Hall]; (split; [exact Hn|]); apply forallb_forall; intros a Ha;
        rewrite forallb_forall in Hall; specialize (Hall a Ha).
      - rewrite <- (Htl Hn a Ha). exact Hall.
      - rewrite (Htl Hn a Ha). exact Hall. }
    rewrite Hstep, IH. split.
    + intros [Hn Hd]. constructor; assumption.
    + intros H. inversion H; subst. split; assumption.
Qed.

(* ---------- state updates ---------- *)
Lemma lookup_put st a d x : lookup (put st a d) x = if addr_eqb x a then d else lookup st x.
Proof. reflexivity. Qed.

Lemma lookup_fold_put (f : acct -> acct) (Hidem : forall d, f (f d) = f d) l : forall st x,
  lookup (fold_left (fun s a => put s a (f (lookup s a))) l st) x =
  if mem x l then f (lookup st x) else lookup st x.
Proof.
  induction l as [|a r IH]; intros st x; cbn [fold_left].
  - reflexivity.
  - rewrite IH. rewrite lookup_put. unfold mem. cbn [existsb]. fold (mem x r).
    destruct (addr_eqb_spec x a) as [->|Hne]; cbn [orb].
    + destruct (mem a r); [apply Hidem|reflexivity].
    + reflexivity.
Qed.

Lemma clear_online_idem d : clear_online (clear_online d) = clear_online d.
Proof. reflexivity. Qed.
Lemma suspend_idem d : suspend (suspend d) = suspend d.
Proof. reflexivity. Qed.

(* ---------- isAbsent ---------- *)
Lemma is_absent_is_spec total stake ls cur :
  total < W64 -> stake < W64 -> ls < 2 ^ 63 ->
  is_absent total stake ls cur = is_absent_spec total stake ls cur.
Proof.
  intros Ht Hs Hl. unfold is_absent, is_absent_spec, allowable_lag.
  destruct (N.eqb_spec ls 0) as [Hz|Hz]; cbn [orb negb andb]; [reflexivity|].
  destruct (N.eqb_spec stake 0) as [Hs0|Hs0]; cbn [orb negb andb]; [reflexivity|].
  unfold Muldiv.
  assert (H20 : absent_factor < 2 ^ 64) by reflexivity.
  rewrite (muldiv_is_spec absent_factor total stake H20 Ht Hs). unfold Verif.model.OverflowSpec.spec_muldiv.
  rewrite (proj2 (N.eqb_neq _ _) Hs0).
  change (2 ^ 64) with W64.
  set (lag := absent_factor * total / stake).
  assert (Hm : max_u32 = 4294967295) by reflexivity.
  destruct (N.leb_spec W64 lag) as [Hov|Hok]; cbn [orb].
  - destruct (N.leb_spec lag max_u32) as [H|H]; [rewrite W64_val in *; lia|reflexivity].
  - destruct (N.ltb_spec max_u32 lag) as [H|H]; destruct (N.leb_spec lag max_u32) as [H'|H']; try lia; cbn [andb].
    all: try reflexivity.
    rewrite N.mod_small; [reflexivity|].
    change (2 ^ 63) with 9223372036854775808 in Hl. rewrite W64_val. lia.
Qed.

Lemma is_absent_spec_prop total stake ls cur :
  is_absent_spec total stake ls cur = true <->
  ls <> 0 /\ stake <> 0 /\ absent_factor * total / stake <= 2 ^ 32 - 1 /\
  ls + absent_factor * total / stake < cur.
Proof.
  unfold is_absent_spec, allowable_lag. rewrite !andb_true_iff, !negb_true_iff, !N.eqb_neq, N.leb_le, N.ltb_lt.
  change max_u32 with (2 ^ 32 - 1). tauto.
Qed.

Lemma is_absent_prop total stake ls cur :
  total < 2 ^ 64 -> stake < 2 ^ 64 -> ls < 2 ^ 63 ->
  (is_absent total stake ls cur = true <->
   ls <> 0 /\ stake <> 0 /\ 20 * total / stake <= 2 ^ 32 - 1 /\ ls + 20 * total / stake < cur).
Proof.
  intros Ht Hs Hl. rewrite is_absent_is_spec by assumption. apply is_absent_spec_prop.
Qed.

Lemma is_absent_wrap_witness :
  is_absent 1 20 (2 ^ 64 - 1) 5 = true /\ is_absent_spec 1 20 (2 ^ 64 - 1) 5 = false.
Proof. vm_compute. split; reflexivity. Qed.

(* ---------- bitsMatch ---------- *)
Definition bytes := Forall (fun x : N => x < 256).

Definition range256 : list N := map N.of_nat (seq 0 256).
(* LeadingZeros8(z) >= r  <->  z has no bit at or above position 8-r; checked for all bytes *)
Definition lz_table_ok : bool :=
  forallb (fun z => forallb (fun r =>
     Bool.eqb (r <=? lz8 z) (z / 2 ^ (8 - r) =? 0)) [1; 2; 3; 4; 5; 6; 7]) range256.

Lemma lz_table : lz_table_ok = true.
Proof. vm_compute. reflexivity. Qed.

Lemma in_range256 x : x < 256 -> In x range256.
Proof.
  intros H. unfold range256. replace x with (N.of_nat (N.to_nat x)) by lia.
  apply in_map. apply in_seq. lia.
Qed.

Lemma shiftr_lxor_div x y k : N.lxor x y / 2 ^ k = N.lxor (x / 2 ^ k) (y / 2 ^ k).
Proof. rewrite <- !N.shiftr_div_pow2. apply N.shiftr_lxor. Qed.

Lemma lxor_lt256 x y : x < 256 -> y < 256 -> N.lxor x y < 256.
Proof.
  intros Hx Hy. destruct (N.lt_ge_cases (N.lxor x y) 256) as [|Hge]; [assumption|exfalso].
  pose proof (shiftr_lxor_div x y 8) as H. change (2 ^ 8) with 256 in H.
  rewrite (N.div_small x 256 Hx), (N.div_small y 256 Hy) in H. cbn in H.
  assert (1 <= N.lxor x y / 256) by (apply N.div_le_lower_bound; lia). lia.
Qed.

Lemma lz8_prefix x y r : x < 256 -> y < 256 -> 1 <= r -> r <= 7 ->
  (r <=? lz8 (N.lxor x y)) = (x / 2 ^ (8 - r) =? y / 2 ^ (8 - r)).
Proof.
  intros Hx Hy H1 H7. pose proof lz_table as T. unfold lz_table_ok in T.
  rewrite forallb_forall in T. specialize (T _ (in_range256 _ (lxor_lt256 x y Hx Hy))).
  rewrite forallb_forall in T.
  assert (Hin : In r [1; 2; 3; 4; 5; 6; 7]).
  { assert (r = 1 \/ r = 2 \/ r = 3 \/ r = 4 \/ r = 5 \/ r = 6 \/ r = 7) as Hc by lia.
    cbn. intuition. }
  specialize (T r Hin). apply eqb_prop in T. rewrite T.
  rewrite shiftr_lxor_div.
  destruct (N.eqb_spec (x / 2 ^ (8 - r)) (y / 2 ^ (8 - r))) as [He|Hne].
  - rewrite He, N.lxor_nilpotent. reflexivity.
  - apply N.eqb_neq. intros H0. apply N.lxor_eq in H0. contradiction.
Qed.

Lemma nth_bytes l k : bytes l -> nth k l 0 < 256.
Proof.
  intros Hl. revert k. induction Hl as [|x l Hx Hl IH]; intros k.
  - destruct k; reflexivity.
  - destruct k; cbn [nth]; [exact Hx|apply IH].
Qed.

Lemma bits_match_is_spec a b n : bytes a -> bytes b ->
  bits_match a b n = top_bits_equal a b n.
Proof.
  intros Ha Hb. unfold bits_match, top_bits_equal.
  destruct (Z.ltb_spec n 0) as [Hneg|Hpos]; cbn [orb].
  { destruct (Z.leb_spec 0 n); [lia|reflexivity]. }
  destruct (Z.leb_spec 0 n) as [_|]; [|lia]. cbn [andb].
  destruct (Z.ltb_spec (Z.of_nat (length a) * 8) n) as [H1|H1]; cbn [orb].
  { destruct (Z.leb_spec n (8 * Z.of_nat (length a))); [lia|reflexivity]. }
  destruct (Z.leb_spec n (8 * Z.of_nat (length a))) as [_|]; [|lia]. cbn [andb].
  destruct (Z.ltb_spec (Z.of_nat (length b) * 8) n) as [H2|H2].
  { destruct (Z.leb_spec n (8 * Z.of_nat (length b))); [lia|reflexivity]. }
  destruct (Z.leb_spec n (8 * Z.of_nat (length b))) as [_|]; [|lia]. cbn [andb].
  destruct (list_eqb N.eqb (firstn (N.to_nat (Z.to_N n / 8)) a) (firstn (N.to_nat (Z.to_N n / 8)) b));
    cbn [negb andb]; [|reflexivity].
  destruct (N.eqb_spec (Z.to_N n mod 8) 0) as [Hr|Hr]; cbn [orb]; [reflexivity|].
  pose proof (N.mod_upper_bound (Z.to_N n) 8 ltac:(discriminate)) as Hub.
  apply lz8_prefix; try (apply nth_bytes; assumption); lia.
Qed.

(* ---------- FindChallenge / Failed ---------- *)
Definition hdrs_bytes (h : hdrs) : Prop := Forall (fun e => bytes (fst (snd e))) h.

Lemma hdr_of_bytes h r seed same : hdrs_bytes h -> hdr_of h r = Some (seed, same) -> bytes seed.
Proof.
  intros Hh. induction Hh as [|[r' [s sm]] h Hx Hh IH]; cbn [hdr_of]; [discriminate|].
  destruct (r =? r'); [intros H; inversion H; subst; exact Hx|exact IH].
Qed.

Lemma challenge_failed_is_spec ru cur h a ls :
  cur < 2 ^ 63 -> r_grace ru < 2 ^ 62 -> hdrs_bytes h -> bytes a ->
  ch_failed (find_challenge ru cur h) a ls = challenge_failed_spec ru h cur a ls.
Proof.
  intros Hc Hg Hh Ha. unfold find_challenge, challenge_failed_spec, challenge_round.
  change (2 ^ 63) with 9223372036854775808 in Hc. change (2 ^ 62) with 4611686018427387904 in Hg.
  destruct (N.eqb_spec (r_interval ru) 0) as [Hi|Hi]; cbn [orb]; [reflexivity|].
  set (i := r_interval ru) in *. set (g := r_grace ru) in *.
  pose proof (N.div_mod cur i Hi) as Hdm.
  pose proof (N.mod_upper_bound cur i Hi) as Hub.
  assert (Hlc : cur - cur mod i = i * (cur / i)).
  { remember (cur / i) as q. remember (cur mod i) as m. rewrite Hdm. rewrite N.add_sub. reflexivity. }
  rewrite Hlc. set (lc := i * (cur / i)) in *.
  assert (Hlcle : lc <= cur) by lia.
  destruct (N.ltb_spec cur i) as [Hlt|Hge].
  - (* before the first challenge: lc = 0 *)
    assert (Hq : cur / i = 0) by (apply N.div_small; exact Hlt).
    assert (lc = 0) by (unfold lc; rewrite Hq; lia).
    rewrite (proj2 (N.eqb_eq lc 0)) by assumption. reflexivity.
  - assert (Hq : 1 <= cur / i).
    { apply N.div_le_lower_bound; [exact Hi|lia]. }
    assert (Hnz : lc <> 0) by (unfold lc; nia).
    rewrite (proj2 (N.eqb_neq lc 0) Hnz). cbn [negb andb].
    rewrite (N.mod_small (2 * g)) by (rewrite W64_val; lia).
    rewrite (N.mod_small (lc + g)) by (rewrite W64_val; lia).
    rewrite (N.mod_small (lc + 2 * g)) by (rewrite W64_val; lia).
    destruct (N.leb_spec cur (lc + g)) as [H1|H1]; destruct (N.ltb_spec (lc + g) cur) as [H1'|H1']; try lia;
      cbn [orb andb]; [reflexivity|].
    destruct (N.ltb_spec (lc + 2 * g) cur) as [H2|H2]; destruct (N.leb_spec cur (lc + 2 * g)) as [H2'|H2']; try lia;
      cbn [orb andb]; [reflexivity|].
    destruct (hdr_of h lc) as [[seed same]|] eqn:Hh'; [|reflexivity].
    destruct same; cbn [negb]; [|reflexivity].
    unfold ch_failed. cbn [ch_round ch_seed ch_bits].
    rewrite (proj2 (N.eqb_neq lc 0) Hnz). cbn [negb andb].
    rewrite bits_match_is_spec; [reflexivity| |assumption].
    eapply hdr_of_bytes; eassumption.
Qed.

(* the declarative reading of the challenge disjunct *)
Lemma challenge_failed_spec_prop ru h cur a ls :
  challenge_failed_spec ru h cur a ls = true <->
  exists lc seed,
    r_interval ru <> 0 /\ lc = r_interval ru * (cur / r_interval ru) /\ lc <> 0 /\
    lc + r_grace ru < cur /\ cur <= lc + 2 * r_grace ru /\
    hdr_of h lc = Some (seed, true) /\
    top_bits_equal seed a (r_bits ru) = true /\ ls < lc.
Proof.
  unfold challenge_failed_spec, challenge_round.
  destruct (N.eqb_spec (r_interval ru) 0) as [Hi|Hi].
  { split; [discriminate|]. intros [lc [seed [H _]]]. contradiction. }
  set (lc := r_interval ru * (cur / r_interval ru)).
  destruct (negb (lc =? 0) && (lc + r_grace ru <? cur) && (cur <=? lc + 2 * r_grace ru)) eqn:Hw.
  - rewrite !andb_true_iff, negb_true_iff, N.eqb_neq, N.ltb_lt, N.leb_le in Hw.
    destruct Hw as [[Hnz H1] H2].
    destruct (hdr_of h lc) as [[seed same]|] eqn:Hh.
    + destruct same.
      * rewrite andb_true_iff, N.ltb_lt. split.
        -- intros [Hb Hl]. exists lc, seed. repeat (split; [assumption || reflexivity|]). assumption.
        -- intros [lc' [seed' [_ [-> [_ [_ [_ [Hh' [Hb Hl]]]]]]]]]. fold lc in Hh'.
           rewrite Hh in Hh'. inversion Hh'; subst. split; assumption.
      * split; [discriminate|]. intros [lc' [seed' [_ [-> [_ [_ [_ [Hh' _]]]]]]]]. fold lc in Hh'.
        rewrite Hh in Hh'. discriminate.
    + split; [discriminate|]. intros [lc' [seed' [_ [-> [_ [_ [_ [Hh' _]]]]]]]]. fold lc in Hh'.
      rewrite Hh in Hh'. discriminate.
  - split; [discriminate|]. intros [lc' [seed' [_ [-> [Hnz [H1 [H2 _]]]]]]]. fold lc in Hnz, H1, H2.
    rewrite !andb_false_iff, negb_false_iff, N.eqb_eq, N.ltb_ge, N.leb_gt in Hw. lia.
Qed.

(* ---------- expired list ---------- *)
Definition exp_member (st : state) (round : N) (a : addr) : Prop :=
  a_hasvote (lookup st a) = true /\ a_lastvalid (lookup st a) < round.

Lemma expired_member_ok_iff st round a : expired_member_ok st round a = true <-> exp_member st round a.
Proof. unfold expired_member_ok, exp_member. rewrite andb_true_iff, N.ltb_lt. reflexivity. Qed.

Lemma ve_loop_iff st round l : forall seen,
  ve_loop st round seen l = KOk <->
  NoDup l /\ (forall a, In a l -> ~ In a seen) /\ (forall a, In a l -> exp_member st round a).
Proof.
  induction l as [|a r IH]; intros seen; cbn [ve_loop].
  - split; [intros _; split; [constructor|split; intros ? []]|reflexivity].
  - destruct (mem a seen) eqn:Hm.
    { split; [discriminate|]. intros [_ [H _]]. apply mem_In in Hm. exfalso. apply (H a); [left; reflexivity|assumption]. }
    apply mem_false in Hm.
    destruct (a_hasvote (lookup st a)) eqn:Hv; cbn [negb].
    2:{ split; [discriminate|]. intros [_ [_ H]]. destruct (H a (or_introl eq_refl)) as [H1 _]. congruence. }
    destruct (N.leb_spec round (a_lastvalid (lookup st a))) as [Hle|Hlt].
    { split; [discriminate|]. intros [_ [_ H]]. destruct (H a (or_introl eq_refl)) as [_ H2]. lia. }
    rewrite IH. split.
    + intros [Hnd [Hseen Hall]]. split; [|split].
      * constructor; [|assumption]. intros Hin. apply (Hseen a Hin). left. reflexivity.
      * intros x [->|Hin]; [assumption|]. intros Hx. apply (Hseen x Hin). right. assumption.
      * intros x [->|Hin]; [split; assumption|apply Hall; assumption].
    + intros [Hnd [Hseen Hall]]. inversion Hnd; subst. split; [assumption|]. split.
      * intros x Hin [->|Hx]; [contradiction|]. apply (Hseen x); [right; assumption|assumption].
      * intros x Hin. apply Hall. right. assumption.
Qed.

Lemma validate_expired_iff st maxExp round l :
  validate_expired st maxExp round l = KOk <->
  NoDup l /\ (length l <= maxExp)%nat /\ (forall a, In a l -> exp_member st round a).
Proof.
  unfold validate_expired. destruct (Nat.ltb_spec maxExp (length l)) as [Hlt|Hle].
  - split; [discriminate|]. intros [_ [H _]]. lia.
  - rewrite ve_loop_iff. split.
    + intros [H1 [_ H3]]. auto.
    + intros [H1 [_ H3]]. split; [assumption|]. split; [intros ? _ []|assumption].
Qed.

Lemma expired_ok_iff st p l :
  expired_ok st p l = true <->
  NoDup l /\ (length l <= k_max_exp p)%nat /\ (forall a, In a l -> exp_member st (k_round p) a).
Proof.
  unfold expired_ok. rewrite !andb_true_iff, nodupb_NoDup, Nat.leb_le, forallb_forall.
  split.
  - intros [[H1 H2] H3]. split; [assumption|]. split; [assumption|].
    intros a Ha. apply expired_member_ok_iff, H3, Ha.
  - intros [H1 [H2 H3]]. split; [split; assumption|]. intros a Ha. apply expired_member_ok_iff, H3, Ha.
Qed.

(* ---------- absent list ---------- *)
(* the per-member test exactly as the loop performs it *)
Definition abs_member_model (st : state) (sk : stakes) (total : N) (ch : chal) (round : N) (a : addr) : bool :=
  let d := lookup st a in
  (a_status d =? st_online) && negb (a_algos d =? 0) && a_elig d &&
  (is_absent total (stake_of sk a) (last_seen d) round || ch_failed ch a (last_seen d)).

Lemma va_loop_iff st sk total ch round l : forall seen,
  va_loop st sk total ch round seen l = KOk <->
  NoDup l /\ (forall a, In a l -> ~ In a seen) /\
  (forall a, In a l -> abs_member_model st sk total ch round a = true).
Proof.
  induction l as [|a r IH]; intros seen; cbn [va_loop].
  - split; [intros _; split; [constructor|split; intros ? []]|reflexivity].
  - destruct (mem a seen) eqn:Hm.
    { split; [discriminate|]. intros [_ [H _]]. apply mem_In in Hm. exfalso. apply (H a); [left; reflexivity|assumption]. }
    apply mem_false in Hm.
    assert (Hstep : forall (ok : bool),
      abs_member_model st sk total ch round a = ok ->
      ((if ok then va_loop st sk total ch round (a :: seen) r else KAbsNotAbsent) = KOk <->
       NoDup (a :: r) /\ (forall x, In x (a :: r) -> ~ In x seen) /\
       (forall x, In x (a :: r) -> abs_member_model st sk total ch round x = true))).
    { intros ok Hok. destruct ok.
      - rewrite IH. split.
        + intros [Hnd [Hseen Hall]]. split; [|split].
          * constructor; [|assumption]. intros Hin. apply (Hseen a Hin). left. reflexivity.
          * intros x [->|Hin]; [assumption|]. intros Hx. apply (Hseen x Hin). right. assumption.
          * intros x [->|Hin]; [assumption|apply Hall; assumption].
        + intros [Hnd [Hseen Hall]]. inversion Hnd; subst. split; [assumption|]. split.
          * intros x Hin [->|Hx]; [contradiction|]. apply (Hseen x); [right; assumption|assumption].
          * intros x Hin. apply Hall. right. assumption.
      - split; [discriminate|]. intros [_ [_ H]]. specialize (H a (or_introl eq_refl)). congruence. }
    unfold abs_member_model in Hstep. cbv zeta in Hstep.
    destruct (a_status (lookup st a) =? st_online); cbn [negb andb] in *.
    2:{ specialize (Hstep false eq_refl). cbn in Hstep. split; [discriminate|]. intros H. apply Hstep in H. discriminate. }
    destruct (a_algos (lookup st a) =? 0); cbn [negb andb] in *.
    { specialize (Hstep false eq_refl). cbn in Hstep. split; [discriminate|]. intros H. apply Hstep in H. discriminate. }
    destruct (a_elig (lookup st a)); cbn [negb andb] in *.
    2:{ specialize (Hstep false eq_refl). cbn in Hstep. split; [discriminate|]. intros H. apply Hstep in H. discriminate. }
    destruct (is_absent total (stake_of sk a) (last_seen (lookup st a)) round); cbn [orb] in *.
    { exact (Hstep true eq_refl). }
    destruct (ch_failed ch a (last_seen (lookup st a))).
    { exact (Hstep true eq_refl). }
    exact (Hstep false eq_refl).
Qed.

Lemma validate_absent_model_iff st sk h p l :
  validate_absent st sk h p l = KOk <->
  NoDup l /\ (length l <= k_max_abs p)%nat /\
  (forall a, In a l ->
     abs_member_model st sk (k_total p) (find_challenge (k_rules p) (k_round p) h) (k_round p) a = true).
Proof.
  unfold validate_absent. destruct (Nat.ltb_spec (k_max_abs p) (length l)) as [Hlt|Hle].
  - split; [discriminate|]. intros [_ [H _]]. lia.
  - rewrite va_loop_iff. split.
    + intros [H1 [_ H3]]. auto.
    + intros [H1 [_ H3]]. split; [assumption|]. split; [intros ? _ []|assumption].
Qed.

(* bounds under which the Go arithmetic does not wrap: rounds below 2^63, uint64 stakes *)
Definition acct_bounded (d : acct) : Prop := a_lastprop d < 2 ^ 63 /\ a_lasthb d < 2 ^ 63.
Definition state_bounded (st : state) : Prop := Forall (fun e => acct_bounded (snd e)) st.
Definition stakes_bounded (sk : stakes) : Prop := Forall (fun e => snd e < W64) sk.
Definition params_bounded (p : kparams) : Prop :=
  k_round p < 2 ^ 63 /\ k_total p < W64 /\ r_grace (k_rules p) < 2 ^ 62.

Lemma lookup_bounded st a : state_bounded st -> acct_bounded (lookup st a).
Proof.
  intros H. induction H as [|[b d] st Hd Hst IH]; cbn [lookup].
  - split; reflexivity.
  - destruct (addr_eqb a b); [exact Hd|exact IH].
Qed.

Lemma stake_bounded sk a : stakes_bounded sk -> stake_of sk a < W64.
Proof.
  intros H. induction H as [|[b s] sk Hs Hsk IH]; cbn [stake_of].
  - reflexivity.
  - destruct (addr_eqb a b); [exact Hs|exact IH].
Qed.

Lemma last_seen_bounded d : acct_bounded d -> last_seen d < 2 ^ 63.
Proof. intros [H1 H2]. unfold last_seen. lia. Qed.

Lemma abs_member_model_is_spec st sk h p a :
  state_bounded st -> stakes_bounded sk -> params_bounded p -> hdrs_bytes h -> bytes a ->
  abs_member_model st sk (k_total p) (find_challenge (k_rules p) (k_round p) h) (k_round p) a =
  absent_member_ok st sk h p a.
Proof.
  intros Hst Hsk [Hr [Ht Hg]] Hh Ha. unfold abs_member_model, absent_member_ok, absent_by_rule, absent_by_challenge.
  cbv zeta.
  pose proof (last_seen_bounded _ (lookup_bounded st a Hst)) as Hls.
  rewrite is_absent_is_spec by (try assumption; apply stake_bounded; assumption).
  rewrite challenge_failed_is_spec by assumption.
  f_equal. f_equal. f_equal.
  destruct (N.eqb_spec (a_algos (lookup st a)) 0) as [->|Hne]; [reflexivity|].
  cbn [negb]. symmetry. apply N.ltb_lt. lia.
Qed.

Definition abs_member (st : state) (sk : stakes) (h : hdrs) (p : kparams) (a : addr) : Prop :=
  let d := lookup st a in
  a_status d = st_online /\ 0 < a_algos d /\ a_elig d = true /\
  (is_absent_spec (k_total p) (stake_of sk a) (last_seen d) (k_round p) = true \/
   challenge_failed_spec (k_rules p) h (k_round p) a (last_seen d) = true).

Lemma absent_member_ok_iff st sk h p a : absent_member_ok st sk h p a = true <-> abs_member st sk h p a.
Proof.
  unfold absent_member_ok, abs_member, absent_by_rule, absent_by_challenge. cbv zeta.
  rewrite !andb_true_iff, orb_true_iff, N.eqb_eq, N.ltb_lt. tauto.
Qed.

Lemma validate_absent_iff st sk h p l :
  state_bounded st -> stakes_bounded sk -> params_bounded p -> hdrs_bytes h -> Forall bytes l ->
  (validate_absent st sk h p l = KOk <->
   NoDup l /\ (length l <= k_max_abs p)%nat /\ (forall a, In a l -> abs_member st sk h p a)).
Proof.
  intros Hst Hsk Hp Hh Hl. rewrite validate_absent_model_iff.
  rewrite Forall_forall in Hl.
  split; intros [H1 [H2 H3]]; (split; [assumption|split; [assumption|]]); intros a Ha.
  - apply absent_member_ok_iff. rewrite <- abs_member_model_is_spec by auto. apply H3, Ha.
  - rewrite abs_member_model_is_spec by auto. apply absent_member_ok_iff. apply H3, Ha.
Qed.

Lemma absent_ok_iff st sk h p l :
  absent_ok st sk h p l = true <->
  NoDup l /\ (length l <= k_max_abs p)%nat /\ (forall a, In a l -> abs_member st sk h p a).
Proof.
  unfold absent_ok. rewrite !andb_true_iff, nodupb_NoDup, Nat.leb_le, forallb_forall.
  split.
  - intros [[H1 H2] H3]. split; [assumption|]. split; [assumption|].
    intros a Ha. apply absent_member_ok_iff, H3, Ha.
  - intros [H1 [H2 H3]]. split; [split; assumption|]. intros a Ha. apply absent_member_ok_iff, H3, Ha.
Qed.

(* ---------- the block: expired then absent ---------- *)
Lemma reset_expired_lookup st maxExp l st1 x : reset_expired st maxExp l = Some st1 ->
  lookup st1 x = if mem x l then clear_online (lookup st x) else lookup st x.
Proof.
  unfold reset_expired. destruct (Nat.ltb maxExp (length l)); [discriminate|].
  intros H. inversion H; subst. apply lookup_fold_put. exact clear_online_idem.
Qed.

Lemma reset_bounded st maxExp l st1 : state_bounded st -> reset_expired st maxExp l = Some st1 ->
  state_bounded st1.
Proof.
  unfold reset_expired. destruct (Nat.ltb maxExp (length l)); [discriminate|].
  intros Hst H. inversion H; subst. clear H. revert st Hst.
  induction l as [|a r IH]; intros st Hst; cbn [fold_left]; [assumption|].
  apply IH. constructor; [|assumption]. cbn [snd].
  destruct (lookup_bounded st a Hst) as [H1 H2]. split; assumption.
Qed.

Lemma abs_member_pre st st1 sk h p ex a :
  (forall x, lookup st1 x = if mem x ex then clear_online (lookup st x) else lookup st x) ->
  abs_member st1 sk h p a -> ~ In a ex /\ abs_member st sk h p a.
Proof.
  intros Hl Hm. specialize (Hl a). destruct (mem a ex) eqn:Hmem.
  - exfalso. destruct Hm as [Hs _]. rewrite Hl in Hs. discriminate.
  - apply mem_false in Hmem. split; [assumption|]. unfold abs_member in *. rewrite Hl in Hm. exact Hm.
Qed.

(* accepted lists are justified against the state BEFORE the lists are applied, and disjoint *)
Lemma knockoff_justified st sk h p ex ab st' :
  state_bounded st -> stakes_bounded sk -> params_bounded p -> hdrs_bytes h -> Forall bytes ab ->
  knockoff st sk h p ex ab = (KOk, st') ->
  (NoDup ex /\ (length ex <= k_max_exp p)%nat /\ (forall a, In a ex -> exp_member st (k_round p) a)) /\
  (NoDup ab /\ (length ab <= k_max_abs p)%nat /\ (forall a, In a ab -> abs_member st sk h p a)) /\
  (forall a, In a ab -> ~ In a ex).
Proof.
  intros Hst Hsk Hp Hh Hab. unfold knockoff.
  destruct (validate_expired st (k_max_exp p) (k_round p) ex) eqn:Hve; try (intros H; inversion H; fail).
  destruct (reset_expired st (k_max_exp p) ex) as [st1|] eqn:Hre; [|intros H; inversion H].
  destruct (validate_absent st1 sk h p ab) eqn:Hva; try (intros H; inversion H; fail).
  intros _. apply validate_expired_iff in Hve.
  pose proof (reset_bounded _ _ _ _ Hst Hre) as Hst1.
  apply (validate_absent_iff st1 sk h p ab Hst1 Hsk Hp Hh Hab) in Hva.
  destruct Hva as [Hnd [Hlen Hall]].
  pose proof (fun x => reset_expired_lookup _ _ _ _ x Hre) as Hl.
  split; [exact Hve|]. split.
  - split; [assumption|]. split; [assumption|]. intros a Ha.
    exact (proj2 (abs_member_pre st st1 sk h p ex a Hl (Hall a Ha))).
  - intros a Ha. exact (proj1 (abs_member_pre st st1 sk h p ex a Hl (Hall a Ha))).
Qed.

(* ... and exactly those blocks are accepted *)
Lemma knockoff_accepts_iff st sk h p ex ab :
  state_bounded st -> stakes_bounded sk -> params_bounded p -> hdrs_bytes h -> Forall bytes ab ->
  (fst (knockoff st sk h p ex ab) = KOk <->
   (NoDup ex /\ (length ex <= k_max_exp p)%nat /\ (forall a, In a ex -> exp_member st (k_round p) a)) /\
   (NoDup ab /\ (length ab <= k_max_abs p)%nat /\ (forall a, In a ab -> abs_member st sk h p a)) /\
   (forall a, In a ab -> ~ In a ex)).
Proof.
  intros Hst Hsk Hp Hh Hab. split.
  - destruct (knockoff st sk h p ex ab) as [r st'] eqn:Hk. cbn [fst]. intros ->.
    eapply knockoff_justified; eassumption.
  - intros [Hex [[Hnd [Hlen Hall]] Hdis]]. unfold knockoff.
    rewrite (proj2 (validate_expired_iff st (k_max_exp p) (k_round p) ex) Hex).
    destruct Hex as [_ [Hlex _]].
    unfold reset_expired. destruct (Nat.ltb_spec (k_max_exp p) (length ex)) as [|_]; [lia|].
    set (st1 := fold_left (fun s a => put s a (clear_online (lookup s a))) ex st).
    assert (Hre : reset_expired st (k_max_exp p) ex = Some st1).
    { unfold reset_expired. destruct (Nat.ltb_spec (k_max_exp p) (length ex)); [lia|reflexivity]. }
    pose proof (reset_bounded _ _ _ _ Hst Hre) as Hst1.
    assert (Hva : validate_absent st1 sk h p ab = KOk).
    { apply (validate_absent_iff st1 sk h p ab Hst1 Hsk Hp Hh Hab).
      split; [assumption|]. split; [assumption|]. intros a Ha.
      pose proof (reset_expired_lookup _ _ _ _ a Hre) as Hl.
      rewrite (proj2 (mem_false a ex) (Hdis a Ha)) in Hl.
      unfold abs_member. rewrite Hl. apply Hall, Ha. }
    rewrite Hva. reflexivity.
Qed.

(* effect of an accepted block on the participation state *)
Lemma knockoff_effect st sk h p ex ab st' : knockoff st sk h p ex ab = (KOk, st') ->
  forall x, lookup st' x =
    if mem x ab then suspend (if mem x ex then clear_online (lookup st x) else lookup st x)
    else if mem x ex then clear_online (lookup st x) else lookup st x.
Proof.
  unfold knockoff.
  destruct (validate_expired st (k_max_exp p) (k_round p) ex); try (intros H; inversion H; fail).
  destruct (reset_expired st (k_max_exp p) ex) as [st1|] eqn:Hre; [|intros H; inversion H].
  destruct (validate_absent st1 sk h p ab); try (intros H; inversion H; fail).
  intros H x. inversion H; subst. unfold suspend_absent.
  rewrite (lookup_fold_put suspend suspend_idem). rewrite (reset_expired_lookup _ _ _ _ x Hre). reflexivity.
Qed.

(* ---------- the oracle ---------- *)
Lemma spec_knockoff_ok_sound st sk h p ex ab :
  spec_knockoff_ok st sk h p ex ab true = true <->
  (NoDup ex /\ (length ex <= k_max_exp p)%nat /\ (forall a, In a ex -> exp_member st (k_round p) a)) /\
  (NoDup ab /\ (length ab <= k_max_abs p)%nat /\ (forall a, In a ab -> abs_member st sk h p a)).
Proof. unfold spec_knockoff_ok. rewrite andb_true_iff, expired_ok_iff, absent_ok_iff. reflexivity. Qed.

Lemma model_meets_knockoff_oracle st sk h p ex ab :
  state_bounded st -> stakes_bounded sk -> params_bounded p -> hdrs_bytes h -> Forall bytes ab ->
  spec_knockoff_ok st sk h p ex ab
    (match fst (knockoff st sk h p ex ab) with KOk => true | _ => false end) = true.
Proof.
  intros Hst Hsk Hp Hh Hab.
  destruct (knockoff st sk h p ex ab) as [r st'] eqn:Hk. cbn [fst].
  destruct r; try reflexivity.
  apply spec_knockoff_ok_sound.
  destruct (knockoff_justified st sk h p ex ab st' Hst Hsk Hp Hh Hab Hk) as [H1 [H2 _]]. split; assumption.
Qed.
