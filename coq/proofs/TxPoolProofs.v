(* C44: invariants of the transaction-pool model, for EVERY evaluator satisfying the
   hypotheses M0-M3 (the byte budget is the only thing that depends on blockTxBytes) and
   D1 (the evaluator rejects a txid it has seen and remembers the ones it accepts). *)
From Coq Require Import NArith List Bool Lia ZifyN ZifyNat ZifyBool.
Import ListNotations.
From Verif.model Require Import TxPool.
Open Scope N_scope.

Lemma nodup_app_intro : forall (A : Type) (l1 l2 : list A),
    NoDup l1 -> NoDup l2 -> (forall x, In x l1 -> In x l2 -> False) -> NoDup (l1 ++ l2).
Proof.
  induction l1 as [|a l1 IH]; intros l2 H1 H2 H; [exact H2|].
  cbn [app]. inversion H1; subst. constructor.
  - intro Hin. apply in_app_or in Hin as [Hin|Hin]; [contradiction|].
    apply (H a); [left; reflexivity | assumption].
  - apply IH; auto. intros x Hx1 Hx2. apply (H x); [right; assumption | assumption].
Qed.

Lemma nodup_app_l : forall (A : Type) (l1 l2 : list A), NoDup (l1 ++ l2) -> NoDup l1.
Proof.
  induction l1 as [|a l1 IH]; intros l2 H; [constructor|].
  cbn [app] in H. inversion H; subst. constructor.
  - intro Hin. apply H2. apply in_or_app; left; assumption.
  - eapply IH; eauto.
Qed.

Section PoolProofs.
  Context {cstate lstate txn txid : Type}.
  Variable txid_eqb : txid -> txid -> bool.
  Variable tgroup : cstate -> N -> list txn -> eres cstate.
  Variable cround : cstate -> N.
  Variable start : lstate -> sres cstate.
  Variable tid : txn -> txid.
  Variable tlast : txn -> N.
  Variable tstpf : txn -> bool.
  Variable tspsnd : txn -> bool.
  Variable tfee : txn -> N.
  Variable tenc : txn -> N.
  Variable maxsize : N.
  Variable expf : N.

  Variable maxb : N.                       (* maxTxnBytesPerBlock *)
  Variable cseen : cstate -> txid -> bool. (* txid is in the ledger's tail or in the evaluator's block *)

  Hypothesis eqb_spec : forall a b, txid_eqb a b = true <-> a = b.
  Hypothesis M0 : forall c b, tgroup c b [] = EOk c b.
  Hypothesis M1 : forall c c' g s b, g <> [] -> tgroup c 0 g = EOk c' s -> b + s <= maxb ->
                                     tgroup c b g = EOk c' (b + s).
  Hypothesis M2 : forall c c' g s b, g <> [] -> tgroup c 0 g = EOk c' s -> maxb < b + s ->
                                     tgroup c b g = ENoSpace.
  Hypothesis M3 : forall c c' g b b', tgroup c b g = EOk c' b' ->
                                      exists s, b' = b + s /\ tgroup c 0 g = EOk c' s.
  Hypothesis D1 : forall c b g c' b', tgroup c b g = EOk c' b' ->
      NoDup (map tid g) /\
      (forall t, In t g -> cseen c (tid t) = false) /\
      (forall id, cseen c id = true -> cseen c' id = true) /\
      (forall t, In t g -> cseen c' (tid t) = true).

  Notation pool := (@pool cstate lstate txn txid).
  Notation sys := (@sys cstate lstate txn txid).
  Notation op := (@op lstate txn txid).
  Notation add := (add tgroup cround tlast).
  Notation once := (once tgroup cround tlast).
  Notation replay := (replay tgroup cround tlast).
  Notation capply := (capply tgroup).
  Notation capply_all := (capply_all tgroup).
  Notation remember := (remember txid_eqb tgroup cround tid tlast tstpf tspsnd tfee tenc maxsize expf).
  Notation recompute := (recompute txid_eqb tgroup cround start tid tlast).
  Notation on_new_block := (on_new_block txid_eqb tgroup cround start tid tlast expf).
  Notation step := (step txid_eqb tgroup cround start tid tlast tstpf tspsnd tfee tenc maxsize expf).
  Notation run := (run txid_eqb tgroup cround start tid tlast tstpf tspsnd tfee tenc maxsize expf).
  Notation init := (init txid_eqb tgroup cround start tid tlast).
  Notation feed := (feed txid_eqb tgroup cround tid tlast).
  Notation ins_id := (ins_id txid_eqb).
  Notation ins_group := (ins_group txid_eqb tid).
  Notation ids_of := (ids_of txid_eqb tid).
  Notation spcount := (spcount tstpf).
  Notation is_sp_single := (is_sp_single tstpf).

  Definition flat (gs : list (list txn)) : list txid := map tid (concat gs).

  (* (numPendingWholeBlocks, blockTxBytes) ordered lexicographically *)
  Definition lexle (n1 b1 n2 b2 : N) : Prop := n1 < n2 \/ (n1 = n2 /\ b1 <= b2).

  Lemma lexle_refl : forall n b, lexle n b n b.
  Proof. intros; right; split; [reflexivity | lia]. Qed.
  Lemma lexle_trans : forall n1 b1 n2 b2 n3 b3,
      lexle n1 b1 n2 b2 -> lexle n2 b2 n3 b3 -> lexle n1 b1 n3 b3.
  Proof. unfold lexle; intros; lia. Qed.

  (* ---------- add ---------- *)
  Lemma once_ok : forall c b n g c' b', once c b n g = EOk c' b' ->
      existsb (fun t => tlast t <? cround c + n) g = false /\ tgroup c b g = EOk c' b'.
  Proof.
    unfold TxPool.once; intros c b n g c' b' H.
    destruct (existsb _ g) eqn:E; [discriminate | auto].
  Qed.

  Lemma dead_mono : forall c n n' g, n' <= n ->
      existsb (fun t => tlast t <? cround c + n) g = false ->
      existsb (fun t => tlast t <? cround c + n') g = false.
  Proof.
    intros c n n' g Hle H. induction g as [|t g IH]; [reflexivity|].
    cbn [existsb] in *. apply orb_false_iff in H as [H1 H2].
    apply orb_false_iff; split; [| auto].
    apply N.ltb_ge in H1. apply N.ltb_ge. lia.
  Qed.

  Lemma add_ok_inv : forall c b n g c' b' n', add c b n g = ((c', b', n'), None) ->
      (once c b n g = EOk c' b' /\ n' = n) \/
      (once c b n g = ENoSpace /\ once c 0 (n + 1) g = EOk c' b' /\ n' = n + 1).
  Proof.
    unfold TxPool.add; intros c b n g c' b' n' H.
    destruct (once c b n g) as [c1 b1| |e] eqn:E1.
    - inversion H; subst; auto.
    - destruct (once c 0 (n + 1) g) as [c2 b2| |e] eqn:E2; inversion H; subst. right; auto.
    - discriminate.
  Qed.

  Lemma add_fail : forall c b n g c' b' n' e, add c b n g = ((c', b', n'), Some e) ->
      c' = c /\ lexle n b n' b'.
  Proof.
    unfold TxPool.add; intros c b n g c' b' n' e H.
    destruct (once c b n g) as [c1 b1| |e1] eqn:E1.
    - discriminate.
    - destruct (once c 0 (n + 1) g) as [c2 b2| |e2] eqn:E2; inversion H; subst;
        (split; [reflexivity | left; lia]).
    - inversion H; subst. split; [reflexivity | apply lexle_refl].
  Qed.

  (* an accepted group was accepted by TransactionGroup at some byte offset *)
  Lemma add_ok_tgroup : forall c b n g c' b' n', add c b n g = ((c', b', n'), None) ->
      exists b0, tgroup c b0 g = EOk c' b'.
  Proof.
    intros c b n g c' b' n' H. apply add_ok_inv in H as [[H _] | [_ [H _]]];
      apply once_ok in H as [_ H]; eauto.
  Qed.

  Lemma add_ok_capply : forall c b n g c' b' n', add c b n g = ((c', b', n'), None) ->
      capply c g = Some c'.
  Proof.
    intros c b n g c' b' n' H. apply add_ok_tgroup in H as [b0 H].
    apply M3 in H as [s [_ H]]. unfold TxPool.capply. rewrite H. reflexivity.
  Qed.

  (* KEY: a replay that is "earlier" in (whole blocks, bytes) than the pool's evaluator and has
     the same logical state accepts whatever the pool's evaluator accepts, and stays earlier *)
  Lemma add_dom : forall c bp np br nr g c' bp' np',
      lexle nr br np bp ->
      add c bp np g = ((c', bp', np'), None) ->
      exists br' nr', add c br nr g = ((c', br', nr'), None) /\ lexle nr' br' np' bp'.
  Proof.
    intros c bp np br nr g c' bp' np' Hlex Hadd.
    destruct g as [|t0 g0].
    { (* empty group: accepted anywhere, nothing changes *)
      assert (Hp : add c bp np [] = ((c, bp, np), None)).
      { unfold TxPool.add, TxPool.once. cbn [existsb]. rewrite M0. reflexivity. }
      rewrite Hp in Hadd. inversion Hadd; subst.
      exists br, nr. split; [| exact Hlex].
      unfold TxPool.add, TxPool.once. cbn [existsb]. rewrite M0. reflexivity. }
    set (g := t0 :: g0) in *.
    assert (Hne : g <> []) by (subst g; discriminate).
    apply add_ok_inv in Hadd as [[Ho Hn] | [Hns [Ho Hn]]]; subst np'.
    - (* accepted at the first attempt *)
      apply once_ok in Ho as [Hdead Htg].
      destruct (M3 _ _ _ _ _ Htg) as [s [Hb' Ht0]]. subst bp'.
      assert (Hfit : bp + s <= maxb).
      { destruct (N.le_gt_cases (bp + s) maxb) as [|Hgt]; [assumption|].
        rewrite (M2 _ _ _ _ bp Hne Ht0 Hgt) in Htg. discriminate. }
      assert (Hdr : existsb (fun t => tlast t <? cround c + nr) g = false).
      { apply dead_mono with (n := np); [unfold lexle in Hlex; lia | exact Hdead]. }
      destruct (N.le_gt_cases (br + s) maxb) as [Hle|Hgt].
      + exists (br + s), nr. split.
        * unfold TxPool.add, TxPool.once. rewrite Hdr. rewrite (M1 _ _ _ _ br Hne Ht0 Hle). reflexivity.
        * unfold lexle in *. lia.
      + assert (Hnr : nr < np) by (unfold lexle in Hlex; lia).
        assert (Hdr1 : existsb (fun t => tlast t <? cround c + (nr + 1)) g = false).
        { apply dead_mono with (n := np); [lia | exact Hdead]. }
        exists s, (nr + 1). split.
        * unfold TxPool.add, TxPool.once. rewrite Hdr. rewrite (M2 _ _ _ _ br Hne Ht0 Hgt).
          rewrite Hdr1. rewrite Ht0. reflexivity.
        * unfold lexle. lia.
    - (* ErrNoSpace, then accepted in a fresh pending block *)
      apply once_ok in Ho as [Hdead Htg].
      destruct (M3 _ _ _ _ _ Htg) as [s [Hb' Ht0]]. rewrite N.add_0_l in Hb'. subst bp'.
      assert (Hdr : existsb (fun t => tlast t <? cround c + nr) g = false).
      { apply dead_mono with (n := np + 1); [unfold lexle in Hlex; lia | exact Hdead]. }
      destruct (N.le_gt_cases (br + s) maxb) as [Hle|Hgt].
      + exists (br + s), nr. split.
        * unfold TxPool.add, TxPool.once. rewrite Hdr. rewrite (M1 _ _ _ _ br Hne Ht0 Hle). reflexivity.
        * unfold lexle in *. lia.
      + assert (Hdr1 : existsb (fun t => tlast t <? cround c + (nr + 1)) g = false).
        { apply dead_mono with (n := np + 1); [unfold lexle in Hlex; lia | exact Hdead]. }
        exists s, (nr + 1). split.
        * unfold TxPool.add, TxPool.once. rewrite Hdr. rewrite (M2 _ _ _ _ br Hne Ht0 Hgt).
          rewrite Hdr1. rewrite Ht0. reflexivity.
        * unfold lexle in *. lia.
  Qed.

  (* ---------- replay ---------- *)
  Lemma replay_app : forall gs gs' c b n,
      replay c b n (gs ++ gs') =
      match replay c b n gs with Some (c', b', n') => replay c' b' n' gs' | None => None end.
  Proof.
    induction gs as [|g gs IH]; intros; [reflexivity|].
    cbn [app TxPool.replay]. destruct (add c b n g) as [[[c1 b1] n1] [e|]]; [reflexivity | apply IH].
  Qed.

  Lemma replay_capply : forall gs c b n c' b' n',
      replay c b n gs = Some (c', b', n') -> capply_all c gs = Some c'.
  Proof.
    induction gs as [|g gs IH]; intros c b n c' b' n' H; cbn [TxPool.replay TxPool.capply_all] in *.
    - inversion H; reflexivity.
    - destruct (add c b n g) as [[[c1 b1] n1] [e|]] eqn:E; [discriminate|].
      rewrite (add_ok_capply _ _ _ _ _ _ _ E). eapply IH; eauto.
  Qed.

  Lemma flat_app : forall a b, flat (a ++ b) = flat a ++ flat b.
  Proof. intros; unfold flat. rewrite concat_app, map_app. reflexivity. Qed.
  Lemma flat_cons : forall g gs, flat (g :: gs) = map tid g ++ flat gs.
  Proof. intros; unfold flat. cbn [concat]. rewrite map_app. reflexivity. Qed.
  Lemma flat_single : forall g, flat [g] = map tid g.
  Proof. intros; rewrite flat_cons. unfold flat; cbn. apply app_nil_r. Qed.

  Lemma replay_seen : forall gs c b n c' b' n',
      replay c b n gs = Some (c', b', n') ->
      NoDup (flat gs) /\
      (forall id, In id (flat gs) -> cseen c id = false) /\
      (forall id, cseen c id = true -> cseen c' id = true) /\
      (forall id, In id (flat gs) -> cseen c' id = true).
  Proof.
    induction gs as [|g gs IH]; intros c b n c' b' n' H; cbn [TxPool.replay] in H.
    - inversion H; subst. repeat split; try (intros ? []); auto. constructor.
    - destruct (add c b n g) as [[[c1 b1] n1] [e|]] eqn:E; [discriminate|].
      destruct (add_ok_tgroup _ _ _ _ _ _ _ E) as [b0 Htg].
      destruct (D1 _ _ _ _ _ Htg) as [Hnd [Hun [Hmono Hnew]]].
      destruct (IH _ _ _ _ _ _ H) as [Hnd2 [Hun2 [Hmono2 Hnew2]]].
      rewrite flat_cons. repeat split.
      + apply nodup_app_intro; auto.
        intros id Hin1 Hin2. apply in_map_iff in Hin1 as [t [Ht Hin1]]. subst id.
        specialize (Hun2 _ Hin2). rewrite (Hnew _ Hin1) in Hun2. discriminate.
      + intros id Hin. apply in_app_or in Hin as [Hin|Hin].
        * apply in_map_iff in Hin as [t [Ht Hin]]. subst id. auto.
        * specialize (Hun2 _ Hin). destruct (cseen c id) eqn:Es; [|reflexivity].
          rewrite (Hmono _ Es) in Hun2. discriminate.
      + intros id Hs. auto.
      + intros id Hin. apply in_app_or in Hin as [Hin|Hin].
        * apply in_map_iff in Hin as [t [Ht Hin]]. subst id. auto.
        * auto.
  Qed.

  (* ---------- the key set ---------- *)
  Lemma existsb_eqb_false : forall id l, ~ In id l -> existsb (txid_eqb id) l = false.
  Proof.
    intros id l H. induction l as [|x l IH]; [reflexivity|]. cbn [existsb].
    apply orb_false_iff; split.
    - destruct (txid_eqb id x) eqn:E; [|reflexivity]. apply eqb_spec in E. subst. exfalso; apply H; left; reflexivity.
    - apply IH. intro; apply H; right; assumption.
  Qed.

  Lemma existsb_eqb_true : forall id l, existsb (txid_eqb id) l = true <-> In id l.
  Proof.
    intros id l. rewrite existsb_exists. split.
    - intros [x [Hin He]]. apply eqb_spec in He. subst; assumption.
    - intros Hin. exists id. split; [assumption | apply eqb_spec; reflexivity].
  Qed.

  Lemma ins_ids_fresh : forall ids l, NoDup (l ++ ids) -> fold_left ins_id ids l = l ++ ids.
  Proof.
    induction ids as [|id ids IH]; intros l H; cbn [fold_left].
    - rewrite app_nil_r; reflexivity.
    - assert (Hn : ~ In id l).
      { apply NoDup_remove_2 in H. intro Hi; apply H. apply in_or_app; left; assumption. }
      unfold TxPool.ins_id at 2. rewrite (existsb_eqb_false _ _ Hn).
      replace (l ++ id :: ids) with ((l ++ [id]) ++ ids) in * by (rewrite <- app_assoc; reflexivity).
      apply IH. assumption.
  Qed.

  Lemma ids_of_flat_gen : forall gs l, NoDup (l ++ flat gs) -> fold_left ins_group gs l = l ++ flat gs.
  Proof.
    induction gs as [|g gs IH]; intros l H; cbn [fold_left].
    - unfold flat; cbn. rewrite app_nil_r; reflexivity.
    - rewrite flat_cons in *. rewrite app_assoc in H.
      unfold TxPool.ins_group at 2. rewrite ins_ids_fresh.
      + rewrite IH; [rewrite <- app_assoc; reflexivity | assumption].
      + eapply nodup_app_l. exact H.
  Qed.

  Lemma ids_of_flat : forall gs, NoDup (flat gs) -> ids_of gs = flat gs.
  Proof. intros gs H. unfold TxPool.ids_of. rewrite ids_of_flat_gen; [reflexivity | exact H]. Qed.

  (* ---------- counting ---------- *)
  Definition nonsp (gs : list (list txn)) : N :=
    N.of_nat (length (concat (filter (fun g => negb (is_sp_single g)) gs))).

  Lemma txcount_app : forall a b : list (list txn), txcount (a ++ b) = txcount a + txcount b.
  Proof. intros; unfold txcount. rewrite concat_app, app_length. lia. Qed.
  Lemma spcount_app : forall a b : list (list txn), spcount (a ++ b) = spcount a + spcount b.
  Proof. intros; unfold TxPool.spcount. rewrite filter_app, app_length. apply Nat2N.inj_add. Qed.
  Lemma nonsp_app : forall a b : list (list txn), nonsp (a ++ b) = nonsp a + nonsp b.
  Proof. intros; unfold nonsp. rewrite filter_app, concat_app, app_length. apply Nat2N.inj_add. Qed.

  Lemma txcount_single : forall g : list txn, txcount [g] = N.of_nat (length g).
  Proof. intros; unfold txcount; cbn. rewrite app_nil_r. reflexivity. Qed.

  Lemma count_split_single : forall g : list txn, txcount [g] = nonsp [g] + spcount [g].
  Proof.
    intros g. unfold txcount, nonsp, TxPool.spcount. cbn [filter].
    destruct (is_sp_single g) eqn:E; cbn [negb concat length app].
    - unfold TxPool.is_sp_single in E. destruct g as [|t [|t2 g]]; try discriminate. cbn. lia.
    - rewrite app_nil_r. cbn. lia.
  Qed.

  Lemma count_split : forall gs : list (list txn), txcount gs = nonsp gs + spcount gs.
  Proof.
    induction gs as [|g gs IH]; [reflexivity|].
    change (g :: gs) with ([g] ++ gs). rewrite txcount_app, nonsp_app, spcount_app, IH, count_split_single. lia.
  Qed.

  Lemma txcount_flat : forall gs, txcount gs = N.of_nat (length (flat gs)).
  Proof. intros; unfold txcount, flat. rewrite map_length. reflexivity. Qed.

  (* ---------- recomputeBlockEvaluator's loop ---------- *)
  Lemma feed_inv : forall committed gs c0 c bp np rem c' bp' np' rem',
      (exists br nr, replay c0 0 0 rem = Some (c, br, nr) /\ lexle nr br np bp) ->
      fold_left (feed committed) gs (c, bp, np, rem) = (c', bp', np', rem') ->
      (exists br nr, replay c0 0 0 rem' = Some (c', br, nr) /\ lexle nr br np' bp') /\
      nonsp rem' <= nonsp rem + nonsp gs /\ txcount rem' <= txcount rem + txcount gs.
  Proof.
    intros committed. induction gs as [|g gs IH]; intros c0 c bp np rem c' bp' np' rem' Hinv Hf.
    - cbn [fold_left] in Hf. inversion Hf; subst. split; [assumption|].
      unfold nonsp, txcount; cbn; lia.
    - cbn [fold_left] in Hf.
      assert (Hcons : nonsp (g :: gs) = nonsp [g] + nonsp gs /\ txcount (g :: gs) = txcount [g] + txcount gs).
      { change (g :: gs) with ([g] ++ gs). rewrite nonsp_app, txcount_app. auto. }
      destruct Hcons as [Hc1 Hc2].
      remember (feed committed (c, bp, np, rem) g) as st eqn:Est.
      destruct st as [[[c1 b1] n1] rem1].
      assert (Hstep : (exists br nr, replay c0 0 0 rem1 = Some (c1, br, nr) /\ lexle nr br n1 b1) /\
                      nonsp rem1 <= nonsp rem + nonsp [g] /\ txcount rem1 <= txcount rem + txcount [g]).
      { unfold TxPool.feed in Est. destruct g as [|t g0].
        - inversion Est; subst. split; [assumption | lia].
        - destruct (hd_committed txid_eqb tid committed (t :: g0)).
          + inversion Est; subst. split; [assumption | lia].
          + destruct (add c bp np (t :: g0)) as [[[c2 b2] n2] [e|]] eqn:Ea.
            * inversion Est; subst. apply add_fail in Ea as [Hc Hl]. subst c2.
              destruct Hinv as [br [nr [Hr Hl2]]]. split; [| lia].
              exists br, nr. split; [assumption | eapply lexle_trans; eauto].
            * inversion Est; subst. destruct Hinv as [br [nr [Hr Hl2]]].
              destruct (add_dom _ _ _ _ _ _ _ _ _ Hl2 Ea) as [br' [nr' [Ha Hl']]].
              split.
              -- exists br', nr'. split; [| assumption].
                 rewrite replay_app, Hr. cbn [TxPool.replay]. rewrite Ha. reflexivity.
              -- rewrite nonsp_app, txcount_app. lia. }
      destruct Hstep as [Hinv1 [Hn1 Ht1]].
      destruct (IH _ _ _ _ _ _ _ _ _ Hinv1 Hf) as [Hres [Hn2 Ht2]].
      split; [assumption | lia].
  Qed.

  (* ---------- the invariant ---------- *)
  Definition b2n (b : bool) : N := if b then 1 else 0.

  Record Inv (s : sys) : Prop := mkInv {
    inv_nodup : NoDup (flat (p_pending (s_pool s)));
    inv_ids : p_ids (s_pool s) = flat (p_pending (s_pool s));
    inv_replay : forall c b, p_eval (s_pool s) = Some (c, b) ->
        exists c0 br nr, start (s_base s) = SOk c0 /\
                         replay c0 0 0 (p_pending (s_pool s)) = Some (c, br, nr) /\
                         lexle nr br (p_npwb (s_pool s)) b;
    inv_nonsp : nonsp (p_pending (s_pool s)) <= maxsize;
    inv_epoch : txcount (p_pending (s_pool s)) <=
                N.max (s_basecount s) maxsize + b2n (p_over (s_pool s))
  }.

  Lemma recompute_inv : forall s committed,
      Inv s -> Inv (sys_after_recompute s (recompute (s_pool s) committed)).
  Proof.
    intros s committed HI. destruct HI as [Hnd Hids Hrep Hns Hep].
    unfold TxPool.recompute. destruct (start (p_ledger (s_pool s))) as [c0| |] eqn:Est.
    - destruct (fold_left (feed committed) (p_pending (s_pool s)) (c0, 0, 0, [])) as [[[c b] n] rem] eqn:Ef.
      assert (H0 : exists br nr, replay c0 0 0 [] = Some (c0, br, nr) /\ lexle nr br 0 0).
      { exists 0, 0. split; [reflexivity | apply lexle_refl]. }
      destruct (feed_inv _ _ _ _ _ _ _ _ _ _ _ H0 Ef) as [[br [nr [Hr Hl]]] [Hn Ht]].
      destruct (replay_seen _ _ _ _ _ _ _ Hr) as [Hnd' _].
      unfold sys_after_recompute; cbn [p_eval p_ledger p_pending].
      constructor; cbn [s_pool s_base s_basecount p_pending p_ids p_eval p_npwb p_over].
      + assumption.
      + apply ids_of_flat; assumption.
      + intros c1 b1 He. inversion He; subst. exists c0, br, nr. auto.
      + unfold nonsp in Hn at 2. cbn in Hn. lia.
      + unfold b2n. lia.
    - unfold sys_after_recompute; cbn [set_eval p_eval].
      constructor; cbn [s_pool s_base s_basecount set_eval p_pending p_ids p_eval p_npwb p_over]; auto.
      intros; discriminate.
    - unfold sys_after_recompute; cbn [set_eval p_eval].
      constructor; cbn [s_pool s_base s_basecount set_eval p_pending p_ids p_eval p_npwb p_over]; auto.
      intros; discriminate.
  Qed.

  Lemma set_ftm_inv : forall s v, Inv s ->
      Inv (mkSys (set_ftm (s_pool s) v) (s_base s) (s_basecount s) (s_committed s)).
  Proof. intros s v [H1 H2 H3 H4 H5]. constructor; cbn; auto. Qed.

  Lemma remember_inv : forall s g p' r,
      Inv s -> remember (s_pool s) g = (p', r) ->
      Inv (mkSys p' (s_base s) (s_basecount s) (s_committed s)).
  Proof.
    intros s g p' r HI Hrem. destruct HI as [Hnd Hids Hrep Hns Hep].
    set (p := s_pool s) in *.
    unfold TxPool.remember in Hrem.
    destruct (check_size tstpf maxsize p g) as [p1 ok] eqn:Ecs.
    (* facts about check_size *)
    assert (Hcs : p_pending p1 = p_pending p /\ p_ids p1 = p_ids p /\ p_eval p1 = p_eval p /\
                  p_npwb p1 = p_npwb p /\
                  (b2n (p_over p) <= b2n (p_over p1)) /\
                  (ok = true ->
                   (txcount (p_pending p) + N.of_nat (length g) <= maxsize /\ p_over p1 = p_over p) \/
                   (is_sp_single g = true /\ p_over p = false /\ p_over p1 = true))).
    { unfold TxPool.check_size in Ecs. fold p in Ecs.
      destruct (maxsize <? N.of_nat (length (p_ids p)) + N.of_nat (length g)) eqn:El.
      - destruct (is_sp_single g) eqn:Esp.
        + destruct (p_over p) eqn:Eo; inversion Ecs; subst p1 ok.
          * rewrite ?Eo. repeat split; try reflexivity; try lia; try (intros; discriminate).
          * cbn [set_over p_pending p_ids p_eval p_npwb p_over]. rewrite ?Eo.
            repeat split; try reflexivity; try (unfold b2n; lia); try (intros _; right; auto).
        + inversion Ecs; subst p1 ok. repeat split; try reflexivity; try lia; try (intros; discriminate).
      - inversion Ecs; subst p1 ok. repeat split; try reflexivity; try lia. intros _. left. split; [|reflexivity].
        apply N.ltb_ge in El. fold p in Hids. rewrite Hids in El. rewrite txcount_flat. exact El. }
    destruct Hcs as [Hp1 [Hi1 [He1 [Hn1 [Ho1 Hok]]]]].
    assert (Inv1 : forall q, p_pending q = p_pending p -> p_ids q = p_ids p -> p_eval q = p_eval p ->
                             p_npwb q = p_npwb p -> b2n (p_over p) <= b2n (p_over q) ->
                             Inv (mkSys q (s_base s) (s_basecount s) (s_committed s))).
    { intros q Q1 Q2 Q3 Q4 Q5. constructor; cbn [s_pool s_base s_basecount]; rewrite ?Q1, ?Q2, ?Q4; auto.
      - intros c b Hq. rewrite Q3 in Hq. auto.
      - fold p in Hep. lia. }
    destruct ok; cbn [negb] in Hrem.
    2:{ inversion Hrem; subst. apply Inv1; auto; congruence. }
    destruct (p_eval p1) as [[c b]|] eqn:Eev.
    2:{ inversion Hrem; subst. apply Inv1; auto; congruence. }
    destruct (check_fee tstpf tspsnd tfee tenc expf p1 g) as [p2 fok] eqn:Ecf.
    assert (Hcf : p_pending p2 = p_pending p1 /\ p_ids p2 = p_ids p1 /\ p_eval p2 = p_eval p1 /\
                  p_npwb p2 = p_npwb p1 /\ p_over p2 = p_over p1).
    { unfold TxPool.check_fee in Ecf. destruct (fee_exempt tstpf tspsnd tfee g); inversion Ecf; subst; cbn; auto. }
    destruct Hcf as [Hp2 [Hi2 [He2 [Hn2 Ho2]]]].
    destruct fok; cbn [negb] in Hrem.
    2:{ inversion Hrem; subst. apply Inv1; try congruence. }
    destruct (add c b (p_npwb p2) g) as [[[c' b'] n'] err] eqn:Eadd.
    assert (Hevp : p_eval p = Some (c, b)) by congruence.
    destruct (Hrep _ _ Hevp) as [c0 [br [nr [Hst [Hr Hl]]]]].
    rewrite Hn2, Hn1 in Eadd.
    destruct err as [e|].
    - (* rejected by the evaluator: only (bytes, npwb) may have moved forward *)
      inversion Hrem; subst. apply add_fail in Eadd as [Hc Hl2]. subst c'.
      constructor; cbn [s_pool s_base s_basecount set_eval p_pending p_ids p_eval p_npwb p_over];
        rewrite ?Hp2, ?Hp1, ?Hi2, ?Hi1, ?Ho2; auto.
      + intros c1 b1 Hq. inversion Hq; subst. exists c0, br, nr. repeat split; auto.
        eapply lexle_trans; eauto.
      + fold p in Hep. lia.
    - (* admitted *)
      inversion Hrem; subst.
      destruct (add_dom _ _ _ _ _ _ _ _ _ Hl Eadd) as [br' [nr' [Ha Hl']]].
      assert (Hr' : replay c0 0 0 (p_pending p ++ [g]) = Some (c', br', nr')).
      { rewrite replay_app, Hr. cbn [TxPool.replay]. rewrite Ha. reflexivity. }
      destruct (replay_seen _ _ _ _ _ _ _ Hr') as [Hnd' _].
      constructor; cbn [s_pool s_base s_basecount set_eval p_pending p_ids p_eval p_npwb p_over];
        rewrite ?Hp2, ?Hp1, ?Hi2, ?Hi1, ?Ho2.
      + assumption.
      + rewrite flat_app, flat_single. unfold TxPool.ins_group. fold p in Hids. rewrite Hids.
        apply ins_ids_fresh. rewrite flat_app, flat_single in Hnd'. assumption.
      + intros c1 b1 Hq. inversion Hq; subst. exists c0, br', nr'. auto.
      + rewrite nonsp_app. destruct (Hok eq_refl) as [[Hsz _] | [Hsp _]].
        * pose proof (count_split (p_pending p)). pose proof (count_split_single g).
          rewrite txcount_single in H0. fold p in Hns. unfold group in *. lia.
        * unfold nonsp at 2. cbn [filter]. rewrite Hsp. cbn. fold p in Hns. lia.
      + rewrite txcount_app, txcount_single. fold p in Hep.
        destruct (Hok eq_refl) as [[Hsz Hov] | [Hsp [Hov Hov1]]].
        * lia.
        * rewrite Hov in Hep. rewrite Hov1. unfold b2n in *.
          unfold TxPool.is_sp_single in Hsp. destruct g as [|t [|t2 g]]; try discriminate. cbn. lia.
  Qed.

  Lemma step_inv : forall s o, Inv s -> Inv (fst (step s o)).
  Proof.
    intros s o HI. destruct o as [g | l ids | r committed]; cbn [TxPool.step].
    - destruct (remember (s_pool s) g) as [p' code] eqn:E. cbn [fst].
      eapply remember_inv; eauto.
    - cbn [fst]. destruct HI as [H1 H2 H3 H4 H5]. constructor; cbn; auto.
    - destruct (match p_eval (s_pool s) with Some (c, _) => cround c <=? r | None => true end) eqn:Ego;
        cbn [fst]; [| assumption].
      unfold TxPool.on_new_block. rewrite Ego.
      pose proof (set_ftm_inv s (next_ftm expf (s_pool s)) HI) as HI2.
      pose proof (recompute_inv _ committed HI2) as HI3. cbn [s_pool] in HI3.
      unfold sys_after_recompute in *. cbn [s_base s_basecount s_committed] in HI3. exact HI3.
  Qed.

  Lemma init_inv : forall l com0, Inv (init l com0).
  Proof.
    intros l com0. unfold TxPool.init, TxPool.make.
    set (s0 := mkSys (mkPool [] [] None 0 0 0 false l) l 0 com0).
    assert (H0 : Inv s0).
    { constructor; cbn.
      - constructor.
      - reflexivity.
      - intros; discriminate.
      - unfold nonsp; cbn; lia.
      - unfold txcount; cbn; lia. }
    exact (recompute_inv s0 [] H0).
  Qed.

  Lemma run_inv : forall ops s, Inv s -> Inv (run s ops).
  Proof.
    induction ops as [|o ops IH]; intros s HI; [exact HI|].
    cbn [TxPool.run fold_left]. apply IH. apply step_inv; assumption.
  Qed.

  Theorem reachable_inv : forall l com0 ops, Inv (run (init l com0) ops).
  Proof. intros; apply run_inv, init_inv. Qed.

  (* ---------- the theorems ---------- *)
  Theorem pool_replays_in_order : forall l com0 ops c b,
      let s := run (init l com0) ops in
      p_eval (s_pool s) = Some (c, b) ->
      exists c0 br nr, start (s_base s) = SOk c0 /\
                       replay c0 0 0 (p_pending (s_pool s)) = Some (c, br, nr) /\
                       lexle nr br (p_npwb (s_pool s)) b.
  Proof. intros l com0 ops c b s H. exact (inv_replay _ (reachable_inv l com0 ops) c b H). Qed.

  Theorem pool_applies_in_order : forall l com0 ops c b,
      let s := run (init l com0) ops in
      p_eval (s_pool s) = Some (c, b) ->
      exists c0, start (s_base s) = SOk c0 /\ capply_all c0 (p_pending (s_pool s)) = Some c.
  Proof.
    intros l com0 ops c b s H.
    destruct (pool_replays_in_order l com0 ops c b H) as [c0 [br [nr [Hs [Hr _]]]]].
    exists c0. split; [assumption | eapply replay_capply; eauto].
  Qed.

  Theorem no_dup_txid : forall l com0 ops,
      let s := run (init l com0) ops in
      NoDup (flat (p_pending (s_pool s))) /\ p_ids (s_pool s) = flat (p_pending (s_pool s)).
  Proof. intros l com0 ops s. destruct (reachable_inv l com0 ops); auto. Qed.

  Theorem size_bound : forall l com0 ops,
      let s := run (init l com0) ops in
      txcount (p_pending (s_pool s)) <= maxsize + spcount (p_pending (s_pool s)) /\
      txcount (p_pending (s_pool s)) <= N.max (s_basecount s) maxsize + b2n (p_over (s_pool s)).
  Proof.
    intros l com0 ops s. destruct (reachable_inv l com0 ops) as [_ _ _ Hn He]. fold s in Hn, He.
    split; [| exact He]. rewrite count_split. lia.
  Qed.

  Theorem admit_implies_applicable : forall l com0 ops g p',
      let s := run (init l com0) ops in
      remember (s_pool s) g = (p', None) ->
      p_pending p' = p_pending (s_pool s) ++ [g] /\
      exists c0 c c', start (s_base s) = SOk c0 /\
                      capply_all c0 (p_pending (s_pool s)) = Some c /\ capply c g = Some c' /\
                      exists b', p_eval p' = Some (c', b').
  Proof.
    intros l com0 ops g p' s Hrem.
    pose proof (reachable_inv l com0 ops) as HI. fold s in HI.
    unfold TxPool.remember in Hrem.
    destruct (check_size tstpf maxsize (s_pool s) g) as [p1 ok] eqn:Ecs.
    assert (Hcs : p_pending p1 = p_pending (s_pool s) /\ p_eval p1 = p_eval (s_pool s)).
    { unfold TxPool.check_size in Ecs.
      destruct (maxsize <? _); [destruct (is_sp_single g); [destruct (p_over (s_pool s))|]|];
        inversion Ecs; subst; cbn; auto. }
    destruct Hcs as [Hp1 He1].
    destruct ok; cbn [negb] in Hrem; [| discriminate].
    destruct (p_eval p1) as [[c b]|] eqn:Eev; [| discriminate].
    destruct (check_fee tstpf tspsnd tfee tenc expf p1 g) as [p2 fok] eqn:Ecf.
    assert (Hcf : p_pending p2 = p_pending p1).
    { unfold TxPool.check_fee in Ecf. destruct (fee_exempt tstpf tspsnd tfee g); inversion Ecf; subst; cbn; auto. }
    destruct fok; cbn [negb] in Hrem; [| discriminate].
    destruct (add c b (p_npwb p2) g) as [[[c' b'] n'] [e|]] eqn:Eadd; [discriminate|].
    inversion Hrem; subst; clear Hrem. cbn [p_pending set_eval p_eval].
    rewrite Hcf, Hp1. split; [reflexivity|].
    assert (Hevp : p_eval (s_pool s) = Some (c, b)) by congruence.
    destruct (inv_replay _ HI _ _ Hevp) as [c0 [br [nr [Hs [Hr _]]]]].
    exists c0, c, c'. repeat split; auto.
    - eapply replay_capply; eauto.
    - eapply add_ok_capply; eauto.
    - eauto.
  Qed.

  (* ----- committed transactions: the ledger's evaluators know every committed txid ----- *)
  Fixpoint env_ok (com : list txid) (ops : list op) : Prop :=
    match ops with
    | [] => True
    | OLedger l ids :: r =>
        (forall c id, start l = SOk c -> In id (com ++ ids) -> cseen c id = true) /\ env_ok (com ++ ids) r
    | _ :: r => env_ok com r
    end.

  Definition led_ok (s : sys) : Prop :=
    forall c id, start (p_ledger (s_pool s)) = SOk c -> In id (s_committed s) -> cseen c id = true.

  Lemma recompute_ledger : forall p committed, p_ledger (recompute p committed) = p_ledger p.
  Proof.
    intros p committed. unfold TxPool.recompute. destruct (start (p_ledger p)); cbn; auto.
    destruct (fold_left _ _ _) as [[[c1 b1] n1] rem]. reflexivity.
  Qed.

  Lemma remember_ledger : forall (p : pool) g p' r, remember p g = (p', r) -> p_ledger p' = p_ledger p.
  Proof.
    intros p g p' r H. unfold TxPool.remember in H.
    destruct (check_size tstpf maxsize p g) as [p1 ok] eqn:Ecs.
    assert (H1 : p_ledger p1 = p_ledger p).
    { unfold TxPool.check_size in Ecs.
      destruct (maxsize <? _); [destruct (is_sp_single g); [destruct (p_over p)|]|];
        inversion Ecs; subst; cbn; auto. }
    destruct ok; cbn [negb] in H; [| inversion H; subst; auto].
    destruct (p_eval p1) as [[c b]|]; [| inversion H; subst; auto].
    destruct (check_fee tstpf tspsnd tfee tenc expf p1 g) as [p2 fok] eqn:Ecf.
    assert (H2 : p_ledger p2 = p_ledger p1).
    { unfold TxPool.check_fee in Ecf. destruct (fee_exempt tstpf tspsnd tfee g); inversion Ecf; subst; cbn; auto. }
    destruct fok; cbn [negb] in H; [| inversion H; subst; congruence].
    destruct (add c b (p_npwb p2) g) as [[[c' b'] n'] [e|]]; inversion H; subst; cbn; congruence.
  Qed.


  (* step-level facts about the two environment fields *)
  Lemma step_env : forall s o,
      match o with
      | OLedger l ids => p_ledger (s_pool (fst (step s o))) = l /\ s_committed (fst (step s o)) = s_committed s ++ ids
      | _ => p_ledger (s_pool (fst (step s o))) = p_ledger (s_pool s) /\ s_committed (fst (step s o)) = s_committed s
      end.
  Proof.
    intros s o. destruct o as [g | l ids | r committed]; cbn [TxPool.step].
    - destruct (remember (s_pool s) g) as [p' code] eqn:E. cbn [fst s_pool s_committed].
      split; [exact (remember_ledger _ _ _ _ E) | reflexivity].
    - cbn. auto.
    - destruct (match p_eval (s_pool s) with Some (c, _) => cround c <=? r | None => true end) eqn:Ego;
        cbn [fst]; [| auto].
      unfold TxPool.on_new_block. rewrite Ego. unfold sys_after_recompute.
      destruct (p_eval (recompute _ committed)); cbn [s_pool s_committed];
        rewrite recompute_ledger; cbn [set_ftm p_ledger]; auto.
  Qed.

  Theorem no_committed_at : forall s c b id,
      Inv s -> led_ok s ->
      p_eval (s_pool s) = Some (c, b) -> s_base s = p_ledger (s_pool s) ->
      In id (flat (p_pending (s_pool s))) -> ~ In id (s_committed s).
  Proof.
    intros s c b id HI Hled Hev Hsync Hin Hcom.
    destruct (inv_replay _ HI _ _ Hev) as [c0 [br [nr [Hs [Hr _]]]]].
    destruct (replay_seen _ _ _ _ _ _ _ Hr) as [_ [Hun _]].
    specialize (Hun _ Hin). rewrite Hsync in Hs. rewrite (Hled _ _ Hs Hcom) in Hun. discriminate.
  Qed.

  Theorem admit_at : forall s g p',
      Inv s -> remember (s_pool s) g = (p', None) ->
      p_pending p' = p_pending (s_pool s) ++ [g] /\
      exists c0 c c', start (s_base s) = SOk c0 /\
                      capply_all c0 (p_pending (s_pool s)) = Some c /\ capply c g = Some c' /\
                      exists b', p_eval p' = Some (c', b').
  Proof.
    intros s g p' HI Hrem.
    unfold TxPool.remember in Hrem.
    destruct (check_size tstpf maxsize (s_pool s) g) as [p1 ok] eqn:Ecs.
    assert (Hcs : p_pending p1 = p_pending (s_pool s) /\ p_eval p1 = p_eval (s_pool s)).
    { unfold TxPool.check_size in Ecs.
      destruct (maxsize <? _); [destruct (is_sp_single g); [destruct (p_over (s_pool s))|]|];
        inversion Ecs; subst; cbn; auto. }
    destruct Hcs as [Hp1 He1].
    destruct ok; cbn [negb] in Hrem; [| discriminate].
    destruct (p_eval p1) as [[c b]|] eqn:Eev; [| discriminate].
    destruct (check_fee tstpf tspsnd tfee tenc expf p1 g) as [p2 fok] eqn:Ecf.
    assert (Hcf : p_pending p2 = p_pending p1).
    { unfold TxPool.check_fee in Ecf. destruct (fee_exempt tstpf tspsnd tfee g); inversion Ecf; subst; cbn; auto. }
    destruct fok; cbn [negb] in Hrem; [| discriminate].
    destruct (add c b (p_npwb p2) g) as [[[c' b'] n'] [e|]] eqn:Eadd; [discriminate|].
    inversion Hrem; subst; clear Hrem. cbn [p_pending set_eval p_eval].
    rewrite Hcf, Hp1. split; [reflexivity|].
    assert (Hevp : p_eval (s_pool s) = Some (c, b)) by congruence.
    destruct (inv_replay _ HI _ _ Hevp) as [c0 [br [nr [Hs [Hr _]]]]].
    exists c0, c, c'. repeat split; auto.
    - eapply replay_capply; eauto.
    - eapply add_ok_capply; eauto.
    - eauto.
  Qed.

  Theorem size_at : forall s, Inv s ->
      txcount (p_pending (s_pool s)) <= maxsize + spcount (p_pending (s_pool s)) /\
      txcount (p_pending (s_pool s)) <= N.max (s_basecount s) maxsize + b2n (p_over (s_pool s)).
  Proof.
    intros s [_ _ _ Hn He]. split; [| exact He]. rewrite count_split. lia.
  Qed.

  Theorem applies_at : forall s c b, Inv s -> p_eval (s_pool s) = Some (c, b) ->
      exists c0, start (s_base s) = SOk c0 /\ capply_all c0 (p_pending (s_pool s)) = Some c.
  Proof.
    intros s c b HI H. destruct (inv_replay _ HI _ _ H) as [c0 [br [nr [Hs [Hr _]]]]].
    exists c0. split; [assumption | eapply replay_capply; eauto].
  Qed.

  Lemma run_led_ok : forall ops s, led_ok s -> env_ok (s_committed s) ops -> led_ok (run s ops).
  Proof.
    induction ops as [|o ops IH]; intros s Hl He; [exact Hl|].
    cbn [TxPool.run fold_left]. apply IH.
    - destruct o as [g | l ids | r committed]; cbn [TxPool.step].
      + destruct (remember (s_pool s) g) as [p' code] eqn:E. cbn [fst]. unfold led_ok in *. cbn [s_pool s_committed].
        rewrite (remember_ledger _ _ _ _ E). exact Hl.
      + cbn [fst]. destruct He as [He _]. unfold led_ok. cbn. exact He.
      + destruct (match p_eval (s_pool s) with Some (c, _) => cround c <=? r | None => true end) eqn:Ego;
          cbn [fst]; [| assumption].
        unfold TxPool.on_new_block. rewrite Ego. unfold sys_after_recompute, led_ok in *.
        destruct (p_eval (recompute _ committed)); cbn [s_pool s_committed];
          rewrite recompute_ledger; cbn [set_ftm p_ledger]; exact Hl.
    - destruct o as [g | l ids | r committed]; cbn [TxPool.step].
      + destruct (remember (s_pool s) g) as [p' code]. cbn [fst s_committed]. exact He.
      + cbn [fst s_committed]. destruct He as [_ He]. exact He.
      + destruct (match p_eval (s_pool s) with Some (c, _) => cround c <=? r | None => true end);
          cbn [fst]; [| exact He].
        unfold sys_after_recompute. destruct (p_eval _); cbn [s_committed]; exact He.
  Qed.

  Lemma init_committed : forall l com0, s_committed (init l com0) = com0 /\ p_ledger (s_pool (init l com0)) = l.
  Proof.
    intros. unfold TxPool.init, sys_after_recompute, TxPool.make.
    destruct (p_eval _) eqn:E; cbn [s_committed s_pool]; rewrite recompute_ledger; auto.
  Qed.

  (* when the pool has processed the ledger's latest block (its evaluator was started on the
     ledger's current state), nothing that was ever committed is still pending *)
  Theorem no_committed : forall l com0 ops c b id,
      (forall c id, start l = SOk c -> In id com0 -> cseen c id = true) ->
      env_ok com0 ops ->
      let s := run (init l com0) ops in
      p_eval (s_pool s) = Some (c, b) -> s_base s = p_ledger (s_pool s) ->
      In id (flat (p_pending (s_pool s))) -> ~ In id (s_committed s).
  Proof.
    intros l com0 ops c b id H0 Henv s Hev Hsync Hin Hcom.
    destruct (init_committed l com0) as [Hc0 Hl0].
    assert (Hled : led_ok s).
    { apply run_led_ok.
      - unfold led_ok. rewrite Hc0, Hl0. exact H0.
      - rewrite Hc0. exact Henv. }
    destruct (pool_replays_in_order l com0 ops c b Hev) as [c0 [br [nr [Hs [Hr _]]]]]. fold s in Hs, Hr.
    destruct (replay_seen _ _ _ _ _ _ _ Hr) as [_ [Hun _]].
    specialize (Hun _ Hin). rewrite Hsync in Hs. rewrite (Hled _ _ Hs Hcom) in Hun. discriminate.
  Qed.

  (* OnNewBlock for a block at or above the evaluator's round re-synchronises the pool with
     whatever the ledger holds at that moment *)
  Theorem on_new_block_syncs : forall s r committed c b,
      (match p_eval (s_pool s) with Some (c, _) => cround c <=? r | None => true end) = true ->
      let s' := fst (step s (OOnNewBlock r committed)) in
      p_eval (s_pool s') = Some (c, b) -> s_base s' = p_ledger (s_pool s').
  Proof.
    intros s r committed c b Hgo s' Hev. subst s'. cbn [TxPool.step] in *. rewrite Hgo in *. cbn [fst] in *.
    unfold sys_after_recompute in *. destruct (p_eval (on_new_block (s_pool s) r committed)) eqn:E.
    - reflexivity.
    - cbn [s_pool] in Hev. congruence.
  Qed.
End PoolProofs.
