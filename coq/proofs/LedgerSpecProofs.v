(* Lemmas about the abstract ledger specification (model/LedgerSpec.v): the generic key-space
   fold and its relation to the concrete world. *)
From Coq Require Import NArith List Bool Arith Lia.
From Verif.lib Require Import Term.
From Verif.model Require Import LedgerSpec.
Import ListNotations.

Lemma firstn_add : forall (A : Type) (a b : nat) (l : list A),
  firstn (a + b) l = firstn a l ++ firstn b (skipn a l).
Proof.
  induction a as [|a IH]; intros b l; simpl; [reflexivity|].
  destruct l as [|x l]; simpl.
  - now rewrite firstn_nil.
  - now rewrite IH.
Qed.

Lemma firstn_S_nth : forall (A : Type) (d : A) (r : nat) (l : list A),
  r < length l -> firstn (S r) l = firstn r l ++ [nth r l d].
Proof.
  induction r as [|r IH]; intros l H; destruct l as [|x l]; simpl in *; try lia; [reflexivity|].
  f_equal. apply IH. lia.
Qed.

Lemma skipn_nth_cons : forall (A : Type) (d : A) (r : nat) (l : list A),
  r < length l -> skipn r l = nth r l d :: skipn (S r) l.
Proof.
  induction r as [|r IH]; intros l H; destruct l as [|x l]; simpl in *; try lia; [reflexivity|].
  apply IH. lia.
Qed.

Section KeySpace.
  Variables K V D : Type.
  Variable keqb : K -> K -> bool.
  Variable interp : D -> V.
  Hypothesis keqb_spec : forall x y, keqb x y = true <-> x = y.

  Notation ksS := (ks_state keqb interp).
  Notation app1 := (fun (f : K -> V) (recs : list (K * D)) => apply_recs keqb interp recs f).

  Lemma keqb_refl : forall x, keqb x x = true.
  Proof. intro x. now apply keqb_spec. Qed.

  Lemma keqb_neq : forall x y, x <> y -> keqb x y = false.
  Proof.
    intros x y H. destruct (keqb x y) eqn:E; [|reflexivity]. apply keqb_spec in E. contradiction.
  Qed.

  Lemma keqb_sym : forall x y, keqb x y = keqb y x.
  Proof.
    intros x y. destruct (keqb x y) eqn:E.
    - apply keqb_spec in E. subst. now rewrite keqb_refl.
    - destruct (keqb y x) eqn:E2; [|reflexivity]. apply keqb_spec in E2. subst.
      rewrite keqb_refl in E. discriminate.
  Qed.

  (* newest record for k over chronological rounds *)
  Fixpoint lastrec (ds : list (list (K * D))) (k : K) : option D :=
    match ds with
    | [] => None
    | recs :: tl => match lastrec tl k with Some d => Some d | None => rfind keqb k recs end
    end.

  Lemma lastrec_app : forall ds1 ds2 k,
    lastrec (ds1 ++ ds2) k = match lastrec ds2 k with Some d => Some d | None => lastrec ds1 k end.
  Proof.
    induction ds1 as [|r ds1 IH]; intros ds2 k; simpl.
    - now destruct (lastrec ds2 k).
    - rewrite IH. now destruct (lastrec ds2 k).
  Qed.

  Lemma fold_lastrec : forall ds f k,
    fold_left app1 ds f k = match lastrec ds k with Some d => interp d | None => f k end.
  Proof.
    induction ds as [|recs ds IH]; intros f k; simpl; [reflexivity|].
    rewrite IH. destruct (lastrec ds k); [reflexivity|].
    unfold apply_recs. reflexivity.
  Qed.

  Lemma ks_state_0 : forall g hist, ksS g hist 0 = g.
  Proof. reflexivity. Qed.

  Lemma ks_state_app : forall g h1 h2 r, r <= length h1 -> ksS g (h1 ++ h2) r = ksS g h1 r.
  Proof.
    intros g h1 h2 r H. unfold ks_state. rewrite firstn_app.
    replace (r - length h1) with 0 by lia. simpl. now rewrite app_nil_r.
  Qed.

  (* the state at base+off is the state at base overridden by the newest record among the
     rounds base+1 .. base+off *)
  Lemma ks_state_walk : forall g hist base off k,
    ksS g hist (base + off) k =
    match lastrec (firstn off (skipn base hist)) k with
    | Some d => interp d
    | None => ksS g hist base k
    end.
  Proof.
    intros g hist base off k. unfold ks_state.
    rewrite firstn_add, fold_left_app. apply fold_lastrec.
  Qed.

  Lemma ks_state_S : forall g hist r k,
    r < length hist ->
    ksS g hist (S r) k = apply_recs keqb interp (nth r hist []) (ksS g hist r) k.
  Proof.
    intros g hist r k H. unfold ks_state.
    rewrite (firstn_S_nth _ [] r hist H), fold_left_app. reflexivity.
  Qed.

  Lemma ks_state_beyond : forall g hist r, length hist <= r -> ksS g hist r = ksS g hist (length hist).
  Proof.
    intros g hist r H. unfold ks_state. now rewrite firstn_all, firstn_all2.
  Qed.
End KeySpace.

(* ---------- decidable equalities used by the concrete world ---------- *)
Lemma Neqb_spec : forall x y : N, N.eqb x y = true <-> x = y.
Proof. intros. apply N.eqb_eq. Qed.

Lemma pair_eqb_spec : forall x y : N * N, pair_eqb x y = true <-> x = y.
Proof.
  intros [a b] [c d]. unfold pair_eqb. simpl. rewrite andb_true_iff, !N.eqb_eq.
  split; [intros [-> ->]; reflexivity | intro H; inversion H; auto].
Qed.

Lemma list_eqb_N_spec : forall x y : list N, list_eqb N.eqb x y = true <-> x = y.
Proof.
  induction x as [|a x IH]; intros [|b y]; simpl; split; intro H; try reflexivity; try discriminate.
  - apply andb_true_iff in H. destruct H as [H1 H2]. apply N.eqb_eq in H1. apply IH in H2. now subst.
  - inversion H; subst. rewrite N.eqb_refl. simpl. now apply IH.
Qed.

Lemma bytes_eqb_spec : forall x y : bytes, bytes_eqb x y = true <-> x = y.
Proof. exact list_eqb_N_spec. Qed.

Lemma opt_bytes_eqb_spec : forall x y, opt_bytes_eqb x y = true <-> x = y.
Proof.
  intros [a|] [b|]; simpl; split; intro H; try reflexivity; try discriminate.
  - apply bytes_eqb_spec in H. now subst.
  - inversion H; subst. now apply bytes_eqb_spec.
Qed.

Lemma acct_eqb_spec : forall x y, acct_eqb x y = true <-> x = y.
Proof.
  intros [a b c] [d e f]. unfold acct_eqb. simpl. rewrite !andb_true_iff, !N.eqb_eq.
  split; [intros [[-> ->] ->]; reflexivity | intro H; inversion H; auto].
Qed.

(* ---------- projections of state_at are key-space folds ---------- *)
Lemma state_at_fold : forall (hist : list delta) (g : world),
  let w := fold_left (fun w d => apply_delta d w) hist g in
  w_acct w = fold_left (fun f recs => apply_recs N.eqb (fun a : acct => a) recs f) (map d_accts hist) (w_acct g) /\
  w_res w = fold_left (fun f recs => apply_recs pair_eqb res_interp recs f) (map d_res hist) (w_res g) /\
  w_kv w = fold_left (fun f recs => apply_recs bytes_eqb kv_interp recs f) (map d_kv hist) (w_kv g) /\
  w_cre w = fold_left (fun f recs => apply_recs N.eqb creat_interp recs f) (map d_cre hist) (w_cre g).
Proof.
  induction hist as [|d hist IH]; intros g; simpl.
  - repeat split.
  - specialize (IH (apply_delta d g)). simpl in IH. exact IH.
Qed.

Lemma state_at_acct : forall g hist r,
  w_acct (state_at g hist r) = ks_state N.eqb (fun a : acct => a) (w_acct g) (map d_accts hist) r.
Proof.
  intros. unfold state_at, ks_state. rewrite firstn_map.
  apply (state_at_fold (firstn r hist) g).
Qed.

Lemma state_at_res : forall g hist r,
  w_res (state_at g hist r) = ks_state pair_eqb res_interp (w_res g) (map d_res hist) r.
Proof.
  intros. unfold state_at, ks_state. rewrite firstn_map.
  apply (state_at_fold (firstn r hist) g).
Qed.

Lemma state_at_kv : forall g hist r,
  w_kv (state_at g hist r) = ks_state bytes_eqb kv_interp (w_kv g) (map d_kv hist) r.
Proof.
  intros. unfold state_at, ks_state. rewrite firstn_map.
  apply (state_at_fold (firstn r hist) g).
Qed.

Lemma state_at_cre : forall g hist r,
  w_cre (state_at g hist r) = ks_state N.eqb creat_interp (w_cre g) (map d_cre hist) r.
Proof.
  intros. unfold state_at, ks_state. rewrite firstn_map.
  apply (state_at_fold (firstn r hist) g).
Qed.

Lemma state_at_app : forall g h1 h2 r, r <= length h1 -> state_at g (h1 ++ h2) r = state_at g h1 r.
Proof.
  intros g h1 h2 r H. unfold state_at. rewrite firstn_app.
  replace (r - length h1) with 0 by lia. simpl. now rewrite app_nil_r.
Qed.

(* ---------- well-formed histories ---------- *)
Lemma wf_histb_from_app : forall h1 h2 w,
  wf_histb_from w (h1 ++ h2) = wf_histb_from w h1 && wf_histb_from (fold_left (fun w d => apply_delta d w) h1 w) h2.
Proof.
  induction h1 as [|d h1 IH]; intros h2 w; simpl; [reflexivity|].
  rewrite IH. now rewrite andb_assoc.
Qed.

Lemma wf_hist_prefix : forall g h1 h2, wf_hist g (h1 ++ h2) -> wf_hist g h1.
Proof.
  unfold wf_hist, wf_histb. intros g h1 h2 H. rewrite wf_histb_from_app in H.
  now apply andb_true_iff in H.
Qed.

Lemma wf_hist_nth : forall g hist i,
  wf_hist g hist -> i < length hist -> wf_deltab (state_at g hist i) (nth i hist delta_dummy) = true.
Proof.
  intros g hist i H Hi. unfold wf_hist, wf_histb in H.
  rewrite <- (firstn_skipn i hist) in H. rewrite wf_histb_from_app in H.
  apply andb_true_iff in H. destruct H as [_ H].
  rewrite (skipn_nth_cons _ delta_dummy i hist Hi) in H. simpl in H.
  apply andb_true_iff in H. destruct H as [H _]. exact H.
Qed.
