(* C09: what [spec_ok] of model/LedgerCrashCheck.v means (it is the conjunction of the proved
   statements, evaluated on the real disk and on the real OpenLedger's answers). *)
From Coq Require Import NArith ZArith List Bool String Arith Lia.
From Verif.lib Require Import Term.
From Verif.model Require Import LedgerSpec LedgerCrash LedgerCrashCheck.
From Verif.proofs Require Import LedgerCrashCpProofs.
Import ListNotations.
Open Scope nat_scope.

Lemma c9_list_eqb_N_eq (x : list N) : forall y, list_eqb N.eqb x y = true -> x = y.
Proof.
  induction x as [|a x IH]; intros [|b y] H; cbn in H; try discriminate; [reflexivity|].
  apply andb_true_iff in H as [H1 H2]. apply N.eqb_eq in H1. subst. f_equal. apply IH, H2.
Qed.

Lemma c9_term_eqb_eq : forall a b, term_eqb a b = true -> a = b.
Proof.
  fix IH 1. intros [z|x|s|l] [z'|x'|s'|l'] H; cbn in H; try discriminate.
  - apply Z.eqb_eq in H. subst. reflexivity.
  - f_equal. apply c9_list_eqb_N_eq, H.
  - apply String.eqb_eq in H. subst. reflexivity.
  - f_equal. revert l' H. induction l as [|t l IHl]; intros [|t' l'] H; try discriminate; [reflexivity|].
    apply andb_true_iff in H as [H1 H2]. f_equal; [apply IH, H1|apply IHl, H2].
Qed.

Lemma c9_list_term_eqb_eq : forall a b : list term, list_eqb term_eqb a b = true -> a = b.
Proof.
  induction a as [|t a IH]; intros [|t' b] H; cbn in H; try discriminate; [reflexivity|].
  apply andb_true_iff in H as [H1 H2]. f_equal; [apply c9_term_eqb_eq, H1|apply IH, H2].
Qed.

Lemma subset_nat_spec : forall a b, subset_nat a b = true -> forall x, In x a -> In x b.
Proof.
  intros a b H x Hx. unfold subset_nat in H. rewrite forallb_forall in H. apply memb_true. apply H. exact Hx.
Qed.

Theorem spec_ok_sound : forall c g hist prev added conf e nb bad dbr ok lat bad2 dbr2 cp2 lookups totals,
  spec_ok c g hist prev added conf e nb bad dbr ok lat bad2 dbr2 cp2 lookups totals = true ->
  (* the durable invariant and confirmed-durable, on the disk as found *)
  bad = 0 /\ e <= dbr /\ dbr <= nb /\ (dbr = 0 \/ dbr + c_L c <= nb) /\
  prev <= nb /\ nb <= added /\ added <= List.length hist /\ conf <= nb /\
  (* recover_prefix, on the real OpenLedger's answers *)
  ok = true /\ lat = nb /\ bad2 = 0 /\ dbr <= dbr2 /\ dbr2 <= lat /\
  lookups = map (fun r => lookup_row (spec_world g hist r) r (first_ids lookups)) (rounds_from dbr2 lat) /\
  totals = map (fun r => totals_row r (spec_totals g hist r)) (rounds_from dbr2 lat) /\
  (* cp_recover *)
  cp_flag cp2 = false /\
  (forall x, In x (map fst (cp_data cp2)) -> In x (cp_first cp2)) /\
  (forall r, In r (map fst (cp_files cp2)) -> In r (cp_stored cp2)) /\
  (c_files c = true -> cp_unfinished cp2 = []) /\
  (c_files c = false -> cp_data cp2 = [] /\ cp_files cp2 = []).
Proof.
  intros c g hist prev added conf e nb bad dbr ok lat bad2 dbr2 cp2 lookups totals H.
  unfold spec_ok in H. cbv zeta in H.
  repeat (apply andb_prop in H; let H' := fresh "H" in destruct H as [H H']).
  apply Nat.eqb_eq in H, H10, H9. apply Nat.leb_le in H18, H17, H15, H14, H13, H12, H8, H7.
  apply negb_true_iff in H3. apply c9_list_term_eqb_eq in H5, H4.
  assert (Hor : dbr = 0 \/ dbr + c_L c <= nb).
  { apply orb_prop in H16. destruct H16 as [X|X]; [apply Nat.eqb_eq in X; left; exact X|apply Nat.leb_le in X; right; exact X]. }
  repeat (split; [assumption|]).
  split; [apply subset_nat_spec; exact H2|]. split; [apply subset_nat_spec; exact H1|]. split.
  - intros EF. rewrite EF in H0. destruct (cp_unfinished cp2); [reflexivity|discriminate].
  - intros EF. rewrite EF in H0. destruct (cp_data cp2); [|discriminate]. destruct (cp_files cp2); [split; reflexivity|discriminate].
Qed.
