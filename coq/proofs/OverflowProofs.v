(* C45 lemmas: the width-parametric helpers of model/Overflow.v against unbounded
   arithmetic. *)
From Coq Require Import NArith ZArith List Bool Lia ZifyN ZifyBool.
From Verif.model Require Import Overflow.
Open Scope N_scope.

Lemma M_pos w : 0 < M w.
Proof. unfold M. apply N.neq_0_lt_0. apply N.pow_nonzero. discriminate. Qed.

Lemma maxw_lt w : maxw w < M w.
Proof. unfold maxw. pose proof (M_pos w). unfold M in *. lia. Qed.

(* x in [M, 2M) -> x mod M = x - M *)
Lemma mod_once (m x : N) : m <= x -> x < 2 * m -> x mod m = x - m.
Proof.
  intros H1 H2.
  assert (Hm : m <> 0) by lia.
  replace x with ((x - m) + 1 * m) at 1 by lia.
  rewrite N.mod_add by exact Hm. apply N.mod_small. lia.
Qed.

(* ---------- OAdd ---------- *)
Lemma oadd_spec w a b : a < M w -> b < M w ->
  oadd w a b = ((a + b) mod M w, M w <=? a + b).
Proof.
  intros Ha Hb. unfold oadd. f_equal.
  destruct (N.leb_spec (M w) (a + b)) as [H|H].
  - rewrite mod_once by lia. apply N.ltb_lt. lia.
  - rewrite N.mod_small by lia. apply N.ltb_ge. lia.
Qed.

Lemma oadd_exact w a b : a < M w -> b < M w ->
  (snd (oadd w a b) = true <-> M w <= a + b) /\
  (snd (oadd w a b) = false -> fst (oadd w a b) = a + b).
Proof.
  intros Ha Hb. rewrite oadd_spec by assumption. cbn [fst snd]. split.
  - rewrite N.leb_le. tauto.
  - intros H. apply N.leb_gt in H. apply N.mod_small. exact H.
Qed.

(* ---------- OSub ---------- *)
Lemma osub_spec w a b : a < M w -> b < M w ->
  osub w a b = ((a + M w - b) mod M w, a <? b).
Proof.
  intros Ha Hb. unfold osub. f_equal.
  destruct (N.ltb_spec a b) as [H|H].
  - rewrite N.mod_small by lia. apply N.ltb_lt. lia.
  - rewrite mod_once by lia. apply N.ltb_ge. lia.
Qed.

Lemma osub_exact w a b : a < M w -> b < M w ->
  (snd (osub w a b) = true <-> a < b) /\
  (snd (osub w a b) = false -> fst (osub w a b) = a - b /\ b <= a).
Proof.
  intros Ha Hb. rewrite osub_spec by assumption. cbn [fst snd]. split.
  - apply N.ltb_lt.
  - intros H. apply N.ltb_ge in H. split; [|exact H]. rewrite mod_once by lia. lia.
Qed.

(* ---------- OMul ---------- *)
Lemma omul_exact w a b : a < M w -> b < M w ->
  (snd (omul w a b) = true <-> M w <= a * b) /\
  (snd (omul w a b) = false -> fst (omul w a b) = a * b) /\
  (snd (omul w a b) = true -> fst (omul w a b) = 0).
Proof.
  intros Ha Hb. unfold omul.
  destruct (N.eqb_spec b 0) as [Hb0|Hb0].
  - subst b. cbn [fst snd]. rewrite N.mul_0_r. pose proof (M_pos w).
    split; [split; [discriminate|lia]|]. split; [reflexivity|discriminate].
  - destruct (N.lt_ge_cases (a * b) (M w)) as [Hs|Hl].
    + rewrite N.mod_small by exact Hs. rewrite N.div_mul by exact Hb0.
      rewrite N.eqb_refl. cbn [negb fst snd].
      split; [split; [discriminate|lia]|]. split; [reflexivity|discriminate].
    + assert (Hne : ((a * b) mod M w) / b <> a).
      { intros Heq.
        pose proof (N.mod_upper_bound (a * b) (M w)) as Hub.
        assert (Hm : M w <> 0) by (pose proof (M_pos w); lia). specialize (Hub Hm).
        pose proof (N.mul_div_le ((a * b) mod M w) b Hb0) as Hle.
        rewrite Heq in Hle. lia. }
      apply N.eqb_neq in Hne. rewrite Hne. cbn [negb fst snd].
      split; [split; [intros _; exact Hl|reflexivity]|]. split; [discriminate|reflexivity].
Qed.

(* ---------- saturating variants: nearest representable value ---------- *)
Lemma addsat_spec w a b : a < M w -> b < M w -> addsat w a b = N.min (a + b) (maxw w).
Proof.
  intros Ha Hb. unfold addsat. rewrite oadd_spec by assumption. unfold maxw.
  pose proof (M_pos w) as HM. fold (M w).
  destruct (N.leb_spec (M w) (a + b)) as [H|H].
  - rewrite N.min_r by lia. reflexivity.
  - rewrite N.min_l by lia. apply N.mod_small. exact H.
Qed.

Lemma subsat_spec w a b : a < M w -> b < M w -> subsat w a b = a - b.
Proof.
  intros Ha Hb. unfold subsat. rewrite osub_spec by assumption.
  destruct (N.ltb_spec a b) as [H|H].
  - lia.
  - rewrite mod_once by lia. lia.
Qed.

Lemma mulsat_spec w a b : a < M w -> b < M w -> mulsat w a b = N.min (a * b) (maxw w).
Proof.
  intros Ha Hb. unfold mulsat.
  destruct (omul_exact w a b Ha Hb) as [[H1 H1'] [H2 H3]].
  destruct (omul w a b) as [r o]. cbn [fst snd] in *. unfold maxw. fold (M w).
  pose proof (M_pos w).
  destruct o.
  - specialize (H1 eq_refl). rewrite N.min_r by lia. reflexivity.
  - specialize (H2 eq_refl). subst r.
    destruct (N.lt_ge_cases (a * b) (M w)) as [Hs|Hl].
    + rewrite N.min_l by lia. reflexivity.
    + specialize (H1' Hl). discriminate.
Qed.

(* ---------- ODiff ---------- *)
Lemma odiff_exact a b : a < W64 -> b < W64 ->
  let d := (Z.of_N a - Z.of_N b)%Z in
  (snd (odiff a b) = true <-> (d < - 2 ^ 63 \/ 2 ^ 63 - 1 < d)%Z) /\
  (snd (odiff a b) = false -> fst (odiff a b) = d) /\
  (snd (odiff a b) = true -> fst (odiff a b) = 0%Z).
Proof.
  intros Ha Hb d. subst d. unfold odiff, maxint64.
  assert (E63 : 2 ^ 63 = 9223372036854775808) by reflexivity.
  assert (EZ63 : (2 ^ 63 = 9223372036854775808)%Z) by reflexivity.
  rewrite E63, EZ63.
  destruct (N.leb_spec b a) as [H|H].
  - destruct (N.ltb_spec (9223372036854775808 - 1) (a - b)) as [H2|H2]; cbn [fst snd].
    + split; [split; [lia|reflexivity]|]. split; [discriminate|reflexivity].
    + split; [split; [discriminate|lia]|]. split; [lia|discriminate].
  - destruct (N.ltb_spec (9223372036854775808 - 1 + 1) (b - a)) as [H2|H2]; cbn [fst snd].
    + split; [split; [lia|reflexivity]|]. split; [discriminate|reflexivity].
    + split; [split; [discriminate|lia]|]. split; [lia|discriminate].
Qed.

(* ---------- muldiv ---------- *)
Lemma W64_pos : 0 < W64. Proof. reflexivity. Qed.

Lemma mul64_spec a b : a < W64 -> b < W64 ->
  let '(hi, lo) := mul64 a b in hi * W64 + lo = a * b /\ lo < W64 /\ hi < W64.
Proof.
  intros Ha Hb. unfold mul64.
  assert (HW : W64 <> 0) by discriminate.
  split; [|split].
  - rewrite N.mul_comm. symmetry. apply N.div_mod. exact HW.
  - apply N.mod_upper_bound. exact HW.
  - apply N.div_lt_upper_bound; [exact HW|]. nia.
Qed.

Lemma muldiv_exact a b c : a < W64 -> b < W64 -> c < W64 ->
  let '(q, r, o) := muldiv a b c in
  (c = 0 -> o = true) /\
  (c <> 0 -> (o = true <-> W64 <= (a * b) / c)) /\
  (o = false -> q = (a * b) / c /\ r = (a * b) mod c /\ q < W64) /\
  (o = true -> q = 0 /\ r = 0).
Proof.
  intros Ha Hb Hc. unfold muldiv.
  pose proof (mul64_spec a b Ha Hb) as Hm. destruct (mul64 a b) as [hi lo].
  destruct Hm as [Hprod [Hlo Hhi]].
  destruct (N.leb_spec c hi) as [H|H].
  - split; [reflexivity|]. split.
    + intros Hc0. split; [|reflexivity]. intros _.
      apply N.div_le_lower_bound; [exact Hc0|]. nia.
    + split; [discriminate|]. intros _. split; reflexivity.
  - unfold div64. rewrite Hprod.
    assert (Hc0 : c <> 0) by lia.
    split; [lia|]. split.
    + intros _. split; [discriminate|]. intros Hge. exfalso.
      assert (a * b < c * W64) by nia.
      pose proof (N.div_lt_upper_bound (a * b) c W64 Hc0 H0). lia.
    + split; [|discriminate]. intros _. split; [reflexivity|]. split; [reflexivity|].
      apply N.div_lt_upper_bound; [exact Hc0|]. nia.
Qed.

(* ---------- mul2div ---------- *)
Lemma mul2div_exact a b c d : a < W64 -> b < W64 -> c < W64 -> d < W64 -> d <> 0 ->
  let '(q, r, o) := mul2div a b c d in
  (o = true <-> W64 <= (a * b * c) / d) /\
  (o = false -> q = (a * b * c) / d /\ r = (a * b * c) mod d) /\
  (o = true -> q = max64 /\ r = 0).
Proof.
  intros Ha Hb Hc Hd Hd0. unfold mul2div.
  pose proof (mul64_spec a b Ha Hb) as Hm1. destruct (mul64 a b) as [X Y].
  destruct Hm1 as [HXY [HY HX]].
  pose proof (mul64_spec Y c HY Hc) as Hm2. destruct (mul64 Y c) as [J K].
  destruct Hm2 as [HJK [HK HJ]].
  pose proof (mul64_spec X c HX Hc) as Hm3. destruct (mul64 X c) as [L Mm].
  destruct Hm3 as [HLM [HMm HL]].
  assert (HW : W64 = 18446744073709551616) by reflexivity.
  assert (Hprod : a * b * c = L * W64 * W64 + (J + Mm) * W64 + K) by nia.
  destruct (N.ltb_spec 0 L) as [HL0|HL0].
  - split; [|split; [discriminate|intros _; split; reflexivity]].
    split; [intros _|reflexivity].
    apply N.div_le_lower_bound; [exact Hd0|]. nia.
  - assert (L = 0) by lia. subst L.
    pose proof (addsat_spec 64 J Mm) as Hsat. fold W64 in Hsat. specialize (Hsat HJ HMm).
    change (maxw 64) with max64 in Hsat. unfold max64 in Hsat. rewrite Hsat.
    destruct (N.leb_spec d (N.min (J + Mm) (2 ^ 64 - 1))) as [Hle|Hgt].
    + split; [|split; [discriminate|intros _; split; reflexivity]].
      split; [intros _|reflexivity].
      apply N.div_le_lower_bound; [exact Hd0|].
      change (2 ^ 64) with W64 in Hle. nia.
    + change (2 ^ 64) with W64 in Hgt.
      assert (Hjm : J + Mm < d) by lia.
      rewrite N.min_l by lia.
      unfold div64. replace ((J + Mm) * W64 + K) with (a * b * c) by nia.
      split; [|split; [intros _; split; reflexivity|discriminate]].
      split; [discriminate|]. intros Hge. exfalso.
      assert (a * b * c < d * W64) by nia.
      pose proof (N.div_lt_upper_bound (a * b * c) d W64 Hd0 H). lia.
Qed.

(* ---------- FeeForUsage ---------- *)
Lemma feeForUsage_exact base usage mult residue :
  base < W64 -> usage < W64 -> mult < W64 -> residue < feeResidueScale ->
  let exact := base * usage * mult in
  let '(fee, res', o) := feeForUsage base usage mult residue in
  (o = false ->
     fee * feeResidueScale + residue = exact + res' /\ res' < feeResidueScale /\ fee < W64 /\
     (* rounds up at most once: fee is the floor or the ceiling of exact / scale *)
     (fee = exact / feeResidueScale \/ fee = exact / feeResidueScale + 1)) /\
  (o = true -> fee = max64 /\ res' = residue /\
               (W64 <= exact / feeResidueScale \/
                (exact / feeResidueScale = max64 /\ residue < exact mod feeResidueScale))).
Proof.
  intros Hb Hu Hm Hr exact. unfold feeForUsage.
  assert (HS : feeResidueScale < W64) by reflexivity.
  assert (HS0 : feeResidueScale <> 0) by discriminate.
  pose proof (mul2div_exact base usage mult feeResidueScale Hb Hu Hm HS HS0) as H.
  destruct (mul2div base usage mult feeResidueScale) as [[quo rem] o].
  destruct H as [Ho [Hf Ht]]. fold exact in Ho, Hf.
  destruct o.
  - split; [discriminate|]. intros _. destruct (Ht eq_refl). split; [reflexivity|].
    split; [reflexivity|]. left. apply Ho. reflexivity.
  - destruct (Hf eq_refl) as [Hq Hrem]. clear Hf Ht.
    assert (Hqlt : quo < W64).
    { destruct (N.lt_ge_cases quo W64) as [|Hge]; [assumption|]. subst quo.
      destruct Ho as [_ Ho]. specialize (Ho Hge). discriminate. }
    pose proof (N.div_mod exact feeResidueScale HS0) as Hdm. rewrite <- Hq, <- Hrem in Hdm.
    pose proof (N.mod_upper_bound exact feeResidueScale HS0) as Hub. rewrite <- Hrem in Hub.
    destruct (N.eqb_spec quo max64) as [Hmax|Hmax]; cbn [andb].
    + destruct (N.ltb_spec residue rem) as [Hlt|Hge].
      * split; [discriminate|]. intros _. split; [exact Hmax|]. split; [reflexivity|].
        right. rewrite <- Hq, <- Hrem. split; assumption.
      * destruct (N.eqb_spec rem 0) as [Hz|Hz].
        -- split; [|discriminate]. intros _. split; [nia|]. split; [assumption|]. split; [assumption|]. left; exact Hq.
        -- destruct (N.leb_spec rem residue) as [Hle|Hgt]; [|lia].
           split; [|discriminate]. intros _. split; [nia|]. split; [lia|]. split; [assumption|]. left; exact Hq.
    + destruct (N.eqb_spec rem 0) as [Hz|Hz].
      * split; [|discriminate]. intros _. split; [nia|]. split; [assumption|]. split; [assumption|]. left; exact Hq.
      * destruct (N.leb_spec rem residue) as [Hle|Hgt].
        -- split; [|discriminate]. intros _. split; [nia|]. split; [lia|]. split; [assumption|]. left; exact Hq.
        -- split; [|discriminate]. intros _.
           assert (quo + 1 < W64) by (unfold max64 in Hmax; change (2 ^ 64) with W64 in Hmax; lia).
           split; [nia|]. split; [lia|]. split; [assumption|]. right; rewrite <- Hq; reflexivity.
Qed.

(* ---------- Divvy ---------- *)
Lemma divvy_exact num den q : num <= den -> den <> 0 -> den < W64 -> q < W64 ->
  exists first second, divvy num den q = Some (first, second) /\
    first = (q * num) / den /\ first + second = q.
Proof.
  intros Hnd Hd0 Hd Hq. unfold divvy, Muldiv.
  assert (Hn : num < W64) by lia.
  pose proof (muldiv_exact q num den Hq Hn Hd) as H.
  destruct (muldiv q num den) as [[qq r] o]. destruct H as [_ [Ho [Hf _]]].
  assert (Hle : (q * num) / den <= q).
  { apply N.div_le_upper_bound; [exact Hd0|]. nia. }
  destruct o.
  - exfalso. destruct (Ho Hd0) as [Ho1 _]. specialize (Ho1 eq_refl). lia.
  - destruct (Hf eq_refl) as [Hqq [_ Hlt]]. subst qq.
    eexists _, _. split; [reflexivity|]. split; [reflexivity|].
    assert (HW : W64 = 18446744073709551616) by reflexivity.
    remember ((q * num) / den) as x eqn:Hx. clear Hx.
    rewrite mod_once by lia. lia.
Qed.

Lemma divvy_none_iff num den q : num < W64 -> den < W64 -> q < W64 ->
  (divvy num den q = None <-> den = 0 \/ W64 <= (q * num) / den).
Proof.
  intros Hn Hd Hq. unfold divvy, Muldiv.
  pose proof (muldiv_exact q num den Hq Hn Hd) as H.
  destruct (muldiv q num den) as [[qq r] o]. destruct H as [Hz [Ho [Hf _]]].
  destruct o.
  - split; [intros _|reflexivity].
    destruct (N.eq_dec den 0) as [|Hne]; [left; assumption|right]. apply (Ho Hne). reflexivity.
  - split; [discriminate|]. intros [Hd0|Hge].
    + specialize (Hz Hd0). discriminate.
    + destruct (N.eq_dec den 0) as [Hd0|Hne]; [specialize (Hz Hd0); discriminate|].
      destruct (Ho Hne) as [_ Ho2]. specialize (Ho2 Hge). discriminate.
Qed.

(* ---------- Micros ---------- *)
Lemma microsMul_spec m m2 : m < W64 -> m2 < W64 ->
  microsMul m m2 = (N.min ((m * m2) / 1000000) max64, W64 <=? (m * m2) / 1000000).
Proof.
  intros Hm Hm2. unfold microsMul, Muldiv.
  assert (Hc : 1000000 < W64) by reflexivity.
  pose proof (muldiv_exact m m2 1000000 Hm Hm2 Hc) as H.
  destruct (muldiv m m2 1000000) as [[q r] o]. destruct H as [_ [Ho [Hf _]]].
  assert (Hne : 1000000 <> 0) by discriminate. specialize (Ho Hne).
  assert (HW : W64 = 18446744073709551616) by reflexivity.
  unfold max64. change (2 ^ 64) with W64.
  destruct o.
  - destruct Ho as [Ho _]. specialize (Ho eq_refl).
    rewrite N.min_r by lia. f_equal. symmetry. apply N.leb_le. exact Ho.
  - destruct (Hf eq_refl) as [Hq [_ Hlt]]. subst q.
    rewrite N.min_l by lia. f_equal. symmetry. apply N.leb_gt. exact Hlt.
Qed.

Lemma mulMicros_spec base m : base < W64 -> m < W64 ->
  mulMicros base m = (N.min ((base * m) / 1000000) max64, W64 <=? (base * m) / 1000000).
Proof. exact (microsMul_spec base m). Qed.

Lemma microsMulInt_spec m i : m < W64 -> (- 2 ^ 63 <= i < 2 ^ 63)%Z ->
  microsMulInt m i =
    if (i <? 0)%Z then (0, true)
    else (N.min (m * Z.to_N i) max64, W64 <=? m * Z.to_N i).
Proof.
  intros Hm Hi. unfold microsMulInt.
  destruct (Z.ltb_spec i 0) as [Hneg|Hpos]; [reflexivity|].
  assert (HW : W64 = 18446744073709551616) by reflexivity.
  assert (Hi64 : Z.to_N i < M 64).
  { unfold M. change (2 ^ 64) with W64. change (2 ^ 63)%Z with 9223372036854775808%Z in Hi. lia. }
  assert (Hm64 : m < M 64) by exact Hm.
  destruct (omul_exact 64 m (Z.to_N i) Hm64 Hi64) as [[H1 H1'] [H2 H3]].
  destruct (omul 64 m (Z.to_N i)) as [r o]. cbn [fst snd] in *.
  unfold M in H1, H1'. change (2 ^ 64) with W64 in H1, H1'.
  unfold max64. change (2 ^ 64) with W64.
  destruct o.
  - specialize (H1 eq_refl). rewrite N.min_r by lia. f_equal. symmetry. apply N.leb_le. exact H1.
  - specialize (H2 eq_refl). subst r.
    destruct (N.lt_ge_cases (m * Z.to_N i) W64) as [Hs|Hl].
    + rewrite N.min_l by lia. f_equal. symmetry. apply N.leb_gt. exact Hs.
    + specialize (H1' Hl). discriminate.
Qed.

(* ---------- DivCeil ---------- *)
Lemma divceil_spec w n d : n < M w -> d < M w -> d <> 0 -> n + d - 1 < M w ->
  divceil w n d = Some ((n + d - 1) / d) /\
  (* ceiling: the least k with n <= k * d *)
  n <= ((n + d - 1) / d) * d /\ (forall k, n <= k * d -> (n + d - 1) / d <= k).
Proof.
  intros Hn Hd Hd0 Hsum. unfold divceil.
  apply N.eqb_neq in Hd0 as Hd0'. rewrite Hd0'.
  replace (n + d + M w - 1) with ((n + d - 1) + 1 * M w) by lia.
  pose proof (M_pos w).
  rewrite N.mod_add by lia. rewrite N.mod_small by exact Hsum.
  split; [reflexivity|].
  pose proof (N.div_mod (n + d - 1) d Hd0) as Hdm.
  pose proof (N.mod_upper_bound (n + d - 1) d Hd0) as Hub.
  split.
  - nia.
  - intros k Hk. apply N.lt_succ_r. apply N.div_lt_upper_bound; [exact Hd0|]. nia.
Qed.
