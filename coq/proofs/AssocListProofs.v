(* Lemmas about association lists (model/AssocList.v). *)
From Coq Require Import NArith PeanoNat List Bool Lia ZifyN ZifyNat ZifyBool.
From Verif.model Require Import AssocList.
Import ListNotations.
Open Scope N_scope.

Section ALP.
  Context {K V : Type}.
  Variable eqb : K -> K -> bool.
  Hypothesis eqb_eq : forall x y, eqb x y = true <-> x = y.

  Lemma eqb_refl x : eqb x x = true.
  Proof. apply eqb_eq. reflexivity. Qed.

  Lemma eqb_neq (x y : K) : x <> y -> eqb x y = false.
  Proof. intros H. destruct (eqb x y) eqn:E; [apply eqb_eq in E; contradiction | reflexivity]. Qed.

  Lemma eqb_dec (x y : K) : {x = y} + {x <> y}.
  Proof.
    destruct (eqb x y) eqn:E.
    - left. apply eqb_eq. exact E.
    - right. intros ->. rewrite eqb_refl in E. discriminate.
  Qed.

  Notation aget := (aget (V:=V) eqb).
  Notation aset := (aset (V:=V) eqb).
  Notation adel := (adel (V:=V) eqb).
  Notation ahas := (ahas (V:=V) eqb).

  Lemma aget_aset_eq k v m : aget k (aset k v m) = Some v.
  Proof.
    induction m as [|[k' v'] m IH]; cbn.
    - rewrite eqb_refl. reflexivity.
    - destruct (eqb k k') eqn:E; cbn; rewrite ?eqb_refl, ?E; auto.
  Qed.

  Lemma aget_aset_ne k k' v m : k' <> k -> aget k' (aset k v m) = aget k' m.
  Proof.
    intros Hne. induction m as [|[k2 v2] m IH]; cbn.
    - rewrite (eqb_neq k' k Hne). reflexivity.
    - destruct (eqb k k2) eqn:E; cbn.
      + apply eqb_eq in E. subst k2. rewrite (eqb_neq k' k Hne). reflexivity.
      + rewrite IH. reflexivity.
  Qed.

  Lemma aget_aset k k' v m : aget k' (aset k v m) = if eqb k' k then Some v else aget k' m.
  Proof.
    destruct (eqb k' k) eqn:E.
    - apply eqb_eq in E. subst. apply aget_aset_eq.
    - apply aget_aset_ne. intros ->. rewrite eqb_refl in E. discriminate.
  Qed.

  Lemma aget_adel_ne k k' m : k' <> k -> aget k' (adel k m) = aget k' m.
  Proof.
    intros Hne. induction m as [|[k2 v2] m IH]; cbn; auto.
    destruct (eqb k k2) eqn:E; cbn.
    - apply eqb_eq in E. subst k2. rewrite (eqb_neq k' k Hne). reflexivity.
    - rewrite IH. reflexivity.
  Qed.

  Lemma aget_In k v m : aget k m = Some v -> In (k, v) m.
  Proof.
    induction m as [|[k2 v2] m IH]; cbn; [discriminate|].
    destruct (eqb k k2) eqn:E.
    - apply eqb_eq in E. subst. intros [= ->]. left. reflexivity.
    - intros H. right. auto.
  Qed.

  Lemma aget_None_notin k m : aget k m = None -> ~ In k (map fst m).
  Proof.
    induction m as [|[k2 v2] m IH]; cbn; auto.
    destruct (eqb k k2) eqn:E; [discriminate|].
    intros H [H1|H1]; [subst; rewrite eqb_refl in E; discriminate | exact (IH H H1)].
  Qed.

  Lemma notin_aget_None k m : ~ In k (map fst m) -> aget k m = None.
  Proof.
    induction m as [|[k2 v2] m IH]; cbn; auto.
    intros H. destruct (eqb k k2) eqn:E.
    - apply eqb_eq in E. subst. tauto.
    - apply IH. tauto.
  Qed.

  Lemma In_aget k v m : NoDup (map fst m) -> In (k, v) m -> aget k m = Some v.
  Proof.
    induction m as [|[k2 v2] m IH]; cbn; [tauto|].
    intros Hnd [H|H].
    - inversion H; subst. rewrite eqb_refl. reflexivity.
    - inversion Hnd; subst. destruct (eqb k k2) eqn:E.
      + apply eqb_eq in E. subst. exfalso. apply H2. apply (in_map fst) in H. exact H.
      + auto.
  Qed.

  Lemma keys_aset k v m : forall x, In x (map fst (aset k v m)) <-> x = k \/ In x (map fst m).
  Proof.
    induction m as [|[k2 v2] m IH]; cbn; intros x.
    - intuition.
    - destruct (eqb k k2) eqn:E; cbn.
      + apply eqb_eq in E. subst. intuition.
      + rewrite IH. intuition.
  Qed.

  Lemma NoDup_aset k v m : NoDup (map fst m) -> NoDup (map fst (aset k v m)).
  Proof.
    induction m as [|[k2 v2] m IH]; cbn; intros Hnd.
    - constructor; [intros []|constructor].
    - inversion Hnd; subst. destruct (eqb k k2) eqn:E; cbn.
      + apply eqb_eq in E. subst. constructor; assumption.
      + constructor; [|auto]. rewrite keys_aset. intros [->|H]; [rewrite eqb_refl in E; discriminate | tauto].
  Qed.

  Lemma keys_adel_sub k m : forall x, In x (map fst (adel k m)) -> In x (map fst m).
  Proof.
    induction m as [|[k2 v2] m IH]; cbn; intros x; auto.
    destruct (eqb k k2); cbn; intuition.
  Qed.

  Lemma NoDup_adel k m : NoDup (map fst m) -> NoDup (map fst (adel k m)).
  Proof.
    induction m as [|[k2 v2] m IH]; cbn; intros Hnd; auto.
    inversion Hnd; subst. destruct (eqb k k2); cbn; auto.
    constructor; auto. intros H. apply H1. eapply keys_adel_sub. exact H.
  Qed.

  Lemma aget_adel_eq k m : NoDup (map fst m) -> aget k (adel k m) = None.
  Proof.
    induction m as [|[k2 v2] m IH]; cbn; intros Hnd; auto.
    inversion Hnd; subst. destruct (eqb k k2) eqn:E; cbn.
    - apply eqb_eq in E. subst. apply notin_aget_None. assumption.
    - rewrite E. auto.
  Qed.

  Lemma aget_adel k k' m : NoDup (map fst m) ->
    aget k' (adel k m) = if eqb k' k then None else aget k' m.
  Proof.
    intros Hnd. destruct (eqb k' k) eqn:E.
    - apply eqb_eq in E. subst. apply aget_adel_eq. assumption.
    - apply aget_adel_ne. intros ->. rewrite eqb_refl in E. discriminate.
  Qed.

  (* ---- sums *)
  Definition fopt (f : K -> V -> N) (k : K) (o : option V) : N :=
    match o with Some v => f k v | None => 0 end.

  Lemma asum_aset f k v m :
    asum f (aset k v m) + fopt f k (aget k m) = asum f m + f k v.
  Proof.
    induction m as [|[k2 v2] m IH]; cbn.
    - lia.
    - destruct (eqb k k2) eqn:E; cbn.
      + apply eqb_eq in E. subst. lia.
      + unfold fopt in *. lia.
  Qed.

  Lemma asum_adel f k m :
    asum f (adel k m) + fopt f k (aget k m) = asum f m.
  Proof.
    induction m as [|[k2 v2] m IH]; cbn.
    - lia.
    - destruct (eqb k k2) eqn:E; cbn.
      + apply eqb_eq in E. subst. lia.
      + unfold fopt in *. lia.
  Qed.

  Lemma asum_ge f k v m : aget k m = Some v -> f k v <= asum f m.
  Proof.
    induction m as [|[k2 v2] m IH]; cbn; [discriminate|].
    destruct (eqb k k2) eqn:E.
    - apply eqb_eq in E. subst. intros [= ->]. lia.
    - intros H. specialize (IH H). lia.
  Qed.

  Lemma asum_ext (f g : K -> V -> N) (m : list (K * V)) : (forall k v, In (k, v) m -> f k v = g k v) -> asum f m = asum g m.
  Proof.
    induction m as [|[k2 v2] m IH]; cbn; intros H; auto.
    rewrite (H k2 v2) by auto. rewrite IH; auto.
  Qed.

  Lemma asum_zero (f : K -> V -> N) (m : list (K * V)) : (forall k v, In (k, v) m -> f k v = 0) -> asum f m = 0.
  Proof.
    induction m as [|[k2 v2] m IH]; cbn; intros H; auto.
    rewrite (H k2 v2) by auto. rewrite IH; auto.
  Qed.

  (* ---- executable checks *)
  Lemma ahas_true k m : ahas k m = true <-> exists v, aget k m = Some v.
  Proof.
    unfold AssocList.ahas. destruct (aget k m); split; intros H; eauto; try discriminate.
    destruct H as [v H]. discriminate.
  Qed.

  Lemma ahas_false k m : ahas k m = false <-> aget k m = None.
  Proof. unfold AssocList.ahas. destruct (aget k m); split; intros H; auto; discriminate. Qed.

  Lemma anodup_NoDup (m : list (K * V)) : anodup eqb m = true <-> NoDup (map fst m).
  Proof.
    induction m as [|[k2 v2] m IH]; cbn.
    - split; [constructor|reflexivity].
    - rewrite andb_true_iff, negb_true_iff, IH, ahas_false. split.
      + intros [H1 H2]. constructor; auto. apply aget_None_notin. exact H1.
      + intros H. inversion H; subst. split; auto. apply notin_aget_None. assumption.
  Qed.

  Variable veqb : V -> V -> bool.
  Hypothesis veqb_eq : forall x y, veqb x y = true <-> x = y.

  Lemma asub_spec (m1 m2 : list (K * V)) :
    asub eqb veqb m1 m2 = true <-> (forall k v, In (k, v) m1 -> aget k m2 = Some v).
  Proof.
    unfold asub. rewrite forallb_forall. split.
    - intros H k v Hin. specialize (H (k, v) Hin). cbn in H.
      destruct (aget k m2); [|discriminate]. apply veqb_eq in H. subst. reflexivity.
    - intros H [k v] Hin. cbn. rewrite (H k v Hin). apply veqb_eq. reflexivity.
  Qed.

  (* two duplicate-free lists that are [aequiv] agree on every lookup *)
  Lemma aequiv_get (m1 m2 : list (K * V)) : NoDup (map fst m1) -> NoDup (map fst m2) ->
    aequiv eqb veqb m1 m2 = true -> forall k, aget k m1 = aget k m2.
  Proof.
    intros N1 N2 H k. unfold aequiv in H. rewrite !andb_true_iff in H.
    destruct H as [[_ H12] H21]. rewrite asub_spec in H12, H21.
    destruct (aget k m1) as [v|] eqn:E1.
    - symmetry. apply H12. apply aget_In. exact E1.
    - destruct (aget k m2) as [v|] eqn:E2; auto.
      apply aget_In in E2. apply H21 in E2. congruence.
  Qed.

  Lemma aequiv_refl (m : list (K * V)) : NoDup (map fst m) -> aequiv eqb veqb m m = true.
  Proof.
    intros Hnd. unfold aequiv. rewrite Nat.eqb_refl. cbn.
    assert (asub eqb veqb m m = true) as ->; [|reflexivity].
    apply asub_spec. intros k v Hin. apply In_aget; assumption.
  Qed.
End ALP.

Lemma pair_eqb_eq x y : pair_eqb x y = true <-> x = y.
Proof.
  destruct x as [a b], y as [c d]. unfold pair_eqb. cbn.
  rewrite andb_true_iff, !N.eqb_eq. split; [intros [-> ->]; reflexivity | intros [= -> ->]; auto].
Qed.

Lemma Neqb_eq x y : N.eqb x y = true <-> x = y.
Proof. apply N.eqb_eq. Qed.
