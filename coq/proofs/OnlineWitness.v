(* C13: concrete witnesses — the two recorded findings replayed on the faithful model, and a
   non-trivial history meeting the hypotheses of the theorems. *)
From Coq Require Import NArith List Bool Lia.
From Verif.model Require Import Overflow OnlineAccts OnlineAcctsSpec.
Import ListNotations.
Open Scope N_scope.

Definition wp_legacy : oparams := mkOP 1000 8 false true 2500.
Definition wp_cur : oparams := mkOP 1000000 8 true true 2500.

(* ---- finding top_total_stale_invalid_legacy (numbers of the harness's scripted history 2) ---- *)
Definition w2_genesis : list (N * oacct) :=
  [ (900002, mkOA 1 1100000000000 0 1 0 20 100 false 0 0);
    (900003, mkOA 1 50000000000000 0 2 0 100000 100 false 0 0);
    (900004, mkOA 0 900000000000 0 0 0 0 0 false 0 0);
    (1099511627777, mkOA 2 500000000 0 0 0 0 0 false 0 0);
    (1099511627778, mkOA 2 200000000000000 0 0 0 0 0 false 0 0) ].
Definition w2_b1 : oblock :=
  mkOB [ (1099511627778, mkOA 2 160012000000000 0 0 0 0 0 false 0 0);
         (900002, mkOA 0 1945899999000 769 0 0 0 0 false 0 0);
         (1099511627777, mkOA 2 500001000 0 0 0 0 0 false 1 0) ] 88450000000000 769.
Definition w2_b2 : oblock :=
  mkOB [ (1099511627778, mkOA 2 120007653700757 0 0 0 0 0 false 0 0);
         (1099511627777, mkOA 2 500001000 0 0 0 0 0 false 2 0) ] 126300000000000 1526.
Definition w2_supply0 : N := 51100000000000.
Definition w2_sched_a : list oop := [ONew w2_b1; ONew w2_b2].                 (* nothing flushed *)
Definition w2_sched_b : list oop := [ONew w2_b1; ONew w2_b2; OCommit 2 2].    (* everything flushed *)

Definition top_total_of (p : oparams) (ops : list oop) (G : list (N * oacct)) (s0 : N) (rnd vr n level : N) : option N :=
  match orun p (ostate_init p G s0) ops with
  | Some s => match top_online p s rnd vr n level with ROk (_, t) => Some t | _ => None end
  | None => None
  end.

(* the same query on the same history: 123521400000000 before the flush, 126300000000000 after;
   the history implies 126300000000000 (account 900002 is offline at round 2) *)
Lemma legacy_top_total_refuted :
  oblocks_of w2_sched_a = oblocks_of w2_sched_b /\
  top_total_of wp_legacy w2_sched_a w2_genesis w2_supply0 2 22 2 1526 = Some 123521400000000 /\
  top_total_of wp_legacy w2_sched_b w2_genesis w2_supply0 2 22 2 1526 = Some 126300000000000 /\
  spec_top_total wp_legacy w2_genesis w2_supply0 (oblocks_of w2_sched_a) 2 22 1526 = Some (Some 126300000000000).
Proof. vm_compute. repeat split. Qed.

(* ---- finding genesis_incentive_fields_dropped ---- *)
Definition w1_genesis : list (N * oacct) :=
  [ (1, mkOA 1 3000000000000 0 1 0 100000 100 true 0 0);
    (2, mkOA 0 900000000000 0 0 0 0 0 false 0 0) ].

Lemma genesis_incentive_refuted :
  snd (lookup_online wp_cur (ostate_init wp_cur w1_genesis 3000000000000) 0 1)
    = ROk (mkOAD 3000000000000 1 0 100000 100 false 0 0) /\
  spec_lookup wp_cur w1_genesis 3000000000000 [] 0 1
    = Some (mkOAD 3000000000000 1 0 100000 100 true 0 0).
Proof. vm_compute. split; reflexivity. Qed.

(* ---- a history inside the hypotheses: going online / offline, key expiry, rewards, flushes
   that trim the history (MaxBalLookback 4), a reload, lookups that fill the cache ---- *)
Definition wp4 : oparams := mkOP 1000000 4 true true 2500.
Definition ex_genesis : list (N * oacct) :=
  [ (1, mkOA 1 5000000000 0 7 0 3 100 false 0 0);       (* online, keys end at round 3 *)
    (2, mkOA 1 8000000000 0 8 0 1000 100 false 0 0);    (* online, long keys *)
    (3, mkOA 0 2000000000 0 0 0 0 0 false 0 0);         (* offline *)
    (9, mkOA 2 900000000000 0 0 0 0 0 false 0 0) ].     (* rewards pool *)
Definition ex_b (mods : list (N * oacct)) (supply level : N) : oblock := mkOB mods supply level.
Definition ex_blocks : list oblock :=
  [ ex_b [(3, mkOA 1 2000004000 2 9 1 50 100 true 0 9)] 15000030000 2;            (* 3 goes online *)
    ex_b [] 15000060000 4;
    ex_b [(2, mkOA 0 8000048000 6 0 0 0 0 false 0 0)] 7000034000 6;                (* 2 goes offline *)
    ex_b [(1, mkOA 0 5000040000 8 0 0 0 0 false 0 0)] 2000016000 8;                (* 1 expired by the evaluator *)
    ex_b [] 2000020000 10;
    ex_b [(2, mkOA 1 8000048000 6 10 6 900 100 false 0 0)] 10000100000 12;         (* 2 back online *)
    ex_b [] 10000120000 14 ].
Definition ex_sched : list oop :=
  [ ONew (nth 0 ex_blocks (ex_b [] 0 0)); ONew (nth 1 ex_blocks (ex_b [] 0 0)); OLookup 1 2;
    OCommit 1 1; ONew (nth 2 ex_blocks (ex_b [] 0 0)); ONew (nth 3 ex_blocks (ex_b [] 0 0));
    OCommit 2 3; OReload; ONew (nth 4 ex_blocks (ex_b [] 0 0)); OLookup 3 1;
    ONew (nth 5 ex_blocks (ex_b [] 0 0)); ONew (nth 6 ex_blocks (ex_b [] 0 0)); OCommit 3 6 ].

Definition ex_obs : option (N * N * res oad * res oad * res oad * res N * res N) :=
  match orun wp4 (ostate_init wp4 ex_genesis 13000000000) ex_sched with
  | Some s => Some (o_db s, o_latest s,
                    snd (lookup_online wp4 s 3 1),      (* round 3 is still retained: account 1 online *)
                    snd (lookup_online wp4 s 7 2),      (* latest: account 2 online again *)
                    snd (lookup_online wp4 s 2 1),      (* trimmed away *)
                    circulation wp4 s 3 7,              (* account 1's keys (last valid 3) are expired for round 7 *)
                    circulation wp4 s 7 11)
  | None => None
  end.

Lemma ex_history :
  oblocks_of ex_sched = ex_blocks /\
  ex_obs = Some (6, 7,
                 ROk (mkOAD 5000030000 7 0 3 100 false 0 0),
                 ROk (mkOAD 8000112000 10 6 900 100 false 0 0),
                 RErr,
                 ROk 2000004000,
                 ROk 10000120000).
Proof. vm_compute. split; reflexivity. Qed.

From Verif.proofs Require Import OnlineEntries OnlineTables OnlineSpecLemmas OnlineInv OnlineCommit OnlineQueries.

Ltac in_cases H tac :=
  repeat (destruct H as [H|H]; [injection H as <- <-; tac|]); try destruct H.

Lemma ex_hyps : genesis_ok ex_genesis /\ blocks_ok ex_blocks /\ hist_u64 ex_genesis ex_blocks.
Proof.
  split; [|split].
  - split.
    + unfold keys, ex_genesis. cbv [map fst]. repeat constructor; cbv [In]; intuition discriminate.
    + intros k a Hin Hon. unfold ex_genesis in Hin. cbv [In] in Hin.
      in_cases Hin ltac:(first [discriminate Hon | vm_compute; repeat split; reflexivity]).
  - unfold blocks_ok, ex_blocks, ex_b, block_ok.
    repeat constructor; cbv [keys ob_mods ob_level ob_supply map fst In]; try (vm_compute; reflexivity); intuition discriminate.
  - apply hist_u64_of.
    + intros k a Hin. unfold ex_genesis in Hin. cbv [In] in Hin.
      in_cases Hin ltac:(vm_compute; split; reflexivity).
    + intros b k a Hb Hin. unfold ex_blocks, ex_b in Hb. cbv [In] in Hb.
      repeat (destruct Hb as [Hb|Hb]; [subst b; cbv [ob_mods In] in Hin;
              in_cases Hin ltac:(vm_compute; split; reflexivity)|]).
      destruct Hb.
Qed.

Lemma ex_history_full :
  genesis_ok ex_genesis /\ blocks_ok ex_blocks /\ hist_u64 ex_genesis ex_blocks /\
  op_unit wp4 <> 0 /\ 1 <= op_maxbal wp4 /\
  oblocks_of ex_sched = ex_blocks /\
  ex_obs = Some (6, 7,
                 ROk (mkOAD 5000030000 7 0 3 100 false 0 0),
                 ROk (mkOAD 8000112000 10 6 900 100 false 0 0),
                 RErr,
                 ROk 2000004000,
                 ROk 10000120000).
Proof.
  destruct ex_hyps as (H1 & H2 & H3). destruct ex_history as (H4 & H5).
  split; [exact H1|]. split; [exact H2|]. split; [exact H3|]. split; [vm_compute; discriminate|].
  split; [vm_compute; discriminate|]. split; [exact H4|exact H5].
Qed.

(* ---- TopOnlineAccounts on the example history, fetched one row per batch ---- *)
From Verif.proofs Require Import OnlineTopSort OnlineTop.

Definition ex_top (batch : nat) : option (res (list oacc * N) * res (list oacc * N)) :=
  match orun wp4 (ostate_init wp4 ex_genesis 13000000000) ex_sched with
  | Some s => Some (top_online_b batch wp4 s 7 11 1 14, top_online_b batch wp4 s 3 7 5 6)
  | None => None
  end.

Lemma ex_top_hyps : hist_norm wp4 ex_genesis ex_blocks /\ online_pos wp4 ex_genesis ex_blocks.
Proof.
  split.
  - unfold hist_norm. apply (hist_pred_of ex_genesis ex_blocks (acct_norm_ok (op_unit wp4))).
    + vm_compute. split; reflexivity.
    + intros k a Hin. unfold ex_genesis in Hin. cbv [In] in Hin. in_cases Hin ltac:(vm_compute; split; reflexivity).
    + intros b k a Hb Hin. unfold ex_blocks, ex_b in Hb. cbv [In] in Hb.
      repeat (destruct Hb as [Hb|Hb]; [subst b; cbv [ob_mods In] in Hin;
              in_cases Hin ltac:(vm_compute; split; reflexivity)|]).
      destruct Hb.
  - unfold online_pos. apply (hist_pred_of ex_genesis ex_blocks (fun a => is_online a = true -> nb_exact (op_unit wp4) (a_rbase a) (a_malgos a) <> 0)).
    + discriminate.
    + intros k a Hin. unfold ex_genesis in Hin. cbv [In] in Hin. in_cases Hin ltac:(vm_compute; intros; discriminate).
    + intros b k a Hb Hin. unfold ex_blocks, ex_b in Hb. cbv [In] in Hb.
      repeat (destruct Hb as [Hb|Hb]; [subst b; cbv [ob_mods In] in Hin;
              in_cases Hin ltac:(vm_compute; intros; discriminate)|]).
      destruct Hb.
Qed.

(* with batch size 1 the loop runs several times; the answers are those of batch size 1024 *)
Lemma ex_top_values :
  ex_top 1 = ex_top 1024 /\
  ex_top 1 = Some (ROk ([mkOAcc 2 8000048000 6 8000000000 6 900 10], 10000120000),
                   ROk ([mkOAcc 3 2000004000 2 2000000000 1 50 9], 2000004000)).
Proof. vm_compute. split; reflexivity. Qed.
