(* C05 (partial): what is PROVED about progress, on the executable agreement model
   (model/AgreementPlayer.v = player.go) :
   - the deadline ladder of step.nextVoteRanges: the ranges of consecutive next-steps tile the time axis and
     double in width (ladder_tiles); along the deadline timeouts of one period the player's Deadline never
     decreases, strictly increases whenever a vote is cast, hence over any two consecutive timeouts
     (timeout_deadline_monotone, two_timeouts_strict) -- it is NOT strictly increasing per timeout: entering a
     new step draws lower + (entropy mod range), which equals the previous deadline when the remainder is 0;
   - a deadline timeout changes Step / Napping / Deadline exactly as [C05Check.timeout_player] says, for the
     whole submitTop model [step] (step_timeout_player): this is what the check compares with the real player;
   - partitionPolicy: a partitioned player (Step >= next+3 or Period >= 3) that holds a freshest threshold
     re-broadcasts its bundle with every next vote (next_vote_rebroadcasts). *)
From Coq Require Import NArith List Bool Lia ZifyN ZifyNat ZifyBool String.
From Verif.lib Require Import Term.
From Verif.model Require Import AgreementTypes AgreementVotes AgreementProposals AgreementPlayer C05Check.
From Verif.proofs Require Import AgreementLemmas.
Import ListNotations.
Local Open Scope N_scope.

(* ---------- nextVoteRanges ---------- *)
Lemma nvr_loop_step : forall n e lo up, up = lo + e ->
  nvr_loop (S n) e lo up = (snd (nvr_loop n e lo up), snd (nvr_loop n e lo up) + 2 * (snd (nvr_loop n e lo up) - fst (nvr_loop n e lo up))).
Proof.
  induction n as [|n IH]; intros e lo up H.
  - cbn [nvr_loop fst snd]. f_equal. lia.
  - change (nvr_loop (S (S n)) e lo up) with (nvr_loop (S n) (2 * e) up (up + 2 * e)).
    change (nvr_loop (S n) e lo up) with (nvr_loop n (2 * e) up (up + 2 * e)).
    apply IH. lia.
Qed.

Lemma nvr_loop_lt : forall n e lo up, 0 < e -> up = lo + e ->
  lo <= fst (nvr_loop n e lo up) /\ fst (nvr_loop n e lo up) < snd (nvr_loop n e lo up).
Proof.
  induction n as [|n IH]; intros e lo up He H.
  - cbn [nvr_loop fst snd]. lia.
  - change (nvr_loop (S n) e lo up) with (nvr_loop n (2 * e) up (up + 2 * e)).
    destruct (IH (2 * e) up (up + 2 * e)) as [A B]; [lia|lia|]. split; [lia|exact B].
Qed.

(* the ranges of consecutive steps tile: lower(s+1) = upper(s), width doubles; all lie after the deadline *)
Theorem ladder_tiles : forall pm s d, 0 < pm_extra pm -> s_next <= s ->
  let lu := next_vote_ranges pm s d in
  let lu' := next_vote_ranges pm (s + 1) d in
  d <= fst lu /\ fst lu < snd lu /\ fst lu' = snd lu /\ snd lu' = snd lu + 2 * (snd lu - fst lu).
Proof.
  intros pm s d He Hs. unfold next_vote_ranges. cbv zeta.
  assert (E : N.to_nat (s + 1 - s_next) = S (N.to_nat (s - s_next))) by (unfold s_next in *; lia).
  rewrite E. rewrite nvr_loop_step by reflexivity. cbn [fst snd].
  destruct (nvr_loop_lt (N.to_nat (s - s_next)) (pm_extra pm) d (d + pm_extra pm) He eq_refl) as [A B].
  repeat split; assumption || reflexivity.
Qed.

(* ---------- the Deadline along the timeouts of one period ---------- *)
(* well-formed (step, napping, deadline) of a player that is past the soft step of period per *)
Definition dl_ok (pm : params) (per step : N) (nap : bool) (dl : N) : Prop :=
  let d := deadline_timeout pm per in
  (step = s_cert /\ dl = d) \/
  (s_next <= step /\ nap = false /\ dl = snd (next_vote_ranges pm step d)) \/
  (s_next < step /\ nap = true /\ fst (next_vote_ranges pm step d) <= dl < snd (next_vote_ranges pm step d)).

Theorem timeout_deadline_monotone : forall pm per step nap dl entropy,
  0 < pm_extra pm -> step + 1 < 2 ^ 64 -> dl_ok pm per step nap dl ->
  let '(step', nap', dl') := timeout_player pm per step nap entropy in
  dl_ok pm per step' nap' dl' /\ dl <= dl' /\
  (nap' = false -> dl < dl') /\                 (* a vote is cast: strictly later deadline *)
  (step' = step \/ step' = step + 1).
Proof.
  intros pm per step nap dl en He Hb Hok. unfold timeout_player.
  set (d := deadline_timeout pm per). unfold dl_ok in Hok. fold d in Hok.
  destruct Hok as [[Hs Hd]|[[Hs [Hn Hd]]|[Hs [Hn Hd]]]].
  - (* cert -> next, first next vote *)
    subst step. cbn [N.eqb s_cert s_soft Pos.eqb].
    destruct (ladder_tiles pm s_next d He (N.le_refl _)) as [A [B _]]. cbv zeta in A, B.
    split; [|split; [|split]].
    + right; left. repeat split; reflexivity || (unfold s_next; lia).
    + lia.
    + intros _. lia.
    + right. reflexivity.
  - (* a next vote was cast at [step]: enter step+1, nap *)
    assert (E1 : (step =? s_soft) = false) by (apply N.eqb_neq; unfold s_next, s_soft in *; lia).
    assert (E2 : (step =? s_cert) = false) by (apply N.eqb_neq; unfold s_next, s_cert in *; lia).
    rewrite E1, E2. subst nap.
    assert (Ew : w64 (step + 1) = step + 1) by (unfold w64; apply N.mod_small; exact Hb).
    rewrite Ew.
    destruct (ladder_tiles pm step d He Hs) as [A [B [C D]]]. cbv zeta in A, B, C, D.
    set (lu' := next_vote_ranges pm (step + 1) d) in *. set (lu := next_vote_ranges pm step d) in *.
    assert (Hr : 0 < snd lu' - fst lu') by lia.
    pose proof (N.mod_lt en (snd lu' - fst lu') ltac:(lia)) as Hm.
    set (m := en mod (snd lu' - fst lu')) in *. clearbody m.
    split; [|split; [|split]].
    + right; right. fold d. fold lu'. unfold s_next in *. split; [lia|]. split; [reflexivity|]. lia.
    + lia.
    + discriminate.
    + right. reflexivity.
  - (* napping: the vote of this step *)
    assert (E1 : (step =? s_soft) = false) by (apply N.eqb_neq; unfold s_next, s_soft in *; lia).
    assert (E2 : (step =? s_cert) = false) by (apply N.eqb_neq; unfold s_next, s_cert in *; lia).
    rewrite E1, E2. subst nap.
    split; [|split; [|split]].
    + right; left. split; [lia|]. split; reflexivity.
    + lia.
    + intros _. lia.
    + left. reflexivity.
Qed.

Lemma napping_votes_next : forall pm per step dl entropy,
  dl_ok pm per step true dl -> snd (fst (timeout_player pm per step true entropy)) = false.
Proof.
  intros pm per step dl en Hok. unfold timeout_player. unfold dl_ok in Hok.
  destruct Hok as [[Hs _]|[[_ [Hn _]]|[Hs _]]].
  - subst step. reflexivity.
  - discriminate.
  - assert (E1 : (step =? s_soft) = false) by (apply N.eqb_neq; unfold s_next, s_soft in *; lia).
    assert (E2 : (step =? s_cert) = false) by (apply N.eqb_neq; unfold s_next, s_cert in *; lia).
    rewrite E1, E2. reflexivity.
Qed.

(* over any two consecutive deadline timeouts of a period the Deadline strictly increases *)
Theorem two_timeouts_strict : forall pm per step nap dl e1 e2,
  0 < pm_extra pm -> step + 2 < 2 ^ 64 -> dl_ok pm per step nap dl ->
  let '(s1, n1, d1) := timeout_player pm per step nap e1 in
  let '(s2, n2, d2) := timeout_player pm per s1 n1 e2 in
  dl < d2.
Proof.
  intros pm per step nap dl e1 e2 He Hb Hok.
  pose proof (timeout_deadline_monotone pm per step nap dl e1 He ltac:(lia) Hok) as H1.
  destruct (timeout_player pm per step nap e1) as [[s1 n1] d1]. destruct H1 as [Hok1 [Hle1 [Hst1 Hs1]]].
  pose proof (timeout_deadline_monotone pm per s1 n1 d1 e2 He ltac:(destruct Hs1; subst; lia) Hok1) as H2.
  pose proof (fun H => napping_votes_next pm per s1 d1 e2 H) as Hnap.
  destruct (timeout_player pm per s1 n1 e2) as [[s2 n2] d2] eqn:E2. destruct H2 as [Hok2 [Hle2 [Hst2 Hs2]]].
  destruct n1.
  - specialize (Hnap Hok1). rewrite E2 in Hnap. cbn [fst snd] in Hnap. specialize (Hst2 Hnap). lia.
  - specialize (Hst1 eq_refl). lia.
Qed.

(* ---------- the model's deadline timeout is timeout_player ---------- *)
Lemma wp_any : forall A (x : res A), wp x (fun _ => True).
Proof. intros A [a| |]; exact I. Qed.

Lemma issue_next_vote_player : forall pm pl rt d,
  wp (issue_next_vote pm pl rt d)
     (fun r => fst (fst r) = set_deadline (set_nap pl false) (snd (next_vote_ranges pm (p_step pl) d)) dl_deadline).
Proof.
  intros pm pl rt d. unfold issue_next_vote.
  apply wp_bind. eapply wp_mono; [apply wp_any|]. intros [rt1 acts] _.
  apply wp_bind. eapply wp_mono; [apply wp_any|]. intros [rt2 [sv c]] _.
  apply wp_bind. eapply wp_mono; [apply wp_any|]. intros [rt4 prop] _.
  destruct (next_vote_ranges pm (p_step pl) d) as [lo up]. reflexivity.
Qed.

Lemma issue_soft_vote_player : forall pm pl rt d,
  wp (issue_soft_vote pm pl rt d) (fun r => fst (fst r) = set_deadline pl d dl_deadline).
Proof.
  intros pm pl rt d. unfold issue_soft_vote.
  apply wp_bind. eapply wp_mono; [apply wp_any|]. intros [rt1 frozen] _.
  apply wp_bind. eapply wp_mono; [apply wp_any|]. intros [rt2 ns] _.
  repeat match goal with |- wp (if ?b then _ else _) _ => destruct b end; reflexivity.
Qed.

Lemma handle_timeout_player : forall pm pl rt entropy,
  wp (handle_timeout pm pl rt entropy false)
     (fun r => let pl' := fst (fst r) in
               (p_step pl', p_nap pl', p_dl pl') = timeout_player pm (p_per pl) (p_step pl) (p_nap pl) entropy /\
               p_per pl' = p_per pl /\ p_rnd pl' = p_rnd pl).
Proof.
  intros pm pl rt en. unfold handle_timeout, timeout_player.
  destruct (p_step pl =? s_soft) eqn:E1.
  - apply wp_bind. eapply wp_mono; [apply issue_soft_vote_player|]. intros [[pl1 rt1] acts] H.
    cbn [fst] in H. subst pl1. cbn. auto.
  - destruct (p_step pl =? s_cert) eqn:E2.
    + eapply wp_mono; [apply issue_next_vote_player|]. intros [[pl1 rt1] acts] H. cbn [fst] in H. subst pl1. cbn. auto.
    + destruct (p_nap pl) eqn:E3.
      * eapply wp_mono; [apply issue_next_vote_player|]. intros [[pl1 rt1] acts] H. cbn [fst] in H. subst pl1. cbn. auto.
      * destruct (next_vote_ranges pm (p_step (set_step pl (w64 (p_step pl + 1)))) (deadline_timeout pm (p_per pl))) as [lo up] eqn:En.
        cbn [set_step p_step] in En. rewrite En. cbn [fst snd].
        destruct (up - lo =? 0); [exact I|]. cbn. auto.
Qed.

(* rootRouter.submitTop on a deadline timeout (valid protocol version) *)
Theorem step_timeout_player : forall pm st entropy st' acts,
  step pm st (EvTimeout false entropy false) = Ok (st', acts) ->
  (p_step (s_pl st'), p_nap (s_pl st'), p_dl (s_pl st')) =
    timeout_player pm (p_per (s_pl st)) (p_step (s_pl st)) (p_nap (s_pl st)) entropy /\
  p_per (s_pl st') = p_per (s_pl st) /\ p_rnd (s_pl st') = p_rnd (s_pl st).
Proof.
  intros pm st en st' acts H. unfold step in H.
  set (rt := root_update pm (s_pl st) 0 (s_rt st)) in H.
  change (p_handle default_fuel pm (s_pl st) rt (pevent_of (EvTimeout false en false)))
    with (handle_timeout pm (s_pl st) rt en false) in H.
  pose proof (handle_timeout_player pm (s_pl st) rt en) as W.
  destruct (handle_timeout pm (s_pl st) rt en false) as [[[pl1 rt1] a1]| |]; cbn in H; try discriminate.
  inversion H; subst. exact W.
Qed.

(* ---------- partitionPolicy re-broadcasts ---------- *)
Theorem partition_policy_rebroadcasts : forall pm pl rt rt1 th rt' acts,
  partitioned pl = true ->
  d_freshest pm pl rt (p_rnd pl) = Ok (rt1, Some th) ->
  partition_policy pm pl rt = Ok (rt', acts) ->
  In (ABroadcastBundle (th_b th)) acts.
Proof.
  intros pm pl rt rt1 th rt' acts Hp Hf H. unfold partition_policy in H. rewrite Hp, Hf in H. cbn [negb bind] in H.
  match type of H with (match ?g with Some _ => _ | None => _ end) = _ => destruct g as [[br bp]|] end.
  - destruct (d_staged pm pl rt1 br bp) as [[rt2 [sv c]]| |]; cbn [bind] in H; try discriminate.
    destruct c.
    + inversion H; subst. cbn. auto.
    + destruct (d_pinned pm pl rt2 br) as [[rt3 [pv ok]]| |]; cbn [bind] in H; try discriminate.
      destruct ok; inversion H; subst; cbn; auto.
  - inversion H; subst. cbn. auto.
Qed.

(* every next vote of a partitioned player carries the re-broadcast *)
Theorem next_vote_rebroadcasts : forall pm pl rt d rt1 th pl' rt' acts,
  partitioned pl = true ->
  d_freshest pm pl rt (p_rnd pl) = Ok (rt1, Some th) ->
  issue_next_vote pm pl rt d = Ok (pl', rt', acts) ->
  In (ABroadcastBundle (th_b th)) acts /\
  exists v, In (AAttest (p_rnd pl) (p_per pl) (p_step pl) v) acts.
Proof.
  intros pm pl rt d rt1 th pl' rt' acts Hp Hf H. unfold issue_next_vote in H.
  destruct (partition_policy pm pl rt) as [[rtp pacts]| |] eqn:Ep; cbn [bind] in H; try discriminate.
  pose proof (partition_policy_rebroadcasts pm pl rt rt1 th rtp pacts Hp Hf Ep) as Hin.
  destruct (d_staged pm pl rtp (p_rnd pl) (p_per pl)) as [[rt2 [sv c]]| |]; cbn [bind] in H; try discriminate.
  match type of H with (bind ?x _) = _ => destruct x as [[rt4 prop]| |] end; cbn [bind] in H; try discriminate.
  destruct (next_vote_ranges pm (p_step pl) d) as [lo up]. inversion H; subst.
  split; [apply in_or_app; left; exact Hin|]. exists prop. apply in_or_app. right. left. reflexivity.
Qed.

Lemma partitioned_spec : forall pl, partitioned pl = true <-> (partition_step <= p_step pl \/ 3 <= p_per pl).
Proof.
  intros pl. unfold partitioned. rewrite orb_true_iff, !N.leb_le. tauto.
Qed.
