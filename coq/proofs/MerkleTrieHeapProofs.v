(* C17 lemmas, part 3: the id-level transactions of model/MerkleTrieStore.v (layer 1) simulate
   node.find / add / remove of the logical trie.  [repr h t id fp]: in heap h the node id
   unfolds to the trie t and occupies exactly the ids fp. *)
From Coq Require Import List NArith Bool Lia ZifyN ZifyNat ZifyBool Arith.
From Verif.model Require Import MerkleTrie MerkleTrieStore MerkleTrieStoreRel.
Import ListNotations.
Open Scope N_scope.

Scheme repr_mind := Minimality for repr Sort Prop
  with reprs_mind := Minimality for reprs Sort Prop.
Combined Scheme repr_reprs_ind from repr_mind, reprs_mind.

Lemma repr_ext_both h h' :
  (forall t id fp, repr h t id fp -> (forall x, In x fp -> h' x = h x) -> repr h' t id fp) /\
  (forall cs ics fp, reprs h cs ics fp -> (forall x, In x fp -> h' x = h x) -> reprs h' cs ics fp).
Proof.
  apply repr_reprs_ind.
  - intros id k Hh E. constructor. rewrite E; [exact Hh | left; reflexivity].
  - intros id cs ics fp Hh _ IH E. apply repr_node with ics.
    + rewrite E; [exact Hh | left; reflexivity].
    + apply IH. intros x Hx. apply E. right. exact Hx.
  - intros _. constructor.
  - intros i c cid cs ics fpc fp _ IH1 _ IH2 E. constructor.
    + apply IH1. intros x Hx. apply E. apply in_or_app. left. exact Hx.
    + apply IH2. intros x Hx. apply E. apply in_or_app. right. exact Hx.
Qed.

Lemma repr_ext h h' t id fp :
  repr h t id fp -> (forall x, In x fp -> h' x = h x) -> repr h' t id fp.
Proof. apply repr_ext_both. Qed.
Lemma reprs_ext h h' cs ics fp :
  reprs h cs ics fp -> (forall x, In x fp -> h' x = h x) -> reprs h' cs ics fp.
Proof. apply repr_ext_both. Qed.

Lemma repr_root_in h t id fp : repr h t id fp -> In id fp.
Proof. intros H. inversion H; subst; left; reflexivity. Qed.

Lemma repr_defined_both h :
  (forall t id fp, repr h t id fp -> forall x, In x fp -> h x <> None) /\
  (forall cs ics fp, reprs h cs ics fp -> forall x, In x fp -> h x <> None).
Proof.
  apply repr_reprs_ind.
  - intros id k Hh x [<-|[]]. congruence.
  - intros id cs ics fp Hh _ IH x [<-|Hx]; [congruence | auto].
  - intros x [].
  - intros i c cid cs ics fpc fp _ IH1 _ IH2 x Hx. apply in_app_or in Hx. destruct Hx; auto.
Qed.
Lemma repr_defined h t id fp x : repr h t id fp -> In x fp -> h x <> None.
Proof. intros H. apply (proj1 (repr_defined_both h) _ _ _ H). Qed.

Lemma reprs_app h cs1 cs2 ics1 ics2 fp1 fp2 :
  reprs h cs1 ics1 fp1 -> reprs h cs2 ics2 fp2 -> reprs h (cs1 ++ cs2) (ics1 ++ ics2) (fp1 ++ fp2).
Proof.
  intros H1 H2. induction H1; cbn; [exact H2|].
  rewrite <- app_assoc. constructor; assumption.
Qed.

Lemma reprs_fst h cs ics fp : reprs h cs ics fp -> map fst ics = map fst cs.
Proof. intros H. induction H; cbn; congruence. Qed.

Lemma hhas_has_child h cs ics fp b : reprs h cs ics fp -> hhas b ics = has_child b cs.
Proof.
  intros H. unfold hhas, has_child. induction H; cbn; [reflexivity|]. rewrite IHreprs. reflexivity.
Qed.

(* the entry at indexOf(b): the same position in the id list and in the subtree list *)
Lemma reprs_at h cs ics fp b :
  reprs h cs ics fp ->
  (first_ge b ics = None /\ (forall A (f : trie -> option A), at_index_of f b cs = None) /\
   (forall f, splice_index_of f b cs = None)) \/
  (exists i c cid fpc cs1 cs2 ics1 ics2 fp1 fp2,
     cs = cs1 ++ (i, c) :: cs2 /\ ics = ics1 ++ (i, cid) :: ics2 /\ fp = fp1 ++ fpc ++ fp2 /\
     reprs h cs1 ics1 fp1 /\ repr h c cid fpc /\ reprs h cs2 ics2 fp2 /\
     first_ge b ics = Some cid /\
     (forall A (f : trie -> option A), at_index_of f b cs = f c) /\
     (forall f, splice_index_of f b cs =
                match f i c with Some e => Some (cs1 ++ e ++ cs2) | None => None end) /\
     (forall nc, hset_ge b nc ics = ics1 ++ (i, nc) :: ics2) /\
     hdrop_ge b ics = ics1 ++ ics2).
Proof.
  intros H. induction H as [|i c cid cs ics fpc fp Hc Hcs IH].
  - left. repeat split; reflexivity.
  - destruct (i <? b) eqn:E.
    + destruct IH as [(A & B & C)|IH].
      * left. split; [cbn; rewrite E; exact A|]. split.
        -- intros A0 f. cbn. rewrite E. apply B.
        -- intros f. cbn. rewrite E. fold (splice_index_of f b). rewrite C. reflexivity.
      * right. destruct IH as (i' & c' & cid' & fpc' & cs1 & cs2 & ics1 & ics2 & fp1 & fp2 &
                               -> & -> & -> & R1 & Rc & R2 & Fg & At & Sp & Hs & Hd).
        exists i', c', cid', fpc', ((i, c) :: cs1), cs2, ((i, cid) :: ics1), ics2, (fpc ++ fp1), fp2.
        split; [reflexivity|]. split; [reflexivity|]. split; [rewrite <- app_assoc; reflexivity|].
        split; [constructor; assumption|]. split; [assumption|]. split; [assumption|].
        split; [cbn; rewrite E; assumption|].
        split; [intros A0 f; cbn; rewrite E; apply At|].
        split.
        { intros f. cbn. rewrite E. fold (splice_index_of f b). rewrite Sp. destruct (f i' c'); reflexivity. }
        split; [intros nc; cbn; rewrite E, Hs; reflexivity | cbn; rewrite E, Hd; reflexivity].
    + right. exists i, c, cid, fpc, [], cs, [], ics, [], fp.
      split; [reflexivity|]. split; [reflexivity|]. split; [reflexivity|].
      split; [constructor|]. split; [assumption|]. split; [assumption|].
      split; [cbn; rewrite E; reflexivity|].
      split; [intros A0 f; cbn; rewrite E; reflexivity|].
      split; [intros f; cbn; rewrite E; destruct (f i c); reflexivity|].
      split; [intros nc; cbn; rewrite E; reflexivity | cbn; rewrite E; reflexivity].
Qed.

(* ---------- states of a transaction ---------- *)
Definition ext (st st' : ost) : Prop :=
  o_next st <= o_next st' /\ forall x, x < o_next st -> o_h st' x = o_h st x.

Lemma ext_refl st : ext st st.
Proof. split; [lia | auto]. Qed.
Lemma ext_trans a b c : ext a b -> ext b c -> ext a c.
Proof. intros [A1 A2] [B1 B2]. split; [lia|]. intros x Hx. rewrite B2 by lia. apply A2. exact Hx. Qed.

Lemma ext_alloc st n : ext st (fst (o_alloc st n)).
Proof.
  split; cbn; [lia|]. intros x Hx. unfold upd. destruct (x =? o_next st) eqn:E; [|reflexivity].
  apply N.eqb_eq in E. lia.
Qed.

Definition bounded (fp : list N) (b : N) : Prop := forall x, In x fp -> x < b.

(* what a transaction step did: [nd] deleted, [nr] read since [st] *)
Record post (st : ost) (fp : list N) (id : N) (st' : ost) (fp' nd nr : list N) : Prop := {
  po_ext : ext st st';
  po_dels : o_dels st' = nd ++ o_dels st;
  po_reads : o_reads st' = nr ++ o_reads st;
  po_nodup : NoDup fp';
  po_bound : bounded fp' (o_next st');
  po_fp : forall x, In x fp' -> ~ In x nd /\ ((In x fp /\ x <> id) \/ o_next st <= x);
  po_nd : forall x, In x nd -> (In x fp /\ x <> id /\ In x nr) \/ o_next st <= x;
  po_ndb : bounded nd (o_next st');
  po_nr : forall x, In x nr -> In x fp \/ o_next st <= x
}.

Lemma repr_alloc_frame st n t id fp :
  repr (o_h st) t id fp -> bounded fp (o_next st) -> repr (o_h (fst (o_alloc st n))) t id fp.
Proof.
  intros H B. eapply repr_ext; [exact H|]. intros x Hx. apply (proj2 (ext_alloc st n)). apply B. exact Hx.
Qed.
Lemma reprs_alloc_frame st n cs ics fp :
  reprs (o_h st) cs ics fp -> bounded fp (o_next st) -> reprs (o_h (fst (o_alloc st n))) cs ics fp.
Proof.
  intros H B. eapply reprs_ext; [exact H|]. intros x Hx. apply (proj2 (ext_alloc st n)). apply B. exact Hx.
Qed.

Lemma alloc_get st n : o_h (fst (o_alloc st n)) (o_next st) = Some n.
Proof. cbn. unfold upd. rewrite N.eqb_refl. reflexivity. Qed.

(* ---------- node.find ---------- *)
Lemma hfind_sim : forall d t id fp st b,
  repr (o_h st) t id fp -> find t d = Some b ->
  exists nr, hfind st id d =
             Some (b, {| o_h := o_h st; o_next := o_next st; o_dels := o_dels st; o_reads := nr ++ o_reads st |}) /\
             incl nr fp.
Proof.
  induction d as [|x d IH]; intros t id fp st b R F.
  - inversion R; subst; cbn in F.
    + inversion F; subst. exists []. cbn. rewrite H. destruct st; cbn. split; [reflexivity | intros ? []].
    + discriminate.
  - inversion R as [id0 k Hh|id0 cs ics fp0 Hh Rs]; subst; cbn [find] in F.
    + inversion F; subst. exists []. cbn. rewrite Hh. destruct st; cbn. split; [reflexivity | intros ? []].
    + cbn [hfind]. rewrite Hh. rewrite (hhas_has_child _ _ _ _ x Rs).
      destruct (negb (has_child x cs)).
      * inversion F; subst. exists []. destruct st; cbn. split; [reflexivity | intros ? []].
      * destruct (reprs_at _ _ _ _ x Rs) as [(A & B & _)|
          (i & c & cid & fpc & cs1 & cs2 & ics1 & ics2 & fp1 & fp2 & -> & -> & -> & R1 & Rc & R2 & Fg & At & _)].
        { rewrite B in F. discriminate. }
        rewrite At in F. rewrite Fg.
        pose proof (repr_defined _ _ _ _ cid Rc (repr_root_in _ _ _ _ Rc)) as Hd.
        destruct (o_h st cid) eqn:Hc; [|congruence].
        assert (Rc' : repr (o_h (o_mark st cid)) c cid fpc) by exact Rc.
        destruct (IH c cid fpc (o_mark st cid) b Rc' F) as (nr & Hf & Hi).
        exists (nr ++ [cid]). rewrite Hf. cbn. rewrite <- app_assoc. split; [reflexivity|].
        intros y Hy. apply in_app_or in Hy. right. apply in_or_app. right. apply in_or_app. left.
        destruct Hy as [Hy|[<-|[]]]; [apply Hi; exact Hy | eapply repr_root_in; eauto].
Qed.

(* ---------- list helpers ---------- *)
Lemma NoDup_app_iff {A} (a b : list A) :
  NoDup (a ++ b) <-> NoDup a /\ NoDup b /\ (forall x, In x a -> ~ In x b).
Proof.
  induction a as [|y a IH]; cbn.
  - split; [intros H; repeat split; [constructor | exact H | tauto] | tauto].
  - split.
    + intros H. inversion H as [|? ? Hn Hd]; subst. apply IH in Hd. destruct Hd as (A1 & A2 & A3).
      rewrite in_app_iff in Hn. split; [constructor; tauto|]. split; [exact A2|].
      intros x [<-|Hx]; [tauto | auto].
    + intros (A1 & A2 & A3). inversion A1; subst. constructor.
      * rewrite in_app_iff. intros [H|H]; [tauto | eapply A3; eauto].
      * apply IH. repeat split; auto.
Qed.

(* ---------- node.add ---------- *)
Lemma hsplit_sim : forall h d st t',
  split_leaf h d = Some t' ->
  exists st' id' fp', hsplit st h d = Some (st', id') /\ repr (o_h st') t' id' fp' /\
    ext st st' /\ o_dels st' = o_dels st /\ o_reads st' = o_reads st /\ NoDup fp' /\
    (forall x, In x fp' -> o_next st <= x < o_next st').
Proof.
  induction h as [|a h IH]; intros [|b d] st t' S; cbn in S; try discriminate.
  cbn [hsplit]. destruct (a =? b) eqn:Eab.
  - destruct (split_leaf h d) as [t|] eqn:St; [|discriminate]. inversion S; subst; clear S.
    destruct (IH d st t St) as (st1 & c & fpc & -> & Rc & Ex & Ed & Er & Nd & Bd).
    assert (Bc : bounded fpc (o_next st1)) by (intros x Hx; apply Bd in Hx; lia).
    exists (fst (o_alloc st1 (SNode [(b, c)]))), (o_next st1), (o_next st1 :: fpc ++ []).
    split; [reflexivity|]. split.
    { apply repr_node with [(b, c)]; [apply alloc_get|]. constructor; [|constructor].
      apply repr_alloc_frame; assumption. }
    split; [eapply ext_trans; [exact Ex | apply ext_alloc]|].
    split; [exact Ed|]. split; [exact Er|]. rewrite app_nil_r. split.
    { constructor; [|exact Nd]. intros Hin. apply Bd in Hin. lia. }
    intros x [<-|Hx]; cbn; [destruct Ex; lia | apply Bd in Hx; lia].
  - set (st1 := fst (o_alloc st (SLeaf h))). set (st2 := fst (o_alloc st1 (SLeaf d))).
    set (n3 := SNode (if a <? b then [(a, o_next st); (b, o_next st1)] else [(b, o_next st1); (a, o_next st)])).
    exists (fst (o_alloc st2 n3)), (o_next st2).
    assert (R1 : repr (o_h (fst (o_alloc st2 n3))) (Leaf h) (o_next st) [o_next st]).
    { constructor. cbn. unfold upd. repeat (match goal with |- context [?x =? ?y] => destruct (x =? y) eqn:?E end);
        try reflexivity; rewrite ?N.eqb_eq, ?N.eqb_neq in *; lia. }
    assert (R2 : repr (o_h (fst (o_alloc st2 n3))) (Leaf d) (o_next st1) [o_next st1]).
    { constructor. cbn. unfold upd. repeat (match goal with |- context [?x =? ?y] => destruct (x =? y) eqn:?E end);
        try reflexivity; rewrite ?N.eqb_eq, ?N.eqb_neq in *; lia. }
    destruct (a <? b) eqn:Elt; inversion S; subst; clear S.
    + exists (o_next st2 :: [o_next st] ++ [o_next st1] ++ []).
      split; [reflexivity|]. split.
      { apply repr_node with [(a, o_next st); (b, o_next st1)]; [apply alloc_get|].
        constructor; [exact R1|]. constructor; [exact R2 | constructor]. }
      split; [split; cbn; [lia|]; intros x Hx; unfold upd;
              repeat (match goal with |- context [?u =? ?v] => destruct (u =? v) eqn:?E end);
              try reflexivity; rewrite ?N.eqb_eq in *; lia|].
      split; [reflexivity|]. split; [reflexivity|]. cbn. split.
      { repeat constructor; cbn; lia. }
      intros x Hx. lia.
    + exists (o_next st2 :: [o_next st1] ++ [o_next st] ++ []).
      split; [reflexivity|]. split.
      { apply repr_node with [(b, o_next st1); (a, o_next st)]; [apply alloc_get|].
        constructor; [exact R2|]. constructor; [exact R1 | constructor]. }
      split; [split; cbn; [lia|]; intros x Hx; unfold upd;
              repeat (match goal with |- context [?u =? ?v] => destruct (u =? v) eqn:?E end);
              try reflexivity; rewrite ?N.eqb_eq in *; lia|].
      split; [reflexivity|]. split; [reflexivity|]. cbn. split.
      { repeat constructor; cbn; lia. }
      intros x Hx. lia.
Qed.

Lemma reprs_insert h cs ics fp b t c fpc :
  reprs h cs ics fp -> repr h t c fpc ->
  exists fp', reprs h (insert_child b t cs) (hinsert b c ics) fp' /\
              (forall x, In x fp' <-> In x fpc \/ In x fp) /\
              (NoDup fp -> NoDup fpc -> (forall x, In x fpc -> ~ In x fp) -> NoDup fp').
Proof.
  intros H Rc. induction H as [|i c0 cid cs ics fpc0 fp Hc Hcs IH].
  - exists (fpc ++ []). split; [cbn; constructor; [exact Rc | constructor]|].
    rewrite app_nil_r. split; [intros x; cbn; tauto | auto].
  - cbn [insert_child hinsert]. destruct (b <? i).
    + exists (fpc ++ fpc0 ++ fp). split; [constructor; [exact Rc | constructor; assumption]|].
      split; [intros x; rewrite !in_app_iff; tauto|].
      intros N1 N2 D. apply NoDup_app_iff. split; [exact N2|]. split; [exact N1 | exact D].
    + destruct IH as (fp' & R' & I' & N').
      exists (fpc0 ++ fp'). split; [constructor; assumption|].
      split; [intros x; rewrite !in_app_iff, I'; tauto|].
      intros N1 N2 D. apply NoDup_app_iff in N1. destruct N1 as (A1 & A2 & A3).
      apply NoDup_app_iff. split; [exact A1|]. split.
      * apply N'; auto. intros x Hx Hf. apply (D x Hx). apply in_or_app. right. exact Hf.
      * intros x Hx Hf. apply I' in Hf. destruct Hf as [Hf|Hf]; [|eapply A3; eauto].
        apply (D x Hf). apply in_or_app. left. exact Hx.
Qed.

Lemma hadd_sim : forall d t id fp st t',
  repr (o_h st) t id fp -> NoDup fp -> bounded fp (o_next st) -> add t d = Some t' ->
  exists st' id' fp' nd nr, hadd st id d = Some (st', id') /\ repr (o_h st') t' id' fp' /\
                            post st fp id st' fp' nd nr.
Proof.
  induction d as [|b d IH]; intros t id fp st t' R Nd Bd A.
  - (* empty remainder: only a leaf can be split, and that fails *)
    inversion R as [id0 k Hh|id0 cs ics fp0 Hh Rs]; subst; cbn in A; [|discriminate].
    destruct k; discriminate.
  - inversion R as [id0 k Hh|id0 cs ics fp0 Hh Rs]; subst.
    + (* leaf *)
      cbn [add] in A. destruct (hsplit_sim k (b :: d) st t' A) as (st' & id' & fp' & Hs & R' & Ex & Ed & Er & N' & B').
      exists st', id', fp', [], []. cbn [hadd]. rewrite Hh. split; [exact Hs|]. split; [exact R'|].
      constructor; auto.
      * intros x Hx. apply B' in Hx. lia.
      * intros x Hx. split; [tauto|]. right. apply B' in Hx. lia.
      * intros x [].
      * intros x [].
      * intros x [].
    + cbn [add] in A. cbn [hadd]. rewrite Hh. rewrite (hhas_has_child _ _ _ _ b Rs).
      inversion Nd as [|? ? Hnid Nd0]; subst.
      assert (Bd0 : bounded fp0 (o_next st)) by (intros x Hx; apply Bd; right; exact Hx).
      destruct (negb (has_child b cs)) eqn:Hc.
      * (* no such child: new leaf, new node *)
        inversion A; subst t'; clear A.
        set (st1 := fst (o_alloc st (SLeaf d))).
        assert (Rl : repr (o_h st1) (Leaf d) (o_next st) [o_next st]) by (constructor; apply alloc_get).
        assert (Rs1 : reprs (o_h st1) cs ics fp0) by (apply reprs_alloc_frame; assumption).
        destruct (reprs_insert _ _ _ _ b _ _ _ Rs1 Rl) as (fp' & R' & I' & N').
        set (n2 := SNode (hinsert b (o_next st) ics)).
        exists (fst (o_alloc st1 n2)), (o_next st1), (o_next st1 :: fp'), [], [].
        split; [reflexivity|].
        assert (Bfp' : bounded fp' (o_next st1)).
        { intros x Hx. apply I' in Hx. cbn. destruct Hx as [[<-|[]]|Hx]; [lia | apply Bd0 in Hx; lia]. }
        split.
        { apply repr_node with (hinsert b (o_next st) ics); [apply alloc_get|].
          apply reprs_alloc_frame; assumption. }
        constructor.
        -- eapply ext_trans; apply ext_alloc.
        -- reflexivity.
        -- reflexivity.
        -- constructor.
           ++ intros Hin. apply Bfp' in Hin. lia.
           ++ apply N'; auto; [repeat constructor; intros [] |].
              intros x [<-|[]] Hin. apply Bd0 in Hin. lia.
        -- intros x [<-|Hx]; cbn; [lia | apply Bfp' in Hx; cbn in Hx; lia].
        -- intros x Hx. split; [tauto|]. destruct Hx as [<-|Hx]; [right; cbn; lia|].
           apply I' in Hx. destruct Hx as [[<-|[]]|Hx]; [right; lia|].
           left. split; [right; exact Hx|]. intros ->. tauto.
        -- intros x [].
        -- intros x [].
        -- intros x [].
      * (* descend into the child at indexOf(b) *)
        destruct (reprs_at _ _ _ _ b Rs) as [(_ & _ & C)|
          (i & c & cid & fpc & cs1 & cs2 & ics1 & ics2 & fp1 & fp2 & -> & -> & -> & R1 & Rc & R2 & Fg & _ & Sp & Hs & _)].
        { rewrite C in A. discriminate. }
        rewrite Sp in A. rewrite Fg.
        destruct (add c d) as [c'|] eqn:Ac; [|discriminate]. inversion A; subst t'; clear A.
        pose proof (repr_defined _ _ _ _ cid Rc (repr_root_in _ _ _ _ Rc)) as Hd.
        destruct (o_h st cid) eqn:Hcid; [|congruence].
        apply NoDup_app_iff in Nd0. destruct Nd0 as (N1 & N23 & D1).
        apply NoDup_app_iff in N23. destruct N23 as (Nc & N2 & D2).
        assert (Bc : bounded fpc (o_next (o_mark st cid))).
        { intros x Hx. apply Bd0. apply in_or_app. right. apply in_or_app. left. exact Hx. }
        destruct (IH c cid fpc (o_mark st cid) c' Rc Nc Bc Ac) as (st1 & nc & fpc' & ndc & nrc & Ha & Rc' & P).
        rewrite Ha. destruct P as [Pe Pd Pr Pn Pb Pf Pnd Pndb Pnr]. cbn [o_mark o_next o_h o_dels o_reads] in *.
        set (n2 := SNode (hset_ge b nc (ics1 ++ (i, cid) :: ics2))).
        exists (fst (o_alloc (o_del st1 cid) n2)), (o_next st1), (o_next st1 :: fp1 ++ fpc' ++ fp2),
               (cid :: ndc), (nrc ++ [cid]).
        split; [reflexivity|].
        assert (Hcidfp : In cid fpc) by (eapply repr_root_in; eauto).
        assert (B1 : bounded fp1 (o_next st)) by (intros x Hx; apply Bd0; apply in_or_app; left; exact Hx).
        assert (B2 : bounded fp2 (o_next st)).
        { intros x Hx. apply Bd0. apply in_or_app. right. apply in_or_app. right. exact Hx. }
        destruct Pe as [Pe1 Pe2]. cbn [o_mark o_next o_h] in Pe1, Pe2.
        split.
        { apply repr_node with (ics1 ++ (i, nc) :: ics2).
          - unfold n2. rewrite Hs. cbn. unfold upd. rewrite N.eqb_refl. reflexivity.
          - change (o_next (o_del st1 cid)) with (o_next st1).
            replace (cs1 ++ [(i, c')] ++ cs2) with (cs1 ++ (i, c') :: cs2) by reflexivity.
            apply reprs_app; [|constructor].
            + eapply reprs_ext; [exact R1|]. intros x Hx. cbn. unfold upd.
              destruct (x =? o_next st1) eqn:E; [apply N.eqb_eq in E; apply B1 in Hx; lia|].
              apply Pe2. apply B1. exact Hx.
            + eapply repr_ext; [exact Rc'|]. intros x Hx. cbn. unfold upd.
              destruct (x =? o_next st1) eqn:E; [apply N.eqb_eq in E; apply Pb in Hx; lia | reflexivity].
            + eapply reprs_ext; [exact R2|]. intros x Hx. cbn. unfold upd.
              destruct (x =? o_next st1) eqn:E; [apply N.eqb_eq in E; apply B2 in Hx; lia|].
              apply Pe2. apply B2. exact Hx. }
        assert (Fc : forall x, In x fpc' -> ~ In x fp1 /\ ~ In x fp2).
        { intros x Hx. destruct (Pf x Hx) as [_ [[Hx' _]|Hx']].
          - split; [intros H1; apply (D1 x H1); apply in_or_app; left; exact Hx'
                   | intros H2; apply (D2 x Hx' H2)].
          - split; [intros H1; apply B1 in H1; lia | intros H2; apply B2 in H2; lia]. }
        constructor.
        -- split; cbn; [lia|]. intros x Hx. unfold upd.
           destruct (x =? o_next st1) eqn:E; [apply N.eqb_eq in E; lia | apply Pe2; exact Hx].
        -- cbn. rewrite Pd. reflexivity.
        -- cbn. rewrite Pr. rewrite <- app_assoc. reflexivity.
        -- constructor.
           ++ rewrite !in_app_iff. intros [H|[H|H]]; [apply B1 in H | apply Pb in H | apply B2 in H]; lia.
           ++ apply NoDup_app_iff. split; [exact N1|]. split.
              ** apply NoDup_app_iff. split; [exact Pn|]. split; [exact N2|].
                 intros x Hx. apply (proj2 (Fc x Hx)).
              ** intros x Hx Hf. apply in_app_or in Hf. destruct Hf as [Hf|Hf].
                 --- apply (proj1 (Fc x Hf)). exact Hx.
                 --- apply (D1 x Hx). apply in_or_app. right. exact Hf.
        -- intros x [<-|Hx]; cbn; [lia|]. rewrite !in_app_iff in Hx.
           destruct Hx as [H|[H|H]]; [apply B1 in H | apply Pb in H | apply B2 in H]; lia.
        -- intros x [<-|Hx].
           ++ split; [|right; lia]. intros [E|Hin]; [apply Bc in Hcidfp; cbn in Hcidfp; lia | apply Pndb in Hin; lia].
           ++ rewrite !in_app_iff in Hx. destruct Hx as [H|[H|H]].
              ** split.
                 --- intros [<-|Hin]; [apply (D1 cid H); apply in_or_app; left; exact Hcidfp|].
                     destruct (Pnd x Hin) as [(Hxc & _)|Hge]; [|apply B1 in H; lia].
                     apply (D1 x H). apply in_or_app. left. exact Hxc.
                 --- left. split; [right; apply in_or_app; left; exact H|]. intros ->. apply Hnid. apply in_or_app. left. exact H.
              ** destruct (Pf x H) as [Hn Hor]. split.
                 --- intros [<-|Hin]; [|tauto]. destruct Hor as [[_ Hne]|Hge]; [congruence | apply Bc in Hcidfp; lia].
                 --- destruct Hor as [[Hxc _]|Hge]; [|right; exact Hge].
                     left. split; [right; apply in_or_app; right; apply in_or_app; left; exact Hxc|].
                     intros ->. apply Hnid. apply in_or_app. right. apply in_or_app. left. exact Hxc.
              ** split.
                 --- intros [<-|Hin]; [apply (D2 cid Hcidfp H)|].
                     destruct (Pnd x Hin) as [(Hxc & _)|Hge]; [|apply B2 in H; lia].
                     apply (D2 x Hxc H).
                 --- left. split; [right; apply in_or_app; right; apply in_or_app; right; exact H|].
                     intros ->. apply Hnid. apply in_or_app. right. apply in_or_app. right. exact H.
        -- intros x [<-|Hin].
           ++ left. split; [right; apply in_or_app; right; apply in_or_app; left; exact Hcidfp|].
              split; [intros ->; apply Hnid; apply in_or_app; right; apply in_or_app; left; exact Hcidfp|].
              apply in_or_app. right. left. reflexivity.
           ++ destruct (Pnd x Hin) as [(Hxc & _ & Hnr)|Hge]; [|right; exact Hge].
              left. split; [right; apply in_or_app; right; apply in_or_app; left; exact Hxc|].
              split; [intros ->; apply Hnid; apply in_or_app; right; apply in_or_app; left; exact Hxc|].
              apply in_or_app. left. exact Hnr.
        -- intros x [<-|Hin]; cbn; [apply Bc in Hcidfp; lia | apply Pndb in Hin; lia].
        -- intros x Hx. apply in_app_or in Hx. destruct Hx as [Hx|[<-|[]]].
           ++ destruct (Pnr x Hx) as [Hxc|Hge]; [|right; exact Hge].
              left. right. apply in_or_app. right. apply in_or_app. left. exact Hxc.
           ++ left. right. apply in_or_app. right. apply in_or_app. left. exact Hcidfp.
Qed.

(* ---------- node.remove ---------- *)
Lemma hfinish_sim st cs' ics' fps :
  reprs (o_h st) cs' ics' fps -> NoDup fps -> bounded fps (o_next st) ->
  exists st' fp' nd nr,
    hfinish st ics' = Some (st', o_next st) /\ repr (o_h st') (collapse cs') (o_next st) fp' /\
    o_next st' = o_next st + 1 /\ (forall x, x < o_next st -> o_h st' x = o_h st x) /\
    o_dels st' = nd ++ o_dels st /\ o_reads st' = nr ++ o_reads st /\ NoDup fp' /\
    (forall x, In x fp' -> x = o_next st \/ (In x fps /\ ~ In x nd)) /\ incl nd nr /\ incl nr fps.
Proof.
  intros R Nd Bd.
  assert (Gen : forall st1, o_h st1 = o_h st -> o_next st1 = o_next st ->
            repr (o_h (fst (o_alloc st1 (SNode ics')))) (Node cs') (o_next st) (o_next st :: fps)).
  { intros st1 E1 E2. apply repr_node with ics'.
    - cbn. rewrite E2. unfold upd. rewrite N.eqb_refl. reflexivity.
    - eapply reprs_ext; [exact R|]. intros x Hx. cbn. rewrite E1, E2. unfold upd.
      destruct (x =? o_next st) eqn:E; [apply N.eqb_eq in E; apply Bd in Hx; lia | reflexivity]. }
  assert (Fr : forall st1 n, o_h st1 = o_h st -> o_next st1 = o_next st ->
            forall x, x < o_next st -> o_h (fst (o_alloc st1 n)) x = o_h st x).
  { intros st1 n E1 E2 x Hx. cbn. rewrite E1, E2. unfold upd.
    destruct (x =? o_next st) eqn:E; [apply N.eqb_eq in E; lia | reflexivity]. }
  assert (Nd' : NoDup (o_next st :: fps)).
  { constructor; [intros H; apply Bd in H; lia | exact Nd]. }
  inversion R as [|i c cid cs ics fpc fp Rc Rcs]; subst.
  - (* no children *)
    exists (fst (o_alloc st (SNode []))), (o_next st :: []), [], [].
    cbn [hfinish collapse].
    split; [reflexivity|]. split; [apply (Gen st); reflexivity|].
    split; [reflexivity|]. split; [apply Fr; reflexivity|]. split; [reflexivity|]. split; [reflexivity|].
    split; [exact Nd'|].
    split; [intros x [<-|[]]; left; reflexivity|]. split; intros ? [].
  - inversion Rcs as [|i2 c2 cid2 cs2 ics2 fpc2 fp2 Rc2 Rcs2]; subst.
    + (* exactly one child *)
      rewrite app_nil_r in *. cbn [hfinish].
      inversion Rc as [id0 k Hh|id0 cs0 ics0 fp0 Hh Rs0]; subst.
      * rewrite Hh. cbn [collapse].
        exists (fst (o_alloc (o_del (o_mark st cid) cid) (SLeaf (i :: k)))), [o_next st], [cid], [cid].
        split; [reflexivity|]. split; [constructor; cbn; unfold upd; rewrite N.eqb_refl; reflexivity|].
        split; [reflexivity|]. split; [apply Fr; reflexivity|]. split; [reflexivity|]. split; [reflexivity|].
        split; [repeat constructor; intros []|].
        split; [intros x [<-|[]]; left; reflexivity|]. split; [apply incl_refl | apply incl_refl].
      * rewrite Hh. cbn [collapse].
        exists (fst (o_alloc (o_mark st cid) (SNode [(i, cid)]))), (o_next st :: cid :: fp0), [], [cid].
        split; [reflexivity|]. split; [apply (Gen (o_mark st cid)); reflexivity|].
        split; [reflexivity|]. split; [apply Fr; reflexivity|]. split; [reflexivity|]. split; [reflexivity|].
        split; [exact Nd'|].
        split; [intros x [<-|Hx]; [left; reflexivity | right; split; [exact Hx | intros []]]|].
        split; [intros ? [] | intros x [<-|[]]; left; reflexivity].
    + (* two or more children *)
      exists (fst (o_alloc st (SNode ((i, cid) :: (i2, cid2) :: ics2)))), (o_next st :: fpc ++ fpc2 ++ fp2), [], [].
      split; [reflexivity|].
      split; [destruct c as [s|cs']; apply (Gen st); reflexivity|].
      split; [reflexivity|]. split; [apply Fr; reflexivity|]. split; [reflexivity|]. split; [reflexivity|].
      split; [exact Nd'|].
      split; [intros x [<-|Hx]; [left; reflexivity | right; split; [exact Hx | intros []]]|].
      split; intros ? [].
Qed.

(* from the situation before the final re-allocation of node.remove to its post-condition *)
Lemma finish_post st fp id stm cs' ics' fps ndm nrm :
  ext st stm -> o_dels stm = ndm ++ o_dels st -> o_reads stm = nrm ++ o_reads st ->
  reprs (o_h stm) cs' ics' fps -> NoDup fps -> bounded fps (o_next stm) ->
  (forall x, In x fps -> ~ In x ndm /\ ((In x fp /\ x <> id) \/ o_next st <= x)) ->
  (forall x, In x ndm -> (In x fp /\ x <> id /\ In x nrm) \/ o_next st <= x) ->
  bounded ndm (o_next stm) ->
  (forall x, In x nrm -> In x fp \/ o_next st <= x) ->
  exists st' id' fp' nd nr, hfinish stm ics' = Some (st', id') /\ repr (o_h st') (collapse cs') id' fp' /\
                            post st fp id st' fp' nd nr.
Proof.
  intros [E1 E2] Hd Hr R Nd Bd Pf Pnd Pndb Pnr.
  destruct (hfinish_sim stm cs' ics' fps R Nd Bd) as
    (st' & fp' & ndf & nrf & Hf & R' & Hn & Fr & Hd' & Hr' & Nd' & Pf' & I1 & I2).
  exists st', (o_next stm), fp', (ndf ++ ndm), (nrf ++ nrm).
  split; [exact Hf|]. split; [exact R'|].
  constructor.
  - split; [lia|]. intros x Hx. rewrite Fr by lia. apply E2. exact Hx.
  - rewrite Hd', Hd, app_assoc. reflexivity.
  - rewrite Hr', Hr, app_assoc. reflexivity.
  - exact Nd'.
  - intros x Hx. destruct (Pf' x Hx) as [->|[Hx' _]]; [lia | apply Bd in Hx'; lia].
  - intros x Hx. destruct (Pf' x Hx) as [->|[Hx' Hn']].
    + split; [|right; lia]. intros Hin. apply in_app_or in Hin. destruct Hin as [Hin|Hin].
      * apply I1, I2, Bd in Hin. lia.
      * apply Pndb in Hin. lia.
    + destruct (Pf x Hx') as [A B]. split; [|exact B].
      intros Hin. apply in_app_or in Hin. tauto.
  - intros x Hx. apply in_app_or in Hx. destruct Hx as [Hx|Hx].
    + pose proof (I1 x Hx) as Hnr. pose proof (I2 x Hnr) as Hfps. destruct (Pf x Hfps) as [_ [[A B]|C]].
      * left. split; [exact A|]. split; [exact B|]. apply in_or_app. left. exact Hnr.
      * right. exact C.
    + destruct (Pnd x Hx) as [(A & B & C)|D]; [|right; exact D].
      left. split; [exact A|]. split; [exact B|]. apply in_or_app. right. exact C.
  - intros x Hx. apply in_app_or in Hx. destruct Hx as [Hx|Hx].
    + apply I1, I2, Bd in Hx. lia.
    + apply Pndb in Hx. lia.
  - intros x Hx. apply in_app_or in Hx. destruct Hx as [Hx|Hx].
    + apply I2 in Hx. destruct (Pf x Hx) as [_ [[A _]|C]]; auto.
    + apply Pnr. exact Hx.
Qed.

Lemma hremove_sim : forall k t id fp st t',
  repr (o_h st) t id fp -> NoDup fp -> bounded fp (o_next st) -> remove t k = Some t' ->
  exists st' id' fp' nd nr, hremove st id k = Some (st', id') /\ repr (o_h st') t' id' fp' /\
                            post st fp id st' fp' nd nr.
Proof.
  induction k as [|b k IH]; intros t id fp st t' R Nd Bd A.
  - destruct t; cbn in A; discriminate.
  - inversion R as [id0 s Hh|id0 cs ics fp0 Hh Rs]; subst; [cbn in A; discriminate|].
    cbn [remove] in A. cbn [hremove]. rewrite Hh.
    inversion Nd as [|? ? Hnid Nd0]; subst.
    assert (Bd0 : bounded fp0 (o_next st)) by (intros x Hx; apply Bd; right; exact Hx).
    destruct (reprs_at _ _ _ _ b Rs) as [(_ & _ & C)|
      (i & c & cid & fpc & cs1 & cs2 & ics1 & ics2 & fp1 & fp2 & -> & -> & -> & R1 & Rc & R2 & Fg & _ & Sp & Hs & Hdr)].
    { rewrite C in A. discriminate. }
    rewrite Sp in A. rewrite Fg.
    apply NoDup_app_iff in Nd0. destruct Nd0 as (N1 & N23 & D1).
    apply NoDup_app_iff in N23. destruct N23 as (Nc & N2 & D2).
    assert (Hcidfp : In cid fpc) by (eapply repr_root_in; eauto).
    assert (B1 : bounded fp1 (o_next st)) by (intros x Hx; apply Bd0; apply in_or_app; left; exact Hx).
    assert (B2 : bounded fp2 (o_next st)).
    { intros x Hx. apply Bd0. apply in_or_app. right. apply in_or_app. right. exact Hx. }
    assert (Bc : bounded fpc (o_next st)).
    { intros x Hx. apply Bd0. apply in_or_app. right. apply in_or_app. left. exact Hx. }
    assert (In1 : forall x, In x fp1 -> In x (id :: fp1 ++ fpc ++ fp2) /\ x <> id).
    { intros x Hx. split; [right; apply in_or_app; left; exact Hx|]. intros ->. apply Hnid. apply in_or_app. left. exact Hx. }
    assert (In2 : forall x, In x fp2 -> In x (id :: fp1 ++ fpc ++ fp2) /\ x <> id).
    { intros x Hx. split; [right; apply in_or_app; right; apply in_or_app; right; exact Hx|].
      intros ->. apply Hnid. apply in_or_app. right. apply in_or_app. right. exact Hx. }
    assert (Inc : forall x, In x fpc -> In x (id :: fp1 ++ fpc ++ fp2) /\ x <> id).
    { intros x Hx. split; [right; apply in_or_app; right; apply in_or_app; left; exact Hx|].
      intros ->. apply Hnid. apply in_or_app. right. apply in_or_app. left. exact Hx. }
    destruct c as [s|cs0].
    + (* the child is a leaf: dropped *)
      inversion Rc as [id0 k0 Hcid|]; subst. rewrite Hcid, Hdr.
      inversion A; subst t'; clear A. cbn [app].
      apply (finish_post st (id :: fp1 ++ [cid] ++ fp2) id (o_del (o_mark st cid) cid)
                         (cs1 ++ cs2) (ics1 ++ ics2) (fp1 ++ fp2) [cid] [cid]).
      * split; cbn; [lia | auto].
      * reflexivity.
      * reflexivity.
      * apply reprs_app; assumption.
      * apply NoDup_app_iff. split; [exact N1|]. split; [exact N2|].
        intros x Hx Hf. apply (D1 x Hx). apply in_or_app. right. exact Hf.
      * intros x Hx. apply in_app_or in Hx. destruct Hx as [Hx|Hx]; [apply B1 | apply B2]; exact Hx.
      * intros x Hx. apply in_app_or in Hx. destruct Hx as [Hx|Hx].
        -- split; [intros [<-|[]]; apply (D1 cid Hx); left; reflexivity | left; apply In1; exact Hx].
        -- split; [intros [<-|[]]; apply (D2 cid); [left; reflexivity | exact Hx] | left; apply In2; exact Hx].
      * intros x [<-|[]]. left. destruct (Inc cid Hcidfp) as [X Y]. split; [exact X|]. split; [exact Y | left; reflexivity].
      * intros x [<-|[]]. cbn. apply Bc. exact Hcidfp.
      * intros x [<-|[]]. left. apply Inc. exact Hcidfp.
    + (* the child is a node: recursive removal, then the pointer is replaced *)
      destruct (remove (Node cs0) k) as [c'|] eqn:Ac; [|discriminate]. inversion A; subst t'; clear A.
      inversion Rc as [|id0 cs0' ics0 fpc0 Hcid Rs0]; subst. rewrite Hcid.
      assert (Bc' : bounded (cid :: fpc0) (o_next (o_mark st cid))) by exact Bc.
      destruct (IH (Node cs0) cid (cid :: fpc0) (o_mark st cid) c' Rc Nc Bc' Ac)
        as (st1 & nc & fpc' & ndc & nrc & Ha & Rc' & P).
      rewrite Ha, Hs. destruct P as [Pe Pd Pr Pn Pb Pf Pnd Pndb Pnr].
      destruct Pe as [Pe1 Pe2]. cbn [o_mark o_next o_h o_dels o_reads] in *.
      assert (Fc : forall x, In x fpc' -> ~ In x fp1 /\ ~ In x fp2).
      { intros x Hx. destruct (Pf x Hx) as [_ [[Hx' _]|Hx']].
        - split; [intros H1; apply (D1 x H1); apply in_or_app; left; exact Hx'
                 | intros H2; apply (D2 x Hx' H2)].
        - split; [intros H1; apply B1 in H1; lia | intros H2; apply B2 in H2; lia]. }
      replace (cs1 ++ [(i, c')] ++ cs2) with (cs1 ++ (i, c') :: cs2) by reflexivity.
      apply (finish_post st (id :: fp1 ++ (cid :: fpc0) ++ fp2) id (o_del st1 cid)
                         (cs1 ++ (i, c') :: cs2) (ics1 ++ (i, nc) :: ics2) (fp1 ++ fpc' ++ fp2)
                         (cid :: ndc) (nrc ++ [cid])).
      * split; [exact Pe1 | exact Pe2].
      * cbn. rewrite Pd. reflexivity.
      * cbn. rewrite Pr, <- app_assoc. reflexivity.
      * apply reprs_app; [|constructor].
        -- eapply reprs_ext; [exact R1|]. intros x Hx. apply Pe2. apply B1. exact Hx.
        -- exact Rc'.
        -- eapply reprs_ext; [exact R2|]. intros x Hx. apply Pe2. apply B2. exact Hx.
      * apply NoDup_app_iff. split; [exact N1|]. split.
        -- apply NoDup_app_iff. split; [exact Pn|]. split; [exact N2|]. intros x Hx. apply (proj2 (Fc x Hx)).
        -- intros x Hx Hf. apply in_app_or in Hf. destruct Hf as [Hf|Hf].
           ++ apply (proj1 (Fc x Hf)). exact Hx.
           ++ apply (D1 x Hx). apply in_or_app. right. exact Hf.
      * intros x Hx. cbn. rewrite !in_app_iff in Hx.
        destruct Hx as [H|[H|H]]; [apply B1 in H | apply Pb in H | apply B2 in H]; lia.
      * intros x Hx. rewrite !in_app_iff in Hx. destruct Hx as [H|[H|H]].
        -- split; [|left; apply In1; exact H].
           intros [<-|Hin]; [apply (D1 cid H); apply in_or_app; left; exact Hcidfp|].
           destruct (Pnd x Hin) as [(Hxc & _)|Hge]; [|apply B1 in H; lia].
           apply (D1 x H). apply in_or_app. left. exact Hxc.
        -- destruct (Pf x H) as [Hn Hor]. split.
           ++ intros [<-|Hin]; [|tauto]. destruct Hor as [[_ Hne]|Hge]; [congruence | apply Bc in Hcidfp; lia].
           ++ destruct Hor as [[Hxc _]|Hge]; [left; apply Inc; exact Hxc | right; exact Hge].
        -- split; [|left; apply In2; exact H].
           intros [<-|Hin]; [apply (D2 cid Hcidfp H)|].
           destruct (Pnd x Hin) as [(Hxc & _)|Hge]; [|apply B2 in H; lia].
           apply (D2 x Hxc H).
      * intros x [<-|Hin].
        -- left. destruct (Inc cid Hcidfp) as [X Y]. split; [exact X|]. split; [exact Y|].
           apply in_or_app. right. left. reflexivity.
        -- destruct (Pnd x Hin) as [(Hxc & _ & Hnr)|Hge]; [|right; exact Hge].
           left. destruct (Inc x Hxc) as [X Y]. split; [exact X|]. split; [exact Y|]. apply in_or_app. left. exact Hnr.
      * intros x [<-|Hin]; cbn; [apply Bc in Hcidfp; lia | apply Pndb in Hin; lia].
      * intros x Hx. apply in_app_or in Hx. destruct Hx as [Hx|[<-|[]]].
        -- destruct (Pnr x Hx) as [Hxc|Hge]; [left; apply Inc; exact Hxc | right; exact Hge].
        -- left. apply Inc. exact Hcidfp.
Qed.
