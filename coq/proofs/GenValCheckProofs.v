(* C20: what the executable oracle [spec_ok] means, and concrete instances (non-vacuity). *)
From Coq Require Import NArith ZArith List Bool String Lia.
From Verif.lib Require Import Term.
From Verif.model Require Import GenVal GenValCheck.
From Verif.proofs Require Import GenValProofs GenValTheorems GenValSupply GenValPayset.
Import ListNotations.
Open Scope N_scope.

Lemma c20_list_eqb_N_eq (x : list N) : forall y, list_eqb N.eqb x y = true -> x = y.
Proof.
  induction x as [|a x IH]; intros [|b y] H; cbn in H; try discriminate; [reflexivity|].
  apply andb_true_iff in H as [H1 H2]. apply N.eqb_eq in H1. subst. f_equal. apply IH, H2.
Qed.

Lemma c20_term_eqb_eq : forall a b, term_eqb a b = true -> a = b.
Proof.
  fix IH 1. intros [z|x|s|l] [z'|x'|s'|l'] H; cbn in H; try discriminate.
  - apply Z.eqb_eq in H. subst. reflexivity.
  - f_equal. apply c20_list_eqb_N_eq, H.
  - apply String.eqb_eq in H. subst. reflexivity.
  - f_equal. revert l' H. induction l as [|t l IHl]; intros [|t' l'] H; try discriminate; [reflexivity|].
    apply andb_true_iff in H as [H1 H2]. f_equal; [apply IH, H1|apply IHl, H2].
Qed.

Lemma all_same_sound : forall l, all_same l = true -> forall x y, In x l -> In y l -> x = y.
Proof.
  intros [|a l] H x y Hx Hy; [destruct Hx|]. cbn in H.
  assert (A : forall z, In z (a :: l) -> z = a).
  { intros z [->|Hz]; [reflexivity|]. clear Hx Hy. induction l as [|b l IH]; [destruct Hz|].
    cbn in H. apply andb_true_iff in H as [H1 H2]. destruct Hz as [->|Hz].
    - symmetry. apply c20_term_eqb_eq, H1.
    - apply IH; assumption. }
  rewrite (A x Hx), (A y Hy). reflexivity.
Qed.

(* the oracle, read back as a statement about the observed block *)
Theorem spec_ok_sound : forall o, spec_ok o = true ->
  o_gen_ok o = true /\ o_val_ok o = true /\
  (forall e, In e (o_errs o) -> e = 0) /\
  (forall x y, In x (o_digests o) -> In y (o_digests o) -> x = y) /\
  (forall x y, In x (o_red o) -> In y (o_red o) -> x = y) /\
  (forall m, In m (o_muts o) -> fst m = true -> snd m = true) /\
  hdr_of_payset_ok (o_ps o) = true.
Proof.
  intros o H. unfold spec_ok in H. apply andb_true_iff in H as [H HP]. repeat (apply andb_true_iff in H as [H ?]).
  repeat split; try assumption.
  - intros e He. rewrite forallb_forall in H3. specialize (H3 e He). apply N.eqb_eq in H3. symmetry. exact H3.
  - apply all_same_sound; assumption.
  - apply all_same_sound; assumption.
  - intros m Hm Ha. rewrite forallb_forall in H0. specialize (H0 m Hm). unfold mut_ok in H0. rewrite Ha in H0. exact H0.
Qed.

(* ------------------------------------------------------------------ a concrete block *)
Definition ex_P : params := mkParams 100000 1000000 true 16 true 50 true true 5242880 true true.
(* accounts 1..4, fee sink 13, rewards pool 14 *)
Definition ex_L : lview :=
  mkLV [(1, mkAcct 5000000 0); (2, mkAcct 300000 0); (3, mkAcct 150000 0); (13, mkAcct 1500000 0); (14, mkAcct 100000 0)]
       [90] 1000 7 1 1 2000000 13 14.
Definition ex_tx (id s r amt cl fee : N) : stib := (mkTxn id s r amt cl fee 8 20 true 200 true, ad0).
Definition ex_pool : list group :=
  [ mkGroup [ex_tx 1 1 2 5000 0 1000] true true true;            (* accepted *)
    mkGroup [ex_tx 2 3 1 900000 0 1000] true true true;          (* overspend: dropped *)
    mkGroup [ex_tx 90 1 2 1 0 1000] true true true;              (* already committed: dropped *)
    mkGroup [ex_tx 3 3 1 0 2 1000] true true true;               (* closes account 3 into 2 *)
    mkGroup [ex_tx 4 1 4 7 0 1000] true true true;               (* would leave 4 below MinBalance *)
    mkGroup [ex_tx 5 2 1 10 0 2000; ex_tx 6 1 2 20 0 0] true true true ].

Definition ex_ub : res ublock := eval_generate ex_P ex_L 8 2000000 ex_pool [2; 3].

Lemma ex_generate :
  exists ub, ex_ub = Ok ub /\
    map (fun g => map (fun s : stib => (t_id (fst s), ad_closing (snd s))) (g_txns g)) (ub_payset ub)
      = [[(1, 0)]; [(3, 149000)]; [(5, 0); (6, 0)]] /\
    h_counter (ub_hdr ub) = 1004 /\ h_fees (ub_hdr ub) = 4000 /\ h_payout (ub_hdr ub) = 1404000 /\
    h_load (ub_hdr ub) = 152.
Proof. eexists. split; [vm_compute; reflexivity|]. vm_compute. repeat split; reflexivity. Qed.

Lemma ex_supply : bounded 7050000 (bal ex_L []) /\ 7050000 < W64.
Proof. split; [apply (bounded_total ex_L)|reflexivity]. Qed.

(* the generated block, finished for proposer 2, validates and the validator's delta is the
   generator's plus payout and proposal record *)
Lemma ex_validates :
  exists ub d, ex_ub = Ok ub /\ eval_validate ex_P ex_L (finish_block ex_P ub 2 true) = Ok d /\
    afind 2 (l_accts d) = Some (mkAcct (300000 + 5000 + 149000 - 10 - 2000 + 20 + 1404000) 8) /\
    afind 2 (l_accts (ub_delta ub)) = Some (mkAcct (300000 + 5000 + 149000 - 10 - 2000 + 20) 0).
Proof. eexists. eexists. split; [vm_compute; reflexivity|]. vm_compute. repeat split; reflexivity. Qed.

(* deviations are rejected: a wrong ClosingAmount, a wrong counter, a raised payout *)
Definition ex_tamper_ad (b : block) : block :=
  mkBlock (b_hdr b)
    (map (fun g => mkGroup (map (fun s : stib => (fst s, if t_id (fst s) =? 3 then mkAD 149001 0 else snd s)) (g_txns g))
                           (g_wf g) (g_gid g) (g_feeok g)) (b_payset b)).
Definition ex_tamper_hdr (f : header -> header) (b : block) : block := mkBlock (f (b_hdr b)) (b_payset b).

Lemma ex_rejects :
  exists ub, ex_ub = Ok ub /\
    let blk := finish_block ex_P ub 2 true in
    eval_validate ex_P ex_L (ex_tamper_ad blk) = Err E_AD /\
    eval_validate ex_P ex_L (ex_tamper_hdr (fun h => set_end h (h_root h) (h_counter h + 1) (h_fees h) (h_payout h) (h_load h)) blk) = Err E_COUNT /\
    eval_validate ex_P ex_L (ex_tamper_hdr (fun h => set_payout h (h_payout h + 1)) blk) = Err E_PAYOUT /\
    eval_validate ex_P ex_L (ex_tamper_hdr (fun h => set_end h (h_root h) (h_counter h) (h_fees h - 1) (h_payout h) (h_load h)) blk) = Err E_FEES /\
    eval_validate ex_P ex_L (ex_tamper_hdr (fun h => set_end h (h_root h) (h_counter h) (h_fees h) (h_payout h) (h_load h + 1)) blk) = Err E_LOAD /\
    (* lowering the payout is allowed ("a proposer can be altruistic") *)
    (exists d, eval_validate ex_P ex_L (ex_tamper_hdr (fun h => set_payout h (h_payout h - 1)) blk) = Ok d).
Proof.
  eexists. split; [vm_compute; reflexivity|]. cbv zeta.
  repeat split; try (vm_compute; reflexivity). eexists. vm_compute. reflexivity.
Qed.

(* what the header-against-payset oracle says, field by field *)
Lemma hdr_of_payset_ok_sound : forall lt maxb bytes load tc prev ntx counter po feesum fees,
  hdr_of_payset_ok [lt; maxb; bytes; load; tc; prev; ntx; counter; po; feesum; fees] = true ->
  (lt <> 0 -> compute_load bytes maxb = Ok load) /\ (lt = 0 -> load = 0) /\
  counter = (if tc =? 0 then 0 else (prev + ntx) mod W64) /\
  fees = (if po =? 0 then 0 else feesum mod W64).
Proof.
  intros lt maxb bytes load tc prev ntx counter po feesum fees H. cbn [hdr_of_payset_ok] in H.
  apply andb_true_iff in H as [H H3]. apply andb_true_iff in H as [H1 H2].
  apply N.eqb_eq in H2, H3. change 18446744073709551616 with W64 in H2, H3.
  repeat split; try assumption.
  - intro Hlt. destruct (lt =? 0) eqn:E; [apply N.eqb_eq in E; contradiction|].
    apply andb_true_iff in H1 as [Hm Hl]. apply N.eqb_eq in Hl. unfold compute_load.
    destruct (maxb =? 0); [discriminate|]. rewrite Hl. reflexivity.
  - intro Hlt. subst lt. cbn in H1. apply N.eqb_eq in H1. exact H1.
Qed.

(* a FULL block: with a node-local cap of 450 bytes the two-member group does not fit
   (ErrNoSpace), the pool stops there and generates; Load is that of the 400 bytes in the block *)
Definition ex_ub_full : res ublock := eval_generate_full ex_P 450 ex_L 8 2000000 ex_pool [2; 3].

Lemma ex_full :
  exists ub d, ex_ub_full = Ok ub /\
    map (fun g => map (fun s : stib => t_id (fst s)) (g_txns g)) (ub_payset ub) = [[1]; [3]] /\
    gen_codes (mkEnv ex_P true true 8 450) ex_L (mkEv (put layer0 14 (mkAcct 100000 0)) [] 0) ex_pool
      = [0; E_OVERSPEND; E_DUP; 0; E_MINBAL; E_NOSPACE] /\
    h_load (ub_hdr ub) = 76 /\ payset_bytes (ub_payset ub) = 400 /\
    eval_validate ex_P ex_L (finish_block ex_P ub 2 true) = Ok d.
Proof. eexists. eexists. split; [vm_compute; reflexivity|]. vm_compute. repeat split; reflexivity. Qed.
