(* C43: the executable predicates that [check] evaluates on the implementation's observations
   (model/C43Check.v: spec_slurp_msg, spec_filter) hold of the model's own observations for ALL
   inputs -- i.e. they are consequences of the theorems, not extra test oracles. *)
From Coq Require Import NArith ZArith List Bool Lia ZifyN ZifyNat ZifyBool.
From Verif.lib Require Import Term.
From Verif.model Require Import Slurper MsgFilter PeerRead C43Check.
From Verif.proofs Require Import SlurperProofs MsgFilterProofs PeerProofs.
Import ListNotations.
Open Scope N_scope.

(* ------------------------------------------------------------------ slurper *)
Lemma chain_end_Chain segs : forall a b, chain_end a segs = Some b <-> Chain a segs b.
Proof.
  induction segs as [|[s n] t IH]; intros a b; cbn [chain_end].
  - split; [intros H; inversion H; constructor|intros H; inversion H; reflexivity].
  - destruct (N.eqb_spec s a) as [E|E].
    + subst s. rewrite IH. split; [intros H; constructor; exact H|intros H; inversion H; assumption].
    + split; [discriminate|intros H; inversion H; congruence].
Qed.

Lemma has_err_iff sc : has_err sc = true <-> has_err_ev sc.
Proof.
  unfold has_err, has_err_ev. rewrite existsb_exists. split.
  - intros ([k e|k] & Hin & H); [discriminate|]. exists k. exact Hin.
  - intros (k & Hin). exists (EvErr k). split; [exact Hin|reflexivity].
Qed.

(* one message: the model's observation satisfies the slurper specification *)
Lemma spec_slurp_model base maxA s limit total script :
  maxA + allocationStep <= two64 ->
  ginv (N.min base maxA) maxA s ->
  let '(s', m) := model_slurp_msg s limit total script in
  ginv (N.min base maxA) maxA s' /\
  spec_slurp_msg base maxA limit total script (so_err m) (so_size m) (so_cok m) (so_rem m) (so_alloc m)
                 (so_held m) = true.
Proof.
  intros Hnw Hg. unfold model_slurp_msg.
  assert (HBM : N.min base maxA <= maxA) by lia.
  pose proof (slurp_spec _ _ HBM Hnw s limit total script Hg) as Hs.
  destruct (slurp s limit total script) as [[o s'] r'].
  destruct Hs as (((Hg' & Hmx & Hal & Hpost) & (Hh1 & Hh2 & Hh3)) & Hfuel).
  cbn [reset maxSize rtotal rscript] in Hmx, Hal, Hpost, Hh2.
  split; [exact Hg'|].
  pose proof (ginv_allocated _ _ HBM Hnw s' Hg') as Hacc.
  assert (Hbase : N.min base maxA <= allocated s').
  { destruct Hg' as (G1 & _). unfold allocated. lia. }
  unfold spec_slurp_msg. cbn [so_err so_size so_cok so_rem so_alloc so_held].
  assert (Hab : allocated s' <=? alloc_bound (N.min base maxA) maxA limit = true).
  { unfold alloc_bound. destruct (N.eqb_spec limit 0); [lia|].
    assert (0 < limit) by lia. specialize (Hal H). lia. }
  assert (E1 : (allocated s' + remained s' =? maxA) = true) by lia.
  assert (E2 : (N.min base maxA <=? allocated s') = true) by lia.
  assert (E3 : (bytesRead s' <=? allocated s') = true) by lia.
  rewrite E1, E2, Hab, E3. cbn [andb].
  destruct o; cbn [outcome_code].
  - (* ROk *)
    destruct Hpost as (Hsize & Hch & Hlim & HleM).
    apply chain_end_Chain in Hch. rewrite Hch, Hsize.
    assert (Htl : too_long limit maxA total = false) by (unfold too_long; destruct Hlim; lia).
    rewrite Htl. rewrite !N.eqb_refl, N.leb_refl.
    assert (Hb : bytesRead s' = total) by (rewrite Hh3 by reflexivity; exact Hsize).
    assert (Hnot : ((0 <? limit) && (limit <? bytesRead s')) = false) by (destruct Hlim; lia).
    rewrite Hnot, Hb, N.eqb_refl. cbn. apply orb_true_r.
  - (* RTooLarge *)
    assert (Htl : too_long limit maxA total = true) by (unfold too_long; lia).
    rewrite Htl. destruct ((0 <? limit) && (limit <? bytesRead s')); cbn; apply orb_true_r.
  - (* RReaderErr *)
    apply has_err_iff in Hpost. rewrite Hpost.
    assert (Hnot : ((0 <? limit) && (limit <? bytesRead s')) = false)
      by (destruct Hh2 as [Hz|Hz]; [discriminate|lia|lia]).
    rewrite Hnot. reflexivity.
  - contradiction.
  - congruence.
Qed.

(* a successful Read holds exactly the message bytes, whatever they are *)
Lemma slurp_content {A} base maxA s limit (data : list A) script s' r' :
  maxA + allocationStep <= two64 ->
  ginv (N.min base maxA) maxA s ->
  slurp s limit (N.of_nat (length data)) script = (ROk, s', r') ->
  bytes_of data (segments s') = data /\ size s' = N.of_nat (length data).
Proof.
  intros Hnw Hg E. assert (HBM : N.min base maxA <= maxA) by lia.
  pose proof (slurp_spec _ _ HBM Hnw s limit (N.of_nat (length data)) script Hg) as Hs.
  rewrite E in Hs. destruct Hs as (((_ & _ & _ & Hpost) & _) & _). cbn [rtotal] in Hpost.
  destruct Hpost as (Hsize & Hch & _). split; [|exact Hsize]. apply bytes_of_whole. exact Hch.
Qed.

(* a connection's whole life: every message of every sequence satisfies the specification *)
Fixpoint model_seq (s : slurper) (msgs : list (N * N * list ev)) : list sobs :=
  match msgs with
  | [] => []
  | (limit, total, script) :: rest =>
      let '(s', m) := model_slurp_msg s limit total script in m :: model_seq s' rest
  end.

Lemma spec_slurp_seq base maxA msgs :
  maxA + allocationStep <= two64 ->
  Forall2 (fun msg m => let '(limit, total, script) := msg in
             spec_slurp_msg base maxA limit total script (so_err m) (so_size m) (so_cok m)
                            (so_rem m) (so_alloc m) (so_held m) = true)
          msgs (model_seq (make_slurper base maxA) msgs).
Proof.
  intros Hnw. assert (HBM : N.min base maxA <= maxA) by lia.
  pose proof (make_ginv _ _ HBM Hnw base maxA eq_refl eq_refl) as Hg.
  revert Hg. generalize (make_slurper base maxA) as s.
  induction msgs as [|[[limit total] script] rest IH]; intros s Hg; cbn [model_seq]; [constructor|].
  pose proof (spec_slurp_model base maxA s limit total script Hnw Hg) as H.
  destruct (model_slurp_msg s limit total script) as [s' m]. destruct H as (Hg' & Hspec).
  constructor; [exact Hspec|]. apply IH. exact Hg'.
Qed.

(* ------------------------------------------------------------------ filter *)
Lemma tbl_get_set_same d v t : tbl_get d (tbl_set d v t) = Some v.
Proof.
  induction t as [|[k w] r IH]; cbn [tbl_set tbl_get].
  - rewrite N.eqb_refl. reflexivity.
  - destruct (N.eqb_spec k d) as [E|E]; cbn [tbl_get].
    + rewrite E, N.eqb_refl. reflexivity.
    + destruct (N.eqb_spec k d); [contradiction|]. exact IH.
Qed.

Lemma tbl_get_set_other d d' v t : d' <> d -> tbl_get d' (tbl_set d v t) = tbl_get d' t.
Proof.
  intros Hne. induction t as [|[k w] r IH]; cbn [tbl_set tbl_get].
  - destruct (N.eqb_spec d d'); [congruence|reflexivity].
  - destruct (N.eqb_spec k d) as [E|E]; cbn [tbl_get].
    + subst k. destruct (N.eqb_spec d d'); [congruence|reflexivity].
    + destruct (N.eqb_spec k d'); [reflexivity|exact IH].
Qed.

Lemma present_false_find (f : filt (D:=list N)) e : present keqb f e = false -> find keqb f e = None.
Proof.
  unfold present, check_digest. cbn [negb snd]. destruct (find keqb f e); [discriminate|reflexivity].
Qed.

Definition mk_op (o : N * bool * bool) : op (D:=list N) := let '(id, a, p) := o in Op (fkey id) a p.

Definition finv (n : N) (mx : Z) (f : filt (D:=list N)) (adds : N) (t : list (N * N)) : Prop :=
  (forall d, tbl_get d t = None -> absent keqb f (fkey d)) /\
  ((1 <= mx)%Z ->
   wf f /\ N.of_nat (nb f) = n /\ maxsz f = mx /\
   forall d c, tbl_get d t = Some c ->
               c <= adds /\ life_ge keqb f (fkey d) (window n mx - Z.of_N (adds - c))).

Lemma spec_filter_walk_model n mx ops : forall f adds t,
  finv n mx f adds t ->
  spec_filter_walk n mx ops (snd (run_ops keqb f (map mk_op ops))) adds t = true.
Proof.
  induction ops as [|[[d add] promote] ops IH]; intros f adds t (Habs & Hlife);
    cbn [map mk_op run_ops snd spec_filter_walk]; [reflexivity|].
  pose proof (has_is_present keqb f (fkey d) add promote) as Hh.
  destruct (check_digest keqb f (fkey d) add promote) as [f1 h] eqn:Ecd. cbn [snd] in Hh.
  destruct (run_ops keqb f1 (map mk_op ops)) as [f2 hs] eqn:Erun. cbn [snd].
  assert (Hf1 : f1 = fst (check_digest keqb f (fkey d) add promote)) by (rewrite Ecd; reflexivity).
  (* the two clauses on this call *)
  assert (Hnofp : match tbl_get d t with None => negb h | Some _ => true end = true).
  { destruct (tbl_get d t) eqn:Eg; [reflexivity|].
    rewrite Hh, (absent_not_present keqb keqb_spec f (fkey d) (Habs d Eg)). reflexivity. }
  assert (Hret : match tbl_get d t with
                 | Some c => if ((1 <=? mx) && (Z.of_N (adds - c) <? window n mx))%Z then h else true
                 | None => true end = true).
  { destruct (tbl_get d t) as [c|] eqn:Eg; [|reflexivity].
    destruct ((1 <=? mx)%Z) eqn:E1; cbn [andb]; [|reflexivity].
    destruct (Z.ltb_spec (Z.of_N (adds - c)) (window n mx)) as [E2|E2]; [|reflexivity].
    assert (Hm : (1 <= mx)%Z) by lia.
    destruct (Hlife Hm) as (Hwf & _ & _ & Hl). destruct (Hl d c Eg) as (_ & Hlg).
    rewrite Hh. eapply life_present; [exact keqb_spec|exact Hwf|exact Hlg|lia]. }
  rewrite Hnofp, Hret. cbn [andb].
  replace hs with (snd (run_ops keqb f1 (map mk_op ops))) by (rewrite Erun; reflexivity).
  apply IH. clear IH Erun hs f2.
  set (adds' := if add then adds + 1 else adds).
  set (upd_t := add && (negb h || promote)).
  split.
  - (* digests without a table entry are absent from the filter *)
    intros d' Eg'. rewrite Hf1. apply step_absent; [exact keqb_spec| |].
    + apply Habs. unfold upd_t in Eg'. destruct (add && (negb h || promote)); [|exact Eg'].
      destruct (N.eq_dec d' d) as [->|Hne]; [rewrite tbl_get_set_same in Eg'; discriminate|].
      rewrite tbl_get_set_other in Eg' by exact Hne. exact Eg'.
    + destruct add; [left|right; reflexivity]. intros Hk. inversion Hk; subst d'.
      unfold upd_t in Eg'. cbn [andb] in Eg'.
      destruct (negb h || promote) eqn:Eu; [rewrite tbl_get_set_same in Eg'; discriminate|].
      rewrite Eg' in Hnofp. destruct h; [discriminate|]. cbn in Eu. discriminate.
  - intros Hm. destruct (Hlife Hm) as (Hwf & Hnb & Hmx & Hl).
    assert (H0 : life_ge keqb f (fkey d) 0) by (left; lia).
    destruct (step_life keqb keqb_spec f (fkey d) (fkey d) add promote 0 Hwf H0) as (Hwf1 & _ & Hnb1 & Hmx1).
    cbn zeta in Hwf1, Hnb1, Hmx1. rewrite <- Hf1 in Hwf1, Hnb1, Hmx1.
    split; [exact Hwf1|]. split; [congruence|]. split; [congruence|].
    intros d' c' Eg'.
    assert (Hold : forall c, tbl_get d' t = Some c ->
                     c <= adds' /\ life_ge keqb f1 (fkey d') (window n mx - Z.of_N (adds' - c))).
    { intros c Eg. destruct (Hl d' c Eg) as (Hc & Hlg). split; [unfold adds'; destruct add; lia|].
      pose proof (step_life keqb keqb_spec f (fkey d') (fkey d) add promote _ Hwf Hlg) as (_ & Hl1 & _).
      cbn zeta in Hl1. rewrite <- Hf1 in Hl1.
      eapply (life_ge_weaken keqb keqb_spec); [|exact Hl1]. unfold adds'. destruct add; lia. }
    unfold upd_t in Eg'. destruct (add && (negb h || promote)) eqn:Eu; [|exact (Hold c' Eg')].
    destruct (N.eq_dec d' d) as [->|Hne].
    + rewrite tbl_get_set_same in Eg'. inversion Eg'; subst c'. split; [lia|].
      replace (adds' - adds') with 0 by lia.
      assert (Hadd : add = true) by (destruct add; [reflexivity|discriminate]). subst add.
      cbn [andb] in Eu.
      assert (Hcase : find keqb f (fkey d) = None \/ promote = true).
      { destruct promote; [right; reflexivity|left]. rewrite orb_false_r in Eu.
        apply present_false_find. rewrite <- Hh. destruct h; [discriminate|reflexivity]. }
      pose proof (step_fresh keqb keqb_spec f (fkey d) promote Hwf Hcase) as Hfr.
      rewrite <- Hf1 in Hfr. eapply (life_ge_weaken keqb keqb_spec); [|exact Hfr].
      unfold window. rewrite <- Hnb, Hmx. lia.
    + rewrite tbl_get_set_other in Eg' by exact Hne. exact (Hold c' Eg').
Qed.

(* every call sequence on a fresh filter: the model's answers satisfy the filter specification *)
Lemma spec_filter_model n mx f0 ops :
  make_filter (D:=list N) n mx = Some f0 ->
  spec_filter (N.of_nat n) mx ops (snd (run_ops keqb f0 (map mk_op ops))) = true.
Proof.
  intros Hmk. unfold spec_filter. apply spec_filter_walk_model. split.
  - intros d _. eapply (make_filter_absent keqb). exact Hmk.
  - intros Hm. destruct (make_filter_wf n mx f0 Hmk Hm) as (Hwf & Hnb & Hmx).
    split; [exact Hwf|]. split; [congruence|]. split; [exact Hmx|]. intros d c Eg. discriminate.
Qed.

(* ------------------------------------------------------------------ statements for props/C43.v *)
(* the slurper of a connection after any history of earlier messages (any outcomes) *)
Fixpoint conn_state (s : slurper) (hist : list (N * N * list ev)) : slurper :=
  match hist with
  | [] => s
  | (limit, total, script) :: rest => conn_state (snd (fst (slurp s limit total script))) rest
  end.

Lemma conn_state_ginv base maxA hist :
  maxA + allocationStep <= two64 ->
  ginv (N.min base maxA) maxA (conn_state (make_slurper base maxA) hist).
Proof.
  intros Hnw. assert (HBM : N.min base maxA <= maxA) by lia.
  pose proof (make_ginv _ _ HBM Hnw base maxA eq_refl eq_refl) as Hg.
  revert Hg. generalize (make_slurper base maxA) as s.
  induction hist as [|[[limit total] script] rest IH]; intros s Hg; cbn [conn_state]; [exact Hg|].
  apply IH. pose proof (slurp_spec _ _ HBM Hnw s limit total script Hg) as Hs.
  destruct (slurp s limit total script) as [[o s'] r']. cbn [fst snd]. destruct Hs as (((Hg' & _) & _) & _). exact Hg'.
Qed.

(* what [spec_slurp_msg] says, as a proposition *)
Definition slurp_prop (base maxA limit total : N) (script : list ev)
           (err size : N) (cok : bool) (remained alloc held : N) : Prop :=
  held <= alloc /\ (0 < limit -> limit < held -> err = 1) /\ (err = 0 -> held = size) /\
  alloc + remained = maxA /\ N.min base maxA <= alloc /\
  alloc <= maxA /\ (0 < limit -> alloc <= N.max (N.min base maxA) (limit + allocationStep)) /\
  err <= 2 /\
  (err = 0 -> size = total /\ cok = true /\ (0 < limit -> total <= limit) /\ total <= maxA) /\
  (err = 1 -> (0 < limit /\ limit < total) \/ maxA < total) /\
  (err = 2 -> has_err_ev script) /\
  (~ has_err_ev script -> (err = 1 <-> ((0 < limit /\ limit < total) \/ maxA < total)) /\ err <= 1).

Lemma spec_slurp_sound base maxA limit total script err size cok remained alloc held :
  spec_slurp_msg base maxA limit total script err size cok remained alloc held = true ->
  slurp_prop base maxA limit total script err size cok remained alloc held.
Proof.
  unfold spec_slurp_msg, slurp_prop, alloc_bound. intros H.
  repeat (apply andb_true_iff in H; let K := fresh "K" in destruct H as [H K]).
  pose proof (has_err_iff script) as He.
  assert (Htl : too_long limit maxA total = true <-> ((0 < limit /\ limit < total) \/ maxA < total))
    by (unfold too_long; lia).
  destruct (too_long limit maxA total) eqn:Etl;
  destruct (has_err script) eqn:Eh;
  destruct ((0 <? limit) && (limit <? held)) eqn:E5;
  destruct (N.eqb_spec limit 0) as [El|El];
  destruct err as [|[p|p|]]; try destruct p; cbn [N.eqb Pos.eqb orb] in *; try discriminate;
    destruct cok; try discriminate;
    repeat match goal with |- _ /\ _ => split end; intros; try discriminate; try lia; try tauto.
Qed.

Lemma spec_slurp_conn base maxA hist limit total script :
  maxA + allocationStep <= two64 ->
  let m := snd (model_slurp_msg (conn_state (make_slurper base maxA) hist) limit total script) in
  spec_slurp_msg base maxA limit total script (so_err m) (so_size m) (so_cok m) (so_rem m) (so_alloc m)
                 (so_held m) = true.
Proof.
  intros Hnw. cbn zeta.
  pose proof (spec_slurp_model base maxA _ limit total script Hnw (conn_state_ginv base maxA hist Hnw)) as H.
  destruct (model_slurp_msg _ limit total script) as [s' m]. cbn [snd]. apply H.
Qed.

Lemma slurp_exact {A} base maxA hist limit (data : list A) script s' r' :
  maxA + allocationStep <= two64 ->
  slurp (conn_state (make_slurper base maxA) hist) limit (N.of_nat (length data)) script = (ROk, s', r') ->
  bytes_of data (segments s') = data /\ size s' = N.of_nat (length data) /\
  (0 < limit -> N.of_nat (length data) <= limit) /\ N.of_nat (length data) <= maxA.
Proof.
  intros Hnw E. assert (HBM : N.min base maxA <= maxA) by lia.
  pose proof (conn_state_ginv base maxA hist Hnw) as Hg.
  destruct (slurp_content base maxA _ limit data script s' r' Hnw Hg E) as (Hb & Hs).
  split; [exact Hb|]. split; [exact Hs|].
  pose proof (slurp_spec _ _ HBM Hnw _ limit (N.of_nat (length data)) script Hg) as Hsp.
  rewrite E in Hsp. destruct Hsp as (((_ & _ & _ & Hpost) & _) & _). cbn [reset maxSize rtotal] in Hpost.
  destruct Hpost as (_ & _ & Hlim & HleM). split; [|exact HleM]. intros Hl. destruct Hlim; lia.
Qed.

(* filter statements on a filter reached from a fresh one by any earlier calls *)
Lemma filter_dedup {D} (deqb : D -> D -> bool) (Hd : forall x y, reflect (x = y) (deqb x y))
      n mx f0 pre d p ops :
  make_filter n mx = Some f0 -> (1 <= mx)%Z ->
  let f := fst (run_ops deqb f0 pre) in
  (find deqb f d = None \/ p = true) ->
  (Z.of_nat (count_adds ops) < (Z.of_nat n - 1) * mx)%Z ->
  present deqb (fst (run_ops deqb (fst (check_digest deqb f d true p)) ops)) d = true.
Proof.
  intros Hmk Hm f Hc Hlt.
  destruct (make_filter_wf n mx f0 Hmk Hm) as (Hwf & Hnb & Hmx).
  assert (H0 : life_ge deqb f0 d 0) by (left; lia).
  destruct (run_life deqb Hd pre f0 d 0 Hwf H0) as (Hwf' & _ & Hnb' & Hmx'). cbn zeta in *. fold f in Hwf', Hnb', Hmx'.
  apply filter_dedup_lemma; auto. rewrite Hnb', Hmx', Hnb, Hmx. exact Hlt.
Qed.

Lemma filter_no_false_positive {D} (deqb : D -> D -> bool) (Hd : forall x y, reflect (x = y) (deqb x y))
      n mx f0 ops d :
  make_filter n mx = Some f0 ->
  (forall p, ~ In (Op d true p) ops) ->
  Forall2 (fun o h => op_digest o = d -> h = false) ops (snd (run_ops deqb f0 ops)).
Proof.
  intros Hmk Hno. apply (filter_nfp_lemma deqb Hd ops f0 d); [|exact Hno].
  eapply make_filter_absent. exact Hmk.
Qed.

(* net statements for connections as readLoop creates them and any filter geometry *)
Lemma Forall_repeat {A} (P : A -> Prop) x k : P x -> Forall P (repeat x k).
Proof. intros H. induction k; cbn [repeat]; constructor; auto. Qed.

Lemma net_bounded_fresh k flt sched :
  Forall2 (fun ifr res => forall len, res = PDelivered len ->
             len = ftotal (snd ifr) /\ in_tags (ftag (snd ifr)) deliver_tags = true /\
             0 < tag_limit (ftag (snd ifr)) /\ len <= tag_limit (ftag (snd ifr)) /\
             len <= TagLimits.maxMessageLength)
          sched (net_run (repeat new_peer k) flt sched).
Proof. apply net_delivered_bounded. apply Forall_repeat. exact new_peer_inv. Qed.

Lemma net_no_duplicate_fresh k n mx flt pre i1 fr1 mid i2 fr2 post :
  make_filter n mx = Some flt -> (1 <= mx)%Z ->
  dedup_safe (ftag fr1) = true -> 0 < ftotal fr1 ->
  ftag fr2 = ftag fr1 -> fid fr2 = fid fr1 -> ftotal fr2 = ftotal fr1 ->
  (Z.of_nat (length mid) < (Z.of_nat n - 1) * mx)%Z ->
  let res := net_run (repeat new_peer k) flt (pre ++ (i1, fr1) :: mid ++ (i2, fr2) :: post) in
  (exists len, nth_error res (length pre) = Some (PDelivered len)) ->
  forall len, nth_error res (length pre + 1 + length mid) <> Some (PDelivered len).
Proof.
  intros Hmk Hm. destruct (make_filter_wf n mx flt Hmk Hm) as (Hwf & Hnb & Hmx).
  intros. apply net_no_duplicate; auto.
  - apply Forall_repeat. exact new_peer_inv.
  - rewrite Hnb, Hmx. assumption.
Qed.

(* ------------------------------------------------------------------ witnesses *)
(* the literal reading "never buffers more than the tag's limit" is false: with the readLoop
   geometry (base 2048, max 6 MiB) a 70 000-byte frame under a 6378-byte limit (tag SP) is
   rejected only after 67 584 bytes of buffer were allocated and filled *)
Lemma literal_limit_witness :
  let '(o, s', r') := slurp (make_slurper 2048 6291456) 6378 70000 [] in
  o = RTooLarge /\ allocated s' = 67584 /\ bytesRead s' = 67584 /\ 6378 < bytesRead s'.
Proof. vm_compute. repeat split; reflexivity. Qed.

(* a tag without a limit (unknown or deprecated: MaxMessageSize() = 0) is read up to the
   connection maximum before readLoop drops it *)
Lemma unknown_tag_witness :
  tag_limit [122; 122] = 0 /\
  let '(o, s', r') := slurp (make_slurper 2048 6291456) (tag_limit [122; 122]) 6291456 [] in
  o = ROk /\ size s' = 6291456.
Proof. vm_compute. repeat split; reflexivity. Qed.

Lemma literal_limit_refuted :
  exists base maxA limit total script,
    let '(o, s', r') := slurp (make_slurper base maxA) limit total script in
    0 < limit /\ limit < bytesRead s' /\ bytesRead s' <= allocated s' /\ o = RTooLarge.
Proof.
  exists 2048, 6291456, 6378, 70000, []. vm_compute. repeat split; (reflexivity || discriminate).
Qed.
